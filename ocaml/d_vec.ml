(* qvector: runs the extracted model (VectorModel.vstep) and the extracted specification (VectorSpec.vsstep) on an op file.
   For each op prints two lines:  "M <observation> | num=.. max=.. objsize=.. data=<first num*objsize bytes>"  and  "S <spec observation> | <elements>". *)
open Vec_model
module U = Util.Make(Vec_model)
open U
let res_str f r = match r with Ok x -> f x | Crash -> "CRASH" | Fuel -> "FUEL"

let cell_hex = function VByte b -> Printf.sprintf "%02x" ((int_of_n b) land 0xff) | VUndef -> "??"
let cells_hex l = if l = [] then "-" else String.concat "" (List.map cell_hex l)
let err_str = function VEINVAL -> "EINVAL" | VERANGE -> "ERANGE" | VENOENT -> "ENOENT"
let obs_str (f : 'a list -> string) (o : 'a vobs) : string =
  match o with
  | VOBool b -> if b then "true" else "false"
  | VORefused e -> "refused " ^ err_str e
  | VOElem e -> "elem " ^ f e
  | VONum n -> string_of_int (int_of_nat n)
  | VOUnit -> "ok"
  | VOArray (a, n) -> "array " ^ string_of_int (int_of_nat n) ^ " " ^ f a
  | VOWalk (l, e) -> "walk " ^ (if e then "end" else "more") ^ " " ^ String.concat "," (List.map f l)
let rec take n l = if n <= 0 then [] else match l with [] -> [] | x :: r -> x :: take (n - 1) r
let dump (s : vec) : string =
  let n = int_of_nat s.vnum and os = int_of_nat s.vobjsize in
  Printf.sprintf "num=%d max=%d objsize=%d data=%s" n (int_of_nat s.vmax) os
    (match s.vdata with None -> if n = 0 then "-" else "NULL" | Some b -> cells_hex (take (n * os) b))
let sdump (l : n list list) : string = String.concat "," (List.map hex_of_bytes l)
let data_arg w = if w = "NULL" then None else Some (bytes_of_hex w)

let run () =
  let st : vec option ref = ref None in
  let sp : n list list ref = ref [] in
  let dead = ref false in
  iter_lines (fun line ->
    let ws = words line in
    let zi w = z_of_int (int_of_string w) in
    match ws with
    | ["new"; mx; os; opts] ->
        dead := false; sp := [];
        st := vnew (nat_of_int (int_of_string mx)) (nat_of_int (int_of_string os)) (zi opts);
        (match !st with
         | Some s -> print_endline ("M ok | " ^ dump s); print_endline "S ok | "
         | None -> print_endline "M refused EINVAL"; print_endline ("S " ^ (if int_of_string os = 0 then "refused EINVAL" else "ok | ")))
    | _ ->
      (* addself i j: addat(i, getat(j, newmem=false)) - the new element is handed in through a pointer into the vector itself;
         it means: insert a copy of what element j holds before the call *)
      let self_elem j = let l = !sp in let n = List.length l in let jj = int_of_string j in let jj = if jj < 0 then n + jj else jj in
                        if jj < 0 || jj >= n then None else Some (List.nth l jj) in
      let o = match ws with
        | ["addself"; _; _] -> Some VSize      (* placeholder: handled below through vaddself / vs_addself *)
        | ["addat"; i; d] -> Some (VAddAt (zi i, data_arg d))
        | ["addfirst"; d] -> Some (VAddFirst (bytes_of_hex d))
        | ["addlast"; d] -> Some (VAddLast (bytes_of_hex d))
        | ["getat"; i] -> Some (VGetAt (zi i))
        | ["getfirst"] -> Some VGetFirst
        | ["getlast"] -> Some VGetLast
        | ["setat"; i; d] -> Some (VSetAt (zi i, bytes_of_hex d))
        | ["setfirst"; d] -> Some (VSetFirst (bytes_of_hex d))
        | ["setlast"; d] -> Some (VSetLast (bytes_of_hex d))
        | ["popat"; i] -> Some (VPopAt (zi i))
        | ["popfirst"] -> Some VPopFirst
        | ["poplast"] -> Some VPopLast
        | ["removeat"; i] -> Some (VRemoveAt (zi i))
        | ["removefirst"] -> Some VRemoveFirst
        | ["removelast"] -> Some VRemoveLast
        | ["size"] -> Some VSize
        | ["resize"; n] -> Some (VResize (nat_of_int (int_of_string n)))
        | ["clear"] -> Some VClear
        | ["reverse"] -> Some VReverse
        | ["toarray"] -> Some VToArray
        | [("walk" | "walkip" | "walkmix"); s; n] -> Some (VWalk (zi s, nat_of_int (int_of_string n)))   (* in-place and copying steps hand out the same bytes *)
        | _ -> None in
      match o, !st with
      | None, _ -> print_endline ("M ?? " ^ line); print_endline "S ??"
      | _, None -> print_endline "M NOVEC"; print_endline "S NOVEC"
      | Some o, Some s ->
        if !dead then (print_endline "M DEAD"; print_endline "S DEAD") else begin
          let noself = (match ws with ["addself"; _; j] -> self_elem j = None | _ -> false) in
          let is_self = (match ws with ["addself"; _; _] -> true | _ -> false) in
          (match (match ws with ["addself"; i; j] -> vaddself s (zi i) (zi j) | _ -> vstep s o) with
           | Ok (s', ob) -> st := Some s'; print_endline ("M " ^ (if noself then "noself" else obs_str cells_hex ob) ^ " | " ^ dump s')
           | Crash -> dead := true; print_endline "M CRASH"
           | Fuel -> dead := true; print_endline "M FUEL");
          let (l', sob) = (match ws with ["addself"; i; j] -> vs_addself !sp (zi i) (zi j) | _ -> vsstep !sp o) in
          ignore is_self;
          sp := l';
          print_endline ("S " ^ (if noself then "noself" else obs_str hex_of_bytes sob) ^ " | " ^ sdump l')
        end)
