(* qlist / qqueue / qstack / qgrow: runs the extracted models (QL.step, QW.wstep, QW.gstep) and the extracted
   specifications (QLS.sstep, QWS.wsstep, QWS.gsstep) on an op file.
   For each op prints two lines:  "M <observation> | <structure>"  and  "S <spec observation> | <spec contents>". *)
open Seq_model
module U = Util.Make(Seq_model)
open U
let res_str f r = match r with Ok x -> f x | Crash -> "CRASH" | Fuel -> "FUEL"

(* decimal strings <-> Z through Int64 (int64_t arguments and results do not fit OCaml's 63-bit int) *)
let rec pos_of_int64 (i : int64) : positive =
  if i = 1L then XH
  else if Int64.logand i 1L = 1L then XI (pos_of_int64 (Int64.shift_right_logical i 1))
  else XO (pos_of_int64 (Int64.shift_right_logical i 1))
let z_of_string (s : string) : z =
  let i = Int64.of_string s in
  if i = 0L then Z0 else if i > 0L then Zpos (pos_of_int64 i)
  else if i = Int64.min_int then Zneg (pos_of_int64 i)          (* bit pattern of 2^63 read as unsigned *)
  else Zneg (pos_of_int64 (Int64.neg i))
let rec int64_of_pos (p : positive) : int64 = match p with
  | XH -> 1L | XO q -> Int64.mul 2L (int64_of_pos q) | XI q -> Int64.add (Int64.mul 2L (int64_of_pos q)) 1L
let data_of = function "null" -> None | h -> Some (bytes_of_hex h)
let bool_of = function "0" -> false | _ -> true
let errs = function QL.EINVAL -> "EINVAL" | QL.ENOBUFS -> "ENOBUFS" | QL.ERANGE -> "ERANGE" | QL.ENOENT -> "ENOENT" | QL.EAGAIN -> "EAGAIN"
let zs (x : z) = match x with Z0 -> "0" | Zpos p -> Printf.sprintf "%Lu" (int64_of_pos p) | Zneg p -> "-" ^ Printf.sprintf "%Lu" (int64_of_pos p)
let obs_str = function
  | QL.OOk -> "ok"
  | QL.OFail e -> "fail " ^ errs e
  | QL.OFailSz (e, sz) -> "fail " ^ errs e ^ " size=" ^ zs sz
  | QL.OData b -> "data " ^ hex_of_bytes b
  | QL.ONum z -> "num " ^ zs z
  | QL.OArr (b, sz) -> "arr " ^ hex_of_bytes b ^ " size=" ^ zs sz
  | QL.OStr b -> "str " ^ hex_of_bytes b
  | QL.OInt z -> "int " ^ zs z
  | QL.OCStr None -> "cstr null"
  | QL.OCStr (Some b) -> "cstr " ^ hex_of_bytes b
  | QL.OUndef -> "UNDEF"
let dump (q : QL.qlist) =
  Printf.sprintf "num=%s sum=%s max=%s [%s]" (zs q.QL.num) (zs q.QL.datasum) (zs q.QL.maxn)
    (String.concat "," (List.map (fun (_, b) -> hex_of_bytes b) q.QL.items))
let sdump (l : n list list) (m : z) = Printf.sprintf "max=%s [%s]" (zs m) (String.concat "," (List.map hex_of_bytes l))

let list_op ws : QL.op option = match ws with
  | ["addfirst"; d] -> Some (QL.AddFirst (data_of d))
  | ["addlast"; d] -> Some (QL.AddLast (data_of d))
  | ["addat"; i; d] -> Some (QL.AddAt (z_of_string i, data_of d))
  | ["getfirst"; nm] -> Some (QL.GetFirst (bool_of nm))
  | ["getlast"; nm] -> Some (QL.GetLast (bool_of nm))
  | ["getat"; i; nm] -> Some (QL.GetAt (z_of_string i, bool_of nm))
  | ["popfirst"] -> Some QL.PopFirst
  | ["poplast"] -> Some QL.PopLast
  | ["popat"; i] -> Some (QL.PopAt (z_of_string i))
  | ["removefirst"] -> Some QL.RemoveFirst
  | ["removelast"] -> Some QL.RemoveLast
  | ["removeat"; i] -> Some (QL.RemoveAt (z_of_string i))
  | ["next"; nm] -> Some (QL.GetNext (bool_of nm))
  | ["curreset"] -> Some QL.CurReset
  | ["reverse"] -> Some QL.Reverse
  | ["clear"] -> Some QL.Clear
  | ["setsize"; m] -> Some (QL.SetSize (z_of_string m))
  | ["size"] -> Some QL.Size
  | ["datasize"] -> Some QL.DataSize
  | ["toarray"] -> Some QL.ToArray
  | ["tostring"] -> Some QL.ToString
  | _ -> None
let wrap_op ws : QW.wop option = match ws with
  | ["push"; d] -> Some (QW.WPush (data_of d))
  | ["pushstr"; d] -> Some (QW.WPushStr (data_of d))
  | ["pushint"; z] -> Some (QW.WPushInt (z_of_string z))
  | ["pop"] -> Some QW.WPop
  | ["popstr"] -> Some QW.WPopStr
  | ["popint"] -> Some QW.WPopInt
  | ["popat"; i] -> Some (QW.WPopAt (z_of_string i))
  | ["get"; nm] -> Some (QW.WGet (bool_of nm))
  | ["getstr"] -> Some QW.WGetStr
  | ["getint"] -> Some QW.WGetInt
  | ["getat"; i; nm] -> Some (QW.WGetAt (z_of_string i, bool_of nm))
  | ["size"] -> Some QW.WSize
  | ["clear"] -> Some QW.WClear
  | ["setsize"; m] -> Some (QW.WSetSize (z_of_string m))
  | _ -> None
let grow_op ws : QW.gop option = match ws with
  | ["add"; d] -> Some (QW.GAdd (data_of d))
  | ["addstr"; d] -> Some (QW.GAddStr (data_of d))
  | ["addstrf"; d] -> Some (QW.GAddStr (data_of d))   (* the formatted variant: "%s" of the same text *)
  | ["size"] -> Some QW.GSize
  | ["datasize"] -> Some QW.GDataSize
  | ["toarray"] -> Some QW.GToArray
  | ["tostring"] -> Some QW.GToString
  | ["clear"] -> Some QW.GClear
  | _ -> None

type cont = CList | CQueue | CStack | CGrow

let run () =
  let kind = ref CList in
  let lst = ref QL.init in          (* list + cursor *)
  let lsp = ref QLS.sinit in
  let wq = ref QL.linit in          (* wrappers: the underlying list *)
  let wsp = ref QWS.winit in
  let gsp = ref [] in
  let dead = ref false in
  let reset () = lst := QL.init; lsp := QLS.sinit; wq := QL.linit; wsp := QWS.winit; gsp := []; dead := false in
  let crash r = dead := true; print_endline (match r with Crash -> "M CRASH" | _ -> "M FUEL") in
  iter_lines (fun line ->
    let ws = words line in
    match ws with
    | ["new"; c] ->
      kind := (match c with "queue" -> CQueue | "stack" -> CStack | "grow" -> CGrow | _ -> CList); reset ()
    | _ ->
      let bad () = print_endline ("M ?? " ^ line); print_endline "S ??" in
      (match !kind with
       | CList ->
         (match list_op ws with
          | None -> bad ()
          | Some o ->
            if !dead then print_endline "M DEAD"
            else (match QL.step !lst o with
                  | Ok (s', ob) -> lst := s'; print_endline ("M " ^ obs_str ob ^ " | " ^ dump (fst s'))
                  | r -> crash r);
            let (sp', sob) = QLS.sstep !lsp o in
            lsp := sp';
            print_endline ("S " ^ obs_str sob ^ " | " ^ sdump sp'.QLS.sl sp'.QLS.smax))
       | CQueue | CStack ->
         let k = if !kind = CQueue then QW.Queue else QW.Stack in
         (match wrap_op ws with
          | None -> bad ()
          | Some o ->
            if !dead then print_endline "M DEAD"
            else (match QW.wstep k !wq o with
                  | Ok (q', ob) -> wq := q'; print_endline ("M " ^ obs_str ob ^ " | " ^ dump q')
                  | r -> crash r);
            let (sp', sob) = QWS.wsstep k !wsp o in
            wsp := sp';
            print_endline ("S " ^ obs_str sob ^ " | " ^ sdump (fst sp') (snd sp')))
       | CGrow ->
         (match grow_op ws with
          | None -> bad ()
          | Some o ->
            if !dead then print_endline "M DEAD"
            else (match QW.gstep !wq o with
                  | Ok (q', ob) -> wq := q'; print_endline ("M " ^ obs_str ob ^ " | " ^ dump q')
                  | r -> crash r);
            let (sp', sob) = QWS.gsstep !gsp o in
            gsp := sp';
            print_endline ("S " ^ obs_str sob ^ " | " ^ sdump sp' Z0))))
