(* hash table (C05): runs the extracted model (HashtblModel.hstep) and the extracted specification (HashtblSpec.hsstep)
   on an op file.  For each op prints two lines:  "M <observation> | <structure>"  and  "S <spec observation> | n=<size>".
   The model's hash function is a parameter; it is instantiated here with a hand-written MurmurHash3_32 (NOT extracted,
   not verified: it only has to make the model's chains line up with the implementation's, and the check compares it
   with the C function on every run through the "hash" op). *)
open Hashtbl_model
module U = Util.Make(Hashtbl_model)
open U
let res_str f r = match r with Ok x -> f x | Crash -> "CRASH" | Fuel -> "FUEL"

let m32 = 0xffffffff
let rotl32 x r = ((x lsl r) lor (x lsr (32 - r))) land m32
(* qhashmurmur3_32(data, nbytes), seed 0, little-endian block loads, 0 for the empty string *)
let murmur3_32 (s : int array) : int =
  let n = Array.length s in
  if n = 0 then 0 else begin
    let c1 = 0xcc9e2d51 and c2 = 0x1b873593 in
    let h = ref 0 in
    let nblocks = n / 4 in
    for i = 0 to nblocks - 1 do
      let k = s.(4 * i) lor (s.(4 * i + 1) lsl 8) lor (s.(4 * i + 2) lsl 16) lor (s.(4 * i + 3) lsl 24) in
      let k = (k * c1) land m32 in
      let k = rotl32 k 15 in
      let k = (k * c2) land m32 in
      h := !h lxor k;
      h := rotl32 !h 13;
      h := (!h * 5 + 0xe6546b64) land m32
    done;
    let t = nblocks * 4 in
    let k = ref 0 in
    let r = n land 3 in
    if r >= 3 then k := !k lxor (s.(t + 2) lsl 16);
    if r >= 2 then k := !k lxor (s.(t + 1) lsl 8);
    if r >= 1 then begin
      k := !k lxor s.(t);
      k := (!k * c1) land m32;
      k := rotl32 !k 15;
      k := (!k * c2) land m32;
      h := !h lxor !k
    end;
    h := !h lxor (n land m32);
    h := !h lxor (!h lsr 16);
    h := (!h * 0x85ebca6b) land m32;
    h := !h lxor (!h lsr 13);
    h := (!h * 0xc2b2ae35) land m32;
    h := !h lxor (!h lsr 16);
    !h
  end
let hash_model (k : n list) : n = n_of_int (murmur3_32 (Array.of_list (List.map int_of_n k)))

(* int64 <-> Z without going through OCaml's 63-bit int *)
let rec pos_of_u64 (x : int64) : positive =
  if x = 1L then XH
  else if Int64.logand x 1L = 1L then XI (pos_of_u64 (Int64.shift_right_logical x 1))
  else XO (pos_of_u64 (Int64.shift_right_logical x 1))
let z_of_int64 (x : int64) : z =
  if x = 0L then Z0 else if Int64.compare x 0L > 0 then Zpos (pos_of_u64 x) else Zneg (pos_of_u64 (Int64.neg x))
let rec u64_of_pos (p : positive) : int64 =
  match p with XH -> 1L | XO q -> Int64.shift_left (u64_of_pos q) 1 | XI q -> Int64.logor (Int64.shift_left (u64_of_pos q) 1) 1L
let string_of_z (x : z) : string =
  match x with Z0 -> "0" | Zpos p -> Printf.sprintf "%Lu" (u64_of_pos p) | Zneg p -> "-" ^ Printf.sprintf "%Lu" (u64_of_pos p)

let kv_str (k, v) = hex_of_bytes k ^ "=" ^ hex_of_bytes v
let err_str = function HEINVAL -> "EINVAL" | HENOENT -> "ENOENT"
let obs_str (o : hobs) : string =
  match o with
  | HOk -> "true"
  | HErr e -> "fail " ^ err_str e
  | HVal v -> "val " ^ hex_of_bytes v
  | HInt z -> "int " ^ string_of_z z
  | HNum n -> "num " ^ string_of_int (int_of_n n)
  | HUnit -> "ok"
  | HWalked (l, e) -> "walk " ^ (if e then "end" else "more") ^ " " ^ String.concat "," (List.map kv_str l)

let fnv32 (s : string) : int =
  let h = ref 0x811c9dc5 in
  String.iter (fun c -> h := ((!h lxor Char.code c) * 16777619) land m32) s; !h

(* the text of a node is rebuilt only when its data changed (a node keeps its id; replace swaps the data) *)
let ent_cache : (int, n list * string) Hashtbl.t = Hashtbl.create 4096
let ent_str (e : hent) : string =
  let id = int_of_pos e.eid in
  match Hashtbl.find_opt ent_cache id with
  | Some (d, s) when d == e.edata -> s
  | _ ->
    let s = Printf.sprintf "%d/%08x/%s=%s" id (int_of_n e.ehash) (hex_of_bytes e.ename) (hex_of_bytes e.edata) in
    Hashtbl.replace ent_cache id (e.edata, s); s

let dump_slots (s : htbl) : string =
  let b = Buffer.create 256 in
  List.iteri (fun i ch ->
    if ch <> [] then begin
      if Buffer.length b > 0 then Buffer.add_char b ';';
      Buffer.add_string b (string_of_int i); Buffer.add_char b ':';
      List.iteri (fun j e ->
        if j > 0 then Buffer.add_char b ',';
        Buffer.add_string b (ent_str e)) ch
    end) s.hslots;
  Buffer.contents b

let run () =
  let st = ref (hinit (n_of_int 0)) in
  let sp = ref [] in
  let dump = ref true in
  let dead = ref false in
  let sdead = ref false in
  iter_lines (fun line ->
    let ws = words line in
    match ws with
    | ["new"; r] -> Hashtbl.reset ent_cache; st := hinit (n_of_int (int_of_string r)); sp := []; dead := false; sdead := false
    | ["dump"; d] -> dump := (d = "1")
    | ["hash"; k] -> let h = int_of_n (hash_model (bytes_of_hex k)) in
                     Printf.printf "M hash %d\nS hash %d\n" h h
    | ["atoll"; v] -> let b = bytes_of_hex v @ [N0] in
                      let s = if hatoll_stops b then "atoll " ^ string_of_z (hatoll b) else "atoll overread" in
                      print_endline ("M " ^ s); print_endline ("S " ^ s)
    | ["puthuge"; _] ->
      (* a put whose value cannot be allocated (size SIZE_MAX/2): refused with ENOMEM, the table is what it was (the state is not stepped) *)
      (if !dead then print_endline "M DEAD" else
         let s' = !st in
         let d = dump_slots s' in
         let d = if !dump then d else Printf.sprintf "fnv=%08x" (fnv32 d) in
         print_endline (Printf.sprintf "M fail ENOMEM | num=%d range=%d %s" (int_of_n s'.hnum) (int_of_n s'.hrange) d));
      (if !sdead then print_endline "S DEAD" else print_endline (Printf.sprintf "S fail ENOMEM | n=%d" (List.length !sp)))
    | ["printd"; z] -> let s = "printd " ^ hex_of_bytes (hprint_dec (z_of_int64 (Int64.of_string z))) in
                       print_endline ("M " ^ s); print_endline ("S " ^ s)
    | _ ->
      let o = match ws with
        | ["put"; k; v] | ["putown"; k; v] -> Some (HPut (bytes_of_hex k, bytes_of_hex v))   (* putown: the key pointer is the table's own copy *)
        | ["putpre"; k; v; n] -> Some (HPut (bytes_of_hex k, List.filteri (fun i _ -> i < int_of_string n) (bytes_of_hex v)))   (* put v, then put the first n bytes of the table's own buffer: as one put of the prefix *)
        | ["putnull"; k] -> Some (HPutNullData (bytes_of_hex k))
        | ["putstr"; k; s] -> Some (HPutStr (bytes_of_hex k, bytes_of_hex s))
        | ["putstrnull"; k] -> Some (HPutStrNull (bytes_of_hex k))
        | ["putint"; k; z] -> Some (HPutInt (bytes_of_hex k, z_of_int64 (Int64.of_string z)))
        | ["get"; k] | ["getref"; k] -> Some (HGet (bytes_of_hex k))
        | ["getstr"; k] -> Some (HGetStr (bytes_of_hex k))
        | ["getint"; k] -> Some (HGetInt (bytes_of_hex k))
        | ["remove"; k] -> Some (HRemove (bytes_of_hex k))
        | ["putnn"; v] -> Some (HPutNullName (bytes_of_hex v))
        | ["getnn"] -> Some HGetNullName
        | ["removenn"] -> Some HRemoveNullName
        | ["clear"] -> Some HClear
        | ["size"] -> Some HSize
        | ["walk"; n] -> Some (HWalk (nat_of_int (int_of_string n)))
        | ["walkget"; n; _] -> Some (HWalk (nat_of_int (int_of_string n)))   (* reads between the steps: same walk *)
        | _ -> None in
      match o with
      | None -> print_endline ("M ?? " ^ line); print_endline "S ??"
      | Some o ->
        (if !dead then print_endline "M DEAD" else
         match hstep hash_model !st o with
         | Ok (s', ob) ->
           st := s';
           let d = dump_slots s' in
           let d = if !dump then d else Printf.sprintf "fnv=%08x" (fnv32 d) in
           print_endline (Printf.sprintf "M %s | num=%d range=%d %s" (obs_str ob) (int_of_n s'.hnum) (int_of_n s'.hrange) d)
         | Crash -> dead := true; print_endline "M CRASH"
         | Fuel -> dead := true; print_endline "M FUEL");
        (if !sdead then print_endline "S DEAD" else
         match hsstep !sp o with
         | None -> sdead := true; print_endline "S UNDEFINED"
         | Some (m', sob) ->
           sp := m';
           let n = List.length m' in
           (match sob with
            | HSObs ob -> print_endline (Printf.sprintf "S %s | n=%d" (obs_str ob) n)
            | HSWalk (all, k) ->
              let k = int_of_nat k in
              let l = List.sort Stdlib.compare (List.map kv_str all) in
              print_endline (Printf.sprintf "S walk %s %d %s | n=%d" (if n < k then "end" else "more") (Stdlib.min k n) (String.concat "," l) n))))
