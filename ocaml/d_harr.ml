(* static hash table: extracted image model (HarrModel.xstep) and extracted ideal bounded map (HarrSpec.sstep).
   Keys are indices into a key table given by "key <i> <hex> <home>" lines (home = murmur3_32(key) mod capacity,
   supplied by the check); per op:  "M <obs> | <image>"  and  "S <obs>". *)
open Harr_model
module U = Util.Make(Harr_model)
open U

let sum (l : nat list) = hex_of_bytes (List.map (fun b -> n_of_int (int_of_nat b)) l)
let vstr (v : nat list) = sum v
let val_of_hex h = List.map (fun x -> nat_of_int (int_of_n x)) (bytes_of_hex h)

let run () =
  let homes = Hashtbl.create 64 in
  let keq (a : int) (b : int) = a = b in
  let home (k : int) = nat_of_int (try Hashtbl.find homes k with Not_found -> 0) in
  let cap = ref 2 in
  let g = ref (init (nat_of_int 2)) in
  let am = ref ([] : (int * nat list) list) in
  (* slots are a function; rebuild it from an array after each op so that closure chains stay short (identity semantically) *)
  let normalize (x : int img) : int img =
    let a = Array.init !cap (fun i -> x.slots (nat_of_int i)) in
    let fs = free_slot in
    { x with slots = (fun i -> let j = int_of_nat i in if j < !cap then a.(j) else x.slots i) } in
  let image (x : int img) =
    let b = Buffer.create 256 in
    Buffer.add_string b (Printf.sprintf "u%d n%d " (int_of_z x.used) (int_of_z x.num));
    for i = 0 to !cap - 1 do
      let s = x.slots (nat_of_int i) in
      let c = int_of_z s.cnt in
      if c = 0 then Buffer.add_char b '.' else
        Buffer.add_string b (Printf.sprintf "[%d,%d,%d,%d,%s,%s]" c (int_of_nat s.hsh) (int_of_nat s.dsz) (int_of_z s.lnk)
          (match s.key with Some k when c <> -2 -> string_of_int k | _ -> "x")
          (vstr (let rec fn n l = match n, l with 0, _ | _, [] -> [] | n, a :: r -> a :: fn (n - 1) r in fn (int_of_nat s.dsz) s.dat)))
    done; Buffer.contents b in
  let ostr = function OBool b -> if b then "true" else "false" | OVal None -> "none" | OVal (Some v) -> vstr v in
  iter_lines (fun line ->
    match words line with
    | ["cap"; m] -> cap := int_of_string m; g := init (nat_of_int !cap); am := []; Hashtbl.reset homes
    | ["key"; i; _; h] -> Hashtbl.replace homes (int_of_string i) (int_of_string h)
    | ["reloc"; _] -> ()
    | ws ->
      let xo = match ws with
        | ["put"; k; v] -> Some (XBase (Put (int_of_string k, val_of_hex v)))
        | ["putf"; k; v] -> Some (XBase (Put (int_of_string k, val_of_hex v @ [nat_of_int 0])))   (* putstrf(key, "%s", text): the text and its terminator *)
        | ["get"; k] -> Some (XBase (Get (int_of_string k)))
        | ["del"; k] -> Some (XBase (Del (int_of_string k)))
        | ["delidx"; i] -> Some (XDelIdx (nat_of_int (int_of_string i)))
        | ["clear"] -> Some XClear
        | ["size"] -> Some XSize
        | ["walk"] -> Some XWalk
        | _ -> None in
      match xo with
      | None -> print_endline ("M ?? " ^ line); print_endline "S ??"
      | Some xo ->
        let g0 = !g in
        let (g', out) = xstep keq home g0 xo in
        g := normalize g';
        let obs = match out with
          | XOut o -> ostr o
          | XOSize (n, m, u) -> Printf.sprintf "%d %d %d" (int_of_z n) (int_of_nat m) (int_of_z u)
          | XOWalk l -> "walk " ^ String.concat "," (List.map (fun (k, v) -> (match k with Some k -> string_of_int k | None -> "?") ^ "=" ^ vstr v) l)
          | XOUnit -> "ok" in
        print_endline ("M " ^ obs ^ " | " ^ image !g);
        (* specification: the ideal bounded map; remove-by-index is removal of the key stored in that slot *)
        let capn = nat_of_int !cap in
        let sobs = match xo with
          | XBase b -> let (m', o) = sstep keq capn !am b in am := m'; ostr o
          | XDelIdx i ->
              let s = g0.slots i in
              let c = int_of_z s.cnt in
              if int_of_nat i < !cap && (c > 0 || c = -1) then
                (match s.key with Some k -> let (m', o) = sstep keq capn !am (Del k) in am := m'; ostr o | None -> "false")
              else "false"
          | XClear -> am := []; "ok"
          | XSize -> Printf.sprintf "%d %d %d" (List.length !am) !cap (int_of_z (aused !am))
          | XWalk -> "walk " ^ String.concat "," (List.sort compare (List.map (fun (k, v) -> string_of_int k ^ "=" ^ vstr v) !am)) in
        print_endline ("S " ^ sobs))
