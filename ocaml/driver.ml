let () =
  match Array.to_list Sys.argv with
  | _ :: "enc" :: _ -> D_enc.run ()
  | _ :: "tree" :: _ -> D_tree.run ()
  | _ :: "harr" :: _ -> D_harr.run ()
  | _ :: "str" :: _ -> D_str.run ()
  | _ :: "hashfn" :: _ -> D_hashfn.run ()
  | _ :: "vec" :: _ -> D_vec.run ()
  | _ :: "seq" :: _ -> D_seq.run ()
  | _ :: "hashtbl" :: _ -> D_hashtbl.run ()
  | _ :: "listtbl" :: _ -> D_listtbl.run ()
  | _ :: "conf" :: _ -> D_conf.run ()
  | _ :: "alloc" :: _ -> D_alloc.run ()
  | _ -> prerr_endline "usage: driver <area> < ops"; exit 2
