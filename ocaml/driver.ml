let () =
  match Array.to_list Sys.argv with
  | _ :: "enc" :: _ -> D_enc.run ()
  | _ :: "tree" :: _ -> D_tree.run ()
  | _ :: "conf" :: _ -> D_conf.run ()
  | _ -> prerr_endline "usage: driver <area> < ops"; exit 2
