let () =
  match Array.to_list Sys.argv with
  | _ :: "enc" :: _ -> D_enc.run ()
  | _ :: "hashfn" :: _ -> D_hashfn.run ()
  | _ -> prerr_endline "usage: driver <area> < ops"; exit 2
