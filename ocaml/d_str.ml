(* string utilities (C19): one op per line, one observation per line.  In-place routines run the buffer-level model on
   (string ++ [0]) -- exactly the bytes the harness hands to the C function -- and print the whole buffer afterwards.
   Lines starting with "spec" run the extracted reference definitions of Str/StrSpec.v (the property monitor). *)
open Str_model
module U = Util.Make(Str_model)
open U
let res_str f r = match r with Ok x -> f x | Crash -> "CRASH" | Fuel -> "FUEL"
let pl s = print_string s; print_char '\n'
let aa = ntab.(0xAA)
let rec fill k = if k <= 0 then [] else aa :: fill (k - 1)
let hb = bytes_of_hex
let hx = hex_of_bytes
let fuel_for l = nat_of_int (List.length l + 3)
let inplace f h = let s = hb h in pl (res_str hx (f (fuel_for s) (s @ [N0])))
let istr = int_of_string
let run () =
  iter_lines (fun line ->
    match words line with
    | ["trim"; h] -> inplace qstrtrim h
    | ["trimh"; h] -> inplace qstrtrim_head h
    | ["trimt"; h] -> inplace qstrtrim_tail h
    | ["rev"; h] -> inplace qstrrev h
    | ["upper"; h] -> inplace qstrupper h
    | ["lower"; h] -> inplace qstrlower h
    | ["unchar"; h; hd; tl] -> let s = hb h in let b = s @ [N0] in
        pl (res_str (fun r -> match r with None -> "NULL " ^ hx b | Some b' -> "OK " ^ hx b')
                         (qstrunchar (fuel_for s) b (n_of_int (istr hd)) (n_of_int (istr tl))))
    | ["repl"; mode; src; tok; word; cap] ->
        let s = hb src in let sb = s @ [N0] @ fill (istr cap - List.length s - 1) in
        let t = hb tok in
        pl (res_str (fun ((r, b), m) -> "R " ^ (match r with None -> "NULL" | Some o -> hx o) ^ " B " ^ hx b ^ " M " ^ string_of_int (int_of_nat m))
                         (qstrreplace (nat_of_int (List.length s + 3)) (hb mode) sb t (hb word)))
    | ["cpy"; size; src] -> let s = hb src in let sz = istr size in
        pl (res_str hx (qstrcpy (fuel_for s) (fill sz) (nat_of_int sz) (s @ [N0])))
    | ["cpyov"; _; size; src] -> let s = hb src in let sz = istr size in     (* overlapping buffers: the string that ends up at dst *)
        let rec upto0 l = match l with [] -> [] | x :: r -> if x = N0 then [] else x :: upto0 r in
        pl (res_str (fun o -> hx (upto0 o)) (qstrcpy (fuel_for s) (fill sz) (nat_of_int sz) (s @ [N0])))
    | ["ncpy"; size; src; nb] -> let s = hb src in let sz = istr size in
        pl (res_str hx (qstrncpy (fill sz) (nat_of_int sz) (s @ [N0]) (nat_of_int (istr nb))))
    | ["between"; s; st; en] ->
        pl (match qstrdup_between (hb s) (hb st) (hb en) with None -> "NULL" | Some o -> hx o)
    | ["memdup"; d; size] ->
        pl (res_str (fun r -> match r with None -> "NULL" | Some o -> hx o) (qmemdup (hb d) (nat_of_int (istr size))))
    | ["gets"; size; src; off] -> let s = hb src in let sz = istr size in
        pl (res_str (fun r -> match r with None -> "NULL" | Some (b, o) -> hx b ^ " " ^ string_of_int (int_of_z o))
                         (qstrgets (fuel_for s) (fill sz) (n_of_int sz) (s @ [N0]) (z_of_int (istr off))))
    | ["tok"; h; d; off] -> let s = hb h in
        pl (res_str (fun (((t, stop), o), b) ->
            (match t with None -> "NULL" | Some ts ->
               "T " ^ string_of_int (int_of_z ts) ^ " " ^ res_str hx (cstr_at (fuel_for s) b ts))
            ^ " " ^ string_of_int (int_of_z o) ^ " " ^ string_of_int (int_of_n stop) ^ " " ^ hx b)
          (qstrtok (fuel_for s) (s @ [N0]) (hb d) (z_of_int (istr off))))
    | ["tokz"; h; d] -> let s = hb h in
        pl (res_str (fun l -> String.concat " " (string_of_int (List.length l) :: List.map hx l))
                         (qstrtokenizer (fuel_for s) (s @ [N0]) (hb d)))
    | ["comma"; n] -> pl (res_str hx (qstr_comma_number (z_of_int (istr n))))
    | ["spec"; "comma"; n] -> pl (hx (comma_spec (z_of_int (istr n))))
    (* ---- reference definitions ---- *)
    | ["spec"; "trim"; h] -> pl (hx (trim_spec (hb h)))
    | ["spec"; "trimh"; h] -> pl (hx (trim_head_spec (hb h)))
    | ["spec"; "trimt"; h] -> pl (hx (trim_tail_spec (hb h)))
    | ["spec"; "rev"; h] -> pl (hx (List.rev (hb h)))
    | ["spec"; "upper"; h] -> pl (hx (upper_spec (hb h)))
    | ["spec"; "lower"; h] -> pl (hx (lower_spec (hb h)))
    | ["spec"; "unchar"; h; hd; tl] ->
        pl (match unchar_spec (hb h) (n_of_int (istr hd)) (n_of_int (istr tl)) with None -> "NULL" | Some o -> hx o)
    | ["spec"; "replt"; src; tok; word] -> pl (hx (replace_tok_spec (hb src) (hb tok) (hb word)))
    | ["spec"; "repls"; src; tok; word] -> pl (hx (replace_str_spec (hb src) (hb tok) (hb word)))
    | ["spec"; "cpy"; size; src] -> pl (hx (strcpy_spec (nat_of_int (istr size)) (hb src)))
    | ["spec"; "cpyov"; size; src] -> let rec upto0 l = match l with [] -> [] | x :: r -> if x = N0 then [] else x :: upto0 r in
        pl (hx (upto0 (strcpy_spec (nat_of_int (istr size)) (hb src))))
    | ["spec"; "ncpy"; size; src; nb] -> pl (hx (strncpy_spec (nat_of_int (istr size)) (nat_of_int (istr nb)) (hb src)))
    | ["spec"; "gets"; size; rest] ->
        pl (match gets_spec (nat_of_int (istr size)) (hb rest) with None -> "NULL" | Some (l, n) -> hx l ^ " " ^ string_of_int (int_of_nat n))
    | ["spec"; "tok"; d; rest] ->
        pl (match strtok_spec (hb d) (hb rest) with None -> "NULL"
                       | Some ((f, stop), n) -> hx f ^ " " ^ string_of_int (int_of_n stop) ^ " " ^ string_of_int (int_of_nat n))
    | ["spec"; "tokz"; h; d] -> let l = tokenize_spec (hb d) (hb h) in
        pl (String.concat " " (string_of_int (List.length l) :: List.map hx l))
    | _ -> pl ("?? " ^ line))
