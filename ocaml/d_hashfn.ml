(* C18: hash functions.  `driver hashfn` prints the buffer-level model's observation for each op, `driver hashfn spec`
   the published algorithm's (extracted FnvSpec / MurmurSpec / Md5Spec).  The model gets a buffer holding exactly the
   input bytes (nothing after them), so a model read past the input shows as CRASH. *)
open Hashfn_model
module U = Util.Make(Hashfn_model)
open U
let res_str f r = match r with Ok x -> f x | Crash -> "CRASH" | Fuel -> "FUEL"

let lcg_bytes seed len =
  let x = ref (seed land 0x7fffffff) in
  let r = ref [] in
  let a = Array.make len N0 in
  for i = 0 to len - 1 do x := (!x * 1103515245 + 12345) land 0x7fffffff; a.(i) <- ntab.((!x lsr 16) land 0xff) done;
  for i = len - 1 downto 0 do r := a.(i) :: !r done; !r

let data (s : string) : n list =
  if String.length s > 0 && s.[0] = 'R' then Scanf.sscanf s "R%d,%d" lcg_bytes else bytes_of_hex s

let hex_of_n (width : int) (x : n) : string =
  (* x < 2^64: print through its 8 little-endian bytes *)
  let bs = List.rev (le_bytes (nat_of_int (width / 2)) x) in
  String.concat "" (List.map (fun b -> Printf.sprintf "%02x" (int_of_n b)) bs)
let digest (l : n list) : string = String.concat "" (List.map (fun b -> Printf.sprintf "%02x" (int_of_n b)) l)
let garbage = List.init 64 (fun i -> ntab.((i * 37 + 11) land 0xff))

let run () =
  let spec = Array.length Sys.argv > 2 && Sys.argv.(2) = "spec" in
  iter_lines (fun line ->
    match words line with
    | [op; d] ->
        let m = data d in
        let n = n_of_int (List.length m) in
        let out =
          if spec then
            (match op with
             | "fnv32" -> hex_of_n 8 (fnv1_32 m)
             | "fnv64" -> hex_of_n 16 (fnv1_64 m)
             | "mm32" -> hex_of_n 8 (murmur3_x86_32 N0 m)
             | "mm128" -> digest (murmur3_x64_128 N0 m)
             | "md5" -> digest (md5 m)
             | _ -> "??")
          else
            (match op with
             | "fnv32" -> res_str (hex_of_n 8) (qhashfnv1_32 m n)
             | "fnv64" -> res_str (hex_of_n 16) (qhashfnv1_64 m n)
             | "mm32" -> res_str (hex_of_n 8) (qhashmurmur3_32 m n)
             | "mm128" -> res_str (function None -> "FALSE" | Some l -> digest l) (qhashmurmur3_128 m n)
             | "md5" -> res_str digest (qhashmd5 garbage m n)
             | _ -> "??") in
        print_endline out
    | ["md5file"; d; off; nb] ->
        let f = data d in
        let off = int_of_string off and nb = int_of_string nb in
        let size = List.length f in
        if spec then begin
          if off < 0 || nb < 0 || size < off + nb then print_endline "FALSE"
          else begin
            let cnt = if nb = 0 then size - off else nb in
            let rec drop k l = if k = 0 then l else match l with [] -> [] | _ :: r -> drop (k - 1) r in
            let rec keep k l = if k = 0 then [] else match l with [] -> [] | x :: r -> x :: keep (k - 1) r in
            print_endline (digest (md5 (keep cnt (drop off f))))
          end end
        else if off < 0 || nb < 0 then print_endline "FALSE"
        else print_endline (res_str (function None -> "FALSE" | Some l -> digest l) (qhashmd5_file garbage f (n_of_int off) (n_of_int nb)))
    | _ -> print_endline ("?? " ^ line))
