(* configuration parsers: same protocol as harness/h_conf.c (see there).  The error messages of the Apache-style parser
   are formatted here from the model's structured error exactly as the C code formats them. *)
open Conf_model
module U = Util.Make(Conf_model)
open U
let res_str f r = match r with Ok x -> f x | Crash -> "CRASH" | Fuel -> "FUEL"

let s2b (s : string) : n list = List.init (String.length s) (fun i -> ntab.(Char.code s.[i]))
let b2s (l : n list) : string = String.concat "" (List.map (fun x -> String.make 1 (Char.chr ((int_of_n x) land 255))) l)
let hexs (s : string) : string = hex_of_bytes (s2b s)

let errmsg (e : aerr) : string =
  match e with
  | EUnclosed nm -> Printf.sprintf "<%s> section was not closed." (b2s nm)
  | EBracket b -> Printf.sprintf "Missing closing bracket. - '%s'." (b2s b)
  | EQuote -> "Quotation hasn't properly closed."
  | EBadClose nm -> Printf.sprintf "Trying to close <%s> section that wasn't opened." (b2s nm)
  | EScope o -> Printf.sprintf "Option '%s' is in wrong section." (b2s o)
  | EArgc (o, k) -> Printf.sprintf "'%s' option takes %d arguments." (b2s o) (int_of_n k)
  | EInt (j, o) -> Printf.sprintf "%dth argument of '%s' must be integer type." (int_of_n j) (b2s o)
  | EFloat (j, o) -> Printf.sprintf "%dth argument of '%s' must be floating point. type" (int_of_n j) (b2s o)
  | EBool (j, o) -> Printf.sprintf "%dth argument of '%s' must be bool type." (int_of_n j) (b2s o)
  | ECallback m -> b2s m
  | EUnknown nm -> Printf.sprintf "Unregistered option '%s'." (b2s nm)

let argv_str (a : n list list) : string = String.concat "," (List.map hex_of_bytes a)
let event_str (e : event) : string =
  let d = e.ev_data in
  Printf.sprintf " [%s %d %d %d %d %s%s]" (if e.ev_def then "D" else "O") (int_of_n d.c_otype) (int_of_n d.c_section)
    (int_of_n d.c_sections) (int_of_n d.c_level) (argv_str d.c_argv)
    (String.concat "" (List.map (fun p -> Printf.sprintf " |%d %s" (int_of_n p.c_level) (argv_str p.c_argv)) e.ev_parents))
let trace_str (s : pst) : string = String.concat "" (List.rev_map event_str s.p_trace)

(* output of inispec: wf|nwf <rendered text> <n> name=value ... *)
(* the harness callback: fails with "E:<name>" when the first argument is the word !fail *)
let cb (_via : bool) (d : cbd) (_pars : cbd list) : n list option =
  match d.c_argv with
  | a0 :: a1 :: _ when b2s a1 = "!fail" -> Some (s2b ("E:" ^ b2s a0))
  | _ -> None

let parse_table (t : string) : opt list =
  if t = "-" then [] else
  List.filter_map (fun e ->
    match String.split_on_char ',' e with
    | [hn; take; hascb; sid; secs] ->
        Some { o_name = bytes_of_hex hn; o_take = n_of_int (int_of_string take); o_cb = (hascb <> "0");
               o_sectionid = n_of_int (int_of_string sid); o_sections = n_of_int (int_of_string secs) }
    | _ -> None) (List.filter (fun x -> x <> "") (String.split_on_char ';' t))

let run () =
  let envl : (n list * n list) list ref = ref [] in
  let env name = List.assoc_opt name !envl in
  let cmd _ = None in                                     (* popen is stubbed to fail in the harness *)
  let maxl = maxline in
  iter_lines (fun line ->
    match words line with
    | ["env"; hn; hv] -> envl := (bytes_of_hex hn, bytes_of_hex hv) :: List.remove_assoc (bytes_of_hex hn) !envl; print_endline "ok"
    | ["env"; hn] -> envl := (bytes_of_hex hn, []) :: List.remove_assoc (bytes_of_hex hn) !envl; print_endline "ok"
    | ["nullres"] -> print_endline "NULL"
    | ["incfile"; _] -> print_endline "ok"      (* file handling is outside the model: the check hands the model the inlined text *)
    | ["unenv"; hn] -> envl := List.remove_assoc (bytes_of_hex hn) !envl; print_endline "ok"
    | [("ini" | "inif"); sep; hd] ->
        (match ini_parse_str env cmd (n_of_int (int_of_string sep)) (bytes_of_hex hd) with
         | Ok t -> print_endline (String.concat " " (string_of_int (List.length t) :: List.map (fun (a, b) -> hex_of_bytes a ^ "=" ^ hex_of_bytes b) t))
         | Crash -> print_endline "CRASH" | Fuel -> print_endline "FUEL")
    | [("ac" | "acr"); flags; def; tbl; hd] ->
        (match aconf_parse cb (parse_table tbl) (n_of_int (int_of_string flags)) (def <> "0") maxl (bytes_of_hex hd) with
         | Ok (PDone (c, s)) -> print_endline (Printf.sprintf "%d - -%s" (int_of_n c) (trace_str s))
         | Ok (PErr (l, e, s)) -> print_endline (Printf.sprintf "-1 %d %s%s" (int_of_n l) (hexs (errmsg e)) (trace_str s))
         | Crash -> print_endline "CRASH" | Fuel -> print_endline "FUEL")
    | ["inispec"; sep; fnl; items] ->
        let h x = bytes_of_hex x in
        let piece p = let b = h (String.sub p 1 (String.length p - 1)) in
          (match p.[0] with 'L' -> PLit b | 'R' -> PRef b | _ -> PEnv b) in
        let tmpl t = if t = "-" then [] else List.map piece (String.split_on_char '+' t) in
        let item it = match String.split_on_char ',' it with
          | ["C"; pre; text] -> (IComment (h text), { l_pre = h pre; l_mid1 = []; l_mid2 = []; l_post = [] })
          | ["B"; pre] -> (IBlank, { l_pre = h pre; l_mid1 = []; l_mid2 = []; l_post = [] })
          | ["S"; pre; m1; name; m2; post] -> (ISection (h name), { l_pre = h pre; l_mid1 = h m1; l_mid2 = h m2; l_post = h post })
          | ["E"; pre; name; m1; m2; post; t] -> (IEntry (h name, tmpl t), { l_pre = h pre; l_mid1 = h m1; l_mid2 = h m2; l_post = h post })
          | _ -> failwith ("bad item " ^ it) in
        let d = if items = "-" then [] else List.map item (String.split_on_char ';' items) in
        let sepn = n_of_int (int_of_string sep) in
        let text = ini_render sepn (fnl <> "0") d in
        let es = ini_eval env d in
        let wf = ini_wf env qCONF_MAX_SUBSTITUTIONS sepn d in
        print_endline (String.concat " " ((if wf then "wf" else "nwf") :: hex_of_bytes text :: string_of_int (List.length es) :: List.map (fun (a, b) -> hex_of_bytes a ^ "=" ^ hex_of_bytes b) es))
    | ["acspec"; flags; def; tbl; tree] ->
        let h x = bytes_of_hex x in
        let word w = match String.split_on_char ':' w with
          | [gap; st; text] ->
              { w_gap = h gap; w_text = h text;
                w_style = (match st with "b" -> Bare | "s0" -> Quoted (n_of_int 39, false) | "s1" -> Quoted (n_of_int 39, true)
                                       | "d0" -> Quoted (n_of_int 34, false) | _ -> Quoted (n_of_int 34, true)) }
          | _ -> failwith ("bad word " ^ w) in
        let words ws = if ws = "-" then [] else List.map word (String.split_on_char '+' ws) in
        (* prefix encoding: S opens a section whose body runs up to the matching X *)
        let rec nodes toks = match toks with
          | [] -> ([], [])
          | t :: rest ->
            (match String.split_on_char ',' t with
             | ["C"; ind; text] -> let (ns, r) = nodes rest in (NComment (h ind, h text) :: ns, r)
             | ["B"; sp] -> let (ns, r) = nodes rest in (NBlank (h sp) :: ns, r)
             | ["D"; ind; tr; ws] -> let (ns, r) = nodes rest in (NDir (h ind, words ws, h tr) :: ns, r)
             | ["S"; ind; tr; ws] ->
                 let (body, r) = nodes rest in
                 (match r with
                  | x :: r2 ->
                      (match String.split_on_char ',' x with
                       | ["X"; ci; cn; ct] -> let (ns, r3) = nodes r2 in (NSect (h ind, words ws, h tr, body, h ci, h cn, h ct) :: ns, r3)
                       | _ -> failwith "bad close")
                  | [] -> failwith "unclosed S in acspec")
             | "X" :: _ -> ([], toks)
             | _ -> failwith ("bad node " ^ t)) in
        let (d, _) = nodes (if tree = "-" then [] else String.split_on_char ';' tree) in
        let text = aconf_render d in
        (* wf = inside the hypotheses of C20_aconf_accepts_iff; deep = well-formed but nested 256 or more deep *)
        let wf = if not (wf_nodes maxline d) then "nwf" else if int_of_n (adepths d) >= 256 then "deep" else "wf" in
        (match aconf_srun cb (parse_table tbl) (n_of_int (int_of_string flags)) (def <> "0") d with
         | SOk (c, l, evs) -> print_endline (Printf.sprintf "%s %s %d - -%s" wf (hex_of_bytes text) (int_of_n c) (String.concat "" (List.rev_map event_str evs)))
         | SErr (l, e, evs) -> print_endline (Printf.sprintf "%s %s -1 %d %s%s" wf (hex_of_bytes text) (int_of_n l) (hexs (errmsg e)) (String.concat "" (List.rev_map event_str evs))))
    | ["numspec"; hd] ->   (* number/bool syntax: model result and grammar result *)
        let d = bytes_of_hex hd in
        print_endline (Printf.sprintf "%d %s %d %s" (int_of_n (is_str_number d))
          (match is_str_bool d with Some true -> "1" | Some false -> "0" | None -> "-1")
          (if int_form d then 1 else if float_form d then 2 else 0)
          (match bool_form d with Some true -> "1" | Some false -> "0" | None -> "-1"))
    | ["tok"; hd] ->       (* buffer-level tokenizer on data ++ [0] with fuel |data|+1 *)
        let d = bytes_of_hex hd in
        (match tk_buf (nat_of_int (List.length d + 1)) (d @ [N0]) O TSkip [] with
         | Ok (TokOk a) -> print_endline ("ok " ^ argv_str a) | Ok TokErr -> print_endline "quote"
         | Crash -> print_endline "CRASH" | Fuel -> print_endline "FUEL")
    | _ -> print_endline ("?? " ^ line))
