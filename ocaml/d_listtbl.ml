(* list table (C08): runs the extracted model (ListtblModel.step) and the extracted specification (ListtblSpec.sstep)
   on an lop file.  For each lop prints two lines:  "M <observation> | <chain dump>"  and  "S <observation> | <entries>".
   The name hash is the only thing not extracted: a hand-written murmur3_32 (seed 0, as qhashmurmur3_32), used only so
   that the stored hashes printed in the dump equal those of the implementation. *)
open Listtbl_model
module U = Util.Make(Listtbl_model)
open U
let res_str f r = match r with Ok x -> f x | Crash -> "CRASH" | Fuel -> "FUEL"

let murmur3_32 (s : int list) : int =
  let m32 x = x land 0xffffffff in
  let mul a b = m32 ((a land 0xffff) * b + ((((a lsr 16) * b) land 0xffff) lsl 16)) in
  let rotl x r = m32 ((x lsl r) lor (x lsr (32 - r))) in
  let a = Array.of_list s in
  let n = Array.length a in
  if n = 0 then 0 else begin
    let c1 = 0xcc9e2d51 and c2 = 0x1b873593 in
    let h = ref 0 in
    let nb = n / 4 in
    for i = 0 to nb - 1 do
      let k = a.(4*i) lor (a.(4*i+1) lsl 8) lor (a.(4*i+2) lsl 16) lor (a.(4*i+3) lsl 24) in
      let k = mul k c1 in let k = rotl k 15 in let k = mul k c2 in
      h := !h lxor k; h := rotl !h 13; h := m32 (mul !h 5 + 0xe6546b64)
    done;
    let t = nb * 4 in
    let k = ref 0 in
    let r = n land 3 in
    if r >= 3 then k := !k lxor (a.(t+2) lsl 16);
    if r >= 2 then k := !k lxor (a.(t+1) lsl 8);
    if r >= 1 then begin
      k := !k lxor a.(t);
      k := mul !k c1; k := rotl !k 15; k := mul !k c2; h := !h lxor !k end;
    h := !h lxor (m32 n);
    h := !h lxor (!h lsr 16); h := mul !h 0x85ebca6b;
    h := !h lxor (!h lsr 13); h := mul !h 0xc2b2ae35;
    h := !h lxor (!h lsr 16); !h end
let hash (name : n list) : n = n_of_int (murmur3_32 (List.map int_of_n name))

let rec cut0 = function [] -> [] | c :: r -> if c = N0 then [] else c :: cut0 r
(* names and C strings are what the library sees of the caller's buffer: up to the first NUL. "N" is the NULL pointer *)
let name_of w = if w = "N" then None else Some (cut0 (bytes_of_hex w))
let ent_str (k, v) = hex_of_bytes k ^ "=" ^ hex_of_bytes v
let bool_of w = w = "1"
let bits_of w = if w = "-" then [] else List.init (String.length w) (fun i -> w.[i] = '1')
let z_str z = string_of_int (int_of_z z)
(* int64 <-> Z without going through OCaml's 63-bit ints (magnitudes up to 2^63 pass through unsigned 64-bit arithmetic) *)
let rec pos_of_u64 (x : int64) : positive =
  if Int64.equal x 1L then XH
  else let h = Int64.shift_right_logical x 1 in
       if Int64.equal (Int64.logand x 1L) 1L then XI (pos_of_u64 h) else XO (pos_of_u64 h)
let z_of_string s =
  let x = Int64.of_string s in
  if Int64.equal x 0L then Z0 else if Int64.compare x 0L > 0 then Zpos (pos_of_u64 x) else Zneg (pos_of_u64 (Int64.neg x))
let rec u64_of_pos (p : positive) : int64 =
  match p with XH -> 1L | XO q -> Int64.shift_left (u64_of_pos q) 1 | XI q -> Int64.logor (Int64.shift_left (u64_of_pos q) 1) 1L
let z_to_string (z : z) : string =
  match z with
  | Z0 -> "0"
  | Zpos p -> Printf.sprintf "%Lu" (u64_of_pos p)
  | Zneg p -> "-" ^ Printf.sprintf "%Lu" (u64_of_pos p)

let obs_str = function
  | LBool b -> if b then "true" else "false"
  | LVal None -> "none"
  | LVal (Some v) -> hex_of_bytes v
  | LInt z -> z_to_string z
  | LMulti [] -> "none"
  | LMulti l -> string_of_int (List.length l) ^ " " ^ String.concat "," (List.map hex_of_bytes l)
  | LNum k -> string_of_int (int_of_n k)
  | LUnit -> "ok"
  | LWalked (l, e, rs) -> "walk " ^ (if e then "end" else "more") ^ " " ^ String.concat "," (List.map ent_str l)
                        ^ " rm=" ^ String.concat "" (List.map (fun b -> if b then "1" else "0") rs)
  | LSaved b -> "true " ^ hex_of_bytes b
  | LBad -> "bad"

let run () =
  let st = ref (lt_init false false false false) in
  let g = ref { unique = false; casei = false; inserttop = false; lookupfwd = false } in
  let sp = ref [] in
  let dead = ref false in
  let saved = ref [] in
  iter_lines (fun line ->
    match words line with
    | ["new"; f] ->
      let f = int_of_string f in
      let u = f land 1 <> 0 and ci = f land 2 <> 0 and tp = f land 4 <> 0 and fw = f land 8 <> 0 in
      st := lt_init u ci tp fw; g := { unique = u; casei = ci; inserttop = tp; lookupfwd = fw }; sp := []; dead := false; saved := []
    | ws ->
      let o = match ws with
        | ["put"; nm; d] -> Some (LPut (name_of nm, bytes_of_hex d))
        | ["putstr"; nm; s] -> Some (LPutStr (name_of nm, name_of s))
        | ["putint"; nm; z] -> Some (LPutInt (cut0 (bytes_of_hex nm), z_of_string z))
        | ["get"; nm; _] -> Some (LGet (name_of nm))
        | ["getstr"; nm; _] -> Some (LGet (name_of nm))
        | ["getint"; nm] -> Some (LGetInt (cut0 (bytes_of_hex nm)))
        | ["getmulti"; nm; _] -> Some (LGetMulti (name_of nm))
        | ["remove"; nm] -> Some (LRemove (name_of nm))
        | ["walk"; nm; n; rm; _] -> Some (LWalk (name_of nm, nat_of_int (int_of_string n), bits_of rm))
        | ["walk"; nm; n; rm; _; _] -> Some (LWalk (name_of nm, nat_of_int (int_of_string n), bits_of rm))   (* reads between the steps: same walk *)
        | ["size"] -> Some LSize
        | ["sort"] -> Some LSort
        | ["clear"] -> Some LClear
        | ["save"; sep; enc] -> Some (LSave (n_of_int (int_of_string sep), bool_of enc))
        | ["load"; sep; dec; c] -> Some (LLoad (bytes_of_hex c, n_of_int (int_of_string sep), bool_of dec))
        | ["reload"; sep; dec] -> Some (LLoad ([n_of_int 35; n_of_int 10] @ !saved, n_of_int (int_of_string sep), bool_of dec))
        | ["loadnofile"] -> Some LLoadMissing
        | _ -> None in
      match o with
      | None -> print_endline ("M ?? " ^ line); print_endline "S ??"
      | Some o ->
        if !dead then (print_endline "M DEAD"; print_endline "S DEAD") else begin
          (match lt_step hash !st o with
           | Ok (s', ob) ->
             st := s';
             (match ob with LSaved b -> saved := b | _ -> ());
             let dump = String.concat "," (List.map (fun x -> Printf.sprintf "%08x:%s" (int_of_n x.ohash) (ent_str (payload x))) s'.t_ents) in
             print_endline (Printf.sprintf "M %s | num=%d chain=ok %s" (obs_str ob) (int_of_n s'.t_num) dump)
           | Crash -> dead := true; print_endline "M CRASH"
           | Fuel -> dead := true; print_endline "M FUEL");
          let (m', sob) = lt_sstep !g !sp o in
          sp := m';
          print_endline (Printf.sprintf "S %s | %s" (obs_str sob) (String.concat "," (List.map ent_str m')))
        end)
