(* codecs: one line in, one line out.  Decoders run the buffer-level model on (input ++ [0]) with fuel |input|+1. *)
open Enc_model
module U = Util.Make(Enc_model)
open U
let res_str f r = match r with Ok x -> f x | Crash -> "CRASH" | Fuel -> "FUEL"
let run () =
  iter_lines (fun line ->
    match words line with
    | ["urlenc"; h] -> print_endline (hex_of_bytes (url_encode (bytes_of_hex h)))
    | ["b64enc"; h] -> print_endline (hex_of_bytes (b64_encode (bytes_of_hex h)))
    | ["hexenc"; h] -> print_endline (hex_of_bytes (hex_encode (bytes_of_hex h)))
    | ["b64spec"; h] -> print_endline (hex_of_bytes (rfc4648 (bytes_of_hex h)))
    | ["hexspec"; h] -> print_endline (hex_of_bytes (hex_spec (bytes_of_hex h)))
    | ["urlsafe"; h] -> print_endline (String.concat "" (List.map (fun c -> if url_safe c then "1" else "0") (bytes_of_hex h)))
    | ["urldec"; h] -> let s = bytes_of_hex h in
        print_endline (res_str hex_of_bytes (url_dec_buf (nat_of_int (List.length s + 1)) (s @ [N0]) O []))
    | ["hexdec"; h] -> let s = bytes_of_hex h in
        print_endline (res_str hex_of_bytes (hex_dec_buf (nat_of_int (List.length s + 1)) (s @ [N0]) O []))
    | ["b64dec"; h] -> let s = bytes_of_hex h in
        print_endline (res_str hex_of_bytes (b64_dec_buf (nat_of_int (List.length s + 1)) (s @ [N0]) O O N0 []))
    | ["query"; e; sp; h] -> let q = bytes_of_hex h in
        let ps = parse_queries (nat_of_int (List.length q + 1)) q (n_of_int (int_of_string e)) (n_of_int (int_of_string sp)) in
        print_endline (string_of_int (List.length ps) ^ " " ^ String.concat " " (List.map (fun (a, b) -> hex_of_bytes a ^ "=" ^ hex_of_bytes b) ps))
    | _ -> print_endline ("?? " ^ line))
