(* conversions between OCaml ints/strings and the extracted Coq numbers; hex I/O.
   Every extracted model file carries its own copy of the number types, hence a functor. *)
module type NUMS = sig
  type nat = O | S of nat
  type positive = XI of positive | XO of positive | XH
  type n = N0 | Npos of positive
  type z = Z0 | Zpos of positive | Zneg of positive
end
module Make (M : NUMS) = struct
open M

let rec pos_of_int (i : int) : positive =
  if i = 1 then XH else if i land 1 = 1 then XI (pos_of_int (i lsr 1)) else XO (pos_of_int (i lsr 1))
let n_of_int (i : int) : n = if i = 0 then N0 else Npos (pos_of_int i)
let rec int_of_pos (p : positive) : int = match p with XH -> 1 | XO q -> 2 * int_of_pos q | XI q -> 2 * int_of_pos q + 1
let int_of_n (x : n) : int = match x with N0 -> 0 | Npos p -> int_of_pos p
let z_of_int (i : int) : z = if i = 0 then Z0 else if i > 0 then Zpos (pos_of_int i) else Zneg (pos_of_int (-i))
let int_of_z (x : z) : int = match x with Z0 -> 0 | Zpos p -> int_of_pos p | Zneg p -> - (int_of_pos p)
let rec nat_of_int (i : int) : nat = if i <= 0 then O else S (nat_of_int (i - 1))
let nat_of_int i = let r = ref O in for _ = 1 to i do r := S !r done; !r
let int_of_nat (x : nat) : int = let rec go a = function O -> a | S m -> go (a + 1) m in go 0 x

(* byte tables of N so that conversion of large buffers does not allocate numbers again and again *)
let ntab = Array.init 256 n_of_int
let bytes_of_hex (s : string) : n list =
  if s = "-" then [] else begin
    let l = String.length s / 2 in
    let r = ref [] in
    for i = l - 1 downto 0 do r := ntab.(int_of_string ("0x" ^ String.sub s (2 * i) 2)) :: !r done; !r end
let hex_of_bytes (l : n list) : string =
  if l = [] then "-" else begin
    let b = Buffer.create 64 in
    List.iter (fun x -> Buffer.add_string b (Printf.sprintf "%02x" ((int_of_n x) land 0xff))) l; Buffer.contents b end
let string_of_hex (s : string) : string =
  if s = "-" then "" else String.init (String.length s / 2) (fun i -> Char.chr (int_of_string ("0x" ^ String.sub s (2 * i) 2)))
let hex_of_string (s : string) : string =
  if s = "" then "-" else String.concat "" (List.map (fun c -> Printf.sprintf "%02x" (Char.code c)) (List.init (String.length s) (String.get s)))

let words (line : string) : string list = List.filter (fun w -> w <> "") (String.split_on_char ' ' line)
let iter_lines (f : string -> unit) : unit =
  try while true do let l = input_line stdin in if String.length l > 0 && l.[0] <> '#' then f l done with End_of_file -> ()

end
