(* tree table: runs the extracted model (QTree.step) and the extracted specification (TreeSpec.sstep) on an op file.
   For each op prints two lines:  "M <observation> | <structure>"  and  "S <spec observation>". *)
open Tree_model
module U = Util.Make(Tree_model)
open U

let kv_str (k, v) = hex_of_bytes k ^ "=" ^ hex_of_bytes v
let opt_str f = function None -> "none" | Some x -> f x
let rec shape (t : node tree) : string =
  match t with
  | E -> "."
  | T (c, l, x, r) -> "(" ^ (if c then "R" else "B") ^ " " ^ hex_of_bytes x.nkey ^ "=" ^ hex_of_bytes x.nval ^ " " ^ shape l ^ " " ^ shape r ^ ")"
let rec tsize = function E -> 0 | T (_, l, _, r) -> 1 + tsize l + tsize r
let rec theight = function E -> 0 | T (_, l, _, r) -> 1 + max (theight l) (theight r)

let run () =
  let cmp = ref byte_cmp in
  let st = ref init in
  let sp = ref sinit in
  let dump = ref true in
  let dead = ref false in
  let counted = ref true in
  iter_lines (fun line ->
    let ws = words line in
    match ws with
    | ["cmp"; c] ->
        counted := (c <> "default");      (* "default": the caller installs no comparator, so it cannot count the calls *)
        (cmp := match c with
          | "rev" -> (fun a b -> byte_cmp b a)
          | "len" -> (fun a b -> let la = List.length a and lb = List.length b in if la < lb then Lt else if la > lb then Gt else byte_cmp a b)
          | "ci" -> let fold l = List.map (fun c -> let i = int_of_n c in if i >= 65 && i <= 90 then n_of_int (i + 32) else c) l in
                    (fun a b -> byte_cmp (fold a) (fold b))
          | _ -> byte_cmp);
        st := init; sp := sinit; dead := false
    | ["new"] -> st := init; sp := sinit; dead := false
    | ["dump"; d] -> dump := (d = "1")
    | ["settid"; n] -> st := { !st with ttid = n_of_int (int_of_string n) }   (* test set-up only: used right after "new" *)
    | _ ->
      (* putself k off:len:mode = put(k, slice of the value stored under k), handed in through the table's own pointers *)
      let rec drop n l = if n <= 0 then l else match l with [] -> [] | _ :: r -> drop (n - 1) r in
      let rec take n l = if n <= 0 then [] else match l with [] -> [] | x :: r -> x :: take (n - 1) r in
      (* nearself k len: a first search for k (its result's key buffer is the table's own), then a search whose probe is the first
         len bytes of that buffer: two searches, the second one is reported *)
      let ws = match ws with
        | ["nearself"; k; pl] when not !dead ->
            let kb = bytes_of_hex k and pl = int_of_string pl in
            (match step !cmp !st (Nearest (kb, O)) with
             | Ok (s', ONear (r, _, _)) ->
                 st := s'; let (m', _) = sstep !cmp !sp (Nearest (kb, O)) in sp := m';
                 (match r with
                  | Some (key, _) when pl > 0 && pl <= List.length key -> ["near"; hex_of_bytes (take pl key); "0"]
                  | _ -> ["nearnoself"])
             | _ -> ["nearnoself"])
        | _ -> ws in
      let self_put k spec =
        let kb = bytes_of_hex k in
        match List.find_opt (fun (k', _) -> !cmp kb k' = Eq) (fst !sp), String.split_on_char ':' spec with
        | Some (_, v), [off; len; _] ->
          let ds = List.length v and off = int_of_string off and len = int_of_string len in
          let len = if len < 0 then (if ds >= off then ds - off else 0) else len in
          if off + len > ds || len = 0 then None else Some (Put (kb, take len (drop off v)))
        | _ -> None in
      let noself = (match ws with ["putself"; k; spec] -> self_put k spec = None | ["nearnoself"] -> true | _ -> false) in
      let o = match ws with
        | ["putself"; k; spec] -> (match self_put k spec with Some p -> Some p | None -> Some Size)
        | ["nearnoself"] -> Some Size
        | ["sput"; k; v] -> Some (Put (bytes_of_hex k @ [N0], bytes_of_hex v @ [N0]))      (* string interface: terminators are part of key and value *)
        | ["sget"; k] -> Some (Get (bytes_of_hex k @ [N0]))
        | ["sgets"; k; _] -> Some (Get (bytes_of_hex k @ [N0]))     (* getstr() then get: reads change nothing *)
        | ["srem"; k] -> Some (Remove (bytes_of_hex k @ [N0]))
        | ["put"; k; v] -> Some (Put (bytes_of_hex k, bytes_of_hex v))
        | ["get"; k] -> Some (Get (bytes_of_hex k))
        | ["remove"; k] -> Some (Remove (bytes_of_hex k))
        | ["clear"] -> Some Clear
        | ["size"] -> Some Size
        | ["otherwalk"; _] -> Some Size     (* walks on another table of the process: nothing may show here *)
        | ["min"] -> Some FindMin
        | ["max"] -> Some FindMax
        | ["walk"; n] -> Some (Walk (nat_of_int (int_of_string n)))
        | ["walk"; n; _] -> Some (Walk (nat_of_int (int_of_string n)))   (* reads between the steps: the same walk *)
        | ["near"; k; n] -> Some (Nearest (bytes_of_hex k, nat_of_int (int_of_string n)))
        | _ -> None in
      match o with
      | None -> print_endline ("M ?? " ^ line); print_endline "S ??"
      | Some o ->
        if !dead then (print_endline "M DEAD"; print_endline "S DEAD") else begin
        (match step !cmp !st o with
         | Ok (s', ob) ->
           let extra = match o with
             | Get k -> (match k with [] -> "" | _ when not !counted -> "" | _ -> " cmps=" ^ string_of_int (int_of_nat (find_cost (ncmp !cmp) !st.root (probe k))))
             | _ -> "" in
           st := s';
           let obs = match ob with
             | OBool b -> if b then "true" else "false"
             | OVal v -> opt_str hex_of_bytes v
             | ONum n -> string_of_int (int_of_n n)
             | OKey k -> opt_str hex_of_bytes k
             | OUnit -> "ok"
             | OWalk (l, e) -> "walk " ^ (if e then "end" else "more") ^ " " ^ String.concat "," (List.map kv_str l)
             | ONear (r, l, e) -> "near " ^ opt_str kv_str r ^ " " ^ (if e then "end" else "more") ^ " " ^ String.concat "," (List.map kv_str l) in
           let d = if !dump then Printf.sprintf "num=%d tid=%d chk=%d %s" (int_of_n s'.num) (int_of_n s'.ttid) (int_of_nat (check_model s'.root)) (shape s'.root)
                   else Printf.sprintf "num=%d tid=%d chk=%d n=%d h=%d" (int_of_n s'.num) (int_of_n s'.ttid) (int_of_nat (check_model s'.root)) (tsize s'.root) (theight s'.root) in
           print_endline ("M " ^ (if noself then "noself" else obs) ^ extra ^ " | " ^ d)
         | Crash -> dead := true; print_endline "M CRASH"
         | Fuel -> dead := true; print_endline "M FUEL");
        let (m', sob) = sstep !cmp !sp o in
        sp := m';
        print_endline ("S " ^ (if noself then "noself" else match sob with
          | SBool b -> if b then "true" else "false"
          | SVal v -> opt_str hex_of_bytes v
          | SNum n -> string_of_int (int_of_n n)
          | SKey k -> opt_str hex_of_bytes k
          | SUnit -> "ok"
          | SWalk (l, e) -> "walk " ^ (if e then "end" else "more") ^ " " ^ String.concat "," (List.map kv_str l)
          | SNear (r, c, e, sp) -> "near " ^ opt_str kv_str r ^ " " ^ (if not sp then "unspecified" else if e then "end" else "more") ^ " " ^ string_of_int (int_of_nat c) ^ " " ^ String.concat "," (List.map kv_str (fst m'))))
        end)
