(* C15 / C11 / C12: runs the extracted allocation scripts (coq/Alloc/Scripts.v) on model-level op lines and prints, per op,
   the predicted allocator/copy events in the format of harness/h_api.c, the block set of the summary state afterwards,
   the outcome, and whether the event list is legal in the ledger (Ledger.safeb). *)
open Alloc_model
module U = Util.Make(Alloc_model)
open U

type cont = G of gst | V of vst | Absent

let ni = n_of_int and nn = int_of_n
let b = function "1" -> true | _ -> false

let run () =
  let sz = ref { s_tree = ni 200; s_tobj = ni 72; s_mutex = ni 56; s_hash = ni 152; s_hobj = ni 40; s_ptr = ni 8; s_ltbl = ni 224; s_lobj = ni 48;
                 s_ldata = ni 24; s_list = ni 240; s_sobj = ni 32; s_vec = ni 256; s_queue = ni 136; s_stack = ni 136; s_grow = ni 88; s_harr = ni 128 } in
  let st = ref Absent in
  let l = ref ledger0 in
  let failk = ref 0 and failfrom = ref 0 in
  let oracle () = let fk = !failk and ff = !failfrom in
    (fun (k : nat) -> let i = int_of_nat k + 1 in not ((fk > 0 && i = fk) || (ff > 0 && i >= ff))) in
  let show_ev evs =
    let e = Buffer.create 64 and c = Buffer.create 64 in
    let add bf s = if Buffer.length bf > 0 then Buffer.add_char bf ','; Buffer.add_string bf s in
    List.iter (function
      | Alloc (x, _, s) -> add e (Printf.sprintf "a%d:%d" (nn x) (nn s))
      | AllocFail (_, s) -> add e (Printf.sprintf "x:%d" (nn s))
      | Realloc (o, n, s) -> add e (Printf.sprintf "r%d>%d:%d" (nn o) (nn n) (nn s))
      | Free x -> add e (Printf.sprintf "f%d" (nn x))
      | Return x -> add e (Printf.sprintf "R%d" (nn x))
      | Copy (d, s) -> add c (Printf.sprintf "c%d<%s" (nn d) (match s with SCaller -> "C" | SBlk x -> string_of_int (nn x) | SOther -> "S"))) evs;
    (Buffer.contents e, Buffer.contents c) in
  let blocks () = match !st with G g -> gblocks g | V v -> vblocks v | Absent -> [] in
  let emit name evs out mut =
    let ok = safeb !l evs in
    l := run !l evs;
    let (e, c) = show_ev evs in
    let own = List.sort compare (List.map nn (blocks ())) in
    Printf.printf "%s | ev=%s | cp=%s | own=%s | out=%s mut=%d safe=%d\n" name e c (String.concat "," (List.map string_of_int own))
      (match out with Done -> "done" | Failed -> "failed" | Nothing -> "nothing") (if mut then 1 else 0) (if ok then 1 else 0);
    failk := 0; failfrom := 0 in
  let gres name (r : gst sres) = st := G r.st'; emit name r.evs r.out r.mutated in
  let vres name (r : vst sres) = st := V r.st'; emit name r.evs r.out r.mutated in
  let ctor name (r : gst option sres) = (st := match r.st' with Some g -> G g | None -> Absent); emit name r.evs r.out r.mutated in
  let int = int_of_string in
  let optn s = if s = "-" then None else Some (ni (int s)) in
  iter_lines (fun line ->
    let ws = words line in
    let n = !l.nxt in
    let al = oracle () in
    match ws with
    | "sizes" :: kv ->
        let g k = try let p = List.find (fun w -> String.length w > String.length k && String.sub w 0 (String.length k + 1) = k ^ "=") kv in
                      ni (int (String.sub p (String.length k + 1) (String.length p - String.length k - 1))) with Not_found -> ni 0 in
        sz := { s_tree = g "tree"; s_tobj = g "tobj"; s_mutex = g "mutex"; s_hash = g "hash"; s_hobj = g "hobj"; s_ptr = g "ptr"; s_ltbl = g "ltbl"; s_lobj = g "lobj";
                s_ldata = g "ldata"; s_list = g "list"; s_sobj = g "sobj"; s_vec = g "vec"; s_queue = g "queue"; s_stack = g "stack"; s_grow = g "grow"; s_harr = g "harr" }
    | ["fail"; k] -> failk := int k; failfrom := 0
    | ["failfrom"; k] -> failfrom := int k; failk := 0
    | "new" :: typ :: args ->
        st := Absent; l := ledger0;
        let n = ledger0.nxt in
        let a i = try int (List.nth args i) with _ -> 0 in
        let s = !sz in
        (match typ with
         | "tree" -> ctor "new" (script_ctor s.s_tree s.s_mutex (a 0 land 1 = 1) n al)
         | "ltbl" -> ctor "new" (script_ctor s.s_ltbl s.s_mutex (a 0 land 1 = 1) n al)
         | "list" -> ctor "new" (script_ctor s.s_list s.s_mutex (a 0 land 1 = 1) n al)
         | "hash" -> ctor "new" (script_qhashtbl s (ni (if a 0 = 0 then 1000 else a 0)) (a 1 land 1 = 1) n al)
         | "queue" -> ctor "new" (script_wrapper s.s_queue s (a 0 land 1 = 1) n al)
         | "stack" -> ctor "new" (script_wrapper s.s_stack s (a 0 land 1 = 1) n al)
         | "grow" -> ctor "new" (script_wrapper s.s_grow s (a 0 land 1 = 1) n al)
         | "harr" -> ctor "new" (script_qhasharr s n al)
         | "vec" ->
             let o = a 2 in
             let pol = if o land 2 <> 0 then 2 else if o land 4 <> 0 then 1 else 0 in
             let r = script_qvector s (ni (a 0)) (ni (a 1)) (o land 1 = 1) (ni pol) n al in
             (st := match r.st' with Some v -> V v | None -> Absent); emit "new" r.evs r.out r.mutated
         | _ -> print_endline "new | ??")
    | _ ->
      (match !st, ws with
       | Absent, op :: _ -> print_endline (op ^ " | NOCONT"); failk := 0; failfrom := 0
       | G g, ["free"] -> let r = script_free g in st := Absent; emit "free" r.evs r.out r.mutated
       | V v, ["free"] -> let r = script_vec_free v in st := Absent; emit "free" r.evs r.out r.mutated
       | G g, ["none"] -> gres "none" (tree_step !sz g TNone n al)
       | V v, ["none"] -> vres "none" (vec_step v VNone n al)
       | G g, ["clear"] -> gres "clear" (tree_step !sz g TClear n al)
       (* tree *)
       | G g, ["tput"; k; ns; ds] -> gres "tput" (tree_step !sz g (TPut (ni (int k), ni (int ns), ni (int ds))) n al)
       | G g, ["tputf"; k; ns; len] -> gres "tputf" (tree_step !sz g (TPutf (ni (int k), ni (int ns), ni (int len))) n al)
       | G g, ["tget"; k] -> gres "tget" (tree_step !sz g (TGet (ni (int k))) n al)
       | G g, "tremove" :: k :: succ :: hint ->
           let leaf = tree_step !sz g (TRemove (ni (int k), None)) n al in
           let r = match optn succ with
             | None -> leaf
             | Some s -> let mid = tree_step !sz g (TRemove (ni (int k), Some s)) n al in
                         let h = match hint with [x] -> x | _ -> "" in
                         if fst (show_ev mid.evs) = h && fst (show_ev leaf.evs) <> h then mid else leaf in
           gres "tremove" r
       | G g, ["tmin"; k] -> gres "tmin" (tree_step !sz g (TMin (ni (int k))) n al)
       | G g, ["tnext"; k] -> gres "tnext" (tree_step !sz g (TNext (ni (int k))) n al)
       (* hash *)
       | G g, ["hput"; k; ns; ds] -> gres "hput" (hash_step !sz g (HPut (ni (int k), ni (int ns), ni (int ds))) n al)
       | G g, ["hputf"; k; ns; len] -> gres "hputf" (hash_step !sz g (HPutf (ni (int k), ni (int ns), ni (int len))) n al)
       | G g, ["hget"; k] -> gres "hget" (hash_step !sz g (HGet (ni (int k))) n al)
       | G g, ["hremove"; k] -> gres "hremove" (hash_step !sz g (HRemove (ni (int k))) n al)
       | G g, ["hnext"; k] -> gres "hnext" (hash_step !sz g (HNext (ni (int k))) n al)
       (* listtbl *)
       | G g, ["lput"; u; t; f; k; ns; ds] -> gres "lput" (ltbl_step !sz g (LPut (b u, b t, b f, ni (int k), ni (int ns), ni (int ds))) n al)
       | G g, ["lputf"; u; t; f; k; ns; len] -> gres "lputf" (ltbl_step !sz g (LPutf (b u, b t, b f, ni (int k), ni (int ns), ni (int len))) n al)
       | G g, ["lget"; p] -> gres "lget" (ltbl_step !sz g (LGet (nat_of_int (int p))) n al)
       | G g, ["lgetmulti"; f; k] -> gres "lgetmulti" (ltbl_step !sz g (LGetmulti (b f, ni (int k))) n al)
       | G g, ["lremove"; f; k] -> gres "lremove" (ltbl_step !sz g (LRemove (b f, ni (int k), None)) n al)
       | G g, ["lremove"; f; k; own] -> gres "lremove" (ltbl_step !sz g (LRemove (b f, ni (int k), Some (nat_of_int (int own)))) n al)
       | G g, ["lnext"; p] -> gres "lnext" (ltbl_step !sz g (LNext (nat_of_int (int p))) n al)
       (* list / queue / stack / grow *)
       | G g, ["saddat"; p; ds; loc] -> gres "saddat" (list_step !sz g (SAddat (nat_of_int (int p), ni (int ds), b loc)) n al)
       | G g, ["saddf"; p; len] -> gres "saddf" (list_step !sz g (SAddf (nat_of_int (int p), ni (int len))) n al)
       | G g, ["sgetat"; p] -> gres "sgetat" (list_step !sz g (SGetat (nat_of_int (int p))) n al)
       | G g, ["spopat"; p; t] -> gres "spopat" (list_step !sz g (SPopat (nat_of_int (int p), b t)) n al)
       | G g, ["sgettmp"; p] -> gres "sgettmp" (list_step !sz g (SGettmp (nat_of_int (int p))) n al)
       | G g, ["sremoveat"; p] -> gres "sremoveat" (list_step !sz g (SRemoveat (nat_of_int (int p))) n al)
       | G g, ["stoarray"; size; flags] ->
           let nz = if flags = "-" then [] else List.init (String.length flags) (fun i -> flags.[i] = '1') in
           gres "stoarray" (list_step !sz g (SToarray (ni (int size), nz)) n al)
       | G g, ["sreverse"] -> gres "sreverse" (list_step !sz g SReverse n al)
       (* hasharr *)
       | G g, ["aget"; ds] -> gres "aget" (harr_step g (AGet (ni (int ds))) n al)
       | G g, ["aputf"; len] -> gres "aputf" (harr_step g (APutf (ni (int len))) n al)
       | G g, ["anext"; ns; ds] -> gres "anext" (harr_step g (ANext (ni (int ns), ni (int ds))) n al)
       (* vector *)
       | V v, ["vaddat"; p] -> vres "vaddat" (vec_step v (VAddat (ni (int p))) n al)
       | V v, ["vgetat"] -> vres "vgetat" (vec_step v VGetat n al)
       | V v, ["vpopat"; p] -> vres "vpopat" (vec_step v (VPopat (ni (int p))) n al)
       | V v, ["vremoveat"; p] -> vres "vremoveat" (vec_step v (VRemoveat (ni (int p))) n al)
       | V v, ["vsetat"] -> vres "vsetat" (vec_step v VSetat n al)
       | V v, ["vresize"; m] -> vres "vresize" (vec_step v (VResize (ni (int m))) n al)
       | V v, ["vreverse"] -> vres "vreverse" (vec_step v VReverse n al)
       | V v, ["vtoarray"] -> vres "vtoarray" (vec_step v VToarray n al)
       | V v, ["vclear"] -> vres "vclear" (vec_step v VClear n al)
       | _, op :: _ -> print_endline (op ^ " | ??"); failk := 0; failfrom := 0
       | _, [] -> ()))
