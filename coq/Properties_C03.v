(* C03 — Traversal: successive qtreetbl_getnext calls on an unmodified table return every stored key exactly once, in
   ascending key order, with the current values, and then report the end.
   This file contains only the property theorems; each is closed by a lemma proved in Tree/TreeIter.v.
   Model: Tree/QTree.v (qgetnext = the while loop of qtreetbl_getnext as the step machine mstep, reset_iter, walk_n = n calls);
   specification: Tree/TreeSpec.v (sorted association list; SWalk (firstn n m) (length m <? n)). *)
From Coq Require Import NArith PArith List Bool FMapPositive Permutation.
From QV.Base Require Import Res.
From QV.Tree Require Import TreeModel TreeLlrb QTree TreeSpec QTreeProofs TreeIter.
Import ListNotations.

Section C03.
Variable kcmp : list N -> list N -> comparison.
Hypothesis kcmp_trans : forall a b c, kcmp a b = Lt -> kcmp b c = Lt -> kcmp a c = Lt.
Hypothesis kcmp_antisym : forall a b, kcmp a b = CompOpp (kcmp b a).
Hypothesis kcmp_eq_l : forall a b c, kcmp a b = Eq -> kcmp a c = kcmp b c.

(* identity / traversal-state invariant: node ids pairwise distinct and below the allocator, sequencer in 1..255,
   no stamp newer than the sequencer, unused ids unstamped.  Holds initially and is kept by every operation,
   none of which can crash or run out of fuel. *)
Theorem C03_inv_init : Inv kcmp init /\ IdInv init /\ Clean init.
Proof. exact (conj (Inv_init kcmp) (conj IdInv_init Clean_init)). Qed.
Theorem C03_step_inv : forall s o s' ob, Inv kcmp s -> IdInv s -> step kcmp s o = Ok (s', ob) -> Inv kcmp s' /\ IdInv s'.
Proof. exact (step_inv kcmp kcmp_trans kcmp_antisym kcmp_eq_l). Qed.
Theorem C03_step_total : forall s o, Inv kcmp s -> IdInv s -> exists s' ob, step kcmp s o = Ok (s', ob).
Proof. exact (step_total kcmp kcmp_trans kcmp_antisym kcmp_eq_l). Qed.

(* every node object is found under its id together with the ids of its two children *)
Theorem C03_lookup_sub : forall t, NoDup (ids t) -> wfv t t.
Proof. exact lookup_sub. Qed.

(* the loop of getnext: from the root i of a subtree u it hands out, in in-order, the nodes reachable through nodes
   without the current stamp (all nodes of u when none is stamped: vis_all), stamps exactly those, leaves parent links
   outside u alone, ends at the old parent link of i, within 3*size(u) - 1 iterations *)
Theorem C03_visit_subtree : forall t tid u m i, rootid u = Some i -> wfv t u -> NoDup (ids u) -> cur m = Some i ->
  exists n m', runm t tid n m = (vis tid (mtids m) u, m') /\ cur m' = PM.find i (mnexts m) /\
    stamps tid m m' (vis tid (mtids m) u) /\
    (forall j, j = i \/ ~ In j (ids u) -> PM.find j (mnexts m') = PM.find j (mnexts m)) /\
    n + 1 <= 3 * size u.
Proof. exact walk_sub. Qed.
Theorem C03_visit_all : forall tid tm u, (forall j, In j (ids u) -> st tid tm j = false) -> vis tid tm u = ids u.
Proof. exact vis_all. Qed.

(* n calls of getnext starting from a zeroed cursor on a table satisfying the invariants: the first n entries in ascending
   key order with their current values, and the end exactly when n exceeds the number of entries; never Crash/Fuel; the
   table differs afterwards only in the traversal fields (ttid, tids, nexts) and satisfies the invariants again *)
Theorem C03_fresh_walk_seq : forall s n, Inv kcmp s -> IdInv s ->
  exists s', walk_n n s cursor0 [] = Ok (s', firstn n (abs s), Nat.ltb (length (abs s)) n) /\
    root s' = root s /\ num s' = num s /\ nextid s' = nextid s /\ Inv kcmp s' /\ IdInv s' /\
    (Nat.ltb (length (abs s)) n = true -> Clean s') /\ (n = 0 -> s' = s).
Proof. exact (fresh_walk_seq kcmp). Qed.

(* every history of all operations from the empty table: the model never crashes, keeps the invariants, and every observation
   is the one the sorted-map specification prescribes -- for Walk n the ascending prefix and the end flag, for Nearest k n the
   floor entry and (when no walk was left unfinished) the number of entries visited afterwards.  The specification's flag
   `dirty` = false implies that no node carries the current stamp. *)
Theorem C03_walk : forall os, exists s obs d, run kcmp init os = Ok (s, obs) /\ Inv kcmp s /\ IdInv s /\ (d = false -> Clean s) /\
  fst (srun kcmp sinit os) = (abs s, d) /\ Forall2 obs_ok obs (snd (srun kcmp sinit os)).
Proof. exact (run_init_refines kcmp kcmp_trans kcmp_antisym kcmp_eq_l). Qed.
Theorem C03_run_refines : forall os s d, Inv kcmp s -> IdInv s -> (d = false -> Clean s) ->
  exists s' obs d', run kcmp s os = Ok (s', obs) /\ Inv kcmp s' /\ IdInv s' /\ (d' = false -> Clean s') /\
    fst (srun kcmp (abs s, d) os) = (abs s', d') /\ Forall2 obs_ok obs (snd (srun kcmp (abs s, d) os)).
Proof. exact (run_refines kcmp kcmp_trans kcmp_antisym kcmp_eq_l). Qed.
End C03.

Print Assumptions C03_inv_init.
Print Assumptions C03_step_inv.
Print Assumptions C03_step_total.
Print Assumptions C03_lookup_sub.
Print Assumptions C03_visit_subtree.
Print Assumptions C03_visit_all.
Print Assumptions C03_fresh_walk_seq.
Print Assumptions C03_walk.
Print Assumptions C03_run_refines.

(* non-vacuity: the default byte ordering satisfies the three premises, and concrete histories *)
Example C03_walk_default_order : forall os, exists s obs d, run byte_cmp init os = Ok (s, obs) /\ Inv byte_cmp s /\ IdInv s /\ (d = false -> Clean s) /\
  fst (srun byte_cmp sinit os) = (abs s, d) /\ Forall2 obs_ok obs (snd (srun byte_cmp sinit os)).
Proof. exact (C03_walk byte_cmp byte_cmp_trans byte_cmp_antisym byte_cmp_eq_l). Qed.

Local Open Scope N_scope.
Definition observations (r : res (tbl * list obs)) : list obs := match r with Ok (_, o) => o | _ => [] end.
Example C03_example_walks :
  observations (run byte_cmp init
    [Put [2] [20]; Put [1] [10]; Put [3] [30]; Walk 2; Walk 5; Put [2] [21]; Remove [1]; Walk 3; Clear; Walk 1]) =
  [OBool true; OBool true; OBool true;
   OWalk [([1], [10]); ([2], [20])] false;
   OWalk [([1], [10]); ([2], [20]); ([3], [30])] true;
   OBool true; OBool true;
   OWalk [([2], [21]); ([3], [30])] true;
   OUnit; OWalk [] true].
Proof. vm_compute. reflexivity. Qed.
(* an abandoned walk followed by the sequencer wrapping around (300 complete walks) does not disturb a later walk *)
Example C03_example_wrap :
  observations (run byte_cmp init ([Put [2] [20]; Put [1] [10]; Walk 1] ++ repeat (Walk 3) 300 ++ [Put [3] [30]; Walk 4])) =
  [OBool true; OBool true; OWalk [([1], [10])] false] ++ repeat (OWalk [([1], [10]); ([2], [20])] true) 300 ++
  [OBool true; OWalk [([1], [10]); ([2], [20]); ([3], [30])] true].
Proof. vm_compute. reflexivity. Qed.
