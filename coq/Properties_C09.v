(* C09 — List, queue, stack and grow buffer are exact sequences (FIFO/LIFO/concatenation).
   This file contains only the property theorems; each is closed by a lemma proved in Seq/ListProofs.v or Seq/WrapProofs.v.

   Reading guide.  `run init h` is the qlist model (Seq/ListModel.v, transcribed from qlist.c with its int/size_t
   conversions, its walk, its stored counters) folded over a history h; `srun sinit h` is the ideal sequence
   (Seq/ListSpec.v).  Hypotheses of the history theorems:
     Forall wf_op h  — every index argument is a C int;
     bounded sinit h — the list holds fewer than 2^31 elements whenever an operation starts (int indexes);
     defined sinit h — the history never continues a walk with a stale cursor (OUndef in the specification).
   Returning `Ok` means: never Crash (no NULL/dangling dereference, no heap overrun in toarray/tostring), never Fuel. *)
From Coq Require Import NArith ZArith List Bool.
From QV.Base Require Import Res.
From QV.Seq Require Import ListModel ListSpec WrapModel WrapSpec ListProofs WrapProofs.
Import ListNotations. Import QL QLS QW QWS.
Local Open Scope Z_scope.

(* the C index arithmetic (int mixed with size_t) computes exactly the documented positions, for every int index *)
Theorem C09_index_insert : forall n index, 0 <= n < 2^31 -> int index ->
  let idx := norm_add n index in
  (ins_pos n index = None /\ ((idx <? 0) || (n <? u64 idx)) = true) \/
  (exists p, 0 <= p <= n /\ idx = p /\ ins_pos n index = Some (Z.to_nat p) /\ ((idx <? 0) || (n <? u64 idx)) = false /\ u64 idx = p).
Proof. exact norm_add_ok. Qed.
Theorem C09_index_access : forall n index, 0 <= n < 2^31 -> int index ->
  let idx := norm_get n index in
  (acc_pos n index = None /\ (n <=? u64 idx) = true) \/
  (exists p, 0 <= p < n /\ idx = p /\ acc_pos n index = Some (Z.to_nat p) /\ (n <=? u64 idx) = false /\ u64 idx = p).
Proof. exact norm_get_ok. Qed.
(* get_obj (walk from the nearer end, with fuel) returns the node at the documented position, or ERANGE *)
Theorem C09_get_obj : forall q index, Inv q -> len (items q) < 2^31 -> int index ->
  get_obj q index = Ok (get_res (items q) index).
Proof. exact get_obj_ok. Qed.

(* refinement: every history produces exactly the observations of the ideal sequence; the final contents and limit are the
   ideal ones; the stored element count and byte total are exact *)
Theorem C09_refines : forall h, Forall wf_op h -> bounded sinit h -> defined sinit h ->
  exists s, run init h = Ok (s, snd (srun sinit h)) /\
            datas (items (fst s)) = sl (fst (srun sinit h)) /\ maxn (fst s) = smax (fst (srun sinit h)) /\
            num (fst s) = len (sl (fst (srun sinit h))) /\ datasum (fst s) = total (sl (fst (srun sinit h))).
Proof. exact list_refines. Qed.
(* the same from any state satisfying the invariant and related to a specification state *)
Theorem C09_refines_from : forall h s st, Inv (fst s) -> R s st -> Forall wf_op h -> bounded st h -> defined st h ->
  exists s', run s h = Ok (s', snd (srun st h)) /\ Inv (fst s') /\ R s' (fst (srun st h)).
Proof. exact run_refines. Qed.
Theorem C09_step_refines : forall s st o, Inv (fst s) -> R s st -> len (sl st) < 2^31 -> wf_op o -> snd (sstep st o) <> OUndef ->
  exists s', step s o = Ok (s', snd (sstep st o)) /\ Inv (fst s') /\ R s' (fst (sstep st o)).
Proof. exact step_refines. Qed.
(* a refused operation (out of range, over the limit, NULL/empty data, nothing to return) leaves list, counters and cursor equal *)
Theorem C09_refusal_no_effect : forall s o s' ob, step s o = Ok (s', ob) -> refusal ob -> s' = s.
Proof. exact refusal_no_effect. Qed.
(* forward walking: after any history a cleared cursor yields exactly the current contents front to back, then ENOENT *)
Theorem C09_walk : forall h nm, Forall wf_op h -> bounded sinit h -> defined sinit h ->
  len (sl (fst (srun sinit h))) < 2^31 ->
  let l := sl (fst (srun sinit h)) in
  exists s', run init (h ++ CurReset :: repeat (GetNext nm) (S (length l))) =
             Ok (s', snd (srun sinit h) ++ OOk :: map OData l ++ [OFail ENOENT]).
Proof. exact walk_after_history. Qed.

(* queue, stack, grow buffer *)
Theorem C09_queue_refines : forall h q st, Inv q -> WR q st -> Forall wf_wop h -> wbounded Queue st h -> wdefined Queue st h ->
  exists q', wrun Queue q h = Ok (q', snd (wsrun Queue st h)) /\ Inv q' /\ WR q' (fst (wsrun Queue st h)).
Proof. exact (wrun_refines Queue). Qed.
Theorem C09_stack_refines : forall h q st, Inv q -> WR q st -> Forall wf_wop h -> wbounded Stack st h -> wdefined Stack st h ->
  exists q', wrun Stack q h = Ok (q', snd (wsrun Stack st h)) /\ Inv q' /\ WR q' (fst (wsrun Stack st h)).
Proof. exact (wrun_refines Stack). Qed.
Theorem C09_grow_refines : forall h q l, Inv q -> WR q (l, 0) -> gbounded l h -> gdefined l h ->
  exists q', grun q h = Ok (q', snd (gsrun l h)) /\ Inv q' /\ WR q' (fst (gsrun l h), 0).
Proof. exact grun_refines. Qed.
Theorem C09_fifo : forall xs, Forall nonempty xs -> len xs < 2^31 ->
  exists q, wrun Queue linit (pushes xs ++ repeat WPop (length xs)) = Ok (q, repeat OOk (length xs) ++ map OData xs) /\ items q = [].
Proof. exact queue_fifo. Qed.
Theorem C09_lifo : forall xs, Forall nonempty xs -> len xs < 2^31 ->
  exists q, wrun Stack linit (pushes xs ++ repeat WPop (length xs)) = Ok (q, repeat OOk (length xs) ++ map OData (rev xs)) /\ items q = [].
Proof. exact stack_lifo. Qed.
Theorem C09_grow_concat : forall ps, Forall nonempty ps -> ps <> [] -> len ps < 2^31 ->
  exists q, grun linit (adds ps ++ [GToArray; GToString; GSize; GDataSize]) =
            Ok (q, repeat OOk (length ps) ++ [OArr (concat ps) (total ps); OStr (concat (map strip ps) ++ [0%N]); ONum (len ps); ONum (total ps)]).
Proof. exact grow_concat. Qed.
Theorem C09_grow_string_pieces : forall ps, Forall no_trailing_nul ps -> map strip ps = ps.
Proof. exact strip_id. Qed.
Theorem C09_int_roundtrip : forall z, - 2^63 <= z < 2^63 -> read_int (int_bytes z) = Ok z.
Proof. exact int_roundtrip. Qed.

(* non-vacuity: a concrete history meeting the hypotheses (insertion by negative index at the front, refused insertions,
   limit, removal, reversal, walk), evaluated in model and specification *)
Definition ex_h : list op :=
  [AddLast (Some [97%N; 0%N]); AddAt (-1) (Some [98%N]); AddAt (-3) (Some [0%N; 99%N]); AddAt (-5) (Some [100%N]); AddAt 4 (Some [100%N]);
   AddFirst None; AddLast (Some []); SetSize 3; AddLast (Some [101%N]); GetAt (-3) true; PopAt 1; AddAt 1 (Some [102%N; 0%N; 0%N]);
   Reverse; CurReset; GetNext true; GetNext false; GetNext true; GetNext true; RemoveAt (-4); ToString; ToArray; Size; DataSize].
Example C09_ex_hyps : Forall wf_op ex_h /\ bounded sinit ex_h /\ defined sinit ex_h.
Proof.
  split; [|split].
  - unfold ex_h, int. repeat constructor; cbn; try discriminate; try (intro; discriminate).
  - vm_compute. repeat split; reflexivity.
  - unfold defined. vm_compute. intros H. repeat (destruct H as [H|H]; [discriminate|]). exact H.
Qed.
Example C09_ex_run :
  snd (srun sinit ex_h) =
    [OOk; OOk; OOk; OFail ERANGE; OFail ERANGE; OFail EINVAL; OFail EINVAL; ONum 0; OFail ENOBUFS; OData [0%N; 99%N]; OData [97%N; 0%N]; OOk;
     OOk; OOk; OData [98%N]; OData [102%N; 0%N; 0%N]; OData [0%N; 99%N]; OFail ENOENT; OFail ERANGE;
     OStr [98%N; 102%N; 0%N; 0%N; 99%N; 0%N]; OArr [98%N; 102%N; 0%N; 0%N; 0%N; 99%N] 6; ONum 3; ONum 6] /\
  (exists s, run init ex_h = Ok (s, snd (srun sinit ex_h))).
Proof. split; [vm_compute; reflexivity|]. eexists. vm_compute. reflexivity. Qed.
(* the hypothesis num < 2^31 is tight: with 2^31 elements stored, addlast (index -1) fails the range test of qlist_addat *)
Example C09_bound_tight : let idx := norm_add (2^31) (-1) in ((idx <? 0) || (2^31 <? u64 idx)) = true /\ ((0 <=? 2^31 + -1 + 1) && (2^31 + -1 + 1 <=? 2^31)) = true.
Proof. vm_compute. auto. Qed.
Example C09_ex_fifo_lifo :
  (exists q, wrun Queue linit (pushes [[1%N]; [2%N; 0%N]; [3%N]] ++ repeat WPop 3) = Ok (q, [OOk; OOk; OOk; OData [1%N]; OData [2%N; 0%N]; OData [3%N]])) /\
  (exists q, wrun Stack linit (pushes [[1%N]; [2%N; 0%N]; [3%N]] ++ repeat WPop 3) = Ok (q, [OOk; OOk; OOk; OData [3%N]; OData [2%N; 0%N]; OData [1%N]])).
Proof. split; eexists; vm_compute; reflexivity. Qed.

Print Assumptions C09_index_insert.
Print Assumptions C09_index_access.
Print Assumptions C09_get_obj.
Print Assumptions C09_refines.
Print Assumptions C09_refines_from.
Print Assumptions C09_step_refines.
Print Assumptions C09_refusal_no_effect.
Print Assumptions C09_walk.
Print Assumptions C09_queue_refines.
Print Assumptions C09_stack_refines.
Print Assumptions C09_grow_refines.
Print Assumptions C09_fifo.
Print Assumptions C09_lifo.
Print Assumptions C09_grow_concat.
Print Assumptions C09_grow_string_pieces.
Print Assumptions C09_int_roundtrip.
