(* C20 — Configuration parsers deliver exactly what the file says.
   This file contains only the property theorems; each is closed by a lemma proved elsewhere. *)
From Coq Require Import NArith List.
From QV.Base Require Import Res Bytes.
From QV.Gen Require Import Consts.
From QV.Conf Require Import IniModel IniSpec IniProofs AconfModel AconfSpec AconfProofs AconfDoc.
Import ListNotations.
Local Open Scope N_scope.

(* INI-style parser: for every well-formed document d, every layout (white space, final newline), every separator, every
   environment and whatever external commands would print, parsing the rendered text yields exactly the entries the
   reference semantics assigns to d: file order, comments and blank lines ignored, "section." prefixes and the section marker
   entry, ${name} replaced by the value in effect at that line, ${%NAME} by the environment. *)
Theorem C20_ini_roundtrip : forall env cmd sep final_nl d, ini_wf env QCONF_MAX_SUBSTITUTIONS sep d = true ->
  ini_parse_str env cmd sep (ini_render sep final_nl d) = Ok (ini_eval env d).
Proof. exact ini_roundtrip. Qed.

(* every boolean spelling, in any letter case, and nothing else *)
Theorem C20_is_bool_spec : forall s, is_str_bool s = bool_form s.
Proof. exact is_bool_spec. Qed.

(* 1 exactly for -?[0-9]+ (integer), 2 exactly for -?[0-9]+.[0-9]+ (floating point), 0 otherwise *)
Theorem C20_is_number_spec : forall s, is_str_number s = if int_form s then 1 else if float_form s then 2 else 0.
Proof. exact is_number_spec. Qed.

(* Apache-style tokenizer: the words of a line written with any mix of bare / single-quoted / double-quoted style, with the
   quotation mark and backslash escaped (or every character escaped), separated by blanks (optional after a quoted word),
   are split and unquoted/unescaped exactly *)
Theorem C20_aconf_tokenize_render : forall ws, ws <> [] -> words_ok false ws = true ->
  aconf_tokenize (render_words ws) = TokOk (map w_text ws).
Proof. exact aconf_tokenize_render. Qed.

(* Apache-style parser, document level.  For every option table T, parser flags, default handler or not, callback behaviour cb,
   line buffer size maxl >= 1, and every well-formed document tree d (any indentation, gaps, quoting styles, escapes, comments,
   blank lines; every line fits the line buffer) of nesting depth < 256: parsing the rendered text gives exactly what the
   reference semantics says about the tree - the same count when it conforms to the table (known options or ignored/default-handled
   ones, section scopes, argument counts and types) and the same callback trace (otype, section, sections, level, parent chain,
   argv with booleans normalised), otherwise the error of the first offending line, with the callbacks made up to it. *)
Theorem C20_aconf_accepts_iff : forall cb T flags defcb maxl, (1 <= maxl)%nat -> forall d, wf_nodes maxl d = true -> adepths d < 256 ->
  exists r, aconf_parse cb T flags defcb maxl (aconf_render d) = Ok r /\ obs_p r = obs_s (aconf_srun cb T flags defcb d).
Proof. exact aconf_accepts_iff. Qed.
(* the count of an accepted document is its number of directives: one per option line, two per section *)
Theorem C20_aconf_count : forall cb T flags defcb d c l evs, aconf_srun cb T flags defcb d = SOk c l evs -> c = aconf_count d.
Proof. intros cb T flags defcb. exact (aconf_count_spec cb T flags defcb 1 (le_n 1)). Qed.
(* the depth bound is needed (known finding: level is a uint8_t): <S> nested 256 times around the line S is well-formed, but the
   parser reports level 0 where the document has level 256 *)
Theorem C20_aconf_level_refuted : wf_nodes 100 deep_doc = true /\ adepths deep_doc = 256 /\
  forall r, aconf_parse cb_ok T_S 0 false 100 (aconf_render deep_doc) = Ok r -> obs_p r <> obs_s (aconf_srun cb_ok T_S 0 false deep_doc).
Proof. exact aconf_level_refuted. Qed.

(* non-vacuity: a document with a comment, a section, a re-definition, references to both and to the environment is well-formed *)
Definition ex_env (n : list N) : option (list N) := if list_eqb n [72] then Some [47; 104] else None.
Definition ex_lay : lay := {| l_pre := [32]; l_mid1 := [9]; l_mid2 := [32; 32]; l_post := [13] |}.
Definition ex_doc : ini_doc :=
  [(IComment [32; 104; 105], ex_lay); (IEntry [97] [PLit [49]], ex_lay); (IEntry [97] [PRef [97]; PLit [50]], ex_lay);
   (ISection [115], ex_lay); (IEntry [98] [PRef [97]; PLit [32; 45; 32]; PEnv [72]; PRef [115; 46]], ex_lay); (IBlank, ex_lay);
   (ISection [], ex_lay); (IEntry [99] [PRef [115; 46; 98]; PEnv [90]], ex_lay)].
Example C20_ex_ini : ini_wf ex_env QCONF_MAX_SUBSTITUTIONS 61 ex_doc = true /\
  ini_eval ex_env ex_doc = [([97], [49]); ([97], [49; 50]); ([115; 46], [115]); ([115; 46; 98], [49; 50; 32; 45; 32; 47; 104; 115]);
                            ([99], [49; 50; 32; 45; 32; 47; 104; 115])].
Proof. vm_compute. auto. Qed.

Definition ex_words : list aword :=
  [{| w_gap := []; w_style := Bare; w_text := [84; 88; 84] |};
   {| w_gap := [32; 9]; w_style := Quoted 34 false; w_text := [85; 83; 32; 34; 83; 39; 115; 34; 92] |};
   {| w_gap := []; w_style := Quoted 39 true; w_text := [39; 32; 34] |};
   {| w_gap := [32]; w_style := Bare; w_text := [97; 92; 34; 98] |}].
Example C20_ex_words : words_ok false ex_words = true /\ aconf_tokenize (render_words ex_words) = TokOk (map w_text ex_words).
Proof. vm_compute. auto. Qed.

Definition ex_T : list opt :=
  [{| o_name := [68]; o_take := 1; o_cb := true; o_sectionid := 2; o_sections := 1 |};           (* D: section, one string, root only *)
   {| o_name := [66]; o_take := 16777217; o_cb := true; o_sectionid := 0; o_sections := 2 |}].   (* B: one boolean, inside D only *)
Definition ex_tree : list anode :=
  [NComment [32] [104; 105];
   NSect [9] [{| w_gap := []; w_style := Bare; w_text := [68] |}; {| w_gap := [32]; w_style := Quoted 34 false; w_text := [97; 32; 34] |}] [13]
     [NBlank []; NDir [32; 32] [{| w_gap := []; w_style := Bare; w_text := [66] |}; {| w_gap := [9]; w_style := Bare; w_text := [79; 102; 102] |}] []]
     [] [68] [32]].
Example C20_ex_tree : wf_nodes maxline ex_tree = true /\ adepths ex_tree = 1 /\
  (exists l evs, aconf_srun cb_ok ex_T 0 false ex_tree = SOk 3 l evs /\ map (fun e => c_argv (ev_data e)) (rev evs) = [[[68]; [97; 32; 34]]; [[66]; [48]]; [[68]; [97; 32; 34]]]).
Proof. split; [vm_compute; reflexivity|]. split; [vm_compute; reflexivity|]. eexists. eexists. split; vm_compute; reflexivity. Qed.

Print Assumptions C20_ini_roundtrip.
Print Assumptions C20_aconf_accepts_iff.
Print Assumptions C20_aconf_count.
Print Assumptions C20_aconf_level_refuted.
Print Assumptions C20_is_number_spec.
Print Assumptions C20_aconf_tokenize_render.
Print Assumptions C20_is_bool_spec.
