(* C20 — Configuration parsers deliver exactly what the file says.
   This file contains only the property theorems; each is closed by a lemma proved elsewhere. *)
From Coq Require Import NArith List.
From QV.Base Require Import Res Bytes.
From QV.Gen Require Import Consts.
From QV.Conf Require Import IniModel IniSpec AconfModel AconfSpec AconfProofs.
Import ListNotations.
Local Open Scope N_scope.

(* every boolean spelling, in any letter case, and nothing else *)
Theorem C20_is_bool_spec : forall s, is_str_bool s = bool_form s.
Proof. exact is_bool_spec. Qed.

Print Assumptions C20_is_bool_spec.
