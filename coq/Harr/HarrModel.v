(* Executable model of the static hash table image (qhasharr.c): header counters and maxslots slot records
   (count, hash, datasize, link, key, data bytes), with find_avail, get_idx, get_data, put_data (multi-slot, with
   roll-back), copy_slot/remove_slot/remove_data, the three placement cases of put_by_obj (including relocation of a
   foreign collision/extension block and back-link repair) and remove_by_idx (including promotion of a collision key).
   Keys are an abstract type K with a decidable equality keq and a home slot function (hash mod maxslots); the stored
   key stands for the triple (length, 16-byte prefix, MD5) the C code compares -- equal to key equality unless two keys
   of the same length and prefix have the same MD5.  Slot payload sizes come from Gen/Consts.v (compiled probe). *)
From Coq Require Import List Arith ZArith Bool.
From QV.Gen Require Import Consts.
Import ListNotations.
Local Open Scope Z_scope.
Set Implicit Arguments.

Section Harr.
Variable K : Type.
Variable keq : K -> K -> bool.
Variable home : K -> nat.
Definition byte := nat.
Definition DATASZ : nat := HARR_DATASZ.
Definition EXTSZ : nat := HARR_EXTSZ.

Record slot := mk { cnt : Z; hsh : nat; dsz : nat; lnk : Z; key : option K; dat : list byte }.
Definition free_slot : slot := mk 0 0 0 0 None [].
Record img := mkimg { maxs : nat; used : Z; num : Z; slots : nat -> slot }.

Definition init (m:nat) : img := mkimg m 0 0 (fun _ => free_slot).
Definition getS (g:img) (i:nat) : slot := slots g i.
Definition setS (g:img) (i:nat) (s:slot) : img :=
  mkimg (maxs g) (used g) (num g) (fun j => if Nat.eqb j i then s else slots g j).
Definition with_cnt (s:slot) c := mk c (hsh s) (dsz s) (lnk s) (key s) (dat s).
Definition with_hsh (s:slot) h := mk (cnt s) h (dsz s) (lnk s) (key s) (dat s).
Definition with_lnk (s:slot) l := mk (cnt s) (hsh s) (dsz s) l (key s) (dat s).
Definition bump (g:img) (du dn:Z) : img := mkimg (maxs g) (used g + du) (num g + dn) (slots g).

Definition ring (m start:nat) : list nat := seq start (m - start) ++ seq 0 start.

Definition find_avail (g:img) (start:nat) : option nat :=
  let st := if Nat.leb (maxs g) start then O else start in
  find (fun i => Z.eqb (cnt (getS g i)) 0) (ring (maxs g) st).

Definition is_keyslot (s:slot) := Z.ltb 0 (cnt s) || Z.eqb (cnt s) (-1).

Fixpoint get_idx_scan (g:img) (k:K) (h:nat) (target:Z) (count:Z) (idxs:list nat) : option nat :=
  if Z.leb target count then None else
  match idxs with
  | [] => None
  | i :: r =>
      let s := getS g i in
      if Nat.eqb (hsh s) h && is_keyslot s then
        match key s with
        | Some k' => if keq k k' then Some i else get_idx_scan g k h target (count+1) r
        | None => get_idx_scan g k h target (count+1) r
        end
      else get_idx_scan g k h target count r
  end.
Definition get_idx (g:img) (k:K) (h:nat) : option nat :=
  if Z.ltb 0 (cnt (getS g h)) then get_idx_scan g k h (cnt (getS g h)) 0 (ring (maxs g) h) else None.

Fixpoint get_data (fuel:nat) (g:img) (i:nat) : list byte :=
  match fuel with O => [] | S f =>
    let s := getS g i in
    firstn (dsz s) (dat s) ++ (if Z.eqb (lnk s) (-1) then [] else get_data f g (Z.to_nat (lnk s)))
  end.

Fixpoint remove_chain (fuel:nat) (g:img) (i:nat) : img :=
  match fuel with O => g | S f =>
    let s := getS g i in
    let g2 := bump (setS g i (with_cnt s 0)) (-1) 0 in
    if Z.eqb (lnk s) (-1) then g2 else remove_chain f g2 (Z.to_nat (lnk s))
  end.
Definition remove_data (g:img) (i:nat) : img := bump (remove_chain (S (maxs g)) g i) 0 (-1).

Fixpoint put_ext (fuel:nat) (g:img) (head:nat) (prev:nat) (rest:list byte) : img * bool :=
  match rest with
  | [] => (g, true)
  | _ =>
    match fuel with O => (g, false) | S f =>
      match find_avail g (S prev) with
      | None => (remove_data g head, false)
      | Some t =>
          let piece := firstn EXTSZ rest in
          let g1 := setS g t (mk (-2) prev (length piece) (-1) None piece) in
          let g2 := setS g1 prev (with_lnk (getS g1 prev) (Z.of_nat t)) in
          put_ext f (bump g2 1 0) head t (skipn EXTSZ rest)
      end
    end
  end.
Definition put_data (g:img) (idx:nat) (h:nat) (k:K) (v:list byte) (count:Z) : img * bool :=
  let piece := firstn DATASZ v in
  let g1 := setS g idx (mk count h (length piece) (-1) (Some k) piece) in
  put_ext (S (maxs g)) (bump g1 1 1) idx idx (skipn DATASZ v).

Definition copy_slot (g:img) (i1 i2:nat) : img :=
  if negb (Z.eqb (cnt (getS g i1)) 0) || Z.eqb (cnt (getS g i2)) 0 then g else setS g i1 (getS g i2).
Definition remove_slot (g:img) (i:nat) : img := setS g i (with_cnt (getS g i) 0).

Definition find_collision (g:img) (i:nat) : option nat :=
  find (fun j => Z.eqb (cnt (getS g j)) (-1) && Nat.eqb (hsh (getS g j)) (hsh (getS g i)))
       (tl (ring (maxs g) i)).
Definition remove_by_idx (g:img) (i:nat) : img * bool :=
  let c := cnt (getS g i) in
  if Z.eqb c 1 then (remove_data g i, true)
  else if Z.ltb 1 c then
    match find_collision g i with
    | None => (g, false)
    | Some j =>
        let g1 := remove_data g i in
        let g2 := copy_slot g1 i j in
        let g3 := remove_slot g2 j in
        let g4 := setS g3 i (with_cnt (getS g3 i) (c - 1)) in
        let l := lnk (getS g4 i) in
        let g5 := if Z.eqb l (-1) then g4 else setS g4 (Z.to_nat l) (with_hsh (getS g4 (Z.to_nat l)) i) in
        (g5, true)
    end
  else if Z.eqb c (-1) then
    let hm := hsh (getS g i) in
    if Z.leb (cnt (getS g hm)) 1 then (g, false)
    else
      let g1 := setS g hm (with_cnt (getS g hm) (cnt (getS g hm) - 1)) in
      (remove_data g1 i, true)
  else (g, false).

Fixpoint put (again:nat) (g:img) (k:K) (v:list byte) : img * bool :=
  if Z.leb (Z.of_nat (maxs g)) (used g) then (g, false) else
  let h := home k in
  let c := cnt (getS g h) in
  if Z.eqb c 0 then put_data g h h k v 1
  else if Z.ltb 0 c then
    match get_idx g k h with
    | Some i =>
        match again with
        | O => (g, false)
        | S a => let (g1, _) := remove_by_idx g i in put a g1 k v
        end
    | None =>
        match find_avail g h with
        | None => (g, false)
        | Some i =>
            let (g1, ok) := put_data g i h k v (-1) in
            if ok then (setS g1 h (with_cnt (getS g1 h) (cnt (getS g1 h) + 1)), true) else (g1, false)
        end
    end
  else
    match find_avail g (S h) with
    | None => (g, false)
    | Some i =>
        let g1 := copy_slot g i h in
        let g2 := remove_slot g1 h in
        let l := lnk (getS g2 i) in
        let g3 := if Z.eqb l (-1) then g2 else setS g2 (Z.to_nat l) (with_hsh (getS g2 (Z.to_nat l)) i) in
        let g4 := if Z.eqb (cnt (getS g3 i)) (-2)
                  then setS g3 (hsh (getS g3 i)) (with_lnk (getS g3 (hsh (getS g3 i))) (Z.of_nat i)) else g3 in
        put_data g4 h h k v 1
    end.

Definition get (g:img) (k:K) : option (list byte) :=
  match get_idx g k (home k) with Some i => Some (get_data (S (maxs g)) g i) | None => None end.
Definition remove (g:img) (k:K) : img * bool :=
  match get_idx g k (home k) with Some i => remove_by_idx g i | None => (g, false) end.

Inductive op := Put (k:K) (v:list byte) | Get (k:K) | Del (k:K).
Inductive out := OBool (b:bool) | OVal (v:option (list byte)).

Definition put_api (g:img) (k:K) (v:list byte) : img * bool :=
  match v with [] => (g, false) | _ => put 1 g k v end.     (* datasize == 0 is EINVAL *)

Definition step (g:img) (o:op) : img * out :=
  match o with
  | Put k v => let (g', b) := put_api g k v in (g', OBool b)
  | Get k => (g, OVal (get g k))
  | Del k => let (g', b) := remove g k in (g', OBool b)
  end.
Fixpoint run (g:img) (os:list op) : img * list out :=
  match os with [] => (g, []) | o :: r => let (g1, x) := step g o in let (g2, xs) := run g1 r in (g2, x :: xs) end.

(* ---- the remaining public operations ---- *)
(* qhasharr_getnext: from *idx, skip free slots and extension blocks; hand out the key slot found and set *idx one past it *)
Definition is_walkslot (s:slot) : bool := negb (Z.eqb (cnt s) 0) && negb (Z.eqb (cnt s) (-2)).
Definition getnext (g:img) (idx:nat) : option (option K * list byte * nat) :=
  match find (fun i => is_walkslot (getS g i)) (seq idx (maxs g - idx)) with
  | Some i => Some (key (getS g i), get_data (S (maxs g)) g i, S i)
  | None => None
  end.
Fixpoint walk_from (fuel:nat) (g:img) (idx:nat) : list (option K * list byte) :=
  match fuel with O => [] | S f =>
    match getnext g idx with Some (k, v, i') => (k, v) :: walk_from f g i' | None => [] end end.
Definition walk (g:img) : list (option K * list byte) := walk_from (S (maxs g)) g 0.
(* qhasharr_clear: nothing to do on an empty table, otherwise zero the counters and every slot *)
Definition clear (g:img) : img := if Z.eqb (used g) 0 then g else mkimg (maxs g) 0 0 (fun _ => free_slot).
(* qhasharr_size: (num, maxslots, usedslots) *)
Definition size3 (g:img) : Z * nat * Z := (num g, maxs g, used g).
(* qhasharr_remove_by_idx as a public operation: the index must lie inside the table *)
Definition remove_idx_api (g:img) (i:nat) : img * bool := if Nat.ltb i (maxs g) then remove_by_idx g i else (g, false).

Inductive xop := XBase (o:op) | XDelIdx (i:nat) | XClear | XSize | XWalk.
Inductive xout := XOut (o:out) | XOSize (n:Z) (m:nat) (u:Z) | XOWalk (l:list (option K * list byte)) | XOUnit.
Definition xstep (g:img) (o:xop) : img * xout :=
  match o with
  | XBase b => let (g', x) := step g b in (g', XOut x)
  | XDelIdx i => let (g', b) := remove_idx_api g i in (g', XOut (OBool b))
  | XClear => (clear g, XOUnit)
  | XSize => (g, XOSize (num g) (maxs g) (used g))
  | XWalk => (g, XOWalk (walk g))
  end.
Fixpoint xrun (g:img) (os:list xop) : img * list xout :=
  match os with [] => (g, []) | o :: r => let (g1, x) := xstep g o in let (g2, xs) := xrun g1 r in (g2, x :: xs) end.
End Harr.
