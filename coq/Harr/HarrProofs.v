(* Proofs about the static hash table model: representation invariant Rep (a layout of entries with pairwise disjoint
   slot lists, exact collision counts, intact value chains with back links, free slots elsewhere, header counters equal
   to the census) is preserved by every operation, and every history refines the ideal bounded map (run_refines). *)
From Coq Require Import List Arith ZArith Lia Bool Permutation.
From QV.Gen Require Consts.
From QV.Harr Require Import HarrModel HarrSpec.
Import ListNotations.
Local Open Scope Z_scope.

Section Harr.
Variable K : Type.
Variable keq : K -> K -> bool.
Variable home : K -> nat.
Local Notation slot := (HarrModel.slot K).
Local Notation img := (HarrModel.img K).
Local Notation free_slot := (HarrModel.free_slot K).
Local Notation init := (HarrModel.init K).
Local Notation mk := (@HarrModel.mk K).
Local Notation cnt := (@HarrModel.cnt K).
Local Notation hsh := (@HarrModel.hsh K).
Local Notation dsz := (@HarrModel.dsz K).
Local Notation lnk := (@HarrModel.lnk K).
Local Notation key := (@HarrModel.key K).
Local Notation dat := (@HarrModel.dat K).
Local Notation mkimg := (@HarrModel.mkimg K).
Local Notation maxs := (@HarrModel.maxs K).
Local Notation used := (@HarrModel.used K).
Local Notation num := (@HarrModel.num K).
Local Notation slots := (@HarrModel.slots K).
Local Notation getS := (@HarrModel.getS K).
Local Notation setS := (@HarrModel.setS K).
Local Notation with_cnt := (@HarrModel.with_cnt K).
Local Notation with_hsh := (@HarrModel.with_hsh K).
Local Notation with_lnk := (@HarrModel.with_lnk K).
Local Notation bump := (@HarrModel.bump K).
Local Notation find_avail := (@HarrModel.find_avail K).
Local Notation is_keyslot := (@HarrModel.is_keyslot K).
Local Notation get_data := (@HarrModel.get_data K).
Local Notation remove_chain := (@HarrModel.remove_chain K).
Local Notation remove_data := (@HarrModel.remove_data K).
Local Notation put_ext := (@HarrModel.put_ext K).
Local Notation put_data := (@HarrModel.put_data K).
Local Notation copy_slot := (@HarrModel.copy_slot K).
Local Notation remove_slot := (@HarrModel.remove_slot K).
Local Notation find_collision := (@HarrModel.find_collision K).
Local Notation remove_by_idx := (@HarrModel.remove_by_idx K).
Local Notation get_idx_scan := (@HarrModel.get_idx_scan K keq).
Local Notation get_idx := (@HarrModel.get_idx K keq).
Local Notation put := (@HarrModel.put K keq home).
Local Notation get := (@HarrModel.get K keq home).
Local Notation remove := (@HarrModel.remove K keq home).
Local Notation put_api := (@HarrModel.put_api K keq home).
Local Notation step := (@HarrModel.step K keq home).
Local Notation run := (@HarrModel.run K keq home).
Local Notation op := (HarrModel.op K).
Local Notation Put := (@HarrModel.Put K).
Local Notation Get := (@HarrModel.Get K).
Local Notation Del := (@HarrModel.Del K).
Local Notation amap := (HarrSpec.amap K).
Local Notation adel := (@HarrSpec.adel K keq).
Local Notation aget := (@HarrSpec.aget K keq).
Local Notation sstep := (@HarrSpec.sstep K keq).
Local Notation srun := (@HarrSpec.srun K keq).
Local Notation aused := (@HarrSpec.aused K).
Hypothesis keq_spec : forall a b, keq a b = true <-> a = b.
(* ================= abstract layout and representation invariant ================= *)
Record ent := mkent { ek : K; ev : list byte; ei : list nat }.


Definition nxt_of (l:list nat) : Z := match l with [] => -1 | j :: _ => Z.of_nat j end.

Fixpoint ext_ok (g:img) (prev:nat) (idxs:list nat) (cs:list (list byte)) : Prop :=
  match idxs, cs with
  | [], [] => True
  | i :: r, c :: cs' =>
      let s := getS g i in
      cnt s = -2 /\ hsh s = prev /\ dsz s = length c /\ dat s = c /\ c <> [] /\ lnk s = nxt_of r /\ ext_ok g i r cs'
  | _, _ => False
  end.

Definition allidx (lay:list ent) : list nat := concat (map ei lay).
Definition count_home (lay:list ent) (h:nat) : nat := length (filter (fun e => Nat.eqb (home (ek e)) h) lay).

Definition ent_ok (g:img) (lay:list ent) (e:ent) : Prop :=
  match ei e, chunks (ev e) with
  | i0 :: r, c0 :: cs =>
      let s := getS g i0 in
      key s = Some (ek e) /\ hsh s = home (ek e) /\ dsz s = length c0 /\ dat s = c0 /\ lnk s = nxt_of r /\
      cnt s = (if Nat.eqb i0 (home (ek e)) then Z.of_nat (count_home lay (home (ek e))) else -1) /\
      ext_ok g i0 r cs
  | _, _ => False
  end.

Record Rep (lay:list ent) (g:img) : Prop := {
  rNoDup : NoDup (allidx lay);
  rRange : forall i, In i (allidx lay) -> (i < maxs g)%nat;
  rFree  : forall i, (i < maxs g)%nat -> ~ In i (allidx lay) -> cnt (getS g i) = 0;
  rEnt   : forall e, In e lay -> ent_ok g lay e /\ ev e <> [] /\ (home (ek e) < maxs g)%nat;
  rLead  : forall e, In e lay -> exists e', In e' lay /\ home (ek e') = home (ek e) /\ hd O (ei e') = home (ek e);
  rKeys  : NoDup (map ek lay);
  rUsed  : used g = Z.of_nat (length (allidx lay));
  rNum   : num g = Z.of_nat (length lay)
}.

(* ---------- basic frame lemmas ---------- *)
Lemma getS_setS_same g i s : getS (setS g i s) i = s.
Proof. unfold getS, setS; cbn. now rewrite Nat.eqb_refl. Qed.
Lemma getS_setS_other g i j s : j <> i -> getS (setS g i s) j = getS g j.
Proof. intros H. unfold getS, setS; cbn. destruct (Nat.eqb j i) eqn:E; [apply Nat.eqb_eq in E; congruence|reflexivity]. Qed.
Lemma getS_bump g a b i : getS (bump g a b) i = getS g i. Proof. reflexivity. Qed.
Lemma maxs_setS g i s : maxs (setS g i s) = maxs g. Proof. reflexivity. Qed.
Lemma maxs_bump g a b : maxs (bump g a b) = maxs g. Proof. reflexivity. Qed.

Lemma in_ring m st i : (st < m)%nat -> (In i (ring m st) <-> (i < m)%nat).
Proof. intros H. unfold ring. rewrite in_app_iff, !in_seq. lia. Qed.

Lemma find_avail_some g st i : find_avail g st = Some i -> (i < maxs g)%nat /\ cnt (getS g i) = 0.
Proof. unfold find_avail. intros H. apply find_some in H as [Hin Hc]. apply Z.eqb_eq in Hc. split; auto.
  destruct (Nat.leb (maxs g) st) eqn:E.
  - unfold ring in Hin. rewrite in_app_iff, !in_seq in Hin. lia.
  - apply Nat.leb_gt in E. apply in_ring in Hin; auto. Qed.
Lemma find_avail_none g st : (0 < maxs g)%nat -> find_avail g st = None -> forall i, (i < maxs g)%nat -> cnt (getS g i) <> 0.
Proof. unfold find_avail. intros Hm H i Hi Hc.
  assert (Hin: In i (ring (maxs g) (if Nat.leb (maxs g) st then O else st))).
  { destruct (Nat.leb (maxs g) st) eqn:E; [apply in_ring; lia | apply Nat.leb_gt in E; apply in_ring; lia]. }
  pose proof (find_none _ _ H _ Hin) as F. cbn in F. rewrite Hc in F. discriminate. Qed.

(* ---------- pigeonhole: a table that is not full has a free slot ---------- *)
Lemma exists_not_in (l:list nat) (m:nat) : NoDup l -> (forall i, In i l -> (i < m)%nat) -> (length l < m)%nat ->
  exists i, (i < m)%nat /\ ~ In i l.
Proof. intros Hnd Hr Hlen.
  destruct (find (fun i => if in_dec Nat.eq_dec i l then false else true) (seq 0 m)) as [i|] eqn:E.
  - apply find_some in E as [Hin Hc]. apply in_seq in Hin. exists i. split; [lia|]. destruct (in_dec Nat.eq_dec i l); [discriminate|auto].
  - exfalso. assert (incl (seq 0 m) l).
    { intros i Hi. pose proof (find_none _ _ E _ Hi) as F. cbn in F. destruct (in_dec Nat.eq_dec i l); [auto|discriminate]. }
    pose proof (NoDup_incl_length (seq_NoDup m 0) H). rewrite seq_length in H0. lia. Qed.

Lemma rep_has_free lay g st : Rep lay g -> used g < Z.of_nat (maxs g) -> exists i, find_avail g st = Some i.
Proof. intros R Hu. destruct (find_avail g st) as [i|] eqn:E; [eauto|exfalso].
  rewrite (rUsed _ _ R) in Hu. 
  destruct (exists_not_in (allidx lay) (maxs g) (rNoDup _ _ R) (rRange _ _ R) ltac:(lia)) as (i & Hi & Hn).
  eapply (find_avail_none g st); eauto; [lia|]. apply (rFree _ _ R); auto. Qed.

(* ---------- classification of the slots of an entry ---------- *)
Lemma ext_ok_cnt g prev r cs i : ext_ok g prev r cs -> In i r -> cnt (getS g i) = -2.
Proof. revert prev cs. induction r as [|j r IH]; intros prev cs H Hin; [contradiction|].
  destruct cs as [|c cs]; [contradiction|]. cbn in H. destruct H as (Hc & _ & _ & _ & _ & _ & Hr).
  destruct Hin as [<-|Hin]; [exact Hc | eapply IH; eauto]. Qed.

Lemma in_allidx lay i : In i (allidx lay) <-> exists e, In e lay /\ In i (ei e).
Proof. unfold allidx. rewrite in_concat. split.
  - intros (l & Hl & Hi). apply in_map_iff in Hl as (e & <- & He). eauto.
  - intros (e & He & Hi). exists (ei e). split; auto. apply in_map; auto. Qed.

Lemma ent_head lay g e : Rep lay g -> In e lay -> exists i0 r, ei e = i0 :: r /\
  key (getS g i0) = Some (ek e) /\ hsh (getS g i0) = home (ek e) /\ is_keyslot (getS g i0) = true /\
  (forall j, In j r -> cnt (getS g j) = -2).
Proof. intros R He. destruct (rEnt _ _ R e He) as (Hok & _ & _). unfold ent_ok in Hok.
  destruct (ei e) as [|i0 r] eqn:Ei; [contradiction|]. cbn [chunks] in Hok.
  destruct Hok as (Hk & Hh & _ & _ & _ & Hc & Hext). exists i0, r. repeat split; auto.
  - unfold is_keyslot. rewrite Hc. destruct (Nat.eqb i0 (home (ek e))).
    + assert (0 < count_home lay (home (ek e)))%nat.
      { unfold count_home. assert (In e (filter (fun e0 => Nat.eqb (home (ek e0)) (home (ek e))) lay)) by (apply filter_In; split; auto; apply Nat.eqb_refl).
        destruct (filter _ lay); [contradiction|cbn; lia]. }
      apply orb_true_iff; left. apply Z.ltb_lt. lia.
    + reflexivity.
  - intros j Hj. eapply ext_ok_cnt; eauto. Qed.

(* a key slot is the head of an entry *)
Lemma keyslot_is_head lay g i : Rep lay g -> (i < maxs g)%nat -> is_keyslot (getS g i) = true ->
  exists e, In e lay /\ hd O (ei e) = i /\ hsh (getS g i) = home (ek e) /\ key (getS g i) = Some (ek e).
Proof. intros R Hi Hk. destruct (in_dec Nat.eq_dec i (allidx lay)) as [Hin|Hn].
  - apply in_allidx in Hin as (e & He & Hie). destruct (ent_head _ _ _ R He) as (i0 & r & Ei & Hkey & Hh & _ & Hr).
    rewrite Ei in Hie. destruct Hie as [<-|Hie].
    + exists e. rewrite Ei. auto.
    + unfold is_keyslot in Hk. rewrite (Hr _ Hie) in Hk. discriminate.
  - unfold is_keyslot in Hk. rewrite (rFree _ _ R i Hi Hn) in Hk. discriminate. Qed.

(* ---------- get_idx finds exactly the head of the entry with that key ---------- *)
Definition matchp (g:img) (h:nat) (i:nat) : bool := Nat.eqb (hsh (getS g i)) h && is_keyslot (getS g i).
Definition keyis (g:img) (k:K) (i:nat) : bool := match key (getS g i) with Some k' => keq k k' | None => false end.

Lemma find_none_intro {A} (f:A->bool) l : (forall x, In x l -> f x = false) -> find f l = None.
Proof. induction l as [|a r IH]; intros H; cbn; [reflexivity|]. rewrite (H a (or_introl eq_refl)). apply IH. intros; apply H; right; auto. Qed.
Lemma filter_nil_all {A} (f:A->bool) l : filter f l = [] -> forall x, In x l -> f x = false.
Proof. induction l as [|a r IH]; intros H x Hx; [contradiction|]. cbn in H. destruct (f a) eqn:E; [discriminate|].
  destruct Hx as [<-|Hx]; auto. Qed.

Lemma scan_spec g k h target : forall idxs count,
  count + Z.of_nat (length (filter (matchp g h) idxs)) <= target ->
  get_idx_scan g k h target count idxs = find (fun i => matchp g h i && keyis g k i) idxs.
Proof. induction idxs as [|i r IH]; intros count Hle; cbn [get_idx_scan find filter].
  - destruct (Z.leb target count); reflexivity.
  - cbn [filter] in Hle. fold (matchp g h i). unfold keyis at 1.
    destruct (matchp g h i) eqn:Em; cbn [length] in Hle; cbn [andb].
    + assert (count < target) by lia. destruct (Z.leb target count) eqn:El; [apply Z.leb_le in El; lia|].
      destruct (key (getS g i)) as [k'|]; [destruct (keq k k'); [reflexivity|]|]; apply IH; lia.
    + destruct (Z.leb target count) eqn:El.
      * apply Z.leb_le in El. assert (Hnil: filter (matchp g h) r = []) by (destruct (filter (matchp g h) r); [auto|cbn in Hle; lia]).
        symmetry. apply find_none_intro. intros x Hx. rewrite (filter_nil_all _ _ Hnil x Hx). reflexivity.
      * apply IH; lia.
Qed.

Lemma NoDup_app_intro {A} (l1 l2:list A) : NoDup l1 -> NoDup l2 -> (forall x, In x l1 -> ~ In x l2) -> NoDup (l1 ++ l2).
Proof. induction l1 as [|a r IH]; intros H1 H2 Hd; cbn; [auto|]. inversion H1; subst. constructor.
  - rewrite in_app_iff. intros [Hin|Hin]; [auto| exact (Hd a (or_introl eq_refl) Hin)].
  - apply IH; auto. intros x Hx. apply Hd. right; auto. Qed.
Lemma ring_NoDup m st : (st < m)%nat -> NoDup (ring m st).
Proof. intros H. unfold ring. apply NoDup_app_intro; try apply seq_NoDup. intros x H1 H2. apply in_seq in H1, H2. lia. Qed.

Lemma count_home_heads lay h :
  count_home lay h = length (map (fun e => hd O (ei e)) (filter (fun e => Nat.eqb (home (ek e)) h) lay)).
Proof. unfold count_home. now rewrite map_length. Qed.

Lemma match_count lay g h : Rep lay g -> (h < maxs g)%nat ->
  (length (filter (matchp g h) (ring (maxs g) h)) <= count_home lay h)%nat.
Proof. intros R Hh. rewrite count_home_heads. apply NoDup_incl_length.
  - apply NoDup_filter, ring_NoDup; auto.
  - intros i Hi. apply filter_In in Hi as [Hin Hm]. apply in_ring in Hin; auto.
    unfold matchp in Hm. apply andb_prop in Hm as [Hhs Hks]. apply Nat.eqb_eq in Hhs.
    destruct (keyslot_is_head _ _ _ R Hin Hks) as (e & He & Hhd & Hh2 & _).
    apply in_map_iff. exists e. split; auto. apply filter_In. split; auto. apply Nat.eqb_eq. congruence. Qed.

(* the leader slot of home h carries the number of entries with that home *)
Lemma leader_cnt lay g e : Rep lay g -> In e lay -> cnt (getS g (home (ek e))) = Z.of_nat (count_home lay (home (ek e))).
Proof. intros R He. destruct (rLead _ _ R e He) as (e' & He' & Hh & Hhd).
  destruct (rEnt _ _ R e' He') as (Hok & _ & _). unfold ent_ok in Hok.
  destruct (ei e') as [|i0 r] eqn:Ei; [contradiction|]. cbn [chunks] in Hok. cbn in Hhd. subst i0.
  destruct Hok as (_ & _ & _ & _ & _ & Hc & _). rewrite Hh in Hc. rewrite Nat.eqb_refl in Hc. exact Hc. Qed.

Lemma count_home_pos lay e : In e lay -> (0 < count_home lay (home (ek e)))%nat.
Proof. intros He. unfold count_home.
  assert (In e (filter (fun e0 => Nat.eqb (home (ek e0)) (home (ek e))) lay)) by (apply filter_In; split; auto; apply Nat.eqb_refl).
  destruct (filter _ lay); [contradiction|cbn; lia]. Qed.

(* present key: get_idx returns the head slot of its entry *)
Lemma get_idx_present lay g e : Rep lay g -> In e lay -> get_idx g (ek e) (home (ek e)) = Some (hd O (ei e)).
Proof. intros R He. unfold get_idx. destruct (rEnt _ _ R e He) as (Hok & _ & Hhm).
  rewrite (leader_cnt _ _ _ R He). pose proof (count_home_pos _ _ He) as Hpos.
  destruct (Z.ltb 0 (Z.of_nat (count_home lay (home (ek e))))) eqn:El; [|apply Z.ltb_ge in El; lia].
  rewrite scan_spec by (pose proof (match_count _ _ _ R Hhm); lia).
  destruct (ent_head _ _ _ R He) as (i0 & r & Ei & Hkey & Hh & Hks & _). rewrite Ei. cbn [hd].
  assert (Hi0: (i0 < maxs g)%nat) by (apply (rRange _ _ R), in_allidx; exists e; split; auto; rewrite Ei; left; auto).
  destruct (find (fun i => matchp g (home (ek e)) i && keyis g (ek e) i) (ring (maxs g) (home (ek e)))) as [j|] eqn:Ef.
  - apply find_some in Ef as [Hin Hp]. apply in_ring in Hin; auto. apply andb_prop in Hp as [Hm Hk].
    unfold matchp in Hm. apply andb_prop in Hm as [_ Hks2].
    destruct (keyslot_is_head _ _ _ R Hin Hks2) as (e2 & He2 & Hhd2 & _ & Hkey2).
    unfold keyis in Hk. rewrite Hkey2 in Hk. apply keq_spec in Hk.
    (* same key => same entry, by NoDup keys *)
    assert (e2 = e).
    { pose proof (rKeys _ _ R) as Hnd. clear -Hnd He He2 Hk. induction lay as [|a l IH]; [contradiction|].
      cbn in Hnd. inversion Hnd; subst. destruct He as [->|He], He2 as [->|He2]; auto.
      - exfalso. apply H1. rewrite Hk. apply in_map; auto.
      - exfalso. apply H1. rewrite <- Hk. apply in_map; auto. }
    subst e2. rewrite Ei in Hhd2. cbn in Hhd2. congruence.
  - exfalso. assert (In i0 (ring (maxs g) (home (ek e)))) by (apply in_ring; auto).
    pose proof (find_none _ _ Ef _ H) as F. cbn in F. unfold matchp, keyis in F. rewrite Hh, Nat.eqb_refl, Hks, Hkey in F. cbn in F.
    assert (keq (ek e) (ek e) = true) by (apply keq_spec; auto). congruence. Qed.

Lemma get_idx_absent lay g k : Rep lay g -> (home k < maxs g)%nat -> (forall e, In e lay -> ek e <> k) -> get_idx g k (home k) = None.
Proof. intros R Hh Hab. unfold get_idx. destruct (Z.ltb 0 (cnt (getS g (home k)))) eqn:El; [|reflexivity].
  apply Z.ltb_lt in El.
  assert (Hks: is_keyslot (getS g (home k)) = true) by (unfold is_keyslot; apply orb_true_iff; left; apply Z.ltb_lt; auto).
  destruct (keyslot_is_head _ _ _ R Hh Hks) as (e0 & He0 & Hhd & _ & _).
  destruct (rEnt _ _ R e0 He0) as (Hok & _ & _). unfold ent_ok in Hok.
  destruct (ei e0) as [|i0 r] eqn:Ei; [contradiction|]. cbn [chunks] in Hok. cbn in Hhd. subst i0.
  destruct Hok as (_ & _ & _ & _ & _ & Hc & _).
  destruct (Nat.eqb (home k) (home (ek e0))) eqn:Eh; [|lia]. apply Nat.eqb_eq in Eh.
  rewrite scan_spec by (rewrite Hc; pose proof (match_count _ _ _ R Hh); rewrite Eh in *; lia).
  apply find_none_intro. intros j Hj. apply in_ring in Hj; auto.
  destruct (matchp g (home k) j) eqn:Em; [|reflexivity]. cbn.
  unfold matchp in Em. apply andb_prop in Em as [_ Hks2].
  destruct (keyslot_is_head _ _ _ R Hj Hks2) as (e2 & He2 & _ & _ & Hkey2).
  unfold keyis. rewrite Hkey2. destruct (keq k (ek e2)) eqn:Ek; [|reflexivity].
  apply keq_spec in Ek. exfalso. eapply Hab; eauto. Qed.

(* ---------- values ---------- *)
Lemma chunks_ext_concat fuel : forall w, (length w <= fuel)%nat -> concat (chunks_ext fuel w) = w.
Proof. induction fuel as [|f IH]; intros w Hl.
  - destruct w; [reflexivity|cbn in Hl; lia].
  - destruct w as [|b w']; [reflexivity|]. cbn [chunks_ext concat]. rewrite IH.
    + apply firstn_skipn.
    + rewrite skipn_length. cbn [length] in *. unfold EXTSZ, Consts.HARR_EXTSZ. lia. Qed.
Lemma chunks_concat v : concat (chunks v) = v.
Proof. unfold chunks. cbn [concat]. rewrite chunks_ext_concat; [apply firstn_skipn|]. rewrite skipn_length. lia. Qed.

Lemma get_data_ext g : forall r prev cs fuel, ext_ok g prev r cs -> (length r <= fuel)%nat ->
  match r with [] => True | i :: _ => get_data fuel g i = concat cs end.
Proof. induction r as [|i r IH]; intros prev cs fuel H Hf; [exact I|].
  destruct cs as [|c cs]; [contradiction|]. cbn in H. destruct H as (_ & _ & Hd & Hdat & _ & Hl & Hr).
  destruct fuel as [|f]; [cbn in Hf; lia|]. cbn [get_data concat]. rewrite Hd, Hdat, firstn_all. f_equal.
  rewrite Hl. destruct r as [|j r'].
  - cbn. destruct cs; [reflexivity|contradiction].
  - cbn [nxt_of]. assert (Z.of_nat j =? -1 = false) by (apply Z.eqb_neq; lia). rewrite H. rewrite Nat2Z.id.
    specialize (IH i cs f Hr ltac:(cbn in *; lia)). exact IH. Qed.

Lemma get_data_ent lay g e fuel : Rep lay g -> In e lay -> (length (ei e) <= fuel)%nat ->
  get_data fuel g (hd O (ei e)) = ev e.
Proof. intros R He Hf. destruct (rEnt _ _ R e He) as (Hok & _ & _). unfold ent_ok in Hok.
  destruct (ei e) as [|i0 r] eqn:Ei; [contradiction|]. 
  rewrite <- (chunks_concat (ev e)). destruct (chunks (ev e)) as [|c0 cs]; [contradiction|].
  destruct Hok as (_ & _ & Hd & Hdat & Hl & _ & Hext). cbn [hd].
  destruct fuel as [|f]; [cbn in Hf; lia|]. cbn [get_data concat]. rewrite Hd, Hdat, firstn_all. f_equal.
  rewrite Hl. pose proof (get_data_ext g r i0 cs f Hext ltac:(cbn in Hf; lia)) as G. destruct r as [|j r'].
  - cbn. destruct cs; [reflexivity|contradiction].
  - cbn [nxt_of]. assert (Z.of_nat j =? -1 = false) by (apply Z.eqb_neq; lia). rewrite H, Nat2Z.id. exact G. Qed.

Lemma NoDup_app_l {A} (l1 l2:list A) : NoDup (l1 ++ l2) -> NoDup l1.
Proof. induction l1 as [|a r IH]; intros H; [constructor|]. cbn in H. inversion H; subst. constructor; [intros Hin; apply H2, in_or_app; auto | auto]. Qed.
Lemma NoDup_app_r {A} (l1 l2:list A) : NoDup (l1 ++ l2) -> NoDup l2.
Proof. induction l1 as [|a r IH]; intros H; [exact H|]. cbn in H. inversion H; subst. auto. Qed.

Lemma ent_len_le lay g e : Rep lay g -> In e lay -> (length (ei e) <= maxs g)%nat.
Proof. intros R He.
  assert (Hnd: NoDup (ei e)).
  { pose proof (rNoDup _ _ R) as N. unfold allidx in N. clear -N He. induction lay as [|a l IH]; [contradiction|]. cbn in N.
    destruct He as [->|He]; [eapply NoDup_app_l; eauto | apply IH; auto; eapply NoDup_app_r; eauto]. }
  assert (Hin: incl (ei e) (seq 0 (maxs g))).
  { intros i Hi. apply in_seq. split; [lia|]. cbn. apply (rRange _ _ R), in_allidx. eauto. }
  pose proof (NoDup_incl_length Hnd Hin). now rewrite seq_length in H. Qed.

(* lookups agree with the abstract map *)
Theorem get_spec lay g k : Rep lay g -> (home k < maxs g)%nat ->
  get g k = match find (fun e => keq k (ek e)) lay with Some e => Some (ev e) | None => None end.
Proof. intros R Hh. unfold get. destruct (find (fun e => keq k (ek e)) lay) as [e|] eqn:Ef.
  - apply find_some in Ef as [He Hk]. apply keq_spec in Hk. subst k.
    rewrite (get_idx_present _ _ _ R He). f_equal. apply (get_data_ent lay); auto.
    pose proof (ent_len_le _ _ _ R He). lia.
  - rewrite (get_idx_absent lay); auto. intros e He Hk. pose proof (find_none _ _ Ef _ He) as F. cbn in F.
    assert (keq k (ek e) = true) by (apply keq_spec; auto). congruence. Qed.

(* ================= mutation: frame lemmas ================= *)
Lemma ext_ok_frame g g' : forall r prev cs, (forall i, In i r -> getS g' i = getS g i) -> ext_ok g prev r cs -> ext_ok g' prev r cs.
Proof. induction r as [|i r IH]; intros prev cs Hf H; destruct cs as [|c cs]; cbn in *; auto.
  rewrite (Hf i (or_introl eq_refl)). destruct H as (A & B & C & D & E & F & G).
  split; [exact A|]. split; [exact B|]. split; [exact C|]. split; [exact D|]. split; [exact E|]. split; [exact F|].
  apply IH; auto. Qed.

Lemma ent_ok_frame g g' lay lay' e :
  (forall i, In i (ei e) -> getS g' i = getS g i) ->
  (hd O (ei e) = home (ek e) -> count_home lay' (home (ek e)) = count_home lay (home (ek e))) ->
  ent_ok g lay e -> ent_ok g' lay' e.
Proof. intros Hf Hc H. unfold ent_ok in *. destruct (ei e) as [|i0 r] eqn:Ei; [contradiction|].
  destruct (chunks (ev e)) as [|c0 cs]; [contradiction|]. rewrite (Hf i0 (or_introl eq_refl)).
  destruct H as (A & B & C & D & E & F & G).
  split; [exact A|]. split; [exact B|]. split; [exact C|]. split; [exact D|]. split; [exact E|]. split.
  - rewrite F. destruct (Nat.eqb i0 (home (ek e))) eqn:E0; [|reflexivity]. apply Nat.eqb_eq in E0. rewrite Hc; auto.
  - apply (ext_ok_frame g g' r i0 cs); [intros; apply Hf; right; auto | exact G]. Qed.

(* successor links along an entry's slot list *)
Fixpoint links (g:img) (l:list nat) : Prop :=
  match l with
  | [] => True
  | i :: r => lnk (getS g i) = nxt_of r /\ links g r
  end.
Lemma ext_links g : forall r prev cs, ext_ok g prev r cs -> links g r.
Proof. induction r as [|i r IH]; intros prev cs H; [exact I|]. destruct cs; [contradiction|]. cbn in H.
  destruct H as (_ & _ & _ & _ & _ & L & R). split; eauto. Qed.
Lemma ent_links lay g e : ent_ok g lay e -> links g (ei e).
Proof. unfold ent_ok. destruct (ei e) as [|i0 r]; [contradiction|]. destruct (chunks (ev e)); [contradiction|].
  intros (_ & _ & _ & _ & L & _ & X). split; auto. eapply ext_links; eauto. Qed.
Lemma links_frame g g' l : (forall i, In i l -> getS g' i = getS g i) -> links g l -> links g' l.
Proof. induction l as [|i r IH]; intros Hf H; [exact I|]. cbn in *. rewrite (Hf i (or_introl eq_refl)). destruct H. split; auto. Qed.

Definition inl (j:nat) (l:list nat) : bool := if in_dec Nat.eq_dec j l then true else false.

(* remove_chain clears exactly the slots of the chain *)
Lemma remove_chain_spec : forall l g fuel i r, l = i :: r -> NoDup l -> links g l -> (length l <= fuel)%nat ->
  let g' := remove_chain fuel g i in
  maxs g' = maxs g /\ num g' = num g /\ used g' = used g - Z.of_nat (length l) /\
  forall j, getS g' j = if inl j l then with_cnt (getS g j) 0 else getS g j.
Proof. induction l as [|a l IH]; intros g fuel i r El Hnd Hl Hf; [discriminate|]. inversion El; subst a l; clear El.
  destruct fuel as [|f]; [cbn in Hf; lia|]. cbn [remove_chain]. destruct Hl as [Hli Hlr]. inversion Hnd; subst.
  rewrite Hli. destruct r as [|j r'].
  - cbn [nxt_of]. rewrite Z.eqb_refl.
    split; [reflexivity|]. split; [cbn [num bump setS]; lia|]. split; [cbn [used bump setS length]; lia|].
    intros j. unfold inl. destruct (in_dec Nat.eq_dec j [i]) as [[<-|[]]|Hn].
    + apply getS_setS_same.
    + rewrite getS_bump, getS_setS_other; auto. intros ->; apply Hn; left; auto.
  - cbn [nxt_of]. assert (Z.of_nat j =? -1 = false) by (apply Z.eqb_neq; lia). rewrite H, Nat2Z.id.
    set (g2 := bump (setS g i (with_cnt (getS g i) 0)) (-1) 0).
    assert (Hl2: links g2 (j :: r')).
    { eapply links_frame; [|exact Hlr]. intros x Hx. unfold g2. rewrite getS_bump, getS_setS_other; auto. intros ->; auto. }
    destruct (IH g2 f j r' eq_refl H2 Hl2 ltac:(cbn in *; lia)) as (A & B & C & D).
    repeat split.
    + rewrite A. reflexivity.
    + rewrite B. unfold g2. cbn [num bump setS]. lia.
    + rewrite C. unfold g2. cbn [used bump setS]. cbn [length]. lia.
    + intros x. rewrite D. unfold inl. destruct (in_dec Nat.eq_dec x (j :: r')) as [Hin|Hn]; destruct (in_dec Nat.eq_dec x (i :: j :: r')) as [Hin2|Hn2].
      * unfold g2. rewrite getS_bump, getS_setS_other; auto. intros ->; auto.
      * exfalso; apply Hn2; right; auto.
      * destruct Hin2 as [<-|Hin2]; [|contradiction]. unfold g2. rewrite getS_bump. apply getS_setS_same.
      * unfold g2. rewrite getS_bump, getS_setS_other; auto. intros ->; apply Hn2; left; auto. Qed.

(* ================= removing one entry from the layout ================= *)
Lemma allidx_app l1 l2 : allidx (l1 ++ l2) = allidx l1 ++ allidx l2.
Proof. unfold allidx. now rewrite map_app, concat_app. Qed.
Lemma allidx_cons e l : allidx (e :: l) = ei e ++ allidx l. Proof. reflexivity. Qed.
Lemma allidx_mid m1 (e:ent) m2 : allidx (m1 ++ e :: m2) = allidx m1 ++ ei e ++ allidx m2.
Proof. now rewrite allidx_app, allidx_cons. Qed.
Lemma count_home_app l1 l2 h : count_home (l1 ++ l2) h = (count_home l1 h + count_home l2 h)%nat.
Proof. unfold count_home. now rewrite filter_app, app_length. Qed.
Lemma count_home_cons e l h : count_home (e :: l) h = ((if Nat.eqb (home (ek e)) h then 1 else 0) + count_home l h)%nat.
Proof. unfold count_home. cbn. destruct (Nat.eqb (home (ek e)) h); reflexivity. Qed.

Lemma NoDup_app_disj {A} (l1 l2:list A) : NoDup (l1 ++ l2) -> forall x, In x l1 -> ~ In x l2.
Proof. induction l1 as [|a r IH]; intros H x Hx; [contradiction|]. cbn in H. inversion H; subst.
  destruct Hx as [<-|Hx]; [intros Hin; apply H2, in_or_app; auto | apply IH; auto]. Qed.

Lemma split_facts l1 e l2 : NoDup (allidx (l1 ++ e :: l2)) ->
  NoDup (allidx (l1 ++ l2)) /\ NoDup (ei e) /\ (forall i, In i (ei e) -> ~ In i (allidx (l1 ++ l2))) /\
  (forall i, In i (allidx (l1 ++ e :: l2)) <-> In i (allidx (l1 ++ l2)) \/ In i (ei e)) /\
  length (allidx (l1 ++ e :: l2)) = (length (allidx (l1 ++ l2)) + length (ei e))%nat.
Proof. rewrite !allidx_app, allidx_cons. intros H.
  pose proof (NoDup_app_l _ _ H) as N1. pose proof (NoDup_app_r _ _ H) as N23.
  pose proof (NoDup_app_l _ _ N23) as N2. pose proof (NoDup_app_r _ _ N23) as N3.
  pose proof (NoDup_app_disj _ _ H) as D1. pose proof (NoDup_app_disj _ _ N23) as D2.
  split; [|split; [exact N2|split; [|split]]].
  - apply NoDup_app_intro; auto. intros x Hx Hx3. apply (D1 x Hx), in_or_app; auto.
  - intros i Hi Hin. apply in_app_iff in Hin as [Hin|Hin]; [apply (D1 i Hin), in_or_app; auto | exact (D2 i Hi Hin)].
  - intros i. rewrite !in_app_iff. tauto.
  - rewrite !app_length. lia. Qed.

Lemma keys_split l1 e l2 : NoDup (map ek (l1 ++ e :: l2)) -> NoDup (map ek (l1 ++ l2)) /\ ~ In (ek e) (map ek (l1 ++ l2)).
Proof. rewrite !map_app. cbn [map]. intros H. split; [eapply NoDup_remove_1; eauto | eapply NoDup_remove_2; eauto]. Qed.

Lemma in_split_lay (l1:list ent) e l2 e2 : In e2 (l1 ++ l2) -> In e2 (l1 ++ e :: l2).
Proof. rewrite !in_app_iff. cbn. tauto. Qed.

(* freeing all slots of one entry *)
Lemma free_entry lay g e : Rep lay g -> In e lay ->
  let g' := remove_data g (hd O (ei e)) in
  maxs g' = maxs g /\ num g' = num g - 1 /\ used g' = used g - Z.of_nat (length (ei e)) /\
  forall j, getS g' j = if inl j (ei e) then with_cnt (getS g j) 0 else getS g j.
Proof. intros R He. destruct (rEnt _ _ R e He) as (Hok & _ & _). pose proof (ent_links _ _ _ Hok) as Hl.
  destruct (ei e) as [|i0 r] eqn:Ei; [unfold ent_ok in Hok; rewrite Ei in Hok; contradiction|]. cbn [hd].
  assert (Hnd: NoDup (i0 :: r)).
  { apply in_split in He as (l1 & l2 & ->). destruct (split_facts _ _ _ (rNoDup _ _ R)) as (_ & N & _). now rewrite Ei in N. }
  pose proof (ent_len_le _ _ _ R He) as Hlen. rewrite Ei in Hlen.
  destruct (remove_chain_spec (i0 :: r) g (S (maxs g)) i0 r eq_refl Hnd Hl ltac:(lia)) as (A & B & C & D).
  unfold remove_data. repeat split.
  - rewrite maxs_bump. exact A.
  - cbn [num bump]. rewrite B. lia.
  - cbn [used bump]. rewrite C. lia.
  - intros j. rewrite getS_bump. apply D. Qed.

Lemma ent_ok_frame2 g g' lay lay' e :
  (forall i, In i (tl (ei e)) -> getS g' i = getS g i) ->
  getS g' (hd O (ei e)) = with_cnt (getS g (hd O (ei e)))
     (if Nat.eqb (hd O (ei e)) (home (ek e)) then Z.of_nat (count_home lay' (home (ek e))) else -1) ->
  ent_ok g lay e -> ent_ok g' lay' e.
Proof. intros Hf Hh H. unfold ent_ok in *. destruct (ei e) as [|i0 r] eqn:Ei; [contradiction|].
  destruct (chunks (ev e)) as [|c0 cs]; [contradiction|]. cbn [hd tl] in *. rewrite Hh.
  destruct H as (A & B & C & D & E & F & G).
  split; [exact A|]. split; [exact B|]. split; [exact C|]. split; [exact D|]. split; [exact E|]. split; [reflexivity|].
  apply (ext_ok_frame g g' r i0 cs); [exact Hf | exact G]. Qed.

Lemma with_cnt_id s : with_cnt s (cnt s) = s. Proof. destruct s; reflexivity. Qed.

Lemma count_split l1 e l2 h :
  count_home (l1 ++ e :: l2) h = (count_home (l1 ++ l2) h + (if Nat.eqb (home (ek e)) h then 1 else 0))%nat.
Proof. rewrite !count_home_app, count_home_cons. lia. Qed.

(* the head slot of every entry, and where leaders live *)
Lemma head_in e : ei e <> [] -> In (hd O (ei e)) (ei e).
Proof. destruct (ei e); [congruence|left; reflexivity]. Qed.
Lemma ent_nonempty lay g e : Rep lay g -> In e lay -> ei e <> [].
Proof. intros R He. destruct (ent_head _ _ _ R He) as (i0 & r & Ei & _). congruence. Qed.

(* generic removal of an entry that is not a leader with followers: covers "count == 1" and "collision key" *)
Lemma rep_remove_simple l1 e l2 g g' :
  Rep (l1 ++ e :: l2) g ->
  maxs g' = maxs g -> num g' = num g - 1 -> used g' = used g - Z.of_nat (length (ei e)) ->
  (forall j, In j (ei e) -> cnt (getS g' j) = 0) ->
  (forall j, ~ In j (ei e) -> j <> home (ek e) -> getS g' j = getS g j) ->
  (~ In (home (ek e)) (ei e) ->
     getS g' (home (ek e)) = with_cnt (getS g (home (ek e))) (Z.of_nat (count_home (l1 ++ l2) (home (ek e))))) ->
  (hd O (ei e) = home (ek e) -> count_home (l1 ++ l2) (home (ek e)) = O) ->
  (hd O (ei e) <> home (ek e) -> ~ In (home (ek e)) (ei e)) ->
  Rep (l1 ++ l2) g'.
Proof.
  intros R Hm Hn Hu Hz Hframe Hhome Hlead Hcoll.
  assert (He: In e (l1 ++ e :: l2)) by (apply in_or_app; right; left; auto).
  destruct (split_facts _ _ _ (rNoDup _ _ R)) as (N' & Ne & Dis & Iff & Len).
  destruct (keys_split _ _ _ (rKeys _ _ R)) as (K' & Kn).
  constructor.
  - exact N'.
  - intros i Hi. rewrite Hm. apply (rRange _ _ R). apply Iff; auto.
  - intros i Hi Hn'. rewrite Hm in Hi. destruct (in_dec Nat.eq_dec i (ei e)) as [Hie|Hne]; [apply Hz; auto|].
    destruct (Nat.eq_dec i (home (ek e))) as [->|Hnh].
    + (* the home slot, not part of e, not in the remaining layout: was free *)
      rewrite Hhome by auto. cbn. 
      assert (cnt (getS g (home (ek e))) = 0) by (apply (rFree _ _ R); auto; intros Hin; apply Iff in Hin as [?|?]; auto).
      (* but a leader for e's home must exist at that slot: contradiction unless ... *)
      exfalso. destruct (rLead _ _ R e He) as (e' & He' & Hh' & Hhd').
      assert (In (home (ek e)) (allidx (l1 ++ e :: l2))).
      { apply in_allidx. exists e'. split; auto. rewrite <- Hhd'. apply head_in. eapply ent_nonempty; eauto. }
      apply Iff in H0 as [?|?]; auto.
    + rewrite Hframe; auto. apply (rFree _ _ R); auto. intros Hin. apply Iff in Hin as [?|?]; auto.
  - intros e2 He2. pose proof (in_split_lay l1 e l2 e2 He2) as He2'.
    destruct (rEnt _ _ R e2 He2') as (Hok & Hv & Hh). split; [|split; auto; rewrite Hm; auto].
    assert (Hdisj: forall i, In i (ei e2) -> ~ In i (ei e)).
    { intros i Hi Hie. apply (Dis i Hie). apply in_allidx. eauto. }
    assert (Hne2: ei e2 <> []) by (eapply ent_nonempty; eauto).
    destruct (Nat.eq_dec (hd O (ei e2)) (home (ek e))) as [Hhd|Hhd].
    + (* e2's head sits on e's home slot *)
      assert (Hnin: ~ In (home (ek e)) (ei e)) by (rewrite <- Hhd; apply Hdisj, head_in; auto).
      destruct (Nat.eq_dec (home (ek e2)) (home (ek e))) as [Hh2|Hh2].
      * (* e2 is the leader of e's home *)
        apply (ent_ok_frame2 g g' (l1 ++ e :: l2) (l1 ++ l2) e2); auto.
        -- intros i Hi. apply Hframe; [apply Hdisj; destruct (ei e2); [contradiction|right; auto]|].
           intros ->. pose proof (rNoDup _ _ R) as ND.
           (* home slot appears twice in e2's own list: impossible *)
           assert (NoDup (ei e2)).
           { apply in_split in He2' as (a & b & Eq). rewrite Eq in ND. destruct (split_facts _ _ _ ND) as (_ & X & _). exact X. }
           destruct (ei e2) as [|x r]; [contradiction|]. cbn in Hhd, Hi. subst x. inversion H; subst. contradiction.
        -- rewrite Hhd, Hh2, Nat.eqb_refl. rewrite Hhome by auto. reflexivity.
      * (* head on that slot but different home: then e2 is a collision key sitting on e's home slot; impossible, the leader of e's home lives there *)
        exfalso. destruct (rLead _ _ R e He) as (e' & He' & Hh' & Hhd').
        (* both e' and e2 have head = home(ek e): same slot in two entries unless equal *)
        pose proof (rNoDup _ _ R) as ND.
        assert (Hsame: ek e' = ek e2).
        { destruct (ent_head _ _ _ R He') as (a & ra & Ea & Ka & _). destruct (ent_head _ _ _ R He2') as (b & rb & Eb & Kb & _).
          rewrite Ea in Hhd'. rewrite Eb in Hhd. cbn in Hhd, Hhd'. subst a b. rewrite Ka in Kb. congruence. }
        rewrite <- Hsame in Hh2. congruence.
    + (* e2's head elsewhere *)
      apply (ent_ok_frame2 g g' (l1 ++ e :: l2) (l1 ++ l2) e2); auto.
      * intros i Hi. apply Hframe; [apply Hdisj; destruct (ei e2); [contradiction|right; auto]|].
        intros ->.
        (* an ext slot of e2 on e's home slot: impossible, the leader's head is there *)
        destruct (rLead _ _ R e He) as (e' & He' & Hh' & Hhd').
        destruct (ent_head _ _ _ R He2') as (b & rb & Eb & _ & _ & _ & Hext). rewrite Eb in Hi. cbn in Hi.
        destruct (ent_head _ _ _ R He') as (a & ra & Ea & _ & _ & Hks & _). rewrite Ea in Hhd'. cbn in Hhd'. subst a.
        unfold is_keyslot in Hks. rewrite (Hext _ Hi) in Hks. discriminate.
      * rewrite Hframe; auto; [|apply Hdisj, head_in; auto].
        destruct (rEnt _ _ R e2 He2') as (Hok2 & _). unfold ent_ok in Hok2.
        destruct (ei e2) as [|i0 r0] eqn:E2; [contradiction|]. destruct (chunks (ev e2)); [contradiction|]. cbn [hd] in *.
        destruct Hok2 as (_ & _ & _ & _ & _ & Hc & _).
        destruct (Nat.eqb i0 (home (ek e2))) eqn:E0.
        -- apply Nat.eqb_eq in E0. rewrite count_split in Hc.
           destruct (Nat.eqb (home (ek e)) (home (ek e2))) eqn:E1; [apply Nat.eqb_eq in E1; congruence|].
           rewrite Nat.add_0_r in Hc. rewrite <- Hc. symmetry. apply with_cnt_id.
        -- rewrite <- Hc. symmetry. apply with_cnt_id.
  - intros e2 He2. pose proof (in_split_lay l1 e l2 e2 He2) as He2'.
    destruct (rLead _ _ R e2 He2') as (e' & He' & Hh' & Hhd'). exists e'. split; [|split; auto].
    apply in_app_iff in He' as [Hin|[<-|Hin]]; [apply in_or_app; auto| |apply in_or_app; auto].
    (* the leader is e itself: then e is a leader, so by Hlead no other entry shares its home *)
    exfalso. rewrite <- Hh' in Hhd'. specialize (Hlead Hhd').
    assert (0 < count_home (l1 ++ l2) (home (ek e2)))%nat by (apply count_home_pos; auto). rewrite <- Hh' in H. lia.
  - exact K'.
  - rewrite Hu, (rUsed _ _ R), Len. lia.
  - rewrite Hn, (rNum _ _ R), !app_length. cbn [length]. lia.
Qed.

(* remove_data on any well-linked duplicate-free chain *)
Lemma free_chain g l : l <> [] -> NoDup l -> links g l -> (length l <= S (maxs g))%nat ->
  let g' := remove_data g (hd O l) in
  maxs g' = maxs g /\ num g' = num g - 1 /\ used g' = used g - Z.of_nat (length l) /\
  forall j, getS g' j = if inl j l then with_cnt (getS g j) 0 else getS g j.
Proof. intros Hne Hnd Hl Hlen. destruct l as [|i0 r]; [congruence|]. cbn [hd].
  destruct (remove_chain_spec (i0 :: r) g (S (maxs g)) i0 r eq_refl Hnd Hl Hlen) as (A & B & C & D).
  unfold remove_data. repeat split.
  - rewrite maxs_bump. exact A.
  - cbn [num bump]. rewrite B. lia.
  - cbn [used bump]. rewrite C. lia.
  - intros j. rewrite getS_bump. apply D. Qed.

Lemma inl_true j l : inl j l = true <-> In j l.
Proof. unfold inl. destruct (in_dec Nat.eq_dec j l); split; auto; discriminate. Qed.
Lemma inl_false j l : inl j l = false <-> ~ In j l.
Proof. unfold inl. destruct (in_dec Nat.eq_dec j l); split; auto; try discriminate. intros; contradiction. Qed.

Definition kv (lay:list ent) := map (fun e => (ek e, ev e)) lay.

Lemma ent_facts l1 e l2 g : Rep (l1 ++ e :: l2) g ->
  ei e <> [] /\ NoDup (ei e) /\ links g (ei e) /\ (length (ei e) <= maxs g)%nat /\
  cnt (getS g (hd O (ei e))) = (if Nat.eqb (hd O (ei e)) (home (ek e)) then Z.of_nat (count_home (l1 ++ e :: l2) (home (ek e))) else -1) /\
  hsh (getS g (hd O (ei e))) = home (ek e).
Proof. intros R. assert (He: In e (l1 ++ e :: l2)) by (apply in_or_app; right; left; auto).
  destruct (rEnt _ _ R e He) as (Hok & _ & _).
  split; [eapply ent_nonempty; eauto|]. split; [destruct (split_facts _ _ _ (rNoDup _ _ R)) as (_ & X & _); exact X|].
  split; [eapply ent_links; eauto|]. split; [eapply ent_len_le; eauto|].
  unfold ent_ok in Hok. destruct (ei e) as [|i0 r]; [contradiction|]. destruct (chunks (ev e)); [contradiction|].
  cbn [hd]. destruct Hok as (_ & B & _ & _ & _ & F & _). split; auto. Qed.

(* case "count == 1": the only entry of its home *)
Theorem remove_leader_alone l1 e l2 g :
  Rep (l1 ++ e :: l2) g -> hd O (ei e) = home (ek e) -> count_home (l1 ++ l2) (home (ek e)) = O ->
  exists g', remove_by_idx g (hd O (ei e)) = (g', true) /\ Rep (l1 ++ l2) g' /\ maxs g' = maxs g.
Proof. intros R Hhd Hc. destruct (ent_facts _ _ _ _ R) as (Hne & Hnd & Hl & Hlen & Hcnt & _).
  rewrite Hhd, Nat.eqb_refl, count_split, Hc, Nat.eqb_refl in Hcnt. cbn in Hcnt.
  unfold remove_by_idx. rewrite Hhd, Hcnt. cbn. rewrite <- Hhd.
  destruct (free_chain g (ei e) Hne Hnd Hl ltac:(lia)) as (A & B & C & D).
  eexists. split; [reflexivity|]. split; [|exact A]. eapply (rep_remove_simple l1 e l2 g); eauto.
  - intros j Hj. rewrite D. apply inl_true in Hj. rewrite Hj. reflexivity.
  - intros j Hj _. rewrite D. apply inl_false in Hj. rewrite Hj. reflexivity.
  - intros Hn. exfalso. apply Hn. rewrite <- Hhd. apply head_in; auto.
Qed.

(* case "collision key": not the leader; the leader's counter is decremented *)
Theorem remove_collision l1 e l2 g :
  Rep (l1 ++ e :: l2) g -> hd O (ei e) <> home (ek e) ->
  exists g', remove_by_idx g (hd O (ei e)) = (g', true) /\ Rep (l1 ++ l2) g' /\ maxs g' = maxs g.
Proof. intros R Hhd. destruct (ent_facts _ _ _ _ R) as (Hne & Hnd & Hl & Hlen & Hcnt & Hhsh).
  assert (He: In e (l1 ++ e :: l2)) by (apply in_or_app; right; left; auto).
  apply Nat.eqb_neq in Hhd. rewrite Hhd in Hcnt. apply Nat.eqb_neq in Hhd.
  (* the leader of e's home is another entry *)
  destruct (rLead _ _ R e He) as (e' & He' & Hh' & Hhd').
  assert (He'2: In e' (l1 ++ l2)).
  { apply in_app_iff in He' as [?|[<-|?]]; [apply in_or_app; auto| congruence |apply in_or_app; auto]. }
  assert (Hpos: (0 < count_home (l1 ++ l2) (home (ek e)))%nat) by (rewrite <- Hh'; apply count_home_pos; auto).
  pose proof (leader_cnt _ _ _ R He) as Hlc. rewrite count_split, Nat.eqb_refl in Hlc.
  (* home slot is not one of e's slots *)
  destruct (split_facts _ _ _ (rNoDup _ _ R)) as (_ & _ & Dis & _).
  assert (Hnin: ~ In (home (ek e)) (ei e)).
  { intros Hin. apply (Dis _ Hin). apply in_allidx. exists e'. split; auto. rewrite <- Hhd'. apply head_in. eapply ent_nonempty; eauto. }
  unfold remove_by_idx. rewrite Hcnt. cbn [Z.eqb Z.ltb Z.compare]. rewrite Hhsh.
  destruct (Z.leb (cnt (getS g (home (ek e)))) 1) eqn:El; [apply Z.leb_le in El; lia|].
  set (g1 := setS g (home (ek e)) (with_cnt (getS g (home (ek e))) (cnt (getS g (home (ek e))) - 1))).
  assert (Hl1: links g1 (ei e)).
  { eapply links_frame; [|exact Hl]. intros i Hi. unfold g1. apply getS_setS_other. intros ->; auto. }
  destruct (free_chain g1 (ei e) Hne Hnd Hl1 ltac:(unfold g1; rewrite maxs_setS; lia)) as (A & B & C & D).
  eexists. split; [reflexivity|]. split; [|exact A]. eapply (rep_remove_simple l1 e l2 g); eauto.
  - intros j Hj. rewrite D. apply inl_true in Hj. rewrite Hj. reflexivity.
  - intros j Hj Hjh. rewrite D. apply inl_false in Hj. rewrite Hj. unfold g1. apply getS_setS_other; auto.
  - intros _. rewrite D. apply inl_false in Hnin. rewrite Hnin. unfold g1. rewrite getS_setS_same. f_equal. lia.
  - intros Heq. congruence.
Qed.

Lemma ring_tl m h j : (h < m)%nat -> (In j (tl (ring m h)) <-> (j < m)%nat /\ j <> h).
Proof. intros H. pose proof (ring_NoDup m h H) as ND. pose proof (in_ring m h j H) as IR.
  unfold ring in *. replace (m - h)%nat with (S (m - h - 1)) in * by lia. cbn [seq app tl] in *.
  inversion ND; subst. split.
  - intros Hin. split; [apply IR; right; auto | intros ->; contradiction].
  - intros [Hj Hne]. apply IR in Hj. destruct Hj; [congruence|auto]. Qed.

Lemma with_hsh_fields s h : cnt (with_hsh s h) = cnt s /\ dsz (with_hsh s h) = dsz s /\ dat (with_hsh s h) = dat s /\ lnk (with_hsh s h) = lnk s /\ key (with_hsh s h) = key s /\ hsh (with_hsh s h) = h.
Proof. destruct s; cbn; repeat split; reflexivity. Qed.

(* an ext chain whose first block gets a new predecessor index *)
Lemma ext_ok_rehead g g' r p p' cs :
  (forall i, In i (tl r) -> getS g' i = getS g i) ->
  (forall x, hd_error r = Some x -> getS g' x = with_hsh (getS g x) p') ->
  ext_ok g p r cs -> ext_ok g' p' r cs.
Proof. intros Hf Hh H. destruct r as [|x r']; destruct cs as [|c cs]; cbn in *; auto.
  rewrite (Hh x eq_refl). destruct (with_hsh_fields (getS g x) p') as (A & B & C & D & E & F).
  destruct H as (H1 & H2 & H3 & H4 & H5 & H6 & H7). rewrite A, B, C, D, F.
  split; [exact H1|]. split; [reflexivity|]. split; [exact H3|]. split; [exact H4|]. split; [exact H5|]. split; [exact H6|].
  apply (ext_ok_frame g g' r' x cs); auto. Qed.

Lemma count_home_ex l h : (0 < count_home l h)%nat -> exists e, In e l /\ home (ek e) = h.
Proof. unfold count_home. intros H. destruct (filter (fun e => Nat.eqb (home (ek e)) h) l) as [|e r] eqn:E; [cbn in H; lia|].
  assert (In e (filter (fun e => Nat.eqb (home (ek e)) h) l)) by (rewrite E; left; auto).
  apply filter_In in H0 as [Hin Hh]. apply Nat.eqb_eq in Hh. eauto. Qed.

Lemma in_other l1 (e:ent) l2 e2 : In e2 (l1 ++ e :: l2) -> ek e2 <> ek e -> In e2 (l1 ++ l2).
Proof. rewrite !in_app_iff. cbn. intros [?|[<-|?]] Hk; auto. congruence. Qed.

Lemma disj_ent lay g a b : Rep lay g -> In a lay -> In b lay -> ek a <> ek b -> forall i, In i (ei a) -> ~ In i (ei b).
Proof. intros R Ha Hb Hk i Hia Hib. apply in_split in Ha as (l1 & l2 & ->).
  destruct (split_facts _ _ _ (rNoDup _ _ R)) as (_ & _ & Dis & _).
  apply (Dis i Hia). apply in_allidx. exists b. split; auto. eapply in_other; eauto. Qed.

Lemma key_unique lay g a b : Rep lay g -> In a lay -> In b lay -> ek a = ek b -> a = b.
Proof. intros R Ha Hb Hk. pose proof (rKeys _ _ R) as Hnd. clear R. induction lay as [|x l IH]; [contradiction|].
  cbn in Hnd. inversion Hnd; subst. destruct Ha as [->|Ha], Hb as [->|Hb]; auto.
  - exfalso. apply H1. rewrite Hk. apply in_map; auto.
  - exfalso. apply H1. rewrite <- Hk. apply in_map; auto. Qed.

Lemma count_home_keys l l' h : map ek l = map ek l' -> count_home l h = count_home l' h.
Proof. revert l'. induction l as [|a r IH]; intros [|b r'] H; cbn in H; try discriminate; auto.
  inversion H. rewrite !count_home_cons, H1. f_equal. apply IH; auto. Qed.
Lemma NoDup_replace {A} (a b:list A) x y : NoDup (a ++ x :: b) -> ~ In y (a ++ x :: b) -> NoDup (a ++ y :: b).
Proof. intros H Hy. pose proof (NoDup_remove_1 _ _ _ H) as H1. 
  assert (Hy2: ~ In y (a ++ b)) by (intros Hin; apply Hy; apply in_app_iff in Hin as [?|?]; apply in_app_iff; [left|right; right]; auto).
  clear H Hy. induction a as [|z a IH]; cbn in *; [constructor; auto|].
  inversion H1; subst. constructor.
  - rewrite in_app_iff in *. cbn. intros [Hz|[Hz|Hz]]; [apply H2; auto | subst; apply Hy2; left; auto | apply H2; auto].
  - apply IH; auto. Qed.

(* case "leader with followers": a collision key of the same home is promoted into the home slot *)
Theorem remove_leader_promote l1 e l2 g :
  Rep (l1 ++ e :: l2) g -> hd O (ei e) = home (ek e) -> (0 < count_home (l1 ++ l2) (home (ek e)))%nat ->
  exists g' lay', remove_by_idx g (hd O (ei e)) = (g', true) /\ Rep lay' g' /\ kv lay' = kv (l1 ++ l2) /\
    maxs g' = maxs g /\ length (allidx lay') = length (allidx (l1 ++ l2)).
Proof.
  intros R Hhd Hpos. remember (l1 ++ e :: l2) as lay eqn:Elay. remember (home (ek e)) as h eqn:Eh.
  assert (R0 := R). rewrite Elay in R0. destruct (ent_facts _ _ _ _ R0) as (Hne & Hnd & Hl & Hlen & Hcnt & Hhsh). clear R0.
  rewrite <- ?Elay, <- ?Eh in *.
  assert (He: In e lay) by (rewrite Elay; apply in_or_app; right; left; auto).
  destruct (rEnt _ _ R e He) as (_ & _ & Hhm). rewrite <- Eh in Hhm.
  rewrite Hhd in Hcnt, Hhsh. rewrite Nat.eqb_refl in Hcnt. rewrite Elay in Hcnt. rewrite count_split in Hcnt. rewrite <- Eh in Hcnt. rewrite Nat.eqb_refl in Hcnt.
  set (c := Z.of_nat (count_home (l1 ++ l2) h + 1)) in *.
  assert (Hc2: 1 < c) by (unfold c; lia).
  unfold remove_by_idx. rewrite Hhd. rewrite Hcnt.
  destruct (Z.eqb c 1) eqn:E1; [apply Z.eqb_eq in E1; lia|]. destruct (Z.ltb 1 c) eqn:E2; [|apply Z.ltb_ge in E2; lia].
  (* the collision key found *)
  destruct (find_collision g h) as [j|] eqn:Ef.
  2:{ exfalso. destruct (count_home_ex _ _ Hpos) as (e2 & He2 & Hh2).
      assert (He2': In e2 lay) by (rewrite Elay; apply in_split_lay; auto).
      destruct (ent_head _ _ _ R He2') as (j2 & r2 & E2i & _ & Hhs2 & _ & _).
      assert (Hk: ek e2 <> ek e).
      { intros Hk. assert (e2 = e) by (eapply key_unique; eauto). subst e2.
        pose proof (rKeys _ _ R) as RK. rewrite Elay in RK. destruct (keys_split _ _ _ RK) as (_ & Kn). apply Kn. apply in_map; auto. }
      assert (Hj2h: j2 <> h).
      { intros ->. eapply (disj_ent lay g e2 e R He2' He Hk h); [rewrite E2i; left; auto | rewrite <- Hhd; apply head_in; auto]. }
      assert (Hj2m: (j2 < maxs g)%nat) by (apply (rRange _ _ R), in_allidx; exists e2; split; auto; rewrite E2i; left; auto).
      destruct (rEnt _ _ R e2 He2') as (Hok2 & _). unfold ent_ok in Hok2. rewrite E2i in Hok2. destruct (chunks (ev e2)); [contradiction|].
      destruct Hok2 as (_ & _ & _ & _ & _ & Hc2' & _). rewrite Hh2 in Hc2'. apply Nat.eqb_neq in Hj2h. rewrite Hj2h in Hc2'.
      unfold find_collision in Ef. assert (Hin: In j2 (tl (ring (maxs g) h))) by (apply ring_tl; auto; split; auto; apply Nat.eqb_neq; auto).
      pose proof (find_none _ _ Ef _ Hin) as F. cbn in F. rewrite Hc2', Hhs2, Hh2, Hhsh, Nat.eqb_refl in F. discriminate. }
  unfold find_collision in Ef. apply find_some in Ef as [Hjin Hjp]. apply ring_tl in Hjin as [Hjm Hjh]; auto.
  apply andb_prop in Hjp as [Hjc Hjhs]. apply Z.eqb_eq in Hjc. apply Nat.eqb_eq in Hjhs. rewrite Hhsh in Hjhs.
  assert (Hks: is_keyslot (getS g j) = true) by (unfold is_keyslot; rewrite Hjc; reflexivity).
  destruct (keyslot_is_head _ _ _ R Hjm Hks) as (e2 & He2' & Hhd2 & Hhs2 & Hkey2).
  assert (Hh2: home (ek e2) = h) by congruence.
  assert (Hk: ek e2 <> ek e).
  { intros Hk. assert (e2 = e) by (eapply key_unique; eauto). subst e2. congruence. }
  assert (He2: In e2 (l1 ++ l2)) by (rewrite Elay in He2'; eapply in_other; eauto).
  apply in_split in He2 as (m1 & m2 & Em).
  destruct (ent_head _ _ _ R He2') as (j' & r2 & E2i & _ & _ & _ & Hext2). rewrite E2i in Hhd2. cbn in Hhd2. subst j'.
  set (e2' := mkent (ek e2) (ev e2) (h :: r2)).
  (* the computed image *)
  destruct (free_chain g (ei e) Hne Hnd Hl ltac:(lia)) as (A & B & C & D). rewrite Hhd in *.
  set (g1 := remove_data g h) in *.
  assert (Hjne: ~ In j (ei e)) by (apply (disj_ent lay g e2 e R He2' He Hk); rewrite E2i; left; auto).
  assert (Hhin: In h (ei e)) by (rewrite <- Hhd; apply head_in; auto).
  assert (G1h: cnt (getS g1 h) = 0) by (rewrite D; apply inl_true in Hhin; rewrite Hhin; reflexivity).
  assert (G1j: getS g1 j = getS g j) by (rewrite D; apply inl_false in Hjne; rewrite Hjne; reflexivity).
  unfold copy_slot. rewrite G1h, G1j, Hjc. cbn [Z.eqb negb orb].
  set (g2 := setS g1 h (getS g j)). set (g3 := remove_slot g2 j).
  assert (G3h: getS g3 h = getS g j) by (unfold g3, remove_slot; rewrite getS_setS_other by auto; unfold g2; apply getS_setS_same).
  rewrite G3h.
  set (g4 := setS g3 h (with_cnt (getS g j) (c - 1))).
  assert (G4h: getS g4 h = with_cnt (getS g j) (c - 1)) by (unfold g4; apply getS_setS_same).
  rewrite G4h.
  destruct (rEnt _ _ R e2 He2') as (Hok2 & Hv2 & _). unfold ent_ok in Hok2. rewrite E2i in Hok2.
  destruct (chunks (ev e2)) as [|c0 cs] eqn:Ech; [contradiction|].
  destruct Hok2 as (K2 & Hhs2b & Z2 & D2 & L2 & C2 & X2).
  replace (lnk (with_cnt (getS g j) (c - 1))) with (nxt_of r2) by (destruct (getS g j); cbn in *; congruence).
  eexists. exists (m1 ++ e2' :: m2). split; [reflexivity|].
  assert (Hpost: forall X, (X /\ kv (m1 ++ e2' :: m2) = kv (l1 ++ l2)) -> 
       forall gx, maxs gx = maxs g -> X /\ kv (m1 ++ e2' :: m2) = kv (l1 ++ l2) /\ maxs gx = maxs g /\ length (allidx (m1 ++ e2' :: m2)) = length (allidx (l1 ++ l2))).
  { intros X [HX HK] gx Hgx. split; auto. split; auto. split; auto. rewrite Em, !allidx_mid, !app_length, E2i. reflexivity. }
  match goal with |- Rep _ ?gg /\ _ => apply (Hpost _) with (gx := gg) end.
  2:{ unfold g4, g3, remove_slot, g2. destruct (Z.eqb (nxt_of r2) (-1)); rewrite ?maxs_setS; exact A. }
  split.
  2:{ unfold kv. rewrite Em, !map_app. reflexivity. }
  (* shape of the final image *)
  set (g5 := if Z.eqb (nxt_of r2) (-1) then g4 else
             setS g4 (Z.to_nat (nxt_of r2)) (with_hsh (getS g4 (Z.to_nat (nxt_of r2))) h)).
  (* --- index facts --- *)
  pose proof (rNoDup _ _ R) as ND. rewrite Elay in ND. destruct (split_facts _ _ _ ND) as (N' & _ & Dis & Iff & Len).
  assert (Hr2e: forall x, In x r2 -> ~ In x (ei e)).
  { intros x Hx. apply (disj_ent lay g e2 e R He2' He Hk). rewrite E2i. right; auto. }
  assert (ND2: NoDup (j :: r2)).
  { rewrite Em in N'. rewrite allidx_app, allidx_cons, E2i in N'. apply NoDup_app_r in N'. apply NoDup_app_l in N'. exact N'. }
  assert (Hjr2: ~ In j r2) by (inversion ND2; auto).
  assert (Hhr2: ~ In h r2) by (intros Hx; apply (Hr2e h Hx); auto).
  (* --- slots of g4 --- *)
  assert (G4: forall y, getS g4 y = if Nat.eqb y h then with_cnt (getS g j) (c - 1) else
                                   if Nat.eqb y j then with_cnt (getS g j) 0 else getS g1 y).
  { intros y. unfold g4. destruct (Nat.eqb y h) eqn:Eyh.
    - apply Nat.eqb_eq in Eyh; subst y. apply getS_setS_same.
    - apply Nat.eqb_neq in Eyh. rewrite getS_setS_other by auto. unfold g3, remove_slot.
      destruct (Nat.eqb y j) eqn:Eyj.
      + apply Nat.eqb_eq in Eyj; subst y. rewrite getS_setS_same. unfold g2. rewrite getS_setS_other by auto. rewrite G1j. reflexivity.
      + apply Nat.eqb_neq in Eyj. rewrite getS_setS_other by auto. unfold g2. rewrite getS_setS_other by auto. reflexivity. }
  assert (M4: maxs g4 = maxs g) by (unfold g4, g3, remove_slot, g2; rewrite !maxs_setS; exact A).
  assert (U4: used g4 = used g - Z.of_nat (length (ei e))) by (unfold g4, g3, remove_slot, g2; cbn [used setS]; exact C).
  assert (N4: num g4 = num g - 1) by (unfold g4, g3, remove_slot, g2; cbn [num setS]; exact B).
  (* --- slots of g5 --- *)
  assert (G5: forall y, getS g5 y = if (match r2 with x :: _ => Nat.eqb y x | [] => false end) then with_hsh (getS g y) h else getS g4 y).
  { intros y. unfold g5. destruct r2 as [|x r2'].
    - cbn. reflexivity.
    - cbn [nxt_of]. assert (Z.of_nat x =? -1 = false) by (apply Z.eqb_neq; lia). rewrite H, Nat2Z.id.
      destruct (Nat.eqb y x) eqn:Eyx.
      + apply Nat.eqb_eq in Eyx; subst y. rewrite getS_setS_same. f_equal. rewrite G4.
        assert (x <> h) by (intros ->; apply Hhr2; left; auto). assert (x <> j) by (intros ->; apply Hjr2; left; auto).
        apply Nat.eqb_neq in H0, H1. rewrite H0, H1. rewrite D. assert (~ In x (ei e)) by (apply Hr2e; left; auto).
        apply inl_false in H2. rewrite H2. reflexivity.
      + apply Nat.eqb_neq in Eyx. apply getS_setS_other; auto. }
  assert (M5: maxs g5 = maxs g) by (unfold g5; destruct (Z.eqb (nxt_of r2) (-1)); [|rewrite maxs_setS]; exact M4).
  assert (U5: used g5 = used g - Z.of_nat (length (ei e))) by (unfold g5; destruct (Z.eqb (nxt_of r2) (-1)); cbn [used setS]; exact U4).
  assert (N5: num g5 = num g - 1) by (unfold g5; destruct (Z.eqb (nxt_of r2) (-1)); cbn [num setS]; exact N4).
  clearbody g5. 
  (* slots outside e, j and the first ext of e2 are untouched *)
  assert (Gother: forall y, ~ In y (ei e) -> y <> j -> ~ In y r2 -> getS g5 y = getS g y).
  { intros y Hy Hyj Hyr. rewrite G5. assert ((match r2 with x :: _ => Nat.eqb y x | [] => false end) = false).
    { destruct r2; auto. apply Nat.eqb_neq. intros ->. apply Hyr; left; auto. }
    rewrite H, G4. assert (y <> h) by (intros ->; auto). apply Nat.eqb_neq in H0, Hyj. rewrite H0, Hyj, D. apply inl_false in Hy. rewrite Hy. reflexivity. }
  assert (Gr2: forall y, In y r2 -> (match r2 with x :: _ => Nat.eqb y x | [] => false end) = false -> getS g5 y = getS g y).
  { intros y Hy Hf. rewrite G5, Hf, G4. assert (y <> h) by (intros ->; auto). assert (y <> j) by (intros ->; auto).
    apply Nat.eqb_neq in H, H0. rewrite H, H0, D. assert (~ In y (ei e)) by (apply Hr2e; auto). apply inl_false in H1. rewrite H1. reflexivity. }
  assert (Gh: getS g5 h = with_cnt (getS g j) (c - 1)).
  { rewrite G5. assert ((match r2 with x :: _ => Nat.eqb h x | [] => false end) = false).
    { destruct r2; auto. apply Nat.eqb_neq. intros <-. apply Hhr2; left; auto. }
    rewrite H, G4, Nat.eqb_refl. reflexivity. }
  assert (Gj: cnt (getS g5 j) = 0).
  { rewrite G5. assert ((match r2 with x :: _ => Nat.eqb j x | [] => false end) = false).
    { destruct r2; auto. apply Nat.eqb_neq. intros <-. apply Hjr2; left; auto. }
    rewrite H, G4. apply Nat.eqb_neq in Hjh. rewrite Hjh, Nat.eqb_refl. destruct (getS g j); reflexivity. }
  assert (Ge: forall y, In y (ei e) -> y <> h -> cnt (getS g5 y) = 0).
  { intros y Hy Hyh. rewrite G5. assert ((match r2 with x :: _ => Nat.eqb y x | [] => false end) = false).
    { destruct r2; auto. apply Nat.eqb_neq. intros ->. apply (Hr2e n); [left; auto|auto]. }
    rewrite H, G4. assert (y <> j) by (intros ->; auto). apply Nat.eqb_neq in Hyh, H0. rewrite Hyh, H0, D.
    apply inl_true in Hy. rewrite Hy. destruct (getS g y); reflexivity. }
  (* --- layout facts --- *)
  assert (Eidx: allidx (l1 ++ l2) = allidx m1 ++ (j :: r2) ++ allidx m2) by (rewrite Em, allidx_app, allidx_cons, E2i; reflexivity).
  assert (Eidx': allidx (m1 ++ e2' :: m2) = allidx m1 ++ (h :: r2) ++ allidx m2) by (rewrite allidx_app, allidx_cons; reflexivity).
  assert (Hh12: ~ In h (allidx (l1 ++ l2))) by (apply Dis; auto).
  assert (Hcnt': forall x, count_home (m1 ++ e2' :: m2) x = count_home (l1 ++ l2) x).
  { intros x. apply count_home_keys. rewrite Em, !map_app. reflexivity. }
  assert (Hin': forall y, In y (allidx (m1 ++ e2' :: m2)) <-> y = h \/ (In y (allidx (l1 ++ l2)) /\ y <> j)).
  { intros y. rewrite Eidx', Eidx. rewrite !in_app_iff. cbn [In]. split.
    - intros [?|[[<-|?]|?]]; auto; right; split; auto; intros ->.
      + rewrite Eidx in N'. apply NoDup_app_disj with (x:=j) in N'; auto. apply N'. left; auto.
      + auto.
      + rewrite Eidx in N'. apply NoDup_app_r in N'. cbn in N'. inversion N'; subst. apply H2. apply in_or_app; auto.
    - intros [->|[[?|[[<-|?]|?]] Hnej]]; auto. congruence. }
  constructor.
  - rewrite Eidx'. rewrite Eidx in N', Hh12. change ((j :: r2) ++ allidx m2) with (j :: (r2 ++ allidx m2)) in N', Hh12.
    change ((h :: r2) ++ allidx m2) with (h :: (r2 ++ allidx m2)). eapply NoDup_replace; eauto.
  - intros y Hy. rewrite M5. apply Hin' in Hy as [->|[Hy _]]; auto. apply (rRange _ _ R). rewrite Elay. apply Iff; auto.
  - intros y Hy Hn'. rewrite M5 in Hy.
    destruct (in_dec Nat.eq_dec y (ei e)) as [Hye|Hye].
    + apply Ge; auto. intros ->. apply Hn', Hin'; auto.
    + destruct (Nat.eq_dec y j) as [->|Hyj]; [exact Gj|].
      assert (~ In y (allidx (l1 ++ l2))) by (intros Hin; apply Hn', Hin'; auto).
      rewrite Gother; auto.
      * apply (rFree _ _ R); auto. rewrite Elay. intros Hin. apply Iff in Hin as [?|?]; auto.
      * intros Hyr. apply H. rewrite Eidx. apply in_or_app; right. right. apply in_or_app; auto.
  - (* entries *)
    assert (Hunt: forall e3, In e3 (m1 ++ m2) -> ent_ok g5 (m1 ++ e2' :: m2) e3 /\ ev e3 <> [] /\ (home (ek e3) < maxs g5)%nat).
    { intros e3 He3.
      assert (He3a: In e3 (l1 ++ l2)) by (rewrite Em; apply in_split_lay; auto).
      assert (He3b: In e3 lay) by (rewrite Elay; apply in_split_lay; auto).
      assert (Hk3e: ek e3 <> ek e).
      { intros Hk3. assert (e3 = e) by (eapply key_unique; eauto). subst e3.
        pose proof (rKeys _ _ R) as RK. rewrite Elay in RK. destruct (keys_split _ _ _ RK) as (_ & Kn). apply Kn, in_map; auto. }
      assert (Hk32: ek e3 <> ek e2).
      { intros Hk3. pose proof (rKeys _ _ R) as RK. rewrite Elay in RK. destruct (keys_split _ _ _ RK) as (K' & _).
        rewrite Em in K'. destruct (keys_split _ _ _ K') as (_ & Kn). apply Kn. rewrite <- Hk3. apply in_map; auto. }
      destruct (rEnt _ _ R e3 He3b) as (Hok3 & Hv3 & Hh3). split; [|split; auto; rewrite M5; auto].
      assert (D3e: forall y, In y (ei e3) -> ~ In y (ei e)) by (apply (disj_ent lay g e3 e R); auto).
      assert (D32: forall y, In y (ei e3) -> ~ In y (ei e2)) by (apply (disj_ent lay g e3 e2 R); auto).
      apply (ent_ok_frame g g5 lay (m1 ++ e2' :: m2) e3); auto.
      - intros y Hy. apply Gother; auto.
        + intros ->. apply (D32 j Hy). rewrite E2i. left; auto.
        + intros Hyr. apply (D32 y Hy). rewrite E2i. right; auto.
      - intros Hhd3. rewrite Hcnt'. rewrite Elay, count_split.
        destruct (Nat.eqb (home (ek e)) (home (ek e3))) eqn:Ehh; [|lia].
        exfalso. apply Nat.eqb_eq in Ehh. apply (D3e (home (ek e3))).
        + rewrite <- Hhd3. apply head_in. eapply ent_nonempty; eauto.
        + rewrite <- Ehh, <- Eh. auto. }
    intros e3 He3. apply in_app_iff in He3 as [He3|[<-|He3]].
    + apply Hunt. apply in_or_app; auto.
    + (* the promoted entry *)
      split; [|split; [exact Hv2 | cbn [ek e2']; rewrite Hh2, M5; auto]].
      unfold ent_ok. cbn [ei ek ev e2']. rewrite Ech. rewrite Gh.
      destruct (getS g j) as [cj hj dj lj kj datj] eqn:Ej. cbn [with_cnt key hsh dsz dat lnk cnt] in *.
      split; [exact K2|]. split; [exact Hhs2b|]. split; [exact Z2|]. split; [exact D2|]. split; [exact L2|]. split.
      * rewrite Hh2, Nat.eqb_refl. rewrite Hcnt'. unfold c. lia.
      * apply (ext_ok_rehead g g5 r2 j h cs); auto.
        -- intros y Hy. apply Gr2; [destruct r2; [contradiction|right; auto]|].
           destruct r2 as [|x r2']; auto. cbn in Hy. apply Nat.eqb_neq. intros ->. apply NoDup_cons_iff in ND2 as [_ ND3]. apply NoDup_cons_iff in ND3 as [ND4 _]. contradiction.
        -- intros x Hx. destruct r2 as [|x' r2']; [discriminate|]. cbn in Hx. inversion Hx; subst x'. rewrite G5, Nat.eqb_refl. reflexivity.
    + apply Hunt. apply in_or_app; auto.
  - (* leaders *)
    intros e3 He3.
    destruct (Nat.eq_dec (home (ek e3)) h) as [Hh3|Hh3].
    + exists e2'. split; [apply in_or_app; right; left; auto|]. cbn [ek ei e2' hd]. rewrite Hh2, Hh3. auto.
    + assert (He3a: In e3 (m1 ++ m2)).
      { apply in_app_iff in He3 as [?|[<-|?]]; [apply in_or_app; auto | cbn [ek e2'] in Hh3; congruence | apply in_or_app; auto]. }
      assert (He3b: In e3 lay) by (rewrite Elay; apply in_split_lay; rewrite Em; apply in_split_lay; auto).
      destruct (rLead _ _ R e3 He3b) as (e' & He' & Hh' & Hhd'). exists e'. split; [|auto].
      assert (ek e' <> ek e) by (intros Hkk; assert (e' = e) by (eapply key_unique; eauto); subst e'; congruence).
      assert (ek e' <> ek e2) by (intros Hkk; assert (e' = e2) by (eapply key_unique; eauto); subst e'; congruence).
      rewrite Elay in He'. apply in_other in He'; auto. rewrite Em in He'. apply in_other in He'; auto.
      apply in_app_iff in He' as [?|?]; apply in_or_app; [left|right; right]; auto.
  - rewrite map_app. cbn [map ek e2']. pose proof (rKeys _ _ R) as RK. rewrite Elay in RK. destruct (keys_split _ _ _ RK) as (K' & _).
    rewrite Em, map_app in K'. exact K'.
  - rewrite U5, (rUsed _ _ R), Elay, Len. rewrite Eidx', Eidx. rewrite !app_length. cbn [length]. lia.
  - rewrite N5, (rNum _ _ R), Elay. rewrite !app_length. cbn [length]. 
    assert (length (l1 ++ l2) = length (m1 ++ e2 :: m2)) by (rewrite Em; reflexivity). rewrite !app_length in H. cbn [length] in H. lia.
Qed.

(* ================= remove: wrapper ================= *)
Theorem remove_present l1 e l2 g : Rep (l1 ++ e :: l2) g ->
  exists g' lay', remove_by_idx g (hd O (ei e)) = (g', true) /\ remove g (ek e) = (g', true) /\ Rep lay' g' /\ kv lay' = kv (l1 ++ l2) /\
    maxs g' = maxs g /\ length (allidx lay') = length (allidx (l1 ++ l2)).
Proof. intros R. assert (He: In e (l1 ++ e :: l2)) by (apply in_or_app; right; left; auto).
  unfold remove. rewrite (get_idx_present _ _ _ R He).
  destruct (Nat.eq_dec (hd O (ei e)) (home (ek e))) as [Hhd|Hhd].
  - destruct (Nat.eq_dec (count_home (l1 ++ l2) (home (ek e))) O) as [Hc|Hc].
    + destruct (remove_leader_alone _ _ _ _ R Hhd Hc) as (g' & Hr & R' & M'). exists g', (l1 ++ l2). split; [exact Hr|]. split; [exact Hr|]. split; [exact R'|]. split; [reflexivity|]. split; [exact M'|reflexivity].
    + destruct (remove_leader_promote _ _ _ _ R Hhd ltac:(lia)) as (g' & lay' & Hr & R' & K' & M' & L'). exists g', lay'. split; [exact Hr|]. split; [exact Hr|]. split; [exact R'|]. split; [exact K'|]. split; [exact M'|exact L'].
  - destruct (remove_collision _ _ _ _ R Hhd) as (g' & Hr & R' & M'). exists g', (l1 ++ l2). split; [exact Hr|]. split; [exact Hr|]. split; [exact R'|]. split; [reflexivity|]. split; [exact M'|reflexivity]. Qed.

Theorem remove_absent lay g k : Rep lay g -> (home k < maxs g)%nat -> (forall e, In e lay -> ek e <> k) ->
  remove g k = (g, false).
Proof. intros R Hh Hab. unfold remove. rewrite (get_idx_absent lay); auto. Qed.

(* ================= put_data: allocation of a new entry ================= *)
(* invariant of the put_ext loop: `lay` untouched, a partial chain P for key k reserved *)
Record PRep (lay:list ent) (k:K) (h:nat) (cv:Z) (P:list nat) (done:list (list byte)) (g:img) : Prop := {
  pNoDup : NoDup (allidx lay ++ P);
  pRange : forall i, In i (allidx lay ++ P) -> (i < maxs g)%nat;
  pFree  : forall i, (i < maxs g)%nat -> ~ In i (allidx lay ++ P) -> cnt (getS g i) = 0;
  pEnt   : forall e, In e lay -> ent_ok g lay e /\ ev e <> [] /\ (home (ek e) < maxs g)%nat;
  pLead  : forall e, In e lay -> exists e', In e' lay /\ home (ek e') = home (ek e) /\ hd O (ei e') = home (ek e);
  pKeys  : NoDup (map ek lay);
  pChain : match P, done with
           | i0 :: r, c0 :: cs =>
               let s := getS g i0 in
               key s = Some k /\ hsh s = h /\ dsz s = length c0 /\ dat s = c0 /\ cnt s = cv /\ lnk s = nxt_of r /\ ext_ok g i0 r cs
           | _, _ => False end;
  pCv    : cv <> 0;
  pUsed  : used g = Z.of_nat (length (allidx lay) + length P);
  pNum   : num g = Z.of_nat (length lay) + 1
}.

Lemma last_default (r:list nat) d d' : r <> [] -> last r d = last r d'.
Proof. induction r as [|x r IH]; [congruence|]. intros _. destruct r as [|y r']; [reflexivity|]. cbn [last] in *. apply IH. discriminate. Qed.
Lemma last_cons (i:nat) r d : last (i :: r) d = last r i.
Proof. destruct r as [|x r]; [reflexivity|]. change (last (i :: x :: r) d) with (last (x :: r) d). apply last_default. discriminate. Qed.
Lemma last_in (r:list nat) d : r <> [] -> In (last r d) r.
Proof. induction r as [|x r IH]; [congruence|]. intros _. destruct r as [|y r']; [left; reflexivity|]. right. apply IH. discriminate. Qed.

Lemma ext_ok_snoc g g' : forall r prev cs t piece,
  NoDup (prev :: r) -> ext_ok g prev r cs -> ~ In t (prev :: r) ->
  (forall i, In i r -> i <> last r prev -> getS g' i = getS g i) ->
  (r <> [] -> getS g' (last r prev) = with_lnk (getS g (last r prev)) (Z.of_nat t)) ->
  getS g' t = mk (-2) (last r prev) (length piece) (-1) None piece -> piece <> [] ->
  ext_ok g' prev (r ++ [t]) (cs ++ [piece]).
Proof. induction r as [|i r IH]; intros prev cs t piece Hnd H Ht Hf Hl Hn Hp.
  - destruct cs; [|contradiction]. cbn in *. rewrite Hn. cbn. repeat split; auto.
  - destruct cs as [|c cs]; [contradiction|]. cbn [app ext_ok]. cbn in H. destruct H as (A & B & C & D & E & F & G).
    rewrite last_cons in *.
    assert (Hnd2: NoDup (i :: r)) by (inversion Hnd; auto).
    assert (Hti: ~ In t (i :: r)) by (intros Hin; apply Ht; right; auto).
    destruct r as [|i2 r'].
    + cbn [last] in *. rewrite (Hl ltac:(discriminate)). destruct (getS g i) eqn:Ei; cbn in *.
      split; [exact A|]. split; [exact B|]. split; [exact C|]. split; [exact D|]. split; [exact E|]. split; [reflexivity|].
      destruct cs; [|contradiction]. cbn. rewrite Hn. cbn. repeat split; auto.
    + assert (Hil: i <> last (i2 :: r') i).
      { intros Heq. inversion Hnd2; subst. apply H1. rewrite Heq. apply last_in. discriminate. }
      rewrite (Hf i (or_introl eq_refl) Hil).
      split; [exact A|]. split; [exact B|]. split; [exact C|]. split; [exact D|]. split; [exact E|]. split; [exact F|].
      apply (IH i cs t piece); auto.
      * intros x Hx Hxl. apply Hf; [right; auto|]. exact Hxl.
      * intros _. apply Hl. discriminate.
Qed.

Lemma chunks_ext_fuel : forall n n' w, (length w <= n)%nat -> (length w <= n')%nat -> chunks_ext n w = chunks_ext n' w.
Proof. induction n as [|n IH]; intros n' w H H'.
  - destruct w; [destruct n'; reflexivity | cbn in H; lia].
  - destruct w as [|b w]; [destruct n'; reflexivity|]. destruct n' as [|n']; [cbn in H'; lia|].
    cbn [chunks_ext]. f_equal. apply IH; rewrite skipn_length; cbn [length] in *; unfold EXTSZ, Consts.HARR_EXTSZ; lia. Qed.

Lemma chunks_ext_cons w : w <> [] ->
  chunks_ext (length w) w = firstn EXTSZ w :: chunks_ext (length (skipn EXTSZ w)) (skipn EXTSZ w).
Proof. intros H. destruct w as [|b w]; [congruence|]. cbn [length chunks_ext]. f_equal.
  apply chunks_ext_fuel; rewrite ?skipn_length; cbn [length]; unfold EXTSZ, Consts.HARR_EXTSZ; lia. Qed.

Lemma firstn_nonempty {A} n (w:list A) : w <> [] -> (0 < n)%nat -> firstn n w <> [].
Proof. destruct w; [congruence|]. destruct n; [lia|]. cbn. discriminate. Qed.

Lemma prep_used_le lay k h cv P done g : PRep lay k h cv P done g -> used g <= Z.of_nat (maxs g).
Proof. intros R. rewrite (pUsed _ _ _ _ _ _ _ R). rewrite <- app_length.
  assert (incl (allidx lay ++ P) (seq 0 (maxs g))).
  { intros i Hi. apply in_seq. split; [lia|]. cbn. apply (pRange _ _ _ _ _ _ _ R); auto. }
  pose proof (NoDup_incl_length (pNoDup _ _ _ _ _ _ _ R) H). rewrite seq_length in H0. lia. Qed.

Lemma prep_full lay k h cv P done g : PRep lay k h cv P done g -> (0 < maxs g)%nat ->
  (forall i, (i < maxs g)%nat -> cnt (getS g i) <> 0) -> used g = Z.of_nat (maxs g).
Proof. intros R Hm Hall. pose proof (prep_used_le _ _ _ _ _ _ _ R) as Hle.
  rewrite (pUsed _ _ _ _ _ _ _ R) in *. rewrite <- app_length in *.
  assert (incl (seq 0 (maxs g)) (allidx lay ++ P)).
  { intros i Hi. apply in_seq in Hi. destruct (in_dec Nat.eq_dec i (allidx lay ++ P)); auto.
    exfalso. apply (Hall i ltac:(lia)). apply (pFree _ _ _ _ _ _ _ R); auto. lia. }
  pose proof (NoDup_incl_length (seq_NoDup (maxs g) 0) H). rewrite seq_length in H0. lia. Qed.

Lemma prep_links lay k h cv P done g : PRep lay k h cv P done g -> P <> [] /\ NoDup P /\ links g P /\ (length P <= maxs g)%nat.
Proof. intros R. pose proof (pChain _ _ _ _ _ _ _ R) as C. destruct P as [|i0 r]; [contradiction|]. destruct done as [|c0 cs]; [contradiction|].
  destruct C as (_ & _ & _ & _ & _ & L & X). split; [discriminate|]. split; [eapply NoDup_app_r; apply (pNoDup _ _ _ _ _ _ _ R)|].
  split; [split; [exact L | eapply ext_links; eauto]|].
  assert (incl (i0 :: r) (seq 0 (maxs g))).
  { intros i Hi. apply in_seq. split; [lia|]. cbn. apply (pRange _ _ _ _ _ _ _ R). apply in_or_app; auto. }
  pose proof (NoDup_incl_length (NoDup_app_r _ _ (pNoDup _ _ _ _ _ _ _ R)) H). rewrite seq_length in H0. exact H0. Qed.

(* running out of slots: the partial chain is released and the table is as before *)
Lemma prep_rollback lay k h cv P done g : PRep lay k h cv P done g ->
  Rep lay (remove_data g (hd O P)) /\ maxs (remove_data g (hd O P)) = maxs g /\
  used (remove_data g (hd O P)) = used g - Z.of_nat (length P).
Proof. intros R. destruct (prep_links _ _ _ _ _ _ _ R) as (Hne & Hnd & Hl & Hlen).
  destruct (free_chain g P Hne Hnd Hl ltac:(lia)) as (A & B & C & D).
  set (g' := remove_data g (hd O P)) in *. split; [|split; auto].
  pose proof (pNoDup _ _ _ _ _ _ _ R) as ND. pose proof (NoDup_app_disj _ _ ND) as Dis.
  constructor.
  - eapply NoDup_app_l; eauto.
  - intros i Hi. rewrite A. apply (pRange _ _ _ _ _ _ _ R). apply in_or_app; auto.
  - intros i Hi Hn. rewrite A in Hi. rewrite D. destruct (inl i P) eqn:E.
    + destruct (getS g i); reflexivity.
    + apply (pFree _ _ _ _ _ _ _ R); auto. apply inl_false in E. rewrite in_app_iff. tauto.
  - intros e He. destruct (pEnt _ _ _ _ _ _ _ R e He) as (Hok & Hv & Hh). split; [|split; auto; rewrite A; auto].
    apply (ent_ok_frame g g' lay lay e); auto. intros i Hi. rewrite D.
    assert (~ In i P) by (apply Dis, in_allidx; eauto). apply inl_false in H. rewrite H. reflexivity.
  - apply (pLead _ _ _ _ _ _ _ R).
  - apply (pKeys _ _ _ _ _ _ _ R).
  - rewrite C, (pUsed _ _ _ _ _ _ _ R). lia.
  - rewrite B, (pNum _ _ _ _ _ _ _ R). lia.
Qed.

(* one more extension block *)
Lemma prep_step lay k h cv P done g t piece :
  PRep lay k h cv P done g -> (t < maxs g)%nat -> cnt (getS g t) = 0 -> piece <> [] ->
  let prev := last P O in
  let g1 := setS g t (mk (-2) prev (length piece) (-1) None piece) in
  let g2 := setS g1 prev (with_lnk (getS g1 prev) (Z.of_nat t)) in
  PRep lay k h cv (P ++ [t]) (done ++ [piece]) (bump g2 1 0).
Proof.
  intros R Ht Hc Hp prev g1 g2.
  destruct (prep_links _ _ _ _ _ _ _ R) as (Hne & HndP & _ & _).
  pose proof (pNoDup _ _ _ _ _ _ _ R) as ND. pose proof (NoDup_app_disj _ _ ND) as Dis.
  pose proof (pChain _ _ _ _ _ _ _ R) as C.
  destruct P as [|i0 r]; [contradiction|]. destruct done as [|c0 cs]; [contradiction|].
  assert (Hprev: prev = last r i0) by (unfold prev; apply last_cons).
  assert (HprevP: In prev (i0 :: r)).
  { rewrite Hprev. destruct r as [|x r']; [left; reflexivity|]. right. apply last_in. discriminate. }
  (* t is fresh: every slot of lay and of P is occupied *)
  assert (Htfresh: ~ In t (allidx lay ++ i0 :: r)).
  { intros Hin. apply in_app_iff in Hin as [Hin|Hin].
    - apply in_allidx in Hin as (e & He & Hie). destruct (pEnt _ _ _ _ _ _ _ R e He) as (Hok & _ & _).
      unfold ent_ok in Hok. destruct (ei e) as [|a ra] eqn:Ei; [contradiction|]. destruct (chunks (ev e)); [contradiction|].
      destruct Hok as (_ & _ & _ & _ & _ & F & X). destruct Hie as [<-|Hie].
      + rewrite Hc in F. destruct (Nat.eqb a (home (ek e))); [|lia].
        assert (0 < count_home lay (home (ek e)))%nat by (apply count_home_pos; auto). lia.
      + rewrite (ext_ok_cnt _ _ _ _ _ X Hie) in Hc. lia.
    - destruct C as (_ & _ & _ & _ & Fc & _ & X). destruct Hin as [<-|Hin].
      + rewrite Hc in Fc. apply (pCv _ _ _ _ _ _ _ R). auto.
      + rewrite (ext_ok_cnt _ _ _ _ _ X Hin) in Hc. lia. }
  assert (Htprev: t <> prev) by (intros ->; apply Htfresh, in_or_app; auto).
  assert (G2: forall y, getS (bump g2 1 0) y = if Nat.eqb y prev then with_lnk (getS g prev) (Z.of_nat t)
                                            else if Nat.eqb y t then mk (-2) prev (length piece) (-1) None piece else getS g y).
  { intros y. rewrite getS_bump. unfold g2. destruct (Nat.eqb y prev) eqn:E1.
    - apply Nat.eqb_eq in E1; subst y. rewrite getS_setS_same. unfold g1. rewrite getS_setS_other; auto.
    - apply Nat.eqb_neq in E1. rewrite getS_setS_other by auto. unfold g1. destruct (Nat.eqb y t) eqn:E2.
      + apply Nat.eqb_eq in E2; subst y. apply getS_setS_same.
      + apply Nat.eqb_neq in E2. apply getS_setS_other; auto. }
  assert (Gother: forall y, y <> prev -> y <> t -> getS (bump g2 1 0) y = getS g y).
  { intros y H1 H2. rewrite G2. apply Nat.eqb_neq in H1, H2. rewrite H1, H2. reflexivity. }
  constructor.
  - rewrite app_assoc. apply NoDup_app_intro; auto; [constructor; [intros []|constructor]|].
    intros x Hx [<-|[]]. contradiction.
  - intros i Hi. cbn [maxs bump]. unfold g2, g1. rewrite !maxs_setS. rewrite app_assoc in Hi. apply in_app_iff in Hi as [Hi|[<-|[]]]; auto.
    apply (pRange _ _ _ _ _ _ _ R); auto.
  - intros i Hi Hn. rewrite app_assoc in Hn. rewrite Gother.
    + apply (pFree _ _ _ _ _ _ _ R); auto. intros Hin. apply Hn, in_or_app; auto.
    + intros ->. apply Hn. apply in_or_app; left. apply in_or_app; auto.
    + intros ->. apply Hn. apply in_or_app; right; left; auto.
  - intros e He. destruct (pEnt _ _ _ _ _ _ _ R e He) as (Hok & Hv & Hh). split; [|split; auto].
    apply (ent_ok_frame g (bump g2 1 0) lay lay e); auto. intros i Hi. apply Gother.
    + intros ->. apply (Dis prev); auto. apply in_allidx; eauto.
    + intros ->. apply Htfresh, in_or_app; left. apply in_allidx; eauto.
  - apply (pLead _ _ _ _ _ _ _ R).
  - apply (pKeys _ _ _ _ _ _ _ R).
  - cbn [app]. destruct C as (Ck & Ch & Cd & Cdat & Cc & Cl & Cx).
    assert (Hi0t: i0 <> t) by (intros ->; apply Htfresh, in_or_app; right; left; auto).
    destruct r as [|x r'].
    + (* the head is the last block *)
      cbn [last] in Hprev. subst prev. rewrite Hprev in *. rewrite G2, Nat.eqb_refl. destruct (getS g i0) eqn:E0; cbn in *.
      split; [exact Ck|]. split; [exact Ch|]. split; [exact Cd|]. split; [exact Cdat|]. split; [exact Cc|]. split; [reflexivity|].
      destruct cs; [|contradiction]. cbn. rewrite G2. apply Nat.eqb_neq in Hi0t. rewrite Nat.eqb_sym in Hi0t. rewrite Hi0t, Nat.eqb_refl. cbn.
      repeat split; auto.
    + assert (Hi0p: i0 <> prev).
      { rewrite Hprev. intros Heq. inversion HndP; subst. apply H1. rewrite Heq. apply last_in. discriminate. }
      rewrite Gother; auto.
      split; [exact Ck|]. split; [exact Ch|]. split; [exact Cd|]. split; [exact Cdat|]. split; [exact Cc|]. split; [exact Cl|].
      apply (ext_ok_snoc g (bump g2 1 0) (x :: r') i0 cs t piece); auto.
      * intros Hin. apply Htfresh, in_or_app; auto.
      * intros y Hy Hyl. apply Gother; [rewrite Hprev; exact Hyl|]. intros ->. apply Htfresh, in_or_app; right; right; auto.
      * intros _. rewrite <- Hprev. rewrite G2, Nat.eqb_refl. reflexivity.
      * rewrite <- Hprev. rewrite G2. apply Nat.eqb_neq in Htprev. rewrite Htprev, Nat.eqb_refl. reflexivity.
  - apply (pCv _ _ _ _ _ _ _ R).
  - cbn [used bump]. unfold g2, g1. cbn [used setS]. rewrite (pUsed _ _ _ _ _ _ _ R), !app_length. cbn [length]. lia.
  - cbn [num bump]. unfold g2, g1. cbn [num setS]. rewrite (pNum _ _ _ _ _ _ _ R). lia.
Qed.

Lemma hd_app_nonempty (P Q:list nat) : P <> [] -> hd O (P ++ Q) = hd O P.
Proof. destruct P; [congruence|reflexivity]. Qed.
Lemma last_snoc (P:list nat) t d : last (P ++ [t]) d = t.
Proof. apply last_last. Qed.

(* the extension loop: succeeds exactly when enough slots are free; otherwise the table is restored *)
Lemma put_ext_spec lay k h cv : forall fuel rest g P done,
  PRep lay k h cv P done g -> (0 < maxs g)%nat -> Z.of_nat (maxs g) - used g < Z.of_nat fuel ->
  let '(g', ok) := put_ext fuel g (hd O P) (last P O) rest in
  maxs g' = maxs g /\
  (ok = true -> exists P', PRep lay k h cv (P ++ P') (done ++ chunks_ext (length rest) rest) g' /\
                         used g' = used g + Z.of_nat (length P')) /\
  (ok = false -> Rep lay g' /\ used g' = used g - Z.of_nat (length P)) /\
  (ok = true <-> Z.of_nat (length (chunks_ext (length rest) rest)) <= Z.of_nat (maxs g) - used g).
Proof.
  induction fuel as [|f IH]; intros rest g P done R Hm Hfuel.
  - pose proof (prep_used_le _ _ _ _ _ _ _ R). lia.
  - destruct rest as [|b rest'] eqn:Er.
    + cbn [put_ext]. split; [reflexivity|]. split; [|split].
      * intros _. exists []. rewrite !app_nil_r. cbn. split; [exact R|lia].
      * discriminate.
      * cbn. pose proof (prep_used_le _ _ _ _ _ _ _ R). split; [lia|reflexivity].
    + rewrite <- Er in *. assert (Hrest: rest <> []) by (rewrite Er; discriminate).
      assert (put_ext (S f) g (hd O P) (last P O) rest =
              match find_avail g (S (last P O)) with
              | None => (remove_data g (hd O P), false)
              | Some t => let piece := firstn EXTSZ rest in
                          let g1 := setS g t (mk (-2) (last P O) (length piece) (-1) None piece) in
                          let g2 := setS g1 (last P O) (with_lnk (getS g1 (last P O)) (Z.of_nat t)) in
                          put_ext f (bump g2 1 0) (hd O P) t (skipn EXTSZ rest) end) as Eq by (rewrite Er; reflexivity).
      rewrite Eq; clear Eq.
      pose proof (chunks_ext_cons rest Hrest) as Hch.
      destruct (find_avail g (S (last P O))) as [t|] eqn:Ef.
      * apply find_avail_some in Ef as [Htm Htc].
        assert (Hpiece: firstn EXTSZ rest <> []) by (apply firstn_nonempty; auto; unfold EXTSZ, Consts.HARR_EXTSZ; lia).
        pose proof (prep_step lay k h cv P done g t (firstn EXTSZ rest) R Htm Htc Hpiece) as R'. cbv zeta in R'. cbv zeta.
        set (g3 := bump (setS (setS g t (mk (-2) (last P O) (length (firstn EXTSZ rest)) (-1) None (firstn EXTSZ rest))) (last P O)
                      (with_lnk (getS (setS g t (mk (-2) (last P O) (length (firstn EXTSZ rest)) (-1) None (firstn EXTSZ rest))) (last P O)) (Z.of_nat t))) 1 0) in *.
        cbv zeta.
        destruct (prep_links _ _ _ _ _ _ _ R) as (Hne & _).
        assert (M3: maxs g3 = maxs g) by reflexivity. assert (U3: used g3 = used g + 1) by reflexivity.
        specialize (IH (skipn EXTSZ rest) g3 (P ++ [t]) (done ++ [firstn EXTSZ rest]) R' ltac:(rewrite M3; auto) ltac:(rewrite M3, U3; lia)).
        rewrite hd_app_nonempty, last_snoc in IH by auto.
        destruct (put_ext f g3 (hd O P) t (skipn EXTSZ rest)) as [g' ok]. cbv beta iota in IH.
        destruct IH as (A & B & C & D). split; [rewrite A; exact M3|]. split; [|split].
        -- intros Hok. destruct (B Hok) as (P' & RP & UP). exists (t :: P'). 
           rewrite <- app_assoc in RP. cbn [app] in RP. rewrite Hch. rewrite <- app_assoc in RP. cbn [app] in RP.
           split; [exact RP|]. rewrite UP, U3. cbn [length]. lia.
        -- intros Hok. destruct (C Hok) as (RR & UU). split; [exact RR|]. rewrite UU, U3, app_length. cbn [length]. lia.
        -- rewrite D, Hch, M3, U3. cbn [length]. lia.
      * destruct (prep_rollback _ _ _ _ _ _ _ R) as (RR & MM & UU). split; [exact MM|]. split; [|split].
        -- discriminate.
        -- intros _. split; auto.
        -- pose proof (prep_full _ _ _ _ _ _ _ R Hm (find_avail_none g _ Hm Ef)) as Hfull.
           rewrite Hch. cbn [length]. split; [discriminate|lia].
Qed.

Lemma rep_occupied lay g i : Rep lay g -> In i (allidx lay) -> cnt (getS g i) <> 0.
Proof. intros R Hin Hc. apply in_allidx in Hin as (e & He & Hie). destruct (rEnt _ _ R e He) as (Hok & _ & _).
  unfold ent_ok in Hok. destruct (ei e) as [|a ra] eqn:Ei; [contradiction|]. destruct (chunks (ev e)); [contradiction|].
  destruct Hok as (_ & _ & _ & _ & _ & F & X). destruct Hie as [<-|Hie].
  - rewrite Hc in F. destruct (Nat.eqb a (home (ek e))); [|lia].
    assert (0 < count_home lay (home (ek e)))%nat by (apply count_home_pos; auto). lia.
  - rewrite (ext_ok_cnt _ _ _ _ _ X Hie) in Hc. lia. Qed.

Lemma put_data_spec lay g idx k v cv :
  Rep lay g -> (idx < maxs g)%nat -> cnt (getS g idx) = 0 -> v <> [] -> cv <> 0 ->
  let '(g', ok) := put_data g idx (home k) k v cv in
  maxs g' = maxs g /\
  (ok = true -> exists P', PRep lay k (home k) cv (idx :: P') (chunks v) g' /\ used g' = used g + Z.of_nat (S (length P'))) /\
  (ok = false -> Rep lay g' /\ used g' = used g) /\
  (ok = true <-> Z.of_nat (length (chunks v)) <= Z.of_nat (maxs g) - used g).
Proof.
  intros R Hi Hc Hv Hcv. unfold put_data.
  set (piece := firstn DATASZ v). set (g2 := bump (setS g idx (mk cv (home k) (length piece) (-1) (Some k) piece)) 1 1).
  assert (Hfresh: ~ In idx (allidx lay)) by (intros Hin; exact (rep_occupied _ _ _ R Hin Hc)).
  assert (G2: forall y, y <> idx -> getS g2 y = getS g y) by (intros y Hy; unfold g2; rewrite getS_bump; apply getS_setS_other; auto).
  assert (R2: PRep lay k (home k) cv [idx] [piece] g2).
  { constructor.
    - apply NoDup_app_intro; [apply (rNoDup _ _ R) | constructor; [intros []|constructor] |]. intros x Hx [<-|[]]. contradiction.
    - intros i Hin. apply in_app_iff in Hin as [Hin|[<-|[]]]; [apply (rRange _ _ R); auto|exact Hi].
    - intros i Hin Hn. rewrite G2; [apply (rFree _ _ R); auto; intros H; apply Hn, in_or_app; auto|].
      intros ->. apply Hn, in_or_app; right; left; auto.
    - intros e He. destruct (rEnt _ _ R e He) as (Hok & Hv' & Hh). split; [|split; auto].
      apply (ent_ok_frame g g2 lay lay e); auto. intros i Hie. apply G2. intros ->. apply Hfresh, in_allidx; eauto.
    - apply (rLead _ _ R).
    - apply (rKeys _ _ R).
    - unfold g2. rewrite getS_bump, getS_setS_same. cbn. repeat split; auto.
    - exact Hcv.
    - unfold g2. cbn [used bump setS]. rewrite (rUsed _ _ R). cbn [length]. lia.
    - unfold g2. cbn [num bump setS]. rewrite (rNum _ _ R). lia. }
  assert (Hm: (0 < maxs g2)%nat) by (unfold g2; cbn [maxs bump setS]; lia).
  assert (U2: used g2 = used g + 1) by reflexivity. assert (M2: maxs g2 = maxs g) by reflexivity.
  pose proof (rUsed _ _ R) as HU.
  pose proof (put_ext_spec lay k (home k) cv (S (maxs g)) (skipn DATASZ v) g2 [idx] [piece] R2 Hm ltac:(rewrite M2, U2; lia)) as HS.
  cbn [hd last] in HS. destruct (put_ext (S (maxs g)) g2 idx idx (skipn DATASZ v)) as [g' ok].
  destruct HS as (A & B & C & D).
  assert (Ech: chunks v = piece :: chunks_ext (length (skipn DATASZ v)) (skipn DATASZ v)).
  { unfold chunks. fold piece. f_equal. apply chunks_ext_fuel; rewrite ?skipn_length; lia. }
  split; [rewrite A; exact M2|]. split; [|split].
  - intros Hok. destruct (B Hok) as (P' & RP & UP). exists P'. rewrite Ech. cbn [app] in RP. split; [exact RP|]. rewrite UP, U2. lia.
  - intros Hok. destruct (C Hok) as (RR & UU). split; [exact RR|]. rewrite UU, U2. cbn [length]. lia.
  - rewrite D, Ech, M2, U2. cbn [length]. lia.
Qed.

(* ================= completing a put ================= *)
Lemma count_home_snoc lay e h : count_home (lay ++ [e]) h = (count_home lay h + (if Nat.eqb (home (ek e)) h then 1 else 0))%nat.
Proof. rewrite count_home_app, count_home_cons. assert (count_home [] h = O) by reflexivity. rewrite H. destruct (Nat.eqb (home (ek e)) h); lia. Qed.
Lemma allidx_snoc lay e : allidx (lay ++ [e]) = allidx lay ++ ei e.
Proof. rewrite allidx_app, allidx_cons. unfold allidx at 2. cbn. now rewrite app_nil_r. Qed.

(* new key stored in its own (previously empty) home slot *)
Lemma prep_finish_leader lay k v P g :
  PRep lay k (home k) 1 P (chunks v) g -> hd O P = home k -> count_home lay (home k) = O ->
  ~ In k (map ek lay) -> v <> [] -> (home k < maxs g)%nat ->
  Rep (lay ++ [mkent k v P]) g.
Proof.
  intros R Hhd Hc Hk Hv Hh. set (en := mkent k v P).
  pose proof (pChain _ _ _ _ _ _ _ R) as C. destruct P as [|i0 r] eqn:EP; [contradiction|]. cbn in Hhd. subst i0.
  constructor.
  - rewrite allidx_snoc. apply (pNoDup _ _ _ _ _ _ _ R).
  - intros i Hi. rewrite allidx_snoc in Hi. apply (pRange _ _ _ _ _ _ _ R); auto.
  - intros i Hi Hn. rewrite allidx_snoc in Hn. apply (pFree _ _ _ _ _ _ _ R); auto.
  - intros e He. apply in_app_iff in He as [He|[<-|[]]].
    + destruct (pEnt _ _ _ _ _ _ _ R e He) as (Hok & Hv' & Hh'). split; [|split; auto].
      apply (ent_ok_frame g g lay (lay ++ [en]) e); auto. intros _. rewrite count_home_snoc. cbn [ek en].
      destruct (Nat.eqb (home k) (home (ek e))) eqn:E; [|lia]. apply Nat.eqb_eq in E.
      assert (0 < count_home lay (home (ek e)))%nat by (apply count_home_pos; auto). rewrite <- E in H. lia.
    + split; [|split; auto]. unfold ent_ok. cbn [ei ek ev en]. destruct (chunks v) as [|c0 cs]; [contradiction|].
      destruct C as (A & B & C1 & D & E & F & G).
      split; [exact A|]. split; [exact B|]. split; [exact C1|]. split; [exact D|]. split; [exact F|]. split; [|exact G].
      rewrite Nat.eqb_refl, count_home_snoc, Hc. cbn [ek en]. rewrite Nat.eqb_refl. exact E.
  - intros e He. apply in_app_iff in He as [He|[<-|[]]].
    + destruct (pLead _ _ _ _ _ _ _ R e He) as (e' & He' & A & B). exists e'. split; [apply in_or_app; auto|auto].
    + exists en. split; [apply in_or_app; right; left; auto|]. cbn. auto.
  - rewrite map_app. cbn [map ek en]. apply NoDup_app_intro; [apply (pKeys _ _ _ _ _ _ _ R)|constructor; [intros []|constructor]|].
    intros x Hx [<-|[]]. contradiction.
  - rewrite allidx_snoc, app_length. cbn [ei en]. apply (pUsed _ _ _ _ _ _ _ R).
  - rewrite app_length. cbn [length]. rewrite (pNum _ _ _ _ _ _ _ R). lia.
Qed.

(* new key stored away from home; the leader's counter is incremented afterwards *)
Lemma prep_finish_collision lay k v P g :
  PRep lay k (home k) (-1) P (chunks v) g -> hd O P <> home k -> (0 < count_home lay (home k))%nat ->
  ~ In k (map ek lay) -> v <> [] -> (home k < maxs g)%nat ->
  Rep (lay ++ [mkent k v P]) (setS g (home k) (with_cnt (getS g (home k)) (cnt (getS g (home k)) + 1))).
Proof.
  intros R Hhd Hc Hk Hv Hh. set (en := mkent k v P). set (h := home k) in *.
  set (g' := setS g h (with_cnt (getS g h) (cnt (getS g h) + 1))).
  pose proof (pChain _ _ _ _ _ _ _ R) as C. destruct P as [|i0 r] eqn:EP; [contradiction|]. cbn in Hhd.
  pose proof (pNoDup _ _ _ _ _ _ _ R) as ND. pose proof (NoDup_app_disj _ _ ND) as Dis.
  (* the leader of home h *)
  destruct (count_home_ex _ _ Hc) as (e0 & He0 & Hh0).
  destruct (pLead _ _ _ _ _ _ _ R e0 He0) as (el & Hel & Hhl & Hhdl). rewrite Hh0 in Hhl, Hhdl.
  assert (Hne_l: ei el <> []).
  { destruct (pEnt _ _ _ _ _ _ _ R el Hel) as (Hok & _). unfold ent_ok in Hok. destruct (ei el); [contradiction|discriminate]. }
  assert (HhIn: In h (allidx lay)) by (apply in_allidx; exists el; split; auto; rewrite <- Hhdl; apply head_in; auto).
  assert (HhP: ~ In h (i0 :: r)) by (apply Dis; auto).
  assert (Gother: forall y, y <> h -> getS g' y = getS g y) by (intros; unfold g'; apply getS_setS_other; auto).
  (* old leader count *)
  assert (Hlc: cnt (getS g h) = Z.of_nat (count_home lay h)).
  { destruct (pEnt _ _ _ _ _ _ _ R el Hel) as (Hok & _). unfold ent_ok in Hok. destruct (ei el) as [|a ra]; [contradiction|].
    destruct (chunks (ev el)); [contradiction|]. cbn in Hhdl. subst a. destruct Hok as (_ & _ & _ & _ & _ & F & _).
    rewrite Hhl, Nat.eqb_refl in F. exact F. }
  constructor.
  - rewrite allidx_snoc. exact ND.
  - intros i Hi. rewrite allidx_snoc in Hi. unfold g'. rewrite maxs_setS. apply (pRange _ _ _ _ _ _ _ R); auto.
  - intros i Hi Hn. rewrite allidx_snoc in Hn. unfold g' in Hi. rewrite maxs_setS in Hi. rewrite Gother.
    + apply (pFree _ _ _ _ _ _ _ R); auto.
    + intros ->. apply Hn, in_or_app; auto.
  - intros e He. apply in_app_iff in He as [He|[<-|[]]].
    + destruct (pEnt _ _ _ _ _ _ _ R e He) as (Hok & Hv' & Hh'). split; [|split; auto].
      destruct (Nat.eq_dec (hd O (ei e)) h) as [Hhe|Hhe].
      * (* e's head is slot h: e is the leader of home h *)
        assert (Hee: home (ek e) = h).
        { unfold ent_ok in Hok. destruct (ei e) as [|a ra] eqn:Ei; [contradiction|]. destruct (chunks (ev e)); [contradiction|]. cbn in Hhe. subst a.
          destruct Hok as (_ & _ & _ & _ & _ & F & _). rewrite Hlc in F. destruct (Nat.eqb h (home (ek e))) eqn:E; [apply Nat.eqb_eq in E; auto|lia]. }
        apply (ent_ok_frame2 g g' lay (lay ++ [en]) e); auto.
        -- intros i Hi. apply Gother. intros ->.
           assert (NoDup (ei e)).
           { apply in_split in He as (a & b & ->). rewrite allidx_app, allidx_cons in ND. apply NoDup_app_l in ND. apply NoDup_app_r in ND. apply NoDup_app_l in ND. exact ND. }
           destruct (ei e) as [|x rx]; [contradiction|]. cbn in Hhe, Hi. subst x. inversion H; subst. contradiction.
        -- rewrite Hhe, Hee, Nat.eqb_refl. unfold g'. rewrite getS_setS_same. f_equal. rewrite count_home_snoc. cbn [ek en]. fold h. rewrite Nat.eqb_refl. rewrite Hlc. lia.
      * apply (ent_ok_frame2 g g' lay (lay ++ [en]) e); auto.
        -- intros i Hi. apply Gother. intros ->.
           (* h is a head slot (of the leader); it cannot be an ext slot of e *)
           unfold ent_ok in Hok. destruct (ei e) as [|a ra] eqn:Ei; [contradiction|]. destruct (chunks (ev e)); [contradiction|]. cbn in Hi.
           destruct Hok as (_ & _ & _ & _ & _ & _ & X). pose proof (ext_ok_cnt _ _ _ _ _ X Hi) as Hc2. rewrite Hlc in Hc2. lia.
        -- rewrite Gother by auto.
           unfold ent_ok in Hok. destruct (ei e) as [|a ra] eqn:Ei; [contradiction|]. destruct (chunks (ev e)); [contradiction|]. cbn [hd] in *.
           destruct Hok as (_ & _ & _ & _ & _ & F & _).
           destruct (Nat.eqb a (home (ek e))) eqn:E0.
           ++ apply Nat.eqb_eq in E0. rewrite count_home_snoc. cbn [ek en]. fold h.
              destruct (Nat.eqb h (home (ek e))) eqn:E1; [apply Nat.eqb_eq in E1; congruence|]. rewrite Nat.add_0_r, <- F. symmetry. apply with_cnt_id.
           ++ rewrite <- F. symmetry. apply with_cnt_id.
    + split; [|split; auto]. unfold ent_ok. cbn [ei ek ev en]. destruct (chunks v) as [|c0 cs]; [contradiction|].
      destruct C as (A & B & C1 & D & E & F & G). assert (i0 <> h) by (intros ->; apply HhP; left; auto).
      rewrite Gother by auto.
      split; [exact A|]. split; [exact B|]. split; [exact C1|]. split; [exact D|]. split; [exact F|]. split.
      * fold h. apply Nat.eqb_neq in Hhd. rewrite Hhd. exact E.
      * apply (ext_ok_frame g g' r i0 cs); auto. intros y Hy. apply Gother. intros ->. apply HhP. right; auto.
  - intros e He. apply in_app_iff in He as [He|[<-|[]]].
    + destruct (pLead _ _ _ _ _ _ _ R e He) as (e' & He' & A & B). exists e'. split; [apply in_or_app; auto|auto].
    + exists el. split; [apply in_or_app; auto|]. cbn [ek en]. auto.
  - rewrite map_app. cbn [map ek en]. apply NoDup_app_intro; [apply (pKeys _ _ _ _ _ _ _ R)|constructor; [intros []|constructor]|].
    intros x Hx [<-|[]]. contradiction.
  - unfold g'. cbn [used setS]. rewrite allidx_snoc, app_length. cbn [ei en]. apply (pUsed _ _ _ _ _ _ _ R).
  - unfold g'. cbn [num setS]. rewrite app_length. cbn [length]. rewrite (pNum _ _ _ _ _ _ _ R). lia.
Qed.

(* ================= relocation of a foreign block (put, third case) ================= *)
Lemma with_lnk_fields s l : cnt (with_lnk s l) = cnt s /\ dsz (with_lnk s l) = dsz s /\ dat (with_lnk s l) = dat s /\ hsh (with_lnk s l) = hsh s /\ key (with_lnk s l) = key s /\ lnk (with_lnk s l) = l.
Proof. destruct s; cbn; repeat split; reflexivity. Qed.

Lemma nxt_of_app_cons (a:list nat) x y b : a <> [] -> nxt_of (a ++ x :: b) = nxt_of (a ++ y :: b).
Proof. destruct a; [congruence|reflexivity]. Qed.

Lemma ext_ok_replace g g' : forall a prev b cs h i,
  ext_ok g prev (a ++ h :: b) cs -> NoDup (prev :: a ++ h :: b) -> ~ In i (prev :: a ++ h :: b) ->
  getS g' i = getS g h ->
  (forall x, hd_error b = Some x -> getS g' x = with_hsh (getS g x) i) ->
  (a <> [] -> getS g' (last a prev) = with_lnk (getS g (last a prev)) (Z.of_nat i)) ->
  (forall y, In y a -> y <> last a prev -> getS g' y = getS g y) ->
  (forall y, In y (tl b) -> getS g' y = getS g y) ->
  ext_ok g' prev (a ++ i :: b) cs.
Proof. induction a as [|x a IH]; intros prev b cs h i H Hnd Hi Hcopy Hsucc Hpred Ha Hb.
  - cbn [app] in *. destruct cs as [|c cs]; [contradiction|]. cbn in H. destruct H as (A & B & C & D & E & F & G).
    cbn [ext_ok]. rewrite Hcopy. split; [exact A|]. split; [exact B|]. split; [exact C|]. split; [exact D|]. split; [exact E|]. split; [exact F|].
    apply (ext_ok_rehead g g' b h i cs); auto.
  - cbn [app] in *. destruct cs as [|c cs]; [contradiction|]. cbn in H. destruct H as (A & B & C & D & E & F & G).
    assert (Hnd2: NoDup (x :: a ++ h :: b)) by (inversion Hnd; auto).
    assert (Hi2: ~ In i (x :: a ++ h :: b)) by (intros Hin; apply Hi; right; auto).
    cbn [ext_ok]. rewrite last_cons in *.
    destruct a as [|x2 a'].
    + cbn [last app] in *. rewrite (Hpred ltac:(discriminate)). destruct (with_lnk_fields (getS g x) (Z.of_nat i)) as (W1 & W2 & W3 & W4 & W5 & W6).
      rewrite W1, W2, W3, W4, W6.
      split; [exact A|]. split; [exact B|]. split; [exact C|]. split; [exact D|]. split; [exact E|]. split; [reflexivity|].
      apply (IH x b cs h i); auto; try (intros Hne; exfalso; apply Hne; reflexivity); try (intros y []).
    + assert (Hxl: x <> last (x2 :: a') x).
      { intros Heq. apply NoDup_cons_iff in Hnd2 as [Hx1 _]. apply Hx1. change (x2 :: a' ++ h :: b) with ((x2 :: a') ++ h :: b). apply in_or_app; left. rewrite Heq at 1. apply last_in. discriminate. }
      rewrite (Ha x (or_introl eq_refl) Hxl).
      split; [exact A|]. split; [exact B|]. split; [exact C|]. split; [exact D|]. split; [exact E|].
      split; [rewrite F; apply nxt_of_app_cons; discriminate|].
      apply (IH x b cs h i); auto.
      * intros _. apply Hpred. discriminate.
      * intros y Hy Hyl. apply Ha; [right; auto|exact Hyl].
Qed.

(* generic: one entry changes its slot list (same key and value), all other entries' slots untouched *)
Lemma rep_replace_entry m1 ef ef' m2 g g' :
  Rep (m1 ++ ef :: m2) g -> ek ef' = ek ef -> ev ef' = ev ef ->
  maxs g' = maxs g -> num g' = num g -> used g' = Z.of_nat (length (allidx (m1 ++ ef' :: m2))) ->
  NoDup (allidx (m1 ++ ef' :: m2)) ->
  (forall y, In y (allidx (m1 ++ ef' :: m2)) -> (y < maxs g)%nat) ->
  (forall y, (y < maxs g)%nat -> ~ In y (allidx (m1 ++ ef' :: m2)) -> cnt (getS g' y) = 0) ->
  (forall e, In e (m1 ++ m2) -> forall y, In y (ei e) -> getS g' y = getS g y) ->
  ent_ok g' (m1 ++ ef' :: m2) ef' ->
  (hd O (ei ef) = home (ek ef) -> hd O (ei ef') = home (ek ef)) ->
  Rep (m1 ++ ef' :: m2) g'.
Proof.
  intros R Hk Hv Hm Hn Hu Hnd Hr Hf Hoth Hok Hld.
  assert (Hkeys: map ek (m1 ++ ef' :: m2) = map ek (m1 ++ ef :: m2)) by (rewrite !map_app; cbn [map]; rewrite Hk; reflexivity).
  assert (Hcnt: forall x, count_home (m1 ++ ef' :: m2) x = count_home (m1 ++ ef :: m2) x) by (intros; apply count_home_keys; auto).
  constructor; auto.
  - intros y Hy. rewrite Hm. auto.
  - intros y Hy. rewrite Hm in Hy. auto.
  - intros e He. apply in_app_iff in He as [He|[<-|He]].
    + assert (He': In e (m1 ++ ef :: m2)) by (apply in_or_app; auto).
      destruct (rEnt _ _ R e He') as (Hok' & Hv' & Hh'). split; [|split; auto; rewrite Hm; auto].
      apply (ent_ok_frame g g' (m1 ++ ef :: m2) (m1 ++ ef' :: m2) e); auto. intros y Hy. apply (Hoth e); auto. apply in_or_app; auto.
    + assert (He': In ef (m1 ++ ef :: m2)) by (apply in_or_app; right; left; auto).
      destruct (rEnt _ _ R ef He') as (_ & Hv' & Hh'). split; [exact Hok|]. rewrite Hv, Hk, Hm. auto.
    + assert (He': In e (m1 ++ ef :: m2)) by (apply in_or_app; right; right; auto).
      destruct (rEnt _ _ R e He') as (Hok' & Hv' & Hh'). split; [|split; auto; rewrite Hm; auto].
      apply (ent_ok_frame g g' (m1 ++ ef :: m2) (m1 ++ ef' :: m2) e); auto. intros y Hy. apply (Hoth e); auto. apply in_or_app; auto.
  - intros e He.
    assert (Hex: exists e0, In e0 (m1 ++ ef :: m2) /\ home (ek e0) = home (ek e)).
    { apply in_app_iff in He as [He|[<-|He]]; [exists e; split; auto; apply in_or_app; auto | exists ef; split; [apply in_or_app; right; left; auto|congruence] | exists e; split; auto; apply in_or_app; right; right; auto]. }
    destruct Hex as (e0 & He0 & Hh0). destruct (rLead _ _ R e0 He0) as (e' & He' & Hh' & Hhd'). rewrite Hh0 in Hh', Hhd'.
    apply in_app_iff in He' as [He'|[<-|He']].
    + exists e'. split; [apply in_or_app; auto|auto].
    + exists ef'. split; [apply in_or_app; right; left; auto|]. rewrite Hk. split; auto. rewrite <- Hh'. apply Hld. congruence.
    + exists e'. split; [apply in_or_app; right; right; auto|auto].
  - rewrite Hkeys. apply (rKeys _ _ R).
  - rewrite Hn, (rNum _ _ R), !app_length. reflexivity.
Qed.

Lemma ext_ok_at g : forall a prev b cs h, ext_ok g prev (a ++ h :: b) cs ->
  cnt (getS g h) = -2 /\ hsh (getS g h) = last a prev /\ lnk (getS g h) = nxt_of b.
Proof. induction a as [|x a IH]; intros prev b cs h H.
  - cbn [app] in H. destruct cs; [contradiction|]. cbn in H. destruct H as (A & B & _ & _ & _ & F & _). cbn. auto.
  - cbn [app] in H. destruct cs; [contradiction|]. cbn in H. destruct H as (_ & _ & _ & _ & _ & _ & G).
    rewrite last_cons. eapply IH; eauto. Qed.

Definition relocate_img (g:img) (h i:nat) : img :=
  let g1 := copy_slot g i h in
  let g2 := remove_slot g1 h in
  let l := lnk (getS g2 i) in
  let g3 := if Z.eqb l (-1) then g2 else setS g2 (Z.to_nat l) (with_hsh (getS g2 (Z.to_nat l)) i) in
  if Z.eqb (cnt (getS g3 i)) (-2)
  then setS g3 (hsh (getS g3 i)) (with_lnk (getS g3 (hsh (getS g3 i))) (Z.of_nat i)) else g3.


Theorem relocate lay g h i :
  Rep lay g -> (h < maxs g)%nat -> cnt (getS g h) < 0 -> (i < maxs g)%nat -> cnt (getS g i) = 0 ->
  exists lay', Rep lay' (relocate_img g h i) /\ map ek lay' = map ek lay /\ kv lay' = kv lay /\
    cnt (getS (relocate_img g h i) h) = 0 /\ used (relocate_img g h i) = used g /\ maxs (relocate_img g h i) = maxs g /\
    ~ In h (allidx lay').
Proof.
  intros R Hh Hch Hi Hci.
  assert (Hhin: In h (allidx lay)).
  { destruct (in_dec Nat.eq_dec h (allidx lay)); auto. pose proof (rFree _ _ R h Hh n). lia. }
  assert (Hifresh: ~ In i (allidx lay)) by (intros Hin; exact (rep_occupied _ _ _ R Hin Hci)).
  assert (Hih: i <> h) by (intros ->; lia).
  apply in_allidx in Hhin as (ef & Hef & Hhef). apply in_split in Hef as (m1 & m2 & Elay). subst lay.
  assert (Hef: In ef (m1 ++ ef :: m2)) by (apply in_or_app; right; left; auto).
  destruct (rEnt _ _ R ef Hef) as (Hok & Hvf & Hhf).
  pose proof (rNoDup _ _ R) as ND. rewrite allidx_mid in ND.
  destruct (split_facts _ _ _ (rNoDup _ _ R)) as (N' & Nef & Dis & Iff & Len).
  (* first three steps of the image *)
  set (g1 := setS g i (getS g h)). set (g2 := setS g1 h (with_cnt (getS g1 h) 0)).
  assert (Eimg0: relocate_img g h i =
     let l := lnk (getS g2 i) in
     let g3 := if Z.eqb l (-1) then g2 else setS g2 (Z.to_nat l) (with_hsh (getS g2 (Z.to_nat l)) i) in
     if Z.eqb (cnt (getS g3 i)) (-2) then setS g3 (hsh (getS g3 i)) (with_lnk (getS g3 (hsh (getS g3 i))) (Z.of_nat i)) else g3).
  { unfold relocate_img, copy_slot. rewrite Hci. cbn [Z.eqb negb orb].
    destruct (Z.eqb (cnt (getS g h)) 0) eqn:E0; [apply Z.eqb_eq in E0; lia|]. reflexivity. }
  rewrite Eimg0. clear Eimg0. cbv zeta.
  assert (G2: forall y, getS g2 y = if Nat.eqb y h then with_cnt (getS g h) 0 else if Nat.eqb y i then getS g h else getS g y).
  { intros y. unfold g2. destruct (Nat.eqb y h) eqn:E1.
    - apply Nat.eqb_eq in E1; subst y. rewrite getS_setS_same. unfold g1. rewrite getS_setS_other; auto.
    - apply Nat.eqb_neq in E1. rewrite getS_setS_other by auto. unfold g1. destruct (Nat.eqb y i) eqn:E2.
      + apply Nat.eqb_eq in E2; subst y. apply getS_setS_same.
      + apply Nat.eqb_neq in E2. apply getS_setS_other; auto. }
  assert (G2i: getS g2 i = getS g h) by (rewrite G2; apply Nat.eqb_neq in Hih; rewrite Hih, Nat.eqb_refl; reflexivity).
  rewrite G2i.
  unfold ent_ok in Hok. destruct (ei ef) as [|i0 r] eqn:Eif; [contradiction|]. destruct (chunks (ev ef)) as [|c0 cs] eqn:Ech; [contradiction|].
  destruct Hok as (Kf & Hf & Zf & Df & Lf & Cf & Xf).
  destruct Hhef as [<-|Hhr].
  - (* ---------- the moved block is the head of a collision key ---------- *)
    assert (Hcm1: cnt (getS g i0) = -1 /\ i0 <> home (ek ef)).
    { destruct (Nat.eqb i0 (home (ek ef))) eqn:E; [|split; [exact Cf|apply Nat.eqb_neq; auto]]. exfalso. rewrite Cf in Hch. lia. }
    destruct Hcm1 as (Hcm1 & Hnh).
    set (ef' := mkent (ek ef) (ev ef) (i :: r)).
    exists (m1 ++ ef' :: m2).
    assert (Hir: ~ In i r) by (intros Hin; apply Hifresh; rewrite allidx_mid, Eif; apply in_or_app; right; apply in_or_app; left; right; auto).
    assert (Hi0r: ~ In i0 r) by (inversion Nef; auto).
    rewrite Lf.
    set (g3 := if Z.eqb (nxt_of r) (-1) then g2 else setS g2 (Z.to_nat (nxt_of r)) (with_hsh (getS g2 (Z.to_nat (nxt_of r))) i)).
    assert (G3: forall y, getS g3 y = if (match r with x :: _ => Nat.eqb y x | [] => false end) then with_hsh (getS g y) i else getS g2 y).
    { intros y. unfold g3. destruct r as [|x r']; [reflexivity|]. cbn [nxt_of].
      assert (Z.of_nat x =? -1 = false) by (apply Z.eqb_neq; lia). rewrite H, Nat2Z.id.
      destruct (Nat.eqb y x) eqn:E.
      - apply Nat.eqb_eq in E; subst y. rewrite getS_setS_same. f_equal. rewrite G2.
        assert (x <> i0) by (intros ->; apply Hi0r; left; auto). assert (x <> i) by (intros ->; apply Hir; left; auto).
        apply Nat.eqb_neq in H0, H1. rewrite H0, H1. reflexivity.
      - apply Nat.eqb_neq in E. apply getS_setS_other; auto. }
    assert (G3i: getS g3 i = getS g i0).
    { rewrite G3. assert ((match r with x :: _ => Nat.eqb i x | [] => false end) = false) by (destruct r; auto; apply Nat.eqb_neq; intros ->; apply Hir; left; auto).
      rewrite H. exact G2i. }
    rewrite G3i, Hcm1. change (Z.eqb (-1) (-2)) with false. cbv iota.
    assert (M3: maxs g3 = maxs g) by (unfold g3; destruct (Z.eqb (nxt_of r) (-1)); reflexivity).
    assert (U3: used g3 = used g) by (unfold g3; destruct (Z.eqb (nxt_of r) (-1)); reflexivity).
    assert (N3: num g3 = num g) by (unfold g3; destruct (Z.eqb (nxt_of r) (-1)); reflexivity).
    assert (G3h: getS g3 i0 = with_cnt (getS g i0) 0).
    { rewrite G3. assert ((match r with x :: _ => Nat.eqb i0 x | [] => false end) = false) by (destruct r; auto; apply Nat.eqb_neq; intros ->; apply Hi0r; left; auto).
      rewrite H, G2, Nat.eqb_refl. reflexivity. }
    assert (G3o: forall y, y <> i0 -> y <> i -> ~ In y r -> getS g3 y = getS g y).
    { intros y H1 H2 H3. rewrite G3. assert ((match r with x :: _ => Nat.eqb y x | [] => false end) = false) by (destruct r; auto; apply Nat.eqb_neq; intros ->; apply H3; left; auto).
      rewrite H, G2. apply Nat.eqb_neq in H1, H2. rewrite H1, H2. reflexivity. }
    assert (Eidx': allidx (m1 ++ ef' :: m2) = allidx m1 ++ (i :: r) ++ allidx m2) by (rewrite allidx_mid; reflexivity).
    assert (Hin': forall y, In y (allidx (m1 ++ ef' :: m2)) <-> y = i \/ (In y (allidx (m1 ++ ef :: m2)) /\ y <> i0)).
    { intros y. rewrite Eidx', allidx_mid, Eif. rewrite !in_app_iff. cbn [In]. split.
      - intros [?|[[<-|?]|?]]; auto; right; (split; [auto|intros ->]).
        + apply NoDup_app_disj with (x:=i0) in ND; auto. apply ND. apply in_or_app; left; left; auto.
        + auto.
        + apply NoDup_app_r in ND. cbn in ND. inversion ND; subst. apply H2. apply in_or_app; auto.
      - intros [->|[[?|[[<-|?]|?]] Hne0]]; auto. congruence. }
    split; [|split; [rewrite !map_app; reflexivity|split; [unfold kv; rewrite !map_app; reflexivity|split; [rewrite G3h; destruct (getS g i0); reflexivity|split; [exact U3|split; [exact M3|]]]]]].
    2:{ intros Hin. apply Hin' in Hin as [->|[_ Hne0]]; congruence. }
    apply (rep_replace_entry m1 ef ef' m2 g g3); auto.
    + rewrite U3, (rUsed _ _ R). rewrite Eidx', allidx_mid, Eif, !app_length. cbn [length]. reflexivity.
    + rewrite Eidx'. change ((i0 :: r) ++ allidx m2) with (i0 :: (r ++ allidx m2)) in ND.
      change ((i :: r) ++ allidx m2) with (i :: (r ++ allidx m2)). eapply NoDup_replace; eauto.
      rewrite allidx_mid, Eif in Hifresh. exact Hifresh.
    + intros y Hy. apply Hin' in Hy as [->|[Hy _]]; auto. apply (rRange _ _ R); auto.
    + intros y Hy Hn. destruct (Nat.eq_dec y i0) as [->|Hy0]; [rewrite G3h; destruct (getS g i0); reflexivity|].
      assert (Hyi: y <> i) by (intros ->; apply Hn, Hin'; auto).
      assert (Hyn: ~ In y (allidx (m1 ++ ef :: m2))) by (intros Hin; apply Hn, Hin'; auto).
      rewrite G3o; auto; [apply (rFree _ _ R); auto|].
      intros Hyr. apply Hyn. rewrite allidx_mid, Eif. apply in_or_app; right; apply in_or_app; left; right; auto.
    + intros e He y Hy. assert (Hye: ~ In y (i0 :: r)) by (intros Hin; apply (Dis y Hin); apply in_allidx; eauto).
      apply G3o.
      * intros ->. apply Hye; left; auto.
      * intros ->. apply Hifresh. rewrite allidx_mid. apply in_app_iff in He as [He|He]; [apply in_or_app; left|apply in_or_app; right; apply in_or_app; right]; apply in_allidx; eauto.
      * intros Hyr. apply Hye; right; auto.
    + unfold ent_ok. cbn [ei ek ev ef']. rewrite Ech, G3i.
      split; [exact Kf|]. split; [exact Hf|]. split; [exact Zf|]. split; [exact Df|]. split; [exact Lf|]. split.
      * rewrite Hcm1. destruct (Nat.eqb i (home (ek ef))) eqn:E; [|reflexivity]. exfalso. apply Nat.eqb_eq in E.
        destruct (rLead _ _ R ef Hef) as (el & Hel & Hhl & Hhdl).
        apply Hifresh. rewrite E, <- Hhdl. apply in_allidx. exists el. split; auto. apply head_in. eapply ent_nonempty; eauto.
      * apply (ext_ok_rehead g g3 r i0 i cs); auto.
        -- intros y Hy. rewrite G3, G2. destruct r as [|x r']; [contradiction|]. cbn in Hy.
           assert (y <> x) by (intros ->; apply NoDup_cons_iff in Nef as [_ Nr]; apply NoDup_cons_iff in Nr as [Nx _]; contradiction).
           assert (y <> i0) by (intros ->; apply Hi0r; right; auto). assert (y <> i) by (intros ->; apply Hir; right; auto).
           apply Nat.eqb_neq in H, H0, H1. rewrite H, H0, H1. reflexivity.
        -- intros x Hx. destruct r as [|x' r']; [discriminate|]. cbn in Hx. inversion Hx; subst x'. rewrite G3, Nat.eqb_refl. reflexivity.
    + rewrite Eif. cbn [hd]. intros ->. contradiction.
  - (* ---------- the moved block is an extension block ---------- *)
    apply in_split in Hhr as (a & b & Er). subst r.
    destruct (ext_ok_at g a i0 b cs h Xf) as (Hc2 & Hp & Hl).
    set (p := last a i0) in *.
    assert (HpIn: In p (i0 :: a)). { unfold p. destruct a as [|y a']; [left; reflexivity|]. right. apply last_in. discriminate. }
    set (ef' := mkent (ek ef) (ev ef) (i0 :: a ++ i :: b)).
    exists (m1 ++ ef' :: m2).
    assert (Hall: forall y, In y (i0 :: a ++ h :: b) -> y <> i).
    { intros y Hy ->. apply Hifresh. rewrite allidx_mid, Eif. apply in_or_app; right; apply in_or_app; left; exact Hy. }
    assert (Hph: p <> h).
    { intros Heq. apply NoDup_cons_iff in Nef as [Ni0 Nr]. destruct HpIn as [Hp0|Hpa].
      - apply Ni0. rewrite Hp0, Heq. apply in_or_app; right; left; auto.
      - apply NoDup_app_disj with (x:=p) in Nr; auto. apply Nr. left; auto. }
    assert (Hpi: p <> i). { apply Hall. destruct HpIn as [<-|Hpa]; [left; auto|right; apply in_or_app; auto]. }
    assert (Hpb: ~ In p b).
    { intros Hin. apply NoDup_cons_iff in Nef as [Ni0 Nr]. destruct HpIn as [Hp0|Hpa].
      - apply Ni0. rewrite Hp0. apply in_or_app; right; right; auto.
      - apply NoDup_app_disj with (x:=p) in Nr; auto. apply Nr. right; auto. }
    assert (Hhb: ~ In h b). { apply NoDup_cons_iff in Nef as [_ Nr]. apply NoDup_app_r in Nr. apply NoDup_cons_iff in Nr as [X _]. exact X. }
    assert (Hib: ~ In i b). { intros Hin. apply (Hall i); auto. right. apply in_or_app; right; right; auto. }
    rewrite Hl.
    set (g3 := if Z.eqb (nxt_of b) (-1) then g2 else setS g2 (Z.to_nat (nxt_of b)) (with_hsh (getS g2 (Z.to_nat (nxt_of b))) i)).
    assert (G3: forall y, getS g3 y = if (match b with x :: _ => Nat.eqb y x | [] => false end) then with_hsh (getS g y) i else getS g2 y).
    { intros y. unfold g3. destruct b as [|x b']; [reflexivity|]. cbn [nxt_of].
      assert (Z.of_nat x =? -1 = false) by (apply Z.eqb_neq; lia). rewrite H, Nat2Z.id.
      destruct (Nat.eqb y x) eqn:E.
      - apply Nat.eqb_eq in E; subst y. rewrite getS_setS_same. f_equal. rewrite G2.
        assert (x <> h) by (intros ->; apply Hhb; left; auto). assert (x <> i) by (intros ->; apply Hib; left; auto).
        apply Nat.eqb_neq in H0, H1. rewrite H0, H1. reflexivity.
      - apply Nat.eqb_neq in E. apply getS_setS_other; auto. }
    assert (Mb: forall y, ~ In y b -> (match b with x :: _ => Nat.eqb y x | [] => false end) = false).
    { intros y Hy. destruct b; auto. apply Nat.eqb_neq. intros ->. apply Hy; left; auto. }
    assert (G3i: getS g3 i = getS g h) by (rewrite G3, (Mb i Hib); exact G2i).
    rewrite G3i, Hc2, Hp. rewrite Z.eqb_refl.
    assert (G3p: getS g3 p = getS g p).
    { rewrite G3, (Mb p Hpb), G2. apply Nat.eqb_neq in Hph, Hpi. rewrite Hph, Hpi. reflexivity. }
    rewrite G3p.
    set (g4 := setS g3 p (with_lnk (getS g p) (Z.of_nat i))).
    assert (G4: forall y, getS g4 y = if Nat.eqb y p then with_lnk (getS g p) (Z.of_nat i) else getS g3 y).
    { intros y. unfold g4. destruct (Nat.eqb y p) eqn:E; [apply Nat.eqb_eq in E; subst; apply getS_setS_same | apply Nat.eqb_neq in E; apply getS_setS_other; auto]. }
    assert (M4: maxs g4 = maxs g) by (unfold g4, g3; destruct (Z.eqb (nxt_of b) (-1)); reflexivity).
    assert (U4: used g4 = used g) by (unfold g4, g3; destruct (Z.eqb (nxt_of b) (-1)); reflexivity).
    assert (N4: num g4 = num g) by (unfold g4, g3; destruct (Z.eqb (nxt_of b) (-1)); reflexivity).
    assert (G4i: getS g4 i = getS g h) by (rewrite G4; apply Nat.eqb_neq in Hpi; rewrite Nat.eqb_sym in Hpi; rewrite Hpi; exact G3i).
    assert (G4h: getS g4 h = with_cnt (getS g h) 0).
    { rewrite G4. apply Nat.eqb_neq in Hph. rewrite Nat.eqb_sym in Hph. rewrite Hph, G3, (Mb h Hhb), G2, Nat.eqb_refl. reflexivity. }
    assert (G4o: forall y, y <> p -> y <> h -> y <> i -> ~ In y b -> getS g4 y = getS g y).
    { intros y H1 H2 H3 H4. rewrite G4. apply Nat.eqb_neq in H1. rewrite H1, G3, (Mb y H4), G2. apply Nat.eqb_neq in H2, H3. rewrite H2, H3. reflexivity. }
    assert (Eidx': allidx (m1 ++ ef' :: m2) = allidx m1 ++ (i0 :: a ++ i :: b) ++ allidx m2) by (rewrite allidx_mid; reflexivity).
    assert (Hin': forall y, In y (allidx (m1 ++ ef' :: m2)) <-> y = i \/ (In y (allidx (m1 ++ ef :: m2)) /\ y <> h)).
    { intros y. rewrite Eidx', allidx_mid, Eif. rewrite !in_app_iff. cbn [In]. rewrite !in_app_iff. cbn [In]. split.
      - intros [?|[[<-|[?|[<-|?]]]|?]]; auto; right; (split; [tauto|intros ->]).
        + apply NoDup_app_disj with (x:=h) in ND; auto. apply ND. apply in_or_app; left. right. apply in_or_app; right; left; auto.
        + apply NoDup_cons_iff in Nef as [X _]. apply X. apply in_or_app; right; left; auto.
        + apply NoDup_cons_iff in Nef as [_ Nr]. apply NoDup_app_disj with (x:=h) in Nr; auto. apply Nr; left; auto.
        + auto.
        + apply NoDup_app_r in ND. apply NoDup_app_disj with (x:=h) in ND; auto. right. apply in_or_app; right; left; auto.
      - intros [->|[[?|[[<-|[?|[<-|?]]]|?]] Hneh]]; auto 7. congruence. }
    split; [|split; [rewrite !map_app; reflexivity|split; [unfold kv; rewrite !map_app; reflexivity|split; [rewrite G4h; destruct (getS g h); reflexivity|split; [exact U4|split; [exact M4|]]]]]].
    2:{ intros Hin. apply Hin' in Hin as [->|[_ Hneh]]; congruence. }
    apply (rep_replace_entry m1 ef ef' m2 g g4); auto.
    + rewrite U4, (rUsed _ _ R). rewrite Eidx', allidx_mid, Eif, !app_length. cbn [length]. rewrite !app_length. cbn [length]. reflexivity.
    + rewrite Eidx'. 
      assert (E1: allidx m1 ++ (i0 :: a ++ h :: b) ++ allidx m2 = (allidx m1 ++ i0 :: a) ++ h :: (b ++ allidx m2)).
      { rewrite <- !app_assoc. cbn [app]. rewrite <- !app_assoc. reflexivity. }
      assert (E2: allidx m1 ++ (i0 :: a ++ i :: b) ++ allidx m2 = (allidx m1 ++ i0 :: a) ++ i :: (b ++ allidx m2)).
      { rewrite <- !app_assoc. cbn [app]. rewrite <- !app_assoc. reflexivity. }
      rewrite E2. rewrite E1 in ND. eapply NoDup_replace; eauto. rewrite <- E1. rewrite allidx_mid, Eif in Hifresh. exact Hifresh.
    + intros y Hy. apply Hin' in Hy as [->|[Hy _]]; auto. apply (rRange _ _ R); auto.
    + intros y Hy Hn. destruct (Nat.eq_dec y h) as [->|Hyh]; [rewrite G4h; destruct (getS g h); reflexivity|].
      assert (Hyi: y <> i) by (intros ->; apply Hn, Hin'; auto).
      assert (Hyn: ~ In y (allidx (m1 ++ ef :: m2))) by (intros Hin; apply Hn, Hin'; auto).
      assert (Hyr: ~ In y (i0 :: a ++ h :: b)).
      { intros Hin. apply Hyn. rewrite allidx_mid, Eif. apply in_or_app; right; apply in_or_app; left; exact Hin. }
      rewrite G4o; auto; [apply (rFree _ _ R); auto| |].
      * intros ->. apply Hyr. destruct HpIn as [<-|Hpa]; [left; auto|right; apply in_or_app; auto].
      * intros Hyb. apply Hyr. right. apply in_or_app; right; right; auto.
    + intros e He y Hy. assert (Hye: ~ In y (i0 :: a ++ h :: b)) by (intros Hin; apply (Dis y Hin); apply in_allidx; eauto).
      apply G4o.
      * intros ->. apply Hye. destruct HpIn as [<-|Hpa]; [left; auto|right; apply in_or_app; auto].
      * intros ->. apply Hye. right. apply in_or_app; right; left; auto.
      * intros ->. apply Hifresh. rewrite allidx_mid. apply in_app_iff in He as [He|He]; [apply in_or_app; left|apply in_or_app; right; apply in_or_app; right]; apply in_allidx; eauto.
      * intros Hyb. apply Hye. right. apply in_or_app; right; right; auto.
    + (* the moved entry *)
      unfold ent_ok. cbn [ei ek ev ef']. rewrite Ech.
      assert (Hcnt': count_home (m1 ++ ef' :: m2) (home (ek ef)) = count_home (m1 ++ ef :: m2) (home (ek ef))).
      { apply count_home_keys. rewrite !map_app. reflexivity. }
      assert (Hi0h: i0 <> h) by (intros ->; apply NoDup_cons_iff in Nef as [X _]; apply X; apply in_or_app; right; left; auto).
      assert (Hi0i: i0 <> i) by (apply Hall; left; auto).
      assert (Hi0b: ~ In i0 b) by (intros Hin; apply NoDup_cons_iff in Nef as [X _]; apply X; apply in_or_app; right; right; auto).
      assert (Hhead: getS g4 i0 = if Nat.eqb i0 p then with_lnk (getS g i0) (Z.of_nat i) else getS g i0).
      { rewrite G4. destruct (Nat.eqb i0 p) eqn:E; [apply Nat.eqb_eq in E; rewrite <- E; reflexivity|].
        rewrite G3, (Mb i0 Hi0b), G2. apply Nat.eqb_neq in Hi0h, Hi0i. rewrite Hi0h, Hi0i. reflexivity. }
      rewrite Hhead.
      assert (Hlnk: lnk (if Nat.eqb i0 p then with_lnk (getS g i0) (Z.of_nat i) else getS g i0) = nxt_of (a ++ i :: b)).
      { destruct a as [|y a'].
        - unfold p. cbn [last]. rewrite Nat.eqb_refl. destruct (getS g i0); reflexivity.
        - assert (i0 <> p). { unfold p. intros Heq. apply NoDup_cons_iff in Nef as [X _]. apply X. apply in_or_app; left. rewrite Heq at 1. apply last_in. discriminate. }
          apply Nat.eqb_neq in H. rewrite H, Lf. reflexivity. }
      destruct (Nat.eqb i0 p); [destruct (with_lnk_fields (getS g i0) (Z.of_nat i)) as (W1 & W2 & W3 & W4 & W5 & W6); rewrite W1, W2, W3, W4, W5 in *|];
      (split; [exact Kf|]; split; [exact Hf|]; split; [exact Zf|]; split; [exact Df|]; split; [exact Hlnk|]; split; [rewrite Hcnt'; exact Cf|]).
      all: apply (ext_ok_replace g g4 a i0 b cs h i); auto.
      all: try (intros Hin; eapply Hall; eauto; fail).
      all: try (intros x Hx; destruct b as [|x' b']; [discriminate|]; cbn in Hx; inversion Hx; subst x'; rewrite G4;
                assert (x <> p) by (intros ->; apply Hpb; left; auto); apply Nat.eqb_neq in H; rewrite H; rewrite G3, Nat.eqb_refl; reflexivity).
      all: try (intros _; fold p; rewrite G4, Nat.eqb_refl; reflexivity).
      all: try (intros y Hy Hyl; fold p in Hyl; apply G4o; auto;
                [ intros ->; apply NoDup_cons_iff in Nef as [_ Nr]; apply NoDup_app_disj with (x:=h) in Nr; auto; apply Nr; left; auto
                | apply Hall; right; apply in_or_app; auto
                | intros Hyb; apply NoDup_cons_iff in Nef as [_ Nr]; apply NoDup_app_disj with (x:=y) in Nr; auto; apply Nr; right; auto ]).
      all: try (intros y Hy; destruct b as [|x b']; [contradiction|]; cbn in Hy;
                assert (Hyp: y <> p) by (intros ->; apply Hpb; right; auto);
                assert (Hyh: y <> h) by (intros ->; apply Hhb; right; auto);
                assert (Hyi: y <> i) by (intros ->; apply Hib; right; auto);
                assert (Hyx: y <> x) by (intros ->; apply NoDup_cons_iff in Nef as [_ Nr]; apply NoDup_app_r in Nr; apply NoDup_cons_iff in Nr as [_ Nb]; apply NoDup_cons_iff in Nb as [Nx _]; contradiction);
                rewrite G4; apply Nat.eqb_neq in Hyp; rewrite Hyp; rewrite G3; apply Nat.eqb_neq in Hyx; rewrite Hyx; rewrite G2;
                apply Nat.eqb_neq in Hyh, Hyi; rewrite Hyh, Hyi; reflexivity).
    + rewrite Eif. cbn [hd ei ef']. auto.
Qed.

(* ================= put ================= *)
Definition put_noexist (g:img) (k:K) (v:list byte) : img * bool :=
  if Z.leb (Z.of_nat (maxs g)) (used g) then (g, false) else
  let h := home k in
  let c := cnt (getS g h) in
  if Z.eqb c 0 then put_data g h h k v 1
  else if Z.ltb 0 c then
    match find_avail g h with
    | None => (g, false)
    | Some i =>
        let (g1, ok) := put_data g i h k v (-1) in
        if ok then (setS g1 h (with_cnt (getS g1 h) (cnt (getS g1 h) + 1)), true) else (g1, false)
    end
  else
    match find_avail g (S h) with
    | None => (g, false)
    | Some i => put_data (relocate_img g h i) h h k v 1
    end.

Lemma put_absent_eq n g k v : get_idx g k (home k) = None \/ ~ (0 < cnt (getS g (home k))) -> put n g k v = put_noexist g k v.
Proof. intros H. unfold put_noexist. destruct n; cbn [put];
  (destruct (Z.leb (Z.of_nat (maxs g)) (used g)); [reflexivity|]; destruct (Z.eqb (cnt (getS g (home k))) 0); [reflexivity|];
   destruct (Z.ltb 0 (cnt (getS g (home k)))) eqn:E; [|reflexivity];
   destruct H as [H|H]; [rewrite H; reflexivity | apply Z.ltb_lt in E; contradiction]). Qed.

Lemma kv_keys lay lay' : kv lay = kv lay' -> map ek lay = map ek lay'.
Proof. intros H. assert (map fst (kv lay) = map fst (kv lay')) by congruence. unfold kv in H0. rewrite !map_map in H0. exact H0. Qed.

Theorem put_absent lay g k v n :
  Rep lay g -> (forall e, In e lay -> ek e <> k) -> (home k < maxs g)%nat -> v <> [] ->
  let '(g', ok) := put n g k v in
  exists lay', Rep lay' g' /\ maxs g' = maxs g /\
    (ok = true -> kv lay' = kv lay ++ [(k, v)]) /\ (ok = false -> kv lay' = kv lay) /\
    (ok = true <-> used g < Z.of_nat (maxs g) /\ Z.of_nat (length (chunks v)) <= Z.of_nat (maxs g) - used g).
Proof.
  intros R Hab Hh Hv. rewrite put_absent_eq by (left; apply (get_idx_absent lay); auto).
  assert (Hnk: ~ In k (map ek lay)) by (intros Hin; apply in_map_iff in Hin as (e & He1 & He2); exact (Hab e He2 He1)).
  unfold put_noexist. destruct (Z.leb (Z.of_nat (maxs g)) (used g)) eqn:Efull.
  { apply Z.leb_le in Efull. exists lay. split; auto. split; auto. split; [discriminate|]. split; auto. split; [discriminate|lia]. }
  apply Z.leb_gt in Efull. cbv zeta.
  (* the leader case helper: home slot free (possibly after relocation) *)
  assert (Hfreehome: forall lay0 g0, Rep lay0 g0 -> map ek lay0 = map ek lay -> maxs g0 = maxs g -> used g0 = used g -> cnt (getS g0 (home k)) = 0 ->
     let '(g', ok) := put_data g0 (home k) (home k) k v 1 in
     exists lay', Rep lay' g' /\ maxs g' = maxs g /\
       (ok = true -> kv lay' = kv lay0 ++ [(k, v)]) /\ (ok = false -> kv lay' = kv lay0) /\
       (ok = true <-> Z.of_nat (length (chunks v)) <= Z.of_nat (maxs g) - used g)).
  { intros lay0 g0 R0 K0 M0 U0 C0.
    pose proof (put_data_spec lay0 g0 (home k) k v 1 R0 ltac:(rewrite M0; auto) C0 Hv ltac:(lia)) as PS.
    destruct (put_data g0 (home k) (home k) k v 1) as [g' ok]. destruct PS as (A & B & C & D).
    destruct ok.
    - destruct (B eq_refl) as (P' & RP & UP). exists (lay0 ++ [mkent k v (home k :: P')]).
      split; [|split; [rewrite A; auto|split; [intros _; unfold kv; rewrite map_app; reflexivity|split; [discriminate|rewrite D, M0, U0; tauto]]]].
      apply prep_finish_leader; auto.
      + destruct (Nat.eq_dec (count_home lay0 (home k)) O) as [|Hne]; auto. exfalso.
        destruct (count_home_ex lay0 (home k) ltac:(lia)) as (e0 & He0 & Hh0).
        destruct (rLead _ _ R0 e0 He0) as (el & Hel & _ & Hhdl). rewrite Hh0 in Hhdl.
        apply (rep_occupied lay0 g0 (home k) R0); auto. apply in_allidx. exists el. split; auto. rewrite <- Hhdl. apply head_in. eapply ent_nonempty; eauto.
      + rewrite K0. exact Hnk.
      + rewrite A, M0. auto.
    - destruct (C eq_refl) as (RR & UU). exists lay0. split; auto. split; [rewrite A; auto|]. split; [discriminate|]. split; auto. rewrite D, M0, U0. tauto. }
  destruct (Z.eqb (cnt (getS g (home k))) 0) eqn:E0.
  - apply Z.eqb_eq in E0. pose proof (Hfreehome lay g R eq_refl eq_refl eq_refl E0) as HF.
    destruct (put_data g (home k) (home k) k v 1) as [g' ok]. destruct HF as (lay' & A & B & C & D & E).
    exists lay'. split; auto. split; auto. split; auto. split; auto. rewrite E. split; [intros; split; auto | intros [_ ?]; auto].
  - apply Z.eqb_neq in E0. destruct (Z.ltb 0 (cnt (getS g (home k)))) eqn:E1.
    + (* a leader lives in the home slot: store as collision key *)
      apply Z.ltb_lt in E1.
      destruct (rep_has_free lay g (home k) R Efull) as (i & Ef). rewrite Ef.
      apply find_avail_some in Ef as [Him Hic].
      assert (Hih: i <> home k) by (intros ->; lia).
      pose proof (put_data_spec lay g i k v (-1) R Him Hic Hv ltac:(lia)) as PS.
      destruct (put_data g i (home k) k v (-1)) as [g1 ok]. destruct PS as (A & B & C & D).
      destruct ok.
      * destruct (B eq_refl) as (P' & RP & UP). exists (lay ++ [mkent k v (i :: P')]).
        split; [|split; [rewrite maxs_setS; auto|split; [intros _; unfold kv; rewrite map_app; reflexivity|split; [discriminate|rewrite D; split; [intros; split; auto|intros [_ ?]; auto]]]]].
        apply prep_finish_collision; auto.
        -- (* some entry has this home *)
           assert (Hks: is_keyslot (getS g (home k)) = true) by (unfold is_keyslot; apply orb_true_iff; left; apply Z.ltb_lt; auto).
           destruct (keyslot_is_head _ _ _ R Hh Hks) as (e0 & He0 & Hhd0 & _ & _).
           destruct (rEnt _ _ R e0 He0) as (Hok0 & _). unfold ent_ok in Hok0. destruct (ei e0) as [|a ra]; [contradiction|]. destruct (chunks (ev e0)); [contradiction|].
           cbn in Hhd0. subst a. destruct Hok0 as (_ & _ & _ & _ & _ & F & _).
           destruct (Nat.eqb (home k) (home (ek e0))) eqn:E; [|lia]. apply Nat.eqb_eq in E. rewrite E. apply count_home_pos; auto.
        -- rewrite A. auto.
      * destruct (C eq_refl) as (RR & UU). exists lay. split; auto. split; auto. split; [discriminate|]. split; auto. rewrite D. split; [intros; split; auto|intros [_ ?]; auto].
    + (* a foreign block sits in the home slot: move it away first *)
      apply Z.ltb_ge in E1. assert (Hneg: cnt (getS g (home k)) < 0) by lia.
      destruct (rep_has_free lay g (S (home k)) R Efull) as (i & Ef). rewrite Ef.
      apply find_avail_some in Ef as [Him Hic].
      destruct (relocate lay g (home k) i R Hh Hneg Him Hic) as (lay1 & R1 & K1 & KV1 & C1 & U1 & M1 & _).
      pose proof (Hfreehome lay1 (relocate_img g (home k) i) R1 K1 M1 U1 C1) as HF.
      destruct (put_data (relocate_img g (home k) i) (home k) (home k) k v 1) as [g' ok]. destruct HF as (lay' & A & B & C & D & E).
      exists lay'. split; auto. split; auto. rewrite KV1 in C, D. split; auto. split; auto. rewrite E. split; [intros; split; auto | intros [_ ?]; auto].
Qed.

(* replacing the value of an existing key: remove, then put *)
Theorem put_present l1 e l2 g v n :
  Rep (l1 ++ e :: l2) g -> v <> [] ->
  let '(g', ok) := put (S n) g (ek e) v in
  exists lay', Rep lay' g' /\ maxs g' = maxs g /\
    (ok = true -> kv lay' = kv (l1 ++ l2) ++ [(ek e, v)]) /\
    (ok = false -> (Z.of_nat (maxs g) <= used g -> kv lay' = kv (l1 ++ e :: l2)) /\ (used g < Z.of_nat (maxs g) -> kv lay' = kv (l1 ++ l2))) /\
    (ok = true <-> used g < Z.of_nat (maxs g) /\
                   Z.of_nat (length (chunks v)) <= Z.of_nat (maxs g) - used g + Z.of_nat (length (ei e))).
Proof.
  intros R Hv. assert (He: In e (l1 ++ e :: l2)) by (apply in_or_app; right; left; auto).
  destruct (rEnt _ _ R e He) as (_ & _ & Hh).
  cbn [put]. destruct (Z.leb (Z.of_nat (maxs g)) (used g)) eqn:Efull.
  { apply Z.leb_le in Efull. exists (l1 ++ e :: l2). split; auto. split; auto. split; [discriminate|]. split; [intros _; split; [auto|lia]|]. split; [discriminate|lia]. }
  apply Z.leb_gt in Efull.
  pose proof (leader_cnt _ _ _ R He) as Hlc. pose proof (count_home_pos _ _ He) as Hpos.
  destruct (Z.eqb (cnt (getS g (home (ek e)))) 0) eqn:E0; [apply Z.eqb_eq in E0; lia|].
  destruct (Z.ltb 0 (cnt (getS g (home (ek e))))) eqn:E1; [|apply Z.ltb_ge in E1; lia].
  rewrite (get_idx_present _ _ _ R He).
  destruct (remove_present _ _ _ _ R) as (g1 & lay1 & Hr & _ & R1 & KV1 & M1 & L1). rewrite Hr.
  assert (Hab: forall e1, In e1 lay1 -> ek e1 <> ek e).
  { intros e1 He1 Hk. pose proof (kv_keys _ _ KV1) as K1. destruct (keys_split _ _ _ (rKeys _ _ R)) as (_ & Kn).
    apply Kn. rewrite <- K1, <- Hk. apply in_map; auto. }
  assert (U1: used g1 = used g - Z.of_nat (length (ei e))).
  { rewrite (rUsed _ _ R1), (rUsed _ _ R), L1. destruct (split_facts _ _ _ (rNoDup _ _ R)) as (_ & _ & _ & _ & Len). rewrite Len. lia. }
  assert (Hne: (0 < length (ei e))%nat). { pose proof (ent_nonempty _ _ _ R He). destruct (ei e); [congruence|cbn; lia]. }
  pose proof (put_absent lay1 g1 (ek e) v n R1 Hab ltac:(rewrite M1; auto) Hv) as PA.
  destruct (put n g1 (ek e) v) as [g' ok]. destruct PA as (lay' & A & B & C & D & E).
  exists lay'. split; auto. split; [rewrite B; auto|]. split; [intros Hok; rewrite (C Hok), KV1; reflexivity|].
  split; [intros Hok; split; [lia|intros _; rewrite (D Hok); exact KV1]|]. rewrite E, M1, U1. lia.
Qed.

(* ================= the table as a bounded map: histories ================= *)
(* the ideal bounded map: association list in insertion order, slots needed per value *)

(* ---------- abstract functions vs layout ---------- *)
Lemma aget_kv k lay : aget k (kv lay) = match find (fun e => keq k (ek e)) lay with Some e => Some (ev e) | None => None end.
Proof. unfold aget. induction lay as [|e l IH]; [reflexivity|]. cbn. destruct (keq k (ek e)); [reflexivity|exact IH]. Qed.
Lemma adel_absent k lay : (forall e, In e lay -> ek e <> k) -> adel k (kv lay) = kv lay.
Proof. induction lay as [|e l IH]; intros H; [reflexivity|]. cbn. 
  assert (keq k (ek e) = false). { destruct (keq k (ek e)) eqn:E; auto. apply keq_spec in E. exfalso. apply (H e); [left; auto|auto]. }
  rewrite H0. cbn. f_equal. apply IH. intros; apply H; right; auto. Qed.
Lemma adel_present l1 e l2 : NoDup (map ek (l1 ++ e :: l2)) -> adel (ek e) (kv (l1 ++ e :: l2)) = kv (l1 ++ l2).
Proof. intros H. destruct (keys_split _ _ _ H) as (_ & Kn). unfold kv, adel. rewrite !map_app, !filter_app. cbn [map filter fst].
  assert (keq (ek e) (ek e) = true) by (apply keq_spec; auto). rewrite H0. cbn [negb].
  rewrite map_app in Kn. 
  assert (forall l, ~ In (ek e) (map ek l) -> filter (fun p : K * list byte => negb (keq (ek e) (fst p))) (map (fun e0 => (ek e0, ev e0)) l) = map (fun e0 => (ek e0, ev e0)) l).
  { intros l Hl. apply (adel_absent (ek e) l). intros e0 He0 Hk. apply Hl. rewrite <- Hk. apply in_map; auto. }
  rewrite !H1; auto; intros Hin; apply Kn, in_or_app; auto. Qed.

Lemma ext_len g : forall r prev cs, ext_ok g prev r cs -> length r = length cs.
Proof. induction r as [|i r IH]; intros prev cs H; destruct cs; cbn in *; try contradiction; auto. destruct H as (_ & _ & _ & _ & _ & _ & G). f_equal. eauto. Qed.
Lemma ent_len_chunks g lay e : ent_ok g lay e -> length (ei e) = length (chunks (ev e)).
Proof. unfold ent_ok. destruct (ei e); [contradiction|]. destruct (chunks (ev e)); [contradiction|]. intros (_ & _ & _ & _ & _ & _ & X). cbn. f_equal. eapply ext_len; eauto. Qed.

Lemma aused_kv lay g : (forall e, In e lay -> ent_ok g lay e) -> aused (kv lay) = Z.of_nat (length (allidx lay)).
Proof. intros H. assert (forall l, (forall e, In e l -> length (ei e) = length (chunks (ev e))) -> aused (kv l) = Z.of_nat (length (allidx l))).
  { induction l as [|e l IH]; intros Hl; [reflexivity|].
    change (aused (kv (e :: l))) with (need (ev e) + aused (kv l)). rewrite allidx_cons, app_length.
    rewrite IH by (intros; apply Hl; right; auto). unfold need. rewrite (Hl e (or_introl eq_refl)). lia. }
  apply H0. intros e He. eapply ent_len_chunks; eauto. Qed.
Lemma rep_aused lay g : Rep lay g -> aused (kv lay) = used g.
Proof. intros R. rewrite (rUsed _ _ R). apply (aused_kv lay g). intros e He. apply (rEnt _ _ R e He). Qed.

Lemma find_key_split k lay : (exists l1 e l2, lay = l1 ++ e :: l2 /\ ek e = k) \/ (forall e, In e lay -> ek e <> k).
Proof. induction lay as [|e l IH]; [right; intros ? []|].
  destruct (keq k (ek e)) eqn:E.
  - apply keq_spec in E. left. exists [], e, l. auto.
  - destruct IH as [(l1 & e0 & l2 & -> & Hk)|Hab].
    + left. exists (e :: l1), e0, l2. auto.
    + right. intros e0 [<-|Hin]; auto. intros Hk. assert (keq k (ek e) = true) by (apply keq_spec; auto). congruence. Qed.

(* one operation: same answer as the ideal bounded map, and the representation invariant is kept *)
Theorem step_refines lay g o : Rep lay g -> (forall k, home k < maxs g)%nat ->
  let '(g', x) := step g o in let '(m', y) := sstep (maxs g) (kv lay) o in
  x = y /\ exists lay', Rep lay' g' /\ kv lay' = m' /\ maxs g' = maxs g.
Proof.
  intros R Hhome. pose proof (rep_aused _ _ R) as HU. destruct o as [k v|k|k]; cbn [step sstep].
  - (* Put *)
    unfold put_api. destruct v as [|b v']; [split; auto; exists lay; auto|]. set (v := b :: v') in *. assert (Hv: v <> []) by discriminate.
    rewrite HU.
    destruct (find_key_split k lay) as [(l1 & e & l2 & -> & Hk)|Hab].
    + subst k. pose proof (put_present l1 e l2 g v 0 R Hv) as P. destruct (put 1 g (ek e) v) as [g' ok].
      destruct P as (lay' & A & B & C & D & E).
      assert (He: In e (l1 ++ e :: l2)) by (apply in_or_app; right; left; auto).
      rewrite (adel_present _ _ _ (rKeys _ _ R)).
      assert (HU2: aused (kv (l1 ++ l2)) = used g - Z.of_nat (length (ei e))).
      { assert (forall e0, In e0 (l1 ++ l2) -> length (ei e0) = length (chunks (ev e0))).
        { intros e0 He0. destruct (rEnt _ _ R e0 (in_split_lay _ _ _ _ He0)) as (Hok & _). eapply ent_len_chunks; eauto. }
        assert (aused (kv (l1 ++ l2)) = Z.of_nat (length (allidx (l1 ++ l2)))).
        { clear -H. induction (l1 ++ l2) as [|e0 l IH]; [reflexivity|]. change (aused (kv (e0 :: l))) with (need (ev e0) + aused (kv l)).
          rewrite allidx_cons, app_length, IH by (intros; apply H; right; auto). unfold need. rewrite (H e0 (or_introl eq_refl)). lia. }
        rewrite H0, (rUsed _ _ R). destruct (split_facts _ _ _ (rNoDup _ _ R)) as (_ & _ & _ & _ & Len). rewrite Len. lia. }
      rewrite HU2. unfold need.
      destruct (Z.leb (Z.of_nat (maxs g)) (used g)) eqn:Ef.
      * apply Z.leb_le in Ef. destruct ok; [exfalso; destruct E as [E1 _]; specialize (E1 eq_refl); lia|].
        split; auto. exists lay'. split; auto. split; auto. apply (D eq_refl); auto.
      * apply Z.leb_gt in Ef. destruct (Z.leb (Z.of_nat (length (chunks v))) (Z.of_nat (maxs g) - (used g - Z.of_nat (length (ei e))))) eqn:Efit.
        -- apply Z.leb_le in Efit. destruct ok; [|exfalso; destruct E as [_ E2]; specialize (E2 ltac:(split; lia)); discriminate].
           split; auto. exists lay'. split; auto.
        -- apply Z.leb_gt in Efit. destruct ok; [exfalso; destruct E as [E1 _]; specialize (E1 eq_refl); lia|].
           split; auto. exists lay'. split; auto. split; auto. apply (D eq_refl); auto.
    + pose proof (put_absent lay g k v 1 R Hab (Hhome k) Hv) as P. destruct (put 1 g k v) as [g' ok].
      destruct P as (lay' & A & B & C & D & E). rewrite (adel_absent k lay Hab), HU. unfold need.
      destruct (Z.leb (Z.of_nat (maxs g)) (used g)) eqn:Ef.
      * apply Z.leb_le in Ef. destruct ok; [exfalso; destruct E as [E1 _]; specialize (E1 eq_refl); lia|].
        split; auto. exists lay'. split; auto.
      * apply Z.leb_gt in Ef. destruct (Z.leb (Z.of_nat (length (chunks v))) (Z.of_nat (maxs g) - used g)) eqn:Efit.
        -- apply Z.leb_le in Efit. destruct ok; [|exfalso; destruct E as [_ E2]; specialize (E2 ltac:(split; lia)); discriminate].
           split; auto. exists lay'. split; auto.
        -- apply Z.leb_gt in Efit. destruct ok; [exfalso; destruct E as [E1 _]; specialize (E1 eq_refl); lia|].
           split; auto. exists lay'. split; auto.
  - (* Get *)
    rewrite (get_spec lay g k R (Hhome k)), aget_kv. split; auto. exists lay. auto.
  - (* Del *)
    destruct (find_key_split k lay) as [(l1 & e & l2 & -> & Hk)|Hab].
    + subst k. destruct (remove_present _ _ _ _ R) as (g1 & lay1 & _ & Hr & R1 & KV1 & M1 & _). rewrite Hr.
      rewrite (adel_present _ _ _ (rKeys _ _ R)), aget_kv.
      assert (find (fun e0 => keq (ek e) (ek e0)) (l1 ++ e :: l2) <> None).
      { intros Hf. assert (He: In e (l1 ++ e :: l2)) by (apply in_or_app; right; left; auto).
        pose proof (find_none _ _ Hf _ He) as F. cbn in F. assert (keq (ek e) (ek e) = true) by (apply keq_spec; auto). congruence. }
      destruct (find (fun e0 => keq (ek e) (ek e0)) (l1 ++ e :: l2)); [|congruence]. split; auto. exists lay1. auto.
    + rewrite (remove_absent lay g k R (Hhome k) Hab), (adel_absent k lay Hab), aget_kv.
      assert (find (fun e0 => keq k (ek e0)) lay = None).
      { apply find_none_intro. intros e He. destruct (keq k (ek e)) eqn:E; auto. apply keq_spec in E. exfalso. eapply Hab; eauto. }
      rewrite H. split; auto. exists lay. auto.
Qed.

Lemma rep_init m : Rep [] (init m).
Proof. constructor; cbn; try (intros; contradiction); try constructor; auto. Qed.

(* C06/C07 for every history and every capacity: the static table is the ideal bounded map, and its image stays well formed *)
Theorem run_refines m os : (forall k, home k < m)%nat ->
  let '(g, xs) := run (init m) os in let '(am, ys) := srun m [] os in
  xs = ys /\ exists lay, Rep lay g /\ kv lay = am /\ maxs g = m.
Proof.
  intros Hhome.
  assert (G: forall os lay g, Rep lay g -> maxs g = m ->
     let '(g', xs) := run g os in let '(am, ys) := srun m (kv lay) os in
     xs = ys /\ exists lay', Rep lay' g' /\ kv lay' = am /\ maxs g' = m).
  { induction os0 as [|o r IH]; intros lay g R M; cbn [run srun].
    - split; auto. exists lay. auto.
    - pose proof (step_refines lay g o R ltac:(rewrite M; auto)) as S. rewrite M in S.
      destruct (step g o) as [g1 x]. destruct (sstep m (kv lay) o) as [m1 y]. destruct S as (Exy & lay1 & R1 & K1 & M1).
      specialize (IH lay1 g1 R1 ltac:(congruence)). rewrite K1 in IH.
      destruct (run g1 r) as [g2 xs]. destruct (srun m m1 r) as [m2 ys]. destruct IH as (Exs & lay2 & R2 & K2 & M2).
      split; [congruence|]. exists lay2. auto. }
  apply (G os [] (init m) (rep_init m) eq_refl).
Qed.

(* ================= the remaining public operations ================= *)
Local Notation is_walkslot := (@HarrModel.is_walkslot K).
Local Notation getnext := (@HarrModel.getnext K).
Local Notation walk_from := (@HarrModel.walk_from K).
Local Notation walk := (@HarrModel.walk K).
Local Notation clear := (@HarrModel.clear K).
Local Notation remove_idx_api := (@HarrModel.remove_idx_api K).

Lemma rep_lay_nil lay g : Rep lay g -> used g = 0 -> lay = [].
Proof. intros R Hu. rewrite (rUsed _ _ R) in Hu. destruct lay as [|e l]; [reflexivity|]. exfalso.
  destruct (ent_head _ _ e R ltac:(left; reflexivity)) as (i0 & r & Ei & _). unfold allidx in Hu. cbn [map concat] in Hu. rewrite Ei in Hu.
  cbn [app length] in Hu. lia. Qed.
Theorem clear_rep lay g : Rep lay g -> Rep [] (clear g) /\ maxs (clear g) = maxs g.
Proof. intros R. unfold HarrModel.clear. destruct (Z.eqb (used g) 0) eqn:E.
  - apply Z.eqb_eq in E. rewrite (rep_lay_nil _ _ R E) in R. auto.
  - split; [apply (rep_init (maxs g))|reflexivity]. Qed.
Theorem size_rep lay g : Rep lay g -> num g = Z.of_nat (length (kv lay)) /\ used g = aused (kv lay).
Proof. intros R. split; [unfold kv; rewrite map_length; apply (rNum _ _ R)|symmetry; apply rep_aused; exact R]. Qed.

(* remove-by-index is removal of the key stored in that slot; on any other slot it fails and changes nothing *)
Theorem delidx_rep lay g i : Rep lay g -> (i < maxs g)%nat ->
  (is_keyslot (getS g i) = true ->
     exists e, In e lay /\ key (getS g i) = Some (ek e) /\ remove_idx_api g i = remove g (ek e) /\ snd (remove g (ek e)) = true) /\
  (is_keyslot (getS g i) = false -> remove_idx_api g i = (g, false)).
Proof. intros R Hi. unfold HarrModel.remove_idx_api. apply Nat.ltb_lt in Hi as Hb. rewrite Hb. split; intros Hk.
  - destruct (keyslot_is_head _ _ _ R Hi Hk) as (e & He & Hhd & _ & Hkey).
    apply in_split in He as (l1 & l2 & ->).
    destruct (remove_present _ _ _ _ R) as (g' & lay' & H1 & H2 & _). rewrite Hhd in H1.
    exists e. split; [apply in_or_app; right; left; reflexivity|]. split; [exact Hkey|]. rewrite H1, H2. auto.
  - unfold HarrModel.is_keyslot in Hk. apply orb_false_iff in Hk as [K1 K2]. apply Z.ltb_ge in K1. apply Z.eqb_neq in K2.
    unfold HarrModel.remove_by_idx. destruct (Z.eqb (cnt (getS g i)) 1) eqn:E1; [apply Z.eqb_eq in E1; lia|].
    destruct (Z.ltb 1 (cnt (getS g i))) eqn:E2; [apply Z.ltb_lt in E2; lia|].
    destruct (Z.eqb (cnt (getS g i)) (-1)) eqn:E3; [apply Z.eqb_eq in E3; lia|]. reflexivity. Qed.

(* the walk hands out every stored key exactly once with its value *)
Definition walk_list (g:img) (idxs:list nat) : list (option K * list byte) :=
  map (fun i => (key (getS g i), get_data (S (maxs g)) g i)) (filter (fun i => is_walkslot (getS g i)) idxs).
Lemma walk_from_seq g : forall n idx fuel, (n < fuel)%nat -> (idx + n = maxs g)%nat -> walk_from fuel g idx = walk_list g (seq idx n).
Proof. induction n as [|n IH]; intros idx fuel Hf Hm; (destruct fuel as [|f]; [lia|]).
  - cbn [HarrModel.walk_from]. unfold HarrModel.getnext. replace (maxs g - idx)%nat with O by lia. reflexivity.
  - cbn [HarrModel.walk_from]. unfold HarrModel.getnext. replace (maxs g - idx)%nat with (S n) by lia. cbn [seq find].
    unfold walk_list. cbn [seq filter]. destruct (is_walkslot (getS g idx)) eqn:E.
    + cbn [map]. f_equal. apply IH; lia.
    + specialize (IH (S idx) (S f) ltac:(lia) ltac:(lia)). cbn [HarrModel.walk_from] in IH. unfold HarrModel.getnext in IH.
      replace (maxs g - S idx)%nat with n in IH by lia. exact IH. Qed.
Lemma nodup_app_r {A} (a b : list A) : NoDup (a ++ b) -> NoDup b.
Proof. induction a as [|x a IH]; [auto|]. cbn. intros H. inversion H; auto. Qed.
Lemma heads_nodup lay : NoDup (allidx lay) -> (forall e, In e lay -> ei e <> []) -> NoDup (map (fun e => hd O (ei e)) lay).
Proof. induction lay as [|e l IH]; intros Hn He; [constructor|]. rewrite allidx_cons in Hn. cbn [map].
  destruct (ei e) as [|i0 r] eqn:Ei; [exfalso; apply (He e); [left; reflexivity|exact Ei]|]. cbn [hd].
  constructor.
  - intros Hin. apply in_map_iff in Hin as (e' & Hh & He'). pose proof (NoDup_app_disj _ _ Hn i0 ltac:(left; reflexivity)) as D. apply D.
    apply in_allidx. exists e'. split; auto. destruct (ei e') as [|j r'] eqn:Ej; [exfalso; apply (He e'); [right; auto|exact Ej]|]. cbn in Hh. subst j. left. reflexivity.
  - apply IH; [eapply nodup_app_r; exact Hn|intros e' He'; apply He; right; exact He']. Qed.
Theorem walk_perm lay g : Rep lay g -> Permutation.Permutation (walk g) (map (fun e => (Some (ek e), ev e)) lay).
Proof. intros R. unfold HarrModel.walk. rewrite (walk_from_seq g (maxs g) O) by lia. unfold walk_list.
  assert (Hne : forall e, In e lay -> ei e <> []).
  { intros e He. destruct (ent_head _ _ e R He) as (i0 & r & Ei & _). rewrite Ei. discriminate. }
  assert (P : Permutation.Permutation (filter (fun i => is_walkslot (getS g i)) (seq 0 (maxs g))) (map (fun e => hd O (ei e)) lay)).
  { apply Permutation.NoDup_Permutation; [apply NoDup_filter, seq_NoDup|apply heads_nodup; [apply (rNoDup _ _ R)|exact Hne]|].
    intros i. rewrite filter_In, in_seq. split.
    - intros ((_ & Hi) & Hw). cbn in Hi. unfold HarrModel.is_walkslot in Hw. apply andb_prop in Hw as [W0 W2].
      apply negb_true_iff, Z.eqb_neq in W0, W2.
      destruct (in_dec Nat.eq_dec i (allidx lay)) as [Hin|Hn]; [|exfalso; apply W0; apply (rFree _ _ R); auto].
      apply in_allidx in Hin as (e & He & Hie). destruct (ent_head _ _ e R He) as (i0 & r & Ei & _ & _ & _ & Hr).
      rewrite Ei in Hie. destruct Hie as [<-|Hie]; [|exfalso; apply W2; apply Hr; exact Hie].
      apply in_map_iff. exists e. rewrite Ei. auto.
    - intros Hin. apply in_map_iff in Hin as (e & Hh & He). destruct (ent_head _ _ e R He) as (i0 & r & Ei & _ & _ & Hks & _).
      rewrite Ei in Hh. cbn in Hh. subst i0. split.
      + split; [lia|]. cbn. apply (rRange _ _ R). apply in_allidx. exists e. rewrite Ei. split; auto. left; reflexivity.
      + unfold HarrModel.is_keyslot in Hks. unfold HarrModel.is_walkslot. apply orb_true_iff in Hks as [Hp|Hm1].
        * apply Z.ltb_lt in Hp. apply andb_true_intro. split; apply negb_true_iff, Z.eqb_neq; lia.
        * apply Z.eqb_eq in Hm1. rewrite Hm1. reflexivity. }
  eapply Permutation.perm_trans; [apply Permutation.Permutation_map; exact P|]. rewrite map_map.
  assert (E : map (fun e => (key (getS g (hd O (ei e))), get_data (S (maxs g)) g (hd O (ei e)))) lay = map (fun e => (Some (ek e), ev e)) lay).
  { apply map_ext_in. intros e He. destruct (ent_head _ _ e R He) as (i0 & r & Ei & Hkey & _). rewrite Ei. cbn [hd]. rewrite Hkey. f_equal.
    pose proof (get_data_ent lay g e (S (maxs g)) R He) as G. rewrite Ei in G. cbn [hd] in G. apply G.
    pose proof (ent_len_le _ _ _ R He). rewrite Ei in *. lia. }
  rewrite E. apply Permutation.Permutation_refl. Qed.

(* every operation of the full interface keeps the image well formed *)
Local Notation xstep := (@HarrModel.xstep K keq home).
Local Notation xrun := (@HarrModel.xrun K keq home).
Theorem xstep_rep lay g o : Rep lay g -> (forall k, home k < maxs g)%nat ->
  exists lay', Rep lay' (fst (xstep g o)) /\ maxs (fst (xstep g o)) = maxs g.
Proof. intros R Hh. destruct o as [b|i| | |]; cbn [HarrModel.xstep].
  - pose proof (step_refines lay g b R Hh) as S. destruct (step g b) as [g' x]. destruct (sstep (maxs g) (kv lay) b) as [m' y].
    destruct S as (_ & lay' & R' & _ & M'). cbn [fst]. eauto.
  - destruct (Nat.ltb i (maxs g)) eqn:Ei.
    + apply Nat.ltb_lt in Ei. destruct (delidx_rep lay g i R Ei) as (D1 & D2). destruct (is_keyslot (getS g i)) eqn:Ek.
      * destruct (D1 eq_refl) as (e & He & _ & Eq & _). rewrite Eq.
        pose proof (step_refines lay g (Del (ek e)) R Hh) as S. cbn [HarrModel.step] in S. destruct (remove g (ek e)) as [g' b'].
        destruct (sstep (maxs g) (kv lay) (Del (ek e))) as [m' y]. destruct S as (_ & lay' & R' & _ & M'). cbn [fst]. eauto.
      * rewrite (D2 eq_refl). cbn [fst]. eauto.
    + unfold HarrModel.remove_idx_api. rewrite Ei. cbn [fst]. eauto.
  - destruct (clear_rep lay g R) as (R' & M'). cbn [fst]. eauto.
  - cbn [fst]. eauto.
  - cbn [fst]. eauto. Qed.
Lemma xrun_rep_gen m : (forall k, home k < m)%nat -> forall os lay g, Rep lay g -> maxs g = m ->
  exists lay', Rep lay' (fst (xrun g os)) /\ maxs (fst (xrun g os)) = m.
Proof. intros Hh. induction os as [|o r IH]; intros lay g R M.
  - cbn [HarrModel.xrun fst]. eauto.
  - cbn [HarrModel.xrun]. destruct (xstep_rep lay g o R ltac:(rewrite M; exact Hh)) as (lay1 & R1 & M1).
    destruct (xstep g o) as [g1 x]. cbn [fst] in R1, M1.
    assert (M1' : maxs g1 = m) by congruence.
    destruct (IH lay1 g1 R1 M1') as (lay2 & R2 & M2). destruct (xrun g1 r) as [g2 xs]. cbn [fst] in *. exists lay2. split; assumption. Qed.
Theorem xrun_rep m os : (forall k, home k < m)%nat ->
  exists lay, Rep lay (fst (xrun (init m) os)) /\ maxs (fst (xrun (init m) os)) = m.
Proof. intros Hh. exact (xrun_rep_gen m Hh os [] (init m) (rep_init m) eq_refl). Qed.
End Harr.
Print Assumptions run_refines.
