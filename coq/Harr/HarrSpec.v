(* The ideal bounded map the static hash table is compared with. *)
From Coq Require Import List Arith ZArith Bool.
From QV.Harr Require Import HarrModel.
Import ListNotations.
Local Open Scope Z_scope.
Section Spec.
Variable K : Type.
Variable keq : K -> K -> bool.
Local Notation op := (op K).
Local Notation out := out.
Fixpoint chunks_ext (fuel:nat) (v:list byte) : list (list byte) :=
  match v with
  | [] => []
  | _ => match fuel with O => [] | S f => firstn EXTSZ v :: chunks_ext f (skipn EXTSZ v) end
  end.
Definition chunks (v:list byte) : list (list byte) := firstn DATASZ v :: chunks_ext (length v) (skipn DATASZ v).
Definition amap := list (K * list byte).
Definition need (v:list byte) : Z := Z.of_nat (length (chunks v)).
Definition aused (m:amap) : Z := fold_right (fun p a => need (snd p) + a) 0 m.
Definition adel (k:K) (m:amap) : amap := filter (fun p => negb (keq k (fst p))) m.
Definition aget (k:K) (m:amap) : option (list byte) := match find (fun p => keq k (fst p)) m with Some p => Some (snd p) | None => None end.
Definition sstep (cap:nat) (m:amap) (o:op) : amap * out :=
  match o with
  | Get k => (m, OVal (aget k m))
  | Del k => (adel k m, OBool (match aget k m with Some _ => true | None => false end))
  | Put k v =>
      match v with
      | [] => (m, OBool false)
      | _ =>
        if Z.leb (Z.of_nat cap) (aused m) then (m, OBool false)              (* no free slot at all *)
        else if Z.leb (need v) (Z.of_nat cap - aused (adel k m)) then (adel k m ++ [(k,v)], OBool true)
        else (adel k m, OBool false)                                           (* does not fit: own key is gone, nothing else changes *)
      end
  end.
Fixpoint srun (cap:nat) (m:amap) (os:list op) : amap * list out :=
  match os with [] => (m, []) | o :: r => let (m1, x) := sstep cap m o in let (m2, xs) := srun cap m1 r in (m2, x :: xs) end.
End Spec.
