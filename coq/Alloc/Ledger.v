(* Allocation / copy ledger of the containers (properties C11, C12, C15).

   A block is identified by its allocation sequence number over the life of one container instance (the k-th successful
   allocation request the library makes on behalf of the instance has id k) - exactly what harness/h_api.c prints.
   Caller memory has no block id at all: a container can only ever link, free or write blocks it allocated itself,
   copies *from* the caller are visible as [Copy b SCaller].

   ledger = (set of live blocks the container owns, set of blocks handed to the caller, next fresh id).
   [safe l evs]: every event is legal in the ledger state it meets:
     - Alloc uses the next fresh id (ids are never reused, so a stale id can never become legal again);
     - Free / Realloc name a block that is owned and live (so no double free, no free of a returned block, no free of caller memory);
     - Copy writes into an owned live block, and reads from the caller, from static data or from an owned live block;
     - Return hands out an owned live block (afterwards the container may not free, write or read it: it is no longer owned). *)
From Coq Require Import List NArith Bool Lia Arith.
Import ListNotations.
Open Scope N_scope.

Definition blk := N.
Inductive tag := THandle | TMutex | TSlots | TNode | TName | TData | TBuf | TRet | TTmp.
Inductive src := SCaller | SBlk (b : blk) | SOther.
Inductive event :=
| Alloc (b : blk) (t : tag) (sz : N)
| AllocFail (t : tag) (sz : N)
| Realloc (o n : blk) (sz : N)
| Free (b : blk)
| Copy (dst : blk) (s : src)
| Return (b : blk).
(* Failed = the call reports an allocation failure; Nothing = the call reports "absent / invalid / nothing to do" without any failed allocation *)
Inductive outcome := Done | Failed | Nothing.

Record ledger := mkL { own : blk -> bool; giv : blk -> bool; nxt : N }.
Definition ledger0 : ledger := mkL (fun _ => false) (fun _ => false) 1.

Definition src_ok (l : ledger) (s : src) : Prop := match s with SBlk b => own l b = true | _ => True end.
Definition pre (l : ledger) (e : event) : Prop :=
  match e with
  | Alloc b _ _ => b = nxt l
  | AllocFail _ _ => True
  | Realloc o n _ => own l o = true /\ n = nxt l
  | Free b => own l b = true
  | Copy d s => own l d = true /\ src_ok l s
  | Return b => own l b = true
  end.
Definition upd (l : ledger) (e : event) : ledger :=
  match e with
  | Alloc b _ _ => mkL (fun x => (x =? b) || own l x) (giv l) (nxt l + 1)
  | AllocFail _ _ => l
  | Realloc o n _ => mkL (fun x => (x =? n) || (negb (x =? o) && own l x)) (giv l) (nxt l + 1)
  | Free b => mkL (fun x => negb (x =? b) && own l x) (giv l) (nxt l)
  | Copy _ _ => l
  | Return b => mkL (fun x => negb (x =? b) && own l x) (fun x => (x =? b) || giv l x) (nxt l)
  end.
Fixpoint safe (l : ledger) (evs : list event) : Prop :=
  match evs with [] => True | e :: r => pre l e /\ safe (upd l e) r end.
Fixpoint run (l : ledger) (evs : list event) : ledger :=
  match evs with [] => l | e :: r => run (upd l e) r end.

(* executable version, evaluated by the extracted driver on every predicted event list *)
Definition src_okb (l : ledger) (s : src) : bool := match s with SBlk b => own l b | _ => true end.
Definition preb (l : ledger) (e : event) : bool :=
  match e with
  | Alloc b _ _ => b =? nxt l
  | AllocFail _ _ => true
  | Realloc o n _ => own l o && (n =? nxt l)
  | Free b => own l b
  | Copy d s => own l d && src_okb l s
  | Return b => own l b
  end.
Fixpoint safeb (l : ledger) (evs : list event) : bool :=
  match evs with [] => true | e :: r => preb l e && safeb (upd l e) r end.

Lemma preb_iff l e : preb l e = true <-> pre l e.
Proof.
  destruct e; simpl; try tauto.
  - apply N.eqb_eq.
  - rewrite andb_true_iff, N.eqb_eq. tauto.
  - rewrite andb_true_iff. destruct s; simpl; tauto.
Qed.
Lemma safeb_iff evs : forall l, safeb l evs = true <-> safe l evs.
Proof. induction evs as [|e r IH]; simpl; intros l; [tauto|]. rewrite andb_true_iff, preb_iff, IH. tauto. Qed.

Lemma safe_app l a b : safe l (a ++ b) <-> safe l a /\ safe (run l a) b.
Proof. revert l. induction a as [|e r IH]; simpl; intros l; [tauto|]. rewrite IH. tauto. Qed.
Lemma run_app l a b : run l (a ++ b) = run (run l a) b.
Proof. revert l. induction a as [|e r IH]; simpl; intros l; auto. Qed.

(* ---- well-formed ledgers: ids below nxt, owned and given disjoint ---- *)
Record wf (l : ledger) : Prop := mkWf {
  wf_own : forall b, own l b = true -> b < nxt l;
  wf_giv : forall b, giv l b = true -> b < nxt l;
  wf_dis : forall b, own l b = true -> giv l b = false }.
Lemma wf0 : wf ledger0.
Proof. split; simpl; intros; discriminate. Qed.

Ltac beq := repeat match goal with
  | H : context[?a =? ?b] |- _ => destruct (N.eqb_spec a b); try subst; simpl in H
  | |- context[?a =? ?b] => destruct (N.eqb_spec a b); try subst; simpl
  end.

Lemma wf_upd l e : wf l -> pre l e -> wf (upd l e).
Proof.
  intros [Ho Hg Hd] P. destruct e; simpl in *; auto; try (split; auto; fail).
  - subst. split; simpl; intros x Hx.
    + destruct (N.eqb_spec x (nxt l)); simpl in Hx; [lia|]. apply Ho in Hx. lia.
    + apply Hg in Hx. lia.
    + destruct (N.eqb_spec x (nxt l)); simpl in Hx.
      * subst. destruct (giv l (nxt l)) eqn:E; auto. apply Hg in E. lia.
      * auto.
  - destruct P as [Po ->]. split; simpl; intros x Hx.
    + destruct (N.eqb_spec x (nxt l)); simpl in Hx; [lia|]. apply andb_true_iff in Hx as [_ Hx]. apply Ho in Hx. lia.
    + apply Hg in Hx. lia.
    + destruct (N.eqb_spec x (nxt l)); simpl in Hx.
      * subst. destruct (giv l (nxt l)) eqn:E; auto. apply Hg in E. lia.
      * apply andb_true_iff in Hx as [_ Hx]. auto.
  - split; simpl; intros x Hx; auto; apply andb_true_iff in Hx as [_ Hx]; auto.
  - split; simpl; intros x Hx.
    + apply andb_true_iff in Hx as [_ Hx]; auto.
    + destruct (N.eqb_spec x b); simpl in Hx; [subst; auto|auto].
    + apply andb_true_iff in Hx as [Hn Hx]. destruct (N.eqb_spec x b); simpl in *; [discriminate|auto].
Qed.
Lemma wf_run evs : forall l, wf l -> safe l evs -> wf (run l evs).
Proof. induction evs as [|e r IH]; simpl; intros l W S; auto. destruct S as [P S]. apply IH; auto. apply wf_upd; auto. Qed.

Lemma nxt_mono evs : forall l, nxt l <= nxt (run l evs).
Proof. induction evs as [|e r IH]; simpl; intros l; [lia|]. specialize (IH (upd l e)). destruct e; simpl in *; lia. Qed.

(* ---- what happens to a block that was handed to the caller ---- *)
Definition touches (b : blk) (e : event) : Prop :=
  match e with
  | Alloc x _ _ => x = b
  | AllocFail _ _ => False
  | Realloc o n _ => o = b \/ n = b
  | Free x => x = b
  | Copy d s => d = b \/ s = SBlk b
  | Return x => x = b
  end.
(* C12: once a block has been handed out no later legal event frees it, writes it, reads it, re-allocates or re-returns it, and it stays handed out *)
Lemma given_untouched evs : forall l b, wf l -> giv l b = true -> safe l evs ->
  (forall e, In e evs -> ~ touches b e) /\ giv (run l evs) b = true.
Proof.
  induction evs as [|e r IH]; simpl; intros l b W G S; [split; [intros ? []|auto]|].
  destruct S as [P S].
  assert (Hn : own l b = false). { destruct (own l b) eqn:E; auto. apply (wf_dis _ W) in E. congruence. }
  assert (Hlt : b < nxt l) by (apply (wf_giv _ W); auto).
  assert (T : ~ touches b e).
  { destruct e; simpl in *; intros T.
    - subst. lia.
    - auto.
    - destruct P as [Po ->]. destruct T; subst; [congruence|lia].
    - subst. congruence.
    - destruct P as [Pd Ps]. destruct T as [->| ->]; simpl in *; congruence.
    - subst. congruence. }
  assert (G' : giv (upd l e) b = true). { destruct e; simpl; auto. rewrite G. apply orb_true_r. }
  destruct (IH (upd l e) b (wf_upd _ _ W P) G' S) as [A B].
  split; auto. intros e' [<-|I]; auto.
Qed.
(* a block returned by an event list is handed out afterwards *)
Lemma return_gives evs : forall l b, wf l -> safe l evs -> In (Return b) evs -> giv (run l evs) b = true.
Proof.
  induction evs as [|e r IH]; simpl; intros l b W S I; [tauto|].
  destruct S as [P S]. destruct I as [->|I].
  - apply (given_untouched r (upd l (Return b)) b); auto; [apply wf_upd; auto|]. simpl. rewrite N.eqb_refl. auto.
  - apply IH; auto. apply wf_upd; auto.
Qed.
(* a freed block is never legal again (no double free, no use after free): ids are not reused *)
Lemma dead_stays_dead evs : forall l b, wf l -> own l b = false -> b < nxt l -> safe l evs ->
  (forall e, In e evs -> e = Free b \/ e = Return b \/ (exists s, e = Copy b s) \/ (exists d, e = Copy d (SBlk b)) -> False) /\ own (run l evs) b = false.
Proof.
  induction evs as [|e r IH]; simpl; intros l b W O Lt S; [split; [intros ? []|auto]|].
  destruct S as [P S].
  assert (O' : own (upd l e) b = false).
  { destruct e; simpl in *; auto.
    - subst. destruct (N.eqb_spec b (nxt l)); [lia|]. simpl. auto.
    - destruct P as [_ ->]. destruct (N.eqb_spec b (nxt l)); [lia|]. simpl. rewrite O. apply andb_false_r.
    - rewrite O. apply andb_false_r.
    - rewrite O. apply andb_false_r. }
  assert (Lt' : b < nxt (upd l e)) by (destruct e; simpl; lia).
  destruct (IH (upd l e) b (wf_upd _ _ W P) O' Lt' S) as [A B].
  split; auto. intros e' [<-|I] Hk; [|eapply A; eauto].
  destruct Hk as [->|[->|[[s ->]|[d ->]]]]; simpl in P; try congruence.
  - destruct P; congruence.
  - destruct P as [_ P]. simpl in P. congruence.
Qed.

(* ---- the invariant between calls: the owned live blocks are exactly the blocks of the container summary, each once ---- *)
Definition b2n (b : bool) : nat := if b then 1%nat else 0%nat.
Fixpoint count (b : blk) (l : list blk) : nat :=
  match l with [] => 0%nat | x :: r => (b2n (N.eqb x b) + count b r)%nat end.
Lemma count_app b l1 l2 : count b (l1 ++ l2) = (count b l1 + count b l2)%nat.
Proof. induction l1; simpl; auto. rewrite IHl1. lia. Qed.
Lemma count_cons b x l : count b (x :: l) = (b2n (N.eqb x b) + count b l)%nat.
Proof. reflexivity. Qed.
Lemma count_nil b : count b [] = 0%nat.
Proof. reflexivity. Qed.
Lemma count_in b l : (count b l > 0)%nat <-> In b l.
Proof.
  induction l as [|x r IH]; simpl; [split; [lia|tauto]|].
  destruct (N.eqb_spec x b); simpl; split; intros; auto; try lia.
  - right. apply IH. lia.
  - destruct H; [congruence|]. apply IH in H. lia.
Qed.
Lemma count_flat_map {A} b (f : A -> list blk) (l1 l2 : list A) :
  count b (flat_map f (l1 ++ l2)) = (count b (flat_map f l1) + count b (flat_map f l2))%nat.
Proof. rewrite flat_map_app. apply count_app. Qed.
Lemma count_rev b l : count b (rev l) = count b l.
Proof. induction l; simpl; auto. rewrite count_app. simpl. lia. Qed.

Definition Inv (bs : list blk) (l : ledger) : Prop := wf l /\ forall b, count b bs = b2n (own l b).

Lemma Inv_owned bs l b : Inv bs l -> In b bs -> own l b = true.
Proof. intros [_ H] I. apply count_in in I. specialize (H b). destruct (own l b); auto. simpl in H. lia. Qed.
Lemma Inv_fresh bs l : Inv bs l -> own l (nxt l) = false.
Proof. intros [W _]. destruct (own l (nxt l)) eqn:E; auto. apply (wf_own _ W) in E. lia. Qed.
Lemma Inv_lt bs l b : Inv bs l -> In b bs -> b < nxt l.
Proof. intros I Hb. apply (wf_own _ (proj1 I)). eapply Inv_owned; eauto. Qed.
Lemma Inv_nil_empty l : Inv [] l -> forall b, own l b = false.
Proof. intros [_ H] b. specialize (H b). simpl in H. destruct (own l b); auto. discriminate. Qed.
Lemma Inv0 : Inv [] ledger0.
Proof. split; [apply wf0|reflexivity]. Qed.
(* permuting the summary does not matter *)
Lemma Inv_perm bs bs' l : (forall b, count b bs = count b bs') -> Inv bs l -> Inv bs' l.
Proof. intros E [W H]. split; auto. intros b. rewrite <- E. auto. Qed.

(* freeing a whole list of owned blocks (clear / free of every container) *)
Lemma free_all fs : forall l, wf l -> (forall b, (count b fs <= b2n (own l b))%nat) ->
  safe l (map Free fs) /\ (forall b, b2n (own (run l (map Free fs)) b) = (b2n (own l b) - count b fs)%nat) /\
  giv (run l (map Free fs)) = giv l /\ nxt (run l (map Free fs)) = nxt l.
Proof.
  induction fs as [|x r IH]; simpl; intros l W H.
  - repeat split; auto. intros b. lia.
  - assert (Ox : own l x = true). { specialize (H x). rewrite N.eqb_refl in H. destruct (own l x); auto. simpl in H. lia. }
    destruct (IH (upd l (Free x))) as (S & O & G & X).
    + apply wf_upd; auto.
    + intros b. specialize (H b). simpl. destruct (N.eqb_spec x b); subst.
      * rewrite N.eqb_refl. simpl in *. rewrite Ox in H. simpl in H. lia.
      * destruct (N.eqb_spec b x); [congruence|]. simpl in *. lia.
    + repeat split; auto. intros b. rewrite O. simpl. specialize (H b).
      destruct (N.eqb_spec x b); subst.
      * rewrite N.eqb_refl. simpl in *. rewrite Ox in *. simpl in *. lia.
      * destruct (N.eqb_spec b x); [congruence|]. simpl. lia.
Qed.
(* the same seen through the invariant: free the blocks fs out of bs, keeping rest *)
Lemma Inv_free_all bs fs rest l : Inv bs l -> (forall b, count b bs = (count b fs + count b rest)%nat) ->
  safe l (map Free fs) /\ Inv rest (run l (map Free fs)).
Proof.
  intros [W H] E.
  destruct (free_all fs l W) as (S & O & G & X).
  { intros b. rewrite <- H, E. lia. }
  split; auto. split.
  - apply wf_run; auto.
  - intros b. rewrite O, <- H, E. lia.
Qed.

(* events that neither allocate nor free (copies between owned blocks, failed requests) *)
Lemma safe_copies l cs : (forall e, In e cs -> exists d s, e = Copy d s /\ own l d = true /\ src_ok l s) -> safe l cs /\ run l cs = l.
Proof.
  induction cs as [|e r IH]; simpl; intros H; auto.
  destruct (H e (or_introl eq_refl)) as (d & s & -> & Hd & Hs). simpl.
  destruct IH as [A B]; [intros; apply H; auto|]. auto.
Qed.

Definition olist {A} (o : option A) : list A := match o with Some x => [x] | None => [] end.
Definition allocs (evs : list event) : list blk :=
  flat_map (fun e => match e with Alloc b _ _ => [b] | Realloc _ n _ => [n] | _ => [] end) evs.

(* a block that is owned after an event list and was not owned before was allocated by that event list
   (a container can only come to own memory it allocated itself - never a block of the caller) *)
Lemma new_owned_allocated evs : forall l b, safe l evs -> own l b = false -> own (run l evs) b = true -> In b (allocs evs).
Proof.
  induction evs as [|e r IH]; simpl; intros l b S O R; [congruence|].
  destruct S as [P S]. unfold allocs in *. simpl. apply in_or_app.
  destruct (own (upd l e) b) eqn:U.
  - left. destruct e; simpl in *; try congruence.
    + destruct (N.eqb_spec b b0); simpl in U; [subst; auto|congruence].
    + destruct (N.eqb_spec b n); simpl in U; [subst; auto|]. rewrite O in U. rewrite andb_false_r in U. discriminate.
    + rewrite O, andb_false_r in U. discriminate.
    + rewrite O, andb_false_r in U. discriminate.
  - right. eapply IH; eauto.
Qed.
