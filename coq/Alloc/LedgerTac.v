(* Proof machinery for the allocation scripts: the invariant is carried as a count function (how often is block x in the
   container's summary = is x owned), every event has a one-step rule, and the side conditions are linear arithmetic over
   opaque atoms [b2n (N.eqb a x)], [count x (hdr g)], [count x (flat_map eblocks p)] - no disequality reasoning is needed. *)
From Coq Require Import List NArith Bool Lia Arith.
From QV.Alloc Require Import Ledger Scripts.
Import ListNotations.
Open Scope N_scope.

Definition cfun := blk -> nat.
Definition InvC (c : cfun) (l : ledger) : Prop := wf l /\ forall b, c b = b2n (own l b).
Lemma InvC_Inv bs l : Inv bs l <-> InvC (fun x => count x bs) l.
Proof. unfold Inv, InvC. tauto. Qed.

(* T c k evs c' k': from any ledger satisfying c with next id k the events are legal and lead to a ledger satisfying c' with next id k' *)
Definition T (c : cfun) (k : N) (evs : list event) (c' : cfun) (k' : N) : Prop :=
  forall l, InvC c l -> nxt l = k -> safe l evs /\ InvC c' (run l evs) /\ nxt (run l evs) = k'.

Lemma T_nil c c' k : (forall b, c b = c' b) -> T c k [] c' k.
Proof. intros E l [W H] K. simpl. split; [exact I|]. split; [|exact K]. split; [exact W|]. intros b. rewrite <- E. auto. Qed.
Lemma T_ext c c2 k evs c' k' : (forall b, c b = c2 b) -> T c2 k evs c' k' -> T c k evs c' k'.
Proof. intros E H l [W I] K. apply H; auto. split; auto. intros b. rewrite <- E. auto. Qed.
Lemma T_app c k a c1 k1 b c' k' : T c k a c1 k1 -> T c1 k1 b c' k' -> T c k (a ++ b) c' k'.
Proof.
  intros A B l I K. destruct (A l I K) as (Sa & Ia & Ka). destruct (B _ Ia Ka) as (Sb & Ib & Kb).
  rewrite safe_app, run_app. auto.
Qed.
Lemma b2n_le1 b : (b2n b <= 1)%nat. Proof. destruct b; simpl; lia. Qed.

Lemma T_alloc c k t sz r c' k' : T (fun x => (b2n (N.eqb k x) + c x)%nat) (k + 1) r c' k' -> T c k (Alloc k t sz :: r) c' k'.
Proof.
  intros H l [W I] K. simpl. subst k.
  assert (P : pre l (Alloc (nxt l) t sz)) by reflexivity.
  destruct (H (upd l (Alloc (nxt l) t sz))) as (S & J & X); auto.
  - split; [apply wf_upd; auto|]. intros b. simpl. rewrite I.
    destruct (N.eqb_spec (nxt l) b) as [<-|Ne].
    + rewrite N.eqb_refl. simpl. destruct (own l (nxt l)) eqn:E; auto. apply (wf_own _ W) in E. lia.
    + destruct (N.eqb_spec b (nxt l)); [congruence|]. reflexivity.
Qed.
Lemma T_alloc_eq c k b t sz r c' k' : b = k -> T (fun x => (b2n (N.eqb b x) + c x)%nat) (k + 1) r c' k' -> T c k (Alloc b t sz :: r) c' k'.
Proof. intros ->. apply T_alloc. Qed.
Lemma T_fail c k t sz r c' k' : T c k r c' k' -> T c k (AllocFail t sz :: r) c' k'.
Proof. intros H l I K. simpl. destruct (H l I K) as (S & J & X). auto. Qed.
Lemma own_of_count c l b : InvC c l -> (c b >= 1)%nat -> own l b = true.
Proof. intros [_ I] G. rewrite I in G. destruct (own l b); auto. simpl in G. lia. Qed.
Lemma T_free c k b r c' k' : (c b >= 1)%nat -> T (fun x => (c x - b2n (N.eqb b x))%nat) k r c' k' -> T c k (Free b :: r) c' k'.
Proof.
  intros G H l [W I] K. simpl.
  assert (O : own l b = true) by (eapply own_of_count; eauto; split; auto).
  destruct (H (upd l (Free b))) as (S & J & X); auto.
  split; [apply wf_upd; auto|]. intros x. simpl. rewrite I.
  destruct (N.eqb_spec b x) as [<-|Ne].
  - rewrite N.eqb_refl, O. reflexivity.
  - destruct (N.eqb_spec x b); [congruence|]. simpl. lia.
Qed.
Lemma T_return c k b r c' k' : (c b >= 1)%nat -> T (fun x => (c x - b2n (N.eqb b x))%nat) k r c' k' -> T c k (Return b :: r) c' k'.
Proof.
  intros G H l [W I] K. simpl.
  assert (O : own l b = true) by (eapply own_of_count; eauto; split; auto).
  destruct (H (upd l (Return b))) as (S & J & X); auto.
  split; [apply wf_upd; auto|]. intros x. simpl. rewrite I.
  destruct (N.eqb_spec b x) as [<-|Ne].
  - rewrite N.eqb_refl, O. reflexivity.
  - destruct (N.eqb_spec x b); [congruence|]. simpl. lia.
Qed.
Definition src_cnt (c : cfun) (s : src) : Prop := match s with SBlk b => (c b >= 1)%nat | _ => True end.
Lemma T_copy c k d s r c' k' : (c d >= 1)%nat -> src_cnt c s -> T c k r c' k' -> T c k (Copy d s :: r) c' k'.
Proof.
  intros G Gs H l I K. simpl. destruct (H l I K) as (S & J & X).
  assert (Od : own l d = true) by (eapply own_of_count; eauto).
  assert (Os : src_ok l s). { destruct s; simpl in *; auto. eapply own_of_count; eauto. }
  tauto.
Qed.
Lemma T_realloc c k o sz r c' k' : (c o >= 1)%nat -> T (fun x => (b2n (N.eqb k x) + (c x - b2n (N.eqb o x)))%nat) (k + 1) r c' k' -> T c k (Realloc o k sz :: r) c' k'.
Proof.
  intros G H l [W I] K. simpl. subst k.
  assert (O : own l o = true) by (eapply own_of_count; eauto; split; auto).
  assert (P : pre l (Realloc o (nxt l) sz)) by (simpl; auto).
  destruct (H (upd l (Realloc o (nxt l) sz))) as (S & J & X); auto.
  split; [apply wf_upd; auto|]. intros x. simpl. rewrite I.
  destruct (N.eqb_spec (nxt l) x) as [<-|Ne].
  - rewrite N.eqb_refl. simpl.
    destruct (own l (nxt l)) eqn:E; [apply (wf_own _ W) in E; lia|]. simpl. reflexivity.
  - destruct (N.eqb_spec x (nxt l)); [congruence|]. simpl.
    destruct (N.eqb_spec o x) as [<-|No].
    + rewrite N.eqb_refl, O. reflexivity.
    + destruct (N.eqb_spec x o); [congruence|]. simpl. lia.
Qed.
Lemma T_realloc_eq c k o b sz r c' k' : b = k -> (c o >= 1)%nat -> T (fun x => (b2n (N.eqb b x) + (c x - b2n (N.eqb o x)))%nat) (k + 1) r c' k' -> T c k (Realloc o b sz :: r) c' k'.
Proof. intros ->. apply T_realloc. Qed.
(* a whole list of frees (clear / free / unique-replace / freemulti) *)
Lemma T_frees fs : forall c k r c' k', (forall b, (count b fs <= c b)%nat) -> T (fun x => (c x - count x fs)%nat) k r c' k' -> T c k (map Free fs ++ r) c' k'.
Proof.
  induction fs as [|f fs IH]; simpl; intros c k r c' k' Hc H.
  - eapply T_ext; [|exact H]. intros b. simpl. lia.
  - apply T_free.
    + specialize (Hc f). rewrite N.eqb_refl in Hc. simpl in Hc. lia.
    + apply IH.
      * intros b. specialize (Hc b). lia.
      * eapply T_ext; [|exact H]. intros b. simpl. lia.
Qed.
Lemma T_returns fs : forall c k r c' k', (forall b, (count b fs <= c b)%nat) -> T (fun x => (c x - count x fs)%nat) k r c' k' -> T c k (map Return fs ++ r) c' k'.
Proof.
  induction fs as [|f fs IH]; simpl; intros c k r c' k' Hc H.
  - eapply T_ext; [|exact H]. intros b. simpl. lia.
  - apply T_return.
    + specialize (Hc f). rewrite N.eqb_refl in Hc. simpl in Hc. lia.
    + apply IH.
      * intros b. specialize (Hc b). lia.
      * eapply T_ext; [|exact H]. intros b. simpl. lia.
Qed.
(* events that only copy between blocks that stay owned *)
Lemma T_copies cs : forall c k r c' k', (forall e, In e cs -> exists d s, e = Copy d s /\ (c d >= 1)%nat /\ src_cnt c s) -> T c k r c' k' -> T c k (cs ++ r) c' k'.
Proof.
  induction cs as [|e cs IH]; simpl; intros c k r c' k' Hc H; auto.
  destruct (Hc e (or_introl eq_refl)) as (d & s & -> & Gd & Gs).
  apply T_copy; auto.
Qed.

(* ---- normalisation of count expressions ---- *)
Lemma count_flat_cons {A} b (f : A -> list blk) x l : count b (flat_map f (x :: l)) = (count b (f x) + count b (flat_map f l))%nat.
Proof. simpl. apply count_app. Qed.
Lemma count_flat_app {A} b (f : A -> list blk) l1 l2 : count b (flat_map f (l1 ++ l2)) = (count b (flat_map f l1) + count b (flat_map f l2))%nat.
Proof. rewrite flat_map_app. apply count_app. Qed.
Lemma count_eblocks b e : count b (eblocks e) = (b2n (N.eqb (eobj e) b) + (count b (olist (ename e)) + count b (olist (edata e))))%nat.
Proof. unfold eblocks. rewrite count_cons, count_app. reflexivity. Qed.
Lemma count_efree b e : count b (efree e) = count b (eblocks e).
Proof. unfold efree, eblocks. rewrite count_cons, !count_app. simpl. lia. Qed.
Lemma count_flat_efree b l : count b (flat_map efree l) = count b (flat_map eblocks l).
Proof. induction l as [|x l IH]; [reflexivity|]. rewrite !count_flat_cons, IH, count_efree. reflexivity. Qed.
Lemma count_flat_rev {A} b (f : A -> list blk) l : count b (flat_map f (rev l)) = count b (flat_map f l).
Proof. induction l as [|x l IH]; [reflexivity|]. cbn [rev]. rewrite count_flat_app, !count_flat_cons, IH. simpl. lia. Qed.
Lemma count_flat_filter {A} b (f : A -> list blk) (p : A -> bool) l :
  (count b (flat_map f (filter p l)) + count b (flat_map f (filter (fun x => negb (p x)) l)))%nat = count b (flat_map f l).
Proof. induction l as [|x l IH]; [reflexivity|]. cbn [filter]. destruct (p x); cbn [negb]; rewrite !count_flat_cons; lia. Qed.

Ltac rwopt := repeat match goal with
  | D : ?x = Some _ |- context[?x] => rewrite D
  | D : ?x = None |- context[?x] => rewrite D
  end.
Ltac cnt :=
  repeat (progress (cbv beta; unfold gblocks, vblocks; rwopt;
                    cbn [olist hdr els ekey eobj ename edata ensz esz vmx vh vdata vset app flat_map fst snd];
                    rewrite ?count_flat_efree, ?count_efree, ?count_eblocks, ?count_flat_rev, ?count_flat_app, ?count_flat_cons, ?count_app, ?count_cons, ?count_nil, ?count_rev, ?N.eqb_refl));
  cbn [b2n].
Ltac side := cnt; try lia.
Ltac tstep :=
  match goal with
  | |- T _ _ (Alloc _ _ _ :: _) _ _ => apply T_alloc_eq; [lia|]
  | |- T _ _ (AllocFail _ _ :: _) _ _ => apply T_fail
  | |- T _ _ (Free _ :: _) _ _ => apply T_free; [side|]
  | |- T _ _ (Return _ :: _) _ _ => apply T_return; [side|]
  | |- T _ _ (Copy _ ?s :: _) _ _ => apply T_copy; [side|unfold src_cnt; side|]
  | |- T _ _ (Realloc _ _ _ :: _) _ _ => apply T_realloc_eq; [lia|side|]
  | |- T _ _ [] _ _ => apply T_nil; intro; side
  end.
Ltac tsteps := cbn [app map olist]; repeat tstep.

(* the statement every script is proved to satisfy *)
Definition sound {St} (blocks : St -> list blk) (bs : list blk) (r : sres St) (k : N) : Prop :=
  exists k', T (fun x => count x bs) k (evs r) (fun x => count x (blocks (st' r))) k'.
Definition oblocks {St} (blocks : St -> list blk) (o : option St) : list blk := match o with Some s => blocks s | None => [] end.

Lemma sound_safe {St} (blocks : St -> list blk) bs (r : sres St) l :
  sound blocks bs r (nxt l) -> Inv bs l -> safe l (evs r) /\ Inv (blocks (st' r)) (run l (evs r)).
Proof. intros [k' H] I. destruct (H l) as (S & J & _); auto. Qed.

Lemma split_key_eq k l : forall p e q, split_key k l = Some (p, e, q) -> l = p ++ e :: q /\ ekey e = k.
Proof.
  induction l as [|x r IH]; simpl; intros p e q H; [discriminate|].
  destruct (N.eqb_spec (ekey x) k).
  - inversion H; subst. auto.
  - destruct (split_key k r) as [[[p' e'] q']|] eqn:E; [|discriminate]. inversion H; subst.
    destruct (IH _ _ _ eq_refl) as [-> K]. auto.
Qed.
Lemma split_pos_eq i : forall l p e q, split_pos i l = Some (p, e, q) -> l = p ++ e :: q.
Proof.
  induction i as [|i IH]; intros [|x r] p e q H; simpl in H; try discriminate.
  - inversion H; subst. auto.
  - destruct (split_pos i r) as [[[p' e'] q']|] eqn:E; [|discriminate]. inversion H; subst.
    rewrite (IH _ _ _ _ E). auto.
Qed.
Lemma count_flat_own_last b (f : elem -> list blk) own l : count b (flat_map f (own_last own l)) = count b (flat_map f l).
Proof.
  unfold own_last. destruct own as [i|]; [|reflexivity].
  destruct (split_pos i l) as [[[p e] q]|] eqn:S; [|reflexivity].
  apply split_pos_eq in S. subst l. rewrite !count_flat_app, !count_flat_cons. cbn [flat_map]. rewrite count_nil. lia.
Qed.
