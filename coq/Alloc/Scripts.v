(* Allocation scripts of every allocating (and releasing) operation of the containers: executable definitions only.
   Each script follows the C text allocation by allocation in program order: which block is requested, what is freed on
   each failure branch, what is copied from where, what is handed to the caller, and what the container summary is afterwards.
   [al k] says whether the k-th allocation request (k = 0, 1, ...) made inside this call succeeds; [n] is the next fresh block id.
   The scripts follow /repo as repaired by the C15 fix commits (see notes/C15_C11_C12.md). *)
From Coq Require Import List NArith Bool Arith.
From QV.Alloc Require Import Ledger.
Import ListNotations.
Open Scope N_scope.

(* struct sizes: printed by the harness from sizeof() and handed to the driver; the theorems hold for all values *)
Record sizes := mkS { s_tree : N; s_tobj : N; s_mutex : N; s_hash : N; s_hobj : N; s_ptr : N; s_ltbl : N; s_lobj : N; s_ldata : N;
                      s_list : N; s_sobj : N; s_vec : N; s_queue : N; s_stack : N; s_grow : N; s_harr : N }.

(* one stored element: the object struct, its key copy (tables), its value copy *)
Record elem := mkE { ekey : N; eobj : blk; ename : option blk; edata : option blk; ensz : N; esz : N }.
Definition eblocks (e : elem) : list blk := eobj e :: olist (ename e) ++ olist (edata e).
Definition efree (e : elem) : list blk := olist (ename e) ++ olist (edata e) ++ [eobj e].     (* free(name); free(data); free(obj) *)
(* node-based containers: header blocks in destructor order, elements in container order *)
Record gst := mkG { hdr : list blk; els : list elem }.
Definition gblocks (g : gst) : list blk := hdr g ++ flat_map eblocks (els g).

Record sres (S : Type) := mkR { evs : list event; out : outcome; st' : S; mutated : bool }.
Arguments mkR {S}. Arguments evs {S}. Arguments out {S}. Arguments st' {S}. Arguments mutated {S}.

Definition cp (d : blk) (s : src) (sz : N) : list event := if sz =? 0 then [] else [Copy d s].
Definition isSome {A} (o : option A) : bool := match o with Some _ => true | None => false end.
Definition nomut (g : gst) (e : list event) (o : outcome) : sres gst := mkR e o g false.

(* position / key look-ups used by the step functions *)
Fixpoint split_key (k : N) (l : list elem) : option (list elem * elem * list elem) :=
  match l with
  | [] => None
  | e :: r => if ekey e =? k then Some ([], e, r)
              else match split_key k r with Some (p, x, q) => Some (e :: p, x, q) | None => None end
  end.
Fixpoint split_pos (i : nat) (l : list elem) : option (list elem * elem * list elem) :=
  match l, i with
  | [], _ => None
  | e :: r, O => Some ([], e, r)
  | e :: r, S j => match split_pos j r with Some (p, x, q) => Some (e :: p, x, q) | None => None end
  end.

(* ------------------------------------------------------------------ constructors *)
(* handle (calloc) [+ mutex (calloc inside Q_MUTEX_NEW)]; a failed mutex releases the handle: qtreetbl, qlisttbl, qlist *)
Definition script_ctor (hsz msz : N) (ts : bool) (n : N) (al : nat -> bool) : sres (option gst) :=
  if al 0%nat then
    if ts then
      if al 1%nat then mkR [Alloc n THandle hsz; Alloc (n + 1) TMutex msz] Done (Some (mkG [n + 1; n] [])) true
      else mkR [Alloc n THandle hsz; AllocFail TMutex msz; Free n] Failed None false
    else mkR [Alloc n THandle hsz] Done (Some (mkG [n] [])) true
  else mkR [AllocFail THandle hsz] Failed None false.
(* qhashtbl: handle, slot array, mutex; qhashtbl_free() on failure: free(slots); free(tbl) *)
Definition script_qhashtbl (Sz : sizes) (range : N) (ts : bool) (n : N) (al : nat -> bool) : sres (option gst) :=
  let ssz := range * s_ptr Sz in
  if al 0%nat then
    if al 1%nat then
      if ts then
        if al 2%nat then mkR [Alloc n THandle (s_hash Sz); Alloc (n + 1) TSlots ssz; Alloc (n + 2) TMutex (s_mutex Sz)] Done (Some (mkG [n + 1; n + 2; n] [])) true
        else mkR [Alloc n THandle (s_hash Sz); Alloc (n + 1) TSlots ssz; AllocFail TMutex (s_mutex Sz); Free (n + 1); Free n] Failed None false
      else mkR [Alloc n THandle (s_hash Sz); Alloc (n + 1) TSlots ssz] Done (Some (mkG [n + 1; n] [])) true
    else mkR [Alloc n THandle (s_hash Sz); AllocFail TSlots ssz; Free n] Failed None false
  else mkR [AllocFail THandle (s_hash Sz)] Failed None false.
(* qqueue / qstack / qgrow: outer struct, then qlist() *)
Definition script_wrapper (osz : N) (Sz : sizes) (ts : bool) (n : N) (al : nat -> bool) : sres (option gst) :=
  if al 0%nat then
    if al 1%nat then
      if ts then
        if al 2%nat then mkR [Alloc n THandle osz; Alloc (n + 1) THandle (s_list Sz); Alloc (n + 2) TMutex (s_mutex Sz)] Done (Some (mkG [n + 2; n + 1; n] [])) true
        else mkR [Alloc n THandle osz; Alloc (n + 1) THandle (s_list Sz); AllocFail TMutex (s_mutex Sz); Free (n + 1); Free n] Failed None false
      else mkR [Alloc n THandle osz; Alloc (n + 1) THandle (s_list Sz)] Done (Some (mkG [n + 1; n] [])) true
    else mkR [Alloc n THandle osz; AllocFail THandle (s_list Sz); Free n] Failed None false
  else mkR [AllocFail THandle osz] Failed None false.
(* qhasharr: the handle only (the table itself lives in the caller's region) *)
Definition script_qhasharr (Sz : sizes) (n : N) (al : nat -> bool) : sres (option gst) :=
  if al 0%nat then mkR [Alloc n THandle (s_harr Sz)] Done (Some (mkG [n] [])) true
  else mkR [AllocFail THandle (s_harr Sz)] Failed None false.

(* ------------------------------------------------------------------ shared pieces *)
(* copying accessor: one block of the value's size, filled from the stored value, handed out *)
Definition script_getdata (g : gst) (e : elem) (n : N) (al : nat -> bool) : sres gst :=
  match edata e with
  | Some d => if al 0%nat then nomut g ([Alloc n TRet (esz e)] ++ cp n (SBlk d) (esz e) ++ [Return n]) Done
              else nomut g [AllocFail TRet (esz e)] Failed
  | None => nomut g [] Nothing
  end.
(* find_min / find_max: copy of the key *)
Definition script_getname (g : gst) (e : elem) (n : N) (al : nat -> bool) : sres gst :=
  match ename e with
  | Some nm => if al 0%nat then nomut g [Alloc n TRet (ensz e); Copy n (SBlk nm); Return n] Done
               else nomut g [AllocFail TRet (ensz e)] Failed
  | None => nomut g [] Nothing
  end.
(* getnext / find_nearest with newmem: copy of the key, copy of the value, both requested before the check.
   late = the value bytes are copied only after both requests succeeded (qhashtbl, qlisttbl); tree: qmemdup copies at once *)
Definition script_getpair (late : bool) (g : gst) (e : elem) (n : N) (al : nat -> bool) : sres gst :=
  match ename e with
  | None => nomut g [] Nothing
  | Some nm =>
    let a0 := al 0%nat in let a1 := al 1%nat in
    let n1 := if a0 then n + 1 else n in
    let e0 := if a0 then [Alloc n TRet (ensz e); Copy n (SBlk nm)] else [AllocFail TRet (ensz e)] in
    match edata e with
    | None => if a0 then nomut g (e0 ++ [Return n]) Done else nomut g e0 Failed
    | Some d =>
      let e1 := if a1 then [Alloc n1 TRet (esz e)] else [AllocFail TRet (esz e)] in
      if a0 && a1 then nomut g (e0 ++ e1 ++ cp n1 (SBlk d) (esz e) ++ [Return n; Return n1]) Done
      else nomut g (e0 ++ e1 ++ (if a1 && negb late then cp n1 (SBlk d) (esz e) else []) ++ (if a0 then [Free n] else []) ++ (if a1 then [Free n1] else [])) Failed
    end
  end.
Definition script_remove_elem (g : gst) (p : list elem) (e : elem) (q : list elem) : sres gst :=
  mkR (map Free (efree e)) Done (mkG (hdr g) (p ++ q)) true.
Definition script_clear (g : gst) : sres gst := mkR (map Free (flat_map efree (els g))) Done (mkG (hdr g) []) true.
Definition script_free (g : gst) : sres (option gst) := mkR (map Free (flat_map efree (els g) ++ hdr g)) Done None true.

(* ------------------------------------------------------------------ qtreetbl *)
(* putobj, key absent: new_obj() = calloc(obj); qmemdup(name); qmemdup(data) -- all requested, then checked *)
Definition script_tree_put_new (Sz : sizes) (g : gst) (key ns ds : N) (dfrom : src) (n : N) (al : nat -> bool) : sres gst :=
  let a0 := al 0%nat in let a1 := al 1%nat in let a2 := al 2%nat in
  let hasd := negb (ds =? 0) in
  let n1 := if a0 then n + 1 else n in
  let n2 := if a1 then n1 + 1 else n1 in
  let e0 := if a0 then [Alloc n TNode (s_tobj Sz)] else [AllocFail TNode (s_tobj Sz)] in
  let e1 := if a1 then [Alloc n1 TName ns; Copy n1 SCaller] else [AllocFail TName ns] in
  let e2 := if hasd then (if a2 then [Alloc n2 TData ds; Copy n2 dfrom] else [AllocFail TData ds]) else [] in
  if a0 && a1 && (negb hasd || a2)
  then mkR (e0 ++ e1 ++ e2) Done (mkG (hdr g) (mkE key n (Some n1) (if hasd then Some n2 else None) ns ds :: els g)) true
  else nomut g (e0 ++ e1 ++ e2 ++ (if a0 then [Free n] else []) ++ (if a1 then [Free n1] else []) ++ (if hasd && a2 then [Free n2] else [])) Failed.
(* putobj, key present: the new value is copied before the tree is touched, then the old one is released *)
Definition script_tree_put_old (g : gst) (p : list elem) (e : elem) (q : list elem) (ds : N) (dfrom : src) (n : N) (al : nat -> bool) : sres gst :=
  if ds =? 0 then mkR (map Free (olist (edata e))) Done (mkG (hdr g) (p ++ mkE (ekey e) (eobj e) (ename e) None (ensz e) 0 :: q)) true
  else if al 0%nat then mkR ([Alloc n TData ds; Copy n dfrom] ++ map Free (olist (edata e))) Done
                            (mkG (hdr g) (p ++ mkE (ekey e) (eobj e) (ename e) (Some n) (ensz e) ds :: q)) true
  else nomut g [AllocFail TData ds] Failed.
(* removeobj. The object struct that is released is the key's own (bottom case) or the in-order successor's, whose key and
   value buffers move into the key's struct (two-child case); which one depends on the tree shape (C02's subject) *)
Definition script_tree_remove (g : gst) (p : list elem) (e : elem) (q : list elem) (succ : option N) : sres gst :=
  match succ with
  | None => script_remove_elem g p e q
  | Some sk =>
    match split_key sk (p ++ q) with
    | Some (p2, s, q2) => mkR (map Free (olist (ename e) ++ olist (edata e) ++ [eobj s])) Done
                              (mkG (hdr g) (p2 ++ mkE (ekey s) (eobj e) (ename s) (edata s) (ensz s) (esz s) :: q2)) true
    | None => nomut g [] Nothing
    end
  end.


(* ------------------------------------------------------------------ DYNAMIC_VSPRINTF and the formatted put / add methods *)
(* DYNAMIC_VSPRINTF(s, f): for (size = 1024; ; size *= 2) { s = malloc(size); if (!s) break; n = vsnprintf(s, size, ...); if (n < size) break; free(s); }
   len = length of the formatted text.  Result: events, the buffer holding the text (None = allocation failure), next id, next request index.
   The fuel bounds the number of doublings (64 in the step functions: sizes up to 2^73); every round releases what it allocated. *)
Fixpoint vs_loop (fuel : nat) (len size : N) (al : nat -> bool) (k : nat) (n : N) : list event * option blk * N * nat :=
  match fuel with
  | O => ([], None, n, k)
  | S f =>
    if al k then
      if len <? size then ([Alloc n TTmp size], Some n, n + 1, S k)
      else let '(ev, r, n', k') := vs_loop f len (size * 2) al (S k) (n + 1) in (Alloc n TTmp size :: Free n :: ev, r, n', k')
    else ([AllocFail TTmp size], None, n, S k)
  end.
Definition vs_fuel : nat := 64.
Definition shift (al : nat -> bool) (k : nat) : nat -> bool := fun i => al (i + k)%nat.
(* putstrf / addstrf: format into a temporary, run the plain put / add with the temporary as the value source on the container
   (the temporary is an extra live block while it runs: it is carried in front of the header), release the temporary *)
Definition with_tmp (g : gst) (len : N) (n : N) (al : nat -> bool) (body : gst -> blk -> N -> (nat -> bool) -> sres gst) : sres gst :=
  let '(ev, r, n', k') := vs_loop vs_fuel len 1024 al 0%nat n in
  match r with
  | None => nomut g ev Failed
  | Some t => let x := body (mkG (t :: hdr g) (els g)) t n' (shift al k') in
              mkR (ev ++ evs x ++ [Free t]) (out x) (mkG (hdr g) (els (st' x))) (mutated x)
  end.

Inductive top := TPut (key ns ds : N) | TPutf (key ns len : N) | TGet (key : N) | TRemove (key : N) (succ : option N) | TMin (key : N) | TNext (key : N) | TNone | TClear.
Definition tree_step (Sz : sizes) (g : gst) (o : top) (n : N) (al : nat -> bool) : sres gst :=
  match o with
  | TPut key ns ds => match split_key key (els g) with
                      | Some (p, e, q) => script_tree_put_old g p e q ds SCaller n al
                      | None => script_tree_put_new Sz g key ns ds SCaller n al
                      end
  | TPutf key ns len => with_tmp g len n al (fun g1 t n1 al1 =>
                           match split_key key (els g1) with
                           | Some (p, e, q) => script_tree_put_old g1 p e q (len + 1) (SBlk t) n1 al1
                           | None => script_tree_put_new Sz g1 key ns (len + 1) (SBlk t) n1 al1
                           end)
  | TGet key => match split_key key (els g) with Some (_, e, _) => script_getdata g e n al | None => nomut g [] Nothing end
  | TRemove key succ => match split_key key (els g) with Some (p, e, q) => script_tree_remove g p e q succ | None => nomut g [] Nothing end
  | TMin key => match split_key key (els g) with Some (_, e, _) => script_getname g e n al | None => nomut g [] Nothing end
  | TNext key => match split_key key (els g) with Some (_, e, _) => script_getpair false g e n al | None => nomut g [] Nothing end
  | TNone => nomut g [] Nothing
  | TClear => script_clear g
  end.

(* ------------------------------------------------------------------ qhashtbl *)
(* put: strdup(name); malloc(size); check; memcpy; then calloc(obj) for a new key, or release of the old name and value *)
Definition script_hash_put (Sz : sizes) (g : gst) (found : option (list elem * elem * list elem)) (key ns ds : N) (dfrom : src) (n : N) (al : nat -> bool) : sres gst :=
  let a0 := al 0%nat in let a1 := al 1%nat in let a2 := al 2%nat in
  let n1 := if a0 then n + 1 else n in
  let e0 := if a0 then [Alloc n TName ns; Copy n SCaller] else [AllocFail TName ns] in
  let e1 := if a1 then [Alloc n1 TData ds] else [AllocFail TData ds] in
  if a0 && a1 then
    match found with
    | None =>
      if a2 then mkR (e0 ++ e1 ++ cp n1 dfrom ds ++ [Alloc (n + 2) TNode (s_hobj Sz)]) Done
                     (mkG (hdr g) (mkE key (n + 2) (Some n) (Some n1) ns ds :: els g)) true
      else nomut g (e0 ++ e1 ++ cp n1 dfrom ds ++ [AllocFail TNode (s_hobj Sz); Free n; Free n1]) Failed
    | Some (p, e, q) =>
      mkR (e0 ++ e1 ++ cp n1 dfrom ds ++ map Free (olist (ename e) ++ olist (edata e))) Done
          (mkG (hdr g) (p ++ mkE (ekey e) (eobj e) (Some n) (Some n1) ns ds :: q)) true
    end
  else nomut g (e0 ++ e1 ++ (if a0 then [Free n] else []) ++ (if a1 then [Free n1] else [])) Failed.

Inductive hop := HPut (key ns ds : N) | HPutf (key ns len : N) | HGet (key : N) | HRemove (key : N) | HNext (key : N) | HNone | HClear.
Definition hash_step (Sz : sizes) (g : gst) (o : hop) (n : N) (al : nat -> bool) : sres gst :=
  match o with
  | HPut key ns ds => script_hash_put Sz g (split_key key (els g)) key ns ds SCaller n al
  | HPutf key ns len => with_tmp g len n al (fun g1 t n1 al1 => script_hash_put Sz g1 (split_key key (els g1)) key ns (len + 1) (SBlk t) n1 al1)
  | HGet key => match split_key key (els g) with Some (_, e, _) => script_getdata g e n al | None => nomut g [] Nothing end
  | HRemove key => match split_key key (els g) with Some (p, e, q) => script_remove_elem g p e q | None => nomut g [] Nothing end
  | HNext key => match split_key key (els g) with Some (_, e, _) => script_getpair true g e n al | None => nomut g [] Nothing end
  | HNone => nomut g [] Nothing
  | HClear => script_clear g
  end.

(* ------------------------------------------------------------------ qlisttbl *)
Definition keyis (k : N) (e : elem) : bool := ekey e =? k.
(* put: newobj() = strdup(name); malloc(size); malloc(obj) -- all requested, then checked -- memcpy; with the UNIQUE option
   every object of that name is then removed (qlisttbl_remove: in look-up order) before the new one is linked *)
Definition script_ltbl_put (Sz : sizes) (g : gst) (uniq top fwd : bool) (key ns ds : N) (dfrom : src) (n : N) (al : nat -> bool) : sres gst :=
  let a0 := al 0%nat in let a1 := al 1%nat in let a2 := al 2%nat in
  let n1 := if a0 then n + 1 else n in
  let n2 := if a1 then n1 + 1 else n1 in
  let e0 := if a0 then [Alloc n TName ns; Copy n SCaller] else [AllocFail TName ns] in
  let e1 := if a1 then [Alloc n1 TData ds] else [AllocFail TData ds] in
  let e2 := if a2 then [Alloc n2 TNode (s_lobj Sz)] else [AllocFail TNode (s_lobj Sz)] in
  if a0 && a1 && a2 then
    let gone := if uniq then filter (keyis key) (els g) else [] in
    let kept := if uniq then filter (fun e => negb (keyis key e)) (els g) else els g in
    let new := mkE key n2 (Some n) (Some n1) ns ds in
    mkR (e0 ++ e1 ++ e2 ++ cp n1 dfrom ds ++ map Free (flat_map efree (if fwd then gone else rev gone))) Done
        (mkG (hdr g) (if top then new :: kept else kept ++ [new])) true
  else nomut g (e0 ++ e1 ++ e2 ++ (if a0 then [Free n] else []) ++ (if a1 then [Free n1] else []) ++ (if a2 then [Free n2] else [])) Failed.
(* qlisttbl_remove (as repaired): every object of that name is released in look-up order, except that when the caller searches
   with the name stored in one of them (own = its position among the matches in look-up order; the pointer was handed out by
   getnext()/get without a copy) that object is kept until the search is over and released last *)
Definition own_last (own : option nat) (l : list elem) : list elem :=
  match own with
  | None => l
  | Some i => match split_pos i l with Some (p, e, q) => p ++ q ++ [e] | None => l end
  end.
Definition script_ltbl_remove (g : gst) (fwd : bool) (key : N) (own : option nat) : sres gst :=
  let gone := filter (keyis key) (els g) in
  match gone with
  | [] => nomut g [] Nothing
  | _ => mkR (map Free (flat_map efree (own_last own (if fwd then gone else rev gone)))) Done (mkG (hdr g) (filter (fun e => negb (keyis key e)) (els g))) true
  end.
(* getmulti with newmem (as repaired): for every match getnext() makes a key copy and a value copy (both requested, then checked),
   the result array grows by realloc at 1, 10, 20, 40 ... objects, the key copy is released again; on any failure everything
   collected so far is released (freemulti) and NULL is returned.
   arr/cap/cnt/got: result array, its capacity, objects collected, their value copies (in order) *)
Fixpoint gm_loop (Sz : sizes) (al : nat -> bool) (ms : list elem) (n : N) (k : nat) (arr : option blk) (cap cnt : N) (got : list blk)
  : list event * outcome :=
  match ms with
  | [] => (map Return (olist arr ++ got), match arr with Some _ => Done | None => Nothing end)
  | e :: r =>
    match ename e, edata e with
    | Some nm, Some d =>
      let a0 := al k in let a1 := al (S k) in
      let n1 := if a0 then n + 1 else n in
      let n2 := if a1 then n1 + 1 else n1 in
      let e0 := if a0 then [Alloc n TRet (ensz e); Copy n (SBlk nm)] else [AllocFail TRet (ensz e)] in
      let e1 := if a1 then [Alloc n1 TRet (esz e)] else [AllocFail TRet (esz e)] in
      let cleanup := map Free (got ++ olist arr) in
      if a0 && a1 then
        let ec := cp n1 (SBlk d) (esz e) in
        let cnt' := cnt + 1 in
        if cap <=? cnt' then
          let cap' := if cap =? 0 then 10 else cap * 2 in
          if al (S (S k)) then
            let eg := match arr with None => [Alloc n2 TRet (s_ldata Sz * cap')] | Some a => [Realloc a n2 (s_ldata Sz * cap')] end in
            let '(er, o) := gm_loop Sz al r (n2 + 1) (S (S (S k))) (Some n2) cap' cnt' (got ++ [n1]) in
            (e0 ++ e1 ++ ec ++ eg ++ [Free n] ++ er, o)
          else (e0 ++ e1 ++ ec ++ [AllocFail TRet (s_ldata Sz * cap'); Free n; Free n1] ++ cleanup, Failed)
        else
          let '(er, o) := gm_loop Sz al r n2 (S (S k)) arr cap cnt' (got ++ [n1]) in
          (e0 ++ e1 ++ ec ++ [Free n] ++ er, o)
      else (e0 ++ e1 ++ (if a0 then [Free n] else []) ++ (if a1 then [Free n1] else []) ++ cleanup, Failed)
    | _, _ => (map Free (got ++ olist arr), Nothing)      (* table objects always have a key and a value *)
    end
  end.
Definition script_ltbl_getmulti (Sz : sizes) (g : gst) (fwd : bool) (key : N) (n : N) (al : nat -> bool) : sres gst :=
  let ms := filter (keyis key) (els g) in
  let '(e, o) := gm_loop Sz al (if fwd then ms else rev ms) n 0%nat None 0 0 [] in
  nomut g e o.

Inductive lop := LPut (uniq top fwd : bool) (key ns ds : N) | LPutf (uniq top fwd : bool) (key ns len : N) | LGet (pos : nat) | LGetmulti (fwd : bool) (key : N) | LRemove (fwd : bool) (key : N) (own : option nat)
               | LNext (pos : nat) | LNone | LClear.
Definition ltbl_step (Sz : sizes) (g : gst) (o : lop) (n : N) (al : nat -> bool) : sres gst :=
  match o with
  | LPut uniq top fwd key ns ds => script_ltbl_put Sz g uniq top fwd key ns ds SCaller n al
  | LPutf uniq top fwd key ns len => with_tmp g len n al (fun g1 t n1 al1 => script_ltbl_put Sz g1 uniq top fwd key ns (len + 1) (SBlk t) n1 al1)
  | LGet pos => match split_pos pos (els g) with Some (_, e, _) => script_getdata g e n al | None => nomut g [] Nothing end
  | LGetmulti fwd key => script_ltbl_getmulti Sz g fwd key n al
  | LRemove fwd key own => script_ltbl_remove g fwd key own
  | LNext pos => match split_pos pos (els g) with Some (_, e, _) => script_getpair true g e n al | None => nomut g [] Nothing end
  | LNone => nomut g [] Nothing
  | LClear => script_clear g
  end.

(* ------------------------------------------------------------------ qlist (and through it qqueue, qstack, qgrow) *)
(* addat: malloc(size); memcpy; malloc(obj).  from = the caller's buffer, or a local of the library (pushint passes &num) *)
Definition script_list_addat (Sz : sizes) (g : gst) (pos : nat) (ds : N) (from : src) (n : N) (al : nat -> bool) : sres gst :=
  if al 0%nat then
    if al 1%nat then mkR ([Alloc n TData ds] ++ cp n from ds ++ [Alloc (n + 1) TNode (s_sobj Sz)]) Done
                         (mkG (hdr g) (firstn pos (els g) ++ mkE 0 (n + 1) None (Some n) 0 ds :: skipn pos (els g))) true
    else nomut g ([Alloc n TData ds] ++ cp n from ds ++ [AllocFail TNode (s_sobj Sz); Free n]) Failed
  else nomut g [AllocFail TData ds] Failed.
(* popat = get_at(newmem, remove): malloc; memcpy; remove_obj: free(data); free(obj).  tmp: the copy is consumed inside the call (popint) *)
Definition script_list_popat (g : gst) (p : list elem) (e : elem) (q : list elem) (tmp : bool) (n : N) (al : nat -> bool) : sres gst :=
  match ename e, edata e with
  | None, Some d =>
    if al 0%nat then mkR ([Alloc n (if tmp then TTmp else TRet) (esz e)] ++ cp n (SBlk d) (esz e) ++ [Free d; Free (eobj e)] ++ (if tmp then [Free n] else [Return n])) Done
                         (mkG (hdr g) (p ++ q)) true
    else nomut g [AllocFail (if tmp then TTmp else TRet) (esz e)] Failed
  | _, _ => nomut g [] Nothing          (* list objects have a value and no key *)
  end.
(* getint: copy obtained and released inside the call *)
Definition script_list_gettmp (g : gst) (e : elem) (n : N) (al : nat -> bool) : sres gst :=
  match edata e with
  | Some d => if al 0%nat then nomut g ([Alloc n TTmp (esz e)] ++ cp n (SBlk d) (esz e) ++ [Free n]) Done else nomut g [AllocFail TTmp (esz e)] Failed
  | None => nomut g [] Nothing
  end.
(* toarray / tostring: one block, one memcpy per element (tostring: none for an element that is a single NUL byte: flags nz) *)
Fixpoint copies_from (n : blk) (l : list elem) (nz : list bool) : list event :=
  match l with
  | [] => []
  | e :: r => (match edata e, nz with
               | Some d, false :: _ => []
               | Some d, _ => [Copy n (SBlk d)]
               | None, _ => [] end) ++ copies_from n r (tl nz)
  end.
Definition script_list_toarray (g : gst) (size : N) (nz : list bool) (n : N) (al : nat -> bool) : sres gst :=
  match els g with
  | [] => nomut g [] Nothing
  | _ => if al 0%nat then nomut g ([Alloc n TRet size] ++ copies_from n (els g) nz ++ [Return n]) Done else nomut g [AllocFail TRet size] Failed
  end.

Inductive sop := SAddat (pos : nat) (ds : N) (local : bool) | SAddf (pos : nat) (len : N) | SGetat (pos : nat) | SPopat (pos : nat) (tmp : bool) | SGettmp (pos : nat) | SRemoveat (pos : nat)
               | SToarray (size : N) (nz : list bool) | SReverse | SNone | SClear.
Definition list_step (Sz : sizes) (g : gst) (o : sop) (n : N) (al : nat -> bool) : sres gst :=
  match o with
  | SAddat pos ds local => script_list_addat Sz g pos ds (if local then SOther else SCaller) n al
  | SAddf pos len => with_tmp g len n al (fun g1 t n1 al1 => if len =? 0 then nomut g1 [] Nothing else script_list_addat Sz g1 pos len (SBlk t) n1 al1)
  | SGetat pos => match split_pos pos (els g) with Some (_, e, _) => script_getdata g e n al | None => nomut g [] Nothing end
  | SPopat pos tmp => match split_pos pos (els g) with Some (p, e, q) => script_list_popat g p e q tmp n al | None => nomut g [] Nothing end
  | SGettmp pos => match split_pos pos (els g) with Some (_, e, _) => script_list_gettmp g e n al | None => nomut g [] Nothing end
  | SRemoveat pos => match split_pos pos (els g) with Some (p, e, q) => script_remove_elem g p e q | None => nomut g [] Nothing end
  | SToarray size nz => script_list_toarray g size nz n al
  | SReverse => mkR [] Done (mkG (hdr g) (rev (els g))) true
  | SNone => nomut g [] Nothing
  | SClear => script_clear g
  end.

(* ------------------------------------------------------------------ qhasharr: only the handle and the copies handed out are allocated *)
Inductive aop := AGet (ds : N) | ANext (ns ds : N) | APutf (len : N) | ANone.
Definition harr_step (g : gst) (o : aop) (n : N) (al : nat -> bool) : sres gst :=
  match o with
  | AGet ds => if al 0%nat then nomut g ([Alloc n TRet ds] ++ cp n SOther ds ++ [Return n]) Done else nomut g [AllocFail TRet ds] Failed
  | ANext ns ds =>
    if al 0%nat then
      if al 1%nat then nomut g ([Alloc n TRet (ns + 1); Copy n SOther; Alloc (n + 1) TRet ds] ++ cp (n + 1) SOther ds ++ [Return n; Return (n + 1)]) Done
      else nomut g [Alloc n TRet (ns + 1); Copy n SOther; AllocFail TRet ds; Free n] Failed
    else nomut g [AllocFail TRet (ns + 1)] Failed
  | APutf len => with_tmp g len n al (fun g1 t n1 al1 => mkR [] Done g1 true)
  | ANone => nomut g [] Nothing
  end.

(* ------------------------------------------------------------------ qvector *)
Record vst := mkV { vmx : option blk; vh : blk; vdata : option blk; vnum : N; vmax : N; vosz : N; vpol : N; vinit : N }.
Definition vblocks (v : vst) : list blk := olist (vmx v) ++ olist (vdata v) ++ [vh v].
Definition vset (v : vst) (d : option blk) (num max : N) : vst := mkV (vmx v) (vh v) d num max (vosz v) (vpol v) (vinit v).
(* qvector(max, objsize, options): calloc(vector); malloc(max * objsize) when max > 0; mutex.  pol: 2 double, 1 linear, 0 exact *)
Definition script_qvector (Sz : sizes) (max osz : N) (ts : bool) (pol : N) (n : N) (al : nat -> bool) : sres (option vst) :=
  let ini := if pol =? 1 then (if max =? 0 then 1 else max) else 0 in
  if al 0%nat then
    if max =? 0 then
      if ts then
        if al 1%nat then mkR [Alloc n THandle (s_vec Sz); Alloc (n + 1) TMutex (s_mutex Sz)] Done (Some (mkV (Some (n + 1)) n None 0 0 osz pol ini)) true
        else mkR [Alloc n THandle (s_vec Sz); AllocFail TMutex (s_mutex Sz); Free n] Failed None false
      else mkR [Alloc n THandle (s_vec Sz)] Done (Some (mkV None n None 0 0 osz pol ini)) true
    else
      if al 1%nat then
        if ts then
          if al 2%nat then mkR [Alloc n THandle (s_vec Sz); Alloc (n + 1) TBuf (max * osz); Alloc (n + 2) TMutex (s_mutex Sz)] Done
                               (Some (mkV (Some (n + 2)) n (Some (n + 1)) 0 max osz pol ini)) true
          else mkR [Alloc n THandle (s_vec Sz); Alloc (n + 1) TBuf (max * osz); AllocFail TMutex (s_mutex Sz); Free (n + 1); Free n] Failed None false
        else mkR [Alloc n THandle (s_vec Sz); Alloc (n + 1) TBuf (max * osz)] Done (Some (mkV None n (Some (n + 1)) 0 max osz pol ini)) true
      else mkR [Alloc n THandle (s_vec Sz); AllocFail TBuf (max * osz); Free n] Failed None false
  else mkR [AllocFail THandle (s_vec Sz)] Failed None false.
(* resize(newmax > 0) = realloc: a fresh block when there was none, else a moved block *)
Definition grow_events (v : vst) (newmax : N) (n : N) : list event :=
  match vdata v with None => [Alloc n TBuf (newmax * vosz v)] | Some d => [Realloc d n (newmax * vosz v)] end.
Definition newmax_of (v : vst) : N :=
  if vpol v =? 2 then (vmax v + 1) * 2 else if vpol v =? 1 then vmax v + vinit v else vmax v + 1.
(* addat(pos <= num): grow when full, shift the tail one element at a time (memcpy each), copy the caller's element in *)
Definition script_vec_addat (v : vst) (pos : N) (n : N) (al : nat -> bool) : sres vst :=
  if vmax v <=? vnum v then
    if al 0%nat then
      mkR (grow_events v (newmax_of v) n ++ repeat (Copy n (SBlk n)) (N.to_nat (vnum v - pos)) ++ [Copy n SCaller]) Done
          (vset v (Some n) (vnum v + 1) (newmax_of v)) true
    else mkR [AllocFail TBuf (newmax_of v * vosz v)] Failed v false
  else match vdata v with
       | Some d => mkR (repeat (Copy d (SBlk d)) (N.to_nat (vnum v - pos)) ++ [Copy d SCaller]) Done (vset v (Some d) (vnum v + 1) (vmax v)) true
       | None => mkR [] Nothing v false
       end.
Definition script_vec_resize (v : vst) (newmax : N) (n : N) (al : nat -> bool) : sres vst :=
  if newmax =? 0 then mkR (map Free (olist (vdata v))) Done (vset v None 0 0) true
  else if al 0%nat then mkR (grow_events v newmax n) Done (vset v (Some n) (N.min (vnum v) newmax) newmax) true
  else mkR [AllocFail TBuf (newmax * vosz v)] Failed v false.
Definition script_vec_getat (v : vst) (n : N) (al : nat -> bool) : sres vst :=
  match vdata v with
  | Some d => if al 0%nat then mkR [Alloc n TRet (vosz v); Copy n (SBlk d); Return n] Done v false else mkR [AllocFail TRet (vosz v)] Failed v false
  | None => mkR [] Nothing v false
  end.
Definition shift_down (v : vst) (d : blk) (pos : N) : list event := if pos + 1 <? vnum v then [Copy d (SBlk d)] else [].
Definition script_vec_popat (v : vst) (pos : N) (n : N) (al : nat -> bool) : sres vst :=
  match vdata v with
  | Some d => if al 0%nat then mkR ([Alloc n TRet (vosz v); Copy n (SBlk d)] ++ shift_down v d pos ++ [Return n]) Done (vset v (Some d) (vnum v - 1) (vmax v)) true
              else mkR [AllocFail TRet (vosz v)] Failed v false
  | None => mkR [] Nothing v false
  end.
Definition script_vec_removeat (v : vst) (pos : N) : sres vst :=
  match vdata v with
  | Some d => mkR (shift_down v d pos) Done (vset v (Some d) (vnum v - 1) (vmax v)) true
  | None => mkR [] Nothing v false
  end.
Definition script_vec_setat (v : vst) : sres vst :=
  match vdata v with Some d => mkR [Copy d SCaller] Done v true | None => mkR [] Nothing v false end.
(* reverse: malloc(objsize) scratch element; three memcpy per swapped pair; free *)
Definition script_vec_reverse (v : vst) (n : N) (al : nat -> bool) : sres vst :=
  if vnum v <=? 1 then mkR [] Nothing v false
  else match vdata v with
       | Some d => if al 0%nat then mkR ([Alloc n TTmp (vosz v)] ++ concat (repeat [Copy n (SBlk d); Copy d (SBlk d); Copy d (SBlk n)] (N.to_nat (vnum v / 2))) ++ [Free n]) Done v true
                   else mkR [AllocFail TTmp (vosz v)] Failed v false
       | None => mkR [] Nothing v false
       end.
Definition script_vec_toarray (v : vst) (n : N) (al : nat -> bool) : sres vst :=
  if vnum v =? 0 then mkR [] Nothing v false
  else match vdata v with
       | Some d => if al 0%nat then mkR [Alloc n TRet (vnum v * vosz v); Copy n (SBlk d); Return n] Done v false else mkR [AllocFail TRet (vnum v * vosz v)] Failed v false
       | None => mkR [] Nothing v false
       end.
Definition script_vec_free (v : vst) : sres (option vst) := mkR (map Free (vblocks v)) Done None true.

Inductive vop := VAddat (pos : N) | VGetat | VPopat (pos : N) | VRemoveat (pos : N) | VSetat | VResize (newmax : N) | VReverse | VToarray | VNone | VClear.
Definition vec_step (v : vst) (o : vop) (n : N) (al : nat -> bool) : sres vst :=
  match o with
  | VAddat pos => script_vec_addat v pos n al
  | VGetat => script_vec_getat v n al
  | VPopat pos => script_vec_popat v pos n al
  | VRemoveat pos => script_vec_removeat v pos
  | VSetat => script_vec_setat v
  | VResize m => script_vec_resize v m n al
  | VReverse => script_vec_reverse v n al
  | VToarray => script_vec_toarray v n al
  | VNone => mkR [] Nothing v false
  | VClear => mkR [] Done (vset v (vdata v) 0 (vmax v)) true
  end.

(* ------------------------------------------------------------------ histories *)
Definition oracle := nat -> bool.
Fixpoint hrun {St Op} (step : St -> Op -> N -> oracle -> sres St) (s : St) (l : ledger) (h : list (Op * oracle)) : St * ledger :=
  match h with
  | [] => (s, l)
  | (o, al) :: r => let x := step s o (nxt l) al in hrun step (st' x) (run l (evs x)) r
  end.
(* all event lists of a history are legal *)
Fixpoint hsafe {St Op} (step : St -> Op -> N -> oracle -> sres St) (s : St) (l : ledger) (h : list (Op * oracle)) : Prop :=
  match h with
  | [] => True
  | (o, al) :: r => let x := step s o (nxt l) al in safe l (evs x) /\ hsafe step (st' x) (run l (evs x)) r
  end.
