(* Soundness of every allocation script: from a ledger whose owned blocks are exactly the blocks of the container summary the
   events are legal, and afterwards the owned blocks are exactly the blocks of the new summary (for every oracle).
   Plus: atomicity on failure, agreement with the fault-free run on success, fresh private copies, histories. *)
From Coq Require Import List NArith Bool Lia Arith.
From QV.Alloc Require Import Ledger Scripts LedgerTac.
Import ListNotations.
Open Scope N_scope.

Ltac fin := solve [cbn [andb orb negb]; cbn [evs st' oblocks out mutated nomut andb orb negb]; eexists; tsteps].

(* ------------------------------------------------------------------ constructors *)
Lemma ctor_sound hsz msz ts k al : sound (oblocks gblocks) [] (script_ctor hsz msz ts k al) k.
Proof. unfold sound, script_ctor. destruct (al 0%nat), ts, (al 1%nat); fin. Qed.
Lemma qhashtbl_sound Sz range ts k al : sound (oblocks gblocks) [] (script_qhashtbl Sz range ts k al) k.
Proof. unfold sound, script_qhashtbl. destruct (al 0%nat), (al 1%nat), ts, (al 2%nat); fin. Qed.
Lemma wrapper_sound osz Sz ts k al : sound (oblocks gblocks) [] (script_wrapper osz Sz ts k al) k.
Proof. unfold sound, script_wrapper. destruct (al 0%nat), (al 1%nat), ts, (al 2%nat); fin. Qed.
Lemma qhasharr_sound Sz k al : sound (oblocks gblocks) [] (script_qhasharr Sz k al) k.
Proof. unfold sound, script_qhasharr. destruct (al 0%nat); fin. Qed.
Lemma qvector_sound Sz max osz ts pol k al : sound (oblocks vblocks) [] (script_qvector Sz max osz ts pol k al) k.
Proof. unfold sound, script_qvector. destruct (al 0%nat), (max =? 0), ts, (al 1%nat), (al 2%nat); fin. Qed.

(* ------------------------------------------------------------------ shared pieces *)
Ltac prep g E := destruct g as [h l0]; cbn [els hdr] in *; subst l0.
Ltac dopt := repeat match goal with
  | |- context[match ?o with Some _ => _ | None => _ end] => let D := fresh "D" in destruct o eqn:D
  | |- context[olist ?o] => let D := fresh "D" in destruct o eqn:D
  end.

(* a copy source given as a parameter: the caller / static data, or a block of the container summary *)
Definition src_in (g : gst) (s : src) : Prop := forall b, s = SBlk b -> In b (gblocks g).
Lemma src_in_caller g : src_in g SCaller. Proof. intros b H; discriminate. Qed.
Lemma src_in_other g : src_in g SOther. Proof. intros b H; discriminate. Qed.
Lemma src_from_blocks g s : src_in g s -> forall c : cfun, (forall b, (c b >= count b (gblocks g))%nat) -> src_cnt c s.
Proof. intros Hf c Hc. destruct s; simpl; auto. specialize (Hf _ eq_refl). apply count_in in Hf. specialize (Hc b). lia. Qed.
Ltac tstepf Sf := first [ match goal with |- T _ _ (Copy _ ?s :: _) _ _ => is_var s; apply T_copy; [side | apply Sf; intro; side |] end | tstep ].
Ltac finf Sf := solve [cbn [andb orb negb]; cbn [evs st' oblocks out mutated nomut andb orb negb]; eexists; cbn [app map olist]; repeat tstepf Sf].

Lemma getdata_sound g p e q k al : els g = p ++ e :: q -> sound gblocks (gblocks g) (script_getdata g e k al) k.
Proof. intros E. prep g E. unfold sound, script_getdata, cp. destruct (edata e) eqn:D; [destruct (al 0%nat), (esz e =? 0)|]; fin. Qed.
Lemma getname_sound g p e q k al : els g = p ++ e :: q -> sound gblocks (gblocks g) (script_getname g e k al) k.
Proof. intros E. prep g E. unfold sound, script_getname. destruct (ename e) eqn:D; [destruct (al 0%nat)|]; fin. Qed.
Lemma getpair_sound late g p e q k al : els g = p ++ e :: q -> sound gblocks (gblocks g) (script_getpair late g e k al) k.
Proof.
  intros E. prep g E. unfold sound, script_getpair, cp.
  destruct (ename e) eqn:Dn; [|fin]. destruct (edata e) eqn:Dd.
  - destruct (al 0%nat), (al 1%nat), late, (esz e =? 0); fin.
  - destruct (al 0%nat); fin.
Qed.
Lemma remove_elem_sound g p e q k : els g = p ++ e :: q -> sound gblocks (gblocks g) (script_remove_elem g p e q) k.
Proof.
  intros E. prep g E. unfold sound, script_remove_elem. cbn [evs st'].
  eexists. rewrite <- (app_nil_r (map Free _)). apply T_frees; [intro; side|]. apply T_nil. intro; side.
Qed.
Lemma clear_sound g k : sound gblocks (gblocks g) (script_clear g) k.
Proof.
  unfold sound, script_clear. cbn [evs st']. destruct g as [h l0].
  eexists. rewrite <- (app_nil_r (map Free _)). apply T_frees; [intro; side|]. apply T_nil. intro; side.
Qed.
Lemma free_sound g k : sound (oblocks gblocks) (gblocks g) (script_free g) k.
Proof.
  unfold sound, script_free. cbn [evs st' oblocks]. destruct g as [h l0].
  eexists. rewrite <- (app_nil_r (map Free _)). apply T_frees; [intro; side|]. apply T_nil. intro; side.
Qed.

(* ------------------------------------------------------------------ qtreetbl *)
Lemma tree_put_new_sound Sz g key ns ds dfrom k al : src_in g dfrom -> sound gblocks (gblocks g) (script_tree_put_new Sz g key ns ds dfrom k al) k.
Proof. intros Hf. assert (Sf := src_from_blocks g dfrom Hf). destruct g as [h l0]. unfold sound, script_tree_put_new. destruct (al 0%nat), (al 1%nat), (al 2%nat), (ds =? 0); cbn [negb andb orb]; finf Sf. Qed.
Lemma tree_put_old_sound g p e q ds dfrom k al : src_in g dfrom -> els g = p ++ e :: q -> sound gblocks (gblocks g) (script_tree_put_old g p e q ds dfrom k al) k.
Proof. intros Hf E. assert (Sf := src_from_blocks g dfrom Hf). prep g E. unfold sound, script_tree_put_old. destruct (ds =? 0), (al 0%nat), (edata e) eqn:D; finf Sf. Qed.
Lemma tree_remove_sound g p e q succ k : els g = p ++ e :: q -> sound gblocks (gblocks g) (script_tree_remove g p e q succ) k.
Proof.
  intros E. destruct succ as [sk|]; [|apply remove_elem_sound; auto].
  prep g E. unfold script_tree_remove. destruct (split_key sk (p ++ q)) as [[[p2 s] q2]|] eqn:S; [|unfold sound; fin].
  apply split_key_eq in S as [S _]. unfold sound. cbn [evs st'].
  eexists. rewrite <- (app_nil_r (map Free _)). apply T_frees.
  - intro b. cnt. assert (X := f_equal (fun l => count b (flat_map eblocks l)) S). cbv beta in X. revert X. cnt. destruct (ename e), (edata e); cnt; lia.
  - apply T_nil. intro b. cnt. assert (X := f_equal (fun l => count b (flat_map eblocks l)) S). cbv beta in X. revert X. cnt. destruct (ename e), (edata e); cnt; lia.
Qed.
(* ------------------------------------------------------------------ DYNAMIC_VSPRINTF, putstrf / addstrf *)
(* the formatting loop: every round's buffer is released before the next is requested; at the end the only extra block is the result *)
Lemma vs_loop_T fuel : forall len size al k n (c : cfun),
  T c n (fst (fst (fst (vs_loop fuel len size al k n)))) (fun x => (count x (olist (snd (fst (fst (vs_loop fuel len size al k n))))) + c x)%nat) (snd (fst (vs_loop fuel len size al k n))).
Proof.
  induction fuel as [|f IH]; intros len size al k n c; cbn [vs_loop].
  - cbn [fst snd olist]. apply T_nil. intro; side.
  - destruct (al k); [destruct (len <? size)|].
    + cbn [fst snd olist]. tsteps.
    + specialize (IH len (size * 2) al (S k) (n + 1) c).
      destruct (vs_loop f len (size * 2) al (S k) (n + 1)) as [[[ev r] n'] k']. cbn [fst snd] in *.
      tstep. tstep. eapply T_ext; [|exact IH]. intro; side.
    + cbn [fst snd olist]. tsteps.
Qed.
Lemma with_tmp_sound g len k al body :
  (forall t n1 al1, sound gblocks (gblocks (mkG (t :: hdr g) (els g))) (body (mkG (t :: hdr g) (els g)) t n1 al1) n1 /\
                    hdr (st' (body (mkG (t :: hdr g) (els g)) t n1 al1)) = t :: hdr g) ->
  sound gblocks (gblocks g) (with_tmp g len k al body) k.
Proof.
  intros Hb. unfold with_tmp. assert (V := vs_loop_T vs_fuel len 1024 al 0%nat k (fun x => count x (gblocks g))).
  destruct (vs_loop vs_fuel len 1024 al 0%nat k) as [[[ev r] n'] k']. cbn [fst snd] in V.
  destruct r as [t|].
  - destruct (Hb t n' (shift al k')) as [[k2 Hx] Hh]. unfold sound. cbn [evs st'].
    exists k2. eapply T_app; [exact V|]. eapply T_app.
    + eapply T_ext; [|exact Hx]. intro b. destruct g. cnt. lia.
    + apply T_free; [|apply T_nil; intro b]; cbv beta; unfold gblocks; cbn [hdr els]; rewrite Hh; cnt; lia.
  - unfold sound. cbn [evs st' nomut]. exists n'. exact V.
Qed.
Lemma src_in_tmp t h l0 : src_in (mkG (t :: h) l0) (SBlk t).
Proof. intros b E. inversion E; subst. unfold gblocks. simpl. auto. Qed.

Ltac crackh := repeat match goal with
  | |- context[if ?b then _ else _] => destruct b
  | |- context[match ?x with _ => _ end] => destruct x
  end; reflexivity.
Lemma nothing_sound g k : sound gblocks (gblocks g) (nomut g [] Nothing) k.
Proof. destruct g. unfold sound. fin. Qed.
Ltac by_split := match goal with
  | |- context[split_key ?k ?l] => let S := fresh "S" in destruct (split_key k l) as [[[? ?] ?]|] eqn:S; [apply split_key_eq in S as [S _]|]
  | |- context[split_pos ?k ?l] => let S := fresh "S" in destruct (split_pos k l) as [[[? ?] ?]|] eqn:S; [apply split_pos_eq in S|]
  end.
Theorem tree_step_sound Sz g o k al : sound gblocks (gblocks g) (tree_step Sz g o k al) k.
Proof.
  destruct o; cbn [tree_step]; try (apply with_tmp_sound; intros t n1 al1); try by_split;
    eauto using nothing_sound, clear_sound, tree_put_old_sound, tree_put_new_sound, getdata_sound, tree_remove_sound, getname_sound, getpair_sound, src_in_caller.
  - split; [apply tree_put_old_sound; [apply src_in_tmp|exact S]|]. unfold script_tree_put_old. crackh.
  - split; [apply tree_put_new_sound; apply src_in_tmp|]. unfold script_tree_put_new. crackh.
Qed.

(* ------------------------------------------------------------------ qhashtbl *)
Lemma hash_put_new_sound Sz g key ns ds dfrom k al : src_in g dfrom -> sound gblocks (gblocks g) (script_hash_put Sz g None key ns ds dfrom k al) k.
Proof. intros Hf. assert (Sf := src_from_blocks g dfrom Hf). destruct g as [h l0]. unfold sound, script_hash_put, cp. destruct (al 0%nat), (al 1%nat), (al 2%nat), (ds =? 0); finf Sf. Qed.
Lemma hash_put_old_sound Sz g p e q key ns ds dfrom k al : src_in g dfrom -> els g = p ++ e :: q -> sound gblocks (gblocks g) (script_hash_put Sz g (Some (p, e, q)) key ns ds dfrom k al) k.
Proof. intros Hf E. assert (Sf := src_from_blocks g dfrom Hf). prep g E. unfold sound, script_hash_put, cp. destruct (al 0%nat), (al 1%nat), (ds =? 0), (ename e) eqn:Dn, (edata e) eqn:Dd; finf Sf. Qed.
Theorem hash_step_sound Sz g o k al : sound gblocks (gblocks g) (hash_step Sz g o k al) k.
Proof.
  destruct o; cbn [hash_step]; try (apply with_tmp_sound; intros t n1 al1); try by_split;
    eauto using nothing_sound, clear_sound, hash_put_old_sound, hash_put_new_sound, getdata_sound, remove_elem_sound, getpair_sound, src_in_caller.
  - split; [apply hash_put_old_sound; [apply src_in_tmp|exact S]|]. unfold script_hash_put. crackh.
  - split; [apply hash_put_new_sound; apply src_in_tmp|]. unfold script_hash_put. crackh.
Qed.

(* ------------------------------------------------------------------ qlist / wrappers / qhasharr *)
Lemma list_addat_sound Sz g pos ds from k al : src_in g from -> sound gblocks (gblocks g) (script_list_addat Sz g pos ds from k al) k.
Proof.
  intros Hf. destruct g as [h l0]. unfold sound, script_list_addat, cp.
  assert (Sf : forall c : cfun, (forall b, (c b >= count b (gblocks (mkG h l0)))%nat) -> src_cnt c from).
  { intros c Hc. destruct from; simpl; auto. specialize (Hf _ eq_refl). apply count_in in Hf. specialize (Hc b). lia. }
  destruct (al 0%nat), (al 1%nat), (ds =? 0); cbn [andb orb negb]; cbn [evs st' nomut]; eexists; cbn [app map olist];
    repeat first [ match goal with |- T _ _ (Copy _ from :: _) _ _ => apply T_copy; [side| apply Sf; intro; side |] end | tstep ].
  all: match goal with b : blk |- _ => assert (X : count b (flat_map eblocks l0) = (count b (flat_map eblocks (firstn pos l0)) + count b (flat_map eblocks (skipn pos l0)))%nat) by (rewrite <- count_flat_app, firstn_skipn; reflexivity) end; cnt; lia.
Qed.
Lemma list_popat_sound g p e q tmp k al : els g = p ++ e :: q -> sound gblocks (gblocks g) (script_list_popat g p e q tmp k al) k.
Proof. intros E. prep g E. unfold sound, script_list_popat, cp. destruct (ename e) eqn:Dn; [destruct (edata e); fin|]. destruct (edata e) eqn:D; [|fin]. destruct (al 0%nat), tmp, (esz e =? 0); fin. Qed.
Lemma list_gettmp_sound g p e q k al : els g = p ++ e :: q -> sound gblocks (gblocks g) (script_list_gettmp g e k al) k.
Proof. intros E. prep g E. unfold sound, script_list_gettmp, cp. destruct (edata e) eqn:D; [destruct (al 0%nat), (esz e =? 0)|]; fin. Qed.
Lemma copies_from_ok n l : forall nz (c : cfun), (c n >= 1)%nat -> (forall b, (c b >= count b (flat_map eblocks l))%nat) ->
  forall e, In e (copies_from n l nz) -> exists d s, e = Copy d s /\ (c d >= 1)%nat /\ src_cnt c s.
Proof.
  induction l as [|x l IH]; cbn [copies_from flat_map]; intros nz c Hn Hc e I; [destruct I|].
  apply in_app_or in I as [I|I].
  - destruct (edata x) as [d|] eqn:D; [|destruct I].
    assert (Gd : (c d >= 1)%nat). { specialize (Hc d). revert Hc. rewrite count_app, count_eblocks, D. cbn [olist]. rewrite !count_cons, N.eqb_refl. simpl. lia. }
    destruct nz as [|[|] nz]; cbn [In] in I; try (destruct I as [<-|I]; [|destruct I]; exists n, (SBlk d); simpl; auto). destruct I.
  - eapply IH; eauto. intros b. specialize (Hc b). rewrite count_app in Hc. lia.
Qed.
Lemma list_toarray_sound g size nz k al : sound gblocks (gblocks g) (script_list_toarray g size nz k al) k.
Proof.
  destruct g as [h l0]. unfold sound, script_list_toarray. cbn [els]. destruct l0 as [|x l0]; [fin|]. destruct (al 0%nat); [|fin].
  cbn [evs st' nomut]. eexists. cbn [app]. tstep.
  apply T_copies.
  - apply copies_from_ok; [side|]. intro b. cnt. lia.
  - tsteps.
Qed.
Theorem list_step_sound Sz g o k al : sound gblocks (gblocks g) (list_step Sz g o k al) k.
Proof.
  destruct o; cbn [list_step]; try by_split;
    eauto using nothing_sound, clear_sound, getdata_sound, remove_elem_sound, list_popat_sound, list_gettmp_sound, list_toarray_sound.
  - apply list_addat_sound; destruct local; intros b H; discriminate.
  - apply with_tmp_sound; intros t n1 al1. destruct (len =? 0).
    + split; [apply nothing_sound|reflexivity].
    + split; [apply list_addat_sound; apply src_in_tmp|unfold script_list_addat; crackh].
  - destruct g as [h l0]. unfold sound. cbn [evs st']. eexists. tsteps.
Qed.
Theorem harr_step_sound g o k al : sound gblocks (gblocks g) (harr_step g o k al) k.
Proof.
  destruct o.
  - destruct g as [h l0]; unfold sound, harr_step, cp; destruct (al 0%nat), (ds =? 0); fin.
  - destruct g as [h l0]; unfold sound, harr_step, cp; destruct (al 0%nat), (al 1%nat), (ds =? 0); fin.
  - cbn [harr_step]. apply with_tmp_sound; intros t n1 al1. split; [|reflexivity]. unfold sound. cbn [evs st']. eexists. apply T_nil. intro; reflexivity.
  - destruct g as [h l0]; unfold sound, harr_step; fin.
Qed.

(* ------------------------------------------------------------------ qlisttbl *)
Lemma ltbl_put_sound Sz g uniq top fwd key ns ds dfrom k al : src_in g dfrom -> sound gblocks (gblocks g) (script_ltbl_put Sz g uniq top fwd key ns ds dfrom k al) k.
Proof.
  intros Hf. assert (Sf := src_from_blocks g dfrom Hf).
  destruct g as [h l0]. unfold sound, script_ltbl_put, cp.
  destruct (al 0%nat), (al 1%nat), (al 2%nat); cbn [andb]; try (destruct (ds =? 0); finf Sf).
  cbn [evs st' hdr els]. eexists. cbn [app].
  assert (P := fun b => count_flat_filter b eblocks (keyis key) l0).
  destruct (ds =? 0); cbn [app]; repeat tstepf Sf;
    (rewrite <- (app_nil_r (map Free _)); apply T_frees; [intro b; specialize (P b); destruct uniq, fwd; cnt; lia|]; apply T_nil; intro b; specialize (P b); destruct uniq, top, fwd; cnt; lia).
Qed.
Lemma ltbl_remove_sound g fwd key own k : sound gblocks (gblocks g) (script_ltbl_remove g fwd key own) k.
Proof.
  destruct g as [h l0]. unfold sound, script_ltbl_remove. cbn [els hdr].
  assert (P := fun b => count_flat_filter b eblocks (keyis key) l0).
  destruct (filter (keyis key) l0) as [|x gone] eqn:F; [fin|]. cbn [evs st']. eexists.
  rewrite <- (app_nil_r (map Free _)); apply T_frees; [intro b; specialize (P b); rewrite count_flat_own_last; destruct fwd; cnt; revert P; cnt; lia|].
  apply T_nil; intro b; specialize (P b); rewrite count_flat_own_last; destruct fwd; cnt; revert P; cnt; lia.
Qed.

(* getmulti: loop invariant = the container's blocks (c0, untouched) + the result array + the value copies collected so far *)
Lemma gm_loop_sound Sz al ms : forall n k arr cap cnt got (c0 : cfun),
  (forall e, In e ms -> forall b, In b (olist (ename e) ++ olist (edata e)) -> (c0 b >= 1)%nat) ->
  exists k', T (fun x => (c0 x + count x (olist arr ++ got))%nat) n (fst (gm_loop Sz al ms n k arr cap cnt got)) c0 k'.
Proof.
  induction ms as [|e r IH]; intros n k arr cap cnt got c0 Hin; cbn [gm_loop fst].
  - eexists. rewrite <- (app_nil_r (map Return _)). apply T_returns; [intro; side|]. apply T_nil. intro; side.
  - assert (Hr : forall e0, In e0 r -> forall b, In b (olist (ename e0) ++ olist (edata e0)) -> (c0 b >= 1)%nat) by (intros; eapply Hin; eauto; right; auto).
    assert (He := Hin e (or_introl eq_refl)).
    assert (Cleanup : forall kk, exists k', T (fun x => (c0 x + count x (olist arr ++ got))%nat) kk (map Free (got ++ olist arr)) c0 k').
    { intros kk. eexists. rewrite <- (app_nil_r (map Free _)). apply T_frees; [intro; side|]. apply T_nil. intro; side. }
    destruct (ename e) as [nm|] eqn:Dn; [|cbn [fst]; apply Cleanup].
    destruct (edata e) as [d|] eqn:Dd; [|cbn [fst]; apply Cleanup].
    assert (Gn : (c0 nm >= 1)%nat) by (apply He; simpl; auto).
    assert (Gd : (c0 d >= 1)%nat) by (apply He; simpl; auto).
    unfold cp.
    destruct (al k), (al (S k)); cbn [andb];
      try solve [cbn [fst app]; eexists; repeat tstep; rewrite <- (app_nil_r (map Free _)); apply T_frees; [intro; side|]; apply T_nil; intro; side].
    destruct (cap <=? cnt + 1).
    + destruct (al (S (S k))).
      * destruct (IH (n + 1 + 1 + 1) (S (S (S k))) (Some (n + 1 + 1)) (if cap =? 0 then 10 else cap * 2) (cnt + 1) (got ++ [n + 1]) c0 Hr) as [k' HT].
        destruct (gm_loop Sz al r (n + 1 + 1 + 1) (S (S (S k))) (Some (n + 1 + 1)) (if cap =? 0 then 10 else cap * 2) (cnt + 1) (got ++ [n + 1])) as [er o].
        cbn [fst] in *. exists k'.
        destruct (esz e =? 0), arr as [a|]; cbn [app]; repeat tstep; (eapply T_ext; [|exact HT]); intro; side.
      * cbn [fst]. eexists. destruct (esz e =? 0); cbn [app]; repeat tstep; (rewrite <- (app_nil_r (map Free _)); apply T_frees; [intro; side|]; apply T_nil; intro; side).
    + destruct (IH (n + 1 + 1) (S (S k)) arr cap (cnt + 1) (got ++ [n + 1]) c0 Hr) as [k' HT].
      destruct (gm_loop Sz al r (n + 1 + 1) (S (S k)) arr cap (cnt + 1) (got ++ [n + 1])) as [er o].
      cbn [fst] in *. exists k'.
      destruct (esz e =? 0); cbn [app]; repeat tstep; (eapply T_ext; [|exact HT]); intro; side.
Qed.
Lemma ltbl_getmulti_sound Sz g fwd key k al : sound gblocks (gblocks g) (script_ltbl_getmulti Sz g fwd key k al) k.
Proof.
  unfold sound, script_ltbl_getmulti.
  set (ms := if fwd then filter (keyis key) (els g) else rev (filter (keyis key) (els g))).
  destruct (gm_loop_sound Sz al ms k 0%nat None 0 0 [] (fun x => count x (gblocks g))) as [k' HT].
  { intros e I b Ib. assert (Ie : In e (els g)). { subst ms. destruct fwd; [|apply in_rev in I]; apply filter_In in I; tauto. }
    apply count_in. unfold gblocks. apply in_or_app. right. apply in_flat_map. exists e. split; auto. unfold eblocks. right. auto. }
  destruct (gm_loop Sz al ms k 0%nat None 0 0 []) as [ev o]. cbn [fst evs st' nomut] in *.
  exists k'. eapply T_ext; [|exact HT]. intro; side.
Qed.
Theorem ltbl_step_sound Sz g o k al : sound gblocks (gblocks g) (ltbl_step Sz g o k al) k.
Proof.
  destruct o; cbn [ltbl_step]; try (apply with_tmp_sound; intros t n1 al1; split; [apply ltbl_put_sound; apply src_in_tmp|unfold script_ltbl_put; crackh]); try by_split;
    eauto using nothing_sound, clear_sound, getdata_sound, getpair_sound, ltbl_put_sound, ltbl_remove_sound, ltbl_getmulti_sound, src_in_caller.
Qed.

(* ------------------------------------------------------------------ qvector *)
Ltac vfin := solve [cbn [andb orb negb]; cbn [evs st' oblocks out mutated]; eexists; tsteps].
Lemma T_repeat_copy d s m : forall c k r c' k', (c d >= 1)%nat -> src_cnt c s -> T c k r c' k' -> T c k (repeat (Copy d s) m ++ r) c' k'.
Proof. intros c k r c' k' Gd Gs H. apply T_copies; auto. intros e I. apply repeat_spec in I. subst. eauto. Qed.
Lemma vec_addat_sound v pos k al : sound vblocks (vblocks v) (script_vec_addat v pos k al) k.
Proof.
  destruct v as [mx h d num max osz pol ini]. unfold sound, script_vec_addat, grow_events. cbn [vmx vh vdata vnum vmax vosz vpol vinit].
  destruct (max <=? num).
  - destruct (al 0%nat); [|vfin]. cbn [evs st']. eexists. destruct d as [d|]; cbn [app]; tstep; (apply T_repeat_copy; [side|unfold src_cnt; side|]); tsteps.
  - destruct d as [d|]; [|vfin]. cbn [evs st']. eexists. apply T_repeat_copy; [side|unfold src_cnt; side|]. tsteps.
Qed.
Lemma vec_resize_sound v m k al : sound vblocks (vblocks v) (script_vec_resize v m k al) k.
Proof. destruct v as [mx h d num max osz pol ini]. unfold sound, script_vec_resize, grow_events. cbn [vmx vh vdata vnum vmax vosz]. destruct (m =? 0), (al 0%nat), d; vfin. Qed.
Lemma vec_getat_sound v k al : sound vblocks (vblocks v) (script_vec_getat v k al) k.
Proof. destruct v as [mx h d num max osz pol ini]. unfold sound, script_vec_getat. cbn [vdata vosz]. destruct d; [destruct (al 0%nat)|]; vfin. Qed.
Lemma vec_popat_sound v pos k al : sound vblocks (vblocks v) (script_vec_popat v pos k al) k.
Proof. destruct v as [mx h d num max osz pol ini]. unfold sound, script_vec_popat, shift_down. cbn [vdata vosz vnum vmax]. destruct d; [destruct (al 0%nat), (pos + 1 <? num)|]; vfin. Qed.
Lemma vec_removeat_sound v pos k : sound vblocks (vblocks v) (script_vec_removeat v pos) k.
Proof. destruct v as [mx h d num max osz pol ini]. unfold sound, script_vec_removeat, shift_down. cbn [vdata vosz vnum vmax]. destruct d; [destruct (pos + 1 <? num)|]; vfin. Qed.
Lemma vec_setat_sound v k : sound vblocks (vblocks v) (script_vec_setat v) k.
Proof. destruct v as [mx h d num max osz pol ini]. unfold sound, script_vec_setat. cbn [vdata]. destruct d; vfin. Qed.
Lemma vec_reverse_sound v k al : sound vblocks (vblocks v) (script_vec_reverse v k al) k.
Proof.
  destruct v as [mx h d num max osz pol ini]. unfold sound, script_vec_reverse. cbn [vdata vosz vnum].
  destruct (num <=? 1); [vfin|]. destruct d as [d|]; [|vfin]. destruct (al 0%nat); [|vfin].
  cbn [evs st']. eexists. cbn [app]. tstep. apply T_copies; [|tsteps].
  intros e I. apply in_concat in I as (x & Ix & Ie). apply repeat_spec in Ix. subst x.
  destruct Ie as [<-|[<-|[<-|[]]]]; do 2 eexists; (split; [reflexivity|split; [side|unfold src_cnt; side]]).
Qed.
Lemma vec_toarray_sound v k al : sound vblocks (vblocks v) (script_vec_toarray v k al) k.
Proof. destruct v as [mx h d num max osz pol ini]. unfold sound, script_vec_toarray. cbn [vdata vosz vnum]. destruct (num =? 0), d; try vfin; destruct (al 0%nat); vfin. Qed.
Theorem vec_step_sound v o k al : sound vblocks (vblocks v) (vec_step v o k al) k.
Proof.
  destruct o; cbn [vec_step]; eauto using vec_addat_sound, vec_resize_sound, vec_getat_sound, vec_popat_sound, vec_removeat_sound, vec_setat_sound, vec_reverse_sound, vec_toarray_sound.
  - destruct v. unfold sound. vfin.
  - destruct v. unfold sound. vfin.
Qed.
Lemma vec_free_sound v k : sound (oblocks vblocks) (vblocks v) (script_vec_free v) k.
Proof.
  unfold sound, script_vec_free. cbn [evs st' oblocks].
  eexists. rewrite <- (app_nil_r (map Free _)). apply T_frees; [intro; side|]. apply T_nil. intro; side.
Qed.
