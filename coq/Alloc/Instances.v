(* The generic history / lifecycle / returned-copy theorems instantiated for every container. *)
From Coq Require Import List NArith Bool Lia.
From QV.Alloc Require Import Ledger Scripts LedgerTac ScriptProofs Theorems.
Import ListNotations.
Open Scope N_scope.

Lemma free_none g : st' (script_free g) = None. Proof. reflexivity. Qed.
Lemma vec_free_none v : st' (script_vec_free v) = None. Proof. reflexivity. Qed.

Section WithSizes.
  Variable Sz : sizes.
  (* ---- whole life: constructor, any history, destructor ---- *)
  Definition tree_life ts al := lifecycle (tree_step Sz) gblocks (tree_step_sound Sz) script_free free_sound free_none (script_ctor (s_tree Sz) (s_mutex Sz) ts 1 al) (ctor_sound _ _ ts 1 al).
  Definition hash_life range ts al := lifecycle (hash_step Sz) gblocks (hash_step_sound Sz) script_free free_sound free_none (script_qhashtbl Sz range ts 1 al) (qhashtbl_sound Sz range ts 1 al).
  Definition ltbl_life ts al := lifecycle (ltbl_step Sz) gblocks (ltbl_step_sound Sz) script_free free_sound free_none (script_ctor (s_ltbl Sz) (s_mutex Sz) ts 1 al) (ctor_sound _ _ ts 1 al).
  Definition list_life ts al := lifecycle (list_step Sz) gblocks (list_step_sound Sz) script_free free_sound free_none (script_ctor (s_list Sz) (s_mutex Sz) ts 1 al) (ctor_sound _ _ ts 1 al).
  Definition wrapper_life osz ts al := lifecycle (list_step Sz) gblocks (list_step_sound Sz) script_free free_sound free_none (script_wrapper osz Sz ts 1 al) (wrapper_sound osz Sz ts 1 al).
  Definition harr_life al := lifecycle harr_step gblocks harr_step_sound script_free free_sound free_none (script_qhasharr Sz 1 al) (qhasharr_sound Sz 1 al).
  Definition vec_life max osz ts pol al := lifecycle vec_step vblocks vec_step_sound script_vec_free vec_free_sound vec_free_none (script_qvector Sz max osz ts pol 1 al) (qvector_sound Sz max osz ts pol 1 al).

  (* ---- returned copies stay untouched ---- *)
  Definition tree_returned := returned_independent (tree_step Sz) gblocks (tree_step_sound Sz) script_free free_sound.
  Definition hash_returned := returned_independent (hash_step Sz) gblocks (hash_step_sound Sz) script_free free_sound.
  Definition ltbl_returned := returned_independent (ltbl_step Sz) gblocks (ltbl_step_sound Sz) script_free free_sound.
  Definition list_returned := returned_independent (list_step Sz) gblocks (list_step_sound Sz) script_free free_sound.
  Definition harr_returned := returned_independent harr_step gblocks harr_step_sound script_free free_sound.
  Definition vec_returned := returned_independent vec_step vblocks vec_step_sound script_vec_free vec_free_sound.

  Definition tree_owns := owns_only_own_allocations (tree_step Sz) gblocks (tree_step_sound Sz).
  Definition hash_owns := owns_only_own_allocations (hash_step Sz) gblocks (hash_step_sound Sz).
  Definition ltbl_owns := owns_only_own_allocations (ltbl_step Sz) gblocks (ltbl_step_sound Sz).
  Definition list_owns := owns_only_own_allocations (list_step Sz) gblocks (list_step_sound Sz).
  Definition vec_owns := owns_only_own_allocations vec_step vblocks vec_step_sound.
End WithSizes.

(* ---- per-call corollaries (C15) ---- *)
Lemma tree_valid_thm : forall Sz g o al l, Inv (gblocks g) l ->
  safe l (evs (tree_step Sz g o (nxt l) al)) /\ Inv (gblocks (st' (tree_step Sz g o (nxt l) al))) (run l (evs (tree_step Sz g o (nxt l) al))).
Proof. intros Sz g o al l I. exact (sound_safe gblocks _ _ l (tree_step_sound Sz g o (nxt l) al) I). Qed.

Lemma hashtbl_valid_thm : forall Sz g o al l, Inv (gblocks g) l ->
  safe l (evs (hash_step Sz g o (nxt l) al)) /\ Inv (gblocks (st' (hash_step Sz g o (nxt l) al))) (run l (evs (hash_step Sz g o (nxt l) al))).
Proof. intros Sz g o al l I. exact (sound_safe gblocks _ _ l (hash_step_sound Sz g o (nxt l) al) I). Qed.

Lemma listtbl_valid_thm : forall Sz g o al l, Inv (gblocks g) l ->
  safe l (evs (ltbl_step Sz g o (nxt l) al)) /\ Inv (gblocks (st' (ltbl_step Sz g o (nxt l) al))) (run l (evs (ltbl_step Sz g o (nxt l) al))).
Proof. intros Sz g o al l I. exact (sound_safe gblocks _ _ l (ltbl_step_sound Sz g o (nxt l) al) I). Qed.

Lemma list_valid_thm : forall Sz g o al l, Inv (gblocks g) l ->
  safe l (evs (list_step Sz g o (nxt l) al)) /\ Inv (gblocks (st' (list_step Sz g o (nxt l) al))) (run l (evs (list_step Sz g o (nxt l) al))).
Proof. intros Sz g o al l I. exact (sound_safe gblocks _ _ l (list_step_sound Sz g o (nxt l) al) I). Qed.

Lemma hasharr_valid_thm : forall g o al l, Inv (gblocks g) l ->
  safe l (evs (harr_step g o (nxt l) al)) /\ Inv (gblocks (st' (harr_step g o (nxt l) al))) (run l (evs (harr_step g o (nxt l) al))).
Proof. intros g o al l I. exact (sound_safe gblocks _ _ l (harr_step_sound g o (nxt l) al) I). Qed.

Lemma vector_valid_thm : forall v o al l, Inv (vblocks v) l ->
  safe l (evs (vec_step v o (nxt l) al)) /\ Inv (vblocks (st' (vec_step v o (nxt l) al))) (run l (evs (vec_step v o (nxt l) al))).
Proof. intros v o al l I. exact (sound_safe vblocks _ _ l (vec_step_sound v o (nxt l) al) I). Qed.

Lemma tree_failed_owns_same_thm : forall Sz g o al l, Inv (gblocks g) l -> out (tree_step Sz g o (nxt l) al) = Failed ->
  safe l (evs (tree_step Sz g o (nxt l) al)) /\ forall b, own (run l (evs (tree_step Sz g o (nxt l) al))) b = own l b.
Proof. intros Sz g o al l I F. exact (failed_owns_same gblocks g _ l (tree_step_sound Sz g o (nxt l) al) (tree_step_atomic Sz g o (nxt l) al) I F). Qed.

Lemma hashtbl_failed_owns_same_thm : forall Sz g o al l, Inv (gblocks g) l -> out (hash_step Sz g o (nxt l) al) = Failed ->
  safe l (evs (hash_step Sz g o (nxt l) al)) /\ forall b, own (run l (evs (hash_step Sz g o (nxt l) al))) b = own l b.
Proof. intros Sz g o al l I F. exact (failed_owns_same gblocks g _ l (hash_step_sound Sz g o (nxt l) al) (hash_step_atomic Sz g o (nxt l) al) I F). Qed.

Lemma listtbl_failed_owns_same_thm : forall Sz g o al l, Inv (gblocks g) l -> out (ltbl_step Sz g o (nxt l) al) = Failed ->
  safe l (evs (ltbl_step Sz g o (nxt l) al)) /\ forall b, own (run l (evs (ltbl_step Sz g o (nxt l) al))) b = own l b.
Proof. intros Sz g o al l I F. exact (failed_owns_same gblocks g _ l (ltbl_step_sound Sz g o (nxt l) al) (ltbl_step_atomic Sz g o (nxt l) al) I F). Qed.

Lemma list_failed_owns_same_thm : forall Sz g o al l, Inv (gblocks g) l -> out (list_step Sz g o (nxt l) al) = Failed ->
  safe l (evs (list_step Sz g o (nxt l) al)) /\ forall b, own (run l (evs (list_step Sz g o (nxt l) al))) b = own l b.
Proof. intros Sz g o al l I F. exact (failed_owns_same gblocks g _ l (list_step_sound Sz g o (nxt l) al) (list_step_atomic Sz g o (nxt l) al) I F). Qed.

Lemma hasharr_failed_owns_same_thm : forall g o al l, Inv (gblocks g) l -> out (harr_step g o (nxt l) al) = Failed ->
  safe l (evs (harr_step g o (nxt l) al)) /\ forall b, own (run l (evs (harr_step g o (nxt l) al))) b = own l b.
Proof. intros g o al l I F. exact (failed_owns_same gblocks g _ l (harr_step_sound g o (nxt l) al) (harr_step_atomic g o (nxt l) al) I F). Qed.

Lemma vector_failed_owns_same_thm : forall v o al l, Inv (vblocks v) l -> out (vec_step v o (nxt l) al) = Failed ->
  safe l (evs (vec_step v o (nxt l) al)) /\ forall b, own (run l (evs (vec_step v o (nxt l) al))) b = own l b.
Proof. intros v o al l I F. exact (failed_owns_same vblocks v _ l (vec_step_sound v o (nxt l) al) (vec_step_atomic v o (nxt l) al) I F). Qed.

Lemma ctor_failed_leaves_nothing_thm : forall hsz msz ts al, out (script_ctor hsz msz ts 1 al) = Failed ->
  safe ledger0 (evs (script_ctor hsz msz ts 1 al)) /\ forall b, own (run ledger0 (evs (script_ctor hsz msz ts 1 al))) b = false.
Proof.
  intros hsz msz ts al F. destruct (sound_safe _ _ _ ledger0 (ctor_sound hsz msz ts 1 al) Inv0) as [S I]. split; auto.
  destruct (ctor_is_atomic hsz msz ts 1 al F) as [E _]. rewrite E in I. apply Inv_nil_empty; auto.
Qed.
Lemma qvector_failed_leaves_nothing_thm : forall Sz max osz ts pol al, out (script_qvector Sz max osz ts pol 1 al) = Failed ->
  safe ledger0 (evs (script_qvector Sz max osz ts pol 1 al)) /\ forall b, own (run ledger0 (evs (script_qvector Sz max osz ts pol 1 al))) b = false.
Proof.
  intros Sz max osz ts pol al F. destruct (sound_safe _ _ _ ledger0 (qvector_sound Sz max osz ts pol 1 al) Inv0) as [S I]. split; auto.
  destruct (qvector_is_atomic Sz max osz ts pol 1 al F) as [E _]. rewrite E in I. apply Inv_nil_empty; auto.
Qed.
Lemma qhashtbl_failed_leaves_nothing_thm : forall Sz range ts al, out (script_qhashtbl Sz range ts 1 al) = Failed ->
  safe ledger0 (evs (script_qhashtbl Sz range ts 1 al)) /\ forall b, own (run ledger0 (evs (script_qhashtbl Sz range ts 1 al))) b = false.
Proof.
  intros Sz range ts al F. destruct (sound_safe _ _ _ ledger0 (qhashtbl_sound Sz range ts 1 al) Inv0) as [S I]. split; auto.
  destruct (qhashtbl_is_atomic Sz range ts 1 al F) as [E _]. rewrite E in I. apply Inv_nil_empty; auto.
Qed.
Lemma wrapper_failed_leaves_nothing_thm : forall osz Sz ts al, out (script_wrapper osz Sz ts 1 al) = Failed ->
  safe ledger0 (evs (script_wrapper osz Sz ts 1 al)) /\ forall b, own (run ledger0 (evs (script_wrapper osz Sz ts 1 al))) b = false.
Proof.
  intros osz Sz ts al F. destruct (sound_safe _ _ _ ledger0 (wrapper_sound osz Sz ts 1 al) Inv0) as [S I]. split; auto.
  destruct (wrapper_is_atomic osz Sz ts 1 al F) as [E _]. rewrite E in I. apply Inv_nil_empty; auto.
Qed.


(* ---- DYNAMIC_VSPRINTF on its own: from any ledger, for every oracle, text length and start size ---- *)
Lemma vsprintf_valid_thm : forall fuel len size al k bs l, Inv bs l ->
  let r := vs_loop fuel len size al k (nxt l) in
  safe l (fst (fst (fst r))) /\ Inv (olist (snd (fst (fst r))) ++ bs) (run l (fst (fst (fst r)))).
Proof.
  intros fuel len size al k bs l I r. destruct (vs_loop_T fuel len size al k (nxt l) (fun x => count x bs) l) as (S & J & _); auto.
  split; auto. destruct J as [W J]. split; auto. intros b. rewrite count_app. apply J.
Qed.
Lemma vsprintf_failed_leaves_nothing_thm : forall fuel len size al k bs l, Inv bs l ->
  let r := vs_loop fuel len size al k (nxt l) in snd (fst (fst r)) = None ->
  safe l (fst (fst (fst r))) /\ forall b, own (run l (fst (fst (fst r)))) b = own l b.
Proof.
  intros fuel len size al k bs l I r E. destruct (vsprintf_valid_thm fuel len size al k bs l I) as [S J]. fold r in S, J. rewrite E in J. cbn [olist app] in J.
  split; auto. destruct I as [_ I], J as [_ J]. intros b. specialize (I b). specialize (J b). rewrite I in J.
  destruct (own l b), (own (run l (fst (fst (fst r)))) b); simpl in J; auto; discriminate.
Qed.

(* a concrete run used by the non-vacuity examples: sizes as on x86-64 *)
Definition sz64 : sizes := mkS 200 72 56 152 40 8 224 48 24 240 32 256 136 136 88 128.
Definition fail_at (k : nat) : oracle := fun i => negb (Nat.eqb i k).
