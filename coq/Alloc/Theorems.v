(* C15 / C11 / C12 statements about the step functions of Scripts.v, for all oracles, states and histories. *)
From Coq Require Import List NArith Bool Lia Arith.
From QV.Alloc Require Import Ledger Scripts LedgerTac ScriptProofs.
Import ListNotations.
Open Scope N_scope.

Definition allok : oracle := fun _ => true.

(* ------------------------------------------------------------------ C15: failure => nothing changed *)
Ltac crack := repeat match goal with
  | |- context[let '(_, _) := ?x in _] => destruct x
  | |- context[if ?b then _ else _] => destruct b
  | |- context[match ?x with _ => _ end] => destruct x
  end.
Ltac atomic_tac := cbn [out st' mutated nomut]; intros; try discriminate; auto.

Definition atomic {St} (s : St) (r : sres St) : Prop := out r = Failed -> st' r = s /\ mutated r = false.
Lemma with_tmp_atomic g len k al body : (forall t n1 al1, atomic (mkG (t :: hdr g) (els g)) (body (mkG (t :: hdr g) (els g)) t n1 al1)) -> atomic g (with_tmp g len k al body).
Proof.
  intros Hb. unfold atomic, with_tmp. destruct (vs_loop vs_fuel len 1024 al 0%nat k) as [[[ev r] n'] k']. destruct r as [t|]; cbn [out st' mutated nomut]; auto.
  intros F. destruct (Hb t n' (shift al k') F) as [E M]. rewrite E, M. destruct g; auto.
Qed.
Lemma tree_step_atomic Sz g o k al : atomic g (tree_step Sz g o k al).
Proof.
  destruct o; cbn [tree_step]; try (apply with_tmp_atomic; intros t n1 al1); unfold atomic; unfold script_tree_put_old, script_tree_put_new, script_getdata, script_tree_remove, script_remove_elem, script_getname, script_getpair, script_clear;
    crack; atomic_tac.
Qed.
Lemma hash_step_atomic Sz g o k al : atomic g (hash_step Sz g o k al).
Proof.
  destruct o; cbn [hash_step]; try (apply with_tmp_atomic; intros t n1 al1); unfold atomic; unfold script_hash_put, script_getdata, script_remove_elem, script_getpair, script_clear; crack; atomic_tac.
Qed.
Lemma ltbl_step_atomic Sz g o k al : atomic g (ltbl_step Sz g o k al).
Proof.
  destruct o; cbn [ltbl_step]; try (apply with_tmp_atomic; intros t n1 al1); unfold atomic; unfold script_ltbl_put, script_getdata, script_ltbl_getmulti, script_ltbl_remove, script_getpair, script_clear; crack; atomic_tac.
Qed.
Lemma list_step_atomic Sz g o k al : atomic g (list_step Sz g o k al).
Proof.
  destruct o; cbn [list_step]; try (apply with_tmp_atomic; intros t n1 al1); unfold atomic; unfold script_list_addat, script_getdata, script_list_popat, script_list_gettmp, script_remove_elem, script_list_toarray, script_clear; crack; atomic_tac.
Qed.
Lemma harr_step_atomic g o k al : atomic g (harr_step g o k al).
Proof. destruct o; cbn [harr_step]; try (apply with_tmp_atomic; intros t n1 al1); unfold atomic; crack; atomic_tac. Qed.
Lemma vec_step_atomic v o k al : atomic v (vec_step v o k al).
Proof.
  unfold atomic. destruct o; cbn [vec_step]; unfold script_vec_addat, script_vec_getat, script_vec_popat, script_vec_removeat, script_vec_setat, script_vec_resize, script_vec_reverse, script_vec_toarray;
    crack; atomic_tac.
Qed.
(* constructors: a failed constructor leaves no container *)
Definition ctor_atomic {St} (r : sres (option St)) : Prop := out r = Failed -> st' r = None /\ mutated r = false.
Lemma ctor_is_atomic hsz msz ts k al : ctor_atomic (script_ctor hsz msz ts k al).
Proof. unfold ctor_atomic, script_ctor. crack; atomic_tac. Qed.
Lemma qhashtbl_is_atomic Sz range ts k al : ctor_atomic (script_qhashtbl Sz range ts k al).
Proof. unfold ctor_atomic, script_qhashtbl. crack; atomic_tac. Qed.
Lemma wrapper_is_atomic osz Sz ts k al : ctor_atomic (script_wrapper osz Sz ts k al).
Proof. unfold ctor_atomic, script_wrapper. crack; atomic_tac. Qed.
Lemma qhasharr_is_atomic Sz k al : ctor_atomic (script_qhasharr Sz k al).
Proof. unfold ctor_atomic, script_qhasharr. crack; atomic_tac. Qed.
Lemma qvector_is_atomic Sz max osz ts pol k al : ctor_atomic (script_qvector Sz max osz ts pol k al).
Proof. unfold ctor_atomic, script_qvector. crack; atomic_tac. Qed.

(* with the ledger: after a failed call exactly the blocks owned before are owned (nothing allocated by the call survives, nothing was released) *)
Lemma failed_owns_same {St} (blocks : St -> list blk) (s : St) (r : sres St) l :
  sound blocks (blocks s) r (nxt l) -> atomic s r -> Inv (blocks s) l -> out r = Failed ->
  safe l (evs r) /\ forall b, own (run l (evs r)) b = own l b.
Proof.
  intros So At I F. destruct (sound_safe _ _ _ _ So I) as [Sa [_ J]]. split; auto.
  destruct (At F) as [E _]. rewrite E in J. destruct I as [_ I]. intros b. specialize (I b). specialize (J b). rewrite I in J.
  destruct (own l b), (own (run l (evs r)) b); simpl in J; auto; discriminate.
Qed.

(* ------------------------------------------------------------------ C15: no failure reported => the fault-free run *)
Ltac ok_tac := cbn [out nomut]; intros; try discriminate; try reflexivity.
Ltac crack_ok al :=
  repeat match goal with |- context[al ?i] => destruct (al i) end;
  repeat match goal with
    | |- context[N.eqb ?a ?b] => destruct (N.eqb a b)
    | |- context[N.leb ?a ?b] => destruct (N.leb a b)
    | |- context[N.ltb ?a ?b] => destruct (N.ltb a b) end;
  cbn [andb orb negb]; crack.
Lemma gm_loop_ok Sz al ms : forall n k arr cap cnt got, snd (gm_loop Sz al ms n k arr cap cnt got) = Done ->
  gm_loop Sz al ms n k arr cap cnt got = gm_loop Sz allok ms n k arr cap cnt got.
Proof.
  induction ms as [|e r IH]; intros n k arr cap cnt got; cbn [gm_loop]; [reflexivity|].
  destruct (ename e); [|reflexivity]. destruct (edata e); [|reflexivity].
  change (allok k) with true; change (allok (S k)) with true; change (allok (S (S k))) with true; cbv iota; cbn [andb].
  destruct (al k), (al (S k)); cbn [andb snd]; try discriminate.
  destruct (cap <=? cnt + 1).
  - destruct (al (S (S k))); cbn [snd]; [|discriminate].
    specialize (IH (n + 1 + 1 + 1) (S (S (S k))) (Some (n + 1 + 1)) (if cap =? 0 then 10 else cap * 2) (cnt + 1) (got ++ [n + 1])).
    destruct (gm_loop Sz al r (n + 1 + 1 + 1) (S (S (S k))) (Some (n + 1 + 1)) (if cap =? 0 then 10 else cap * 2) (cnt + 1) (got ++ [n + 1])) as [er o].
    cbn [snd] in *. intros ->. rewrite <- IH; auto.
  - specialize (IH (n + 1 + 1) (S (S k)) arr cap (cnt + 1) (got ++ [n + 1])).
    destruct (gm_loop Sz al r (n + 1 + 1) (S (S k)) arr cap (cnt + 1) (got ++ [n + 1])) as [er o].
    cbn [snd] in *. intros ->. rewrite <- IH; auto.
Qed.
Definition agrees {St} (r r0 : sres St) : Prop := out r = Done -> r = r0.
Lemma vs_loop_ok fuel : forall len size al k n t, snd (fst (fst (vs_loop fuel len size al k n))) = Some t -> vs_loop fuel len size al k n = vs_loop fuel len size allok k n.
Proof.
  induction fuel as [|f IH]; intros len size al k n t; cbn [vs_loop]; [reflexivity|].
  change (allok k) with true. cbv iota.
  destruct (al k); [|cbn [fst snd]; discriminate].
  destruct (len <? size); [reflexivity|].
  specialize (IH len (size * 2) al (S k) (n + 1) t).
  destruct (vs_loop f len (size * 2) al (S k) (n + 1)) as [[[ev r] n'] k']. cbn [fst snd] in *. intros E. rewrite <- (IH E). reflexivity.
Qed.
Lemma with_tmp_ok g len k al body : (forall g1 t n1 al1, agrees (body g1 t n1 al1) (body g1 t n1 allok)) -> agrees (with_tmp g len k al body) (with_tmp g len k allok body).
Proof.
  intros Hb. unfold agrees, with_tmp. assert (V := vs_loop_ok vs_fuel len 1024 al 0%nat k).
  destruct (vs_loop vs_fuel len 1024 al 0%nat k) as [[[ev r] n'] k']. cbn [fst snd] in V.
  destruct r as [t|]; cbn [out nomut]; [|discriminate].
  intros D. rewrite <- (V t eq_refl). rewrite (Hb _ _ _ _ D). reflexivity.
Qed.
Lemma tree_step_ok Sz g o k al : agrees (tree_step Sz g o k al) (tree_step Sz g o k allok).
Proof.
  destruct o; cbn [tree_step]; try (apply with_tmp_ok; clear g k al; intros g t k al); unfold agrees, allok; unfold script_tree_put_old, script_tree_put_new, script_getdata, script_tree_remove, script_remove_elem, script_getname, script_getpair, script_clear;
    crack_ok al; ok_tac.
Qed.
Lemma hash_step_ok Sz g o k al : agrees (hash_step Sz g o k al) (hash_step Sz g o k allok).
Proof. destruct o; cbn [hash_step]; try (apply with_tmp_ok; clear g k al; intros g t k al); unfold agrees, allok; unfold script_hash_put, script_getdata, script_remove_elem, script_getpair, script_clear; crack_ok al; ok_tac. Qed.
Lemma list_step_ok Sz g o k al : agrees (list_step Sz g o k al) (list_step Sz g o k allok).
Proof.
  destruct o; cbn [list_step]; try (apply with_tmp_ok; clear g k al; intros g t k al); unfold agrees, allok; unfold script_list_addat, script_getdata, script_list_popat, script_list_gettmp, script_remove_elem, script_list_toarray, script_clear; crack_ok al; ok_tac.
Qed.
Lemma harr_step_ok g o k al : agrees (harr_step g o k al) (harr_step g o k allok).
Proof. destruct o; cbn [harr_step]; try (apply with_tmp_ok; clear g k al; intros g t k al); unfold agrees, allok; crack_ok al; ok_tac. Qed.
Lemma vec_step_ok v o k al : agrees (vec_step v o k al) (vec_step v o k allok).
Proof.
  unfold agrees, allok. destruct o; cbn [vec_step]; unfold script_vec_addat, script_vec_getat, script_vec_popat, script_vec_removeat, script_vec_setat, script_vec_resize, script_vec_reverse, script_vec_toarray;
    crack_ok al; ok_tac.
Qed.
Lemma ltbl_step_ok Sz g o k al : agrees (ltbl_step Sz g o k al) (ltbl_step Sz g o k allok).
Proof.
  destruct o; cbn [ltbl_step]; try (apply with_tmp_ok; clear g k al; intros g t k al); unfold agrees.
  - unfold allok, script_ltbl_put. crack_ok al; ok_tac.
  - unfold allok, script_ltbl_put. crack_ok al; ok_tac.
  - unfold allok, script_getdata. crack_ok al; ok_tac.
  - unfold script_ltbl_getmulti.
    set (ms := if fwd then _ else _).
    assert (G := gm_loop_ok Sz al ms k 0%nat None 0 0 []).
    destruct (gm_loop Sz al ms k 0%nat None 0 0 []) as [e o]. cbn [snd out nomut] in *. intros ->. rewrite <- G; auto.
  - reflexivity.
  - unfold allok, script_getpair. crack_ok al; ok_tac.
  - reflexivity.
  - reflexivity.
Qed.

(* ------------------------------------------------------------------ histories (C11) *)
(* whole life of a container: the constructor's events are legal; if it fails nothing is owned afterwards; otherwise for EVERY history
   (operations and oracles) every event list is legal, the destructor's events are legal and afterwards nothing at all is owned *)
Definition life_ok {St Op : Type} (step : St -> Op -> N -> oracle -> sres St) (fr : St -> sres (option St)) (ctor : sres (option St)) : Prop :=
  safe ledger0 (evs ctor) /\
  match st' ctor with
  | None => forall b, own (run ledger0 (evs ctor)) b = false
  | Some s => forall h, let l := run ledger0 (evs ctor) in
              hsafe step s l h /\ safe (snd (hrun step s l h)) (evs (fr (fst (hrun step s l h)))) /\
              forall b, own (run (snd (hrun step s l h)) (evs (fr (fst (hrun step s l h))))) b = false
  end.
Section Hist.
  Context {St Op : Type} (step : St -> Op -> N -> oracle -> sres St) (blocks : St -> list blk).
  Hypothesis step_sound : forall s o k al, sound blocks (blocks s) (step s o k al) k.

  Fixpoint hevents (s : St) (l : ledger) (h : list (Op * oracle)) : list event :=
    match h with
    | [] => []
    | (o, al) :: r => let x := step s o (nxt l) al in evs x ++ hevents (st' x) (run l (evs x)) r
    end.
  Lemma hsafe_iff h : forall s l, hsafe step s l h <-> safe l (hevents s l h).
  Proof. induction h as [|[o al] r IH]; intros s l; cbn [hsafe hevents]; [simpl; tauto|]. rewrite safe_app, IH. tauto. Qed.
  Lemma hrun_run h : forall s l, snd (hrun step s l h) = run l (hevents s l h).
  Proof. induction h as [|[o al] r IH]; intros s l; cbn [hrun hevents]; [reflexivity|]. rewrite run_app, IH. reflexivity. Qed.
  Lemma hevents_app h1 h2 : forall s l, hevents s l (h1 ++ h2) = hevents s l h1 ++ hevents (fst (hrun step s l h1)) (snd (hrun step s l h1)) h2.
  Proof. induction h1 as [|[o al] r IH]; intros s l; cbn [hrun hevents app]; [reflexivity|]. rewrite IH, app_assoc. reflexivity. Qed.

  (* every event list of every history is legal, and the owned blocks are always exactly the blocks of the summary *)
  Theorem hist_inv h : forall s l, Inv (blocks s) l -> hsafe step s l h /\ Inv (blocks (fst (hrun step s l h))) (snd (hrun step s l h)).
  Proof.
    induction h as [|[o al] r IH]; intros s l I; cbn [hsafe hrun]; [simpl; auto|].
    destruct (sound_safe _ _ _ _ (step_sound s o (nxt l) al) I) as [S J].
    destruct (IH _ _ J) as [A B]. auto.
  Qed.

  (* whole life of a container: constructor (any oracle), any history (any oracles), destructor: nothing is left, nothing illegal happens *)
  Variable fr : St -> sres (option St).
  Hypothesis fr_sound : forall s k, sound (oblocks blocks) (blocks s) (fr s) k.
  Hypothesis fr_none : forall s, st' (fr s) = None.
  Theorem lifecycle (ctor : sres (option St)) : sound (oblocks blocks) [] ctor 1 -> life_ok step fr ctor.
  Proof.
    intros C. unfold life_ok. destruct (sound_safe (oblocks blocks) [] ctor ledger0 C Inv0) as [S I]. split; auto.
    destruct (st' ctor) as [s|]; cbn [oblocks] in I; cbv beta iota.
    - intros h. cbv zeta. set (l := run ledger0 (evs ctor)) in *. destruct (hist_inv h s l I) as [A B]. split; auto.
      destruct (sound_safe _ _ _ _ (fr_sound _ _) B) as [Sf If]. rewrite fr_none in If. cbn [oblocks] in If.
      split; auto. apply Inv_nil_empty; auto.
    - apply Inv_nil_empty; auto.
  Qed.

  (* C12: a block handed to the caller in some call is never touched by any later call of any history, nor by the destructor *)
  Theorem returned_independent h1 h2 s l b : Inv (blocks s) l -> In (Return b) (hevents s l h1) ->
    let s1 := fst (hrun step s l h1) in let l1 := snd (hrun step s l h1) in
    (forall e, In e (hevents s1 l1 h2) -> ~ touches b e) /\
    (forall e, In e (evs (fr (fst (hrun step s1 l1 h2)))) -> ~ touches b e).
  Proof.
    intros I R s1 l1.
    destruct (hist_inv h1 s l I) as [A B]. fold s1 l1 in B.
    assert (G : giv l1 b = true). { unfold l1. rewrite hrun_run. apply return_gives; auto. apply I. apply hsafe_iff; auto. }
    destruct (hist_inv h2 s1 l1 B) as [A2 B2].
    destruct (given_untouched (hevents s1 l1 h2) l1 b (proj1 B) G (proj1 (hsafe_iff _ _ _) A2)) as [U G2].
    split; auto.
    destruct (sound_safe _ _ _ _ (fr_sound (fst (hrun step s1 l1 h2)) _) B2) as [Sf _].
    rewrite hrun_run in Sf, B2. apply (given_untouched _ _ b (proj1 B2) G2 Sf).
  Qed.

  (* C12/C11: whatever the container owns after a call and did not own before was allocated inside that call *)
  Theorem owns_only_own_allocations s o al l b : Inv (blocks s) l -> let x := step s o (nxt l) al in
    In b (blocks (st' x)) -> ~ In b (blocks s) -> In b (allocs (evs x)).
  Proof.
    intros I x Ib Nb. destruct (sound_safe _ _ _ _ (step_sound s o (nxt l) al) I) as [S J].
    apply (new_owned_allocated (evs x) l b S).
    - destruct (own l b) eqn:E; auto. exfalso. apply Nb. apply count_in. destruct I as [_ I]. rewrite I, E. simpl. lia.
    - eapply Inv_owned; eauto.
  Qed.
End Hist.

(* ------------------------------------------------------------------ C12: what the container keeps is a fresh private copy *)
(* every key / value block of every element after a put/add/push either was already stored before the call, or was allocated
   by this call and filled by a copy from the caller's buffer (an empty hash-table value has nothing to copy) *)
Definition fresh_from_caller (ev : list event) (b : blk) (sz : N) : Prop := In b (allocs ev) /\ (sz = 0 \/ In (Copy b SCaller) ev).
Definition private (g : gst) (r : sres gst) : Prop :=
  forall e, In e (els (st' r)) ->
    (forall b, ename e = Some b -> In b (gblocks g) \/ fresh_from_caller (evs r) b (ensz e)) /\
    (forall b, edata e = Some b -> In b (gblocks g) \/ fresh_from_caller (evs r) b (esz e)).
Definition elem_ok (g : gst) (ev : list event) (e : elem) : Prop :=
  (forall b, ename e = Some b -> In b (gblocks g) \/ fresh_from_caller ev b (ensz e)) /\
  (forall b, edata e = Some b -> In b (gblocks g) \/ fresh_from_caller ev b (esz e)).
Lemma private_iff g r : private g r <-> forall e, In e (els (st' r)) -> elem_ok g (evs r) e.
Proof. unfold private, elem_ok. tauto. Qed.
Lemma old_elem_blocks g e : In e (els g) -> (forall b, ename e = Some b -> In b (gblocks g)) /\ (forall b, edata e = Some b -> In b (gblocks g)).
Proof.
  intros I. unfold gblocks. split; intros b E; apply in_or_app; right; apply in_flat_map; exists e; (split; [auto|]); unfold eblocks; right; rewrite E; simpl; auto.
  apply in_or_app. right. simpl. auto.
Qed.
Lemma elem_ok_old g ev e : In e (els g) -> elem_ok g ev e.
Proof. intros I. destruct (old_elem_blocks g e I) as [A B]. split; intros b E; left; auto. Qed.
Lemma in_firstn {A} (x : A) n l : In x (firstn n l) -> In x l.
Proof. intros I. rewrite <- (firstn_skipn n l). apply in_or_app. auto. Qed.
Lemma in_skipn {A} (x : A) n l : In x (skipn n l) -> In x l.
Proof. intros I. rewrite <- (firstn_skipn n l). apply in_or_app. auto. Qed.
Ltac inl := repeat match goal with
  | H : In _ (_ ++ _) |- _ => apply in_app_or in H as [H|H]
  | H : In _ (_ :: _) |- _ => destruct H as [<-|H]
  | H : In _ [] |- _ => destruct H
  | H : In _ (filter _ _) |- _ => apply filter_In in H as [H _]
  | H : In _ (firstn _ _) |- _ => apply in_firstn in H
  | H : In _ (skipn _ _) |- _ => apply in_skipn in H
  end.
(* x is an element that was there before (S : els g = p ++ e :: q when the state was split) *)
Ltac old := apply elem_ok_old; try match goal with S : els _ = _ |- _ => rewrite S end; auto with datatypes.
(* the fresh block b of the new / updated element: allocated in this call, copied from the caller *)
Ltac frsh := right; unfold fresh_from_caller, allocs; cbn [evs flat_map app In]; split; [auto 12 | try (left; (assumption || reflexivity)); right; auto 12].
Ltac newelem S := split; cbn [ename edata ensz esz]; intros b E;
  match type of E with
  | None = Some _ => discriminate
  | Some _ = Some _ => inversion E; subst; frsh
  | _ => left; match goal with e : elem, g : gst |- _ => let Ie := fresh "Ie" in assert (Ie : In e (els g)) by (rewrite S; auto with datatypes);
           first [apply (proj1 (old_elem_blocks _ e Ie)); assumption | apply (proj2 (old_elem_blocks _ e Ie)); assumption] end
  end.

Lemma tree_put_private Sz g key ns ds k al : out (tree_step Sz g (TPut key ns ds) k al) = Done -> private g (tree_step Sz g (TPut key ns ds) k al).
Proof.
  rewrite private_iff. cbn [tree_step]. destruct (split_key key (els g)) as [[[p e] q]|] eqn:S.
  - apply split_key_eq in S as [S _]. unfold script_tree_put_old. destruct (ds =? 0) eqn:Z; [|destruct (al 0%nat)]; cbn [out nomut]; try discriminate; intros _ x I; cbn [st' els] in I; inl;
      first [ solve [old] | newelem S ].
  - unfold script_tree_put_new. destruct (al 0%nat), (al 1%nat), (al 2%nat), (ds =? 0) eqn:Z; cbn [andb orb negb out nomut]; try discriminate; intros _ x I; cbn [st' els] in I; inl;
      first [ solve [old] | newelem S ].
Qed.
Lemma hash_put_private Sz g key ns ds k al : out (hash_step Sz g (HPut key ns ds) k al) = Done -> private g (hash_step Sz g (HPut key ns ds) k al).
Proof.
  rewrite private_iff. cbn [hash_step]. unfold script_hash_put, cp. destruct (split_key key (els g)) as [[[p e] q]|] eqn:S.
  - apply split_key_eq in S as [S _]. destruct (al 0%nat), (al 1%nat), (ds =? 0) eqn:Z; cbn [andb out nomut]; try discriminate; intros _ x I; cbn [st' els] in I; inl;
      try apply N.eqb_eq in Z; first [ solve [old] | newelem S ].
  - destruct (al 0%nat), (al 1%nat), (al 2%nat), (ds =? 0) eqn:Z; cbn [andb out nomut]; try discriminate; intros _ x I; cbn [st' els] in I; inl;
      try apply N.eqb_eq in Z; first [ solve [old] | newelem S ].
Qed.
Lemma ltbl_put_private Sz g uniq top fwd key ns ds k al : out (ltbl_step Sz g (LPut uniq top fwd key ns ds) k al) = Done -> private g (ltbl_step Sz g (LPut uniq top fwd key ns ds) k al).
Proof.
  rewrite private_iff. cbn [ltbl_step]. unfold script_ltbl_put, cp.
  destruct (al 0%nat), (al 1%nat), (al 2%nat), (ds =? 0) eqn:Z; cbn [andb out nomut]; try discriminate; intros _ x I; cbn [st' els] in I;
    destruct uniq, top; inl; try apply N.eqb_eq in Z; first [ solve [old] | idtac ];
    (split; cbn [ename edata ensz esz]; intros b E; inversion E; subst; right; unfold fresh_from_caller, allocs; cbn [evs flat_map app];
     (split; [cbn [In]; auto 12 | try (left; (assumption || reflexivity)); right; cbn [In]; auto 12])).
Qed.
Lemma list_addat_private Sz g pos ds k al : out (list_step Sz g (SAddat pos ds false) k al) = Done -> private g (list_step Sz g (SAddat pos ds false) k al).
Proof.
  rewrite private_iff. cbn [list_step]. unfold script_list_addat, cp.
  destruct (al 0%nat), (al 1%nat), (ds =? 0) eqn:Z; cbn [out nomut]; try discriminate; intros _ x I; cbn [st' els] in I; inl;
    try apply N.eqb_eq in Z; first [ solve [old] | newelem Z ].
Qed.
(* the vector stores the caller's element by a copy into its own buffer *)
Lemma vec_addat_private v pos k al : out (vec_step v (VAddat pos) k al) = Done ->
  exists d, vdata (st' (vec_step v (VAddat pos) k al)) = Some d /\ In (Copy d SCaller) (evs (vec_step v (VAddat pos) k al)) /\ In d (vblocks (st' (vec_step v (VAddat pos) k al))).
Proof.
  cbn [vec_step]. unfold script_vec_addat. destruct (vmax v <=? vnum v); [destruct (al 0%nat)|destruct (vdata v) eqn:D]; cbn [out]; try discriminate; intros _; cbn [st' evs vset vdata];
    eexists; (split; [reflexivity|split]); try (apply in_or_app; right; try (apply in_or_app; right); simpl; auto; fail);
    unfold vblocks; cbn [vdata vmx vh olist]; apply in_or_app; right; simpl; auto.
Qed.

(* ------------------------------------------------------------------ C12 for the formatted put / add methods (putstrf, addstrf) *)
(* the value kept by putstrf/addstrf is a fresh block of the call filled from the formatting buffer, which is itself a block of this
   call and is released before the call returns; the key is a fresh copy of the caller's name as for put *)
Definition fresh_from (s : src) (ev : list event) (b : blk) (sz : N) : Prop := In b (allocs ev) /\ (sz = 0 \/ In (Copy b s) ev).
Definition elem_okx (dfrom : src) (g : gst) (ev : list event) (e : elem) : Prop :=
  (forall b, ename e = Some b -> In b (flat_map eblocks (els g)) \/ fresh_from SCaller ev b (ensz e)) /\
  (forall b, edata e = Some b -> In b (flat_map eblocks (els g)) \/ fresh_from dfrom ev b (esz e)).
Definition privx (dfrom : src) (g : gst) (r : sres gst) : Prop := forall e, In e (els (st' r)) -> elem_okx dfrom g (evs r) e.
Lemma old_elem_eblocks g e : In e (els g) -> (forall b, ename e = Some b -> In b (flat_map eblocks (els g))) /\ (forall b, edata e = Some b -> In b (flat_map eblocks (els g))).
Proof.
  intros I. split; intros b E; apply in_flat_map; exists e; (split; [auto|]); unfold eblocks; right; rewrite E; simpl; auto.
  apply in_or_app. right. simpl. auto.
Qed.
Lemma elem_okx_old d g ev e : In e (els g) -> elem_okx d g ev e.
Proof. intros I. destruct (old_elem_eblocks g e I) as [A B]. split; intros b E; left; auto. Qed.
Ltac oldx := apply elem_okx_old; try match goal with S : els _ = _ |- _ => rewrite S end; auto with datatypes.
Ltac frshx := right; unfold fresh_from, allocs; cbn [evs flat_map app In]; split; [auto 12 | try (left; (assumption || reflexivity)); right; auto 12].
Ltac newelemx S := split; cbn [ename edata ensz esz]; intros b E;
  match type of E with
  | None = Some _ => discriminate
  | Some _ = Some _ => inversion E; subst; frshx
  | _ => left; match goal with e : elem, g : gst |- _ => let Ie := fresh "Ie" in assert (Ie : In e (els g)) by (rewrite S; auto with datatypes);
           first [apply (proj1 (old_elem_eblocks _ e Ie)); assumption | apply (proj2 (old_elem_eblocks _ e Ie)); assumption] end
  end.
Lemma tree_put_old_privx g p e q ds d k al : els g = p ++ e :: q -> out (script_tree_put_old g p e q ds d k al) = Done -> privx d g (script_tree_put_old g p e q ds d k al).
Proof.
  intros S. unfold privx, script_tree_put_old. destruct (ds =? 0) eqn:Z; [|destruct (al 0%nat)]; cbn [out nomut]; try discriminate; intros _ x I; cbn [st' els] in I; inl;
    first [ solve [oldx] | newelemx S ].
Qed.
Lemma tree_put_new_privx Sz g key ns ds d k al : out (script_tree_put_new Sz g key ns ds d k al) = Done -> privx d g (script_tree_put_new Sz g key ns ds d k al).
Proof.
  unfold privx, script_tree_put_new. destruct (al 0%nat), (al 1%nat), (al 2%nat), (ds =? 0) eqn:Z; cbn [andb orb negb out nomut]; try discriminate; intros _ x I; cbn [st' els] in I; inl;
    first [ solve [oldx] | newelemx Z ].
Qed.
Lemma hash_put_privx Sz g key ns ds d k al : out (script_hash_put Sz g (split_key key (els g)) key ns ds d k al) = Done -> privx d g (script_hash_put Sz g (split_key key (els g)) key ns ds d k al).
Proof.
  unfold privx, script_hash_put, cp. destruct (split_key key (els g)) as [[[p e] q]|] eqn:S.
  - apply split_key_eq in S as [S _]. destruct (al 0%nat), (al 1%nat), (ds =? 0) eqn:Z; cbn [andb out nomut]; try discriminate; intros _ x I; cbn [st' els] in I; inl;
      try apply N.eqb_eq in Z; first [ solve [oldx] | newelemx S ].
  - destruct (al 0%nat), (al 1%nat), (al 2%nat), (ds =? 0) eqn:Z; cbn [andb out nomut]; try discriminate; intros _ x I; cbn [st' els] in I; inl;
      try apply N.eqb_eq in Z; first [ solve [oldx] | newelemx S ].
Qed.
Lemma ltbl_put_privx Sz g uniq top fwd key ns ds d k al : out (script_ltbl_put Sz g uniq top fwd key ns ds d k al) = Done -> privx d g (script_ltbl_put Sz g uniq top fwd key ns ds d k al).
Proof.
  unfold privx, script_ltbl_put, cp.
  destruct (al 0%nat), (al 1%nat), (al 2%nat), (ds =? 0) eqn:Z; cbn [andb out nomut]; try discriminate; intros _ x I; cbn [st' els] in I;
    destruct uniq, top; inl; try apply N.eqb_eq in Z; first [ solve [oldx] | idtac ];
    (split; cbn [ename edata ensz esz]; intros b E; inversion E; subst; right; unfold fresh_from, allocs; cbn [evs flat_map app];
     (split; [cbn [In]; auto 12 | try (left; (assumption || reflexivity)); right; cbn [In]; auto 12])).
Qed.
Lemma list_addat_privx Sz g pos ds d k al : out (script_list_addat Sz g pos ds d k al) = Done -> privx d g (script_list_addat Sz g pos ds d k al).
Proof.
  unfold privx, script_list_addat, cp.
  destruct (al 0%nat), (al 1%nat), (ds =? 0) eqn:Z; cbn [out nomut]; try discriminate; intros _ x I; cbn [st' els] in I; inl;
    try apply N.eqb_eq in Z; first [ solve [oldx] | newelemx Z ].
Qed.

Lemma vs_loop_alloc fuel : forall len size al k n t, snd (fst (fst (vs_loop fuel len size al k n))) = Some t -> In t (allocs (fst (fst (fst (vs_loop fuel len size al k n))))).
Proof.
  induction fuel as [|f IH]; intros len size al k n t; cbn [vs_loop]; [cbn; discriminate|].
  destruct (al k); [|cbn [fst snd]; discriminate]. destruct (len <? size).
  - cbn [fst snd]. intros E; inversion E; subst. cbn. auto.
  - specialize (IH len (size * 2) al (S k) (n + 1) t). destruct (vs_loop f len (size * 2) al (S k) (n + 1)) as [[[ev r] n'] k']. cbn [fst snd] in *.
    intros E. unfold allocs in *. cbn [flat_map app]. right. auto.
Qed.
Lemma allocs_app a b : allocs (a ++ b) = allocs a ++ allocs b.
Proof. unfold allocs. apply flat_map_app. Qed.
(* the statement for the formatted methods: key from the caller; value from a temporary t that this call allocated and released *)
Definition via_tmp (ev : list event) (b : blk) : Prop :=
  In b (allocs ev) /\ exists t, In t (allocs ev) /\ In (Copy b (SBlk t)) ev /\ In (Free t) ev.
Definition private_f (g : gst) (r : sres gst) : Prop :=
  forall e, In e (els (st' r)) ->
    (forall b, ename e = Some b -> In b (flat_map eblocks (els g)) \/ fresh_from SCaller (evs r) b (ensz e)) /\
    (forall b, edata e = Some b -> In b (flat_map eblocks (els g)) \/ esz e = 0 \/ via_tmp (evs r) b).
Lemma with_tmp_private g len k al body :
  (forall t n1 al1, out (body (mkG (t :: hdr g) (els g)) t n1 al1) = Done -> privx (SBlk t) (mkG (t :: hdr g) (els g)) (body (mkG (t :: hdr g) (els g)) t n1 al1)) ->
  out (with_tmp g len k al body) = Done -> private_f g (with_tmp g len k al body).
Proof.
  intros Hb. unfold with_tmp. assert (V := vs_loop_alloc vs_fuel len 1024 al 0%nat k).
  destruct (vs_loop vs_fuel len 1024 al 0%nat k) as [[[ev r] n'] k']. cbn [fst snd] in V.
  destruct r as [t|]; cbn [out nomut]; [|discriminate]. intros D e I. cbn [st' els evs] in *.
  destruct (Hb t n' (shift al k') D e I) as [A B]. cbn [els] in A, B. specialize (V t eq_refl).
  split; intros b E.
  - destruct (A b E) as [O|[F1 F2]]; [left; exact O|right]. split.
    + rewrite !allocs_app. apply in_or_app. right. apply in_or_app. auto.
    + destruct F2 as [Z|C]; [left; exact Z|right]. apply in_or_app. right. apply in_or_app. auto.
  - destruct (B b E) as [O|[F1 F2]]; [left; exact O|right]. destruct F2 as [Z|C]; [left; exact Z|right]. split.
    + rewrite !allocs_app. apply in_or_app. right. apply in_or_app. auto.
    + exists t. split; [rewrite allocs_app; apply in_or_app; auto|]. split.
      * apply in_or_app. right. apply in_or_app. auto.
      * apply in_or_app. right. apply in_or_app. right. simpl. auto.
Qed.
Lemma tree_putf_private Sz g key ns len k al : out (tree_step Sz g (TPutf key ns len) k al) = Done -> private_f g (tree_step Sz g (TPutf key ns len) k al).
Proof.
  cbn [tree_step]. apply with_tmp_private. intros t n1 al1. cbn [els].
  destruct (split_key key (els g)) as [[[p e] q]|] eqn:S.
  - apply split_key_eq in S as [S _]. apply tree_put_old_privx. exact S.
  - apply tree_put_new_privx.
Qed.
Lemma hash_putf_private Sz g key ns len k al : out (hash_step Sz g (HPutf key ns len) k al) = Done -> private_f g (hash_step Sz g (HPutf key ns len) k al).
Proof. cbn [hash_step]. apply with_tmp_private. intros t n1 al1. apply (hash_put_privx Sz (mkG (t :: hdr g) (els g))). Qed.
Lemma ltbl_putf_private Sz g uniq top fwd key ns len k al : out (ltbl_step Sz g (LPutf uniq top fwd key ns len) k al) = Done -> private_f g (ltbl_step Sz g (LPutf uniq top fwd key ns len) k al).
Proof. cbn [ltbl_step]. apply with_tmp_private. intros t n1 al1. apply ltbl_put_privx. Qed.
Lemma list_addf_private Sz g pos len k al : out (list_step Sz g (SAddf pos len) k al) = Done -> private_f g (list_step Sz g (SAddf pos len) k al).
Proof.
  cbn [list_step]. apply with_tmp_private. intros t n1 al1. destruct (len =? 0); [cbn [out nomut]; discriminate|]. apply list_addat_privx.
Qed.
