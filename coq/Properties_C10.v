(* C10 — Vector is an exact array of fixed-size elements under every growth policy.
   This file contains only the property theorems; each is closed by a lemma proved in Seq/VectorProofs.v.
   Model: Seq/VectorModel.v (qvector.c after the three repairs listed in notes/C10.md), specification: Seq/VectorSpec.v. *)
From Coq Require Import ZArith List Bool Arith.
From QV.Base Require Import Res.
From QV.Seq Require Import VectorModel VectorSpec VectorProofs.
Import ListNotations.

(* Every history, every element size >= 1, every option word (all three growth policies), every initial capacity, every int index,
   fewer than 2^31 elements at any time: the model never crashes (no out-of-block access, no overlapping memcpy, no NULL block),
   every observation is the specification's observation byte for byte, and at the end the first num elements of the block are
   exactly the specification's list. *)
Theorem C10_refines : forall mx os opts s0 h,
  vnew mx os opts = Some s0 -> Forall (vwf_op os) h -> vsmall [] h ->
  exists s, vrun s0 h = Ok (s, map (vobs_map VByte) (snd (vsrun [] h))) /\ vinv s /\ vrep s (fst (vsrun [] h)) /\ vobjsize s = os.
Proof. exact refines. Qed.

(* the same, one operation from any state that represents a list *)
Theorem C10_step_refines : forall s l o,
  vinv s -> vrep s l -> (Z.of_nat (vnum s) < 2 ^ 31)%Z -> vwf_op (vobjsize s) o ->
  exists s', vstep s o = Ok (s', vobs_map VByte (snd (vsstep l o))) /\ vinv s' /\ vrep s' (fst (vsstep l o)) /\ vobjsize s' = vobjsize s.
Proof. exact step_refines. Qed.

(* no byte handed to the caller (get/pop copies, toarray, getnext) is indeterminate memory *)
Theorem C10_no_undef : forall mx os opts s0 h s obs,
  vnew mx os opts = Some s0 -> Forall (vwf_op os) h -> vsmall [] h -> vrun s0 h = Ok (s, obs) ->
  Forall (fun o => Forall (fun c => c <> VUndef) (vobs_cells o)) obs.
Proof. exact no_undef. Qed.

(* a refused operation leaves the vector exactly as it was (any state, any operation) *)
Theorem C10_refused_no_effect : forall s o s' e, vstep s o = Ok (s', VORefused e) -> s' = s.
Proof. exact refused_no_effect. Qed.

(* and every out-of-range index is refused: insertion outside 0..n, access outside 0..n-1 (front- or back-relative) *)
Theorem C10_out_of_range_refused : forall s l i d,
  vinv s -> vrep s l -> (Z.of_nat (vnum s) < 2 ^ 31)%Z -> vint i -> length d = vobjsize s ->
  (vins_pos (length l) i = None -> vstep s (VAddAt i (Some d)) = Ok (s, VORefused VERANGE)) /\
  (vacc_pos (length l) i = None ->
     vstep s (VGetAt i) = Ok (s, VORefused (vrefuse_acc l)) /\ vstep s (VSetAt i d) = Ok (s, VORefused (vrefuse_acc l)) /\
     vstep s (VPopAt i) = Ok (s, VORefused (vrefuse_acc l)) /\ vstep s (VRemoveAt i) = Ok (s, VORefused (vrefuse_acc l))).
Proof. exact out_of_range_refused. Qed.

(* the new element may be one of the vector's own: addat(v, i, getat(v, j, false)) - the pointer is into the block that the call
   reallocates and shifts.  The code as repaired (vaddself: own index remembered, adjusted by the shift, element copied from where
   the shift left it) inserts a copy of what position j held, never crashes (no read of the old block, no overlapping memcpy), and
   does nothing when j names no element or i is out of range. *)
Theorem C10_addself : forall s l i j,
  vinv s -> vrep s l -> (Z.of_nat (vnum s) < 2 ^ 31)%Z -> vint i -> vint j ->
  exists s', vaddself s i j = Ok (s', vobs_map VByte (snd (vs_addself l i j))) /\ vinv s' /\ vrep s' (fst (vs_addself l i j)) /\ vobjsize s' = vobjsize s.
Proof. exact addself_refines. Qed.

(* explicit resize to any capacity n (including 0): succeeds, num = min num n, max = n, objsize unchanged, surviving elements unchanged.
   (Automatic growth inside add is covered by C10_refines: the specification list does not depend on the capacity.) *)
Theorem C10_resize_preserves : forall s l n, vinv s -> vrep s l ->
  exists s', vstep s (VResize n) = Ok (s', VOBool true) /\ vinv s' /\ vrep s' (firstn n l) /\
    vnum s' = Nat.min (vnum s) n /\ vmax s' = n /\ vobjsize s' = vobjsize s /\
    (forall i, i < Nat.min (vnum s) n -> nth i (firstn n l) [] = nth i l []).
Proof. exact resize_preserves. Qed.

(* after resize(v, 0) the vector is an empty vector of the same element size, and every later history behaves exactly as on a
   freshly constructed vector of that element size (same observations, same final contents), whatever its options *)
Theorem C10_usable_after_resize0 : forall s l opts sf h,
  vinv s -> vrep s l -> vnew 0 (vobjsize s) opts = Some sf -> Forall (vwf_op (vobjsize s)) h -> vsmall [] h ->
  let s0 := fst (vresize s 0) in
  let obs := map (vobs_map VByte) (snd (vsrun [] h)) in
  vobjsize s0 = vobjsize s /\ vinv s0 /\ vrep s0 [] /\
  exists s1 s2, vrun s0 h = Ok (s1, obs) /\ vrun sf h = Ok (s2, obs) /\ vrep s1 (fst (vsrun [] h)) /\ vrep s2 (fst (vsrun [] h)).
Proof. exact usable_after_resize0. Qed.

(* record of the two defects of the pinned code that the model can express (both repaired by fix: commits, see notes/C10.md):
   remove_at shifted the tail with memcpy over overlapping ranges; resize(v, 0) zeroed the element size *)
Theorem C10_pinned_remove_at_overlap : vinv pinned_w /\ vrep pinned_w [[1%N]; [2%N]; [3%N]] /\
  vremove_at_pinned pinned_w 0 = Crash /\ is_ok (vremove_at pinned_w 0) = true.
Proof. exact pinned_remove_at_overlap. Qed.
Theorem C10_pinned_resize0_unusable : vinv pinned_w /\ vobjsize (fst (vresize_pinned pinned_w 0)) = 0 /\ ~ vinv (fst (vresize_pinned pinned_w 0)).
Proof. exact pinned_resize0_unusable. Qed.

(* non-vacuity: a concrete history meeting the hypotheses (linear policy, capacity 1, 2-byte elements), evaluated *)
Definition C10_ex_h : list vop :=
  [VAddLast [1; 2]%N; VAddAt (-1) (Some [3; 4]%N); VAddFirst [5; 6]%N; VGetAt (-3); VRemoveAt 0; VAddAt 7 (Some [0; 0]%N); VReverse;
   VPopAt (-1); VResize 0; VAddLast [9; 9]%N; VToArray; VWalk 0 3].
Example C10_ex_hyps : exists s0, vnew 1 2 4 = Some s0 /\ Forall (vwf_op 2) C10_ex_h /\ vsmall [] C10_ex_h.
Proof.
  eexists. split; [reflexivity|]. split.
  - unfold C10_ex_h, vwf_op, vint. repeat constructor; vm_compute; congruence.
  - vm_compute. repeat split; reflexivity.
Qed.
Example C10_ex_run : forall s0, vnew 1 2 4 = Some s0 ->
  match vrun s0 C10_ex_h with
  | Ok (s, obs) => obs = [VOBool true; VOBool true; VOBool true; VOElem [VByte 5; VByte 6]%N; VOBool true; VORefused VERANGE; VOUnit;
                         VOElem [VByte 3; VByte 4]%N; VOBool true; VOBool true; VOArray [VByte 9; VByte 9]%N 1; VOWalk [[VByte 9; VByte 9]%N] true]
                  /\ vnum s = 1 /\ vmax s = 1 /\ vobjsize s = 2
  | _ => False
  end.
Proof. intros s0 H. vm_compute in H. injection H as <-. vm_compute. auto. Qed.

Print Assumptions C10_refines.
Print Assumptions C10_addself.
Print Assumptions C10_step_refines.
Print Assumptions C10_no_undef.
Print Assumptions C10_refused_no_effect.
Print Assumptions C10_out_of_range_refused.
Print Assumptions C10_resize_preserves.
Print Assumptions C10_usable_after_resize0.
Print Assumptions C10_pinned_remove_at_overlap.
Print Assumptions C10_pinned_resize0_unusable.

(* addself on a concrete full vector of capacity 2 (the block is reallocated), front and back relative, and refused *)
Definition addself_view (r : res (vec * vobs cell)) : option (list cell) * nat * vobs cell :=
  match r with Ok (s', o) => (vdata s', vnum s', o) | _ => (None, 0, VOUnit) end.
Example C10_addself_example :
  let s := mkVec (Some [VByte 1; VByte 2]%N) 2 2 1 0 VExact in
  addself_view (vaddself s 0 (-1)) = (Some [VByte 2; VByte 1; VByte 2]%N, 3, VOBool true) /\
  addself_view (vaddself s (-1) 0) = (Some [VByte 1; VByte 1; VByte 2]%N, 3, VOBool true) /\
  addself_view (vaddself s 0 5) = (vdata s, 2, VORefused VERANGE).
Proof. vm_compute. auto. Qed.
