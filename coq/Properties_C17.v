(* C17 (decoder half) — the in-place decoders are memory-safe and terminate on arbitrary NUL-terminated input, and never
   produce more bytes than the input had.  Buffer-level models: the argument is the whole buffer s ++ 0 :: junk; a read at
   an index outside the buffer is Crash; recursion is on explicit fuel.  The theorems say: with fuel |s|+1 the result is Ok
   (no read beyond the buffer even when junk = [], i.e. when the terminator is the last byte; no exhaustion of fuel, i.e.
   termination within |s|+1 loop iterations), it equals the string-level decoder, does not depend on what follows the
   terminator, and is at most |s| bytes long (the decoder writes only positions it has already read).
   The configuration-parser half of C17 is in Properties_C17_conf.v. *)
From Coq Require Import NArith List.
From QV.Base Require Import Res Bytes.
From QV.Enc Require Import EncModel EncProofs B64Proofs.
Import ListNotations.
Local Open Scope N_scope.

Theorem C17_url_decode_safe : forall s junk, cstr s ->
  url_dec_buf (S (length s)) (s ++ 0 :: junk) 0 [] = Ok (url_decode s) /\ (length (url_decode s) <= length s)%nat.
Proof. exact url_decode_safe. Qed.
Theorem C17_hex_decode_safe : forall s junk, cstr s ->
  hex_dec_buf (S (length s)) (s ++ 0 :: junk) 0 [] = Ok (hex_decode s) /\ (length (hex_decode s) <= length s)%nat.
Proof. exact hex_decode_safe. Qed.
Theorem C17_b64_decode_safe : forall s junk, cstr s ->
  b64_dec_buf (S (length s)) (s ++ 0 :: junk) 0 0 0 [] = Ok (b64_decode s) /\ (length (b64_decode s) <= length s)%nat.
Proof. exact b64_decode_safe. Qed.

(* the inputs that used to be read past their end *)
Example C17_truncated_escape : url_dec_buf 4 [97; 98; 37; 0] 0 [] = Ok [97; 98; 37] /\ url_dec_buf 5 [97; 98; 37; 52; 0] 0 [] = Ok [97; 98; 37; 52].
Proof. vm_compute. auto. Qed.
Example C17_odd_hex : hex_dec_buf 4 [97; 98; 99; 0] 0 [] = Ok [171].
Proof. vm_compute. auto. Qed.

Print Assumptions C17_url_decode_safe.
Print Assumptions C17_hex_decode_safe.
Print Assumptions C17_b64_decode_safe.
