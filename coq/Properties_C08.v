(* C08 — the list table is an exact ordered multimap under every option combination.
   This file contains only the property theorems; each is closed by a lemma proved elsewhere.
   Model: Seq/ListtblModel.v (qlisttbl.c statement by statement; the name hash is an arbitrary function).
   Specification: Seq/ListtblSpec.v (entries as a list; filter / find / stable insertion sort / length). *)
From Coq Require Import NArith ZArith List Bool Permutation.
From QV.Base Require Import Res Bytes.
From QV.Enc Require Import EncModel.
From QV.Seq Require Import ListtblModel ListtblSpec ListtblProofs ListtblSort ListtblRefine ListtblText.
Import ListNotations.
Local Open Scope N_scope.

(* For every name-hash function, each of the 16 option combinations and every history of operations (put, putstr, putint,
   get/getstr, getint, getmulti, remove, walks with or without a name filter that remove any subset of the entries handed
   out through removeobj, size, sort, clear, save, load): the model never dereferences a dangling node and never runs out
   of fuel, every observation equals that of the ideal ordered multimap, the entries (top to bottom) are the multimap's,
   and the stored counter is exactly their number. *)
Theorem C08_refines : forall (hash : list N -> N) (unique casei inserttop lookupfwd : bool) (ops : list lop),
  exists t obs,
    lt_run hash (lt_init unique casei inserttop lookupfwd) ops = Ok (t, obs) /\
    lt_srun (mkCfg unique casei inserttop lookupfwd) [] ops = (abs t, obs) /\
    t_num t = N.of_nat (length (abs t)).
Proof. exact refines_stmt. Qed.

(* sort() on any reachable table: the result is ordered by name (strcmp, or strcasecmp for case-insensitive tables),
   entries with equal names keep their relative order, nothing is lost or invented; i.e. it is the stable insertion sort. *)
Theorem C08_sort : forall (hash : list N -> N) (unique casei inserttop lookupfwd : bool) (ops : list lop) t obs,
  lt_run hash (lt_init unique casei inserttop lookupfwd) ops = Ok (t, obs) ->
  exists t2, lt_step hash t LSort = Ok (t2, LUnit) /\
    sorted_by_name casei (abs t2) /\ stable_wrt casei (abs t) (abs t2) /\ Permutation (abs t) (abs t2) /\
    abs t2 = ssort (mkCfg unique casei inserttop lookupfwd) (abs t).
Proof. exact sort_stmt. Qed.

(* save(sep, encode) of any reachable table whose names survive the text format (bytes without NUL, no separator, no
   newline, no leading or trailing blank, no leading '#') and whose values are C strings (arbitrary non-NUL bytes plus the
   terminator), followed by load(sep, decode) of that file (behind any one-line '#' header) into a fresh table with the same
   options, reproduces the same entries in the same order, and load returns their number. *)
Theorem C08_save_load : forall (hash : list N -> N) (unique casei inserttop lookupfwd : bool) (ops : list lop) t obs sep header,
  lt_run hash (lt_init unique casei inserttop lookupfwd) ops = Ok (t, obs) ->
  sep_ok sep -> Forall (text_safe sep) (abs t) -> cstr header -> Forall (fun ch => ch <> 10) header ->
  exists file t2,
    lt_step hash t (LSave sep true) = Ok (t, LSaved file) /\
    lt_step hash (lt_init unique casei inserttop lookupfwd) (LLoad (35 :: header ++ 10 :: file) sep true)
      = Ok (t2, LInt (Z.of_nat (length (abs t)))) /\
    abs t2 = abs t.
Proof. exact save_load. Qed.
(* the underlying fact about the format *)
Theorem C08_parse_render : forall sep es header,
  sep_ok sep -> Forall (text_safe sep) es -> cstr header -> Forall (fun ch => ch <> 10) header ->
  exists file, render sep true es = Some file /\ parse_file sep true (35 :: header ++ 10 :: file) = es.
Proof. exact parse_render. Qed.

(* load() of ANY file content into any reachable table returns the number of entries it parsed and put; the size stays
   exact; on a table without the unique option the parsed entries are appended at the bottom, in file order, whatever the
   insert-at-top option says. *)
Theorem C08_load_count : forall (hash : list N -> N) (unique casei inserttop lookupfwd : bool) (ops : list lop) t obs content sep dec,
  lt_run hash (lt_init unique casei inserttop lookupfwd) ops = Ok (t, obs) ->
  let ps := parse_file sep dec content in
  exists t2, lt_step hash t (LLoad content sep dec) = Ok (t2, LInt (Z.of_nat (length ps))) /\
             t_num t2 = N.of_nat (length (abs t2)) /\
             (unique = false -> abs t2 = abs t ++ ps).
Proof. exact load_count. Qed.

(* ---- non-vacuity ---- *)
Definition h0 (n : list N) : N := N.of_nat (length n).      (* a deliberately colliding hash *)
(* unique + case-insensitive + insert-at-top, lookup backward: "a" is replaced by "A"; the walk removes the first entry it meets *)
Example C08_refines_example :
  exists t obs,
    lt_run h0 (lt_init true true true false)
      [LPutStr (Some [97]) (Some [49]); LPutStr (Some [98]) (Some [50]); LPutStr (Some [65]) (Some [51]);
       LGet (Some [97]); LWalk None 5 [true]; LSize; LSort] = Ok (t, obs) /\
    abs t = [([65], [51; 0])] /\
    obs = [LBool true; LBool true; LBool true; LVal (Some [51; 0]); LWalked [([98], [50; 0]); ([65], [51; 0])] true [true]; LNum 1; LUnit].
Proof. eexists. eexists. split; [vm_compute; reflexivity|]. split; reflexivity. Qed.
(* a name with an inner blank and a value made of a control byte, 0xff, newline, '=', '#', '%', '+' and a blank survive *)
Example C08_text_safe_example : sep_ok 61 /\ text_safe 61 ([107; 32; 53], [1; 255; 10; 61; 35; 37; 43; 32; 0]).
Proof.
  split; [repeat split; discriminate|]. split.
  - repeat split; try (repeat constructor; discriminate); discriminate.
  - exists [1; 255; 10; 61; 35; 37; 43; 32]. split; reflexivity.
Qed.
Example C08_save_load_example :
  parse_file 61 true (35 :: [120] ++ 10 :: match render 61 true [([107; 32; 53], [1; 255; 10; 61; 35; 37; 43; 32; 0]); ([107], [0])] with Some f => f | None => [] end)
  = [([107; 32; 53], [1; 255; 10; 61; 35; 37; 43; 32; 0]); ([107], [0])].
Proof. vm_compute. reflexivity. Qed.

Print Assumptions C08_refines.
Print Assumptions C08_sort.
Print Assumptions C08_save_load.
Print Assumptions C08_parse_render.
Print Assumptions C08_load_count.
