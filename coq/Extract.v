(* The only file with extraction directives.  ExtrOcamlBasic maps bool/option/unit/prod/list/sumbool/sumor/comparison
   to OCaml's; numbers stay Coq datatypes.  No Extract Constant. *)
Require Extraction.
Require Import ExtrOcamlBasic.
From QV.Enc Require EncModel EncSpec.
From QV.Tree Require TreeModel QTree TreeSpec.
From QV.Gen Require Consts.
From QV.Conf Require IniModel AconfModel IniSpec AconfSpec.
Extraction Blacklist List String Int.
Extraction "../ocaml/gen/model.ml" EncModel.url_encode EncModel.url_dec_buf EncModel.url_decode EncModel.hex_encode EncModel.hex_dec_buf EncModel.hex_decode
   EncModel.b64_encode EncModel.b64_dec_buf EncModel.b64_decode EncModel.parse_queries EncModel.join_query EncModel.makeword EncModel.trim
   EncSpec.rfc4648 EncSpec.hex_spec EncSpec.url_safe
   TreeModel.check_model TreeModel.find_cost TreeModel.elements QTree.byte_cmp QTree.init QTree.step QTree.ncmp QTree.probe TreeSpec.sstep TreeSpec.sinit
   IniModel.ini_parse_str AconfModel.aconf_parse AconfModel.aconf_tokenize AconfModel.tk_buf AconfModel.is_str_number AconfModel.is_str_bool AconfModel.maxline
   Consts.QCONF_MAX_SUBSTITUTIONS IniSpec.ini_wf IniSpec.ini_render IniSpec.ini_eval AconfSpec.wf_nodes AconfSpec.adepths AconfSpec.aconf_render AconfSpec.aconf_srun AconfSpec.aconf_count AconfSpec.int_form AconfSpec.float_form AconfSpec.bool_form.
