(* The only file with extraction directives.  ExtrOcamlBasic maps bool/option/unit/prod/list/sumbool/sumor to OCaml's;
   numbers stay Coq datatypes.  No Extract Constant.  One self-contained OCaml file per area (each has its own copy of
   the number types; ocaml/util.ml is a functor over them), so names of different areas never clash. *)
Require Extraction.
Require Import ExtrOcamlBasic.
From QV.Base Require Res.
From QV.Enc Require EncModel EncSpec.
From QV.Tree Require TreeModel QTree TreeSpec.
From QV.Harr Require HarrModel HarrSpec.
From QV.Str Require StrModel StrSpec.
From QV.Base Require Word.
From QV.HashFn Require FnvModel MurmurModel Md5Model FnvSpec MurmurSpec Md5Spec.
From QV.Seq Require VectorModel VectorSpec.
From QV.Seq Require ListModel ListSpec WrapModel WrapSpec.
From QV.Hash Require HashtblModel HashtblSpec.
From QV.Seq Require ListtblModel ListtblSpec.
From QV.Conf Require IniModel AconfModel IniSpec AconfSpec.
From QV.Gen Require Consts.
From QV.Alloc Require Ledger Scripts.
Extraction Blacklist List String Int.
Extraction "../ocaml/gen/enc_model.ml" Res.num_anchor
   EncModel.url_encode EncModel.url_dec_buf EncModel.url_decode EncModel.hex_encode EncModel.hex_dec_buf EncModel.hex_decode
   EncModel.b64_encode EncModel.b64_dec_buf EncModel.b64_decode EncModel.parse_queries EncModel.join_query EncModel.makeword EncModel.trim
   EncSpec.rfc4648 EncSpec.hex_spec EncSpec.url_safe.
Extraction "../ocaml/gen/tree_model.ml" Res.num_anchor
   TreeModel.check_model TreeModel.find_cost TreeModel.elements QTree.byte_cmp QTree.init QTree.step QTree.ncmp QTree.probe TreeSpec.sstep TreeSpec.sinit.
Extraction "../ocaml/gen/harr_model.ml" Res.num_anchor
   HarrModel.init HarrModel.xstep HarrModel.getS HarrModel.get HarrSpec.sstep HarrSpec.aused HarrSpec.adel HarrSpec.aget.
Extraction "../ocaml/gen/str_model.ml" Res.num_anchor
   StrModel.qstrtrim StrModel.qstrtrim_head StrModel.qstrtrim_tail StrModel.qstrunchar StrModel.qstrreplace StrModel.qstrcpy StrModel.qstrncpy
   StrModel.qstrdup_between StrModel.qmemdup StrModel.qstrgets StrModel.qstrrev StrModel.qstrupper StrModel.qstrlower StrModel.qstrtok StrModel.qstrtokenizer
   StrSpec.trim_spec StrSpec.trim_head_spec StrSpec.trim_tail_spec StrSpec.unchar_spec StrSpec.replace_tok_spec StrSpec.replace_str_spec StrSpec.strcpy_spec
   StrSpec.strncpy_spec StrSpec.gets_spec StrSpec.upper_spec StrSpec.lower_spec StrSpec.tokenize_spec StrSpec.strtok_spec
   StrModel.qstr_comma_number StrSpec.comma_spec.
Extraction "../ocaml/gen/hashfn_model.ml" Res.num_anchor
   FnvModel.qhashfnv1_32 FnvModel.qhashfnv1_64 MurmurModel.qhashmurmur3_32 MurmurModel.qhashmurmur3_128 Md5Model.qhashmd5 Md5Model.qhashmd5_file
   FnvSpec.fnv1_32 FnvSpec.fnv1_64 MurmurSpec.murmur3_x86_32 MurmurSpec.murmur3_x64_128 Md5Spec.md5 Word.le_bytes.
Extraction "../ocaml/gen/vec_model.ml" Res.num_anchor
   VectorModel.vnew VectorModel.vstep VectorSpec.vsstep VectorModel.vaddself VectorSpec.vs_addself.
Extraction "../ocaml/gen/seq_model.ml" Res.num_anchor
   ListModel.QL ListSpec.QLS WrapModel.QW WrapSpec.QWS.
Extraction "../ocaml/gen/hashtbl_model.ml" Res.num_anchor
   HashtblModel.hinit HashtblModel.hstep HashtblModel.hflat HashtblModel.hatoll HashtblModel.hatoll_stops HashtblModel.hprint_dec HashtblSpec.hsstep.
Extraction "../ocaml/gen/listtbl_model.ml" Res.num_anchor
   ListtblModel.lt_init ListtblModel.lt_step ListtblModel.payload ListtblSpec.lt_sstep ListtblSpec.mkCfg.
Extraction "../ocaml/gen/conf_model.ml" Res.num_anchor
   IniModel.ini_parse_str AconfModel.aconf_parse AconfModel.aconf_tokenize AconfModel.tk_buf AconfModel.is_str_number AconfModel.is_str_bool AconfModel.maxline Consts.QCONF_MAX_SUBSTITUTIONS IniSpec.ini_wf IniSpec.ini_render IniSpec.ini_eval AconfSpec.wf_nodes AconfSpec.adepths AconfSpec.aconf_render AconfSpec.aconf_srun AconfSpec.aconf_count AconfSpec.int_form AconfSpec.float_form AconfSpec.bool_form.
Extraction "../ocaml/gen/alloc_model.ml" Res.num_anchor
   Ledger.ledger0 Ledger.safeb Ledger.run Scripts.gblocks Scripts.vblocks Scripts.script_ctor Scripts.script_qhashtbl Scripts.script_wrapper Scripts.script_qhasharr Scripts.script_qvector Scripts.tree_step Scripts.hash_step Scripts.ltbl_step Scripts.list_step Scripts.harr_step Scripts.vec_step Scripts.script_free Scripts.script_vec_free.
