(* The only file with extraction directives.  ExtrOcamlBasic maps bool/option/unit/prod/list/sumbool/sumor/comparison
   to OCaml's; numbers stay Coq datatypes.  No Extract Constant. *)
Require Extraction.
Require Import ExtrOcamlBasic.
From QV.Enc Require EncModel EncSpec.
From QV.Base Require Word.
From QV.HashFn Require FnvModel MurmurModel Md5Model FnvSpec MurmurSpec Md5Spec.
Extraction Blacklist List String Int.
Extraction "../ocaml/gen/model.ml" EncModel.url_encode EncModel.url_dec_buf EncModel.url_decode EncModel.hex_encode EncModel.hex_dec_buf EncModel.hex_decode
   EncModel.b64_encode EncModel.b64_dec_buf EncModel.b64_decode EncModel.parse_queries EncModel.join_query EncModel.makeword EncModel.trim
   EncSpec.rfc4648 EncSpec.hex_spec EncSpec.url_safe
   FnvModel.qhashfnv1_32 FnvModel.qhashfnv1_64 MurmurModel.qhashmurmur3_32 MurmurModel.qhashmurmur3_128 Md5Model.qhashmd5 Md5Model.qhashmd5_file
   FnvSpec.fnv1_32 FnvSpec.fnv1_64 MurmurSpec.murmur3_x86_32 MurmurSpec.murmur3_x64_128 Md5Spec.md5 Word.le_bytes.
