(* C06 — the static hash table is an exact bounded map with exact space accounting. *)
From Coq Require Import List Arith ZArith Bool Permutation.
From QV.Gen Require Import Consts.
From QV.Harr Require Import HarrModel HarrSpec HarrProofs.
Import ListNotations.
Local Open Scope Z_scope.

Section C06.
Variable K : Type.
Variable keq : K -> K -> bool.
Variable home : K -> nat.                                      (* hash(key) mod capacity *)
Hypothesis keq_spec : forall a b, keq a b = true <-> a = b.   (* the stored (length, prefix, digest) identifies the key *)
Local Notation Rep := (HarrProofs.Rep K home).
Local Notation kv := (HarrProofs.kv K).
Local Notation ek := (HarrProofs.ek K).
Local Notation ev := (HarrProofs.ev K).
Local Notation ei := (HarrProofs.ei K).
Local Notation allidx := (HarrProofs.allidx K).
Local Notation srun := (HarrSpec.srun K keq).
Local Notation aused := (HarrSpec.aused K).


(* every history of put/get/remove on every capacity: results equal the ideal bounded map's, which includes
   "put succeeds iff a slot is free and the value fits into the free slots plus those of the value it replaces" and
   "a failed put changes no other key and leaves its own key unchanged (table full) or absent"; the final image
   represents exactly the ideal map *)
Theorem C06_refines : forall (m : nat) (os : list (op K)), (forall k, home k < m)%nat ->
  let '(g, xs) := run keq home (init K m) os in
  let '(am, ys) := srun m [] os in
  xs = ys /\ exists lay, Rep lay g /\ kv lay = am /\ maxs g = m.
Proof. exact (run_refines K keq home keq_spec). Qed.

(* exact accounting: key count and used-slot count are those of the ideal map (need v = 1 + ceil((|v|-DATASZ)/EXTSZ) slots) *)
Theorem C06_accounting : forall lay g, Rep lay g -> num g = Z.of_nat (length (kv lay)) /\ used g = aused (kv lay).
Proof. exact (size_rep K home). Qed.

(* put of a new key / of an existing key: success condition and effect, from any well-formed image *)
Theorem C06_put_new : forall lay g k v n, Rep lay g -> (forall e, In e lay -> ek e <> k) -> (home k < maxs g)%nat -> v <> [] ->
  let '(g', ok) := put keq home n g k v in
  exists lay', Rep lay' g' /\ maxs g' = maxs g /\
    (ok = true -> kv lay' = kv lay ++ [(k, v)]) /\ (ok = false -> kv lay' = kv lay) /\
    (ok = true <-> used g < Z.of_nat (maxs g) /\ Z.of_nat (length (chunks v)) <= Z.of_nat (maxs g) - used g).
Proof. exact (put_absent K keq home keq_spec). Qed.
Theorem C06_put_existing : forall l1 e l2 g v n, Rep (l1 ++ e :: l2) g -> v <> [] ->
  let '(g', ok) := put keq home (S n) g (ek e) v in
  exists lay', Rep lay' g' /\ maxs g' = maxs g /\
    (ok = true -> kv lay' = kv (l1 ++ l2) ++ [(ek e, v)]) /\
    (ok = false -> (Z.of_nat (maxs g) <= used g -> kv lay' = kv (l1 ++ e :: l2)) /\ (used g < Z.of_nat (maxs g) -> kv lay' = kv (l1 ++ l2))) /\
    (ok = true <-> used g < Z.of_nat (maxs g) /\ Z.of_nat (length (chunks v)) <= Z.of_nat (maxs g) - used g + Z.of_nat (length (ei e))).
Proof. exact (put_present K keq home keq_spec). Qed.
Theorem C06_get : forall lay g k, Rep lay g -> (home k < maxs g)%nat ->
  get keq home g k = match find (fun e => keq k (ek e)) lay with Some e => Some (ev e) | None => None end.
Proof. exact (get_spec K keq home keq_spec). Qed.
(* remove-by-index is removal of the key stored in that slot; any other slot: refused, nothing changes *)
Theorem C06_remove_by_idx : forall lay g i, Rep lay g -> (i < maxs g)%nat ->
  (is_keyslot (getS g i) = true ->
     exists e, In e lay /\ key (getS g i) = Some (ek e) /\ remove_idx_api g i = remove keq home g (ek e) /\ snd (remove keq home g (ek e)) = true) /\
  (is_keyslot (getS g i) = false -> remove_idx_api g i = (g, false)).
Proof. exact (delidx_rep K keq home keq_spec). Qed.
(* the walk returns every stored key exactly once with its value *)
Theorem C06_walk : forall lay g, Rep lay g -> Permutation (walk g) (map (fun e => (Some (ek e), ev e)) lay).
Proof. exact (walk_perm K home). Qed.
Theorem C06_clear : forall lay g, Rep lay g -> Rep [] (clear g) /\ maxs (clear g) = maxs g.
Proof. exact (clear_rep K home). Qed.
End C06.

(* the slot payload sizes the model uses are the ones the headers define *)
Example C06_sizes : DATASZ = 32%nat /\ EXTSZ = 66%nat.
Proof. split; reflexivity. Qed.
(* non-vacuity: a concrete colliding history on 3 slots *)
Example C06_ex : let '(g, xs) := run Nat.eqb (fun k => k mod 2)%nat (init nat 3) [Put 0%nat [1%nat]; Put 2%nat [2%nat]; Put 4%nat [3%nat]; Put 6%nat [4%nat]; Del 0%nat; Get 2%nat] in
  xs = [OBool true; OBool true; OBool true; OBool false; OBool true; OVal (Some [2%nat])] /\ used g = 2 /\ num g = 2.
Proof. vm_compute. auto. Qed.

Print Assumptions C06_refines.
Print Assumptions C06_accounting.
Print Assumptions C06_put_new.
Print Assumptions C06_put_existing.
Print Assumptions C06_get.
Print Assumptions C06_remove_by_idx.
Print Assumptions C06_walk.
Print Assumptions C06_clear.
