(* C04 — Nearest-key search: qtreetbl_find_nearest returns the entry with the equal key, else with the greatest smaller key,
   else (no smaller key) with the smallest key; nothing iff the table is empty; and the cursor it hands out lets getnext
   continue the traversal from there.
   This file contains only the property theorems; each is closed by a lemma proved in Tree/TreeIter.v.
   Model: Tree/QTree.v (fn_descend / fn_climb / qnearest, then walk_n from the returned cursor);
   specification: Tree/TreeSpec.v (snearest on the sorted association list). *)
From Coq Require Import NArith PArith List Bool FMapPositive Permutation.
From QV.Base Require Import Res.
From QV.Tree Require Import TreeModel TreeLlrb QTree TreeSpec QTreeProofs TreeIter.
Import ListNotations.

Section C04.
Variable kcmp : list N -> list N -> comparison.
Hypothesis kcmp_trans : forall a b c, kcmp a b = Lt -> kcmp b c = Lt -> kcmp a c = Lt.
Hypothesis kcmp_antisym : forall a b, kcmp a b = CompOpp (kcmp b a).
Hypothesis kcmp_eq_l : forall a b c, kcmp a b = Eq -> kcmp a c = kcmp b c.

Theorem C04_nearest_empty_key : forall s, qnearest kcmp s [] = Ok (s, cursor0, None).
Proof. exact (nearest_empty_key kcmp). Qed.

(* the result is the specification's floor (snearest); the search never crashes and its climb never runs out of fuel;
   only the parent links change: afterwards they are the true parents from the returned node up to the root, and the
   root has none; the cursor names the returned node under the table's current stamp *)
Theorem C04_nearest_floor : forall s k, Inv kcmp s -> IdInv s -> k <> [] ->
  exists s1 c, qnearest kcmp s k = Ok (s1, c, snearest kcmp k (abs s)) /\
    root s1 = root s /\ num s1 = num s /\ ttid s1 = ttid s /\ nextid s1 = nextid s /\ tids s1 = tids s /\
    match snearest kcmp k (abs s) with
    | None => c = cursor0 /\ root s = E
    | Some e => exists x, In x (elements (root s)) /\ e = kv x /\ c = (ttid s, Some (nid x)) /\
                 plink (nexts s1) (root s) (nid x) /\ (forall ri, rootid (root s) = Some ri -> PM.find ri (nexts s1) = None)
    end.
Proof. exact (nearest_floor kcmp kcmp_trans kcmp_eq_l). Qed.

(* continuation, no node carrying the current stamp (which is what the specification's flag dirty = false means, see
   C03_walk): n further getnext calls hand out the first n elements of a list that is a permutation of all entries,
   and report the end exactly when n exceeds the number of entries *)
Theorem C04_continue : forall s k n s1 c e, Inv kcmp s -> IdInv s -> Clean s -> qnearest kcmp s k = Ok (s1, c, Some e) ->
  exists xs s', Permutation xs (abs s) /\ walk_n n s1 c [] = Ok (s', firstn n xs, Nat.ltb (length (abs s)) n) /\
    root s' = root s /\ num s' = num s /\ nextid s' = nextid s /\ Inv kcmp s' /\ IdInv s' /\ (Nat.ltb (length (abs s)) n = true -> Clean s').
Proof. exact (nearest_continue kcmp kcmp_trans kcmp_eq_l). Qed.
Theorem C04_continue_distinct : forall s k n s1 c e, Inv kcmp s -> IdInv s -> Clean s -> qnearest kcmp s k = Ok (s1, c, Some e) ->
  exists l s', walk_n n s1 c [] = Ok (s', l, Nat.ltb (length (abs s)) n) /\
    length l = Nat.min n (length (abs s)) /\ NoDup l /\ incl l (abs s) /\ (length (abs s) < n -> Permutation l (abs s)).
Proof. exact (nearest_continue_distinct kcmp kcmp_trans kcmp_antisym kcmp_eq_l). Qed.

(* continuation, arbitrary stamps (a walk was left unfinished): the calls still return, hand out entries of the table, report
   the end when asked more often than there are entries, and leave a table satisfying the invariants *)
Theorem C04_continue_total : forall s k n s1 c e, Inv kcmp s -> IdInv s -> qnearest kcmp s k = Ok (s1, c, Some e) ->
  exists s' l b, walk_n n s1 c [] = Ok (s', l, b) /\ length l <= Nat.min n (length (abs s)) /\ incl l (abs s) /\
    (length (abs s) < n -> b = true) /\ root s' = root s /\ Inv kcmp s' /\ IdInv s' /\ (b = true -> Clean s').
Proof. exact (nearest_walk_total kcmp kcmp_trans kcmp_eq_l). Qed.

(* the machine-level fact behind the continuation: from a node i of subtree u whose parent links up to the root of u are
   in place, the loop hands out nodes of u only, each at most once, all of them when none was stamped, and ends at the
   parent link of u's root within 3*size(u) - 1 iterations *)
Theorem C04_climb_run : forall t tid u m i ri, plink (mnexts m) u i -> rootid u = Some ri -> wfv t u -> NoDup (ids u) -> cur m = Some i ->
  exists n m' ys, runm t tid n m = (ys, m') /\ cur m' = PM.find ri (mnexts m) /\
    stamps tid m m' ys /\ incl ys (ids u) /\ length ys <= size u /\
    ((forall j, In j (ids u) -> st tid (mtids m) j = false) -> Permutation ys (ids u)) /\
    (forall j, j = ri \/ ~ In j (ids u) -> PM.find j (mnexts m') = PM.find j (mnexts m)) /\
    st tid (mtids m') ri = true /\ n + 1 <= 3 * size u.
Proof. exact climb_run. Qed.
End C04.

Print Assumptions C04_nearest_empty_key.
Print Assumptions C04_nearest_floor.
Print Assumptions C04_continue.
Print Assumptions C04_continue_distinct.
Print Assumptions C04_continue_total.
Print Assumptions C04_climb_run.

(* non-vacuity *)
Example C04_floor_default_order : forall s k, Inv byte_cmp s -> IdInv s -> k <> [] ->
  exists s1 c, qnearest byte_cmp s k = Ok (s1, c, snearest byte_cmp k (abs s)).
Proof. intros s k H1 H2 H3. destruct (C04_nearest_floor byte_cmp byte_cmp_trans byte_cmp_eq_l s k H1 H2 H3) as (s1 & c & E & _). eauto. Qed.

Local Open Scope N_scope.
Definition observations (r : res (tbl * list obs)) : list obs := match r with Ok (_, o) => o | _ => [] end.
Example C04_example_nearest :
  observations (run byte_cmp init
    [Nearest [5] 3; Put [20] [2]; Put [10] [1]; Put [30] [3]; Put [40] [4];
     Nearest [20] 0; Nearest [25] 0; Nearest [5] 0; Nearest [] 1; Nearest [25] 9;
     Nearest [99] 2; Nearest [25] 9; Walk 1; Nearest [35] 9]) =
  [ONear None [] true; OBool true; OBool true; OBool true; OBool true;
   ONear (Some ([20], [2])) [] false;          (* equal key *)
   ONear (Some ([20], [2])) [] false;          (* greatest smaller key *)
   ONear (Some ([10], [1])) [] false;          (* no smaller key: the smallest *)
   ONear None [] true;                         (* empty key: EINVAL *)
   ONear (Some ([20], [2])) [([10], [1]); ([20], [2]); ([30], [3]); ([40], [4])] true;   (* continuation visits every entry once *)
   ONear (Some ([40], [4])) [([30], [3]); ([40], [4])] false;                            (* two calls, walk left unfinished *)
   ONear (Some ([20], [2])) [([10], [1]); ([20], [2])] true;     (* stamps of the unfinished walk are still current: a subset, then the end *)
   OWalk [([10], [1])] false;
   ONear (Some ([30], [3])) [([30], [3]); ([40], [4]); ([20], [2])] true].
Proof. vm_compute. reflexivity. Qed.
