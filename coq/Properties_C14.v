(* C14 — every public operation returns with the container lock released, on every path.
   Gen/LockAst.v is regenerated from clang's AST of the sources on every run; each function's obligation is an
   evaluation of the verified checker, i.e. a statement about every path of that function (branch conditions, loop
   counts and allocation outcomes are unconstrained in the path semantics `exec`). *)
From Coq Require Import List String Bool.
From QV.Conc Require Import LockAst LockCheck.
From QV.Gen Require Import LockAst.
Import ListNotations.

(* the checker accepts every non-static function of qtreetbl/qhashtbl/qlisttbl/qlist/qvector/qqueue/qstack/qgrow/qlog,
   entered with the lock free and entered while the calling thread already holds it (recursive use) *)
Theorem C14_all_balanced : forallb (fun p => lock_balanced (snd p)) public_api = true.
Proof. vm_compute. reflexivity. Qed.
Theorem C14_all_balanced_nested : forallb (fun p => balanced_at false (1, true) (snd p)) public_api = true.
Proof. vm_compute. reflexivity. Qed.

(* the hand-read meaning of Q_MUTEX_ENTER / Q_MUTEX_LEAVE (one level up after a successful trylock / one level down and
   unlock) is valid for the macro texts that were reviewed; the translator compares the current texts with them *)
Theorem C14_macros_as_reviewed : mutex_macros_reviewed = true.
Proof. reflexivity. Qed.

(* every container mutex is created recursive (the second argument of each Q_MUTEX_NEW in the sources is `true`): the reading of
   Q_MUTEX_ENTER used for entries at depth 1 - the owner's trylock succeeds - is the behaviour of a recursive mutex only *)
Theorem C14_mutexes_recursive : forallb snd mutex_new_recursive = true /\ (5 <= List.length mutex_new_recursive)%nat.
Proof. vm_compute. split; [reflexivity | repeat constructor]. Qed.

(* hence: on every path, success or failure, the operation ends by return/fall-through with the depth it started with *)
Theorem C14_every_path : forall name body, In (name, body) public_api ->
  forall tr o a', exec body (0, false) tr o a' -> (o = Normal \/ o = Ret) /\ fst a' = 0.
Proof. intros name body Hin. pose proof C14_all_balanced as H. rewrite forallb_forall in H. specialize (H _ Hin). cbn in H.
  exact (lock_balanced_sound body H). Qed.
Theorem C14_every_path_nested : forall name body, In (name, body) public_api ->
  forall tr o a', exec body (1, true) tr o a' -> (o = Normal \/ o = Ret) /\ fst a' = 1.
Proof. intros name body Hin. pose proof C14_all_balanced_nested as H. rewrite forallb_forall in H. specialize (H _ Hin). cbn in H.
  exact (balanced_at_sound false (1, true) body H). Qed.

(* non-vacuity: the obligation list names the functions one expects, and the checker does reject a leak *)
Example C14_covers : existsb (fun p => String.eqb (fst p) "qvector_setat") public_api = true /\
  existsb (fun p => String.eqb (fst p) "qhashtbl_get") public_api = true /\
  existsb (fun p => String.eqb (fst p) "qtreetbl_putobj") public_api = true /\
  existsb (fun p => String.eqb (fst p) "qlisttbl_put") public_api = true /\
  existsb (fun p => String.eqb (fst p) "qlist_addat") public_api = true /\ (100 <= List.length public_api)%nat.
Proof. vm_compute. repeat split; try reflexivity. repeat constructor. Qed.
Example C14_rejects_leak : lock_balanced (Seq SLock (Seq (If Return Skip) SUnlock)) = false.
Proof. reflexivity. Qed.

Print Assumptions C14_every_path.
Print Assumptions C14_every_path_nested.
