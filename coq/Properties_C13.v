(* C13 — the thread-safe option makes concurrent use linearizable (lock level, sequentially consistent memory).
   Layer 1: every operation of the property's mix obeys the lock discipline on every path (verified checker evaluated on
            the control-flow abstraction regenerated from the sources).
   Layer 2: for calls obeying the discipline every interleaving is linearizable (generic theorem).
   Layer 3: the sequential meaning of the critical sections is what C01-C10 establish. *)
From Coq Require Import List String Bool.
From QV.Conc Require Import LockAst LockCheck Linearize Bridge.
From QV.Gen Require Import LockAst.
Import ListNotations.

Theorem C13_all_well_locked : forallb (fun p => well_locked (snd p)) c13_api = true.
Proof. vm_compute. reflexivity. Qed.
(* on every path of every such operation: each access to mutable container state happens at lock depth >= 1, the lock is
   taken from depth 0 at most once, and the call ends at depth 0 *)
Theorem C13_discipline : forall name body, In (name, body) c13_api ->
  forall tr o a', exec body (0, false) tr o a' -> (o = Normal \/ o = LockCheck.Ret) /\ fst a' = 0 /\ Forall ev_ok tr.
Proof. intros name body Hin. pose proof C13_all_well_locked as H. rewrite forallb_forall in H. specialize (H _ Hin). cbn in H.
  exact (well_locked_sound body H). Qed.

(* the reading of SLock/SUnlock in the abstraction - Q_MUTEX_ENTER returns holding the mutex one level deeper, Q_MUTEX_LEAVE gives
   one level back - is the hand-read meaning of the macro texts that were reviewed (the translator fingerprints the current texts),
   for mutexes that are created recursive (every Q_MUTEX_NEW in the sources asks for that) *)
Theorem C13_macros_as_reviewed : mutex_macros_reviewed = true /\ forallb snd mutex_new_recursive = true.
Proof. split; reflexivity. Qed.

(* the operations keep no state outside the containers: the only variables with static storage duration that the container sources
   define (file scope, function-local static, thread-local; const ones excepted - regenerated from clang's AST on every run) are the
   three debugging statistics counters of the tree table, which no operation reads.  A look-up cache in a static or per-thread
   variable would be state that the container's lock does not protect (seed C13-20). *)
Definition reviewed_static_state : list string :=
  ["_q_treetbl_flip_color_cnt"; "_q_treetbl_rotate_left_cnt"; "_q_treetbl_rotate_right_cnt"]%string.
Theorem C13_no_state_outside_containers :
  forallb (fun p => existsb (String.eqb (snd p)) reviewed_static_state) static_state = true.
Proof. reflexivity. Qed.

(* any interleaving of disciplined calls = the calls one at a time in linearization order *)
Theorem C13_linearizable : forall (St V : Type) (s0 : St) (progs : list (list (code St V))) (sched : list nat),
  (forall p k, In p progs -> In k p -> wl St V 0 false k) ->
  let c := run St V (init St V s0 progs) sched in
  finished St V c ->
  st St V c = seq_state St V s0 (lin St V c) /\
  forall i t, nth_error (ths St V c) i = Some t -> outs St V t = seq_outs St V s0 (lin St V c) i.
Proof. exact linearizable. Qed.

(* the link between the layers: a call whose every execution path is (up to accesses to immutable fields) a path of its
   translated abstraction - i.e. the translator read the C text faithfully - inherits the discipline `wl` from the checker *)
Definition realizes (St V : Type) (c : code St V) (body : stmt) : Prop :=
  forall tr, path St V c tr -> exists tr' o a', exec body (0, false) tr' o a' /\ norm tr' = tr.
Theorem C13_bridge : forall (St V : Type) (s0 : St) (body : stmt) (c : code St V),
  well_locked body = true -> realizes St V c body -> wl St V 0 false c.
Proof. intros St V s0 body c Hw Hr. exact (discipline_bridge St V s0 body c Hw Hr). Qed.
(* end to end: programs made of calls that realize operations of the checked list are linearizable under every schedule *)
Theorem C13_end_to_end : forall (St V : Type) (s0 : St) (progs : list (list (code St V))) (sched : list nat),
  (forall p k, In p progs -> In k p -> exists name body, In (name, body) c13_api /\ realizes St V k body) ->
  let c := run St V (init St V s0 progs) sched in
  finished St V c ->
  st St V c = seq_state St V s0 (lin St V c) /\
  forall i t, nth_error (ths St V c) i = Some t -> outs St V t = seq_outs St V s0 (lin St V c) i.
Proof. intros St V s0 progs sched H. apply linearizable. intros p k Hp Hk. destruct (H p k Hp Hk) as (name & body & Hin & Hr).
  apply (C13_bridge St V s0 body k); [|exact Hr]. pose proof C13_all_well_locked as A. rewrite forallb_forall in A. exact (A _ Hin). Qed.

Example C13_covers : existsb (fun p => String.eqb (fst p) "qvector_addlast") c13_api = true /\
  existsb (fun p => String.eqb (fst p) "qlist_toarray") c13_api = true /\
  existsb (fun p => String.eqb (fst p) "qtreetbl_putobj") c13_api = true /\
  existsb (fun p => String.eqb (fst p) "qhashtbl_remove") c13_api = true /\
  existsb (fun p => String.eqb (fst p) "qlisttbl_put") c13_api = true /\ (60 <= List.length c13_api)%nat.
Proof. vm_compute. repeat split; try reflexivity. repeat constructor. Qed.
(* the checker rejects a read of mutable state before the lock is taken (qvector_addlast as it was) *)
Example C13_rejects_prelock_read : well_locked (Seq (CallFree true) (Seq SLock (Seq (CallFree true) SUnlock))) = false.
Proof. reflexivity. Qed.

Print Assumptions C13_discipline.
Print Assumptions C13_macros_as_reviewed.
Print Assumptions C13_linearizable.
Print Assumptions C13_bridge.
Print Assumptions C13_end_to_end.
Print Assumptions C13_no_state_outside_containers.
