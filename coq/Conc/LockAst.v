(* Control-flow abstraction of a C function, produced by tools/gen_lockast.py from clang's AST. *)
Inductive stmt :=
| Skip | SLock | SUnlock
| Acc (mutable : bool)          (* an expression touching container state; mutable = the field (or a node reached through the
                                   container) is written somewhere outside the constructor *)
| CallFree (touches : bool)     (* call to a function that contains no lock operation, transitively; touches = it accesses
                                   mutable container state *)
| CallInl (body : stmt)         (* call to a function with lock operations: its translated body (there is no recursion) *)
| Seq (a b : stmt) | If (a b : stmt) | Loop (body : stmt)
| Return | Break | Continue
| Unsupported.                  (* goto/switch/anything the translator cannot read: the checker rejects it *)
