(* The link between the two layers of C13.
   Layer 1 (LockCheck): every path of the translated control-flow abstraction `body` of an operation obeys the discipline.
   Layer 2 (Linearize): calls whose resumption code satisfies `wl 0 false` are linearizable.
   Bridge: if every execution path of the call's code is (up to accesses to immutable fields) a path of the abstraction -
   which is exactly what "the translator reads the C text faithfully" means - and the checker accepts the abstraction, then
   the code satisfies `wl 0 false`.  The faithfulness of the translator thus appears as an explicit hypothesis instead of
   being part of the informal argument. *)
From Coq Require Import List Arith Lia Bool.
From QV.Conc Require Import LockAst LockCheck Linearize.
Import ListNotations.

Section Bridge.
Variables (St V : Type).
Variable s0 : St.                        (* the state type is inhabited *)
Local Notation code := (code St V).
Local Notation wl := (wl St V).

(* lock and access events of one execution path of a call; every shared access continues from some state *)
Inductive path : code -> list event -> Prop :=
| pRet v : path (Linearize.Ret St V v) []
| pLock k tr : path k tr -> path (Lock St V k) (EvLock :: tr)
| pUnlock k tr : path k tr -> path (Unlock St V k) (EvUnlock :: tr)
| pAcc u k s tr : path (k s) tr -> path (Linearize.Acc St V u k) (EvAcc 0 true :: tr).

Lemma path_exists c : exists tr, path c tr.
Proof. induction c as [v|k IH|k IH|u k IH].
  - eexists; constructor.
  - destruct IH as (tr & H). eexists; constructor; eauto.
  - destruct IH as (tr & H). eexists; constructor; eauto.
  - destruct (IH s0) as (tr & H). eexists. eapply pAcc. exact H. Qed.

Lemma paths_wl c : forall d e, (forall tr, path c tr -> exists e', twl (d, e) tr = Some (0, e')) -> wl d e c.
Proof. induction c as [v|k IH|k IH|u k IH]; intros d e H; cbn [Linearize.wl].
  - destruct (H [] (pRet v)) as (e' & E). cbn in E. congruence.
  - destruct d as [|d].
    + destruct (path_exists k) as (tr0 & P0). destruct (H _ (pLock k tr0 P0)) as (e0 & E0). cbn [twl] in E0.
      destruct e; [discriminate|]. split; [reflexivity|]. apply IH. intros tr P. destruct (H _ (pLock k tr P)) as (e' & E). cbn [twl] in E. eauto.
    + apply IH. intros tr P. destruct (H _ (pLock k tr P)) as (e' & E). cbn [twl] in E. eauto.
  - destruct d as [|d].
    + destruct (path_exists k) as (tr0 & P0). destruct (H _ (pUnlock k tr0 P0)) as (e0 & E0). cbn [twl] in E0. discriminate.
    + apply IH. intros tr P. destruct (H _ (pUnlock k tr P)) as (e' & E). cbn [twl] in E. eauto.
  - destruct d as [|d].
    + destruct (path_exists (k s0)) as (tr0 & P0). destruct (H _ (pAcc u k s0 tr0 P0)) as (e0 & E0). cbn in E0. discriminate.
    + intros s. apply IH. intros tr P. destruct (H _ (pAcc u k s tr P)) as (e' & E). cbn in E. eauto.
Qed.

(* forget accesses to immutable fields and the depth annotation of the others *)
Definition norm (tr : list event) : list event :=
  flat_map (fun ev => match ev with EvAcc _ true => [EvAcc 0 true] | EvAcc _ false => [] | x => [x] end) tr.
Lemma twl_norm tr : forall a, twl a (norm tr) = twl a tr.
Proof. induction tr as [|ev r IH]; intros a; [reflexivity|]. destruct ev as [d [|]| |]; cbn [norm flat_map app twl].
  - fold (norm r). cbn [andb]. destruct (Nat.eqb (fst a) 0); [reflexivity|apply IH].
  - fold (norm r). cbn [andb]. apply IH.
  - fold (norm r). destruct a as [[|d] [|]]; try reflexivity; apply IH.
  - fold (norm r). destruct a as [[|d] e]; [reflexivity|apply IH]. Qed.

Theorem discipline_bridge (body : stmt) (c : code) :
  well_locked body = true ->
  (forall tr, path c tr -> exists tr' o a', exec body (0, false) tr' o a' /\ norm tr' = tr) ->
  wl 0 false c.
Proof. intros Hw Hf. apply paths_wl. intros tr P. destruct (Hf tr P) as (tr' & o & a' & Hex & <-). rewrite twl_norm.
  unfold well_locked, balanced in Hw. destruct (chk true body (0, false)) as [x|] eqn:E; [|discriminate].
  pose proof (exec_twl _ _ _ _ _ Hex _ E) as T.
  assert (Hb : balanced true body = true) by (unfold balanced; rewrite E; exact Hw).
  destruct (balanced_sound true body Hb tr' o a' Hex) as (_ & D & _). destruct a' as [d' e']. cbn in D. subst d'. eauto. Qed.
End Bridge.
