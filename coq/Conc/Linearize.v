(* Lock-level linearizability, generically.
   An API call is a resumption `code` over the shared container state: Ret v | Lock k | Unlock k | Acc update k.
   `wl 0 false c` is the lock discipline the verified checker of LockCheck.v establishes for every path of every
   translated operation: shared state is accessed only while the (recursive) lock is held, the call returns with the lock
   released, and it has a single critical section.  Threads interleave arbitrarily at the granularity of lock operations
   and individual shared accesses; a thread that does not own the lock cannot take it.
   Theorem linearizable: for calls satisfying the discipline, after ANY schedule that runs all calls to completion the
   shared state and every thread's list of results are those of running the calls one at a time in the ghost order `lin`
   (order of first lock acquisition; lock-free calls at their invocation). *)
From Coq Require Import List Arith Lia Bool.
Import ListNotations.

Section Lin.
Variables (St V : Type).

(* code of one API call, as a resumption over the shared state *)
Inductive code := Ret (v:V) | Lock (k:code) | Unlock (k:code) | Acc (upd: St -> St) (k: St -> code).

(* meaning of the call when run alone (locks ignored) *)
Fixpoint seq (c:code) (s:St) : St * V :=
  match c with
  | Ret v => (s, v)
  | Lock k => seq k s
  | Unlock k => seq k s
  | Acc u k => seq (k s) (u s)
  end.

(* lock discipline: accesses only while holding; balanced; a single critical section *)
Fixpoint wl (d:nat) (entered:bool) (c:code) : Prop :=
  match c with
  | Ret _ => d = 0
  | Lock k => match d with O => entered = false /\ wl 1 true k | S _ => wl (S d) entered k end
  | Unlock k => match d with O => False | S d' => wl d' entered k end
  | Acc u k => match d with O => False | S _ => forall s, wl d entered (k s) end
  end.

Record thread := { pend : list code;           (* calls not yet started *)
                   cur  : option (code * nat * bool); (* running call: remaining code, its lock depth, entered *)
                   outs : list V }.            (* results returned so far *)
Record config := { st : St; own : option nat; ths : list thread;
                   (* ghost: linearization order and the state obtained by running it sequentially *)
                   lin : list (nat * code); }.

Fixpoint upd_th (l:list thread) (i:nat) (t:thread) : list thread :=
  match l, i with
  | [], _ => []
  | _ :: r, O => t :: r
  | x :: r, S i' => x :: upd_th r i' t
  end.

(* one step of thread i; None = thread i cannot move (finished, blocked on the lock, or ill-formed) *)
Definition step (c:config) (i:nat) : option config :=
  match nth_error (ths c) i with
  | None => None
  | Some t =>
    match cur t with
    | None =>
        match pend t with
        | [] => None
        | k :: rest =>
            (* invocation; lock-free calls linearize here *)
            let lin' := match k with Lock _ => lin c | _ => lin c ++ [(i,k)] end in
            Some {| st := st c; own := own c; lin := lin';
                    ths := upd_th (ths c) i {| pend := rest; cur := Some (k,0,false); outs := outs t |} |}
        end
    | Some (Ret v, d, e) =>
        Some {| st := st c; own := own c; lin := lin c;
                ths := upd_th (ths c) i {| pend := pend t; cur := None; outs := outs t ++ [v] |} |}
    | Some (Lock k, d, e) =>
        match own c with
        | None =>
            Some {| st := st c; own := Some i; lin := lin c ++ [(i, Lock k)];
                    ths := upd_th (ths c) i {| pend := pend t; cur := Some (k,1,true); outs := outs t |} |}
        | Some j =>
            if Nat.eqb j i then
              Some {| st := st c; own := own c; lin := lin c;
                      ths := upd_th (ths c) i {| pend := pend t; cur := Some (k,S d,e); outs := outs t |} |}
            else None
        end
    | Some (Unlock k, d, e) =>
        match own c, d with
        | Some j, S d' =>
            if Nat.eqb j i then
              Some {| st := st c; own := (match d' with O => None | _ => Some i end); lin := lin c;
                      ths := upd_th (ths c) i {| pend := pend t; cur := Some (k,d',e); outs := outs t |} |}
            else None
        | _, _ => None
        end
    | Some (Acc u k, d, e) =>
        Some {| st := u (st c); own := own c; lin := lin c;
                ths := upd_th (ths c) i {| pend := pend t; cur := Some (k (st c),d,e); outs := outs t |} |}
    end
  end.

(* a schedule is any list of thread ids; entries that cannot move are skipped *)
Fixpoint run (c:config) (sched:list nat) : config :=
  match sched with
  | [] => c
  | i :: r => match step c i with Some c' => run c' r | None => run c r end
  end.

Definition init (s0:St) (progs:list (list code)) : config :=
  {| st := s0; own := None; lin := [];
     ths := map (fun p => {| pend := p; cur := None; outs := [] |}) progs |}.

Definition finished (c:config) := forall t, In t (ths c) -> pend t = [] /\ cur t = None.

(* sequential execution of the linearization *)
Definition seq_state (s0:St) (l:list (nat*code)) : St := fold_left (fun s p => fst (seq (snd p) s)) l s0.
(* results each thread should see: run lin sequentially, collect per thread *)
Fixpoint seq_outs (s:St) (l:list (nat*code)) (i:nat) : list V :=
  match l with
  | [] => []
  | (j,c) :: r => let (s',v) := seq c s in if Nat.eqb j i then v :: seq_outs s' r i else seq_outs s' r i
  end.


(* ---------- list-update lemmas ---------- *)
Lemma nth_upd_same (l:list thread) i t t0 : nth_error l i = Some t0 -> nth_error (upd_th l i t) i = Some t.
Proof. revert i; induction l as [|x r IH]; intros [|i] H; cbn in *; try discriminate; auto. Qed.
Lemma nth_upd_other (l:list thread) i j t : i <> j -> nth_error (upd_th l i t) j = nth_error l j.
Proof. revert i j; induction l as [|x r IH]; intros [|i] [|j] H; cbn; auto; try congruence. Qed.

Lemma seq_state_app s0 l1 l2 : seq_state s0 (l1 ++ l2) = seq_state (seq_state s0 l1) l2.
Proof. unfold seq_state. apply fold_left_app. Qed.
Lemma seq_outs_app s0 l j c i :
  seq_outs s0 (l ++ [(j,c)]) i = seq_outs s0 l i ++ (if Nat.eqb j i then [snd (seq c (seq_state s0 l))] else []).
Proof. revert s0; induction l as [|[j' c'] r IH]; intros s0; cbn.
  - destruct (seq c s0); destruct (Nat.eqb j i); reflexivity.
  - unfold seq_state in *. cbn. destruct (seq c' s0) as [s' v] eqn:E. cbn. rewrite IH.
    destruct (Nat.eqb j' i); reflexivity. Qed.

(* shape of code allowed at depth 0 *)
Lemma wl0_inv e k : wl 0 e k -> (exists v, k = Ret v) \/ (exists k', k = Lock k' /\ e = false /\ wl 1 true k').
Proof. destruct k; cbn; intros H; try contradiction; [left; eauto | right; destruct H; eauto]. Qed.

Definition tailpred (c:config) (t:thread) : list V :=
  match cur t with
  | Some (Lock _, O, false) => []
  | Some (k, _, _) => [snd (seq k (st c))]
  | None => []
  end.

Record Inv (s0:St) (c:config) : Prop := {
  iA : forall j t k d e, nth_error (ths c) j = Some t -> cur t = Some (k,d,e) -> wl d e k;
  iE : forall j t k, nth_error (ths c) j = Some t -> In k (pend t) -> wl 0 false k;
  iB1 : forall j t k d e, nth_error (ths c) j = Some t -> cur t = Some (k,d,e) -> d > 0 -> own c = Some j;
  iB2 : forall i, own c = Some i -> exists t k d e, nth_error (ths c) i = Some t /\ cur t = Some (k, S d, e);
  iC : match own c with
       | None => st c = seq_state s0 (lin c)
       | Some i => exists t k d e, nth_error (ths c) i = Some t /\ cur t = Some (k,d,e) /\ seq_state s0 (lin c) = fst (seq k (st c))
       end;
  iD : forall i t, nth_error (ths c) i = Some t -> seq_outs s0 (lin c) i = outs t ++ tailpred c t;
  iF : forall j t k d e, nth_error (ths c) j = Some t -> cur t = Some (k,d,e) -> d > 0 -> e = true
}.

Ltac split_nth :=
  match goal with
  | H0: nth_error ?l ?i = Some ?t0, H: nth_error (upd_th ?l ?i ?t) ?j = Some ?t' |- _ =>
      destruct (Nat.eq_dec i j) as [->|Hne];
      [ rewrite (nth_upd_same l j t t0 H0) in H; inversion H; subst; clear H
      | rewrite (nth_upd_other l i j t Hne) in H ]
  end.


Lemma tailpred_indep c1 c2 t k e : cur t = Some (k,0,e) -> wl 0 e k -> tailpred c1 t = tailpred c2 t.
Proof. intros Hc Hw. unfold tailpred. rewrite Hc. destruct (wl0_inv _ _ Hw) as [[v ->]|(k' & -> & -> & _)]; reflexivity. Qed.

(* threads other than the lock holder sit at depth 0 *)
Lemma other_depth0 s0 c i j t k d e : Inv s0 c -> own c = Some i -> j <> i ->
  nth_error (ths c) j = Some t -> cur t = Some (k,d,e) -> d = 0.
Proof. intros I Ho Hne Ht Hc. destruct d; auto. pose proof (iB1 _ _ I _ _ _ _ _ Ht Hc ltac:(lia)). congruence. Qed.


Lemma tailpred_st c1 c2 t : st c1 = st c2 -> tailpred c1 t = tailpred c2 t.
Proof. intros H. unfold tailpred. rewrite H. reflexivity. Qed.

Ltac ex4 := eexists; eexists; eexists; eexists.

Lemma step_inv s0 c i c' : Inv s0 c -> step c i = Some c' -> Inv s0 c'.
Proof.
  intros I Hs. unfold step in Hs.
  destruct (nth_error (ths c) i) as [t|] eqn:Ht; [|discriminate].
  destruct (cur t) as [[[k d] e]|] eqn:Hc.
  - pose proof (iA _ _ I _ _ _ _ _ Ht Hc) as Hwl.
    destruct k as [v|k|k|u k].
    + (* Ret *)
      inversion Hs; subst c'; clear Hs. cbn in Hwl. subst d.
      assert (Hno: own c <> Some i).
      { intros Ho. destruct (iB2 _ _ I _ Ho) as (t0 & k0 & d0 & e0 & Ht0 & Hc0). congruence. }
      constructor; cbn [ths st own lin].
      * intros j t' k' d0 e0 Hj Hcj. split_nth; [cbn in Hcj; discriminate | eapply (iA _ _ I); eauto].
      * intros j t' k' Hj Hin. split_nth; [cbn in Hin | ]; eapply (iE _ _ I); eauto.
      * intros j t' k' d0 e0 Hj Hcj Hd. split_nth; [cbn in Hcj; discriminate | eapply (iB1 _ _ I); eauto].
      * intros i' Ho'. destruct (iB2 _ _ I _ Ho') as (t0 & k0 & d0 & e0 & Ht0 & Hc0).
        assert (i <> i') by congruence. ex4. rewrite nth_upd_other by auto. eauto.
      * pose proof (iC _ _ I) as HC. destruct (own c) as [i'|] eqn:Ho; [|exact HC].
        destruct HC as (t0 & k0 & d0 & e0 & Ht0 & Hc0 & Hst). assert (i <> i') by congruence.
        ex4. rewrite nth_upd_other by auto. eauto.
      * intros j t' Hj. split_nth.
        -- rewrite (iD _ _ I _ _ Ht). unfold tailpred; cbn [cur]. rewrite Hc. cbn. rewrite app_nil_r. reflexivity.
        -- rewrite (iD _ _ I _ _ Hj). reflexivity.
      * intros j t' k' d0 e0 Hj Hcj Hd. split_nth; [cbn in Hcj; discriminate | eapply (iF _ _ I); eauto].
    + (* Lock *)
      destruct (own c) as [j0|] eqn:Ho.
      * (* re-entrant or blocked *)
        destruct (Nat.eqb j0 i) eqn:Hji; [|discriminate]. apply Nat.eqb_eq in Hji; subst j0.
        inversion Hs; subst c'; clear Hs.
        destruct (iB2 _ _ I _ Ho) as (t0 & k0 & d0 & e0 & Ht0 & Hc0).
        rewrite Ht in Ht0; inversion Ht0; subst t0. rewrite Hc in Hc0; inversion Hc0; subst. cbn in Hwl.
        constructor; cbn [ths st own lin].
        -- intros j t' k' d1 e1 Hj Hcj. split_nth; [cbn in Hcj; inversion Hcj; subst; exact Hwl | eapply (iA _ _ I); eauto].
        -- intros j t' k' Hj Hin. split_nth; [cbn in Hin | ]; eapply (iE _ _ I); eauto.
        -- intros j t' k' d1 e1 Hj Hcj Hd. split_nth; [first [reflexivity | exact Ho | congruence] | first [eapply (iB1 _ _ I); eauto | rewrite <- Ho; eapply (iB1 _ _ I); eauto]].
        -- intros i' Ho'. inversion Ho'; subst i'. ex4. split; [eapply nth_upd_same; eauto| cbn; reflexivity].
        -- pose proof (iC _ _ I) as HC. rewrite Ho in HC. destruct HC as (t1 & k1 & d1 & e1 & Ht1 & Hc1 & Hst).
           rewrite Ht in Ht1; inversion Ht1; subst t1. rewrite Hc in Hc1; inversion Hc1; subst.
           ex4. split; [eapply nth_upd_same; eauto|]. split; [cbn; reflexivity|]. exact Hst.
        -- intros j t' Hj. split_nth.
           ++ rewrite (iD _ _ I _ _ Ht). unfold tailpred; cbn [cur st]. rewrite Hc. cbn [seq]. destruct k; reflexivity.
           ++ rewrite (iD _ _ I _ _ Hj). reflexivity.
        -- intros j t' k' d1 e1 Hj Hcj Hd. split_nth; [cbn in Hcj; inversion Hcj; subst; eapply (iF _ _ I); eauto; lia | eapply (iF _ _ I); eauto].
      * (* acquisition *)
        inversion Hs; subst c'; clear Hs.
        assert (d = 0). { destruct d; auto. pose proof (iB1 _ _ I _ _ _ _ _ Ht Hc ltac:(lia)). congruence. } subst d.
        cbn in Hwl. destruct Hwl as [-> Hwl].
        pose proof (iC _ _ I) as HC. rewrite Ho in HC.
        constructor; cbn [ths st own lin].
        -- intros j t' k' d1 e1 Hj Hcj. split_nth; [cbn in Hcj; inversion Hcj; subst; exact Hwl | eapply (iA _ _ I); eauto].
        -- intros j t' k' Hj Hin. split_nth; [cbn in Hin | ]; eapply (iE _ _ I); eauto.
        -- intros j t' k' d1 e1 Hj Hcj Hd. split_nth; [reflexivity | pose proof (iB1 _ _ I _ _ _ _ _ Hj Hcj Hd); congruence].
        -- intros i' Ho'. inversion Ho'; subst i'. ex4. split; [eapply nth_upd_same; eauto| cbn; reflexivity].
        -- ex4. split; [eapply nth_upd_same; eauto|]. split; [cbn; reflexivity|].
           rewrite seq_state_app. unfold seq_state at 1. cbn. rewrite HC. reflexivity.
        -- intros j t' Hj. rewrite seq_outs_app. split_nth.
           ++ rewrite Nat.eqb_refl. rewrite (iD _ _ I _ _ Ht). unfold tailpred; cbn [cur st]. rewrite Hc. cbn [seq]. rewrite app_nil_r.
              rewrite <- HC. destruct k; reflexivity.
           ++ apply Nat.eqb_neq in Hne. rewrite Hne, app_nil_r. rewrite (iD _ _ I _ _ Hj). reflexivity.
        -- intros j t' k' d1 e1 Hj Hcj Hd. split_nth; [cbn in Hcj; inversion Hcj; reflexivity | eapply (iF _ _ I); eauto].
    + (* Unlock *)
      destruct (own c) as [j0|] eqn:Ho; [|discriminate].
      destruct d as [|d']; [discriminate|].
      destruct (Nat.eqb j0 i) eqn:Hji; [|discriminate]. apply Nat.eqb_eq in Hji; subst j0.
      inversion Hs; subst c'; clear Hs. cbn in Hwl.
      assert (He: e = true) by (eapply (iF _ _ I); eauto; lia). subst e.
      pose proof (iC _ _ I) as HC. rewrite Ho in HC. destruct HC as (t1 & k1 & d1 & e1 & Ht1 & Hc1 & Hst).
      rewrite Ht in Ht1; inversion Ht1; subst t1. rewrite Hc in Hc1; inversion Hc1; subst. cbn [seq] in Hst.
      constructor; cbn [ths st own lin].
      * intros j t' k' d1 e1 Hj Hcj. split_nth; [cbn in Hcj; inversion Hcj; subst; exact Hwl | eapply (iA _ _ I); eauto].
      * intros j t' k' Hj Hin. split_nth; [cbn in Hin | ]; eapply (iE _ _ I); eauto.
      * intros j t' k' d1 e1 Hj Hcj Hd. split_nth.
        -- cbn in Hcj; inversion Hcj; subst. destruct d1; [lia|reflexivity].
        -- pose proof (iB1 _ _ I _ _ _ _ _ Hj Hcj Hd). congruence.
      * intros i' Ho'. destruct d'; [discriminate|]. inversion Ho'; subst i'. ex4. split; [eapply nth_upd_same; eauto| cbn; reflexivity].
      * destruct d'.
        -- destruct (wl0_inv _ _ Hwl) as [[v ->]|(k' & _ & Hf & _)]; [|discriminate]. cbn in Hst. congruence.
        -- ex4. split; [eapply nth_upd_same; eauto|]. split; [cbn; reflexivity|]. exact Hst.
      * intros j t' Hj. split_nth.
        -- rewrite (iD _ _ I _ _ Ht). unfold tailpred; cbn [cur st]. rewrite Hc. cbn [seq]. destruct k, d'; reflexivity.
        -- rewrite (iD _ _ I _ _ Hj). reflexivity.
      * intros j t' k' d1 e1 Hj Hcj Hd. split_nth; [cbn in Hcj; inversion Hcj; reflexivity | eapply (iF _ _ I); eauto].
    + (* Acc *)
      inversion Hs; subst c'; clear Hs. cbn in Hwl. destruct d as [|d']; [contradiction|].
      assert (Ho: own c = Some i) by (eapply (iB1 _ _ I); eauto; lia).
      constructor; cbn [ths st own lin].
      * intros j t' k' d0 e0 Hj Hcj. split_nth; [cbn in Hcj; inversion Hcj; subst; apply Hwl | eapply (iA _ _ I); eauto].
      * intros j t' k' Hj Hin. split_nth; [cbn in Hin | ]; eapply (iE _ _ I); eauto.
      * intros j t' k' d0 e0 Hj Hcj Hd. split_nth; [first [reflexivity | exact Ho | congruence] | first [eapply (iB1 _ _ I); eauto | rewrite <- Ho; eapply (iB1 _ _ I); eauto]].
      * intros i' Ho'. rewrite Ho in Ho'. inversion Ho'; subst i'.
        ex4. split; [eapply nth_upd_same; eauto | cbn; reflexivity].
      * rewrite Ho. pose proof (iC _ _ I) as HC. rewrite Ho in HC. destruct HC as (t0 & k0 & d0 & e0 & Ht0 & Hc0 & Hst).
        rewrite Ht in Ht0; inversion Ht0; subst t0. rewrite Hc in Hc0; inversion Hc0; subst.
        ex4. split; [eapply nth_upd_same; eauto|]. split; [cbn; reflexivity|]. exact Hst.
      * intros j t' Hj. split_nth.
        -- rewrite (iD _ _ I _ _ Ht). unfold tailpred; cbn [cur st]. rewrite Hc. cbn [seq].
           destruct (k (st c)) as [ | | | ]; reflexivity.
        -- rewrite (iD _ _ I _ _ Hj). f_equal. unfold tailpred at 1 2. cbn [cur st].
           destruct (cur t') as [[[kj dj] ej]|] eqn:Hcj; [|reflexivity].
           assert (dj = 0) by (eapply other_depth0; eauto). subst dj.
           pose proof (iA _ _ I _ _ _ _ _ Hj Hcj) as Hwj.
           destruct (wl0_inv _ _ Hwj) as [[v ->]|(k' & -> & -> & _)]; reflexivity.
      * intros j t' k' d0 e0 Hj Hcj Hd. split_nth; [cbn in Hcj; inversion Hcj; subst; eapply (iF _ _ I); eauto; lia | eapply (iF _ _ I); eauto].
  - (* start *)
    destruct (pend t) as [|k rest] eqn:Hp; [discriminate|].
    inversion Hs; subst c'; clear Hs.
    assert (Hwk: wl 0 false k) by (eapply (iE _ _ I); eauto; rewrite Hp; left; reflexivity).
    assert (Hno: own c <> Some i).
    { intros Ho. destruct (iB2 _ _ I _ Ho) as (t0 & k0 & d0 & e0 & Ht0 & Hc0). congruence. }
    assert (Hlin: seq_state s0 (match k with Lock _ => lin c | _ => lin c ++ [(i,k)] end) = seq_state s0 (lin c)).
    { destruct (wl0_inv _ _ Hwk) as [[v ->]|(k' & -> & _)]; [|reflexivity]. rewrite seq_state_app. reflexivity. }
    constructor; cbn [ths st own lin].
    + intros j t' k' d1 e1 Hj Hcj. split_nth; [cbn in Hcj; inversion Hcj; subst; exact Hwk | eapply (iA _ _ I); eauto].
    + intros j t' k' Hj Hin. split_nth; [cbn in Hin; eapply (iE _ _ I); eauto; rewrite Hp; right; exact Hin | eapply (iE _ _ I); eauto].
    + intros j t' k' d1 e1 Hj Hcj Hd. split_nth; [cbn in Hcj; inversion Hcj; subst; lia | eapply (iB1 _ _ I); eauto].
    + intros i' Ho'. destruct (iB2 _ _ I _ Ho') as (t0 & k0 & d0 & e0 & Ht0 & Hc0).
      assert (i <> i') by congruence. ex4. rewrite nth_upd_other by auto. eauto.
    + pose proof (iC _ _ I) as HC. destruct (own c) as [i'|] eqn:Ho.
      * destruct HC as (t0 & k0 & d0 & e0 & Ht0 & Hc0 & Hst). assert (i <> i') by congruence.
        ex4. rewrite nth_upd_other by auto. split; [eauto|]. split; [eauto|]. rewrite Hlin. exact Hst.
      * rewrite Hlin. exact HC.
    + intros j t' Hj. 
      destruct (wl0_inv _ _ Hwk) as [[v ->]|(k' & -> & _)].
      * rewrite seq_outs_app. split_nth.
        -- rewrite Nat.eqb_refl. rewrite (iD _ _ I _ _ Ht). unfold tailpred; cbn [cur]. rewrite Hc. cbn. rewrite app_nil_r. reflexivity.
        -- apply Nat.eqb_neq in Hne. rewrite Hne, app_nil_r. rewrite (iD _ _ I _ _ Hj). reflexivity.
      * split_nth.
        -- rewrite (iD _ _ I _ _ Ht). unfold tailpred; cbn [cur]. rewrite Hc. reflexivity.
        -- rewrite (iD _ _ I _ _ Hj). reflexivity.
    + intros j t' k' d1 e1 Hj Hcj Hd. split_nth; [cbn in Hcj; inversion Hcj; subst; lia | eapply (iF _ _ I); eauto].
Qed.

Lemma run_inv s0 sched : forall c, Inv s0 c -> Inv s0 (run c sched).
Proof. induction sched as [|i r IH]; intros c I; cbn; [exact I|].
  destruct (step c i) as [c'|] eqn:E; [apply IH; eapply step_inv; eauto | apply IH; exact I]. Qed.

Lemma init_inv s0 progs : (forall p k, In p progs -> In k p -> wl 0 false k) -> Inv s0 (init s0 progs).
Proof. intros H.
  assert (Hn: forall j t, nth_error (ths (init s0 progs)) j = Some t -> cur t = None /\ outs t = [] /\ In (pend t) progs).
  { intros j t Hj. cbn in Hj. rewrite nth_error_map in Hj. destruct (nth_error progs j) eqn:E; [|discriminate].
    inversion Hj; subst; cbn. repeat split; auto. eapply nth_error_In; eauto. }
  constructor.
  - intros j t k d e Hj Hc. destruct (Hn _ _ Hj) as (Hcur & _). congruence.
  - intros j t k Hj Hin. destruct (Hn _ _ Hj) as (_ & _ & Hp). eapply H; eauto.
  - intros j t k d e Hj Hc. destruct (Hn _ _ Hj) as (Hcur & _). congruence.
  - intros i Ho. discriminate.
  - reflexivity.
  - intros i t Hj. destruct (Hn _ _ Hj) as (Hcur & Ho & _). unfold tailpred. rewrite Hcur, Ho. reflexivity.
  - intros j t k d e Hj Hc. destruct (Hn _ _ Hj) as (Hcur & _). congruence.
Qed.

(* Every interleaving at the granularity of lock operations and single shared accesses is
   equivalent to running the calls one at a time in linearization order. *)
Theorem linearizable s0 progs sched :
  (forall p k, In p progs -> In k p -> wl 0 false k) ->
  let c := run (init s0 progs) sched in
  finished c ->
  st c = seq_state s0 (lin c) /\
  forall i t, nth_error (ths c) i = Some t -> outs t = seq_outs s0 (lin c) i.
Proof.
  intros Hwl c Hfin. assert (I: Inv s0 c) by (apply run_inv, init_inv, Hwl). split.
  - pose proof (iC _ _ I) as HC. destruct (own c) as [i|] eqn:Ho; [|exact HC].
    destruct (iB2 _ _ I _ Ho) as (t & k & d & e & Ht & Hc).
    destruct (Hfin t (nth_error_In _ _ Ht)) as [_ Hnone]. congruence.
  - intros i t Ht. rewrite (iD _ _ I _ _ Ht). destruct (Hfin t (nth_error_In _ _ Ht)) as [_ Hnone].
    unfold tailpred. rewrite Hnone. now rewrite app_nil_r.
Qed.
End Lin.

