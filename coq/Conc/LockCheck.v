(* A verified checker for the lock structure of the translated functions.
   Semantics: `exec s a tr o a'` - some path through s from lock state a (recursion depth of the calling thread, and
   whether the outermost lock was already taken once during this call) produces the access events tr, ends with outcome o
   in state a'.  Branch conditions and loop counts are unconstrained, so "every exec" is literally every path.
   `chk strict s a` computes the possible exit states per outcome kind or rejects (None).  With strict = true it also
   rejects an access to mutable state at depth 0 and a second critical section in one call (C13); with strict = false it
   only tracks depths (C14). *)
From Coq Require Import List Arith Lia Bool.
From QV.Conc Require Import LockAst.
Import ListNotations.

(* abstract = concrete lock state of the calling thread: recursion depth, and whether the
   outermost lock has already been taken once during this API call *)
Definition lstate := (nat * bool)%type.
Inductive outcome := Normal | Ret | Brk | Cont.
Inductive event := EvAcc (d:nat) (mutable:bool) | EvLock | EvUnlock.

(* every path through the statement: branch conditions and loop counts are unconstrained *)
Inductive exec : stmt -> lstate -> list event -> outcome -> lstate -> Prop :=
| xSkip a : exec Skip a [] Normal a
| xLock0 : exec SLock (0,false) [EvLock] Normal (1,true)
| xLock0' : exec SLock (0,true) [EvLock] Normal (1,true)          (* second critical section: allowed to run, flagged by the checker *)
| xLockS d e : exec SLock (S d, e) [EvLock] Normal (S (S d), e)
| xUnlock d e : exec SUnlock (S d, e) [EvUnlock] Normal (d, e)
| xUnlock0 e : exec SUnlock (0, e) [EvUnlock] Normal (0, e)         (* unlock without lock: runs (macro tolerates it), flagged by the checker *)
| xAcc d e m : exec (Acc m) (d,e) [EvAcc d m] Normal (d,e)
| xCallFree d e m : exec (CallFree m) (d,e) [EvAcc d m] Normal (d,e)
| xCallN b a tr a' : exec b a tr Normal a' -> exec (CallInl b) a tr Normal a'
| xCallR b a tr a' : exec b a tr Ret a' -> exec (CallInl b) a tr Normal a'
| xSeqN s1 s2 a tr1 a1 tr2 o a2 : exec s1 a tr1 Normal a1 -> exec s2 a1 tr2 o a2 -> exec (Seq s1 s2) a (tr1++tr2) o a2
| xSeqX s1 s2 a tr1 o a1 : exec s1 a tr1 o a1 -> o <> Normal -> exec (Seq s1 s2) a tr1 o a1
| xIfL s1 s2 a tr o a' : exec s1 a tr o a' -> exec (If s1 s2) a tr o a'
| xIfR s1 s2 a tr o a' : exec s2 a tr o a' -> exec (If s1 s2) a tr o a'
| xLoop0 b a : exec (Loop b) a [] Normal a
| xLoopN b a tr1 a1 tr2 o a2 : exec b a tr1 Normal a1 -> exec (Loop b) a1 tr2 o a2 -> exec (Loop b) a (tr1++tr2) o a2
| xLoopC b a tr1 a1 tr2 o a2 : exec b a tr1 Cont a1 -> exec (Loop b) a1 tr2 o a2 -> exec (Loop b) a (tr1++tr2) o a2
| xLoopB b a tr a1 : exec b a tr Brk a1 -> exec (Loop b) a tr Normal a1
| xLoopR b a tr a1 : exec b a tr Ret a1 -> exec (Loop b) a tr Ret a1
| xReturn a : exec Return a [] Ret a
| xBreak a : exec Break a [] Brk a
| xContinue a : exec Continue a [] Cont a
| xUnsup a tr o a' : exec Unsupported a tr o a'.              (* anything may happen: the checker must reject *)

(* the checker: possible exit states per outcome kind, or None = rejected *)
Record exits := { eN : list lstate; eR : list lstate; eB : list lstate; eC : list lstate }.
Definition ex0 := {| eN := []; eR := []; eB := []; eC := [] |}.
Definition eqst (a b:lstate) := Nat.eqb (fst a) (fst b) && Bool.eqb (snd a) (snd b).
Definition all_eq (a:lstate) (l:list lstate) := forallb (eqst a) l.
(* exit-state sets are kept duplicate-free, otherwise a run of k branches in sequence would cost 2^k *)
Definition lstate_dec (a b:lstate) : {a = b} + {a <> b}.
Proof. decide equality; [apply Bool.bool_dec|apply Nat.eq_dec]. Defined.
Definition un (l1 l2:list lstate) : list lstate := nodup lstate_dec (l1 ++ l2).
Lemma in_un a l1 l2 : In a (un l1 l2) <-> In a l1 \/ In a l2.
Proof. unfold un. rewrite nodup_In, in_app_iff. tauto. Qed.
Definition merge (x y:exits) := {| eN := un (eN x) (eN y); eR := un (eR x) (eR y); eB := un (eB x) (eB y); eC := un (eC x) (eC y) |}.

Section Checker.
Variable strict : bool.
(* run the checker for the continuation on every normal exit *)
Fixpoint chk (s:stmt) (a:lstate) : option exits :=
  match s with
  | Skip => Some {| eN := [a]; eR := []; eB := []; eC := [] |}
  | SLock => match a with
             | (0,false) => Some {| eN := [(1,true)]; eR := []; eB := []; eC := [] |}
             | (0,true) => if strict then None else Some {| eN := [(1,true)]; eR := []; eB := []; eC := [] |}
             | (S d,e) => Some {| eN := [(S (S d),e)]; eR := []; eB := []; eC := [] |}
             end
  | SUnlock => match a with (S d,e) => Some {| eN := [(d,e)]; eR := []; eB := []; eC := [] |} | _ => None end
  | Acc m | CallFree m => if strict && m && Nat.eqb (fst a) 0 then None else Some {| eN := [a]; eR := []; eB := []; eC := [] |}
  | CallInl b => match chk b a with
                 | Some x => if negb (match eB x, eC x with [], [] => true | _, _ => false end) then None
                             else Some {| eN := eN x ++ eR x; eR := []; eB := []; eC := [] |}
                 | None => None end
  | Seq s1 s2 =>
      match chk s1 a with
      | None => None
      | Some x =>
          (fix go (l:list lstate) (acc:exits) : option exits :=
             match l with
             | [] => Some acc
             | a1 :: r => match chk s2 a1 with None => None | Some y => go r (merge acc y) end
             end) (eN x) {| eN := []; eR := eR x; eB := eB x; eC := eC x |}
      end
  | If s1 s2 => match chk s1 a, chk s2 a with Some x, Some y => Some (merge x y) | _, _ => None end
  | Loop b => match chk b a with
              | None => None
              | Some x => if all_eq a (eN x) && all_eq a (eC x)
                          then Some {| eN := a :: eB x; eR := eR x; eB := []; eC := [] |} else None
              end
  | Return => Some {| eN := []; eR := [a]; eB := []; eC := [] |}
  | Break => Some {| eN := []; eR := []; eB := [a]; eC := [] |}
  | Continue => Some {| eN := []; eR := []; eB := []; eC := [a] |}
  | Unsupported => None
  end.

Definition sel (o:outcome) (x:exits) := match o with Normal => eN x | Ret => eR x | Brk => eB x | Cont => eC x end.
Definition ev_ok (e:event) := match e with EvAcc d m => m = true -> d > 0 | _ => True end.

Lemma eqst_eq a b : eqst a b = true -> a = b.
Proof. destruct a, b; unfold eqst; cbn. intros H. apply andb_prop in H as [H1 H2].
  apply Nat.eqb_eq in H1. apply Bool.eqb_prop in H2. congruence. Qed.
Lemma all_eq_in a l b : all_eq a l = true -> In b l -> b = a.
Proof. unfold all_eq. rewrite forallb_forall. intros H Hin. symmetry. apply eqst_eq. auto. Qed.

Definition sub (x z:exits) := forall o a, In a (sel o x) -> In a (sel o z).
Lemma sub_refl x : sub x x. Proof. intros o a; auto. Qed.
Lemma sub_merge_l x y : sub x (merge x y).
Proof. intros o a H; destruct o; cbn in *; apply in_un; auto. Qed.
Lemma sub_merge_r x y : sub y (merge x y).
Proof. intros o a H; destruct o; cbn in *; apply in_un; auto. Qed.
Lemma sub_trans x y z : sub x y -> sub y z -> sub x z.
Proof. intros H1 H2 o a H. auto. Qed.

Section Go.
Variable s2 : stmt.
Let go := fix go (l:list lstate) (acc:exits) : option exits :=
             match l with
             | [] => Some acc
             | a1 :: r => match chk s2 a1 with None => None | Some y => go r (merge acc y) end
             end.
Lemma go_spec l : forall acc z, go l acc = Some z ->
  sub acc z /\ forall a1, In a1 l -> exists y, chk s2 a1 = Some y /\ sub y z.
Proof. induction l as [|a1 r IH]; intros acc z H; cbn in H.
  - inversion H; subst. split; [apply sub_refl| intros ? []].
  - destruct (chk s2 a1) as [y|] eqn:E; [|discriminate].
    destruct (IH _ _ H) as [Hs Hr]. split.
    + eapply sub_trans; [apply sub_merge_l | exact Hs].
    + intros a2 [<-|Hin]; [exists y; split; auto; eapply sub_trans; [apply sub_merge_r|exact Hs] | auto].
Qed.
End Go.

Theorem chk_sound s a tr o a' : exec s a tr o a' ->
  forall x, chk s a = Some x -> In a' (sel o x) /\ (strict = true -> Forall ev_ok tr).
Proof.
  induction 1; intros x Hx; cbn in Hx.
  - inversion Hx; subst; cbn; auto.
  - inversion Hx; subst; cbn. split; [auto|intros _; repeat constructor].
  - destruct strict; [discriminate|]. inversion Hx; subst; cbn. split; [auto|intros _; repeat constructor].
  - inversion Hx; subst; cbn. split; [auto|intros _; repeat constructor].
  - inversion Hx; subst; cbn. split; [auto|intros _; repeat constructor].
  - discriminate.
  - destruct (strict && m && Nat.eqb d 0) eqn:E; [discriminate|]. inversion Hx; subst; cbn. split; auto.
    intros St. constructor; auto. cbn. intros ->. rewrite St in E. cbn in E. destruct d; [discriminate|lia].
  - destruct (strict && m && Nat.eqb d 0) eqn:E; [discriminate|]. inversion Hx; subst; cbn. split; auto.
    intros St. constructor; auto. cbn. intros ->. rewrite St in E. cbn in E. destruct d; [discriminate|lia].
  - destruct (chk b a) as [y|] eqn:E; [|discriminate]. destruct (IHexec _ eq_refl) as [Hin Hev].
    destruct (eB y), (eC y); cbn in Hx; try discriminate. inversion Hx; subst; cbn. split; auto. apply in_or_app; auto.
  - destruct (chk b a) as [y|] eqn:E; [|discriminate]. destruct (IHexec _ eq_refl) as [Hin Hev].
    destruct (eB y), (eC y); cbn in Hx; try discriminate. inversion Hx; subst; cbn. split; auto. apply in_or_app; auto.
  - (* Seq normal *)
    destruct (chk s1 a) as [y|] eqn:E; [|discriminate].
    destruct (IHexec1 _ eq_refl) as [Hin1 Hev1]. cbn in Hin1.
    destruct (go_spec s2 _ _ _ Hx) as [Hacc Hall].
    destruct (Hall _ Hin1) as (y2 & Hy2 & Hsub). destruct (IHexec2 _ Hy2) as [Hin2 Hev2].
    split; [apply Hsub; auto | intros St; apply Forall_app; auto].
  - (* Seq abrupt *)
    destruct (chk s1 a) as [y|] eqn:E; [|discriminate].
    destruct (IHexec _ eq_refl) as [Hin1 Hev1].
    destruct (go_spec s2 _ _ _ Hx) as [Hacc Hall]. split; [|exact Hev1].
    apply Hacc. destruct o; [congruence| | | ]; cbn in *; exact Hin1.
  - destruct (chk s1 a) as [y1|] eqn:E1; [|discriminate]. destruct (chk s2 a) as [y2|] eqn:E2; [|discriminate].
    inversion Hx; subst. destruct (IHexec _ eq_refl). split; auto. apply sub_merge_l; auto.
  - destruct (chk s1 a) as [y1|] eqn:E1; [|discriminate]. destruct (chk s2 a) as [y2|] eqn:E2; [|discriminate].
    inversion Hx; subst. destruct (IHexec _ eq_refl). split; auto. apply sub_merge_r; auto.
  - (* loop 0 *) destruct (chk b a) as [y|] eqn:E; [|discriminate].
    destruct (all_eq a (eN y) && all_eq a (eC y)); [|discriminate]. inversion Hx; subst; cbn; auto.
  - (* loop again after normal *)
    destruct (chk b a) as [y|] eqn:E; [|discriminate].
    destruct (all_eq a (eN y) && all_eq a (eC y)) eqn:EA; [|discriminate].
    apply andb_prop in EA as [EN EC]. destruct (IHexec1 _ eq_refl) as [Hin1 Hev1]. cbn in Hin1.
    assert (a1 = a) by exact (all_eq_in _ _ _ EN Hin1). subst a1.
    assert (Hx2: chk (Loop b) a = Some x) by (cbn; rewrite E, EN, EC; exact Hx).
    destruct (IHexec2 _ Hx2) as [Hin2 Hev2]. split; auto. intros St. apply Forall_app; auto.
  - (* loop again after continue *)
    destruct (chk b a) as [y|] eqn:E; [|discriminate].
    destruct (all_eq a (eN y) && all_eq a (eC y)) eqn:EA; [|discriminate].
    apply andb_prop in EA as [EN EC]. destruct (IHexec1 _ eq_refl) as [Hin1 Hev1]. cbn in Hin1.
    assert (a1 = a) by exact (all_eq_in _ _ _ EC Hin1). subst a1.
    assert (Hx2: chk (Loop b) a = Some x) by (cbn; rewrite E, EN, EC; exact Hx).
    destruct (IHexec2 _ Hx2) as [Hin2 Hev2]. split; auto. intros St. apply Forall_app; auto.
  - (* break *) destruct (chk b a) as [y|] eqn:E; [|discriminate].
    destruct (all_eq a (eN y) && all_eq a (eC y)); [|discriminate]. inversion Hx; subst; cbn.
    destruct (IHexec _ eq_refl). split; auto.
  - (* return inside loop *) destruct (chk b a) as [y|] eqn:E; [|discriminate].
    destruct (all_eq a (eN y) && all_eq a (eC y)); [|discriminate]. inversion Hx; subst; cbn.
    destruct (IHexec _ eq_refl). split; auto.
  - inversion Hx; subst; cbn; auto.
  - inversion Hx; subst; cbn; auto.
  - inversion Hx; subst; cbn; auto.
  - discriminate.
Qed.

(* entered at an arbitrary lock state a: every path ends by falling off the end or by `return`, at the entry depth *)
Definition balanced_at (a:lstate) (body:stmt) : bool :=
  match chk body a with
  | Some x => forallb (fun b => Nat.eqb (fst b) (fst a)) (eN x ++ eR x) && match eB x, eC x with [],[] => true | _,_ => false end
  | None => false
  end.
Lemma balanced_at_sound a body : balanced_at a body = true ->
  forall tr o a', exec body a tr o a' -> (o = Normal \/ o = Ret) /\ fst a' = fst a.
Proof. unfold balanced_at. destruct (chk body a) as [x|] eqn:E; [|discriminate]. intros H tr o a' Hex.
  apply andb_prop in H as [H1 H2]. destruct (chk_sound _ _ _ _ _ Hex _ E) as [Hin Hev].
  destruct (eB x) eqn:EB; [|discriminate]. destruct (eC x) eqn:EC; [|discriminate].
  rewrite forallb_forall in H1.
  destruct o; cbn in Hin; try (rewrite ?EB, ?EC in Hin; contradiction).
  - split; auto. apply Nat.eqb_eq, H1, in_or_app; auto.
  - split; auto. apply Nat.eqb_eq, H1, in_or_app; auto.
Qed.

(* the per-function obligation: every path ends by falling off the end or by `return`, at depth 0 *)
Definition balanced (body:stmt) : bool :=
  match chk body (0,false) with
  | Some x => forallb (fun a => Nat.eqb (fst a) 0) (eN x ++ eR x) && match eB x, eC x with [],[] => true | _,_ => false end
  | None => false
  end.

Corollary balanced_sound body : balanced body = true ->
  forall tr o a', exec body (0,false) tr o a' -> (o = Normal \/ o = Ret) /\ fst a' = 0 /\ (strict = true -> Forall ev_ok tr).
Proof. unfold balanced. destruct (chk body (0,false)) as [x|] eqn:E; [|discriminate]. intros H tr o a' Hex.
  apply andb_prop in H as [H1 H2]. destruct (chk_sound _ _ _ _ _ Hex _ E) as [Hin Hev].
  destruct (eB x) eqn:EB; [|discriminate]. destruct (eC x) eqn:EC; [|discriminate].
  rewrite forallb_forall in H1.
  destruct o; cbn in Hin; try (rewrite ?EB, ?EC in Hin; contradiction).
  - split; auto. split; auto. apply Nat.eqb_eq, H1, in_or_app; auto.
  - split; auto. split; auto. apply Nat.eqb_eq, H1, in_or_app; auto.
Qed.
End Checker.

(* ---- the discipline of one path, as a property of its event trace ---- *)
(* twl a tr: replay the lock and access events of a path from lock state a; None = the discipline is broken somewhere *)
Fixpoint twl (a:lstate) (tr:list event) : option lstate :=
  match tr with
  | [] => Some a
  | EvLock :: r => match a with (0, true) => None | (0, false) => twl (1, true) r | (S d, e) => twl (S (S d), e) r end
  | EvUnlock :: r => match a with (0, _) => None | (S d, e) => twl (d, e) r end
  | EvAcc _ m :: r => if m && Nat.eqb (fst a) 0 then None else twl a r
  end.
Lemma twl_app a tr1 tr2 : twl a (tr1 ++ tr2) = match twl a tr1 with Some a1 => twl a1 tr2 | None => None end.
Proof. revert a. induction tr1 as [|ev r IH]; intros a; [reflexivity|]. cbn [app twl]. destruct ev as [d m| |].
  - destruct (m && Nat.eqb (fst a) 0); [reflexivity|apply IH].
  - destruct a as [[|d] [|]]; try reflexivity; apply IH.
  - destruct a as [[|d] e]; [reflexivity|apply IH]. Qed.
(* every path the strict checker accepts replays without breaking the discipline and ends in the state exec says *)
Theorem exec_twl s a tr o a' : exec s a tr o a' -> forall x, chk true s a = Some x -> twl a tr = Some a'.
Proof.
  induction 1; intros x Hx; cbn in Hx.
  - reflexivity.
  - reflexivity.
  - discriminate.
  - reflexivity.
  - reflexivity.
  - discriminate.
  - cbn [twl fst]. destruct (m && Nat.eqb d 0); [discriminate|reflexivity].
  - cbn [twl fst]. destruct (m && Nat.eqb d 0); [discriminate|reflexivity].
  - destruct (chk true b a) as [y|] eqn:E; [|discriminate]. eauto.
  - destruct (chk true b a) as [y|] eqn:E; [|discriminate]. eauto.
  - destruct (chk true s1 a) as [y|] eqn:E; [|discriminate].
    destruct (chk_sound true _ _ _ _ _ H _ E) as [Hin1 _]. cbn in Hin1.
    destruct (go_spec true s2 _ _ _ Hx) as [_ Hall]. destruct (Hall _ Hin1) as (y2 & Hy2 & _).
    rewrite twl_app, (IHexec1 _ eq_refl). eauto.
  - destruct (chk true s1 a) as [y|] eqn:E; [|discriminate]. eauto.
  - destruct (chk true s1 a) as [y1|] eqn:E1; [|discriminate]. eauto.
  - destruct (chk true s1 a) as [y1|] eqn:E1; [|discriminate]. destruct (chk true s2 a) as [y2|] eqn:E2; [|discriminate]. eauto.
  - reflexivity.
  - destruct (chk true b a) as [y|] eqn:E; [|discriminate].
    destruct (all_eq a (eN y) && all_eq a (eC y)) eqn:EA; [|discriminate]. apply andb_prop in EA as [EN EC].
    destruct (chk_sound true _ _ _ _ _ H _ E) as [Hin1 _]. cbn in Hin1.
    assert (a1 = a) by exact (all_eq_in _ _ _ EN Hin1). subst a1.
    assert (Hx2: chk true (Loop b) a = Some x) by (cbn; rewrite E, EN, EC; exact Hx).
    rewrite twl_app, (IHexec1 _ eq_refl). eauto.
  - destruct (chk true b a) as [y|] eqn:E; [|discriminate].
    destruct (all_eq a (eN y) && all_eq a (eC y)) eqn:EA; [|discriminate]. apply andb_prop in EA as [EN EC].
    destruct (chk_sound true _ _ _ _ _ H _ E) as [Hin1 _]. cbn in Hin1.
    assert (a1 = a) by exact (all_eq_in _ _ _ EC Hin1). subst a1.
    assert (Hx2: chk true (Loop b) a = Some x) by (cbn; rewrite E, EN, EC; exact Hx).
    rewrite twl_app, (IHexec1 _ eq_refl). eauto.
  - destruct (chk true b a) as [y|] eqn:E; [|discriminate]. eauto.
  - destruct (chk true b a) as [y|] eqn:E; [|discriminate]. eauto.
  - reflexivity.
  - reflexivity.
  - reflexivity.
  - discriminate.
Qed.

(* C14: lock depth on every path;  C13: additionally no access to mutable state outside the lock, one critical section *)
Definition lock_balanced (body : stmt) : bool := balanced false body.
Definition well_locked (body : stmt) : bool := balanced true body.
Theorem lock_balanced_sound body : lock_balanced body = true ->
  forall tr o a', exec body (0,false) tr o a' -> (o = Normal \/ o = Ret) /\ fst a' = 0.
Proof. intros H tr o a' E. destruct (balanced_sound false body H tr o a' E) as (A & B & _). auto. Qed.
Theorem well_locked_sound body : well_locked body = true ->
  forall tr o a', exec body (0,false) tr o a' -> (o = Normal \/ o = Ret) /\ fst a' = 0 /\ Forall ev_ok tr.
Proof. intros H tr o a' E. destruct (balanced_sound true body H tr o a' E) as (A & B & C). auto. Qed.

(* qvector_setat as it was before the repair: lock; get_at; if (old==NULL) return; memcpy; unlock; return *)
Example setat_before : lock_balanced (Seq SLock (Seq (CallFree true) (Seq (If Return Skip) (Seq (Acc false) (Seq SUnlock Return))))) = false.
Proof. reflexivity. Qed.
Example setat_after : lock_balanced (Seq SLock (Seq (CallFree true) (Seq (If (Seq SUnlock Return) Skip) (Seq (Acc false) (Seq SUnlock Return))))) = true.
Proof. reflexivity. Qed.
