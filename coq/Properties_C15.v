(* C15 - allocation failure is reported and leaves containers unchanged and valid.
   Every theorem is for ALL oracles al (which allocation requests of the call fail), all summary states and all arguments.
   The scripts (Alloc/Scripts.v) transcribe the repaired code; the tie to /repo is the ledger correspondence of checks/c15.py. *)
From Coq Require Import List NArith Bool.
From QV.Alloc Require Import Ledger Scripts LedgerTac ScriptProofs Theorems Instances.
Import ListNotations.
Open Scope N_scope.

(* --- a call that reports an allocation failure has not modified the container summary (and says so: mutated = false) --- *)
Theorem C15_tree_atomic : forall Sz g o k al, out (tree_step Sz g o k al) = Failed -> st' (tree_step Sz g o k al) = g /\ mutated (tree_step Sz g o k al) = false.
Proof. exact tree_step_atomic. Qed.
Theorem C15_hashtbl_atomic : forall Sz g o k al, out (hash_step Sz g o k al) = Failed -> st' (hash_step Sz g o k al) = g /\ mutated (hash_step Sz g o k al) = false.
Proof. exact hash_step_atomic. Qed.
Theorem C15_listtbl_atomic : forall Sz g o k al, out (ltbl_step Sz g o k al) = Failed -> st' (ltbl_step Sz g o k al) = g /\ mutated (ltbl_step Sz g o k al) = false.
Proof. exact ltbl_step_atomic. Qed.
Theorem C15_list_atomic : forall Sz g o k al, out (list_step Sz g o k al) = Failed -> st' (list_step Sz g o k al) = g /\ mutated (list_step Sz g o k al) = false.
Proof. exact list_step_atomic. Qed.
Theorem C15_hasharr_atomic : forall g o k al, out (harr_step g o k al) = Failed -> st' (harr_step g o k al) = g /\ mutated (harr_step g o k al) = false.
Proof. exact harr_step_atomic. Qed.
Theorem C15_vector_atomic : forall v o k al, out (vec_step v o k al) = Failed -> st' (vec_step v o k al) = v /\ mutated (vec_step v o k al) = false.
Proof. exact vec_step_atomic. Qed.
(* constructors: a failed constructor yields no container *)
Theorem C15_ctor_atomic : forall hsz msz ts k al, out (script_ctor hsz msz ts k al) = Failed -> st' (script_ctor hsz msz ts k al) = None /\ mutated (script_ctor hsz msz ts k al) = false.
Proof. exact ctor_is_atomic. Qed.
Theorem C15_qhashtbl_ctor_atomic : forall Sz range ts k al, out (script_qhashtbl Sz range ts k al) = Failed -> st' (script_qhashtbl Sz range ts k al) = None /\ mutated (script_qhashtbl Sz range ts k al) = false.
Proof. exact qhashtbl_is_atomic. Qed.
Theorem C15_wrapper_ctor_atomic : forall osz Sz ts k al, out (script_wrapper osz Sz ts k al) = Failed -> st' (script_wrapper osz Sz ts k al) = None /\ mutated (script_wrapper osz Sz ts k al) = false.
Proof. exact wrapper_is_atomic. Qed.
Theorem C15_qhasharr_ctor_atomic : forall Sz k al, out (script_qhasharr Sz k al) = Failed -> st' (script_qhasharr Sz k al) = None /\ mutated (script_qhasharr Sz k al) = false.
Proof. exact qhasharr_is_atomic. Qed.
Theorem C15_qvector_ctor_atomic : forall Sz max osz ts pol k al, out (script_qvector Sz max osz ts pol k al) = Failed -> st' (script_qvector Sz max osz ts pol k al) = None /\ mutated (script_qvector Sz max osz ts pol k al) = false.
Proof. exact qvector_is_atomic. Qed.

(* --- in EVERY case (any oracle): the events are legal (nothing freed twice, nothing foreign freed, no use after free) and afterwards the
       owned live blocks are exactly the blocks of the summary: nothing leaked, nothing dangling.  sound = exists k', T ... (LedgerTac.v) --- *)
Theorem C15_tree_valid : forall Sz g o al l, Inv (gblocks g) l ->
  safe l (evs (tree_step Sz g o (nxt l) al)) /\ Inv (gblocks (st' (tree_step Sz g o (nxt l) al))) (run l (evs (tree_step Sz g o (nxt l) al))).
Proof. exact tree_valid_thm. Qed.
Theorem C15_hashtbl_valid : forall Sz g o al l, Inv (gblocks g) l ->
  safe l (evs (hash_step Sz g o (nxt l) al)) /\ Inv (gblocks (st' (hash_step Sz g o (nxt l) al))) (run l (evs (hash_step Sz g o (nxt l) al))).
Proof. exact hashtbl_valid_thm. Qed.
Theorem C15_listtbl_valid : forall Sz g o al l, Inv (gblocks g) l ->
  safe l (evs (ltbl_step Sz g o (nxt l) al)) /\ Inv (gblocks (st' (ltbl_step Sz g o (nxt l) al))) (run l (evs (ltbl_step Sz g o (nxt l) al))).
Proof. exact listtbl_valid_thm. Qed.
Theorem C15_list_valid : forall Sz g o al l, Inv (gblocks g) l ->
  safe l (evs (list_step Sz g o (nxt l) al)) /\ Inv (gblocks (st' (list_step Sz g o (nxt l) al))) (run l (evs (list_step Sz g o (nxt l) al))).
Proof. exact list_valid_thm. Qed.
Theorem C15_hasharr_valid : forall g o al l, Inv (gblocks g) l ->
  safe l (evs (harr_step g o (nxt l) al)) /\ Inv (gblocks (st' (harr_step g o (nxt l) al))) (run l (evs (harr_step g o (nxt l) al))).
Proof. exact hasharr_valid_thm. Qed.
Theorem C15_vector_valid : forall v o al l, Inv (vblocks v) l ->
  safe l (evs (vec_step v o (nxt l) al)) /\ Inv (vblocks (st' (vec_step v o (nxt l) al))) (run l (evs (vec_step v o (nxt l) al))).
Proof. exact vector_valid_thm. Qed.

(* --- failure => exactly the blocks owned before are owned after: no block allocated in the failed call survives, none was released --- *)
Theorem C15_tree_failed_owns_same : forall Sz g o al l, Inv (gblocks g) l -> out (tree_step Sz g o (nxt l) al) = Failed ->
  safe l (evs (tree_step Sz g o (nxt l) al)) /\ forall b, own (run l (evs (tree_step Sz g o (nxt l) al))) b = own l b.
Proof. exact tree_failed_owns_same_thm. Qed.
Theorem C15_hashtbl_failed_owns_same : forall Sz g o al l, Inv (gblocks g) l -> out (hash_step Sz g o (nxt l) al) = Failed ->
  safe l (evs (hash_step Sz g o (nxt l) al)) /\ forall b, own (run l (evs (hash_step Sz g o (nxt l) al))) b = own l b.
Proof. exact hashtbl_failed_owns_same_thm. Qed.
Theorem C15_listtbl_failed_owns_same : forall Sz g o al l, Inv (gblocks g) l -> out (ltbl_step Sz g o (nxt l) al) = Failed ->
  safe l (evs (ltbl_step Sz g o (nxt l) al)) /\ forall b, own (run l (evs (ltbl_step Sz g o (nxt l) al))) b = own l b.
Proof. exact listtbl_failed_owns_same_thm. Qed.
Theorem C15_list_failed_owns_same : forall Sz g o al l, Inv (gblocks g) l -> out (list_step Sz g o (nxt l) al) = Failed ->
  safe l (evs (list_step Sz g o (nxt l) al)) /\ forall b, own (run l (evs (list_step Sz g o (nxt l) al))) b = own l b.
Proof. exact list_failed_owns_same_thm. Qed.
Theorem C15_hasharr_failed_owns_same : forall g o al l, Inv (gblocks g) l -> out (harr_step g o (nxt l) al) = Failed ->
  safe l (evs (harr_step g o (nxt l) al)) /\ forall b, own (run l (evs (harr_step g o (nxt l) al))) b = own l b.
Proof. exact hasharr_failed_owns_same_thm. Qed.
Theorem C15_vector_failed_owns_same : forall v o al l, Inv (vblocks v) l -> out (vec_step v o (nxt l) al) = Failed ->
  safe l (evs (vec_step v o (nxt l) al)) /\ forall b, own (run l (evs (vec_step v o (nxt l) al))) b = own l b.
Proof. exact vector_failed_owns_same_thm. Qed.
(* a failed constructor leaves nothing allocated *)
Theorem C15_ctor_failed_leaves_nothing : forall hsz msz ts al, out (script_ctor hsz msz ts 1 al) = Failed ->
  safe ledger0 (evs (script_ctor hsz msz ts 1 al)) /\ forall b, own (run ledger0 (evs (script_ctor hsz msz ts 1 al))) b = false.
Proof. exact ctor_failed_leaves_nothing_thm. Qed.
Theorem C15_qvector_failed_leaves_nothing : forall Sz max osz ts pol al, out (script_qvector Sz max osz ts pol 1 al) = Failed ->
  safe ledger0 (evs (script_qvector Sz max osz ts pol 1 al)) /\ forall b, own (run ledger0 (evs (script_qvector Sz max osz ts pol 1 al))) b = false.
Proof. exact qvector_failed_leaves_nothing_thm. Qed.
Theorem C15_qhashtbl_failed_leaves_nothing : forall Sz range ts al, out (script_qhashtbl Sz range ts 1 al) = Failed ->
  safe ledger0 (evs (script_qhashtbl Sz range ts 1 al)) /\ forall b, own (run ledger0 (evs (script_qhashtbl Sz range ts 1 al))) b = false.
Proof. exact qhashtbl_failed_leaves_nothing_thm. Qed.
Theorem C15_wrapper_failed_leaves_nothing : forall osz Sz ts al, out (script_wrapper osz Sz ts 1 al) = Failed ->
  safe ledger0 (evs (script_wrapper osz Sz ts 1 al)) /\ forall b, own (run ledger0 (evs (script_wrapper osz Sz ts 1 al))) b = false.
Proof. exact wrapper_failed_leaves_nothing_thm. Qed.
(* --- a call that completes normally did exactly what the fault-free run does (same events, same result, same summary) --- *)
Theorem C15_tree_ok : forall Sz g o k al, out (tree_step Sz g o k al) = Done -> tree_step Sz g o k al = tree_step Sz g o k allok.
Proof. exact tree_step_ok. Qed.
Theorem C15_hashtbl_ok : forall Sz g o k al, out (hash_step Sz g o k al) = Done -> hash_step Sz g o k al = hash_step Sz g o k allok.
Proof. exact hash_step_ok. Qed.
Theorem C15_listtbl_ok : forall Sz g o k al, out (ltbl_step Sz g o k al) = Done -> ltbl_step Sz g o k al = ltbl_step Sz g o k allok.
Proof. exact ltbl_step_ok. Qed.
Theorem C15_list_ok : forall Sz g o k al, out (list_step Sz g o k al) = Done -> list_step Sz g o k al = list_step Sz g o k allok.
Proof. exact list_step_ok. Qed.
Theorem C15_hasharr_ok : forall g o k al, out (harr_step g o k al) = Done -> harr_step g o k al = harr_step g o k allok.
Proof. exact harr_step_ok. Qed.
Theorem C15_vector_ok : forall v o k al, out (vec_step v o k al) = Done -> vec_step v o k al = vec_step v o k allok.
Proof. exact vec_step_ok. Qed.

(* --- non-vacuity: failures do occur in the model, at every request position, and are cleaned up --- *)
Definition ex_tree : gst := mkG [2; 1] [mkE 7 3 (Some 4) (Some 5) 2 3].
Example C15_ex_put_second_request_fails :
  let r := tree_step sz64 ex_tree (TPut 9 2 3) 6 (fail_at 1) in
  evs r = [Alloc 6 TNode 72; AllocFail TName 2; Alloc 7 TData 3; Copy 7 SCaller; Free 6; Free 7] /\ out r = Failed /\ st' r = ex_tree.
Proof. vm_compute. repeat split. Qed.
Example C15_ex_replace_fails : let r := tree_step sz64 ex_tree (TPut 7 2 9) 6 (fail_at 0) in evs r = [AllocFail TData 9] /\ out r = Failed /\ st' r = ex_tree.
Proof. vm_compute. repeat split. Qed.
Example C15_ex_ctor_mutex_fails : evs (script_ctor 200 56 true 1 (fail_at 1)) = [Alloc 1 THandle 200; AllocFail TMutex 56; Free 1] /\ out (script_ctor 200 56 true 1 (fail_at 1)) = Failed.
Proof. vm_compute. repeat split. Qed.
Example C15_ex_vector_growth_fails :
  let v := mkV None 1 (Some 2) 4 4 8 2 0 in let r := vec_step v (VAddat 1) 3 (fail_at 0) in evs r = [AllocFail TBuf 80] /\ out r = Failed /\ st' r = v.
Proof. vm_compute. repeat split. Qed.
(* the hypothesis Inv of the theorems above is satisfiable by a reachable non-trivial state: constructor + one put, from the empty ledger *)
Example C15_ex_inv_reachable : exists l, Inv (gblocks ex_tree) l.
Proof.
  destruct (sound_safe (oblocks gblocks) [] _ ledger0 (ctor_sound 200 56 true 1 allok) Inv0) as [_ I0].
  destruct (sound_safe gblocks _ _ _ (tree_step_sound sz64 _ (TPut 7 2 3) _ allok) I0) as [_ I1].
  eexists. exact I1.
Qed.

Print Assumptions C15_tree_atomic. Print Assumptions C15_hashtbl_atomic. Print Assumptions C15_listtbl_atomic. Print Assumptions C15_list_atomic.
Print Assumptions C15_hasharr_atomic. Print Assumptions C15_vector_atomic. Print Assumptions C15_ctor_atomic. Print Assumptions C15_qhashtbl_ctor_atomic.
Print Assumptions C15_wrapper_ctor_atomic. Print Assumptions C15_qhasharr_ctor_atomic. Print Assumptions C15_qvector_ctor_atomic.
Print Assumptions C15_tree_valid. Print Assumptions C15_hashtbl_valid. Print Assumptions C15_listtbl_valid. Print Assumptions C15_list_valid.
Print Assumptions C15_hasharr_valid. Print Assumptions C15_vector_valid.
Print Assumptions C15_tree_failed_owns_same. Print Assumptions C15_hashtbl_failed_owns_same. Print Assumptions C15_listtbl_failed_owns_same.
Print Assumptions C15_list_failed_owns_same. Print Assumptions C15_hasharr_failed_owns_same. Print Assumptions C15_vector_failed_owns_same.
Print Assumptions C15_ctor_failed_leaves_nothing. Print Assumptions C15_qvector_failed_leaves_nothing. Print Assumptions C15_qhashtbl_failed_leaves_nothing.
Print Assumptions C15_wrapper_failed_leaves_nothing.
Print Assumptions C15_tree_ok. Print Assumptions C15_hashtbl_ok. Print Assumptions C15_listtbl_ok. Print Assumptions C15_list_ok. Print Assumptions C15_hasharr_ok. Print Assumptions C15_vector_ok.
