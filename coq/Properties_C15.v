(* C15 - allocation failure is reported and leaves containers unchanged and valid.
   Every theorem is for ALL oracles al (which allocation requests of the call fail), all summary states and all arguments.
   The scripts (Alloc/Scripts.v) transcribe the repaired code; the tie to /repo is the ledger correspondence of checks/c15.py. *)
From Coq Require Import List NArith Bool.
From QV.Alloc Require Import Ledger Scripts LedgerTac ScriptProofs Theorems Instances.
Import ListNotations.
Open Scope N_scope.

(* --- a call that reports an allocation failure has not modified the container summary (and says so: mutated = false) --- *)
Theorem C15_tree_atomic : forall Sz g o k al, out (tree_step Sz g o k al) = Failed -> st' (tree_step Sz g o k al) = g /\ mutated (tree_step Sz g o k al) = false.
Proof. exact tree_step_atomic. Qed.
Theorem C15_hashtbl_atomic : forall Sz g o k al, out (hash_step Sz g o k al) = Failed -> st' (hash_step Sz g o k al) = g /\ mutated (hash_step Sz g o k al) = false.
Proof. exact hash_step_atomic. Qed.
Theorem C15_listtbl_atomic : forall Sz g o k al, out (ltbl_step Sz g o k al) = Failed -> st' (ltbl_step Sz g o k al) = g /\ mutated (ltbl_step Sz g o k al) = false.
Proof. exact ltbl_step_atomic. Qed.
Theorem C15_list_atomic : forall Sz g o k al, out (list_step Sz g o k al) = Failed -> st' (list_step Sz g o k al) = g /\ mutated (list_step Sz g o k al) = false.
Proof. exact list_step_atomic. Qed.
Theorem C15_hasharr_atomic : forall g o k al, out (harr_step g o k al) = Failed -> st' (harr_step g o k al) = g /\ mutated (harr_step g o k al) = false.
Proof. exact harr_step_atomic. Qed.
Theorem C15_vector_atomic : forall v o k al, out (vec_step v o k al) = Failed -> st' (vec_step v o k al) = v /\ mutated (vec_step v o k al) = false.
Proof. exact vec_step_atomic. Qed.
(* constructors: a failed constructor yields no container *)
Theorem C15_ctor_atomic : forall hsz msz ts k al, out (script_ctor hsz msz ts k al) = Failed -> st' (script_ctor hsz msz ts k al) = None /\ mutated (script_ctor hsz msz ts k al) = false.
Proof. exact ctor_is_atomic. Qed.
Theorem C15_qhashtbl_ctor_atomic : forall Sz range ts k al, out (script_qhashtbl Sz range ts k al) = Failed -> st' (script_qhashtbl Sz range ts k al) = None /\ mutated (script_qhashtbl Sz range ts k al) = false.
Proof. exact qhashtbl_is_atomic. Qed.
Theorem C15_wrapper_ctor_atomic : forall osz Sz ts k al, out (script_wrapper osz Sz ts k al) = Failed -> st' (script_wrapper osz Sz ts k al) = None /\ mutated (script_wrapper osz Sz ts k al) = false.
Proof. exact wrapper_is_atomic. Qed.
Theorem C15_qhasharr_ctor_atomic : forall Sz k al, out (script_qhasharr Sz k al) = Failed -> st' (script_qhasharr Sz k al) = None /\ mutated (script_qhasharr Sz k al) = false.
Proof. exact qhasharr_is_atomic. Qed.
Theorem C15_qvector_ctor_atomic : forall Sz max osz ts pol k al, out (script_qvector Sz max osz ts pol k al) = Failed -> st' (script_qvector Sz max osz ts pol k al) = None /\ mutated (script_qvector Sz max osz ts pol k al) = false.
Proof. exact qvector_is_atomic. Qed.

(* --- in EVERY case (any oracle): the events are legal (nothing freed twice, nothing foreign freed, no use after free) and afterwards the
       owned live blocks are exactly the blocks of the summary: nothing leaked, nothing dangling.  sound = exists k', T ... (LedgerTac.v) --- *)
Theorem C15_tree_valid : forall Sz g o al l, Inv (gblocks g) l ->
  safe l (evs (tree_step Sz g o (nxt l) al)) /\ Inv (gblocks (st' (tree_step Sz g o (nxt l) al))) (run l (evs (tree_step Sz g o (nxt l) al))).
Proof. exact tree_valid_thm. Qed.
Theorem C15_hashtbl_valid : forall Sz g o al l, Inv (gblocks g) l ->
  safe l (evs (hash_step Sz g o (nxt l) al)) /\ Inv (gblocks (st' (hash_step Sz g o (nxt l) al))) (run l (evs (hash_step Sz g o (nxt l) al))).
Proof. exact hashtbl_valid_thm. Qed.
Theorem C15_listtbl_valid : forall Sz g o al l, Inv (gblocks g) l ->
  safe l (evs (ltbl_step Sz g o (nxt l) al)) /\ Inv (gblocks (st' (ltbl_step Sz g o (nxt l) al))) (run l (evs (ltbl_step Sz g o (nxt l) al))).
Proof. exact listtbl_valid_thm. Qed.
Theorem C15_list_valid : forall Sz g o al l, Inv (gblocks g) l ->
  safe l (evs (list_step Sz g o (nxt l) al)) /\ Inv (gblocks (st' (list_step Sz g o (nxt l) al))) (run l (evs (list_step Sz g o (nxt l) al))).
Proof. exact list_valid_thm. Qed.
Theorem C15_hasharr_valid : forall g o al l, Inv (gblocks g) l ->
  safe l (evs (harr_step g o (nxt l) al)) /\ Inv (gblocks (st' (harr_step g o (nxt l) al))) (run l (evs (harr_step g o (nxt l) al))).
Proof. exact hasharr_valid_thm. Qed.
Theorem C15_vector_valid : forall v o al l, Inv (vblocks v) l ->
  safe l (evs (vec_step v o (nxt l) al)) /\ Inv (vblocks (st' (vec_step v o (nxt l) al))) (run l (evs (vec_step v o (nxt l) al))).
Proof. exact vector_valid_thm. Qed.

(* --- failure => exactly the blocks owned before are owned after: no block allocated in the failed call survives, none was released --- *)
Theorem C15_tree_failed_owns_same : forall Sz g o al l, Inv (gblocks g) l -> out (tree_step Sz g o (nxt l) al) = Failed ->
  safe l (evs (tree_step Sz g o (nxt l) al)) /\ forall b, own (run l (evs (tree_step Sz g o (nxt l) al))) b = own l b.
Proof. exact tree_failed_owns_same_thm. Qed.
Theorem C15_hashtbl_failed_owns_same : forall Sz g o al l, Inv (gblocks g) l -> out (hash_step Sz g o (nxt l) al) = Failed ->
  safe l (evs (hash_step Sz g o (nxt l) al)) /\ forall b, own (run l (evs (hash_step Sz g o (nxt l) al))) b = own l b.
Proof. exact hashtbl_failed_owns_same_thm. Qed.
Theorem C15_listtbl_failed_owns_same : forall Sz g o al l, Inv (gblocks g) l -> out (ltbl_step Sz g o (nxt l) al) = Failed ->
  safe l (evs (ltbl_step Sz g o (nxt l) al)) /\ forall b, own (run l (evs (ltbl_step Sz g o (nxt l) al))) b = own l b.
Proof. exact listtbl_failed_owns_same_thm. Qed.
Theorem C15_list_failed_owns_same : forall Sz g o al l, Inv (gblocks g) l -> out (list_step Sz g o (nxt l) al) = Failed ->
  safe l (evs (list_step Sz g o (nxt l) al)) /\ forall b, own (run l (evs (list_step Sz g o (nxt l) al))) b = own l b.
Proof. exact list_failed_owns_same_thm. Qed.
Theorem C15_hasharr_failed_owns_same : forall g o al l, Inv (gblocks g) l -> out (harr_step g o (nxt l) al) = Failed ->
  safe l (evs (harr_step g o (nxt l) al)) /\ forall b, own (run l (evs (harr_step g o (nxt l) al))) b = own l b.
Proof. exact hasharr_failed_owns_same_thm. Qed.
Theorem C15_vector_failed_owns_same : forall v o al l, Inv (vblocks v) l -> out (vec_step v o (nxt l) al) = Failed ->
  safe l (evs (vec_step v o (nxt l) al)) /\ forall b, own (run l (evs (vec_step v o (nxt l) al))) b = own l b.
Proof. exact vector_failed_owns_same_thm. Qed.
(* a failed constructor leaves nothing allocated *)
Theorem C15_ctor_failed_leaves_nothing : forall hsz msz ts al, out (script_ctor hsz msz ts 1 al) = Failed ->
  safe ledger0 (evs (script_ctor hsz msz ts 1 al)) /\ forall b, own (run ledger0 (evs (script_ctor hsz msz ts 1 al))) b = false.
Proof. exact ctor_failed_leaves_nothing_thm. Qed.
Theorem C15_qvector_failed_leaves_nothing : forall Sz max osz ts pol al, out (script_qvector Sz max osz ts pol 1 al) = Failed ->
  safe ledger0 (evs (script_qvector Sz max osz ts pol 1 al)) /\ forall b, own (run ledger0 (evs (script_qvector Sz max osz ts pol 1 al))) b = false.
Proof. exact qvector_failed_leaves_nothing_thm. Qed.
Theorem C15_qhashtbl_failed_leaves_nothing : forall Sz range ts al, out (script_qhashtbl Sz range ts 1 al) = Failed ->
  safe ledger0 (evs (script_qhashtbl Sz range ts 1 al)) /\ forall b, own (run ledger0 (evs (script_qhashtbl Sz range ts 1 al))) b = false.
Proof. exact qhashtbl_failed_leaves_nothing_thm. Qed.
Theorem C15_wrapper_failed_leaves_nothing : forall osz Sz ts al, out (script_wrapper osz Sz ts 1 al) = Failed ->
  safe ledger0 (evs (script_wrapper osz Sz ts 1 al)) /\ forall b, own (run ledger0 (evs (script_wrapper osz Sz ts 1 al))) b = false.
Proof. exact wrapper_failed_leaves_nothing_thm. Qed.
(* --- a call that completes normally did exactly what the fault-free run does (same events, same result, same summary) --- *)
Theorem C15_tree_ok : forall Sz g o k al, out (tree_step Sz g o k al) = Done -> tree_step Sz g o k al = tree_step Sz g o k allok.
Proof. exact tree_step_ok. Qed.
Theorem C15_hashtbl_ok : forall Sz g o k al, out (hash_step Sz g o k al) = Done -> hash_step Sz g o k al = hash_step Sz g o k allok.
Proof. exact hash_step_ok. Qed.
Theorem C15_listtbl_ok : forall Sz g o k al, out (ltbl_step Sz g o k al) = Done -> ltbl_step Sz g o k al = ltbl_step Sz g o k allok.
Proof. exact ltbl_step_ok. Qed.
Theorem C15_list_ok : forall Sz g o k al, out (list_step Sz g o k al) = Done -> list_step Sz g o k al = list_step Sz g o k allok.
Proof. exact list_step_ok. Qed.
Theorem C15_hasharr_ok : forall g o k al, out (harr_step g o k al) = Done -> harr_step g o k al = harr_step g o k allok.
Proof. exact harr_step_ok. Qed.
Theorem C15_vector_ok : forall v o k al, out (vec_step v o k al) = Done -> vec_step v o k al = vec_step v o k allok.
Proof. exact vec_step_ok. Qed.

(* --- non-vacuity: failures do occur in the model, at every request position, and are cleaned up --- *)
Definition ex_tree : gst := mkG [2; 1] [mkE 7 3 (Some 4) (Some 5) 2 3].
Example C15_ex_put_second_request_fails :
  let r := tree_step sz64 ex_tree (TPut 9 2 3) 6 (fail_at 1) in
  evs r = [Alloc 6 TNode 72; AllocFail TName 2; Alloc 7 TData 3; Copy 7 SCaller; Free 6; Free 7] /\ out r = Failed /\ st' r = ex_tree.
Proof. vm_compute. repeat split. Qed.
Example C15_ex_replace_fails : let r := tree_step sz64 ex_tree (TPut 7 2 9) 6 (fail_at 0) in evs r = [AllocFail TData 9] /\ out r = Failed /\ st' r = ex_tree.
Proof. vm_compute. repeat split. Qed.
Example C15_ex_ctor_mutex_fails : evs (script_ctor 200 56 true 1 (fail_at 1)) = [Alloc 1 THandle 200; AllocFail TMutex 56; Free 1] /\ out (script_ctor 200 56 true 1 (fail_at 1)) = Failed.
Proof. vm_compute. repeat split. Qed.
Example C15_ex_vector_growth_fails :
  let v := mkV None 1 (Some 2) 4 4 8 2 0 in let r := vec_step v (VAddat 1) 3 (fail_at 0) in evs r = [AllocFail TBuf 80] /\ out r = Failed /\ st' r = v.
Proof. vm_compute. repeat split. Qed.
(* the hypothesis Inv of the theorems above is satisfiable by a reachable non-trivial state: constructor + one put, from the empty ledger *)
Example C15_ex_inv_reachable : exists l, Inv (gblocks ex_tree) l.
Proof.
  destruct (sound_safe (oblocks gblocks) [] _ ledger0 (ctor_sound 200 56 true 1 allok) Inv0) as [_ I0].
  destruct (sound_safe gblocks _ _ _ (tree_step_sound sz64 _ (TPut 7 2 3) _ allok) I0) as [_ I1].
  eexists. exact I1.
Qed.


(* --- DYNAMIC_VSPRINTF and the formatted methods putstrf / addstrf (ops TPutf, HPutf, LPutf, SAddf, APutf of the step functions: all the
       theorems above quantify over every op and therefore cover them; the loop on its own and the instances are stated for reference) --- *)
(* the formatting loop (malloc 1024, 2048, ... with a free per round, as the code does it): legal from any ledger, and afterwards the only
   additional owned block is the buffer it returns *)
Theorem C15_vsprintf_valid : forall fuel len size al k bs l, Inv bs l ->
  let r := vs_loop fuel len size al k (nxt l) in
  safe l (fst (fst (fst r))) /\ Inv (olist (snd (fst (fst r))) ++ bs) (run l (fst (fst (fst r)))).
Proof. exact vsprintf_valid_thm. Qed.
(* a failed formatting (any round) leaves exactly the blocks owned before: no earlier, smaller buffer survives *)
Theorem C15_vsprintf_failed_leaves_nothing : forall fuel len size al k bs l, Inv bs l ->
  let r := vs_loop fuel len size al k (nxt l) in snd (fst (fst r)) = None ->
  safe l (fst (fst (fst r))) /\ forall b, own (run l (fst (fst (fst r)))) b = own l b.
Proof. exact vsprintf_failed_leaves_nothing_thm. Qed.
Theorem C15_vsprintf_ok : forall fuel len size al k n t, snd (fst (fst (vs_loop fuel len size al k n))) = Some t -> vs_loop fuel len size al k n = vs_loop fuel len size allok k n.
Proof. exact vs_loop_ok. Qed.
Theorem C15_tree_putstrf_atomic : forall Sz g key ns len k al, out (tree_step Sz g (TPutf key ns len) k al) = Failed ->
  st' (tree_step Sz g (TPutf key ns len) k al) = g /\ mutated (tree_step Sz g (TPutf key ns len) k al) = false.
Proof. exact (fun Sz g key ns len k al => tree_step_atomic Sz g (TPutf key ns len) k al). Qed.
Theorem C15_hashtbl_putstrf_atomic : forall Sz g key ns len k al, out (hash_step Sz g (HPutf key ns len) k al) = Failed ->
  st' (hash_step Sz g (HPutf key ns len) k al) = g /\ mutated (hash_step Sz g (HPutf key ns len) k al) = false.
Proof. exact (fun Sz g key ns len k al => hash_step_atomic Sz g (HPutf key ns len) k al). Qed.
Theorem C15_listtbl_putstrf_atomic : forall Sz g u t f key ns len k al, out (ltbl_step Sz g (LPutf u t f key ns len) k al) = Failed ->
  st' (ltbl_step Sz g (LPutf u t f key ns len) k al) = g /\ mutated (ltbl_step Sz g (LPutf u t f key ns len) k al) = false.
Proof. exact (fun Sz g u t f key ns len k al => ltbl_step_atomic Sz g (LPutf u t f key ns len) k al). Qed.
Theorem C15_grow_addstrf_atomic : forall Sz g pos len k al, out (list_step Sz g (SAddf pos len) k al) = Failed ->
  st' (list_step Sz g (SAddf pos len) k al) = g /\ mutated (list_step Sz g (SAddf pos len) k al) = false.
Proof. exact (fun Sz g pos len k al => list_step_atomic Sz g (SAddf pos len) k al). Qed.
Theorem C15_hasharr_putstrf_atomic : forall g len k al, out (harr_step g (APutf len) k al) = Failed ->
  st' (harr_step g (APutf len) k al) = g /\ mutated (harr_step g (APutf len) k al) = false.
Proof. exact (fun g len k al => harr_step_atomic g (APutf len) k al). Qed.
Theorem C15_tree_putstrf_failed_owns_same : forall Sz g key ns len al l, Inv (gblocks g) l -> out (tree_step Sz g (TPutf key ns len) (nxt l) al) = Failed ->
  safe l (evs (tree_step Sz g (TPutf key ns len) (nxt l) al)) /\ forall b, own (run l (evs (tree_step Sz g (TPutf key ns len) (nxt l) al))) b = own l b.
Proof. exact (fun Sz g key ns len al l => tree_failed_owns_same_thm Sz g (TPutf key ns len) al l). Qed.
Theorem C15_hashtbl_putstrf_failed_owns_same : forall Sz g key ns len al l, Inv (gblocks g) l -> out (hash_step Sz g (HPutf key ns len) (nxt l) al) = Failed ->
  safe l (evs (hash_step Sz g (HPutf key ns len) (nxt l) al)) /\ forall b, own (run l (evs (hash_step Sz g (HPutf key ns len) (nxt l) al))) b = own l b.
Proof. exact (fun Sz g key ns len al l => hashtbl_failed_owns_same_thm Sz g (HPutf key ns len) al l). Qed.
Theorem C15_listtbl_putstrf_failed_owns_same : forall Sz g u t f key ns len al l, Inv (gblocks g) l -> out (ltbl_step Sz g (LPutf u t f key ns len) (nxt l) al) = Failed ->
  safe l (evs (ltbl_step Sz g (LPutf u t f key ns len) (nxt l) al)) /\ forall b, own (run l (evs (ltbl_step Sz g (LPutf u t f key ns len) (nxt l) al))) b = own l b.
Proof. exact (fun Sz g u t f key ns len al l => listtbl_failed_owns_same_thm Sz g (LPutf u t f key ns len) al l). Qed.
Theorem C15_grow_addstrf_failed_owns_same : forall Sz g pos len al l, Inv (gblocks g) l -> out (list_step Sz g (SAddf pos len) (nxt l) al) = Failed ->
  safe l (evs (list_step Sz g (SAddf pos len) (nxt l) al)) /\ forall b, own (run l (evs (list_step Sz g (SAddf pos len) (nxt l) al))) b = own l b.
Proof. exact (fun Sz g pos len al l => list_failed_owns_same_thm Sz g (SAddf pos len) al l). Qed.
Theorem C15_hasharr_putstrf_failed_owns_same : forall g len al l, Inv (gblocks g) l -> out (harr_step g (APutf len) (nxt l) al) = Failed ->
  safe l (evs (harr_step g (APutf len) (nxt l) al)) /\ forall b, own (run l (evs (harr_step g (APutf len) (nxt l) al))) b = own l b.
Proof. exact (fun g len al l => hasharr_failed_owns_same_thm g (APutf len) al l). Qed.
(* a text of 1024 characters needs a second round; the second request fails: the first buffer has been released, nothing else happened *)
Example C15_ex_putstrf_growth_fails :
  let r := hash_step sz64 (mkG [2; 1] []) (HPutf 7 4 1024) 3 (fail_at 1) in
  evs r = [Alloc 3 TTmp 1024; Free 3; AllocFail TTmp 2048] /\ out r = Failed /\ st' r = mkG [2; 1] [].
Proof. vm_compute. repeat split. Qed.
Example C15_ex_putstrf_put_fails_after_formatting :
  let r := hash_step sz64 (mkG [2; 1] []) (HPutf 7 4 1023) 3 (fail_at 2) in
  evs r = [Alloc 3 TTmp 1024; Alloc 4 TName 4; Copy 4 SCaller; AllocFail TData 1024; Free 4; Free 3] /\ out r = Failed /\ st' r = mkG [2; 1] [].
Proof. vm_compute. repeat split. Qed.
Example C15_ex_putstrf_2500 :
  let r := tree_step sz64 (mkG [1] []) (TPutf 7 3 2500) 2 allok in
  evs r = [Alloc 2 TTmp 1024; Free 2; Alloc 3 TTmp 2048; Free 3; Alloc 4 TTmp 4096; Alloc 5 TNode 72; Alloc 6 TName 3; Copy 6 SCaller; Alloc 7 TData 2501; Copy 7 (SBlk 4); Free 4] /\ out r = Done.
Proof. vm_compute. repeat split. Qed.
(* what `s = realloc(s, size)` without a free would leave behind is visible in the ledger: block 3 is still owned *)
Example C15_ex_lost_buffer_is_a_leak : own (run (run ledger0 [Alloc 1 THandle 152; Alloc 2 TSlots 8]) [Alloc 3 TTmp 1024; AllocFail TTmp 2048]) 3 = true.
Proof. reflexivity. Qed.

Print Assumptions C15_tree_atomic. Print Assumptions C15_hashtbl_atomic. Print Assumptions C15_listtbl_atomic. Print Assumptions C15_list_atomic.
Print Assumptions C15_hasharr_atomic. Print Assumptions C15_vector_atomic. Print Assumptions C15_ctor_atomic. Print Assumptions C15_qhashtbl_ctor_atomic.
Print Assumptions C15_wrapper_ctor_atomic. Print Assumptions C15_qhasharr_ctor_atomic. Print Assumptions C15_qvector_ctor_atomic.
Print Assumptions C15_tree_valid. Print Assumptions C15_hashtbl_valid. Print Assumptions C15_listtbl_valid. Print Assumptions C15_list_valid.
Print Assumptions C15_hasharr_valid. Print Assumptions C15_vector_valid.
Print Assumptions C15_tree_failed_owns_same. Print Assumptions C15_hashtbl_failed_owns_same. Print Assumptions C15_listtbl_failed_owns_same.
Print Assumptions C15_list_failed_owns_same. Print Assumptions C15_hasharr_failed_owns_same. Print Assumptions C15_vector_failed_owns_same.
Print Assumptions C15_ctor_failed_leaves_nothing. Print Assumptions C15_qvector_failed_leaves_nothing. Print Assumptions C15_qhashtbl_failed_leaves_nothing.
Print Assumptions C15_wrapper_failed_leaves_nothing.
Print Assumptions C15_tree_ok. Print Assumptions C15_hashtbl_ok. Print Assumptions C15_listtbl_ok. Print Assumptions C15_list_ok. Print Assumptions C15_hasharr_ok. Print Assumptions C15_vector_ok.
Print Assumptions C15_vsprintf_valid. Print Assumptions C15_vsprintf_failed_leaves_nothing. Print Assumptions C15_vsprintf_ok.
Print Assumptions C15_tree_putstrf_atomic. Print Assumptions C15_hashtbl_putstrf_atomic. Print Assumptions C15_listtbl_putstrf_atomic. Print Assumptions C15_grow_addstrf_atomic.
Print Assumptions C15_hasharr_putstrf_atomic. Print Assumptions C15_tree_putstrf_failed_owns_same. Print Assumptions C15_hashtbl_putstrf_failed_owns_same.
Print Assumptions C15_listtbl_putstrf_failed_owns_same. Print Assumptions C15_grow_addstrf_failed_owns_same. Print Assumptions C15_hasharr_putstrf_failed_owns_same.
