(* Bytes are N below 256; finite sweeps over byte ranges are boolean foralls closed by vm_compute
   and lifted to universally quantified statements with the lemmas below. *)
From Coq Require Import NArith ZArith List Lia Bool.
Import ListNotations.
Local Open Scope N_scope.

Definition tb (t : list N) (i : N) : N := nth (N.to_nat i) t 0.
Definition isbyte (b : N) : bool := b <? 256.
Definition bytes (l : list N) : Prop := forallb isbyte l = true.
Definition nonzero (b : N) : bool := negb (b =? 0).
(* a C string body: bytes, none of them NUL *)
Definition cstr (l : list N) : Prop := forallb (fun c => isbyte c && nonzero c) l = true.

Definition rng (n : nat) : list N := map N.of_nat (seq 0 n).
Lemma in_rng n c : c < N.of_nat n -> In c (rng n).
Proof. intros H. apply in_map_iff. exists (N.to_nat c). split; [apply N2Nat.id|]. apply in_seq. lia. Qed.
Lemma fb1 (f : N -> bool) n a : forallb f (rng n) = true -> a < N.of_nat n -> f a = true.
Proof. intros H Ha. rewrite forallb_forall in H. exact (H a (in_rng n a Ha)). Qed.
Lemma fb2 (f : N -> N -> bool) n m a b : forallb (fun a => forallb (fun b => f a b) (rng m)) (rng n) = true ->
  a < N.of_nat n -> b < N.of_nat m -> f a b = true.
Proof. intros H Ha Hb. rewrite forallb_forall in H. specialize (H a (in_rng n a Ha)).
  rewrite forallb_forall in H. exact (H b (in_rng m b Hb)). Qed.
Lemma isbyte_lt c : isbyte c = true -> c < N.of_nat 256.
Proof. unfold isbyte. intros H. apply N.ltb_lt in H. exact H. Qed.
Lemma byte_in c : isbyte c = true -> In c (rng 256).
Proof. intros H. apply in_rng, isbyte_lt, H. Qed.
Lemma fbyte (f : N -> bool) c : forallb f (rng 256) = true -> isbyte c = true -> f c = true.
Proof. intros H Hc. apply (fb1 f 256); auto using isbyte_lt. Qed.
Lemma bytes_cons c l : bytes (c :: l) <-> isbyte c = true /\ bytes l.
Proof. unfold bytes. cbn [forallb]. rewrite andb_true_iff. tauto. Qed.
Lemma bytes_app a b : bytes (a ++ b) <-> bytes a /\ bytes b.
Proof. unfold bytes. rewrite forallb_app, andb_true_iff. tauto. Qed.
Lemma cstr_cons c l : cstr (c :: l) <-> (isbyte c = true /\ c <> 0) /\ cstr l.
Proof. unfold cstr, nonzero. cbn [forallb]. rewrite !andb_true_iff, negb_true_iff, N.eqb_neq. tauto. Qed.
Lemma cstr_app a b : cstr (a ++ b) <-> cstr a /\ cstr b.
Proof. unfold cstr. rewrite forallb_app, andb_true_iff. tauto. Qed.
Lemma cstr_bytes l : cstr l -> bytes l.
Proof. unfold cstr, bytes. induction l as [|c l IH]; cbn [forallb]; auto. rewrite !andb_true_iff. tauto. Qed.
