(* Result type of fuelled / partial model functions.
   Crash  = the C code would dereference NULL / a dangling pointer or index outside a buffer.
   Fuel   = the explicit recursion fuel ran out (theorems show it cannot for the stated fuel). *)
From Coq Require Import List BinNums.
Inductive res (A : Type) : Type := Ok (a : A) | Crash | Fuel.
Arguments Ok {A} a. Arguments Crash {A}. Arguments Fuel {A}.
Definition bind {A B} (r : res A) (f : A -> res B) : res B :=
  match r with Ok a => f a | Crash => Crash | Fuel => Fuel end.
Lemma bind_ok {A B} (r : res A) (f : A -> res B) b : bind r f = Ok b -> exists a, r = Ok a /\ f a = Ok b.
Proof. destruct r; simpl; intros H; try discriminate. eauto. Qed.
Definition is_ok {A} (r : res A) : bool := match r with Ok _ => true | _ => false end.
(* extracted into every model file so that all four number types are always present (ocaml/util.ml converts them) *)
Definition num_anchor (a : nat) (b : BinNums.positive) (c : BinNums.N) (d : BinNums.Z) : unit := tt.
