(* Machine words as N: arithmetic modulo 2^32 / 2^64, little-endian byte <-> word conversion, and reading from a
   "pointer" (a pointer into a buffer is modelled as the suffix of the buffer that starts there: taking n bytes
   from it fails when fewer than n remain, which is what an access beyond the end of the buffer means).
   Truncation is written as N.land with the all-ones mask because that is what extracted code can run fast;
   w32_mod / w64_mod state that it is reduction modulo 2^32 / 2^64. *)
From Coq Require Import NArith Arith List Lia Bool.
Import ListNotations.
Local Open Scope N_scope.

Definition M32 : N := 4294967295.                 (* 2^32 - 1 *)
Definition M64 : N := 18446744073709551615.       (* 2^64 - 1 *)
Definition w32 (x : N) : N := N.land x M32.
Definition w64 (x : N) : N := N.land x M64.
Definition add32 a b := w32 (a + b).
Definition mul32 a b := w32 (a * b).
Definition shl32 a k := w32 (N.shiftl a k).
Definition add64 a b := w64 (a + b).
Definition mul64 a b := w64 (a * b).
Definition shl64 a k := w64 (N.shiftl a k).
(* the C idiom (x << l) | (x >> r) on an unsigned 32/64-bit x; a rotation when l + r is the width *)
Definition rot32 x l r := N.lor (shl32 x l) (N.shiftr x r).
Definition rot64 x l r := N.lor (shl64 x l) (N.shiftr x r).
Definition rotl32 x s := rot32 x s (32 - s).
Definition rotl64 x s := rot64 x s (64 - s).
Definition not32 x := N.lxor x M32.               (* ~x on a 32-bit unsigned x *)

Lemma w32_mod x : w32 x = x mod 2 ^ 32.
Proof. unfold w32. change M32 with (N.ones 32). apply N.land_ones. Qed.
Lemma w64_mod x : w64 x = x mod 2 ^ 64.
Proof. unfold w64. change M64 with (N.ones 64). apply N.land_ones. Qed.
Lemma w32_lt x : w32 x < 2 ^ 32.
Proof. rewrite w32_mod. apply N.mod_lt. discriminate. Qed.
Lemma w64_lt x : w64 x < 2 ^ 64.
Proof. rewrite w64_mod. apply N.mod_lt. discriminate. Qed.
Lemma w32_small x : x < 2 ^ 32 -> w32 x = x.
Proof. intros H. rewrite w32_mod. apply N.mod_small, H. Qed.
Lemma w64_small x : x < 2 ^ 64 -> w64 x = x.
Proof. intros H. rewrite w64_mod. apply N.mod_small, H. Qed.
Lemma w32_idem x : w32 (w32 x) = w32 x.
Proof. apply w32_small, w32_lt. Qed.
Lemma w64_idem x : w64 (w64 x) = w64 x.
Proof. apply w64_small, w64_lt. Qed.

Lemma w32_add_l a b : w32 (w32 a + b) = w32 (a + b).
Proof. rewrite !w32_mod. apply N.add_mod_idemp_l. discriminate. Qed.
Lemma w32_add_r a b : w32 (a + w32 b) = w32 (a + b).
Proof. rewrite !w32_mod. apply N.add_mod_idemp_r. discriminate. Qed.
Lemma w64_add_l a b : w64 (w64 a + b) = w64 (a + b).
Proof. rewrite !w64_mod. apply N.add_mod_idemp_l. discriminate. Qed.
Lemma w64_add_r a b : w64 (a + w64 b) = w64 (a + b).
Proof. rewrite !w64_mod. apply N.add_mod_idemp_r. discriminate. Qed.
Lemma add32_comm a b : add32 a b = add32 b a.
Proof. unfold add32. now rewrite N.add_comm. Qed.
Lemma add32_assoc a b c : add32 a (add32 b c) = add32 (add32 a b) c.
Proof. unfold add32. rewrite w32_add_r, w32_add_l. now rewrite N.add_assoc. Qed.

(* ---- little endian ---- *)
(* value of a byte sequence, least significant byte first: sum of b_i * 256^i *)
Fixpoint le_join (bs : list N) : N := match bs with [] => 0 | b :: r => b + 256 * le_join r end.
(* the k low-order bytes of x, least significant first *)
Fixpoint le_bytes (k : nat) (x : N) : list N := match k with O => [] | S k' => x mod 256 :: le_bytes k' (x / 256) end.

Lemma le_bytes_length k x : length (le_bytes k x) = k.
Proof. revert x. induction k; intros; cbn [le_bytes length]; auto. Qed.
Lemma le_join_app a b : le_join (a ++ b) = le_join a + 256 ^ N.of_nat (length a) * le_join b.
Proof. induction a as [|x a IH]; cbn [app le_join length].
  - rewrite N.mul_1_l. reflexivity.
  - rewrite IH, Nat2N.inj_succ, N.pow_succ_r'. lia. Qed.
Lemma le_join_zeros bs k : le_join (bs ++ repeat 0 k) = le_join bs.
Proof. rewrite le_join_app. assert (le_join (repeat 0 k) = 0) as ->; [|lia]. induction k; cbn [repeat le_join]; [reflexivity|]. rewrite IHk. reflexivity. Qed.

(* ---- pointers as buffer suffixes ---- *)
(* take n p: the n bytes at p and the pointer p + n; None when fewer than n bytes remain in the buffer *)
Fixpoint take (n : nat) (p : list N) : option (list N * list N) :=
  match n with
  | O => Some ([], p)
  | S n' => match p with [] => None | b :: r => match take n' r with Some (a, q) => Some (b :: a, q) | None => None end end
  end.
Lemma take_spec n p : take n p = if Nat.leb n (length p) then Some (firstn n p, skipn n p) else None.
Proof. revert p. induction n as [|n IH]; intros p; [reflexivity|]. destruct p as [|b r]; [reflexivity|].
  cbn [take length firstn skipn]. rewrite IH. change (Nat.leb (S n) (S (length r))) with (Nat.leb n (length r)).
  destruct (Nat.leb n (length r)); reflexivity. Qed.
Lemma take_app n a j : (n <= length a)%nat -> take n (a ++ j) = Some (firstn n a, skipn n a ++ j).
Proof. intros H. rewrite take_spec. rewrite app_length. assert (Nat.leb n (length a + length j) = true) as -> by (apply Nat.leb_le; lia).
  rewrite firstn_app, skipn_app. replace (n - length a)%nat with O by lia. cbn [firstn skipn]. rewrite app_nil_r. reflexivity. Qed.
Lemma take_none n a : (length a < n)%nat -> take n a = None.
Proof. intros H. rewrite take_spec. assert (Nat.leb n (length a) = false) as -> by (apply Nat.leb_gt; lia). reflexivity. Qed.
