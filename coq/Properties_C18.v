(* C18 — Hash functions equal their published algorithms for every input, as pure functions of exactly the given bytes.
   This file contains only the property theorems; each is closed by a lemma proved elsewhere.
   Models (coq/HashFn/*Model.v) take the input as a buffer `msg ++ junk`: the nbytes input bytes followed by whatever
   else is accessible after them; a read beyond the end of the buffer is Crash.  So a theorem "for all junk" says both
   that the value does not depend on what follows the input and (junk = []) that no byte after the input is read. *)
From Coq Require Import NArith Arith List.
From QV.Base Require Import Res Bytes Word.
From QV.Gen Require Import HashConst.
From QV.HashFn Require Import FnvModel MurmurModel Md5Model FnvSpec MurmurSpec Md5Spec FnvProofs MurmurProofs Md5Proofs HashPure.
Import ListNotations.
Local Open Scope N_scope.

(* FNV-1: the shift-add sequence of the source is multiplication by the FNV prime mod 2^w; the function is FNV-1 *)
Theorem C18_fnv32_shift_add_is_multiply : forall h, fnv32_mul h = (h * (2 ^ 24 + 2 ^ 8 + 147)) mod 2 ^ 32.
Proof. exact fnv32_mul_ok. Qed.
Theorem C18_fnv64_shift_add_is_multiply : forall h, fnv64_mul h = (h * (2 ^ 40 + 2 ^ 8 + 179)) mod 2 ^ 64.
Proof. exact fnv64_mul_ok. Qed.
Theorem C18_fnv_else_branch_same_multiplier : fnv32_prime = 1 + sumpow fnv32_shifts /\ fnv64_prime = 1 + sumpow fnv64_shifts.
Proof. exact fnv_else_branch. Qed.
Theorem C18_fnv32 : forall msg junk, msg <> [] -> qhashfnv1_32 (msg ++ junk) (N.of_nat (length msg)) = Ok (fnv1_32 msg).
Proof. exact fnv32_eq. Qed.
Theorem C18_fnv64 : forall msg junk, msg <> [] -> qhashfnv1_64 (msg ++ junk) (N.of_nat (length msg)) = Ok (fnv1_64 msg).
Proof. exact fnv64_eq. Qed.

(* MurmurHash3 with seed 0; nbytes < 2^31 because of `const int nblocks` and the int product nblocks * 4 / nblocks * 16 *)
Theorem C18_murmur32 : forall key junk, bytes key -> key <> [] -> N.of_nat (length key) < 2 ^ 31 ->
  qhashmurmur3_32 (key ++ junk) (N.of_nat (length key)) = Ok (murmur3_x86_32 0 key).
Proof. exact murmur32_eq. Qed.
Theorem C18_murmur128 : forall key junk, bytes key -> key <> [] -> N.of_nat (length key) < 2 ^ 31 ->
  qhashmurmur3_128 (key ++ junk) (N.of_nat (length key)) = Ok (Some (murmur3_x64_128 0 key)).
Proof. exact murmur128_eq. Qed.
Theorem C18_murmur_tail_switch_layout : m32_tail = cases 0 3 /\ m128_tail2 = cases 8 7 /\ m128_tail1 = cases 0 8.
Proof. exact tables_ok. Qed.

(* MD5: the 64 step lines of the source are the RFC's schedule; MD5Transform is the RFC's block function *)
Theorem C18_md5_steps : md5_steps = rfc_schedule.
Proof. exact md5_steps_ok. Qed.
Theorem C18_md5_transform : forall st blk, MD5Transform st blk = rfc_block st blk.
Proof. exact transform_eq. Qed.
(* any sequence of MD5Update calls (each on its own buffer with arbitrary bytes after it) followed by MD5Final gives the
   RFC 1321 digest of the concatenated data; per call the length must satisfy len + 63 < 2^32 (`i + 63 < inputLen` is
   evaluated in unsigned int) *)
Theorem C18_md5_stream : forall g chunks, length g = 64%nat -> Forall chunk_ok chunks ->
  md5_stream g chunks = Ok (md5 (concat (map fst chunks))).
Proof. exact md5_stream_eq. Qed.
Theorem C18_md5 : forall g msg junk, length g = 64%nat -> N.of_nat (length msg) + 63 < 2 ^ 32 ->
  qhashmd5 g (msg ++ junk) (N.of_nat (length msg)) = Ok (md5 msg).
Proof. exact md5_eq. Qed.
(* what qhashmd5 computes for an arbitrary size_t nbytes: the digest of the first nbytes mod 2^32 bytes
   (so for nbytes >= 2^32 it is not the digest of the input: `(unsigned int) nbytes`) *)
Theorem C18_md5_any_nbytes : forall g buf nbytes, length g = 64%nat ->
  (N.to_nat (w32 nbytes) <= length buf)%nat -> w32 nbytes + 63 < 2 ^ 32 ->
  qhashmd5 g buf nbytes = Ok (md5 (firstn (N.to_nat (w32 nbytes)) buf)).
Proof. exact qhashmd5_general. Qed.
(* MD5 of a byte range of a file (nbytes = 0: to the end of the file), read in sizeof(buf) chunks *)
Theorem C18_md5_file : forall g file offset nbytes, length g = 64%nat -> offset + nbytes <= N.of_nat (length file) ->
  qhashmd5_file g file offset nbytes = Ok (Some (md5 (file_range file offset nbytes))).
Proof. exact md5_file_eq. Qed.
Theorem C18_md5_file_range_error : forall g file offset nbytes, N.of_nat (length file) < offset + nbytes ->
  qhashmd5_file g file offset nbytes = Ok None.
Proof. exact md5_file_range_error. Qed.
Theorem C18_md5_padded_length : forall msg, (length (rfc_pad msg) mod 64 = 0)%nat.
Proof. exact pad_len. Qed.

(* pure functions of exactly the given bytes *)
Theorem C18_pure : forall g msg junk, length g = 64%nat -> bytes msg -> msg <> [] -> N.of_nat (length msg) < 2 ^ 31 ->
  pure_on qhashfnv1_32 msg junk /\ pure_on qhashfnv1_64 msg junk /\ pure_on qhashmurmur3_32 msg junk /\
  pure_on qhashmurmur3_128 msg junk /\ pure_on (qhashmd5 g) msg junk.
Proof. exact hashes_pure. Qed.
Theorem C18_md5_context_garbage_irrelevant : forall g1 g2 msg junk, length g1 = 64%nat -> length g2 = 64%nat -> N.of_nat (length msg) + 63 < 2 ^ 32 ->
  qhashmd5 g1 (msg ++ junk) (N.of_nat (length msg)) = qhashmd5 g2 (msg ++ junk) (N.of_nat (length msg)).
Proof. exact md5_garbage_independent. Qed.

(* empty input (outside the property, which is about non-empty strings): what the code does.  FNV returns 0 (FNV-1 of the
   empty string is the offset basis), qhashmurmur3_32 returns 0 (= MurmurHash3 x86_32 of the empty key), qhashmurmur3_128
   returns false; qhashmd5 of no bytes is the RFC digest of the empty message (C18_md5 with msg = []) *)
Theorem C18_empty_inputs : forall buf, (qhashfnv1_32 buf 0 = Ok 0 /\ qhashfnv1_64 buf 0 = Ok 0) /\
  (qhashmurmur3_32 buf 0 = Ok (murmur3_x86_32 0 []) /\ qhashmurmur3_128 buf 0 = Ok None).
Proof. exact (fun buf => conj (fnv_empty buf) (murmur_empty buf)). Qed.

(* the loop condition of the pinned tree, `*dp && nbytes > 0` (repaired in /repo by the fix commit): the model with that
   condition reads the byte after the buffer and stops at the first NUL byte *)
Theorem C18_fnv_old_condition_overreads : fnv_loop true fnv32_mul 1 [97] fnv32_basis = Crash.
Proof. exact fnv_old_condition_overreads. Qed.
Theorem C18_fnv_old_condition_stops_at_nul :
  fnv_loop true fnv32_mul 3 [97; 0; 98; 7] fnv32_basis = Ok (fnv1_32 [97]) /\ fnv1_32 [97] <> fnv1_32 [97; 0; 98].
Proof. exact fnv_old_condition_stops_at_nul. Qed.

(* non-vacuity: concrete inputs meeting the hypotheses, evaluated through the models *)
Definition g7 : list N := repeat 7 64.
Example C18_ex_fnv : qhashfnv1_32 ([102; 111; 111; 0; 98] ++ [9; 9]) 5 = Ok (fnv1_32 [102; 111; 111; 0; 98]) /\ fnv1_32 [102; 111; 111] = 0x408f5e13.
Proof. vm_compute. split; reflexivity. Qed.
Example C18_ex_murmur : qhashmurmur3_32 (s_hello ++ [1; 2; 3]) 5 = Ok 0x248bfa47 /\ bytes s_hello /\ qhashmurmur3_128 s_fox 43 = Ok (Some (murmur3_x64_128 0 s_fox)).
Proof. vm_compute. repeat split. Qed.
Example C18_ex_md5 : qhashmd5 g7 ([97; 98; 99] ++ [200]) 3 = Ok [0x90;0x01;0x50;0x98;0x3c;0xd2;0x4f;0xb0;0xd6;0x96;0x3f;0x7d;0x28;0xe1;0x7f;0x72]
  /\ md5_stream g7 [([97], [5; 5]); ([], []); ([98; 99], [])] = Ok (md5 [97; 98; 99]) /\ Forall chunk_ok [([97], [5; 5]); ([], []); ([98; 99], [])].
Proof. split; [vm_compute; reflexivity|]. split; [vm_compute; reflexivity|]. repeat constructor. Qed.
Example C18_ex_file : qhashmd5_file g7 (map N.of_nat (seq 0 200)) 70 100 = Ok (Some (md5 (map N.of_nat (seq 70 100)))) /\ qhashmd5_file g7 [1; 2; 3] 2 2 = Ok None.
Proof. vm_compute. split; reflexivity. Qed.

Print Assumptions C18_fnv32_shift_add_is_multiply.
Print Assumptions C18_fnv64_shift_add_is_multiply.
Print Assumptions C18_fnv_else_branch_same_multiplier.
Print Assumptions C18_fnv32.
Print Assumptions C18_fnv64.
Print Assumptions C18_murmur32.
Print Assumptions C18_murmur128.
Print Assumptions C18_murmur_tail_switch_layout.
Print Assumptions C18_md5_steps.
Print Assumptions C18_md5_transform.
Print Assumptions C18_md5_stream.
Print Assumptions C18_md5.
Print Assumptions C18_md5_any_nbytes.
Print Assumptions C18_md5_file.
Print Assumptions C18_md5_file_range_error.
Print Assumptions C18_md5_padded_length.
Print Assumptions C18_pure.
Print Assumptions C18_md5_context_garbage_irrelevant.
Print Assumptions C18_empty_inputs.
Print Assumptions C18_fnv_old_condition_overreads.
Print Assumptions C18_fnv_old_condition_stops_at_nul.
