(* C18 placeholder while the models are being validated *)
From QV.HashFn Require Import FnvModel MurmurModel Md5Model FnvSpec MurmurSpec Md5Spec.
