(* C01 — the tree table is an exact sorted map for every operation history.
   Only property theorems here; each is closed by a lemma proved in Tree/*.v. *)
From Coq Require Import NArith List Bool.
From QV.Base Require Import Res.
From QV.Gen Require Import Consts.
From QV.Tree Require Import TreeModel TreeLlrb QTree TreeSpec QTreeProofs TreeIter.
Import ListNotations.
Local Open Scope N_scope.

(* the model transcribes the 2-3-4 variant; the source must still select it *)
Theorem C01_variant : LLRB234 = true.
Proof. reflexivity. Qed.

Section C01.
Variable kcmp : list N -> list N -> comparison.
Hypothesis kcmp_trans : forall a b c, kcmp a b = Lt -> kcmp b c = Lt -> kcmp a c = Lt.
Hypothesis kcmp_antisym : forall a b, kcmp a b = CompOpp (kcmp b a).
Hypothesis kcmp_eq_l : forall a b c, kcmp a b = Eq -> kcmp a c = kcmp b c.

(* every history of put/get/remove/clear/size/find_min/find_max, from the empty table: the model never crashes or runs
   out of fuel, every observation is the ideal sorted map's, and the table's contents ARE the ideal map's contents *)
Theorem C01_refines : forall os, forallb is_map_op os = true ->
  exists s obs d, run kcmp (init) os = Ok (s, obs) /\ Inv kcmp s /\
    fst (srun kcmp sinit os) = (abs s, d) /\ Forall2 obs_ok obs (snd (srun kcmp sinit os)).
Proof. intros os H. exact (run_map_refines kcmp kcmp_trans kcmp_antisym kcmp_eq_l os init false (Inv_init kcmp) H). Qed.

(* the same for histories in which walks (complete or abandoned) and nearest-key searches are interleaved with the map
   operations: they never change what the map operations observe *)
Theorem C01_refines_any_history : forall os,
  exists s obs d, run kcmp init os = Ok (s, obs) /\ Inv kcmp s /\
    fst (srun kcmp sinit os) = (abs s, d) /\ Forall2 obs_ok obs (snd (srun kcmp sinit os)).
Proof. intros os. destruct (run_init_refines kcmp kcmp_trans kcmp_antisym kcmp_eq_l os) as (s & obs & d & E & HI & _ & _ & Ha & Ho).
  exists s, obs, d. auto. Qed.

(* the clauses of the property, operation by operation, from any state satisfying the invariant *)
Theorem C01_put : forall s k v, Inv kcmp s -> k <> [] ->
  exists s', qput kcmp s k v = Ok (s', true) /\ Inv kcmp s' /\ abs s' = sput kcmp k v (abs s).
Proof. exact (put_refines kcmp kcmp_trans kcmp_antisym kcmp_eq_l). Qed.
Theorem C01_get : forall s k, Inv kcmp s -> k <> [] -> qget kcmp s k = sget kcmp k (abs s).
Proof. exact (get_refines kcmp kcmp_trans kcmp_eq_l). Qed.
Theorem C01_remove : forall s k, Inv kcmp s ->
  exists s', qremove kcmp s k = Ok (s', smem kcmp k (abs s)) /\ Inv kcmp s' /\ abs s' = sdel kcmp k (abs s).
Proof. exact (remove_refines kcmp kcmp_trans kcmp_antisym kcmp_eq_l). Qed.
Theorem C01_size : forall s, Inv kcmp s -> qsize s = N.of_nat (length (abs s)).
Proof. exact (size_refines kcmp). Qed.
Theorem C01_min : forall s, qmin s = smin (abs s).
Proof. exact min_refines. Qed.
Theorem C01_max : forall s, qmax s = smax (abs s).
Proof. exact max_refines. Qed.
End C01.

(* the default byte-wise ordering is an admissible ordering, and it identifies only identical byte strings *)
Theorem C01_byte_cmp_laws :
  (forall a b c, byte_cmp a b = Lt -> byte_cmp b c = Lt -> byte_cmp a c = Lt) /\
  (forall a b, byte_cmp a b = CompOpp (byte_cmp b a)) /\
  (forall a b c, byte_cmp a b = Eq -> byte_cmp a c = byte_cmp b c) /\
  (forall a b, byte_cmp a b = Eq -> a = b).
Proof. repeat split; [exact byte_cmp_trans|intros; apply byte_cmp_antisym|exact byte_cmp_eq_l|intros a b; apply byte_cmp_eq]. Qed.

(* non-vacuity: a concrete history meets the hypotheses and produces a non-trivial state *)
Example C01_ex : exists s obs, run byte_cmp init [Put [97;0] [1]; Put [98;0] [2]; Put [97;0] []; Remove [98;0]; Get [97;0]; Size] = Ok (s, obs)
  /\ abs s = [([97;0], [])] /\ obs = [OBool true; OBool true; OBool true; OBool true; OVal (Some []); ONum 1].
Proof. vm_compute. eexists; eexists; repeat split. Qed.

Print Assumptions C01_refines.
Print Assumptions C01_refines_any_history.
Print Assumptions C01_put.
Print Assumptions C01_get.
Print Assumptions C01_remove.
Print Assumptions C01_byte_cmp_laws.
