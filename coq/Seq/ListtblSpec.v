(* The ideal ordered multimap the list table is compared with (property C08).
   State: the list of (name, value) entries, top to bottom.  Configuration: the four options.
   Only the operation/observation types and the text-format functions (render / parse_file, the subject of
   C08_save_load) are taken from the model file; key equality and key order are defined here on their own. *)
From Coq Require Import NArith ZArith List Bool.
From QV.Enc Require Import EncModel.
From QV.Seq Require Import ListtblModel.
Import ListNotations.
Local Open Scope N_scope.

Record lcfg := mkCfg { unique : bool; casei : bool; inserttop : bool; lookupfwd : bool }.

(* keys: the name itself, or the name with ASCII capitals folded when the table is case-insensitive *)
Definition fold_case (c : N) : N := if (65 <=? c) && (c <=? 90) then c + 32 else c.
Definition key (g : lcfg) (n : list N) : list N := if casei g then map fold_case n else n.
Fixpoint list_eqb (a b : list N) : bool :=
  match a, b with
  | [], [] => true
  | x :: a', y :: b' => (x =? y) && list_eqb a' b'
  | _, _ => false
  end.
(* lexicographic order on byte strings, a proper prefix first *)
Fixpoint lex_le (a b : list N) : bool :=
  match a, b with
  | [], _ => true
  | _ :: _, [] => false
  | x :: a', y :: b' => if x <? y then true else if y <? x then false else lex_le a' b'
  end.
Definition keq (g : lcfg) (a b : list N) : bool := list_eqb (key g a) (key g b).
Definition kle (g : lcfg) (a b : list N) : bool := lex_le (key g a) (key g b).

Definition lmap := list ent.
Definition lookup_order (g : lcfg) (m : lmap) : lmap := if lookupfwd g then m else rev m.
Definition matching (g : lcfg) (name : option (list N)) (e : ent) : bool :=
  match name with None => true | Some nm => keq g (fst e) nm end.

Definition sput_at (g : lcfg) (top : bool) (m : lmap) (nm d : list N) : lmap :=
  let base := if unique g then filter (fun e => negb (keq g (fst e) nm)) m else m in
  if top then (nm, d) :: base else base ++ [(nm, d)].
Definition sput (g : lcfg) (m : lmap) (nm d : list N) : lmap := sput_at g (inserttop g) m nm d.
Definition sget (g : lcfg) (m : lmap) (nm : list N) : option (list N) :=
  match find (fun e => keq g (fst e) nm) (lookup_order g m) with Some e => Some (snd e) | None => None end.
Definition sgetmulti (g : lcfg) (m : lmap) (name : option (list N)) : list (list N) :=
  map snd (filter (matching g name) (lookup_order g m)).
Definition sremove (g : lcfg) (m : lmap) (nm : list N) : lmap * N :=
  (filter (fun e => negb (keq g (fst e) nm)) m, N.of_nat (length (filter (fun e => keq g (fst e) nm) m))).

(* stable sort by key: insertion sort; the entries are inserted from the last to the first, each one in FRONT of the
   entries already placed whose key is not smaller, so entries with equal keys keep their relative order *)
Fixpoint sinsert_front (g : lcfg) (e : ent) (l : lmap) : lmap :=
  match l with
  | [] => [e]
  | x :: r => if kle g (fst e) (fst x) then e :: l else x :: sinsert_front g e r
  end.
Fixpoint ssort (g : lcfg) (l : lmap) : lmap :=
  match l with [] => [] | e :: r => sinsert_front g e (ssort g r) end.

(* a walk: cleared cursor, up to n calls of getnext over the entries matching `name` in lookup order; the i-th entry
   handed out is removed when rm[i] is set.  Result: what is left (in lookup order), the entries handed out,
   whether a call reported the end. *)
Fixpoint swalk {A : Type} (p : A -> bool) (v : list A) (n : nat) (rm : list bool) : list A * list A * bool * list bool :=
  match v with
  | [] => ([], [], match n with O => false | S _ => true end, [])
  | e :: r =>
    match n with
    | O => (v, [], false, [])
    | S n' =>
      if p e then
        match swalk p r n' (tl rm) with
        | (v', ys, en, rs) => if hd false rm then (v', e :: ys, en, true :: rs) else (e :: v', e :: ys, en, rs)
        end
      else
        match swalk p r n rm with (v', ys, en, rs) => (e :: v', ys, en, rs) end
    end
  end.

Definition is_string (d : list N) : bool := existsb (N.eqb 0) d.

Definition lt_sstep (g : lcfg) (m : lmap) (o : lop) : lmap * lobs :=
  match o with
  | LPut None _ => (m, LBool false)
  | LPut (Some _) [] => (m, LBool false)
  | LPut (Some nm) d => (sput g m nm d, LBool true)
  | LPutStr None _ => (m, LBool false)
  | LPutStr _ None => (m, LBool false)
  | LPutStr (Some nm) (Some s) => (sput g m nm (s ++ [0]), LBool true)
  | LPutInt nm z => (sput g m nm (dec_i64 z ++ [0]), LBool true)
  | LGet None => (m, LVal None)
  | LGet (Some nm) => (m, LVal (sget g m nm))
  | LGetInt nm => (m, match sget g m nm with
                     | None => LInt 0
                     | Some d => if is_string d then LInt (atoll (cut0 d)) else LBad
                     end)
  | LGetMulti name => (m, LMulti (sgetmulti g m name))
  | LRemove None => (m, LNum 0)
  | LRemove (Some nm) => let (m', k) := sremove g m nm in (m', LNum k)
  | LWalk name n rm =>
      match swalk (matching g name) (lookup_order g m) n rm with
      | (v', ys, en, rs) => (lookup_order g v', LWalked ys en rs)
      end
  | LSize => (m, LNum (N.of_nat (length m)))
  | LSort => (ssort g m, LUnit)
  | LClear => ([], LUnit)
  | LSave sep enc => (m, match render sep enc m with Some b => LSaved b | None => LBad end)
  | LLoad content sep dec =>
      let ps := parse_file sep dec content in
      (fold_left (fun acc p => sput_at g false acc (fst p) (snd p)) ps m, LInt (Z.of_nat (length ps)))
  | LLoadMissing => (m, LInt (-1))
  end.
Fixpoint lt_srun (g : lcfg) (m : lmap) (os : list lop) : lmap * list lobs :=
  match os with
  | [] => (m, [])
  | o :: r => let (m1, ob) := lt_sstep g m o in let (m2, lobs) := lt_srun g m1 r in (m2, ob :: lobs)
  end.
