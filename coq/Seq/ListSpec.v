(* The ideal object of C09: a sequence of non-empty byte strings with an optional size limit.

   Documented index convention (qlist.h / the doc comments in qlist.c):
     access (getat/popat/removeat):  0-based from the front; a negative index addresses from the back, -1 = last
                                     element, -n = first; anything else is out of range.
     insertion (addat):              index i in 0..n = the position the new element will have; negative from the back
                                     with -1 = "same as addlast()" (new last element), hence -(n+1) = new first element;
                                     anything else is out of range.
   Refused operations (out of range, over the limit, NULL data or size 0) change nothing.
   Forward walking: a cursor cleared by the caller starts at the front and each call yields the next element; the
   cursor is only meaningful while the list is not modified (any successful structural change makes it stale, and
   nothing is promised about a walk continued with a stale cursor: OUndef). *)
From Coq Require Import NArith ZArith List Bool.
From QV.Seq Require Import ListModel.
Import ListNotations.
Import QL.
Local Open Scope Z_scope.

Module QLS.

Definition ins_pos (n index : Z) : option nat :=
  let p := if index <? 0 then n + index + 1 else index in
  if (0 <=? p) && (p <=? n) then Some (Z.to_nat p) else None.
Definition acc_pos (n index : Z) : option nat :=
  let p := if index <? 0 then n + index else index in
  if (0 <=? p) && (p <? n) then Some (Z.to_nat p) else None.

Definition insert_at {A} (i : nat) (x : A) (l : list A) : list A := firstn i l ++ x :: skipn i l.
Definition remove_at {A} (i : nat) (l : list A) : list A := firstn i l ++ skipn (S i) l.

Definition len {A} (l : list A) : Z := Z.of_nat (length l).
Definition total (l : list bstr) : Z := len (concat l).
(* an element seen as a string: without its last byte if that is NUL *)
Definition strip (b : bstr) : bstr :=
  match rev b with
  | c :: r => if N.eqb c 0 then rev r else b
  | [] => b
  end.

Inductive scur := CFresh | CAt (k : nat) | CStale.      (* CAt k: k elements were yielded, position k comes next *)
Record sstate := mkS { sl : list bstr; smax : Z; scu : scur }.
Definition sinit : sstate := mkS [] 0 CFresh.
Definition stale (c : scur) : scur := match c with CFresh => CFresh | _ => CStale end.

Definition s_add (st : sstate) (index : Z) (d : option bstr) : sstate * obs :=
  match d with
  | None | Some [] => (st, OFail EINVAL)
  | Some b =>
    if (0 <? smax st) && (smax st <=? len (sl st)) then (st, OFail ENOBUFS) else
    match ins_pos (len (sl st)) index with
    | None => (st, OFail ERANGE)
    | Some p => (mkS (insert_at p b (sl st)) (smax st) (stale (scu st)), OOk)
    end
  end.
Definition s_get (st : sstate) (index : Z) (remove : bool) : sstate * obs :=
  match acc_pos (len (sl st)) index with
  | None => (st, OFail ERANGE)
  | Some p => match nth_error (sl st) p with
              | None => (st, OFail ERANGE)
              | Some b => (if remove then mkS (remove_at p (sl st)) (smax st) (stale (scu st)) else st, OData b)
              end
  end.
Definition s_remove (st : sstate) (index : Z) : sstate * obs :=
  match acc_pos (len (sl st)) index with
  | None => (st, OFail ERANGE)
  | Some p => (mkS (remove_at p (sl st)) (smax st) (stale (scu st)), OOk)
  end.
Definition s_next (st : sstate) : sstate * obs :=
  match scu st with
  | CStale => (st, OUndef)
  | CFresh => match sl st with
              | [] => (st, OFail ENOENT)
              | b :: _ => (mkS (sl st) (smax st) (CAt 1), OData b)
              end
  | CAt k => match nth_error (sl st) k with
             | None => (st, OFail ENOENT)
             | Some b => (mkS (sl st) (smax st) (CAt (S k)), OData b)
             end
  end.

Definition sstep (st : sstate) (o : op) : sstate * obs :=
  match o with
  | AddFirst d => s_add st 0 d
  | AddLast d => s_add st (-1) d
  | AddAt i d => s_add st i d
  | GetFirst _ => s_get st 0 false
  | GetLast _ => s_get st (-1) false
  | GetAt i _ => s_get st i false
  | PopFirst => s_get st 0 true
  | PopLast => s_get st (-1) true
  | PopAt i => s_get st i true
  | RemoveFirst => s_remove st 0
  | RemoveLast => s_remove st (-1)
  | RemoveAt i => s_remove st i
  | GetNext _ => s_next st
  | CurReset => (mkS (sl st) (smax st) CFresh, OOk)
  | Reverse => (mkS (rev (sl st)) (smax st) (stale (scu st)), OOk)
  | Clear => (mkS [] (smax st) (stale (scu st)), OOk)
  | SetSize m => (mkS (sl st) m (scu st), ONum (smax st))
  | Size => (st, ONum (len (sl st)))
  | DataSize => (st, ONum (total (sl st)))
  | ToArray => (st, match sl st with [] => OFailSz ENOENT 0 | _ => OArr (concat (sl st)) (total (sl st)) end)
  | ToString => (st, match sl st with [] => OFail ENOENT | _ => OStr (concat (map strip (sl st)) ++ [0%N]) end)
  end.
Fixpoint srun (st : sstate) (os : list op) : sstate * list obs :=
  match os with
  | [] => (st, [])
  | o :: r => let (st1, ob) := sstep st o in let (st2, obs) := srun st1 r in (st2, ob :: obs)
  end.
End QLS.
