(* Ideal queue, stack and grow buffer: a plain list of byte strings (front first) and an optional size limit.
   queue: push appends at the back, pop/get take the front  (first in, first out)
   stack: push prepends at the front, pop/get take the front (last in, first out)
   grow : add appends; toarray is the concatenation of the pieces in order of addition.
   Strings travel as their bstr plus a terminating NUL; integers as 8 little-endian bstr (int64_t).
   popint/getint on an element shorter than 8 bstr and addstr(NULL) are outside the contract (OUndef). *)
From Coq Require Import NArith ZArith List Bool.
From QV.Seq Require Import ListModel ListSpec WrapModel.
Import ListNotations.
Import QL QLS QW.
Local Open Scope Z_scope.

Module QWS.

Fixpoint upto_nul (b : bstr) : bstr :=
  match b with
  | [] => []
  | c :: r => if N.eqb c 0 then [] else c :: upto_nul r
  end.
Definition wstate := (list bstr * Z)%type.      (* contents front first, limit (0 = none) *)
Definition winit : wstate := ([], 0).

Definition ws_push (k : kind) (st : wstate) (d : option bstr) : wstate * obs :=
  let (l, m) := st in
  match d with
  | None | Some [] => (st, OFail EINVAL)
  | Some b => if (0 <? m) && (m <=? len l) then (st, OFail ENOBUFS)
              else ((match k with Queue => l ++ [b] | Stack => b :: l end, m), OOk)
  end.
(* what popstr/getstr hand out: the element made a string by force (last byte := NUL), read up to its first NUL *)
Definition as_cstr (b : bstr) : bstr := upto_nul (removelast b).
Definition as_int (b : bstr) : obs :=
  if Nat.ltb (length b) 8 then OUndef else OInt (i64 (le_val (firstn 8 b))).

Definition wsstep (k : kind) (st : wstate) (o : wop) : wstate * obs :=
  let (l, m) := st in
  match o with
  | WPush d => ws_push k st d
  | WPushStr None => (st, OFail EINVAL)
  | WPushStr (Some s) => ws_push k st (Some (upto_nul s ++ [0%N]))
  | WPushInt z => ws_push k st (Some (int_bytes z))
  | WPop => match l with [] => (st, OFail ERANGE) | b :: r => ((r, m), OData b) end
  | WPopStr => match l with [] => (st, OCStr None) | b :: r => ((r, m), OCStr (Some (as_cstr b))) end
  | WPopInt => match l with [] => (st, OInt 0) | b :: r => ((r, m), as_int b) end
  | WPopAt i => match acc_pos (len l) i with
                | None => (st, OFail ERANGE)
                | Some p => match nth_error l p with Some b => ((remove_at p l, m), OData b) | None => (st, OFail ERANGE) end
                end
  | WGet _ => match l with [] => (st, OFail ERANGE) | b :: _ => (st, OData b) end
  | WGetStr => match l with [] => (st, OCStr None) | b :: _ => (st, OCStr (Some (as_cstr b))) end
  | WGetInt => match l with [] => (st, OInt 0) | b :: _ => (st, as_int b) end
  | WGetAt i _ => match acc_pos (len l) i with
                  | None => (st, OFail ERANGE)
                  | Some p => match nth_error l p with Some b => (st, OData b) | None => (st, OFail ERANGE) end
                  end
  | WSize => (st, ONum (len l))
  | WClear => (([], m), OOk)
  | WSetSize m' => ((l, m'), ONum m)
  end.
Fixpoint wsrun (k : kind) (st : wstate) (os : list wop) : wstate * list obs :=
  match os with
  | [] => (st, [])
  | o :: r => let (st1, ob) := wsstep k st o in let (st2, obs) := wsrun k st1 r in (st2, ob :: obs)
  end.

(* grow buffer: the pieces in order of addition *)
Definition gs_add (l : list bstr) (d : option bstr) : list bstr * obs :=
  match d with
  | None | Some [] => (l, OFail EINVAL)
  | Some b => (l ++ [b], OOk)
  end.
Definition gsstep (l : list bstr) (o : gop) : list bstr * obs :=
  match o with
  | GAdd d => gs_add l d
  | GAddStr None => (l, OUndef)
  | GAddStr (Some s) => gs_add l (Some (upto_nul s))
  | GSize => (l, ONum (len l))
  | GDataSize => (l, ONum (total l))
  | GToArray => (l, match l with [] => OFailSz ENOENT 0 | _ => OArr (concat l) (total l) end)
  | GToString => (l, match l with [] => OFail ENOENT | _ => OStr (concat (map strip l) ++ [0%N]) end)
  | GClear => ([], OOk)
  end.
Fixpoint gsrun (l : list bstr) (os : list gop) : list bstr * list obs :=
  match os with
  | [] => (l, [])
  | o :: r => let (l1, ob) := gsstep l o in let (l2, obs) := gsrun l1 r in (l2, ob :: obs)
  end.
End QWS.
