(* C10 — the ideal object: a list of elements (element = list of bytes), with list insertion / removal / nth / rev / concat.
   Shares only the operation and observation types with the model. *)
From Coq Require Import ZArith List Bool Arith.
From QV.Seq Require Import VectorModel.
Import ListNotations.

Definition velem := list N.

(* front- or back-relative index -> position.  A negative index counts from the end: -1 is the last element. *)
Definition vpos (n : nat) (index : Z) : Z := if (index <? 0)%Z then (Z.of_nat n + index)%Z else index.
(* positions where an element can be inserted: 0 .. n  (n = append) *)
Definition vins_pos (n : nat) (index : Z) : option nat :=
  let p := vpos n index in if ((0 <=? p) && (p <=? Z.of_nat n))%Z then Some (Z.to_nat p) else None.
(* positions of existing elements: 0 .. n-1 *)
Definition vacc_pos (n : nat) (index : Z) : option nat :=
  let p := vpos n index in if ((0 <=? p) && (p <? Z.of_nat n))%Z then Some (Z.to_nat p) else None.

Definition vinsert (l : list velem) (p : nat) (x : velem) : list velem := firstn p l ++ x :: skipn p l.
Definition vdelete (l : list velem) (p : nat) : list velem := firstn p l ++ skipn (S p) l.
Definition vreplace (l : list velem) (p : nat) (x : velem) : list velem := firstn p l ++ x :: skipn (S p) l.
Definition vrefuse_acc (l : list velem) : verr := match l with [] => VENOENT | _ => VERANGE end.

Definition vs_add (l : list velem) (index : Z) (d : velem) : list velem * vobs N :=
  match vins_pos (length l) index with
  | Some p => (vinsert l p d, VOBool true)
  | None => (l, VORefused VERANGE)
  end.
Definition vs_get (l : list velem) (index : Z) : list velem * vobs N :=
  match vacc_pos (length l) index with
  | Some p => (l, VOElem (nth p l []))
  | None => (l, VORefused (vrefuse_acc l))
  end.
Definition vs_set (l : list velem) (index : Z) (d : velem) : list velem * vobs N :=
  match vacc_pos (length l) index with
  | Some p => (vreplace l p d, VOBool true)
  | None => (l, VORefused (vrefuse_acc l))
  end.
Definition vs_pop (l : list velem) (index : Z) : list velem * vobs N :=
  match vacc_pos (length l) index with
  | Some p => (vdelete l p, VOElem (nth p l []))
  | None => (l, VORefused (vrefuse_acc l))
  end.
Definition vs_remove (l : list velem) (index : Z) : list velem * vobs N :=
  match vacc_pos (length l) index with
  | Some p => (vdelete l p, VOBool true)
  | None => (l, VORefused (vrefuse_acc l))
  end.

Definition vsstep (l : list velem) (o : vop) : list velem * vobs N :=
  match o with
  | VAddAt _ None => (l, VORefused VEINVAL)
  | VAddAt i (Some d) => vs_add l i d
  | VAddFirst d => (d :: l, VOBool true)
  | VAddLast d => (l ++ [d], VOBool true)
  | VGetAt i => vs_get l i
  | VGetFirst => vs_get l 0
  | VGetLast => vs_get l (-1)
  | VSetAt i d => vs_set l i d
  | VSetFirst d => vs_set l 0 d
  | VSetLast d => vs_set l (-1) d
  | VPopAt i => vs_pop l i
  | VPopFirst => vs_pop l 0
  | VPopLast => vs_pop l (-1)
  | VRemoveAt i => vs_remove l i
  | VRemoveFirst => vs_remove l 0
  | VRemoveLast => vs_remove l (-1)
  | VSize => (l, VONum (length l))
  | VResize n => (firstn n l, VOBool true)                  (* capacity n: the first n elements survive *)
  | VClear => ([], VOUnit)
  | VReverse => (rev l, VOUnit)
  | VToArray => match l with [] => (l, VORefused VENOENT) | _ => (l, VOArray (concat l) (length l)) end
  | VWalk st n =>
    let rest := if ((st <? 0) || (Z.of_nat (length l) <=? st))%Z then [] else skipn (Z.to_nat st) l in
    (l, VOWalk (firstn n rest) (length rest <? n))
  end.
(* the new element is a copy of what position j holds before the call *)
Definition vs_addself (l : list velem) (index j : Z) : list velem * vobs N :=
  match vacc_pos (length l) j with
  | Some q => vs_add l index (nth q l [])
  | None => (l, VORefused (vrefuse_acc l))
  end.
Fixpoint vsrun (l : list velem) (h : list vop) : list velem * list (vobs N) :=
  match h with
  | [] => (l, [])
  | o :: r => let (l1, ob) := vsstep l o in let (l2, obs) := vsrun l1 r in (l2, ob :: obs)
  end.

(* ---- what the theorems say about a model state ---- *)
Definition vint (z : Z) : Prop := (- 2 ^ 31 <= z < 2 ^ 31)%Z.                       (* the range of a C int *)
Definition vcells (l : list velem) : list cell := map VByte (concat l).             (* the elements laid out back to back *)
(* shape of a vector: positive element size, num <= max, a block of exactly max*objsize cells (NULL iff max = 0) *)
Definition vinv (s : vec) : Prop :=
  1 <= vobjsize s /\ vnum s <= vmax s /\ (vpol s = VLinear -> 1 <= vinitnum s) /\
  match vdata s with Some b => length b = vmax s * vobjsize s | None => vmax s = 0 end.
(* the vector holds exactly the list l: num elements of objsize bytes, and the first num*objsize cells of the block are
   the (defined) bytes of l in order *)
Definition vrep (s : vec) (l : list velem) : Prop :=
  length l = vnum s /\ Forall (fun e => length e = vobjsize s) l /\
  match vdata s with Some b => firstn (vnum s * vobjsize s) b = vcells l | None => l = [] end.

(* well-formed operation for element size os: every element handed in is a block of exactly os bytes, every index is an int *)
Definition vwf_op (os : nat) (o : vop) : Prop :=
  match o with
  | VAddAt i (Some d) | VSetAt i d => length d = os /\ vint i
  | VAddFirst d | VAddLast d | VSetFirst d | VSetLast d => length d = os
  | VAddAt i None | VGetAt i | VPopAt i | VRemoveAt i | VWalk i _ => vint i
  | _ => True
  end.
(* the `int` bound: every state of the history holds fewer than 2^31 elements *)
Fixpoint vsmall (l : list velem) (h : list vop) : Prop :=
  (Z.of_nat (length l) < 2 ^ 31)%Z /\ match h with [] => True | o :: r => vsmall (fst (vsstep l o)) r end.
