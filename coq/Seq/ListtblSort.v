(* C08: qlisttbl_sort (bubble sort exchanging payloads, with the "last exchange" shortcut) yields a sorted, stable
   permutation; a sorted stable rearrangement is unique, hence it equals the specification's insertion sort. *)
From Coq Require Import NArith List Bool PArith Lia Permutation.
From QV.Base Require Import Res Bytes.
From QV.Seq Require Import ListtblModel ListtblSpec ListtblProofs.
Import ListNotations.

(* ---------------- the name orders ---------------- *)
Lemma strcmp_opp a : forall b, strcmp b a = CompOpp (strcmp a b).
Proof.
  induction a as [|x a IH]; destruct b as [|y b]; simpl; try reflexivity.
  rewrite (N.compare_antisym x y). destruct (x ?= y)%N; simpl; auto.
Qed.
Lemma strcmp_trans a : forall b c, strcmp a b <> Gt -> strcmp b c <> Gt -> strcmp a c <> Gt.
Proof.
  induction a as [|x a IH]; destruct b as [|y b]; destruct c as [|z c]; simpl; try congruence.
  destruct (N.compare_spec x y) as [E1|E1|E1]; destruct (N.compare_spec y z) as [E2|E2|E2]; intros H1 H2; try congruence.
  - subst. rewrite N.compare_refl. eapply IH; eauto.
  - subst. assert (Hxz : (y ?= z)%N = Lt) by (apply N.compare_lt_iff; lia). rewrite Hxz. congruence.
  - subst. assert (Hxz : (x ?= z)%N = Lt) by (apply N.compare_lt_iff; lia). rewrite Hxz. congruence.
  - assert (Hxz : (x ?= z)%N = Lt) by (apply N.compare_lt_iff; lia). rewrite Hxz. congruence.
Qed.
Definition ncmp (ci : bool) (a b : list N) : comparison := if ci then strcasecmp a b else strcmp a b.
Lemma ncmp_opp ci a b : ncmp ci b a = CompOpp (ncmp ci a b).
Proof. unfold ncmp. destruct ci; [rewrite !strcasecmp_map|]; apply strcmp_opp. Qed.
Lemma ncmp_trans ci a b c : ncmp ci a b <> Gt -> ncmp ci b c <> Gt -> ncmp ci a c <> Gt.
Proof. unfold ncmp. destruct ci; [rewrite !strcasecmp_map|]; apply strcmp_trans. Qed.
Lemma lex_le_strcmp a : forall b, lex_le a b = negb (is_gt (strcmp a b)).
Proof.
  induction a as [|x a IH]; destruct b as [|y b]; simpl; try reflexivity.
  destruct (N.compare_spec x y) as [E|E|E].
  - subst. rewrite N.ltb_irrefl. apply IH.
  - apply N.ltb_lt in E. rewrite E. reflexivity.
  - assert (E' : (x <? y)%N = false) by (apply N.ltb_ge; lia). apply N.ltb_lt in E. rewrite E', E. reflexivity.
Qed.
Lemma kle_ncmp g a b : kle g a b = negb (is_gt (ncmp (casei g) a b)).
Proof. unfold kle, key, ncmp. destruct (casei g); [rewrite strcasecmp_map|]; apply lex_le_strcmp. Qed.
Lemma keq_ncmp g a b : keq g a b = is_eq (ncmp (casei g) a b).
Proof. unfold keq, key, ncmp. destruct (casei g); [rewrite strcasecmp_eqb|rewrite strcmp_eqb]; reflexivity. Qed.

Section Sort.
Variable cmp : list N -> list N -> comparison.
Hypothesis cmp_opp : forall a b, cmp b a = CompOpp (cmp a b).
Hypothesis cmp_trans : forall a b c, cmp a b <> Gt -> cmp b c <> Gt -> cmp a c <> Gt.

Definition nle (a b : list N) : Prop := cmp a b <> Gt.
Lemma nle_refl a : nle a a.
Proof. unfold nle. pose proof (cmp_opp a a) as H. destruct (cmp a a); simpl in H; congruence. Qed.
Lemma gt_nle a b : cmp a b = Gt -> nle b a.
Proof. unfold nle. intros H. rewrite (cmp_opp a b), H. simpl. congruence. Qed.
Lemma eq_sym_cmp a b : cmp a b = Eq -> cmp b a = Eq.
Proof. intros H. rewrite (cmp_opp a b), H. reflexivity. Qed.
Lemma nle_antisym a b : nle a b -> nle b a -> cmp a b = Eq.
Proof.
  unfold nle. intros H1 H2. rewrite (cmp_opp a b) in H2. destruct (cmp a b); simpl in H2; congruence.
Qed.
Lemma eq_nle a b : cmp a b = Eq -> nle a b /\ nle b a.
Proof. intros H. unfold nle. rewrite (eq_sym_cmp _ _ H), H. split; congruence. Qed.
Lemma eq_trans_cmp a b c : cmp a b = Eq -> cmp b c = Eq -> cmp a c = Eq.
Proof.
  intros H1 H2. destruct (eq_nle _ _ H1), (eq_nle _ _ H2). apply nle_antisym; unfold nle in *; eauto.
Qed.

Section Elems.
Variable A : Type.
Variable nm : A -> list N.
Definition le (x y : A) : Prop := nle (nm x) (nm y).
Fixpoint sorted (l : list A) : Prop := match l with [] => True | x :: r => Forall (le x) r /\ sorted r end.
Definition eqvb (k : list N) (x : A) : bool := is_eq (cmp k (nm x)).
Definition stable (l l' : list A) : Prop := forall k, filter (eqvb k) l = filter (eqvb k) l'.

Lemma le_trans x y z : le x y -> le y z -> le x z.
Proof. unfold le, nle. apply cmp_trans. Qed.
Lemma le_refl x : le x x.
Proof. apply nle_refl. Qed.
Lemma eqvb_refl x : eqvb (nm x) x = true.
Proof. unfold eqvb. pose proof (nle_antisym _ _ (nle_refl (nm x)) (nle_refl (nm x))) as H. rewrite H. reflexivity. Qed.
Lemma sorted_cons_le x y r : le x y -> sorted (y :: r) -> sorted (x :: y :: r).
Proof.
  intros H [F S]. simpl. repeat split; auto. constructor; [exact H|].
  eapply Forall_impl; [|exact F]. intros z Hz. eapply le_trans; eauto.
Qed.
Lemma sorted_app a b : sorted a -> sorted b -> Forall (fun x => Forall (le x) b) a -> sorted (a ++ b).
Proof.
  induction a as [|x a IH]; simpl; intros Sa Sb F; [exact Sb|].
  destruct Sa as [Fa Sa]. inversion F; subst. split; [apply Forall_app; split; assumption|]. apply IH; auto.
Qed.
Lemma stable_refl l : stable l l.
Proof. intros k. reflexivity. Qed.
Lemma stable_trans l1 l2 l3 : stable l1 l2 -> stable l2 l3 -> stable l1 l3.
Proof. intros H1 H2 k. rewrite H1. apply H2. Qed.
Lemma not_both_eqv k x y : cmp (nm x) (nm y) = Gt -> eqvb k x = true -> eqvb k y = true -> False.
Proof.
  unfold eqvb. intros G Hx Hy.
  destruct (cmp k (nm x)) eqn:E1; try discriminate. destruct (cmp k (nm y)) eqn:E2; try discriminate.
  pose proof (eq_trans_cmp _ _ _ (eq_sym_cmp _ _ E1) E2) as H. congruence.
Qed.
Lemma stable_swap P x y Q : cmp (nm x) (nm y) = Gt -> stable (P ++ x :: y :: Q) (P ++ y :: x :: Q).
Proof.
  intros G k. rewrite !filter_app. f_equal. simpl.
  destruct (eqvb k x) eqn:Ex; destruct (eqvb k y) eqn:Ey; try reflexivity.
  exfalso. eapply not_both_eqv; eauto.
Qed.

(* a sorted list is determined by its equivalence classes (each in its order) *)
Lemma sorted_unique l1 : forall l2, sorted l1 -> sorted l2 -> stable l1 l2 -> l1 = l2.
Proof.
  induction l1 as [|h1 t1 IH]; intros l2 S1 S2 St.
  - destruct l2 as [|h2 t2]; [reflexivity|]. specialize (St (nm h2)). simpl in St. rewrite eqvb_refl in St. discriminate.
  - destruct l2 as [|h2 t2].
    + specialize (St (nm h1)). simpl in St. rewrite eqvb_refl in St. discriminate.
    + destruct S1 as [F1 S1]. destruct S2 as [F2 S2].
      assert (In1 : In h1 (h2 :: t2)).
      { pose proof (St (nm h1)) as E. simpl in E. rewrite eqvb_refl in E.
        assert (In h1 (filter (eqvb (nm h1)) (h2 :: t2))) by (simpl; rewrite <- E; left; reflexivity).
        apply filter_In in H. tauto. }
      assert (In2 : In h2 (h1 :: t1)).
      { pose proof (St (nm h2)) as E. simpl in E. rewrite eqvb_refl in E.
        assert (In h2 (filter (eqvb (nm h2)) (h1 :: t1))) by (simpl; rewrite E; left; reflexivity).
        apply filter_In in H. tauto. }
      assert (L21 : le h2 h1).
      { destruct In1 as [<-|Hi]; [apply le_refl|]. rewrite Forall_forall in F2. apply F2. exact Hi. }
      assert (L12 : le h1 h2).
      { destruct In2 as [<-|Hi]; [apply le_refl|]. rewrite Forall_forall in F1. apply F1. exact Hi. }
      assert (E12 : cmp (nm h1) (nm h2) = Eq) by (apply nle_antisym; assumption).
      assert (Hh : h1 = h2).
      { pose proof (St (nm h1)) as E. simpl in E. rewrite eqvb_refl in E. unfold eqvb at 2 in E. rewrite E12 in E. simpl in E. congruence. }
      subst h2. f_equal. apply IH; auto.
      intros k. pose proof (St k) as E. simpl in E. destruct (eqvb k h1); congruence.
Qed.

(* insertion sort *)
Fixpoint ins (e : A) (l : list A) : list A :=
  match l with [] => [e] | x :: r => if is_gt (cmp (nm e) (nm x)) then x :: ins e r else e :: l end.
Fixpoint isort (l : list A) : list A := match l with [] => [] | e :: r => ins e (isort r) end.
Lemma ins_in e l x : In x (ins e l) -> x = e \/ In x l.
Proof.
  induction l as [|y l IH]; simpl.
  - intros [->|[]]. left; reflexivity.
  - destruct (is_gt (cmp (nm e) (nm y))); simpl.
    + intros [->|H]; [right; left; reflexivity|]. apply IH in H. destruct H; [left|right; right]; assumption.
    + intros [->|H]; [left; reflexivity|right; exact H].
Qed.
Lemma ins_sorted e l : sorted l -> sorted (ins e l).
Proof.
  induction l as [|x r IH]; simpl; intros S; [auto|]. destruct S as [F S].
  destruct (cmp (nm e) (nm x)) eqn:E; simpl.
  - split; [|split; auto]. constructor; [unfold le, nle; congruence|].
    eapply Forall_impl; [|exact F]. intros z Hz. eapply le_trans; [|exact Hz]. unfold le, nle. congruence.
  - split; [|split; auto]. constructor; [unfold le, nle; congruence|].
    eapply Forall_impl; [|exact F]. intros z Hz. eapply le_trans; [|exact Hz]. unfold le, nle. congruence.
  - split; [|apply IH; exact S]. apply Forall_forall. intros z Hz. apply ins_in in Hz. destruct Hz as [->|Hz].
    + apply gt_nle. exact E.
    + rewrite Forall_forall in F. apply F. exact Hz.
Qed.
Lemma isort_sorted l : sorted (isort l).
Proof. induction l; simpl; [exact I|apply ins_sorted; assumption]. Qed.
Lemma ins_stable e l : stable (ins e l) (e :: l).
Proof.
  induction l as [|x r IH]; simpl; [apply stable_refl|].
  destruct (cmp (nm e) (nm x)) eqn:E; simpl; try apply stable_refl.
  intros k. simpl. rewrite (IH k). simpl.
  destruct (eqvb k e) eqn:Ee; destruct (eqvb k x) eqn:Ex; try reflexivity.
  exfalso. eapply not_both_eqv; eauto.
Qed.
Lemma isort_stable l : stable (isort l) l.
Proof.
  induction l as [|e r IH]; [apply stable_refl|]. simpl. eapply stable_trans; [apply ins_stable|].
  intros k. simpl. rewrite (IH k). reflexivity.
Qed.
Lemma ins_perm e l : Permutation (e :: l) (ins e l).
Proof.
  induction l as [|x r IH]; simpl; [apply Permutation_refl|].
  destruct (is_gt (cmp (nm e) (nm x))); [|apply Permutation_refl].
  eapply perm_trans; [apply perm_swap|]. apply perm_skip. exact IH.
Qed.
Lemma isort_perm l : Permutation l (isort l).
Proof. induction l as [|e r IH]; simpl; [constructor|]. eapply perm_trans; [apply perm_skip; exact IH|apply ins_perm]. Qed.
End Elems.

Lemma sorted_map {A B} (nA : A -> list N) (nB : B -> list N) (f : A -> B) l :
  (forall x, nB (f x) = nA x) -> sorted A nA l -> sorted B nB (map f l).
Proof.
  intros H. induction l as [|x r IH]; simpl; [auto|]. intros [F S]. split; [|apply IH; exact S].
  apply Forall_map. eapply Forall_impl; [|exact F]. intros y Hy. unfold le. rewrite !H. exact Hy.
Qed.

(* ---------------- the bubble sort of the model ---------------- *)
Definition ogt (a b : lobj) : bool := is_gt (cmp (oname a) (oname b)).
Notation ole := (le lobj oname).
Notation osorted := (sorted lobj oname).

Inductive bsw : list lobj -> list lobj -> Prop :=
| bsw_refl l : bsw l l
| bsw_swap pre a b post : ogt a b = true ->
    bsw (pre ++ a :: b :: post) (pre ++ fst (swap_payload a b) :: snd (swap_payload a b) :: post)
| bsw_trans l1 l2 l3 : bsw l1 l2 -> bsw l2 l3 -> bsw l1 l3.

Lemma bsw_cons x l l' : bsw l l' -> bsw (x :: l) (x :: l').
Proof.
  induction 1; [apply bsw_refl| |eapply bsw_trans; eauto].
  apply (bsw_swap (x :: pre)). assumption.
Qed.
Lemma bsw_app_r l l' tail : bsw l l' -> bsw (l ++ tail) (l' ++ tail).
Proof.
  induction 1; [apply bsw_refl| |eapply bsw_trans; eauto].
  rewrite <- !app_assoc. simpl. apply bsw_swap. assumption.
Qed.
Lemma bsw_ids l l' : bsw l l' -> map oid l = map oid l'.
Proof. induction 1; [reflexivity| |congruence]. rewrite !map_app. reflexivity. Qed.
Lemma bsw_length l l' : bsw l l' -> length l = length l'.
Proof. intros H. apply bsw_ids in H. rewrite <- (map_length oid l), H, map_length. reflexivity. Qed.
Lemma bsw_perm l l' : bsw l l' -> Permutation (map payload l) (map payload l').
Proof.
  induction 1; [apply Permutation_refl| |eapply perm_trans; eauto].
  rewrite !map_app. apply Permutation_app_head. simpl. apply perm_swap.
Qed.
Lemma is_gt_true c : is_gt c = true -> c = Gt.
Proof. destruct c; simpl; congruence. Qed.
Lemma bsw_stable l l' : bsw l l' -> stable ent fst (map payload l) (map payload l').
Proof.
  induction 1; [apply stable_refl| |eapply stable_trans; eauto].
  rewrite !map_app. simpl. apply stable_swap. simpl. apply is_gt_true. exact H.
Qed.
Lemma bsw_forall (Q : lobj -> Prop) l l' :
  (forall a b, Q a -> Q b -> Q (fst (swap_payload a b)) /\ Q (snd (swap_payload a b))) ->
  bsw l l' -> Forall Q l -> Forall Q l'.
Proof.
  intros HQ. induction 1; auto. rewrite !Forall_app. intros [F1 F2]. split; [exact F1|].
  inversion F2 as [|? ? Qa F3]; subst. inversion F3 as [|? ? Qb F4]; subst.
  destruct (HQ a b Qa Qb). constructor; [|constructor]; assumption.
Qed.
(* predicates that only look at the name are carried along *)
Lemma bsw_forall_name (Q : list N -> Prop) l l' : bsw l l' -> Forall (fun x => Q (oname x)) l -> Forall (fun x => Q (oname x)) l'.
Proof. apply bsw_forall. intros a b Qa Qb. simpl. split; assumption. Qed.

Lemma bpass_zero gt cur rest i n2 : bpass gt cur rest i 0 n2 = Ok (cur :: rest, n2).
Proof. destruct rest; reflexivity. Qed.
Lemma bpass_cons gt cur b r i todo n2 :
  bpass gt cur (b :: r) i (S todo) n2 =
  if gt cur b then bind (bpass gt (snd (swap_payload cur b)) r (S i) todo (S i)) (fun p => Ok (fst (swap_payload cur b) :: fst p, snd p))
  else bind (bpass gt b r (S i) todo n2) (fun p => Ok (cur :: fst p, snd p)).
Proof. reflexivity. Qed.

Lemma bpass_spec w : forall cur tail i n2,
  exists out m ow, bpass ogt cur (w ++ tail) i (length w) n2 = Ok (out, m) /\ out = ow ++ tail /\ bsw (cur :: w) ow /\
    ((m = n2 /\ ow = cur :: w /\ osorted (cur :: w)) \/
     (exists a1 x a2, ow = a1 ++ x :: a2 /\ a1 <> [] /\ m = (i + length a1)%nat /\
                      Forall (fun y => ole y x) a1 /\ osorted (x :: a2) /\ ole cur x)).
Proof.
  induction w as [|b w IH]; intros cur tail i n2.
  - simpl. rewrite bpass_zero. exists (cur :: tail), n2, [cur]. split; [reflexivity|]. split; [reflexivity|].
    split; [apply bsw_refl|]. left. simpl. auto.
  - simpl app. simpl length. rewrite bpass_cons.
    destruct (ogt cur b) eqn:G.
    + set (a' := fst (swap_payload cur b)). set (b' := snd (swap_payload cur b)).
      assert (Hb' : oname b' = oname cur) by reflexivity. assert (Ha' : oname a' = oname b) by reflexivity.
      assert (Lbc : nle (oname b) (oname cur)) by (apply gt_nle, is_gt_true; exact G).
      assert (Sw : bsw (cur :: b :: w) (a' :: b' :: w)) by (apply (bsw_swap [] cur b w); exact G).
      destruct (IH b' tail (S i) (S i)) as (out & m & ow & E & Eo & B & C). rewrite E. simpl.
      exists (a' :: out), m. destruct C as [(-> & -> & S)|(a1 & x & a2 & -> & Hne & -> & F & S & L)].
      * exists (a' :: b' :: w). split; [reflexivity|]. split; [rewrite Eo; reflexivity|]. split; [exact Sw|].
        right. exists [a'], b', w. split; [reflexivity|]. split; [discriminate|]. split; [simpl; lia|].
        split; [constructor; [|constructor]; unfold le; rewrite Ha', Hb'; exact Lbc|]. split; [exact S|].
        unfold le. rewrite Hb'. apply nle_refl.
      * exists (a' :: a1 ++ x :: a2). split; [reflexivity|]. split; [rewrite Eo; reflexivity|].
        split; [eapply bsw_trans; [exact Sw|apply bsw_cons; exact B]|].
        assert (Lcx : ole cur x) by (unfold le in *; rewrite Hb' in L; exact L).
        right. exists (a' :: a1), x, a2. split; [reflexivity|]. split; [discriminate|]. split; [simpl; lia|].
        split; [|split; [exact S|exact Lcx]].
        constructor; [|exact F]. unfold le in *. rewrite Ha'. eapply cmp_trans; [exact Lbc|exact Lcx].
    + assert (Lcb : ole cur b). { unfold le, nle. unfold ogt in G. destruct (cmp (oname cur) (oname b)); simpl in G; congruence. }
      destruct (IH b tail (S i) n2) as (out & m & ow & E & Eo & B & C). rewrite E. simpl.
      exists (cur :: out), m. destruct C as [(-> & -> & S)|(a1 & x & a2 & -> & Hne & -> & F & S & L)].
      * exists (cur :: b :: w). split; [reflexivity|]. split; [rewrite Eo; reflexivity|]. split; [apply bsw_refl|].
        left. split; [reflexivity|]. split; [reflexivity|]. apply sorted_cons_le; assumption.
      * exists (cur :: a1 ++ x :: a2). split; [reflexivity|]. split; [rewrite Eo; reflexivity|].
        split; [apply bsw_cons; exact B|].
        assert (Lcx : ole cur x) by (eapply le_trans; eauto).
        right. exists (cur :: a1), x, a2. split; [reflexivity|]. split; [discriminate|]. split; [simpl; lia|].
        split; [constructor; assumption|]. split; assumption.
Qed.

Lemma bsort_step f gt a r n1 : bsort (S f) gt (a :: r) (S n1) = bind (bpass gt a r 0 n1 0) (fun p => bsort f gt (fst p) (snd p)).
Proof. reflexivity. Qed.

Lemma bsort_spec f : forall l n a b, (n < f)%nat -> l = a ++ b -> length a = n -> osorted b ->
  Forall (fun x => Forall (ole x) b) a ->
  exists l', bsort f ogt l n = Ok l' /\ bsw l l' /\ osorted l'.
Proof.
  induction f as [|f IH]; intros l n a b Hn El La Sb Al; [lia|].
  destruct n as [|n1].
  - destruct a; [|discriminate]. simpl in El. subst l. exists b. simpl. split; [reflexivity|]. split; [apply bsw_refl|exact Sb].
  - destruct a as [|c w]; [discriminate|]. simpl in La. injection La as La. subst l. simpl app. rewrite bsort_step.
    destruct (bpass_spec w c b 0 0) as (out & m & ow & E & Eo & B & C). rewrite La in E. rewrite E. simpl bind. simpl fst. simpl snd.
    assert (Bl : bsw (c :: w ++ b) out) by (rewrite Eo; apply (bsw_app_r (c :: w) ow b); exact B).
    assert (Alo : Forall (fun x => Forall (ole x) b) ow).
    { revert Al. apply (bsw_forall_name (fun nmx => Forall (fun y => nle nmx (oname y)) b)). exact B. }
    destruct C as [(-> & -> & S)|(a1 & x & a2 & -> & Hne & -> & F & S & L)].
    + destruct (IH out 0%nat [] out) as (l' & R & B' & S'); try (simpl; auto; lia).
      * rewrite Eo. apply sorted_app; auto.
      * exists l'. split; [exact R|]. split; [eapply bsw_trans; eauto|exact S'].
    + apply Forall_app in Alo. destruct Alo as [Al1 Al2].
      assert (Hlen : (length a1 < f)%nat).
      { apply bsw_length in B. simpl in B. rewrite app_length in B. simpl in B. lia. }
      destruct (IH out (length a1) a1 ((x :: a2) ++ b)) as (l' & R & B' & S'); auto.
      * rewrite Eo, <- app_assoc. reflexivity.
      * apply sorted_app; auto.
      * rewrite Forall_forall in *. intros y Hy. apply Forall_app. split; [|apply Al1; exact Hy].
        constructor; [apply F; exact Hy|]. destruct S as [Fx _]. eapply Forall_impl; [|exact Fx].
        intros z Hz. eapply le_trans; [apply F; exact Hy|exact Hz].
      * exists l'. split; [exact R|]. split; [eapply bsw_trans; eauto|exact S'].
Qed.
End Sort.

(* ---------------- the table operation ---------------- *)
Lemma ssort_isort g l : ssort g l = isort (ncmp (casei g)) ent fst l.
Proof.
  induction l as [|e r IH]; [reflexivity|]. simpl. rewrite IH. generalize (isort (ncmp (casei g)) ent fst r). intros l.
  induction l as [|x l IHl]; [reflexivity|]. simpl. rewrite kle_ncmp, IHl. destruct (is_gt (ncmp (casei g) (fst e) (fst x))); reflexivity.
Qed.

Section SortOp.
Variable hash : list N -> N.
Variable bound : positive.
Notation inv := (inv hash bound).

Lemma swap_payok a b : payok hash a -> payok hash b -> payok hash (fst (swap_payload a b)) /\ payok hash (snd (swap_payload a b)).
Proof. unfold payok. simpl. tauto. Qed.

Theorem qsort_spec t : inv t ->
  exists t2, qsort t = Ok t2 /\ t2 = with_ents t (t_num t) (t_ents t2) /\ inv t2 /\
    let cmp := ncmp (t_casei t) in
    sorted cmp ent fst (abs t2) /\ stable cmp ent fst (abs t) (abs t2) /\ Permutation (abs t) (abs t2) /\
    map oid (t_ents t2) = map oid (t_ents t) /\
    abs t2 = ssort (cfg_of t) (abs t).
Proof.
  intros I. unfold qsort.
  assert (Hn : N.to_nat (t_num t) = length (t_ents t)) by (rewrite (inv_num _ _ _ I); apply Nat2N.id).
  rewrite Hn.
  destruct (bsort_spec (ncmp (t_casei t)) (ncmp_opp _) (ncmp_trans _) (S (length (t_ents t))) (t_ents t) (length (t_ents t)) (t_ents t) [])
    as (l' & R & B & S); auto.
  { rewrite app_nil_r. reflexivity. }
  { simpl. exact Logic.I. }
  { apply Forall_forall. intros x _. constructor. }
  change (obj_gt t) with (ogt (ncmp (t_casei t))). rewrite R. simpl.
  exists (with_ents t (t_num t) l'). split; [reflexivity|]. split; [reflexivity|].
  pose proof (bsw_ids _ _ _ B) as Hi. pose proof (bsw_length _ _ _ B) as Hl.
  assert (S2 : sorted (ncmp (t_casei t)) ent fst (map payload l')) by (apply (sorted_map _ oname fst payload); auto).
  assert (St : stable (ncmp (t_casei t)) ent fst (map payload (t_ents t)) (map payload l')) by (apply bsw_stable; [apply ncmp_opp|apply ncmp_trans|exact B]).
  split; [|split; [exact S2|split; [exact St|split; [apply (bsw_perm _ _ _ B)|split; [symmetry; exact Hi|]]]]].
  - destruct I as [I1 I2 I3 I4]. constructor; simpl.
    + rewrite I1, Hl. reflexivity.
    + unfold ids. rewrite <- Hi. exact I2.
    + (* ids stay where they are *)
      rewrite Forall_forall in *. intros o Ho. apply (in_map oid) in Ho. rewrite <- Hi in Ho. apply in_map_iff in Ho.
      destruct Ho as (o' & Eo & Ho'). rewrite <- Eo. apply I3. exact Ho'.
    + revert I4. apply (bsw_forall (ncmp (t_casei t)) (payok hash)); [apply swap_payok|exact B].
  - unfold abs. simpl. rewrite ssort_isort. simpl casei.
    apply (sorted_unique (ncmp (t_casei t)) (ncmp_opp _) ent fst); auto.
    + apply isort_sorted; [apply ncmp_opp|apply ncmp_trans].
    + intros k. rewrite <- (St k). symmetry. apply isort_stable; [apply ncmp_opp|apply ncmp_trans].
Qed.
End SortOp.
