(* C08: save() then load() reproduces the entries.  Format level: parse_file (render es) = es for entries whose names
   survive the text format and whose values are C strings.  Table level: a table reached by any history, saved and
   loaded into a fresh table with the same options, gives the same entries in the same order, and load returns their number.
   Also: the specification keeps the names of a unique table pairwise different. *)
From Coq Require Import NArith ZArith List Bool PArith Lia Permutation.
From QV.Base Require Import Res Bytes.
From QV.Enc Require Import EncModel EncProofs QueryProofs.
From QV.Seq Require Import ListtblModel ListtblSpec ListtblProofs ListtblSort ListtblRefine.
Import ListNotations.
Local Open Scope N_scope.

(* ---------------- trimming ---------------- *)
Definition noblank_ends (s : list N) : bool :=
  match s with [] => true | c :: _ => negb (isblank c) && negb (isblank (last s 0)) end.
Lemma rev_last (s : list N) : s <> [] -> rev s = last s 0 :: rev (removelast s).
Proof.
  intros H. pose proof (app_removelast_last 0 H) as E. set (a := removelast s) in *. set (b := last s 0) in *.
  clearbody a b. subst s. rewrite rev_app_distr. reflexivity.
Qed.
Lemma trim_ends s : noblank_ends s = true -> trim s = s.
Proof.
  destruct s as [|c r]; [reflexivity|]. unfold noblank_ends. rewrite andb_true_iff, !negb_true_iff. intros [H1 H2].
  unfold trim, trim_tail. cbn [trim_head]. rewrite H1. rewrite (rev_last (c :: r)) by discriminate. cbn [trim_head]. rewrite H2.
  rewrite <- (rev_last (c :: r)) by discriminate. apply rev_involutive.
Qed.
Lemma trim_head_snoc l c : isblank c = false -> exists l', trim_head (l ++ [c]) = l' ++ [c].
Proof.
  intros Hc. induction l as [|x l IH]; simpl.
  - rewrite Hc. exists []. reflexivity.
  - destruct (isblank x); [exact IH|]. exists (x :: l). reflexivity.
Qed.
Lemma trim_hash h : exists h', trim (35 :: h) = 35 :: h'.
Proof.
  unfold trim, trim_tail. cbn [trim_head]. change (isblank 35) with false. cbv iota. simpl rev.
  destruct (trim_head_snoc (rev h) 35 eq_refl) as (l' & E). rewrite E, rev_app_distr. simpl. eauto.
Qed.
Lemma cut0_app0 v r : cstr v -> cut0 (v ++ 0 :: r) = v.
Proof.
  induction v as [|c v IH]; intros H; [reflexivity|]. apply cstr_cons in H as [[_ Hc] Hv]. simpl.
  apply N.eqb_neq in Hc. rewrite Hc, IH; auto.
Qed.

(* ---------------- names and separators that survive the text format ---------------- *)
Definition sep_ok (sep : N) : Prop := isbyte sep = true /\ sep <> 0 /\ isblank sep = false.
Definition name_ok (sep : N) (n : list N) : Prop :=
  cstr n /\ Forall (fun ch => ch <> sep) n /\ Forall (fun ch => ch <> 10) n /\ noblank_ends n = true /\
  hd_error (n ++ [sep]) <> Some 35.
(* an entry with such a name whose value is a C string (any bytes but NUL, followed by the terminator) *)
Definition text_safe (sep : N) (e : ent) : Prop := name_ok sep (fst e) /\ exists v, cstr v /\ snd e = v ++ [0].

Definition ln (sep : N) (e : ent) : list N := fst e ++ sep :: url_encode (snd e).

Lemma enc_string v : url_encode (v ++ [0]) = url_encode v ++ [37; 48; 48].
Proof. unfold url_encode. rewrite flat_map_app. reflexivity. Qed.
Lemma bytes_string v : cstr v -> bytes (v ++ [0]).
Proof. intros H. apply bytes_app. split; [apply cstr_bytes; exact H|reflexivity]. Qed.
Lemma blank_10 : isblank 10 = true.
Proof. reflexivity. Qed.

Lemma ln_cstr sep e : sep_ok sep -> text_safe sep e -> cstr (ln sep e ++ [10]).
Proof.
  intros (S1 & S2 & S3) ((N1 & _) & v & Hv & Ed). unfold ln. rewrite Ed.
  apply cstr_app. split; [|reflexivity]. apply cstr_app. split; [exact N1|].
  apply cstr_cons. split; [split; assumption|]. apply url_encode_cstr. apply bytes_string. exact Hv.
Qed.
Lemma ln_no10 sep e : sep_ok sep -> text_safe sep e -> Forall (fun ch => ch <> 10) (ln sep e).
Proof.
  intros (S1 & S2 & S3) ((_ & _ & N3 & _) & v & Hv & Ed). unfold ln. rewrite Ed.
  apply Forall_app. split; [exact N3|]. constructor.
  - intros ->. rewrite blank_10 in S3. discriminate.
  - eapply Forall_impl; [|apply enc_no_blank; apply bytes_string; exact Hv]. intros ch Hb ->. rewrite blank_10 in Hb. discriminate.
Qed.

Lemma render_line_ok sep e : sep_ok sep -> text_safe sep e -> render_line sep true e = Some (ln sep e ++ [10]).
Proof.
  intros S T. unfold render_line, value_text.
  pose proof (ln_cstr sep e S T) as C. unfold ln in C. rewrite <- app_assoc in C. simpl in C.
  rewrite (cut0_cstr _ C). unfold ln. rewrite <- app_assoc. reflexivity.
Qed.
Lemma render_ok sep es : sep_ok sep -> Forall (text_safe sep) es ->
  render sep true es = Some (flat_map (fun e => ln sep e ++ [10]) es).
Proof.
  intros S. induction es as [|e r IH]; intros F; [reflexivity|]. inversion F; subst.
  cbn [render flat_map]. rewrite render_line_ok, IH by assumption. reflexivity.
Qed.
Lemma render_cstr sep es : sep_ok sep -> Forall (text_safe sep) es -> cstr (flat_map (fun e => ln sep e ++ [10]) es).
Proof.
  intros S. induction es as [|e r IH]; intros F; [reflexivity|]. inversion F; subst. cbn [flat_map].
  apply cstr_app. split; [apply ln_cstr; assumption|apply IH; assumption].
Qed.

Lemma lines_aux_line l : forall rest cur, Forall (fun ch => ch <> 10) l ->
  lines_aux (l ++ 10 :: rest) cur = (rev cur ++ l) :: lines_aux rest [].
Proof.
  induction l as [|c l IH]; intros rest cur F.
  - simpl. rewrite app_nil_r. reflexivity.
  - inversion F as [|? ? Hc Fl]; subst. simpl. apply N.eqb_neq in Hc. rewrite Hc. rewrite IH by exact Fl.
    simpl. rewrite <- app_assoc. reflexivity.
Qed.
Lemma lines_render sep es : sep_ok sep -> Forall (text_safe sep) es ->
  lines_aux (flat_map (fun e => ln sep e ++ [10]) es) [] = map (ln sep) es ++ [[]].
Proof.
  intros S. induction es as [|e r IH]; intros F; [reflexivity|]. inversion F; subst. cbn [flat_map map].
  rewrite <- app_assoc. simpl. rewrite lines_aux_line by (apply ln_no10; assumption). rewrite IH by assumption. reflexivity.
Qed.

Lemma last_snoc3 (x : list N) a b c : last (x ++ [a; b; c]) 0 = c.
Proof. change (x ++ [a; b; c]) with (x ++ [a; b] ++ [c]). rewrite app_assoc. apply last_last. Qed.

Lemma parse_line_ln sep e : sep_ok sep -> text_safe sep e -> parse_line sep true (ln sep e) = Some e.
Proof.
  intros (S1 & S2 & S3) ((N1 & N2 & N3 & N4 & N5) & v & Hv & Ed).
  destruct e as [name data]. simpl in *. subst data. unfold parse_line.
  assert (Hb : bytes (v ++ [0])) by (apply bytes_string; exact Hv).
  assert (Htrim : trim (ln sep (name, v ++ [0])) = ln sep (name, v ++ [0])).
  { apply trim_ends. unfold ln. simpl fst. simpl snd. rewrite enc_string.
    assert (Hl : last (name ++ sep :: url_encode v ++ [37; 48; 48]) 0 = 48).
    { change (name ++ sep :: url_encode v ++ [37; 48; 48]) with (name ++ (sep :: url_encode v) ++ [37; 48; 48]).
      rewrite app_assoc. apply last_snoc3. }
    unfold noblank_ends. rewrite Hl.
    destruct name as [|c r]; simpl.
    - rewrite S3. reflexivity.
    - unfold noblank_ends in N4. apply andb_true_iff in N4. destruct N4 as [N4 _]. rewrite N4. reflexivity. }
  rewrite Htrim. unfold ln at 1. simpl fst. simpl snd.
  destruct (name ++ sep :: url_encode (v ++ [0])) as [|c buf] eqn:Eb; [destruct name; discriminate|].
  assert (Hc : (c =? 35) = false).
  { apply N.eqb_neq. intros ->. apply N5. destruct name as [|c' r]; simpl in *; [injection Eb as <- _; reflexivity|injection Eb as <- _; reflexivity]. }
  rewrite Hc. rewrite <- Eb. rewrite (makeword_stop name sep _ N2).
  rewrite (trim_noblank _ (enc_no_blank _ Hb)). rewrite (trim_ends _ N4).
  rewrite (url_roundtrip _ Hb). change (v ++ [0]) with (v ++ 0 :: []). rewrite (cut0_app0 v [] Hv). reflexivity.
Qed.

Theorem parse_render sep es h : sep_ok sep -> Forall (text_safe sep) es -> cstr h -> Forall (fun ch => ch <> 10) h ->
  exists b, render sep true es = Some b /\ parse_file sep true (35 :: h ++ 10 :: b) = es.
Proof.
  intros S F Hh H10. exists (flat_map (fun e => ln sep e ++ [10]) es). split; [apply render_ok; assumption|].
  unfold parse_file.
  assert (C : cstr (35 :: h ++ 10 :: flat_map (fun e => ln sep e ++ [10]) es)).
  { apply cstr_cons. split; [split; [reflexivity|discriminate]|]. apply cstr_app. split; [exact Hh|].
    apply cstr_cons. split; [split; [reflexivity|discriminate]|]. apply render_cstr; assumption. }
  rewrite (cut0_cstr _ C).
  change (35 :: h ++ 10 :: flat_map (fun e => ln sep e ++ [10]) es) with ((35 :: h) ++ 10 :: flat_map (fun e => ln sep e ++ [10]) es).
  rewrite lines_aux_line by (constructor; [discriminate|exact H10]).
  rewrite lines_render by assumption. cbn [rev app flat_map].
  assert (Hhash : parse_line sep true (35 :: h) = None).
  { unfold parse_line. destruct (trim_hash h) as (h' & ->). reflexivity. }
  rewrite Hhash. cbn [app]. rewrite flat_map_app. cbn [flat_map]. change (parse_line sep true []) with (@None ent). rewrite app_nil_r.
  clear C. induction es as [|e r IH]; [reflexivity|]. inversion F; subst. cbn [map flat_map].
  rewrite parse_line_ln by assumption. cbn [app]. f_equal. apply IH. assumption.
Qed.

(* ---------------- unique tables keep pairwise different names (specification side) ---------------- *)
Fixpoint ndk (g : lcfg) (m : lmap) : Prop :=
  match m with [] => True | e :: r => Forall (fun x => keq g (fst e) (fst x) = false) r /\ ndk g r end.
Lemma list_eqb_sym a : forall b, list_eqb a b = list_eqb b a.
Proof. induction a as [|x a IH]; destruct b as [|y b]; simpl; try reflexivity. rewrite N.eqb_sym, IH. reflexivity. Qed.
Lemma keq_sym g a b : keq g a b = keq g b a.
Proof. apply list_eqb_sym. Qed.
Lemma ndk_perm g m m' : Permutation m m' -> ndk g m -> ndk g m'.
Proof.
  induction 1; simpl; auto.
  - intros [F N]. split; [|auto]. eapply Permutation_Forall; eauto.
  - intros [Fy [Fx N]]. inversion Fy as [|? ? Hyx Fy']; subst. split; [|split; assumption].
    constructor; [rewrite keq_sym; exact Hyx|exact Fx].
Qed.
Lemma ndk_filter g q m : ndk g m -> ndk g (filter q m).
Proof.
  induction m as [|e r IH]; simpl; [auto|]. intros [F N]. destruct (q e); simpl; [|auto]. split; [|auto].
  apply Forall_forall. intros x Hx. apply filter_In in Hx. rewrite Forall_forall in F. apply F. tauto.
Qed.
Lemma ndk_snoc g m e : ndk g m -> Forall (fun x => keq g (fst x) (fst e) = false) m -> ndk g (m ++ [e]).
Proof.
  induction m as [|x r IH]; simpl; intros N F; [auto|]. destruct N as [Fx N]. inversion F; subst.
  split; [apply Forall_app; split; [exact Fx|constructor; [assumption|constructor]]|apply IH; assumption].
Qed.
Lemma ndk_sput_at g top m nm d : unique g = true -> ndk g m -> ndk g (sput_at g top m nm d).
Proof.
  intros U N. unfold sput_at. rewrite U.
  assert (Nf := ndk_filter g (fun e => negb (keq g (fst e) nm)) m N).
  assert (Ff : Forall (fun x => keq g (fst x) nm = false) (filter (fun e => negb (keq g (fst e) nm)) m)).
  { apply Forall_forall. intros x Hx. apply filter_In in Hx. destruct Hx as [_ Hx]. apply negb_true_iff in Hx. exact Hx. }
  destruct top.
  - simpl. split; [|exact Nf]. eapply Forall_impl; [|exact Ff]. intros x Hx. simpl. rewrite keq_sym. exact Hx.
  - apply ndk_snoc; assumption.
Qed.
Lemma swalk_sub {A} (p : A -> bool) v : forall n rm x,
  In x (fst (fst (fst (swalk p v n rm)))) -> In x v.
Proof.
  induction v as [|e r IH]; intros n rm x; simpl; [tauto|].
  destruct n as [|n']; [simpl; tauto|].
  destruct (p e).
  - specialize (IH n' (tl rm) x). destruct (swalk p r n' (tl rm)) as [[[v' ys] en] rs]. destruct (hd false rm); simpl in *; tauto.
  - specialize (IH (S n') rm x). destruct (swalk p r (S n') rm) as [[[v' ys] en] rs]. simpl in *. tauto.
Qed.
Lemma swalk_ndk g p v : forall n rm, ndk g v -> ndk g (fst (fst (fst (swalk p v n rm)))).
Proof.
  induction v as [|e r IH]; intros n rm N; simpl; [auto|].
  destruct n as [|n']; [exact N|]. destruct N as [F N].
  assert (Sub : forall n rm, Forall (fun x => keq g (fst e) (fst x) = false) (fst (fst (fst (swalk p r n rm))))).
  { intros n0 rm0. apply Forall_forall. intros x Hx. apply swalk_sub in Hx. rewrite Forall_forall in F. apply F. exact Hx. }
  destruct (p e).
  - specialize (IH n' (tl rm) N). specialize (Sub n' (tl rm)). destruct (swalk p r n' (tl rm)) as [[[v' ys] en] rs].
    destruct (hd false rm); simpl in *; auto.
  - specialize (IH (S n') rm N). specialize (Sub (S n') rm). destruct (swalk p r (S n') rm) as [[[v' ys] en] rs]. simpl in *. auto.
Qed.
Lemma ndk_lookup g m : ndk g m -> ndk g (lookup_order g m).
Proof. unfold lookup_order. destruct (lookupfwd g); [auto|]. apply ndk_perm. apply Permutation_rev. Qed.

Lemma sstep_ndk g m o : unique g = true -> ndk g m -> ndk g (fst (lt_sstep g m o)).
Proof.
  intros U N. destruct o as [name d|name s|nm z|name|nm|name|name|name n rm| | | |sep enc|content sep dec| ]; simpl; auto.
  - destruct name; [|exact N]. destruct d; [exact N|]. apply ndk_sput_at; assumption.
  - destruct name; [|exact N]. destruct s; [|exact N]. apply ndk_sput_at; assumption.
  - apply ndk_sput_at; assumption.
  - destruct name; exact N.
  - destruct name; [|exact N]. simpl. apply ndk_filter. exact N.
  - pose proof (swalk_ndk g (matching g name) (lookup_order g m) n rm (ndk_lookup g m N)) as H.
    destruct (swalk (matching g name) (lookup_order g m) n rm) as [[[v' ys] en] rs]. simpl in *. apply ndk_lookup. exact H.
  - rewrite ssort_isort. eapply ndk_perm; [apply isort_perm|exact N].
  - generalize (parse_file sep dec content). intros ps. revert m N. induction ps as [|p ps IH]; intros m N; [exact N|].
    simpl. apply IH. exact (ndk_sput_at g false m (fst p) (snd p) U N).
Qed.
Lemma srun_ndk g ops : forall m, unique g = true -> ndk g m -> ndk g (fst (lt_srun g m ops)).
Proof.
  induction ops as [|o r IH]; intros m U N; [exact N|]. simpl.
  pose proof (sstep_ndk g m o U N) as N1. destruct (lt_sstep g m o) as [m1 ob]. simpl in N1.
  specialize (IH m1 U N1). destruct (lt_srun g m1 r) as [m2 obs]. exact IH.
Qed.

(* loading entries with pairwise different names (or into a table that is not unique) appends them *)
Lemma fold_put_id g es : forall acc, (unique g = true -> ndk g (acc ++ es)) ->
  fold_left (fun a p => sput_at g false a (fst p) (snd p)) es acc = acc ++ es.
Proof.
  induction es as [|e r IH]; intros acc H; [rewrite app_nil_r; reflexivity|].
  cbn [fold_left]. assert (E : sput_at g false acc (fst e) (snd e) = acc ++ [e]).
  { unfold sput_at. destruct e as [nm d]. simpl. destruct (unique g) eqn:U; [|reflexivity].
    specialize (H eq_refl). f_equal. clear IH.
    induction acc as [|x acc IHa]; [reflexivity|]. simpl in H. destruct H as [F N]. simpl.
    rewrite Forall_app in F. destruct F as [_ F]. inversion F as [|? ? Hx _]; subst. simpl in Hx. rewrite Hx. simpl.
    f_equal. apply IHa. exact N. }
  rewrite E. rewrite IH; [rewrite <- app_assoc; reflexivity|]. rewrite <- app_assoc. exact H.
Qed.
Lemma fold_put_multi g ps : unique g = false -> forall acc,
  fold_left (fun a p => sput_at g false a (fst p) (snd p)) ps acc = acc ++ ps.
Proof. intros U acc. apply fold_put_id. rewrite U. discriminate. Qed.

(* ---------------- table level ---------------- *)
Section Table.
Variable hash : list N -> N.

Theorem save_load u ci tp fw ops t obs sep h :
  lt_run hash (lt_init u ci tp fw) ops = Ok (t, obs) ->
  sep_ok sep -> Forall (text_safe sep) (abs t) -> cstr h -> Forall (fun ch => ch <> 10) h ->
  exists b t2,
    lt_step hash t (LSave sep true) = Ok (t, LSaved b) /\
    lt_step hash (lt_init u ci tp fw) (LLoad (35 :: h ++ 10 :: b) sep true) = Ok (t2, LInt (Z.of_nat (length (abs t)))) /\
    abs t2 = abs t.
Proof.
  intros R S F Hh H10.
  destruct (refines_from_init hash u ci tp fw ops) as (t' & obs' & R' & SR & C & I).
  rewrite R in R'. injection R' as <- <-.
  destruct (parse_render sep (abs t) h S F Hh H10) as (b & Rb & Pb).
  exists b.
  destruct (step_refines hash (lt_init u ci tp fw) (LLoad (35 :: h ++ 10 :: b) sep true) (inv_init hash u ci tp fw))
    as (t2 & ob & St & SS & C2 & I2).
  exists t2. split; [|split].
  - simpl. unfold qsave. fold (abs t). rewrite Rb. reflexivity.
  - rewrite St. simpl in SS. rewrite Pb in SS. injection SS as _ <-. reflexivity.
  - simpl in SS. rewrite Pb in SS. injection SS as <- _.
    change (fold_left (fun acc p => sput_at (mkCfg u ci tp fw) false acc (fst p) (snd p)) (abs t) [] = abs t).
    rewrite fold_put_id; [reflexivity|]. intros U. simpl.
    pose proof (srun_ndk (mkCfg u ci tp fw) ops [] U Logic.I) as N. rewrite SR in N. exact N.
Qed.

Theorem load_count u ci tp fw ops t obs content sep dec :
  lt_run hash (lt_init u ci tp fw) ops = Ok (t, obs) ->
  let ps := parse_file sep dec content in
  exists t2, lt_step hash t (LLoad content sep dec) = Ok (t2, LInt (Z.of_nat (length ps))) /\
             t_num t2 = N.of_nat (length (abs t2)) /\
             (u = false -> abs t2 = abs t ++ ps).
Proof.
  intros R ps.
  destruct (refines_from_init hash u ci tp fw ops) as (t' & obs' & R' & SR & C & I).
  rewrite R in R'. injection R' as <- <-.
  destruct (qload_spec hash t content sep dec I) as (t2 & L & A & C2 & I2). fold ps in L, A.
  exists t2. simpl. rewrite L. simpl. split; [reflexivity|]. split.
  - rewrite abs_len. apply (inv_num _ _ _ I2).
  - intros ->. rewrite A. apply fold_put_multi. rewrite C. reflexivity.
Qed.
End Table.

(* ---------------- the statements exported to Properties_C08.v ---------------- *)
Definition sorted_by_name (ci : bool) (m : lmap) : Prop := sorted (ncmp ci) ent fst m.
Definition stable_wrt (ci : bool) (m m' : lmap) : Prop := stable (ncmp ci) ent fst m m'.

Lemma refines_stmt (hash : list N -> N) (u ci tp fw : bool) (ops : list lop) :
  exists t obs, lt_run hash (lt_init u ci tp fw) ops = Ok (t, obs) /\
                lt_srun (mkCfg u ci tp fw) [] ops = (abs t, obs) /\
                t_num t = N.of_nat (length (abs t)).
Proof.
  destruct (refines_from_init hash u ci tp fw ops) as (t & obs & R & SR & C & I).
  exists t, obs. split; [exact R|]. split; [exact SR|]. rewrite abs_len. apply (inv_num _ _ _ I).
Qed.

Lemma sort_stmt (hash : list N -> N) (u ci tp fw : bool) (ops : list lop) t obs :
  lt_run hash (lt_init u ci tp fw) ops = Ok (t, obs) ->
  exists t2, lt_step hash t LSort = Ok (t2, LUnit) /\
    sorted_by_name ci (abs t2) /\ stable_wrt ci (abs t) (abs t2) /\ Permutation (abs t) (abs t2) /\
    abs t2 = ssort (mkCfg u ci tp fw) (abs t).
Proof.
  intros R. destruct (refines_from_init hash u ci tp fw ops) as (t' & obs' & R' & SR & C & I).
  rewrite R in R'. injection R' as <- <-.
  destruct (qsort_spec hash _ t I) as (t2 & Q & E & I2 & S1 & S2 & S3 & _ & A).
  destruct (cfg_fields t (lt_init u ci tp fw)) as (_ & Ci & _ & _); [symmetry; exact C|]. simpl in Ci. subst ci.
  exists t2. simpl. rewrite Q. simpl. split; [reflexivity|]. split; [exact S1|]. split; [exact S2|]. split; [exact S3|].
  rewrite A, C. reflexivity.
Qed.
