(* C08: every operation of the list-table model refines the ordered-multimap specification; history induction. *)
From Coq Require Import NArith ZArith List Bool PArith Lia.
From QV.Base Require Import Res Bytes.
From QV.Enc Require Import EncModel.
From QV.Seq Require Import ListtblModel ListtblSpec ListtblProofs ListtblSort.
Import ListNotations.

Lemma lookup_len g (m : lmap) : length (lookup_order g m) = length m.
Proof. unfold lookup_order. destruct (lookupfwd g); [reflexivity|apply rev_length]. Qed.
Lemma lookup_filter g (q : ent -> bool) (m : lmap) : lookup_order g (filter q (lookup_order g m)) = filter q m.
Proof. unfold lookup_order. destruct (lookupfwd g); [reflexivity|]. rewrite filter_rev, rev_involutive. reflexivity. Qed.
Lemma lookup_filter_len g (q : ent -> bool) (m : lmap) : length (filter q (lookup_order g m)) = length (filter q m).
Proof. unfold lookup_order. destruct (lookupfwd g); [reflexivity|]. rewrite filter_rev, rev_length. reflexivity. Qed.
Lemma abs_len t : length (abs t) = length (t_ents t).
Proof. apply map_length. Qed.

Lemma parse_file_nonempty sep dec c : Forall (fun p : ent => snd p <> []) (parse_file sep dec c).
Proof.
  unfold parse_file. generalize (lines_aux (cut0 c) []). intros ls. induction ls as [|ln ls IH]; simpl; [constructor|].
  apply Forall_app. split; [|exact IH].
  unfold parse_line. destruct (trim ln) as [|ch buf]; [constructor|].
  destruct (ch =? 35)%N; [constructor|]. destruct (makeword (ch :: buf) sep) as [n0 d0].
  constructor; [|constructor]. simpl. intros H. apply app_eq_nil in H. destruct H as [_ H]. discriminate.
Qed.

Section Ops.
Variable hash : list N -> N.

Lemma qremove_spec b t nm : inv hash b t ->
  exists t2, qremove hash t (Some nm) = Ok (t2, snd (sremove (cfg_of t) (abs t) nm)) /\
    abs t2 = fst (sremove (cfg_of t) (abs t) nm) /\ cfg_of t2 = cfg_of t /\ t_nextid t2 = t_nextid t /\ inv hash b t2.
Proof.
  intros I. unfold qremove.
  destruct (walk0_spec hash b (loop_fuel t) t (Some nm) (repeat true (loop_fuel t)) I) as (t2 & ys & en & rs & v' & W & S & A & C & X & I2).
  rewrite W.
  rewrite swalk_all_rm in S by (rewrite lookup_len, abs_len; unfold loop_fuel; lia).
  injection S as E1 E2 E3 E4. subst v' ys en rs. simpl.
  exists t2. split; [|split; [|split; [|split]]]; auto.
  - rewrite lookup_filter_len. reflexivity.
  - rewrite A. rewrite lookup_filter. reflexivity.
Qed.

Lemma qgetmulti_spec b t name : inv hash b t -> qgetmulti hash t name = Ok (sgetmulti (cfg_of t) (abs t) name).
Proof.
  intros I. unfold qgetmulti.
  destruct (walk0_spec hash b (loop_fuel t) t name [] I) as (t2 & ys & en & rs & v' & W & S & A & C & X & I2).
  rewrite W.
  rewrite swalk_no_rm in S by (rewrite lookup_len, abs_len; unfold loop_fuel; lia).
  injection S as E1 E2 E3 E4. subst v' ys en rs. reflexivity.
Qed.

Lemma view_nil t : t_ents t = [] -> view t = [].
Proof. intros E. unfold view. rewrite E. destruct (t_fwd t); reflexivity. Qed.

Lemma qget_spec b t nm : inv hash b t -> qget hash t (Some nm) = sget (cfg_of t) (abs t) nm.
Proof.
  intros I. unfold qget, findobj, sget. rewrite lookup_order_abs, find_map. rewrite (inv_num _ _ _ I).
  destruct (t_ents t) as [|e0 es] eqn:E.
  - rewrite (view_nil _ E). reflexivity.
  - replace (N.of_nat (length (e0 :: es)) =? 0)%N with false by (symmetry; apply N.eqb_neq; simpl; lia).
    rewrite (find_ext _ (fun x => keq (cfg_of t) (fst (payload x)) nm)).
    + destruct (find (fun x => keq (cfg_of t) (fst (payload x)) nm) (view t)); reflexivity.
    + intros x Hx. apply (pm_matching_all hash t (Some nm) (view t)); [apply (view_payok hash b); exact I|exact Hx].
Qed.

Lemma cfg_fields t t2 : cfg_of t2 = cfg_of t ->
  t_unique t2 = t_unique t /\ t_casei t2 = t_casei t /\ t_top t2 = t_top t /\ t_fwd t2 = t_fwd t.
Proof. unfold cfg_of. intros H. injection H. auto. Qed.

Lemma qput_spec t nm d : inv hash (t_nextid t) t -> d <> [] ->
  exists t2, qput hash t (Some nm) d = Ok (t2, true) /\ abs t2 = sput (cfg_of t) (abs t) nm d /\
             cfg_of t2 = cfg_of t /\ inv hash (t_nextid t2) t2.
Proof.
  intros I Hd. destruct d as [|d0 d']; [contradiction|]. unfold qput.
  set (id := t_nextid t) in *.
  set (t0 := mkTbl (t_unique t) (t_casei t) (t_top t) (t_fwd t) (t_num t) (t_ents t) (Pos.succ id)).
  assert (I0 : inv hash id t0) by (destruct I as [I1 I2 I3 I4]; constructor; assumption).
  assert (H1 : exists t1, (if t_unique t0 then bind (qremove hash t0 (Some nm)) (fun r => Ok (fst r)) else Ok t0) = Ok t1 /\
             abs t1 = (if t_unique t then filter (fun e => negb (keq (cfg_of t) (fst e) nm)) (abs t) else abs t) /\
             cfg_of t1 = cfg_of t /\ t_nextid t1 = Pos.succ id /\ inv hash id t1).
  { assert (X0 : t_nextid t0 = Pos.succ id) by reflexivity.
    assert (C0 : cfg_of t0 = cfg_of t) by reflexivity. assert (A0 : abs t0 = abs t) by reflexivity.
    assert (U0 : t_unique t0 = t_unique t) by reflexivity. rewrite U0. clearbody t0.
    destruct (t_unique t) eqn:U.
    - destruct (qremove_spec id t0 nm I0) as (t1 & R & A & C & X & I1). rewrite R. simpl.
      rewrite C0, A0 in A. rewrite C0 in C. rewrite X0 in X.
      exists t1. split; [reflexivity|]. split; [exact A|]. split; [exact C|]. split; [exact X|exact I1].
    - exists t0. split; [reflexivity|]. split; [exact A0|]. split; [exact C0|]. split; [exact X0|exact I0]. }
  destruct H1 as (t1 & E1 & A1 & C1 & X1 & I1). rewrite E1. simpl bind.
  destruct (cfg_fields _ _ C1) as (U1 & Ci1 & T1 & F1).
  set (o := mkObj id (hash nm) nm (d0 :: d')).
  set (l := if (t_num t1 =? 0)%N then [o] else if t_top t1 then o :: t_ents t1 else t_ents t1 ++ [o]).
  assert (Hl : l = if t_top t1 then o :: t_ents t1 else t_ents t1 ++ [o]).
  { unfold l. rewrite (inv_num _ _ _ I1). destruct (t_ents t1) as [|e es]; simpl.
    - destruct (t_top t1); reflexivity.
    - reflexivity. }
  exists (with_ents t1 (t_num t1 + 1) l). split; [reflexivity|]. split; [|split].
  - unfold abs at 1. simpl t_ents. rewrite Hl. unfold sput, sput_at. simpl unique. simpl inserttop. rewrite <- T1.
    destruct (t_top t1); [simpl; f_equal; exact A1|]. rewrite map_app. f_equal. exact A1.
  - rewrite cfg_with_ents. exact C1.
  - destruct I1 as [J1 J2 J3 J4]. simpl t_nextid. rewrite X1.
    assert (Hfresh : ~ In id (ids (t_ents t1))).
    { intros Hin. unfold ids in Hin. apply in_map_iff in Hin. destruct Hin as (x & Ex & Hx).
      rewrite Forall_forall in J3. specialize (J3 x Hx). rewrite Ex in J3. lia. }
    assert (Po : payok hash o) by (split; [reflexivity|discriminate]).
    constructor; simpl t_ents; simpl t_num; rewrite Hl.
    + rewrite J1. destruct (t_top t1); [simpl|rewrite app_length; simpl]; lia.
    + destruct (t_top t1).
      * simpl. constructor; assumption.
      * rewrite ids_app. simpl. apply NoDup_rev in J2. rewrite <- (rev_involutive (ids (t_ents t1) ++ [id])).
        apply NoDup_rev. rewrite rev_app_distr. simpl. constructor; [|exact J2]. rewrite <- in_rev. exact Hfresh.
    + assert (Lo : (oid o < Pos.succ id)%positive) by (simpl; lia).
      assert (Lr : Forall (fun x => (oid x < Pos.succ id)%positive) (t_ents t1)).
      { eapply Forall_impl; [|exact J3]. intros x Hx. simpl in Hx. lia. }
      destruct (t_top t1); [constructor; assumption|]. apply Forall_app. split; [exact Lr|constructor; [exact Lo|constructor]].
    + destruct (t_top t1); [constructor; assumption|]. apply Forall_app. split; [exact J4|constructor; [exact Po|constructor]].
Qed.

Lemma load_loop_cons t nm d r cnt :
  load_loop hash t ((nm, d) :: r) cnt =
  bind (qput hash t (Some nm) d) (fun q => load_loop hash (fst q) r (if snd q then (cnt + 1)%Z else cnt)).
Proof. reflexivity. Qed.
Lemma load_loop_spec ps : forall t cnt, inv hash (t_nextid t) t -> Forall (fun p : ent => snd p <> []) ps ->
  exists t2, load_loop hash t ps cnt = Ok (t2, (cnt + Z.of_nat (length ps))%Z) /\
    abs t2 = fold_left (fun acc p => sput (cfg_of t) acc (fst p) (snd p)) ps (abs t) /\
    cfg_of t2 = cfg_of t /\ inv hash (t_nextid t2) t2.
Proof.
  induction ps as [|[nm d] r IH]; intros t cnt I F.
  - exists t. simpl. rewrite Z.add_0_r. auto.
  - inversion F as [|? ? Hd Fr]; subst. simpl in Hd.
    destruct (qput_spec t nm d I Hd) as (t1 & P & A & C & I1).
    rewrite load_loop_cons, P. simpl bind. simpl fst. simpl snd. cbv iota.
    destruct (IH t1 (cnt + 1)%Z I1 Fr) as (t2 & L & A2 & C2 & I2).
    exists t2. split; [rewrite L; f_equal; f_equal; simpl length; lia|].
    split; [|split; [congruence|exact I2]].
    simpl fold_left. rewrite A2, A, C. reflexivity.
Qed.

Lemma qload_spec t content sep dec : inv hash (t_nextid t) t ->
  let ps := parse_file sep dec content in
  exists t2, qload hash t content sep dec = Ok (t2, Z.of_nat (length ps)) /\
    abs t2 = fold_left (fun acc p => sput_at (cfg_of t) false acc (fst p) (snd p)) ps (abs t) /\
    cfg_of t2 = cfg_of t /\ inv hash (t_nextid t2) t2.
Proof.
  intros I ps. unfold qload. fold ps.
  assert (I' : inv hash (t_nextid (with_top t false)) (with_top t false)) by (destruct I; constructor; assumption).
  destruct (load_loop_spec ps (with_top t false) 0%Z I' (parse_file_nonempty sep dec content)) as (t2 & L & A & C & I2).
  rewrite L. simpl bind. exists (with_top t2 (t_top t)). split; [reflexivity|]. split; [|split].
  - exact A.
  - destruct (cfg_fields _ _ C) as (U & Ci & T & F). unfold cfg_of. simpl. simpl in U, Ci, F. rewrite U, Ci, F. reflexivity.
  - destruct I2; constructor; assumption.
Qed.

Theorem step_refines t o : inv hash (t_nextid t) t ->
  exists t2 ob, lt_step hash t o = Ok (t2, ob) /\ lt_sstep (cfg_of t) (abs t) o = (abs t2, ob) /\
                cfg_of t2 = cfg_of t /\ inv hash (t_nextid t2) t2.
Proof.
  intros I. destruct o as [name d|name s|nm z|name|nm|name|name|name n rm| | | |sep enc|content sep dec| ]; simpl lt_step; simpl lt_sstep.
  - (* put *)
    destruct name as [nm|]; [|exists t, (LBool false); auto].
    destruct d as [|d0 d']; [exists t, (LBool false); auto|].
    destruct (qput_spec t nm (d0 :: d') I) as (t2 & P & A & C & I2); [discriminate|].
    rewrite P. simpl. exists t2, (LBool true). rewrite A. auto.
  - (* putstr *)
    unfold qputstr. destruct name as [nm|]; [|exists t, (LBool false); destruct s; auto].
    destruct s as [s|]; [|exists t, (LBool false); auto].
    destruct (qput_spec t nm (s ++ [0%N]) I) as (t2 & P & A & C & I2); [intros H; apply app_eq_nil in H; destruct H; discriminate|].
    rewrite P. simpl. exists t2, (LBool true). rewrite A. auto.
  - (* putint *)
    unfold qputint, qputstr.
    destruct (qput_spec t nm (dec_i64 z ++ [0%N]) I) as (t2 & P & A & C & I2); [intros H; apply app_eq_nil in H; destruct H; discriminate|].
    rewrite P. simpl. exists t2, (LBool true). rewrite A. auto.
  - (* get *)
    destruct name as [nm|]; [|exists t, (LVal None); auto].
    exists t, (LVal (qget hash t (Some nm))). rewrite (qget_spec _ _ _ I). auto.
  - (* getint *)
    unfold qgetint. rewrite (qget_spec _ _ _ I). exists t. eexists. split; [reflexivity|]. auto.
  - (* getmulti *)
    rewrite (qgetmulti_spec _ _ _ I). simpl. exists t. eexists. split; [reflexivity|]. auto.
  - (* remove *)
    destruct name as [nm|]; [|exists t, (LNum 0); auto].
    destruct (qremove_spec _ t nm I) as (t2 & R & A & C & X & I2). rewrite R. simpl.
    exists t2. eexists. split; [reflexivity|]. rewrite A, X. auto.
  - (* walk *)
    destruct (walk0_spec hash _ n t name rm I) as (t2 & ys & en & rs & v' & W & S & A & C & X & I2).
    rewrite W, S. simpl. exists t2. eexists. split; [reflexivity|]. rewrite A, X. auto.
  - (* size *)
    exists t. eexists. split; [reflexivity|]. rewrite abs_len, (inv_num _ _ _ I). auto.
  - (* sort *)
    destruct (qsort_spec hash _ t I) as (t2 & Q & E & I2 & _ & _ & _ & _ & A). rewrite Q. simpl.
    exists t2. eexists. split; [reflexivity|]. rewrite A. split; [reflexivity|].
    rewrite E. split; [reflexivity|]. simpl t_nextid. rewrite <- E. exact I2.
  - (* clear *)
    exists (qclear t). eexists. split; [reflexivity|]. split; [reflexivity|]. split; [reflexivity|].
    constructor; simpl; constructor.
  - (* save *)
    exists t. eexists. split; [reflexivity|]. auto.
  - (* load *)
    destruct (qload_spec t content sep dec I) as (t2 & L & A & C & I2). rewrite L. simpl.
    exists t2. eexists. split; [reflexivity|]. rewrite A. auto.
  - exists t. eexists. split; [reflexivity|]. auto.
Qed.

Theorem run_refines ops : forall t, inv hash (t_nextid t) t ->
  exists t2 obs, lt_run hash t ops = Ok (t2, obs) /\ lt_srun (cfg_of t) (abs t) ops = (abs t2, obs) /\
                 cfg_of t2 = cfg_of t /\ inv hash (t_nextid t2) t2.
Proof.
  induction ops as [|o r IH]; intros t I.
  - exists t, []. simpl. auto.
  - destruct (step_refines t o I) as (t1 & ob & S & SS & C & I1).
    destruct (IH t1 I1) as (t2 & obs & R & SR & C2 & I2).
    exists t2, (ob :: obs). simpl. rewrite S. simpl. rewrite R. simpl. rewrite SS. rewrite <- C, SR.
    split; [reflexivity|]. split; [reflexivity|]. split; [congruence|exact I2].
Qed.

Lemma inv_init u ci tp fw : inv hash (t_nextid (lt_init u ci tp fw)) (lt_init u ci tp fw).
Proof. constructor; simpl; constructor. Qed.

Theorem refines_from_init u ci tp fw ops :
  exists t obs, lt_run hash (lt_init u ci tp fw) ops = Ok (t, obs) /\
                lt_srun (mkCfg u ci tp fw) [] ops = (abs t, obs) /\
                cfg_of t = mkCfg u ci tp fw /\ inv hash (t_nextid t) t.
Proof. exact (run_refines ops (lt_init u ci tp fw) (inv_init u ci tp fw)). Qed.
End Ops.
