(* C09: the qlist model refines the ideal sequence.  Index arithmetic (C int / size_t conversions), the nearest-end
   walk, identity-based unlink/insert, the stored counters as an invariant, one-step and whole-history refinement,
   refusals without effect. *)
From Coq Require Import NArith ZArith List Bool Lia Permutation.
From QV.Base Require Import Res.
From QV.Seq Require Import ListModel ListSpec.
Import ListNotations. Import QL QLS.
Local Open Scope Z_scope.

Definition int (z : Z) : Prop := - 2^31 <= z < 2^31.

Lemma u64_small z : 0 <= z < 2^64 -> u64 z = z.
Proof. intros. unfold u64. apply Z.mod_small. lia. Qed.
Lemma u64_neg z : - 2^64 <= z < 0 -> u64 z = 2^64 + z.
Proof. intros. unfold u64. symmetry. apply (Z.mod_unique _ _ (-1)); lia. Qed.
Lemma u64_wrap z : 2^64 <= z < 2 * 2^64 -> u64 z = z - 2^64.
Proof. intros. unfold u64. symmetry. apply (Z.mod_unique _ _ 1); lia. Qed.
Lemma i32_small z : - 2^31 <= z < 2^31 -> i32 z = z.
Proof. intros. unfold i32. rewrite Z.mod_small by lia. lia. Qed.
Lemma i32_high z : 2^64 - 2^31 <= z < 2^64 -> i32 z = z - 2^64.
Proof. intros. unfold i32. assert ((z + 2^31) mod 2^32 = z - 2^64 + 2^31).
  { symmetry. apply (Z.mod_unique _ _ (2^32)); lia. } lia. Qed.

Ltac bd := repeat match goal with
  | |- context[?a <? ?b] => destruct (Z.ltb_spec a b)
  | |- context[?a <=? ?b] => destruct (Z.leb_spec a b)
  | |- context[?a =? ?b] => destruct (Z.eqb_spec a b) end; cbn [andb orb negb]; try lia.

Lemma norm_get_ok n index : 0 <= n < 2^31 -> int index ->
  let idx := norm_get n index in
  (acc_pos n index = None /\ (n <=? u64 idx) = true) \/
  (exists p, 0 <= p < n /\ idx = p /\ acc_pos n index = Some (Z.to_nat p) /\ (n <=? u64 idx) = false /\ u64 idx = p).
Proof.
  intros Hn Hi. unfold int in Hi. unfold norm_get, acc_pos. destruct (Z.ltb_spec index 0) as [E|E].
  - rewrite (u64_neg index) by lia.
    destruct (Z_lt_le_dec (n + index) 0).
    + left. rewrite (u64_small (n + (2^64 + index))) by lia. rewrite i32_high by lia.
      replace (n + (2^64 + index) - 2^64) with (n + index) by lia.
      rewrite (u64_neg (n + index)) by lia. split; bd; reflexivity.
    + right. exists (n + index). rewrite (u64_wrap (n + (2^64 + index))) by lia.
      replace (n + (2 ^ 64 + index) - 2 ^ 64) with (n + index) by lia.
      rewrite i32_small by lia. rewrite (u64_small (n + index)) by lia.
      split; [lia|]. split; [reflexivity|]. split; [|split]; bd; reflexivity.
  - rewrite (u64_small index) by lia. destruct (Z_lt_le_dec index n).
    + right. exists index. split; [lia|]. split; [reflexivity|]. split; [|split]; bd; reflexivity.
    + left. split; bd; reflexivity.
Qed.

Lemma norm_add_ok n index : 0 <= n < 2^31 -> int index ->
  let idx := norm_add n index in
  (ins_pos n index = None /\ ((idx <? 0) || (n <? u64 idx)) = true) \/
  (exists p, 0 <= p <= n /\ idx = p /\ ins_pos n index = Some (Z.to_nat p) /\ ((idx <? 0) || (n <? u64 idx)) = false /\ u64 idx = p).
Proof.
  intros Hn Hi. unfold int in Hi. unfold norm_add, ins_pos. destruct (Z.ltb_spec index 0) as [E|E].
  - rewrite (u64_neg index) by lia.
    destruct (Z_lt_le_dec (n + index + 1) 0).
    + left. rewrite (u64_small (n + (2^64 + index))) by lia.
      rewrite (u64_small (n + (2^64 + index) + 1)) by lia. rewrite i32_high by lia.
      replace (n + (2^64 + index) + 1 - 2^64) with (n + index + 1) by lia.
      rewrite (u64_neg (n + index + 1)) by lia. split; bd; reflexivity.
    + right. exists (n + index + 1).
      assert (H: u64 (u64 (n + (2^64 + index)) + 1) = n + index + 1).
      { destruct (Z.eq_dec (n + index + 1) 0) as [E0|E0].
        - rewrite (u64_small (n + (2^64 + index))) by lia. rewrite u64_wrap by lia. lia.
        - rewrite (u64_wrap (n + (2^64 + index))) by lia. rewrite u64_small by lia. lia. }
      rewrite H. rewrite i32_small by lia. rewrite (u64_small (n + index + 1)) by lia.
      split; [lia|]. split; [reflexivity|]. split; [|split]; bd; reflexivity.
  - rewrite (u64_small index) by lia. destruct (Z_le_gt_dec index n).
    + right. exists index. split; [lia|]. split; [reflexivity|]. split; [|split]; bd; reflexivity.
    + left. split; bd; reflexivity.
Qed.

(* ---------------------------------------------------------------- lists *)
Definition ids (l : list node) : list positive := map fst l.
Definition datas (l : list node) : list bstr := map snd l.

Lemma len_cons {A} (a : A) l : len (a :: l) = len l + 1.
Proof. unfold len. cbn [length]. lia. Qed.
Lemma len_app {A} (a b : list A) : len (a ++ b) = len a + len b.
Proof. unfold len. rewrite app_length. lia. Qed.
Lemma len_nonneg {A} (l : list A) : 0 <= len l.
Proof. unfold len. lia. Qed.
Lemma len_map {A B} (f : A -> B) l : len (map f l) = len l.
Proof. unfold len. rewrite map_length. reflexivity. Qed.
Lemma total_nil : total [] = 0. Proof. reflexivity. Qed.
Lemma total_cons b l : total (b :: l) = len b + total l.
Proof. unfold total. cbn [concat]. apply len_app. Qed.
Lemma total_app a b : total (a ++ b) = total a + total b.
Proof. unfold total. rewrite concat_app. apply len_app. Qed.
Lemma total_rev l : total (rev l) = total l.
Proof. induction l; cbn [rev]; auto. rewrite total_app, !total_cons, total_nil, IHl. lia. Qed.
Lemma total_split p l : total l = total (firstn p l) + total (skipn p l).
Proof. rewrite <- total_app, firstn_skipn. reflexivity. Qed.

Lemma nth_error_rev {A} : forall (l : list A) k, (k < length l)%nat -> nth_error (rev l) (length l - 1 - k) = nth_error l k.
Proof.
  induction l as [|a l IH]; intros k Hk; cbn [length] in *; [lia|]. cbn [rev]. destruct k.
  - rewrite nth_error_app2 by (rewrite rev_length; lia). rewrite rev_length.
    replace (S (length l) - 1 - 0 - length l)%nat with O by lia. reflexivity.
  - rewrite nth_error_app1 by (rewrite rev_length; lia).
    replace (S (length l) - 1 - S k)%nat with (length l - 1 - k)%nat by lia. cbn [nth_error]. apply IH. lia.
Qed.

Lemma insert_at_perm {A} p (x : A) l : Permutation (x :: l) (insert_at p x l).
Proof. unfold insert_at. rewrite <- (firstn_skipn p l) at 1. apply Permutation_middle. Qed.
Lemma insert_at_map {A B} (f : A -> B) p x l : map f (insert_at p x l) = insert_at p (f x) (map f l).
Proof. unfold insert_at. rewrite map_app. cbn [map]. rewrite firstn_map, skipn_map. reflexivity. Qed.
Lemma remove_at_map {A B} (f : A -> B) p l : map f (remove_at p l) = remove_at p (map f l).
Proof. unfold remove_at. rewrite map_app, firstn_map, skipn_map. reflexivity. Qed.
Lemma remove_at_cons {A} (a : A) p l : remove_at (S p) (a :: l) = a :: remove_at p l.
Proof. reflexivity. Qed.
Lemma remove_at_incl {A} : forall (l : list A) p, incl (remove_at p l) l.
Proof.
  induction l as [|a l IH]; intros p x Hx.
  - unfold remove_at in Hx. rewrite firstn_nil, skipn_nil in Hx. exact Hx.
  - destruct p.
    + right. exact Hx.
    + rewrite remove_at_cons in Hx. destruct Hx as [->|Hx]; [left; reflexivity|right; eapply IH; eauto].
Qed.
Lemma remove_at_nodup {A B} (f : A -> B) : forall l p, NoDup (map f l) -> NoDup (map f (remove_at p l)).
Proof.
  induction l as [|a l IH]; intros p H.
  - unfold remove_at. rewrite firstn_nil, skipn_nil. exact H.
  - cbn [map] in H. apply NoDup_cons_iff in H as [H1 H2]. destruct p.
    + exact H2.
    + rewrite remove_at_cons. cbn [map]. apply NoDup_cons; [|apply IH; exact H2].
      intros Hin. apply H1. apply in_map_iff in Hin as (y & Hy & Hin). apply in_map_iff. exists y. split; auto.
      eapply remove_at_incl; eauto.
Qed.
Lemma remove_at_len {A} : forall (l : list A) p x, nth_error l p = Some x -> len (remove_at p l) = len l - 1.
Proof.
  induction l as [|a l IH]; intros p x H; destruct p; try discriminate.
  - rewrite len_cons. unfold remove_at. cbn. lia.
  - rewrite remove_at_cons, !len_cons. cbn in H. rewrite (IH _ _ H). lia.
Qed.
Lemma remove_at_total : forall (l : list bstr) p x, nth_error l p = Some x -> total (remove_at p l) = total l - len x.
Proof.
  induction l as [|a l IH]; intros p x H; destruct p; try discriminate.
  - cbn in H. inversion H; subst. rewrite total_cons. unfold remove_at. cbn. lia.
  - rewrite remove_at_cons, !total_cons. cbn in H. rewrite (IH _ _ H). lia.
Qed.
Lemma insert_at_len {A} p (x : A) l : len (insert_at p x l) = len l + 1.
Proof. unfold insert_at. rewrite len_app, len_cons. rewrite <- (firstn_skipn p l) at 3. rewrite len_app. lia. Qed.
Lemma insert_at_total p x l : total (insert_at p x l) = total l + len x.
Proof. unfold insert_at. rewrite total_app, total_cons, (total_split p l). lia. Qed.
Lemma insert_at_0 {A} (x : A) l : insert_at 0 x l = x :: l.
Proof. reflexivity. Qed.
Lemma insert_at_end {A} (x : A) l : insert_at (length l) x l = l ++ [x].
Proof. unfold insert_at. rewrite firstn_all, skipn_all. reflexivity. Qed.

(* pointer (identity) operations coincide with positional ones when identities are unique *)
Lemma unlink_nth : forall l p x, NoDup (ids l) -> nth_error l p = Some x -> unlink (fst x) l = remove_at p l.
Proof.
  induction l as [|a l IH]; intros p x Hnd H; destruct p; try discriminate; cbn [unlink].
  - cbn in H. inversion H; subst. rewrite Pos.eqb_refl. reflexivity.
  - cbn in H. cbn [ids map] in Hnd. apply NoDup_cons_iff in Hnd as [H1 H2].
    destruct (Pos.eqb_spec (fst a) (fst x)) as [E|E].
    + exfalso. apply H1. rewrite E. apply in_map. eapply nth_error_In; eauto.
    + rewrite remove_at_cons. f_equal. apply IH; auto.
Qed.
Lemma insert_before_nth : forall l p x y, NoDup (ids l) -> nth_error l p = Some x -> insert_before (fst x) y l = insert_at p y l.
Proof.
  induction l as [|a l IH]; intros p x y Hnd H; destruct p; try discriminate; cbn [insert_before].
  - cbn in H. inversion H; subst. rewrite Pos.eqb_refl. reflexivity.
  - cbn in H. cbn [ids map] in Hnd. apply NoDup_cons_iff in Hnd as [H1 H2].
    destruct (Pos.eqb_spec (fst a) (fst x)) as [E|E].
    + exfalso. apply H1. rewrite E. apply in_map. eapply nth_error_In; eauto.
    + unfold insert_at. cbn [firstn skipn app]. f_equal. apply IH; auto.
Qed.
Lemma find_id_nth : forall l k x, NoDup (ids l) -> nth_error l k = Some x ->
  find_id (fst x) l = Some (x, option_map fst (nth_error l (S k))).
Proof.
  induction l as [|a l IH]; intros k x Hnd H; destruct k; try discriminate; cbn [find_id].
  - cbn in H. inversion H; subst. rewrite Pos.eqb_refl. destruct l; reflexivity.
  - cbn in H. cbn [ids map] in Hnd. apply NoDup_cons_iff in Hnd as [H1 H2].
    destruct (Pos.eqb_spec (fst a) (fst x)) as [E|E].
    + exfalso. apply H1. rewrite E. apply in_map. eapply nth_error_In; eauto.
    + rewrite (IH _ _ H2 H). reflexivity.
Qed.

(* ---------------------------------------------------------------- the walk of get_obj *)
Lemma go_fwd : forall l fuel base k x, nth_error l k = Some x -> (length l < fuel)%nat -> 0 <= base -> base + len l <= 2^31 ->
  go fuel l base (base + Z.of_nat k) false = Ok (inl x).
Proof.
  induction l as [|a l IH]; intros fuel base k x Hn Hf Hb Hr.
  - destruct k; discriminate.
  - destruct fuel; [cbn in Hf; lia|]. cbn [go]. rewrite len_cons in Hr. pose proof (len_nonneg l). destruct k.
    + cbn in Hn. inversion Hn; subst. replace (base + Z.of_nat 0) with base by lia. rewrite Z.eqb_refl. reflexivity.
    + cbn in Hn. destruct (Z.eqb_spec base (base + Z.of_nat (S k))); [lia|].
      assert (k < length l)%nat by (apply nth_error_Some; congruence).
      rewrite i32_small by (unfold len in *; lia).
      replace (base + Z.of_nat (S k)) with ((base + 1) + Z.of_nat k) by lia. apply IH; auto; cbn in Hf; lia.
Qed.
Lemma go_bwd : forall c fuel top k x, nth_error c k = Some x -> (length c < fuel)%nat -> len c - 1 <= top < 2^31 ->
  go fuel c top (top - Z.of_nat k) true = Ok (inl x).
Proof.
  induction c as [|a c IH]; intros fuel top k x Hn Hf Hr.
  - destruct k; discriminate.
  - destruct fuel; [cbn in Hf; lia|]. cbn [go]. rewrite len_cons in Hr. pose proof (len_nonneg c). destruct k.
    + cbn in Hn. inversion Hn; subst. replace (top - Z.of_nat 0) with top by lia. rewrite Z.eqb_refl. reflexivity.
    + cbn in Hn. destruct (Z.eqb_spec top (top - Z.of_nat (S k))); [lia|].
      assert (k < length c)%nat by (apply nth_error_Some; congruence).
      rewrite i32_small by (unfold len in *; lia).
      replace (top - Z.of_nat (S k)) with ((top - 1) - Z.of_nat k) by lia. apply IH; auto; cbn in Hf; lia.
Qed.

(* ---------------------------------------------------------------- the invariant *)
Record Inv (q : qlist) : Prop := mkInv {
  inv_num : num q = len (items q);
  inv_sum : datasum q = total (datas (items q));
  inv_ne : Forall (fun x : node => snd x <> []) (items q);
  inv_nodup : NoDup (ids (items q));
  inv_fresh : Forall (fun i => (i < nextid q)%positive) (ids (items q)) }.

Definition get_res (l : list node) (index : Z) : node + err :=
  match acc_pos (len l) index with
  | Some p => match nth_error l p with Some x => inl x | None => inr ERANGE end
  | None => inr ERANGE
  end.
Lemma get_obj_ok q index : Inv q -> len (items q) < 2^31 -> int index -> get_obj q index = Ok (get_res (items q) index).
Proof.
  intros I Hn Hi. unfold get_obj, get_res. rewrite (inv_num q I). pose proof (len_nonneg (items q)) as H0.
  destruct (norm_get_ok (len (items q)) index ltac:(lia) Hi) as [[Ha Hb]|(p & Hp & Hidx & Ha & Hb & Hu)]; rewrite Ha, Hb; [reflexivity|].
  rewrite Hu, Hidx.
  assert (Hk: (Z.to_nat p < length (items q))%nat) by (unfold len in *; lia).
  destruct (nth_error (items q) (Z.to_nat p)) as [x|] eqn:Hx; [|apply nth_error_None in Hx; lia].
  destruct (p <? len (items q) / 2).
  - replace p with (0 + Z.of_nat (Z.to_nat p)) at 1 by lia. apply go_fwd; auto; lia.
  - rewrite u64_small by lia. rewrite i32_small by lia.
    set (k := (length (items q) - 1 - Z.to_nat p)%nat).
    replace p with ((len (items q) - 1) - Z.of_nat k) at 1 by (unfold len, k in *; lia).
    apply go_bwd.
    + unfold k. rewrite nth_error_rev; auto.
    + rewrite rev_length. lia.
    + unfold len. rewrite rev_length. unfold len in *. lia.
Qed.

Lemma Inv_init : Inv linit.
Proof. constructor; cbn; auto; constructor. Qed.

Lemma Inv_insert q P b m : Inv q -> b <> [] ->
  Inv (mkL (insert_at P (nextid q, b) (items q)) (num q + 1) (datasum q + nsize (nextid q, b)) m (Pos.succ (nextid q))).
Proof.
  intros I Hb. constructor; cbn [items num datasum maxn nextid].
  - rewrite insert_at_len, (inv_num q I). reflexivity.
  - unfold datas. rewrite insert_at_map, insert_at_total, (inv_sum q I). reflexivity.
  - eapply Permutation_Forall; [apply insert_at_perm|]. constructor; [exact Hb|apply (inv_ne q I)].
  - unfold ids. rewrite insert_at_map. eapply Permutation_NoDup; [apply insert_at_perm|]. cbn [fst].
    apply NoDup_cons; [|apply (inv_nodup q I)]. intros Hin. pose proof (inv_fresh q I) as Hf. rewrite Forall_forall in Hf.
    specialize (Hf _ Hin). lia.
  - unfold ids. rewrite insert_at_map. eapply Permutation_Forall; [apply insert_at_perm|]. cbn [fst]. constructor; [lia|].
    eapply Forall_impl; [|apply (inv_fresh q I)]. cbn. intros; lia.
Qed.

Lemma Inv_remove q p x : Inv q -> nth_error (items q) p = Some x ->
  Inv (remove_obj q x) /\ items (remove_obj q x) = remove_at p (items q).
Proof.
  intros I Hx. assert (E: items (remove_obj q x) = remove_at p (items q)).
  { unfold remove_obj. cbn [items]. apply unlink_nth; auto. apply (inv_nodup q I). }
  split; [|exact E]. constructor; rewrite ?E; unfold remove_obj; cbn [num datasum maxn nextid].
  - rewrite (remove_at_len _ _ _ Hx), (inv_num q I). reflexivity.
  - unfold datas. rewrite remove_at_map. rewrite (remove_at_total _ p (snd x)) by (apply map_nth_error; exact Hx).
    rewrite (inv_sum q I). unfold nsize, len. reflexivity.
  - rewrite Forall_forall. intros y Hy. pose proof (inv_ne q I) as Hf. rewrite Forall_forall in Hf. apply Hf.
    eapply remove_at_incl; eauto.
  - unfold ids. apply remove_at_nodup. apply (inv_nodup q I).
  - rewrite Forall_forall. intros y Hy. pose proof (inv_fresh q I) as Hf. rewrite Forall_forall in Hf. apply Hf.
    unfold ids in *. rewrite remove_at_map in Hy. eapply remove_at_incl; eauto.
Qed.

(* ---------------------------------------------------------------- qlist_addat *)
Definition add_res (l : list bstr) (m index : Z) (d : option bstr) : list bstr * option err :=
  match d with
  | None | Some [] => (l, Some EINVAL)
  | Some b => if (0 <? m) && (m <=? len l) then (l, Some ENOBUFS)
              else match ins_pos (len l) index with
                   | None => (l, Some ERANGE)
                   | Some p => (insert_at p b l, None)
                   end
  end.

Ltac same_q q I := exists q; cbn [fst snd]; split; [reflexivity|split; [exact I|split; [reflexivity|split; [reflexivity|auto]]]].
Lemma addat_ok q index d : Inv q -> len (items q) < 2^31 -> int index ->
  let r := add_res (datas (items q)) (maxn q) index d in
  exists q', addat q index d = Ok (q', snd r) /\ Inv q' /\ datas (items q') = fst r /\ maxn q' = maxn q /\
             (snd r <> None -> q' = q).
Proof.
  intros I Hn Hi r. subst r. pose proof (len_nonneg (items q)) as H0.
  destruct d as [[|c b]|]; cbn [add_res addat]; try (same_q q I; fail).
  assert (Hlen : len (datas (items q)) = len (items q)) by (unfold datas; apply len_map). rewrite !Hlen, (inv_num q I).
  destruct ((0 <? maxn q) && (maxn q <=? len (items q))); [same_q q I|].
  destruct (norm_add_ok (len (items q)) index ltac:(lia) Hi) as [[Ha Hb]|(p & Hp & Hidx & Ha & Hb & Hu)]; rewrite Ha, Hb;
    [same_q q I|].
  cbv zeta. rewrite Hu, Hidx. cbn [fst snd].
  set (x := (nextid q, c :: b)).
  assert (Hfin: forall l, l = insert_at (Z.to_nat p) x (items q) ->
    exists q', Ok (mkL l (len (items q) + 1) (datasum q + nsize x) (maxn q) (Pos.succ (nextid q)), @None err) = Ok (q', None) /\ Inv q' /\
               datas (items q') = insert_at (Z.to_nat p) (c :: b) (datas (items q)) /\ maxn q' = maxn q /\ (@None err <> None -> q' = q)).
  { intros l ->. rewrite <- (inv_num q I). eexists. split; [reflexivity|]. split; [apply Inv_insert; auto; discriminate|].
    cbn [items maxn]. split; [unfold datas; rewrite insert_at_map; reflexivity|]. split; [reflexivity|congruence]. }
  destruct (Z.eqb_spec p 0) as [E0|E0].
  - apply Hfin. rewrite E0. reflexivity.
  - destruct (Z.eqb_spec p (len (items q))) as [E1|E1].
    + apply Hfin. rewrite E1. unfold len. rewrite Nat2Z.id. symmetry. apply insert_at_end.
    + assert (Hip: int p) by (unfold int; lia).
      rewrite (get_obj_ok q p I Hn Hip). unfold get_res, acc_pos.
      destruct (Z.ltb_spec p 0); [lia|]. destruct (Z.leb_spec 0 p); [|lia]. destruct (Z.ltb_spec p (len (items q))); [|lia].
      cbn [andb bind].
      destruct (nth_error (items q) (Z.to_nat p)) as [tgt|] eqn:Ht; [|apply nth_error_None in Ht; unfold len in *; lia].
      destruct (items q) as [|t0 rest] eqn:Eit; [destruct (Z.to_nat p); discriminate|].
      destruct (Pos.eqb_spec (fst t0) (fst tgt)) as [E|E].
      * exfalso. pose proof (inv_nodup q I) as Hnd. rewrite Eit in Hnd. cbn [ids map] in Hnd. apply NoDup_cons_iff in Hnd as [Hh _].
        apply Hh. rewrite E. destruct (Z.to_nat p) eqn:Ep; [lia|]. cbn in Ht. apply in_map. eapply nth_error_In; eauto.
      * apply Hfin. rewrite <- Eit in *. apply insert_before_nth; auto. apply (inv_nodup q I).
Qed.

(* ---------------------------------------------------------------- get_at / removeat *)
Definition acc_res (l : list bstr) (index : Z) : option (nat * bstr) :=
  match acc_pos (len l) index with
  | Some p => match nth_error l p with Some b => Some (p, b) | None => None end
  | None => None
  end.
Lemma get_res_datas l index :
  match get_res l index with
  | inl x => exists p, acc_res (datas l) index = Some (p, snd x) /\ nth_error l p = Some x
  | inr e => e = ERANGE /\ acc_res (datas l) index = None
  end.
Proof.
  assert (Hlen : len (datas l) = len l) by (unfold datas; apply len_map).
  unfold get_res, acc_res. rewrite Hlen. destruct (acc_pos (len l) index) as [p|]; [|split; reflexivity].
  unfold datas. destruct (nth_error l p) as [x|] eqn:Hx.
  - exists p. rewrite (map_nth_error snd _ _ Hx). split; [reflexivity|exact Hx].
  - assert (H : nth_error (map snd l) p = None) by (apply nth_error_None; rewrite map_length; apply nth_error_None; exact Hx).
    rewrite H. split; reflexivity.
Qed.

Lemma get_at_ok q index rm : Inv q -> len (items q) < 2^31 -> int index ->
  match acc_res (datas (items q)) index with
  | None => get_at q index rm = Ok (q, inr ERANGE)
  | Some (p, b) => exists q', get_at q index rm = Ok (q', inl b) /\ Inv q' /\ maxn q' = maxn q /\
                     datas (items q') = (if rm then remove_at p (datas (items q)) else datas (items q)) /\
                     (rm = false -> q' = q)
  end.
Proof.
  intros I Hn Hi. unfold get_at. rewrite (get_obj_ok q index I Hn Hi). cbn [bind].
  pose proof (get_res_datas (items q) index) as H. destruct (get_res (items q) index) as [x|e].
  - destruct H as (p & -> & Hx). destruct rm.
    + destruct (Inv_remove q p x I Hx) as [I' E]. eexists. split; [reflexivity|]. split; [exact I'|]. split; [reflexivity|].
      split; [|discriminate]. rewrite E. unfold datas. apply remove_at_map.
    + exists q. split; [reflexivity|]. split; [exact I|]. repeat split; auto.
  - destruct H as [-> ->]. reflexivity.
Qed.
Lemma removeat_ok q index : Inv q -> len (items q) < 2^31 -> int index ->
  match acc_res (datas (items q)) index with
  | None => removeat q index = Ok (q, Some ERANGE)
  | Some (p, b) => exists q', removeat q index = Ok (q', None) /\ Inv q' /\ maxn q' = maxn q /\
                     datas (items q') = remove_at p (datas (items q))
  end.
Proof.
  intros I Hn Hi. unfold removeat. rewrite (get_obj_ok q index I Hn Hi). cbn [bind].
  pose proof (get_res_datas (items q) index) as H. destruct (get_res (items q) index) as [x|e].
  - destruct H as (p & -> & Hx).
    destruct (Inv_remove q p x I Hx) as [I' E]. eexists. split; [reflexivity|]. split; [exact I'|]. split; [reflexivity|].
    rewrite E. unfold datas. apply remove_at_map.
  - destruct H as [-> ->]. reflexivity.
Qed.

(* ---------------------------------------------------------------- getnext *)
Definition Rcur (l : list node) (c : cursor) (sc : scur) : Prop :=
  match sc with
  | CFresh => fst c = 0
  | CAt k => fst c <> 0 /\ snd c = option_map fst (nth_error l k)
  | CStale => True
  end.
Lemma Rcur_stale l l' c sc : Rcur l c sc -> Rcur l' c (stale sc).
Proof. destruct sc; cbn; auto. Qed.

Lemma nsize_pos (x : node) : snd x <> [] -> nsize x <> 0.
Proof. unfold nsize. destruct (snd x); [congruence|cbn [length]; lia]. Qed.

Lemma getnext_ok q c st : Inv q -> datas (items q) = sl st -> Rcur (items q) c (scu st) -> snd (s_next st) <> OUndef ->
  exists c' r, getnext q c = Ok (c', r) /\ ob_data r = snd (s_next st) /\
               Rcur (items q) c' (scu (fst (s_next st))) /\ sl (fst (s_next st)) = sl st /\ smax (fst (s_next st)) = smax st.
Proof.
  intros I Hd Hc Hu. unfold s_next in *. unfold getnext. destruct (scu st) as [|k|] eqn:Esc; cbn [Rcur] in Hc.
  - rewrite Hc. cbn [Z.eqb]. destruct (items q) as [|x r] eqn:Eit.
    + cbn in Hd. rewrite <- Hd. exists c, (inr ENOENT). cbn [fst snd ob_data]. rewrite Esc. cbn [Rcur]. auto.
    + cbn [datas map] in Hd. rewrite <- Hd. cbn [find_id]. rewrite Pos.eqb_refl.
      eexists _, (inl (snd x)). split; [reflexivity|]. cbn [fst snd ob_data scu sl smax Rcur]. repeat split; auto.
      * apply nsize_pos. pose proof (inv_ne q I) as Hf. rewrite Eit in Hf. inversion Hf; auto.
      * destruct r; reflexivity.
  - destruct Hc as [Hc1 Hc2]. destruct (Z.eqb_spec (fst c) 0) as [E|_]; [congruence|]. rewrite Hc2.
    assert (Hm : nth_error (sl st) k = option_map snd (nth_error (items q) k)) by (rewrite <- Hd; unfold datas; apply nth_error_map).
    rewrite Hm. destruct (nth_error (items q) k) as [x|] eqn:Hx; cbn [option_map].
    + rewrite (find_id_nth _ _ _ (inv_nodup q I) Hx). eexists _, (inl (snd x)). split; [reflexivity|].
      cbn [fst snd ob_data scu sl smax Rcur]. repeat split; auto.
      apply nsize_pos. pose proof (inv_ne q I) as Hf. rewrite Forall_forall in Hf. apply Hf. eapply nth_error_In; eauto.
    + exists c, (inr ENOENT). cbn [fst snd ob_data]. rewrite Esc. cbn [Rcur]. rewrite Hx. auto.
  - cbn in Hu. congruence.
Qed.

(* ---------------------------------------------------------------- toarray / tostring *)
Lemma toarray_ok q : Inv q ->
  toarray q = Ok (match datas (items q) with [] => inr ENOENT | _ => inl (concat (datas (items q)), total (datas (items q))) end).
Proof.
  intros I. unfold toarray. rewrite (inv_num q I), (inv_sum q I). destruct (items q) as [|x r] eqn:E; [reflexivity|].
  rewrite len_cons. pose proof (len_nonneg r). destruct (Z.leb_spec (len r + 1) 0); [lia|].
  change (map snd (x :: r)) with (datas (x :: r)). change (Z.of_nat (length (concat (datas (x :: r))))) with (total (datas (x :: r))).
  rewrite Z.ltb_irrefl. reflexivity.
Qed.

Lemma strip1_ok b : b <> [] -> strip1 b = Ok (strip b).
Proof.
  intros Hb. unfold strip1, strip. destruct (rev b) eqn:E; [|reflexivity].
  exfalso. apply Hb. rewrite <- (rev_involutive b), E. reflexivity.
Qed.
Lemma strip_len b : len (strip b) <= len b.
Proof.
  unfold strip. destruct (rev b) as [|c r] eqn:E; [lia|]. destruct (N.eqb c 0); [|lia].
  unfold len. rewrite rev_length. rewrite <- (rev_length b), E. cbn [length]. lia.
Qed.
Lemma strip_all_ok : forall l, Forall (fun x : node => snd x <> []) l -> strip_all l = Ok (concat (map strip (datas l))).
Proof.
  induction l as [|x r IH]; intros H; [reflexivity|]. inversion H; subst. cbn [strip_all].
  rewrite strip1_ok by auto. cbn [bind]. rewrite IH by auto. reflexivity.
Qed.
Lemma strip_total : forall l, len (concat (map strip l)) <= total l.
Proof.
  induction l as [|b l IH]; [cbn; lia|]. cbn [map concat]. rewrite len_app, total_cons. pose proof (strip_len b). lia.
Qed.
Lemma tostring_ok q : Inv q ->
  tostring q = Ok (match datas (items q) with [] => inr ENOENT | _ => inl (concat (map strip (datas (items q))) ++ [0%N]) end).
Proof.
  intros I. unfold tostring. rewrite (inv_num q I), (inv_sum q I), (strip_all_ok _ (inv_ne q I)). cbn [bind].
  pose proof (strip_total (datas (items q))) as Hs.
  destruct (items q) as [|x r] eqn:E; [reflexivity|].
  rewrite len_cons. pose proof (len_nonneg r). destruct (Z.leb_spec (len r + 1) 0); [lia|].
  fold (len (concat (map strip (datas (x :: r))))).
  destruct (Z.ltb_spec (total (datas (x :: r)) + 1) (len (concat (map strip (datas (x :: r)))) + 1)); [lia|]. reflexivity.
Qed.

(* ---------------------------------------------------------------- one step of a list history *)
Definition R (s : lstate) (st : sstate) : Prop :=
  datas (items (fst s)) = sl st /\ maxn (fst s) = smax st /\ Rcur (items (fst s)) (snd s) (scu st).
Definition wf_op (o : op) : Prop :=
  match o with AddAt i _ | GetAt i _ | PopAt i | RemoveAt i => int i | _ => True end.

Lemma s_add_res st i d :
  s_add st i d = (match snd (add_res (sl st) (smax st) i d) with
                  | None => mkS (fst (add_res (sl st) (smax st) i d)) (smax st) (stale (scu st))
                  | Some _ => st end, ob_err (snd (add_res (sl st) (smax st) i d))).
Proof.
  unfold s_add, add_res. destruct d as [[|c b]|]; try reflexivity.
  destruct ((0 <? smax st) && (smax st <=? len (sl st))); [reflexivity|].
  destruct (ins_pos (len (sl st)) i); reflexivity.
Qed.
Lemma acc_pos_lt {A} (l : list A) i p : acc_pos (len l) i = Some p -> (p < length l)%nat.
Proof.
  unfold acc_pos. set (z := if i <? 0 then len l + i else i). destruct (Z.leb_spec 0 z); [|discriminate].
  destruct (Z.ltb_spec z (len l)); [|discriminate]. cbn. intros Hs; inversion Hs; subst. unfold len in *. lia.
Qed.
Lemma s_get_res st i rm :
  s_get st i rm = match acc_res (sl st) i with
                  | None => (st, OFail ERANGE)
                  | Some (p, b) => (if rm then mkS (remove_at p (sl st)) (smax st) (stale (scu st)) else st, OData b)
                  end.
Proof. unfold s_get, acc_res. destruct (acc_pos (len (sl st)) i); [|reflexivity]. destruct (nth_error (sl st) n); reflexivity. Qed.
Lemma s_remove_res st i :
  s_remove st i = match acc_res (sl st) i with
                  | None => (st, OFail ERANGE)
                  | Some (p, b) => (mkS (remove_at p (sl st)) (smax st) (stale (scu st)), OOk)
                  end.
Proof.
  unfold s_remove, acc_res. destruct (acc_pos (len (sl st)) i) as [p|] eqn:E; [|reflexivity].
  apply acc_pos_lt in E. destruct (nth_error (sl st) p) eqn:E2; [reflexivity|]. apply nth_error_None in E2. lia.
Qed.

Lemma add_step q c st i d : Inv q -> R (q, c) st -> len (sl st) < 2^31 -> int i ->
  exists q' r, addat q i d = Ok (q', r) /\ ob_err r = snd (s_add st i d) /\ Inv q' /\ R (q', c) (fst (s_add st i d)).
Proof.
  intros I (Hd & Hm & Hc) Hn Hi. cbn [fst snd] in *.
  assert (Hn' : len (items q) < 2^31) by (rewrite <- Hd in Hn; unfold datas in Hn; rewrite len_map in Hn; exact Hn).
  destruct (addat_ok q i d I Hn' Hi) as (q' & Ha & I' & Hd' & Hm' & Hsame). rewrite Hd, Hm in *.
  rewrite s_add_res. exists q'. eexists. split; [exact Ha|]. split; [reflexivity|]. split; [exact I'|].
  cbn [fst snd]. destruct (snd (add_res (sl st) (smax st) i d)) as [e|].
  - rewrite Hsame by discriminate. repeat split; auto.
  - repeat split; cbn [fst snd sl smax scu]; auto; try congruence. eapply Rcur_stale; eauto.
Qed.
Lemma get_step q c st i rm : Inv q -> R (q, c) st -> len (sl st) < 2^31 -> int i ->
  exists q' r, get_at q i rm = Ok (q', r) /\ ob_data r = snd (s_get st i rm) /\ Inv q' /\ R (q', c) (fst (s_get st i rm)).
Proof.
  intros I (Hd & Hm & Hc) Hn Hi. cbn [fst snd] in *.
  assert (Hn' : len (items q) < 2^31) by (rewrite <- Hd in Hn; unfold datas in Hn; rewrite len_map in Hn; exact Hn).
  pose proof (get_at_ok q i rm I Hn' Hi) as H. rewrite Hd in H. rewrite s_get_res.
  destruct (acc_res (sl st) i) as [[p b]|].
  - destruct H as (q' & Hg & I' & Hm' & Hd' & Hsame). exists q', (inl b). split; [exact Hg|]. split; [reflexivity|]. split; [exact I'|].
    destruct rm; cbn [fst snd].
    + repeat split; cbn [fst snd sl smax scu]; auto; try congruence. eapply Rcur_stale; eauto.
    + rewrite Hsame by reflexivity. repeat split; auto.
  - exists q, (inr ERANGE). split; [exact H|]. split; [reflexivity|]. split; [exact I|]. repeat split; auto.
Qed.
Lemma remove_step q c st i : Inv q -> R (q, c) st -> len (sl st) < 2^31 -> int i ->
  exists q' r, removeat q i = Ok (q', r) /\ ob_err r = snd (s_remove st i) /\ Inv q' /\ R (q', c) (fst (s_remove st i)).
Proof.
  intros I (Hd & Hm & Hc) Hn Hi. cbn [fst snd] in *.
  assert (Hn' : len (items q) < 2^31) by (rewrite <- Hd in Hn; unfold datas in Hn; rewrite len_map in Hn; exact Hn).
  pose proof (removeat_ok q i I Hn' Hi) as H. rewrite Hd in H. rewrite s_remove_res.
  destruct (acc_res (sl st) i) as [[p b]|].
  - destruct H as (q' & Hg & I' & Hm' & Hd'). exists q', None. split; [exact Hg|]. split; [reflexivity|]. split; [exact I'|].
    repeat split; cbn [fst snd sl smax scu]; auto; try congruence. eapply Rcur_stale; eauto.
  - exists q, (Some ERANGE). split; [exact H|]. split; [reflexivity|]. split; [exact I|]. repeat split; auto.
Qed.

Lemma int_0 : int 0. Proof. unfold int. lia. Qed.
Lemma int_m1 : int (-1). Proof. unfold int. lia. Qed.

Lemma Inv_reverse q : Inv q -> Inv (reverse q).
Proof.
  intros I. constructor; unfold reverse; cbn [items num datasum maxn nextid].
  - unfold len. rewrite rev_length. apply (inv_num q I).
  - unfold datas. rewrite map_rev, total_rev. apply (inv_sum q I).
  - apply Forall_rev, (inv_ne q I).
  - unfold ids. rewrite map_rev. apply NoDup_rev, (inv_nodup q I).
  - unfold ids. rewrite map_rev. apply Forall_rev, (inv_fresh q I).
Qed.
Lemma Inv_clear q : Inv q -> Inv (clear q).
Proof. intros I. constructor; unfold clear; cbn; auto; constructor. Qed.
Lemma Inv_setsize q m : Inv q -> Inv (fst (setsize q m)).
Proof. intros I. destruct I. constructor; cbn; auto. Qed.

Lemma step_refines s st o : Inv (fst s) -> R s st -> len (sl st) < 2^31 -> wf_op o -> snd (sstep st o) <> OUndef ->
  exists s', step s o = Ok (s', snd (sstep st o)) /\ Inv (fst s') /\ R s' (fst (sstep st o)).
Proof.
  intros I HR Hn Hw Hu. destruct s as [q c]. cbn [fst] in I.
  destruct o; cbn [step sstep wf_op] in *;
  try (match goal with |- context[addat q ?i ?d] =>
         destruct (add_step q c st i d I HR Hn ltac:(first [exact Hw | exact int_0 | exact int_m1])) as (q' & r & Ha & Ho & I' & HR');
         rewrite Ha; cbn [bind fst snd]; rewrite Ho; eexists; split; [reflexivity|split; [exact I'|exact HR']] end);
  try (match goal with |- context[get_at q ?i ?rm] =>
         destruct (get_step q c st i rm I HR Hn ltac:(first [exact Hw | exact int_0 | exact int_m1])) as (q' & r & Ha & Ho & I' & HR');
         rewrite Ha; cbn [bind fst snd]; rewrite Ho; eexists; split; [reflexivity|split; [exact I'|exact HR']] end);
  try (match goal with |- context[removeat q ?i] =>
         destruct (remove_step q c st i I HR Hn ltac:(first [exact Hw | exact int_0 | exact int_m1])) as (q' & r & Ha & Ho & I' & HR');
         rewrite Ha; cbn [bind fst snd]; rewrite Ho; eexists; split; [reflexivity|split; [exact I'|exact HR']] end).
  - (* GetNext *)
    destruct HR as (Hd & Hm & Hc). cbn [fst snd] in *.
    destruct (getnext_ok q c st I Hd Hc Hu) as (c' & r & Hg & Ho & Hc' & Hsl & Hsm).
    rewrite Hg. cbn [bind fst snd]. rewrite Ho. eexists. split; [reflexivity|]. split; [exact I|].
    repeat split; cbn [fst snd]; auto; congruence.
  - (* CurReset *)
    destruct HR as (Hd & Hm & Hc). eexists. split; [reflexivity|]. split; [exact I|]. repeat split; auto.
  - (* Reverse *)
    destruct HR as (Hd & Hm & Hc). cbn [fst snd] in *. eexists. split; [reflexivity|]. split; [apply Inv_reverse; exact I|].
    repeat split; cbn [fst snd reverse items maxn sl smax scu]; auto.
    + rewrite <- Hd. unfold datas. apply map_rev.
    + eapply Rcur_stale; eauto.
  - (* Clear *)
    destruct HR as (Hd & Hm & Hc). cbn [fst snd] in *. eexists. split; [reflexivity|]. split; [apply Inv_clear; exact I|].
    repeat split; cbn [fst snd clear items maxn sl smax scu]; auto. eapply Rcur_stale; eauto.
  - (* SetSize *)
    destruct HR as (Hd & Hm & Hc). cbn [fst snd] in *. rewrite <- Hm. eexists. split; [reflexivity|].
    split; [apply (Inv_setsize q m I)|]. repeat split; auto.
  - (* Size *)
    destruct HR as (Hd & Hm & Hc). cbn [fst snd] in *.
    assert (E : len (sl st) = num q) by (rewrite (inv_num q I), <- Hd; unfold datas; apply len_map). rewrite E.
    eexists. split; [reflexivity|]. split; [exact I|]. repeat split; auto.
  - (* DataSize *)
    destruct HR as (Hd & Hm & Hc). cbn [fst snd] in *.
    assert (E : total (sl st) = datasum q) by (rewrite (inv_sum q I), <- Hd; reflexivity). rewrite E.
    eexists. split; [reflexivity|]. split; [exact I|]. repeat split; auto.
  - (* ToArray *)
    pose proof HR as (Hd & Hm & Hc). cbn [fst snd] in *. rewrite (toarray_ok q I), Hd. cbn [bind].
    exists (q, c). split; [destruct (sl st); reflexivity|split; [exact I|exact HR]].
  - (* ToString *)
    pose proof HR as (Hd & Hm & Hc). cbn [fst snd] in *. rewrite (tostring_ok q I), Hd. cbn [bind].
    exists (q, c). split; [destruct (sl st); reflexivity|split; [exact I|exact HR]].
Qed.

(* ---------------------------------------------------------------- whole histories *)
Fixpoint bounded (st : sstate) (h : list op) : Prop :=
  match h with
  | [] => True
  | o :: r => len (sl st) < 2^31 /\ bounded (fst (sstep st o)) r
  end.
Definition defined (st : sstate) (h : list op) : Prop := ~ In OUndef (snd (srun st h)).

Lemma run_refines : forall h s st, Inv (fst s) -> R s st -> Forall wf_op h -> bounded st h -> defined st h ->
  exists s', run s h = Ok (s', snd (srun st h)) /\ Inv (fst s') /\ R s' (fst (srun st h)).
Proof.
  induction h as [|o r IH]; intros s st I HR Hw Hb Hdef.
  - exists s. cbn. auto.
  - inversion Hw as [|? ? Hwo Hwr]; subst. destruct Hb as [Hn Hb]. unfold defined in Hdef. cbn [srun run] in *.
    destruct (sstep st o) as [st1 ob] eqn:E1. destruct (srun st1 r) as [st2 obs] eqn:E2. cbn [fst snd] in *.
    destruct (step_refines s st o I HR Hn Hwo) as (s1 & Hs & I1 & HR1).
    { rewrite E1. cbn. intros ->. apply Hdef. left. reflexivity. }
    rewrite E1 in Hs, HR1. cbn [fst snd] in *. rewrite Hs. cbn [bind fst snd].
    destruct (IH s1 st1 I1 HR1 Hwr Hb) as (s2 & Hr & I2 & HR2).
    { unfold defined. rewrite E2. cbn. intros Hin. apply Hdef. right. exact Hin. }
    rewrite E2 in Hr, HR2. cbn [fst snd] in *. rewrite Hr. cbn [bind fst snd]. exists s2. auto.
Qed.

Lemma R_init : R init sinit.
Proof. repeat split. Qed.

Theorem list_refines h : Forall wf_op h -> bounded sinit h -> defined sinit h ->
  exists s, run init h = Ok (s, snd (srun sinit h)) /\
            datas (items (fst s)) = sl (fst (srun sinit h)) /\ maxn (fst s) = smax (fst (srun sinit h)) /\
            num (fst s) = len (sl (fst (srun sinit h))) /\ datasum (fst s) = total (sl (fst (srun sinit h))).
Proof.
  intros Hw Hb Hd. destruct (run_refines h init sinit Inv_init R_init Hw Hb Hd) as (s & Hr & I & (Hd' & Hm & Hc)).
  exists s. split; [exact Hr|]. split; [exact Hd'|]. split; [exact Hm|]. rewrite <- Hd'. split.
  - rewrite (inv_num _ I). unfold datas. symmetry. apply len_map.
  - apply (inv_sum _ I).
Qed.

(* a refused operation has no effect at all: the model state (list, counters, cursor) is returned as it was *)
Lemma addat_refused q i d q' e : addat q i d = Ok (q', Some e) -> q' = q.
Proof.
  unfold addat. destruct d as [[|c b]|]; try (intros H; inversion H; reflexivity).
  destruct ((0 <? maxn q) && (maxn q <=? num q)); [intros H; inversion H; reflexivity|].
  destruct ((norm_add (num q) i <? 0) || (num q <? u64 (norm_add (num q) i))); [intros H; inversion H; reflexivity|].
  cbv zeta. destruct (norm_add (num q) i =? 0); [discriminate|].
  destruct (u64 (norm_add (num q) i) =? num q); [discriminate|].
  destruct (get_obj q (norm_add (num q) i)) as [[tgt|e']| |]; cbn [bind]; try discriminate.
  - destruct (items q) as [|t0 ?]; [discriminate|]. destruct (Pos.eqb (fst t0) (fst tgt)); discriminate.
  - intros H; inversion H; reflexivity.
Qed.
Lemma get_at_refused q i rm q' e : get_at q i rm = Ok (q', inr e) -> q' = q.
Proof. unfold get_at. destruct (get_obj q i) as [[x|e']| |]; cbn [bind]; try discriminate; intros H; inversion H; reflexivity. Qed.
Lemma removeat_refused q i q' e : removeat q i = Ok (q', Some e) -> q' = q.
Proof. unfold removeat. destruct (get_obj q i) as [[x|e']| |]; cbn [bind]; try discriminate; intros H; inversion H; reflexivity. Qed.
Lemma getnext_refused q c c' e : getnext q c = Ok (c', inr e) -> c' = c.
Proof.
  unfold getnext. destruct (if fst c =? 0 then _ else _) as [i|]; [|intros H; inversion H; reflexivity].
  destruct (find_id i (items q)) as [[x nx]|]; discriminate.
Qed.
Definition refusal (ob : obs) : Prop := match ob with OFail _ | OFailSz _ _ => True | _ => False end.
Lemma refusal_no_effect s o s' ob : step s o = Ok (s', ob) -> refusal ob -> s' = s.
Proof.
  destruct s as [q c]. intros H Hr.
  destruct o; cbn [step] in H;
  try (match type of H with bind (toarray _) _ = _ => destruct (toarray q) as [r| |]; cbn [bind] in H; try discriminate; inversion H; reflexivity end);
  try (match type of H with bind (tostring _) _ = _ => destruct (tostring q) as [r| |]; cbn [bind] in H; try discriminate; inversion H; reflexivity end);
  try (match type of H with bind ?m _ = _ => destruct m as [[q1 r1]| |] eqn:E; cbn [bind fst snd] in H; try discriminate end);
  try (inversion H; subst; clear H);
  try (destruct r1; cbn in Hr; try contradiction);
  try (apply addat_refused in E; subst; reflexivity);
  try (apply get_at_refused in E; subst; reflexivity);
  try (apply removeat_refused in E; subst; reflexivity);
  try (apply getnext_refused in E; subst; reflexivity);
  try (cbn in Hr; contradiction); try reflexivity.
Qed.

(* ---------------------------------------------------------------- forward walking *)
Lemma skipn_nth {A} : forall (l : list A) k b, nth_error l k = Some b -> skipn k l = b :: skipn (S k) l.
Proof.
  induction l as [|a l IH]; intros k b H; destruct k; try discriminate.
  - cbn in H. inversion H; subst. reflexivity.
  - cbn in H. cbn [skipn]. rewrite (IH _ _ H). reflexivity.
Qed.
Lemma srun_walk_at nm : forall j l m k, length l = (k + j)%nat ->
  srun (mkS l m (CAt k)) (repeat (GetNext nm) (S j)) = (mkS l m (CAt (k + j)), map OData (skipn k l) ++ [OFail ENOENT]).
Proof.
  induction j as [|j IH]; intros l m k Hl.
  - cbn [repeat srun sstep s_next scu sl smax].
    assert (E : nth_error l k = None) by (apply nth_error_None; lia). rewrite E.
    rewrite skipn_all2 by lia. rewrite Nat.add_0_r. reflexivity.
  - change (repeat (GetNext nm) (S (S j))) with (GetNext nm :: repeat (GetNext nm) (S j)).
    cbn [srun sstep s_next scu sl smax].
    destruct (nth_error l k) as [b|] eqn:E; [|apply nth_error_None in E; lia].
    rewrite (IH l m (S k) ltac:(lia)).
    rewrite (skipn_nth _ _ _ E). cbn [map app]. replace (S k + j)%nat with (k + S j)%nat by lia. reflexivity.
Qed.
Lemma srun_walk nm l m c :
  srun (mkS l m c) (CurReset :: repeat (GetNext nm) (S (length l))) =
  (mkS l m (match l with [] => CFresh | _ => CAt (length l) end), OOk :: map OData l ++ [OFail ENOENT]).
Proof.
  cbn [srun sstep sl smax]. destruct l as [|b r].
  - reflexivity.
  - change (repeat (GetNext nm) (S (length (b :: r)))) with (GetNext nm :: repeat (GetNext nm) (S (length r))).
    cbn [srun sstep s_next scu sl smax].
    rewrite (srun_walk_at nm (length r) (b :: r) m 1%nat ltac:(cbn [length]; lia)). cbn [skipn map app]. replace (1 + length r)%nat with (S (length r)) by lia. reflexivity.
Qed.
Lemma sl_next st : sl (fst (s_next st)) = sl st.
Proof. unfold s_next. destruct (scu st); [destruct (sl st) eqn:E|destruct (nth_error (sl st) k)|]; cbn [fst sl]; auto. Qed.
Lemma bounded_nexts nm : forall n st, len (sl st) < 2^31 -> bounded st (repeat (GetNext nm) n).
Proof.
  induction n as [|n IH]; intros st H; cbn [repeat bounded]; [exact Logic.I|]. split; [exact H|].
  apply IH. cbn [sstep]. rewrite sl_next. exact H.
Qed.
Lemma wf_nexts nm n : Forall wf_op (repeat (GetNext nm) n).
Proof. apply Forall_forall. intros o Ho. apply repeat_spec in Ho. subst. exact Logic.I. Qed.

Theorem walk_all s st nm : Inv (fst s) -> R s st -> len (sl st) < 2^31 ->
  exists s', run s (CurReset :: repeat (GetNext nm) (S (length (sl st)))) = Ok (s', OOk :: map OData (sl st) ++ [OFail ENOENT]) /\
             Inv (fst s') /\ datas (items (fst s')) = sl st.
Proof.
  intros I HR Hn. destruct st as [l m c]. cbn [sl] in *.
  pose proof (srun_walk nm l m c) as Hs.
  destruct (run_refines (CurReset :: repeat (GetNext nm) (S (length l))) s (mkS l m c) I HR) as (s' & Hr & I' & (Hd & _)).
  - constructor; [exact Logic.I|apply wf_nexts].
  - cbn [bounded]. split; [exact Hn|]. apply bounded_nexts. exact Hn.
  - unfold defined. rewrite Hs. cbn [snd]. intros [H|H]; [discriminate|]. apply in_app_or in H as [H|H].
    + apply in_map_iff in H as (y & Hy & _). discriminate.
    + destruct H as [H|[]]. discriminate.
  - rewrite Hs in Hr, Hd. cbn [fst snd sl] in *. exists s'. auto.
Qed.

Lemma run_app : forall h1 h2 s,
  run s (h1 ++ h2) = bind (run s h1) (fun p => bind (run (fst p) h2) (fun q => Ok (fst q, snd p ++ snd q))).
Proof.
  induction h1 as [|o r IH]; intros h2 s; cbn [app run bind fst snd].
  - destruct (run s h2) as [[s2 o2]| |]; reflexivity.
  - destruct (step s o) as [[s1 ob]| |]; cbn [bind fst snd]; try reflexivity. rewrite IH.
    destruct (run s1 r) as [[s2 o2]| |]; cbn [bind fst snd]; try reflexivity.
    destruct (run s2 h2) as [[s3 o3]| |]; reflexivity.
Qed.

(* after any history, a fresh walk returns exactly the current contents, front to back, then reports the end *)
Theorem walk_after_history h nm : Forall wf_op h -> bounded sinit h -> defined sinit h ->
  len (sl (fst (srun sinit h))) < 2^31 ->
  let l := sl (fst (srun sinit h)) in
  exists s', run init (h ++ CurReset :: repeat (GetNext nm) (S (length l))) =
             Ok (s', snd (srun sinit h) ++ OOk :: map OData l ++ [OFail ENOENT]).
Proof.
  intros Hw Hb Hd Hn l. destruct (run_refines h init sinit Inv_init R_init Hw Hb Hd) as (s & Hr & I & HR).
  destruct (walk_all s (fst (srun sinit h)) nm I HR Hn) as (s' & Hr' & _).
  rewrite run_app, Hr. cbn [bind fst snd]. fold l in Hr'. rewrite Hr'. cbn [bind fst snd]. exists s'. reflexivity.
Qed.
