(* C09: queue, stack and grow buffer refine their ideal counterparts; FIFO, LIFO and concatenation corollaries. *)
From Coq Require Import NArith ZArith List Bool Lia.
From QV.Base Require Import Res.
From QV.Gen Require Import SeqWrap.
From QV.Seq Require Import ListModel ListSpec WrapModel WrapSpec ListProofs.
Import ListNotations. Import QL QLS QW QWS.
Local Open Scope Z_scope.

Lemma cstrlen_upto s : cstrlen_prefix s = upto_nul s.
Proof. induction s as [|c r IH]; cbn; [reflexivity|]. rewrite IH. reflexivity. Qed.
Lemma upto_nul_snoc x : upto_nul (x ++ [0%N]) = upto_nul x.
Proof. induction x as [|c r IH]; cbn; [reflexivity|]. rewrite IH. reflexivity. Qed.
Lemma str_view b : cstrlen_prefix (force_nul b) = as_cstr b.
Proof. unfold force_nul, as_cstr. rewrite cstrlen_upto. apply upto_nul_snoc. Qed.

Lemma ins_pos_0 n : 0 <= n -> ins_pos n 0 = Some 0%nat.
Proof. intros. unfold ins_pos. cbn [Z.ltb Z.compare]. destruct (Z.leb_spec 0 0); [|lia]. destruct (Z.leb_spec 0 n); [reflexivity|lia]. Qed.
Lemma ins_pos_m1 n : 0 <= n -> ins_pos n (-1) = Some (Z.to_nat n).
Proof.
  intros. unfold ins_pos. cbn [Z.ltb Z.compare]. replace (n + -1 + 1) with n by lia.
  destruct (Z.leb_spec 0 n); [|lia]. destruct (Z.leb_spec n n); [reflexivity|lia].
Qed.
Lemma acc_res_nil i : acc_res [] i = None.
Proof.
  unfold acc_res, acc_pos. cbn [len length Z.of_nat]. set (p := if i <? 0 then 0 + i else i).
  destruct (Z.leb_spec 0 p); destruct (Z.ltb_spec p 0); try reflexivity; lia.
Qed.
Lemma acc_res_front b r : acc_res (b :: r) 0 = Some (0%nat, b).
Proof.
  unfold acc_res, acc_pos. cbn [Z.ltb Z.compare]. rewrite len_cons. pose proof (len_nonneg r).
  destruct (Z.leb_spec 0 0); [|lia]. destruct (Z.ltb_spec 0 (len r + 1)); [reflexivity|lia].
Qed.

(* the ends addressed by the wrapper functions, as read from the source by the translator, are the expected ones:
   queue pushes at the back, stack pushes at the front, both pop and get at the front; grow adds at the back *)
Definition push_index (k : kind) : Z := match k with Queue => -1 | Stack => 0 end.
Lemma wrap_ends k f : end_of k f = match f with FPush | FPushStr | FPushInt => push_index k | _ => 0 end.
Proof. destruct k, f; reflexivity. Qed.
Lemma grow_ends : grow_add_index = -1 /\ grow_addstr_index = -1.
Proof. split; reflexivity. Qed.

Definition WR (q : qlist) (st : wstate) : Prop := datas (items q) = fst st /\ maxn q = snd st.

Lemma ws_push_res k l m d :
  ws_push k (l, m) d = ((fst (add_res l m (push_index k) d), m), ob_err (snd (add_res l m (push_index k) d))).
Proof.
  unfold ws_push, add_res. destruct d as [[|c b]|]; try reflexivity.
  destruct ((0 <? m) && (m <=? len l)); [reflexivity|]. pose proof (len_nonneg l).
  destruct k; cbn [push_index].
  - rewrite ins_pos_m1 by lia. unfold len. rewrite Nat2Z.id, insert_at_end. reflexivity.
  - rewrite ins_pos_0 by lia. reflexivity.
Qed.
Lemma int_push k : int (push_index k).
Proof. destruct k; cbn; unfold int; lia. Qed.

Lemma push_step k q st d : Inv q -> WR q st -> len (fst st) < 2^31 ->
  exists q' r, addat q (push_index k) d = Ok (q', r) /\ ob_err r = snd (ws_push k st d) /\ Inv q' /\ WR q' (fst (ws_push k st d)).
Proof.
  intros I [Hd Hm] Hn. destruct st as [l m]. cbn [fst snd] in *.
  assert (Hn' : len (items q) < 2^31) by (rewrite <- Hd in Hn; unfold datas in Hn; rewrite len_map in Hn; exact Hn).
  destruct (addat_ok q (push_index k) d I Hn' (int_push k)) as (q' & Ha & I' & Hd' & Hm' & _). rewrite Hd, Hm in *.
  rewrite ws_push_res. exists q'. eexists. split; [exact Ha|]. split; [reflexivity|]. split; [exact I'|].
  split; cbn [fst snd]; congruence.
Qed.
Lemma wget q st i rm : Inv q -> WR q st -> len (fst st) < 2^31 -> int i ->
  match acc_res (fst st) i with
  | None => get_at q i rm = Ok (q, inr ERANGE)
  | Some (p, b) => exists q', get_at q i rm = Ok (q', inl b) /\ Inv q' /\
                     WR q' (if rm then remove_at p (fst st) else fst st, snd st)
  end.
Proof.
  intros I [Hd Hm] Hn Hi.
  assert (Hn' : len (items q) < 2^31) by (rewrite <- Hd in Hn; unfold datas in Hn; rewrite len_map in Hn; exact Hn).
  pose proof (get_at_ok q i rm I Hn' Hi) as H. rewrite Hd in H. destruct (acc_res (fst st) i) as [[p b]|]; [|exact H].
  destruct H as (q' & Hg & I' & Hm' & Hd' & _). exists q'. split; [exact Hg|]. split; [exact I'|].
  split; cbn [fst snd]; [|congruence]. destruct rm; congruence.
Qed.

Definition wf_wop (o : wop) : Prop := match o with WPopAt i | WGetAt i _ => int i | _ => True end.

Lemma popat_spec k l m i :
  wsstep k (l, m) (WPopAt i) = match acc_res l i with Some (p, b) => ((remove_at p l, m), OData b) | None => ((l, m), OFail ERANGE) end.
Proof. cbn [wsstep]. unfold acc_res. destruct (acc_pos (len l) i); [|reflexivity]. destruct (nth_error l n); reflexivity. Qed.
Lemma getat_spec k l m i nm :
  wsstep k (l, m) (WGetAt i nm) = match acc_res l i with Some (p, b) => ((l, m), OData b) | None => ((l, m), OFail ERANGE) end.
Proof. cbn [wsstep]. unfold acc_res. destruct (acc_pos (len l) i); [|reflexivity]. destruct (nth_error l n); reflexivity. Qed.

Lemma wstep_refines k q st o : Inv q -> WR q st -> len (fst st) < 2^31 -> wf_wop o -> snd (wsstep k st o) <> OUndef ->
  exists q', wstep k q o = Ok (q', snd (wsstep k st o)) /\ Inv q' /\ WR q' (fst (wsstep k st o)).
Proof.
  intros I HR Hn Hw Hu.
  destruct o; cbn [wstep wf_wop] in *; rewrite ?wrap_ends.
  - (* push *)
    destruct (push_step k q st d I HR Hn) as (q' & r & Ha & Ho & I' & HR'). rewrite Ha. cbn [bind fst snd]. rewrite Ho.
    destruct st. exists q'. auto.
  - (* pushstr *)
    destruct s as [s|].
    + destruct (push_step k q st (Some (upto_nul s ++ [0%N])) I HR Hn) as (q' & r & Ha & Ho & I' & HR').
      rewrite cstrlen_upto, Ha. cbn [bind fst snd]. rewrite Ho. destruct st. exists q'. auto.
    + destruct st. exists q. auto.
  - (* pushint *)
    destruct (push_step k q st (Some (int_bytes z)) I HR Hn) as (q' & r & Ha & Ho & I' & HR'). rewrite Ha. cbn [bind fst snd]. rewrite Ho.
    destruct st. exists q'. auto.
  - (* pop *)
    pose proof (wget q st 0 true I HR Hn int_0) as H. destruct st as [[|b r] m]; cbn [fst snd wsstep] in *.
    + rewrite acc_res_nil in H. rewrite H. exists q. auto.
    + rewrite acc_res_front in H. destruct H as (q' & Hg & I' & HR'). rewrite Hg. exists q'. auto.
  - (* popstr *)
    pose proof (wget q st 0 true I HR Hn int_0) as H. destruct st as [[|b r] m]; cbn [fst snd wsstep] in *.
    + rewrite acc_res_nil in H. rewrite H. exists q. auto.
    + rewrite acc_res_front in H. destruct H as (q' & Hg & I' & HR'). rewrite Hg. cbn [bind fst snd str_obs]. rewrite str_view. exists q'. auto.
  - (* popint *)
    pose proof (wget q st 0 true I HR Hn int_0) as H. destruct st as [[|b r] m]; cbn [fst snd wsstep] in *.
    + rewrite acc_res_nil in H. rewrite H. exists q. auto.
    + rewrite acc_res_front in H. destruct H as (q' & Hg & I' & HR'). rewrite Hg. cbn [bind fst snd int_obs].
      unfold as_int, read_int in *. destruct (Nat.ltb (length b) 8); [congruence|]. exists q'. auto.
  - (* popat *)
    pose proof (wget q st i true I HR Hn Hw) as H. destruct st as [l m]. rewrite popat_spec in *. cbn [fst snd] in *.
    destruct (acc_res l i) as [[p b]|].
    + destruct H as (q' & Hg & I' & HR'). rewrite Hg. exists q'. auto.
    + rewrite H. exists q. auto.
  - (* get *)
    pose proof (wget q st 0 false I HR Hn int_0) as H. destruct st as [[|b r] m]; cbn [fst snd wsstep] in *.
    + rewrite acc_res_nil in H. rewrite H. exists q. auto.
    + rewrite acc_res_front in H. destruct H as (q' & Hg & I' & HR'). rewrite Hg. exists q'. auto.
  - (* getstr *)
    pose proof (wget q st 0 false I HR Hn int_0) as H. destruct st as [[|b r] m]; cbn [fst snd wsstep] in *.
    + rewrite acc_res_nil in H. rewrite H. exists q. auto.
    + rewrite acc_res_front in H. destruct H as (q' & Hg & I' & HR'). rewrite Hg. cbn [bind fst snd str_obs]. rewrite str_view. exists q'. auto.
  - (* getint *)
    pose proof (wget q st 0 false I HR Hn int_0) as H. destruct st as [[|b r] m]; cbn [fst snd wsstep] in *.
    + rewrite acc_res_nil in H. rewrite H. exists q. auto.
    + rewrite acc_res_front in H. destruct H as (q' & Hg & I' & HR'). rewrite Hg. cbn [bind fst snd int_obs].
      unfold as_int, read_int in *. destruct (Nat.ltb (length b) 8); [congruence|]. exists q'. auto.
  - (* getat *)
    pose proof (wget q st i false I HR Hn Hw) as H. destruct st as [l m]. rewrite getat_spec in *. cbn [fst snd] in *.
    destruct (acc_res l i) as [[p b]|].
    + destruct H as (q' & Hg & I' & HR'). rewrite Hg. exists q'. auto.
    + rewrite H. exists q. auto.
  - (* size *)
    destruct HR as [Hd Hm]. destruct st as [l m]; cbn [fst snd wsstep] in *.
    assert (E : len l = num q) by (rewrite (inv_num q I), <- Hd; unfold datas; apply len_map). rewrite E.
    exists q. split; [reflexivity|]. split; [exact I|]. split; auto.
  - (* clear *)
    destruct HR as [Hd Hm]. destruct st as [l m]; cbn [fst snd wsstep] in *. exists (clear q). split; [reflexivity|].
    split; [apply Inv_clear; exact I|]. split; cbn; auto.
  - (* setsize *)
    destruct HR as [Hd Hm]. destruct st as [l m0]; cbn [fst snd wsstep] in *. rewrite <- Hm. eexists. split; [reflexivity|].
    split; [apply (Inv_setsize q m I)|]. split; cbn; auto.
Qed.

(* ---------------------------------------------------------------- whole wrapper histories *)
Fixpoint wbounded (k : kind) (st : wstate) (h : list wop) : Prop :=
  match h with
  | [] => True
  | o :: r => len (fst st) < 2^31 /\ wbounded k (fst (wsstep k st o)) r
  end.
Definition wdefined (k : kind) (st : wstate) (h : list wop) : Prop := ~ In OUndef (snd (wsrun k st h)).

Lemma wrun_refines k : forall h q st, Inv q -> WR q st -> Forall wf_wop h -> wbounded k st h -> wdefined k st h ->
  exists q', wrun k q h = Ok (q', snd (wsrun k st h)) /\ Inv q' /\ WR q' (fst (wsrun k st h)).
Proof.
  induction h as [|o r IH]; intros q st I HR Hw Hb Hdef.
  - exists q. cbn. auto.
  - inversion Hw as [|? ? Hwo Hwr]; subst. destruct Hb as [Hn Hb]. unfold wdefined in Hdef. cbn [wsrun wrun] in *.
    destruct (wsstep k st o) as [st1 ob] eqn:E1. destruct (wsrun k st1 r) as [st2 obs] eqn:E2. cbn [fst snd] in *.
    destruct (wstep_refines k q st o I HR Hn Hwo) as (q1 & Hs & I1 & HR1).
    { rewrite E1. cbn. intros ->. apply Hdef. left. reflexivity. }
    rewrite E1 in Hs, HR1. cbn [fst snd] in *. rewrite Hs. cbn [bind fst snd].
    destruct (IH q1 st1 I1 HR1 Hwr Hb) as (q2 & Hr & I2 & HR2).
    { unfold wdefined. rewrite E2. cbn. intros Hin. apply Hdef. right. exact Hin. }
    rewrite E2 in Hr, HR2. cbn [fst snd] in *. rewrite Hr. cbn [bind fst snd]. exists q2. auto.
Qed.
Lemma WR_init : WR linit winit. Proof. split; reflexivity. Qed.

(* ---------------------------------------------------------------- grow *)
Lemma gs_add_push l d : ws_push Queue (l, 0) d = ((fst (gs_add l d), 0), snd (gs_add l d)).
Proof. unfold ws_push, gs_add. destruct d as [[|c b]|]; reflexivity. Qed.

Lemma gstep_refines q l o : Inv q -> WR q (l, 0) -> len l < 2^31 -> snd (gsstep l o) <> OUndef ->
  exists q', gstep q o = Ok (q', snd (gsstep l o)) /\ Inv q' /\ WR q' (fst (gsstep l o), 0).
Proof.
  intros I HR Hn Hu. destruct grow_ends as [Eg1 Eg2]. destruct o; cbn [gstep gsstep] in *; rewrite ?Eg1, ?Eg2.
  - destruct (push_step Queue q (l, 0) d I HR Hn) as (q' & r & Ha & Ho & I' & HR'). cbn [push_index] in Ha. rewrite Ha. cbn [bind fst snd].
    rewrite Ho. rewrite gs_add_push in *. cbn [fst snd] in *. exists q'. auto.
  - destruct s as [s|]; [|cbn in Hu; congruence].
    destruct (push_step Queue q (l, 0) (Some (upto_nul s)) I HR Hn) as (q' & r & Ha & Ho & I' & HR'). cbn [push_index] in Ha.
    rewrite cstrlen_upto, Ha. cbn [bind fst snd]. rewrite Ho. rewrite gs_add_push in *. cbn [fst snd] in *. exists q'. auto.
  - destruct HR as [Hd Hm]. cbn [fst snd] in *.
    assert (E : len l = num q) by (rewrite (inv_num q I), <- Hd; unfold datas; apply len_map). rewrite E.
    exists q. split; [reflexivity|]. split; [exact I|]. split; auto.
  - destruct HR as [Hd Hm]. cbn [fst snd] in *.
    assert (E : total l = datasum q) by (rewrite (inv_sum q I), <- Hd; reflexivity). rewrite E.
    exists q. split; [reflexivity|]. split; [exact I|]. split; auto.
  - pose proof HR as [Hd Hm]. cbn [fst snd] in *. rewrite (toarray_ok q I), Hd. cbn [bind].
    exists q. split; [destruct l; reflexivity|]. auto.
  - pose proof HR as [Hd Hm]. cbn [fst snd] in *. rewrite (tostring_ok q I), Hd. cbn [bind].
    exists q. split; [destruct l; reflexivity|]. auto.
  - destruct HR as [Hd Hm]. cbn [fst snd] in *. exists (clear q). split; [reflexivity|]. split; [apply Inv_clear; exact I|]. split; cbn; auto.
Qed.
Fixpoint gbounded (l : list bstr) (h : list gop) : Prop :=
  match h with
  | [] => True
  | o :: r => len l < 2^31 /\ gbounded (fst (gsstep l o)) r
  end.
Definition gdefined (l : list bstr) (h : list gop) : Prop := ~ In OUndef (snd (gsrun l h)).
Lemma grun_refines : forall h q l, Inv q -> WR q (l, 0) -> gbounded l h -> gdefined l h ->
  exists q', grun q h = Ok (q', snd (gsrun l h)) /\ Inv q' /\ WR q' (fst (gsrun l h), 0).
Proof.
  induction h as [|o r IH]; intros q l I HR Hb Hdef.
  - exists q. cbn. auto.
  - destruct Hb as [Hn Hb]. unfold gdefined in Hdef. cbn [gsrun grun] in *.
    destruct (gsstep l o) as [l1 ob] eqn:E1. destruct (gsrun l1 r) as [l2 obs] eqn:E2. cbn [fst snd] in *.
    destruct (gstep_refines q l o I HR Hn) as (q1 & Hs & I1 & HR1).
    { rewrite E1. cbn. intros ->. apply Hdef. left. reflexivity. }
    rewrite E1 in Hs, HR1. cbn [fst snd] in *. rewrite Hs. cbn [bind fst snd].
    destruct (IH q1 l1 I1 HR1 Hb) as (q2 & Hr & I2 & HR2).
    { unfold gdefined. rewrite E2. cbn. intros Hin. apply Hdef. right. exact Hin. }
    rewrite E2 in Hr, HR2. cbn [fst snd] in *. rewrite Hr. cbn [bind fst snd]. exists q2. auto.
Qed.

(* ---------------------------------------------------------------- FIFO / LIFO / concatenation *)
Definition pushes (xs : list bstr) : list wop := map (fun b => WPush (Some b)) xs.
Definition adds (ps : list bstr) : list gop := map (fun b => GAdd (Some b)) ps.
Definition nonempty (b : bstr) : Prop := b <> [].

Lemma wsrun_app k : forall h1 h2 st,
  wsrun k st (h1 ++ h2) = (fst (wsrun k (fst (wsrun k st h1)) h2), snd (wsrun k st h1) ++ snd (wsrun k (fst (wsrun k st h1)) h2)).
Proof.
  induction h1 as [|o r IH]; intros h2 st; cbn [app wsrun fst snd].
  - destruct (wsrun k st h2); reflexivity.
  - destruct (wsstep k st o) as [st1 ob]. rewrite IH. destruct (wsrun k st1 r) as [st2 obs]. cbn [fst snd].
    destruct (wsrun k st2 h2); reflexivity.
Qed.
Lemma wbounded_app k : forall h1 h2 st, wbounded k st h1 -> wbounded k (fst (wsrun k st h1)) h2 -> wbounded k st (h1 ++ h2).
Proof.
  induction h1 as [|o r IH]; intros h2 st H1 H2; cbn [app wsrun wbounded] in *; [exact H2|].
  destruct H1 as [Hn H1]. split; [exact Hn|]. apply IH; [exact H1|].
  destruct (wsstep k st o) as [st1 ob]. cbn [fst snd] in *. destruct (wsrun k st1 r) as [st2 obs]. exact H2.
Qed.

Lemma push_ok k l b : nonempty b -> wsstep k (l, 0) (WPush (Some b)) = ((match k with Queue => l ++ [b] | Stack => b :: l end, 0), OOk).
Proof. intros H. destruct b; [congruence|]. reflexivity. Qed.

Lemma wsrun_pushes_q : forall xs l, Forall nonempty xs -> wsrun Queue (l, 0) (pushes xs) = ((l ++ xs, 0), repeat OOk (length xs)).
Proof.
  induction xs as [|b r IH]; intros l H; cbn [pushes map wsrun].
  - rewrite app_nil_r. reflexivity.
  - inversion H; subst. rewrite push_ok by auto. fold (pushes r). rewrite IH by auto. rewrite <- app_assoc. reflexivity.
Qed.
Lemma wsrun_pushes_s : forall xs l, Forall nonempty xs -> wsrun Stack (l, 0) (pushes xs) = ((rev xs ++ l, 0), repeat OOk (length xs)).
Proof.
  induction xs as [|b r IH]; intros l H; cbn [pushes map wsrun].
  - reflexivity.
  - inversion H; subst. rewrite push_ok by auto. fold (pushes r). rewrite IH by auto. cbn [rev]. rewrite <- app_assoc. reflexivity.
Qed.
Lemma wsrun_pops k : forall xs l m, wsrun k (xs ++ l, m) (repeat WPop (length xs)) = ((l, m), map OData xs).
Proof.
  induction xs as [|b r IH]; intros l m; cbn [length repeat app wsrun map]; [reflexivity|].
  cbn [wsstep]. rewrite IH. reflexivity.
Qed.
Lemma wsrun_pops_all k xs m : wsrun k (xs, m) (repeat WPop (length xs)) = (([], m), map OData xs).
Proof. pose proof (wsrun_pops k xs [] m) as H. rewrite app_nil_r in H. exact H. Qed.
Lemma wbounded_pushes k : forall xs l, Forall nonempty xs -> len l + len xs <= 2^31 -> wbounded k (l, 0) (pushes xs).
Proof.
  induction xs as [|b r IH]; intros l H Hn; cbn [pushes map wbounded]; [exact Logic.I|].
  inversion H; subst. rewrite len_cons in Hn. pose proof (len_nonneg r). split; [cbn [fst]; lia|].
  rewrite push_ok by auto. cbn [fst]. apply IH; auto.
  destruct k; [rewrite len_app, len_cons|rewrite len_cons]; cbn [len length Z.of_nat]; lia.
Qed.
Lemma wbounded_pops k : forall n l m, len l < 2^31 -> wbounded k (l, m) (repeat WPop n).
Proof.
  induction n as [|n IH]; intros l m Hn; cbn [repeat wbounded]; [exact Logic.I|]. split; [exact Hn|].
  destruct l as [|b r]; cbn [wsstep fst]; apply IH; [exact Hn|]. rewrite len_cons in Hn. lia.
Qed.
Lemma no_undef_outputs n ys : ~ In OUndef (repeat OOk n ++ map OData ys).
Proof.
  intros H. apply in_app_or in H as [H|H].
  - apply repeat_spec in H. discriminate.
  - apply in_map_iff in H as (y & Hy & _). discriminate.
Qed.
Lemma Forall_wf_app (h1 h2 : list wop) : Forall wf_wop h1 -> Forall wf_wop h2 -> Forall wf_wop (h1 ++ h2).
Proof. intros. apply Forall_app. auto. Qed.
Lemma wf_pushes xs : Forall wf_wop (pushes xs).
Proof. unfold pushes. apply Forall_forall. intros o Ho. apply in_map_iff in Ho as (b & <- & _). exact Logic.I. Qed.
Lemma wf_pops n : Forall wf_wop (repeat WPop n).
Proof. apply Forall_forall. intros o Ho. apply repeat_spec in Ho. subst. exact Logic.I. Qed.

Theorem queue_fifo xs : Forall nonempty xs -> len xs < 2^31 ->
  exists q, wrun Queue linit (pushes xs ++ repeat WPop (length xs)) = Ok (q, repeat OOk (length xs) ++ map OData xs) /\ items q = [].
Proof.
  intros Hx Hn.
  assert (Hs : wsrun Queue winit (pushes xs ++ repeat WPop (length xs)) = (([], 0), repeat OOk (length xs) ++ map OData xs)).
  { rewrite wsrun_app. unfold winit. rewrite wsrun_pushes_q by auto. cbn [fst snd app].
    rewrite wsrun_pops_all. reflexivity. }
  destruct (wrun_refines Queue (pushes xs ++ repeat WPop (length xs)) linit winit Inv_init WR_init) as (q & Hr & I & [Hd Hm]).
  - apply Forall_wf_app; [apply wf_pushes|apply wf_pops].
  - apply wbounded_app; [apply wbounded_pushes; auto; cbn; lia|]. unfold winit. rewrite wsrun_pushes_q by auto. cbn [fst app].
    apply wbounded_pops. exact Hn.
  - unfold wdefined. rewrite Hs. apply no_undef_outputs.
  - rewrite Hs in *. cbn [fst snd] in *. exists q. split; [exact Hr|]. unfold datas in Hd. apply map_eq_nil in Hd. exact Hd.
Qed.
Theorem stack_lifo xs : Forall nonempty xs -> len xs < 2^31 ->
  exists q, wrun Stack linit (pushes xs ++ repeat WPop (length xs)) = Ok (q, repeat OOk (length xs) ++ map OData (rev xs)) /\ items q = [].
Proof.
  intros Hx Hn.
  assert (Hs : wsrun Stack winit (pushes xs ++ repeat WPop (length xs)) = (([], 0), repeat OOk (length xs) ++ map OData (rev xs))).
  { rewrite wsrun_app. unfold winit. rewrite wsrun_pushes_s by auto. cbn [fst snd]. rewrite app_nil_r.
    pose proof (wsrun_pops_all Stack (rev xs) 0) as Hp. rewrite rev_length in Hp. rewrite Hp. reflexivity. }
  destruct (wrun_refines Stack (pushes xs ++ repeat WPop (length xs)) linit winit Inv_init WR_init) as (q & Hr & I & [Hd Hm]).
  - apply Forall_wf_app; [apply wf_pushes|apply wf_pops].
  - apply wbounded_app; [apply wbounded_pushes; auto; cbn; lia|]. unfold winit. rewrite wsrun_pushes_s by auto. cbn [fst].
    apply wbounded_pops. rewrite app_nil_r. unfold len. rewrite rev_length. exact Hn.
  - unfold wdefined. rewrite Hs. apply no_undef_outputs.
  - rewrite Hs in *. cbn [fst snd] in *. exists q. split; [exact Hr|]. unfold datas in Hd. apply map_eq_nil in Hd. exact Hd.
Qed.

Lemma gsrun_app : forall h1 h2 l,
  gsrun l (h1 ++ h2) = (fst (gsrun (fst (gsrun l h1)) h2), snd (gsrun l h1) ++ snd (gsrun (fst (gsrun l h1)) h2)).
Proof.
  induction h1 as [|o r IH]; intros h2 l; cbn [app gsrun fst snd].
  - destruct (gsrun l h2); reflexivity.
  - destruct (gsstep l o) as [l1 ob]. rewrite IH. destruct (gsrun l1 r) as [l2 obs]. cbn [fst snd].
    destruct (gsrun l2 h2); reflexivity.
Qed.
Lemma gbounded_app : forall h1 h2 l, gbounded l h1 -> gbounded (fst (gsrun l h1)) h2 -> gbounded l (h1 ++ h2).
Proof.
  induction h1 as [|o r IH]; intros h2 l H1 H2; cbn [app gsrun gbounded] in *; [exact H2|].
  destruct H1 as [Hn H1]. split; [exact Hn|]. apply IH; [exact H1|].
  destruct (gsstep l o) as [l1 ob]. cbn [fst snd] in *. destruct (gsrun l1 r) as [l2 obs]. exact H2.
Qed.
Lemma add_ok l b : nonempty b -> gsstep l (GAdd (Some b)) = (l ++ [b], OOk).
Proof. intros H. destruct b; [congruence|]. reflexivity. Qed.
Lemma gsrun_adds : forall ps l, Forall nonempty ps -> gsrun l (adds ps) = (l ++ ps, repeat OOk (length ps)).
Proof.
  induction ps as [|b r IH]; intros l H; cbn [adds map gsrun].
  - rewrite app_nil_r. reflexivity.
  - inversion H; subst. rewrite add_ok by auto. fold (adds r). rewrite IH by auto. rewrite <- app_assoc. reflexivity.
Qed.
Lemma gbounded_adds : forall ps l, Forall nonempty ps -> len l + len ps <= 2^31 -> gbounded l (adds ps).
Proof.
  induction ps as [|b r IH]; intros l H Hn; cbn [adds map gbounded]; [exact Logic.I|].
  inversion H; subst. rewrite len_cons in Hn. pose proof (len_nonneg r). split; [lia|].
  rewrite add_ok by auto. cbn [fst]. apply IH; auto. rewrite len_app, len_cons. cbn [len length Z.of_nat]. lia.
Qed.

Theorem grow_concat ps : Forall nonempty ps -> ps <> [] -> len ps < 2^31 ->
  exists q, grun linit (adds ps ++ [GToArray; GToString; GSize; GDataSize]) =
            Ok (q, repeat OOk (length ps) ++ [OArr (concat ps) (total ps); OStr (concat (map strip ps) ++ [0%N]); ONum (len ps); ONum (total ps)]).
Proof.
  intros Hp Hne Hn.
  assert (Hs : gsrun [] (adds ps ++ [GToArray; GToString; GSize; GDataSize]) =
               (ps, repeat OOk (length ps) ++ [OArr (concat ps) (total ps); OStr (concat (map strip ps) ++ [0%N]); ONum (len ps); ONum (total ps)])).
  { rewrite gsrun_app. rewrite gsrun_adds by auto. cbn [fst snd app gsrun gsstep]. destruct ps; [congruence|reflexivity]. }
  destruct (grun_refines (adds ps ++ [GToArray; GToString; GSize; GDataSize]) linit [] Inv_init WR_init) as (q & Hr & _).
  - apply gbounded_app; [apply gbounded_adds; auto; cbn; lia|]. rewrite gsrun_adds by auto. cbn [fst app gbounded gsstep]. auto.
  - unfold gdefined. rewrite Hs. intros H. apply in_app_or in H as [H|H]; [apply repeat_spec in H; discriminate|].
    cbn in H. repeat (destruct H as [H|H]; [discriminate|]). exact H.
  - rewrite Hs in Hr. exists q. exact Hr.
Qed.
Definition no_trailing_nul (b : bstr) : Prop := match rev b with c :: _ => N.eqb c 0 = false | [] => True end.
Lemma strip_id ps : Forall no_trailing_nul ps -> map strip ps = ps.
Proof.
  induction 1 as [|b r Hb _ IH]; [reflexivity|]. cbn [map]. rewrite IH. f_equal.
  unfold strip, no_trailing_nul in *. destruct (rev b); [reflexivity|]. rewrite Hb. reflexivity.
Qed.
(* integers and strings travel unchanged *)
Lemma le_roundtrip : forall n z, 0 <= z < 256 ^ Z.of_nat n -> le_val (le_bytes n z) = z.
Proof.
  induction n as [|n IH]; intros z Hz.
  - cbn in *. lia.
  - cbn [le_bytes le_val]. rewrite Nat2Z.inj_succ, Z.pow_succ_r in Hz by lia.
    rewrite IH by (split; [apply Z.div_pos; lia|apply Z.div_lt_upper_bound; lia]).
    rewrite Z2N.id by (apply Z.mod_pos_bound; lia). pose proof (Z.div_mod z 256). lia.
Qed.
Lemma int_roundtrip z : - 2^63 <= z < 2^63 -> read_int (int_bytes z) = Ok z.
Proof.
  intros Hz. unfold read_int, int_bytes. cbn [le_bytes length Nat.ltb Nat.leb firstn].
  change (firstn 8 ?l) with l. fold (le_bytes 8 (z mod 2^64)).
  rewrite le_roundtrip by (change (256 ^ Z.of_nat 8) with (2^64); apply Z.mod_pos_bound; lia).
  unfold i64. f_equal. destruct (Z_lt_le_dec z 0).
  - assert (E1 : z mod 2^64 = z + 2^64) by (symmetry; apply (Z.mod_unique _ _ (-1)); lia). rewrite E1.
    assert (E2 : (z + 2^64 + 2^63) mod 2^64 = z + 2^63) by (symmetry; apply (Z.mod_unique _ _ 1); lia). rewrite E2. lia.
  - rewrite (Z.mod_small z) by lia. rewrite Z.mod_small by lia. lia.
Qed.
