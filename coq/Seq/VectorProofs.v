(* C10 — proofs: the model of qvector.c refines the list-of-elements specification. *)
From Coq Require Import ZArith List Bool Arith Lia.
From QV.Base Require Import Res.
From QV.Seq Require Import VectorModel VectorSpec.
Import ListNotations.
Ltac Zify.zify_post_hook ::= Z.div_mod_to_equations.

(* ------------------------------------------------------------------------------------------------ *)
(* A. int / size_t conversions under the stated ranges                                               *)
Lemma u64_id z : (0 <= z < 2 ^ 64)%Z -> vec_u64 z = z.
Proof. unfold vec_u64. intros. apply Z.mod_small. lia. Qed.
Lemma size_of_int_nat p : (Z.of_nat p < 2 ^ 64)%Z -> size_of_int (Z.of_nat p) = p.
Proof. intros. unfold size_of_int. rewrite u64_id by lia. apply Nat2Z.id. Qed.
Lemma size_of_int_nat1 p : (Z.of_nat p < 2 ^ 63)%Z -> size_of_int (Z.of_nat p + 1) = S p.
Proof. intros. replace (Z.of_nat p + 1)%Z with (Z.of_nat (S p)) by lia. apply size_of_int_nat. lia. Qed.
Lemma int_of_size_id n : (Z.of_nat n < 2 ^ 31)%Z -> int_of_size n = Z.of_nat n.
Proof. intros. unfold int_of_size, vec_i32. lia. Qed.
(* `if (index < 0) index += num` computes the mathematical position *)
Lemma norm_idx n index : (Z.of_nat n < 2 ^ 31)%Z -> vint index ->
  (if (index <? 0)%Z then int_plus_size index n else index) = vpos n index.
Proof.
  unfold vint. intros Hn Hi. unfold vpos. destruct (index <? 0)%Z eqn:E; [|reflexivity]. apply Z.ltb_lt in E.
  unfold int_plus_size, vec_i32, vec_u64. lia.
Qed.
(* the unsigned comparisons `index > num` / `index >= num` refuse exactly the positions outside 0..n / 0..n-1 *)
Lemma ins_check n p : (Z.of_nat n < 2 ^ 31)%Z -> (- 2 ^ 32 <= p < 2 ^ 32)%Z ->
  (Z.of_nat n <? vec_u64 p)%Z = negb ((0 <=? p) && (p <=? Z.of_nat n))%Z.
Proof.
  intros. unfold vec_u64. destruct (0 <=? p)%Z eqn:E1; destruct (p <=? Z.of_nat n)%Z eqn:E2; cbn [andb negb];
  [apply Z.ltb_ge | apply Z.ltb_lt | apply Z.ltb_lt | apply Z.ltb_lt]; lia.
Qed.
Lemma acc_check n p : (Z.of_nat n < 2 ^ 31)%Z -> (- 2 ^ 32 <= p < 2 ^ 32)%Z ->
  (Z.of_nat n <=? vec_u64 p)%Z = negb ((0 <=? p) && (p <? Z.of_nat n))%Z.
Proof.
  intros. unfold vec_u64. destruct (0 <=? p)%Z eqn:E1; destruct (p <? Z.of_nat n)%Z eqn:E2; cbn [andb negb];
  [apply Z.leb_gt | apply Z.leb_le | apply Z.leb_le | apply Z.leb_le]; lia.
Qed.
Lemma vpos_range n index : (Z.of_nat n < 2 ^ 31)%Z -> vint index -> (- 2 ^ 32 <= vpos n index < 2 ^ 32)%Z.
Proof. unfold vint, vpos. intros. destruct (index <? 0)%Z; lia. Qed.

(* ------------------------------------------------------------------------------------------------ *)
(* B. lists, blocks                                                                                  *)
Notation F := vcells.
Definition elen (os : nat) (l : list velem) : Prop := Forall (fun e => length e = os) l.

Lemma F_nil : F [] = []. Proof. reflexivity. Qed.
Lemma F_cons e l : F (e :: l) = map VByte e ++ F l.
Proof. unfold vcells. cbn [concat]. apply map_app. Qed.
Lemma F_app a b : F (a ++ b) = F a ++ F b.
Proof. unfold vcells. rewrite concat_app. apply map_app. Qed.
Lemma F_one e : F [e] = map VByte e.
Proof. rewrite F_cons, F_nil. apply app_nil_r. Qed.
Lemma length_F os l : elen os l -> length (F l) = length l * os.
Proof.
  induction 1 as [|e l He _ IH]; [reflexivity|]. rewrite F_cons, app_length, map_length, IH, He. cbn [length]. lia.
Qed.
Lemma elen_app os a b : elen os (a ++ b) <-> elen os a /\ elen os b.
Proof. apply Forall_app. Qed.
Lemma elen_cons os e l : elen os (e :: l) <-> length e = os /\ elen os l.
Proof. unfold elen. split; [intros H; inversion H; auto | intros [H1 H2]; constructor; auto]. Qed.
Lemma elen_rev os l : elen os l -> elen os (rev l).
Proof. unfold elen. rewrite !Forall_forall. intros H x Hx. apply H. apply in_rev. exact Hx. Qed.
Lemma elen_firstn os n l : elen os l -> elen os (firstn n l).
Proof. intros H. revert n. induction H as [|e l He Hl IH]; intros [|n]; cbn [firstn]; try (constructor; auto; fail). constructor; [exact He | apply IH]. Qed.

Lemma firstn_exact {A} n (a b : list A) : length a = n -> firstn n (a ++ b) = a.
Proof. intros <-. rewrite firstn_app, Nat.sub_diag, firstn_all. cbn [firstn]. apply app_nil_r. Qed.
Lemma skipn_exact {A} n (a b : list A) : length a = n -> skipn n (a ++ b) = b.
Proof. intros <-. rewrite skipn_app, Nat.sub_diag, skipn_all. reflexivity. Qed.
Lemma firstn_prefix {A} n (a b : list A) : n <= length a -> firstn n (a ++ b) = firstn n a.
Proof. intros. rewrite firstn_app. replace (n - length a) with 0 by lia. cbn [firstn]. apply app_nil_r. Qed.

(* reading the middle of  a ++ x ++ c *)
Lemma vrd_mid a x c off len : off = length a -> len = length x -> vrd (a ++ x ++ c) off len = Ok x.
Proof.
  intros -> ->. unfold vrd. rewrite !app_length.
  destruct (length a + length x <=? length a + (length x + length c)) eqn:E; [|apply Nat.leb_gt in E; lia].
  rewrite skipn_exact by reflexivity. rewrite firstn_exact by reflexivity. reflexivity.
Qed.
(* overwriting the middle of  a ++ x ++ c *)
Lemma vwr_mid a x y c off : off = length a -> length y = length x -> vwr (a ++ x ++ c) off y = Ok (a ++ y ++ c).
Proof.
  intros -> Hy. unfold vwr. rewrite !app_length, Hy.
  destruct (length a + length x <=? length a + (length x + length c)) eqn:E; [|apply Nat.leb_gt in E; lia].
  rewrite firstn_exact by reflexivity. rewrite (app_assoc a x c), skipn_exact by apply app_length. reflexivity.
Qed.
Lemma vwr_length b off src b' : vwr b off src = Ok b' -> length b' = length b.
Proof.
  unfold vwr. destruct (off + length src <=? length b) eqn:E; [|discriminate]. apply Nat.leb_le in E.
  intros H. inversion H. rewrite !app_length, firstn_length, skipn_length. lia.
Qed.
Lemma vfrom_user_ok os d : length d = os -> vfrom_user os d = Ok (map VByte d).
Proof. intros H. unfold vfrom_user. rewrite H, Nat.ltb_irrefl, <- H, firstn_all. reflexivity. Qed.

(* splitting a list at a position *)
Lemma split_at {A} (l : list A) p : p < length l -> exists l1 e l2, l = l1 ++ e :: l2 /\ length l1 = p.
Proof.
  intros H. pose proof (firstn_skipn p l) as E. destruct (skipn p l) as [|e l2] eqn:S.
  - exfalso. pose proof (skipn_length p l) as L. rewrite S in L. cbn in L. lia.
  - exists (firstn p l), e, l2. split; [symmetry; exact E | apply firstn_length_le; lia].
Qed.
Lemma split_le {A} (l : list A) p : p <= length l -> exists l1 l2, l = l1 ++ l2 /\ length l1 = p.
Proof. intros H. exists (firstn p l), (skipn p l). split; [symmetry; apply firstn_skipn | apply firstn_length_le; exact H]. Qed.
Lemma nth_mid {A} (l1 : list A) e l2 d p : length l1 = p -> nth p (l1 ++ e :: l2) d = e.
Proof. intros <-. rewrite app_nth2 by lia. rewrite Nat.sub_diag. reflexivity. Qed.
Lemma skipn_S_mid {A} (l1 : list A) e l2 p : length l1 = p -> skipn (S p) (l1 ++ e :: l2) = l2.
Proof. intros <-. replace (l1 ++ e :: l2) with ((l1 ++ [e]) ++ l2) by (rewrite <- app_assoc; reflexivity). apply skipn_exact. rewrite app_length. cbn. lia. Qed.

(* ------------------------------------------------------------------------------------------------ *)
(* C. the representation relation                                                                    *)
Definition R (s : vec) (l : list velem) : Prop := vinv s /\ vrep s l.

Lemma R_data s l b : R s l -> vdata s = Some b ->
  exists junk, b = F l ++ junk /\ length b = vmax s * vobjsize s /\ length (F l) = vnum s * vobjsize s.
Proof.
  intros [(_ & _ & _ & Hd) (Hl & He & Hf)] E. rewrite E in *. exists (skipn (vnum s * vobjsize s) b).
  split; [rewrite <- Hf; symmetry; apply firstn_skipn|]. split; [exact Hd|]. rewrite (length_F _ _ He), Hl. reflexivity.
Qed.
Lemma R_intro s l junk :
  1 <= vobjsize s -> vnum s <= vmax s -> (vpol s = VLinear -> 1 <= vinitnum s) ->
  vdata s = Some (F l ++ junk) -> length (F l ++ junk) = vmax s * vobjsize s ->
  length l = vnum s -> elen (vobjsize s) l -> R s l.
Proof.
  intros H1 H2 H3 Hd HL Hn He. split.
  - unfold vinv. rewrite Hd. auto.
  - unfold vrep. rewrite Hd. repeat split; auto. apply firstn_exact. rewrite (length_F _ _ He), Hn. reflexivity.
Qed.
Lemma R_len s l : R s l -> length l = vnum s. Proof. intros [_ (H & _)]. exact H. Qed.
Lemma R_elen s l : R s l -> elen (vobjsize s) l. Proof. intros [_ (_ & H & _)]. exact H. Qed.
Lemma R_some s l : R s l -> 0 < vmax s -> exists b, vdata s = Some b.
Proof. intros [(_ & _ & _ & Hd) _] H. destruct (vdata s); [eauto | lia]. Qed.

Lemma acc_pos_lt n index p : vacc_pos n index = Some p -> p < n /\ vpos n index = Z.of_nat p.
Proof.
  unfold vacc_pos. destruct ((0 <=? vpos n index)%Z && (vpos n index <? Z.of_nat n)%Z) eqn:E; [|discriminate].
  apply andb_prop in E. destruct E as [E1 E2]. apply Z.leb_le in E1. apply Z.ltb_lt in E2. intros H. inversion H. lia.
Qed.
Lemma ins_pos_le n index p : vins_pos n index = Some p -> p <= n /\ vpos n index = Z.of_nat p.
Proof.
  unfold vins_pos. destruct ((0 <=? vpos n index)%Z && (vpos n index <=? Z.of_nat n)%Z) eqn:E; [|discriminate].
  apply andb_prop in E. destruct E as [E1 E2]. apply Z.leb_le in E1. apply Z.leb_le in E2. intros H. inversion H. lia.
Qed.

Lemma vget_index_spec s l index : R s l -> (Z.of_nat (vnum s) < 2 ^ 31)%Z -> vint index ->
  vget_index s index = match vacc_pos (length l) index with Some p => inr (Z.of_nat p) | None => inl (vrefuse_acc l) end.
Proof.
  intros HR Hn Hi. unfold vget_index. rewrite (norm_idx _ _ Hn Hi), (acc_check _ _ Hn (vpos_range _ _ Hn Hi)).
  rewrite (R_len _ _ HR). destruct (vacc_pos (vnum s) index) as [p|] eqn:E.
  - destruct (acc_pos_lt _ _ _ E) as [_ Hp]. unfold vacc_pos in E.
    destruct ((0 <=? vpos (vnum s) index)%Z && (vpos (vnum s) index <? Z.of_nat (vnum s))%Z); [|discriminate].
    cbn [negb]. rewrite Hp. reflexivity.
  - unfold vacc_pos in E. destruct ((0 <=? vpos (vnum s) index)%Z && (vpos (vnum s) index <? Z.of_nat (vnum s))%Z); [discriminate|].
    cbn [negb]. f_equal. pose proof (R_len _ _ HR) as L. destruct l; cbn in L; rewrite <- L; reflexivity.
Qed.

(* the block around element p *)
Lemma R_split s l b p : R s l -> vdata s = Some b -> p < length l ->
  exists l1 e l2 junk, l = l1 ++ e :: l2 /\ length l1 = p /\ b = F l1 ++ map VByte e ++ F l2 ++ junk /\
    length (F l1) = p * vobjsize s /\ length (map VByte e) = vobjsize s /\ length (F l2) = (vnum s - S p) * vobjsize s /\
    elen (vobjsize s) l1 /\ elen (vobjsize s) l2 /\ length e = vobjsize s.
Proof.
  intros HR E Hp. destruct (R_data _ _ _ HR E) as (junk & Hb & _ & _).
  destruct (split_at l p Hp) as (l1 & e & l2 & Hl & L1). exists l1, e, l2, junk.
  pose proof (R_elen _ _ HR) as He. rewrite Hl in He. apply elen_app in He. destruct He as [He1 He2]. apply elen_cons in He2. destruct He2 as [He He2].
  pose proof (R_len _ _ HR) as Ln. rewrite Hl, app_length in Ln. cbn [length] in Ln.
  repeat split; auto.
  - rewrite Hb, Hl, F_app, F_cons, <- !app_assoc. reflexivity.
  - rewrite (length_F _ _ He1), L1. reflexivity.
  - rewrite map_length. exact He.
  - rewrite (length_F _ _ He2). f_equal. lia.
Qed.

Lemma vwr_at a rest off src : off = length a -> length src <= length rest ->
  vwr (a ++ rest) off src = Ok (a ++ src ++ skipn (length src) rest).
Proof.
  intros Ho Hs. rewrite <- (firstn_skipn (length src) rest) at 1. apply vwr_mid; [exact Ho|].
  rewrite firstn_length_le by exact Hs. reflexivity.
Qed.

(* ------------------------------------------------------------------------------------------------ *)
(* D. get / set / remove / pop                                                                       *)
Section Access.
Variables (s : vec) (l : list velem).
Hypothesis HR : R s l.
Hypothesis Hn : (Z.of_nat (vnum s) < 2 ^ 31)%Z.

Lemma pos_data p : p < length l -> exists b, vdata s = Some b.
Proof. intros Hp. apply (R_some _ _ HR). pose proof (R_len _ _ HR). destruct HR as [(_ & ? & _) _]. lia. Qed.

Lemma vget_at_ref index : vint index ->
  vget_at s index = Ok (match vacc_pos (length l) index with Some p => inr (map VByte (nth p l [])) | None => inl (vrefuse_acc l) end).
Proof.
  intros Hi. unfold vget_at. rewrite (vget_index_spec _ _ _ HR Hn Hi). destruct (vacc_pos (length l) index) as [p|] eqn:E; [|reflexivity].
  destruct (acc_pos_lt _ _ _ E) as [Hp _]. destruct (pos_data _ Hp) as [b Hb]. rewrite Hb.
  destruct (R_split _ _ _ _ HR Hb Hp) as (l1 & e & l2 & junk & Hl & L1 & Hbb & LF1 & LE & LF2 & _ & _ & _).
  pose proof (R_len _ _ HR) as Ln. rewrite size_of_int_nat by lia.
  rewrite Hbb, (vrd_mid (F l1) (map VByte e) (F l2 ++ junk)) by (symmetry; assumption).
  cbn [bind]. rewrite Hl, (nth_mid _ _ _ _ _ L1). reflexivity.
Qed.

Lemma vgetat_ref index : vint index -> vgetat s index = Ok (s, vobs_map VByte (snd (vs_get l index))) /\ fst (vs_get l index) = l.
Proof.
  intros Hi. unfold vgetat, vs_get. rewrite (vget_at_ref _ Hi). cbn [bind]. destruct (vacc_pos (length l) index); cbn; auto.
Qed.

Lemma vsetat_ref index d : vint index -> length d = vobjsize s ->
  exists s', vsetat s index d = Ok (s', vobs_map VByte (snd (vs_set l index d))) /\ R s' (fst (vs_set l index d)) /\
             vobjsize s' = vobjsize s /\ (vacc_pos (length l) index = None -> s' = s).
Proof.
  intros Hi Hd. unfold vsetat, vs_set. rewrite (vget_index_spec _ _ _ HR Hn Hi). destruct (vacc_pos (length l) index) as [p|] eqn:E.
  2:{ exists s. cbn. auto. }
  destruct (acc_pos_lt _ _ _ E) as [Hp _]. destruct (pos_data _ Hp) as [b Hb]. rewrite Hb.
  destruct (R_split _ _ _ _ HR Hb Hp) as (l1 & e & l2 & junk & Hl & L1 & Hbb & LF1 & LE & LF2 & E1 & E2 & Le).
  pose proof (R_len _ _ HR) as Ln. rewrite size_of_int_nat by lia. rewrite (vfrom_user_ok _ _ Hd). cbn [bind].
  rewrite Hbb, (vwr_mid (F l1) (map VByte e) (map VByte d) (F l2 ++ junk)) by (try (symmetry; assumption); rewrite !map_length; congruence).
  cbn [bind]. eexists. split; [reflexivity|]. cbn [fst snd vobs_map]. split; [|split; [reflexivity | discriminate]].
  unfold vreplace. rewrite Hl, (firstn_exact _ _ _ L1), (skipn_S_mid _ _ _ _ L1).
  destruct HR as [(I1 & I2 & I3 & I4) _]. rewrite Hb in I4.
  apply (R_intro _ _ junk); cbn [vset_data vobjsize vnum vmax vpol vinitnum vdata]; auto.
  - rewrite F_app, F_cons, <- !app_assoc. reflexivity.
  - rewrite <- I4, Hbb, F_app, F_cons, <- !app_assoc, !app_length, !map_length. lia.
  - rewrite <- Ln, Hl, !app_length. reflexivity.
  - apply elen_app. split; [exact E1|]. apply elen_cons. auto.
Qed.

Lemma vremove_at_ref index : vint index ->
  match vacc_pos (length l) index with
  | Some p => exists b', vremove_at s index = Ok (inr b') /\ R (vset_data s b' (vnum s - 1)) (vdelete l p)
  | None => vremove_at s index = Ok (inl (vrefuse_acc l))
  end.
Proof.
  intros Hi. unfold vremove_at. rewrite (vget_index_spec _ _ _ HR Hn Hi). destruct (vacc_pos (length l) index) as [p|] eqn:E; [|reflexivity].
  destruct (acc_pos_lt _ _ _ E) as [Hp _]. destruct (pos_data _ Hp) as [b Hb]. rewrite Hb.
  destruct (R_split _ _ _ _ HR Hb Hp) as (l1 & e & l2 & junk & Hl & L1 & Hbb & LF1 & LE & LF2 & E1 & E2 & Le).
  pose proof (R_len _ _ HR) as Ln. rewrite size_of_int_nat by lia. rewrite size_of_int_nat1 by lia.
  unfold vmemmove.
  assert (Hrd : vrd b (S p * vobjsize s) ((vnum s - S p) * vobjsize s) = Ok (F l2)).
  { rewrite Hbb, (app_assoc (F l1)). apply vrd_mid; [rewrite app_length, LF1, LE; lia | symmetry; exact LF2]. }
  rewrite Hrd. cbn [bind]. rewrite Hbb.
  rewrite (vwr_at (F l1) _ (p * vobjsize s) (F l2)) by (try (symmetry; assumption); rewrite !app_length; lia).
  eexists. split; [reflexivity|]. unfold vdelete. rewrite Hl, (firstn_exact _ _ _ L1), (skipn_S_mid _ _ _ _ L1).
  destruct HR as [(I1 & I2 & I3 & I4) _]. rewrite Hb in I4.
  apply (R_intro _ _ (skipn (length (F l2)) (map VByte e ++ F l2 ++ junk))); cbn [vset_data vobjsize vnum vmax vpol vinitnum vdata]; auto.
  - lia.
  - rewrite F_app, <- !app_assoc. reflexivity.
  - rewrite <- I4, Hbb, F_app, <- !app_assoc, !app_length, skipn_length, !app_length. lia.
  - rewrite <- Ln, Hl, !app_length. cbn [length]. lia.
  - apply elen_app. auto.
Qed.

Lemma vremoveat_ref index : vint index ->
  exists s', vremoveat s index = Ok (s', vobs_map VByte (snd (vs_remove l index))) /\ R s' (fst (vs_remove l index)) /\
             vobjsize s' = vobjsize s /\ (vacc_pos (length l) index = None -> s' = s).
Proof.
  intros Hi. unfold vremoveat, vs_remove. pose proof (vremove_at_ref _ Hi) as H. destruct (vacc_pos (length l) index) as [p|].
  - destruct H as (b' & H1 & H2). rewrite H1. cbn [bind]. eexists. split; [reflexivity|]. cbn [fst]. split; [exact H2|]. split; [reflexivity | discriminate].
  - rewrite H. cbn [bind]. exists s. cbn. auto.
Qed.

Lemma vpopat_ref index : vint index ->
  exists s', vpopat s index = Ok (s', vobs_map VByte (snd (vs_pop l index))) /\ R s' (fst (vs_pop l index)) /\
             vobjsize s' = vobjsize s /\ (vacc_pos (length l) index = None -> s' = s).
Proof.
  intros Hi. unfold vpopat, vs_pop. rewrite (vget_at_ref _ Hi). pose proof (vremove_at_ref _ Hi) as H.
  destruct (vacc_pos (length l) index) as [p|]; cbn [bind].
  - destruct H as (b' & H1 & H2). rewrite H1. cbn [bind]. eexists. split; [reflexivity|]. cbn [fst]. split; [exact H2|]. split; [reflexivity | discriminate].
  - exists s. cbn. auto.
Qed.
End Access.

(* ------------------------------------------------------------------------------------------------ *)
(* E. resize                                                                                         *)
Lemma vresize_ref s l newmax : R s l ->
  let s' := fst (vresize s newmax) in
  snd (vresize s newmax) = true /\ R s' (firstn newmax l) /\ vobjsize s' = vobjsize s /\ vmax s' = newmax /\
  vnum s' = Nat.min (vnum s) newmax /\ vinitnum s' = vinitnum s /\ vpol s' = vpol s.
Proof.
  intros HR. unfold vresize. destruct (newmax =? 0) eqn:E0.
  - apply Nat.eqb_eq in E0. subst newmax. cbn [fst snd vobjsize vmax vnum vinitnum vpol]. rewrite Nat.min_0_r.
    destruct HR as [(I1 & I2 & I3 & I4) _]. repeat split; auto; cbn; auto.
  - apply Nat.eqb_neq in E0. cbn [fst snd vobjsize vmax vnum vinitnum vpol]. split; [reflexivity|].
    assert (Hmin : (if newmax <? vnum s then newmax else vnum s) = Nat.min (vnum s) newmax).
    { destruct (newmax <? vnum s) eqn:E; [apply Nat.ltb_lt in E | apply Nat.ltb_ge in E]; lia. }
    rewrite Hmin. split; [|repeat split; reflexivity].
    pose proof (R_len _ _ HR) as Ln. pose proof (R_elen _ _ HR) as He.
    set (want := newmax * vobjsize s). set (l' := firstn newmax l).
    assert (Ll' : length l' = Nat.min (vnum s) newmax) by (unfold l'; rewrite firstn_length; lia).
    assert (El' : elen (vobjsize s) l') by (apply elen_firstn; exact He).
    destruct (vdata s) as [b|] eqn:Hb.
    + destruct (R_data _ _ _ HR Hb) as (junk & Hbb & Lb & LF). destruct HR as [(I1 & I2 & I3 & _) _].
      assert (Hpre : exists rest, firstn want b = F l' ++ rest).
      { assert (HFl : F l = F l' ++ F (skipn newmax l)) by (rewrite <- F_app; unfold l'; rewrite firstn_skipn; reflexivity).
        rewrite Hbb, HFl, <- app_assoc.
        rewrite firstn_app. assert (LFl' : length (F l') = Nat.min (vnum s) newmax * vobjsize s) by (rewrite (length_F _ _ El'), Ll'; reflexivity).
        assert (length (F l') <= want) by (rewrite LFl'; unfold want; apply Nat.mul_le_mono_r; lia).
        rewrite firstn_all2 by exact H. eexists. reflexivity. }
      destruct Hpre as (rest & Hpre). rewrite Hpre, <- app_assoc.
      apply (R_intro _ _ (rest ++ repeat VUndef (want - length b))); cbn [vobjsize vnum vmax vpol vinitnum vdata]; auto; try lia.
      rewrite app_assoc, <- Hpre, app_length, firstn_length, repeat_length. unfold want. lia.
    + destruct HR as [(I1 & I2 & I3 & I4) (_ & _ & Hf)]. rewrite Hb in *. subst l. assert (vnum s = 0) by (cbn in Ln; lia). rewrite H in *. cbn [firstn app length] in *.
      replace (firstn newmax []) with (@nil velem) in * by (destruct newmax; reflexivity).
      apply (R_intro _ _ (repeat VUndef (want - 0))); cbn [vobjsize vnum vmax vpol vinitnum vdata]; auto; try lia.
      all: assert (Hl' : l' = []) by (unfold l'; destruct newmax; reflexivity); rewrite Hl', F_nil.
      * destruct want; reflexivity.
      * cbn [app]. rewrite repeat_length. unfold want. lia.
Qed.

(* ------------------------------------------------------------------------------------------------ *)
(* F. addat: the element-by-element shift, then the store                                            *)
Lemma voverlap_adjacent a os : voverlap (a + os) a os = false.
Proof.
  unfold voverlap. destruct (0 <? os); [|reflexivity]. cbn [andb].
  destruct (a + os <? a + os) eqn:E; [apply Nat.ltb_lt in E; lia | reflexivity].
Qed.
Lemma vshift_up_ref os P idx : length P = idx * os ->
  forall l2 junk, elen os l2 -> os <= length junk -> (Z.of_nat (idx + length l2) < 2 ^ 31)%Z ->
  vshift_up (length l2) (Z.of_nat idx) os (P ++ F l2 ++ junk) = Ok (P ++ firstn os (F l2 ++ junk) ++ F l2 ++ skipn os junk).
Proof.
  intros HP l2. induction l2 as [|e l2 IH] using rev_ind; intros junk He Hj Hb.
  - cbn [length vshift_up]. rewrite F_nil. cbn [app]. rewrite firstn_skipn. reflexivity.
  - apply elen_app in He. destruct He as [He2 He1]. apply elen_cons in He1. destruct He1 as [Le _].
    rewrite app_length in *. cbn [length] in *. rewrite Nat.add_1_r. cbn [vshift_up].
    set (k := length l2) in *.
    replace (Z.of_nat idx + Z.of_nat (S k))%Z with (Z.of_nat (idx + k) + 1)%Z by lia.
    replace (Z.of_nat (idx + k) + 1 - 1)%Z with (Z.of_nat (idx + k)) by lia.
    rewrite size_of_int_nat1, size_of_int_nat by lia.
    assert (LE : length (map VByte e) = os) by (rewrite map_length; exact Le).
    assert (LF2 : length (F l2) = k * os) by (apply length_F; exact He2).
    replace (os * S (idx + k)) with (os * (idx + k) + os) by lia.
    unfold vmemcpy. rewrite voverlap_adjacent. unfold vmemmove.
    rewrite F_app, F_one, <- !app_assoc.
    assert (Hrd : vrd (P ++ F l2 ++ map VByte e ++ junk) (os * (idx + k)) os = Ok (map VByte e)).
    { rewrite (app_assoc P). apply vrd_mid; [rewrite app_length, HP, LF2; lia | symmetry; exact LE]. }
    rewrite Hrd. cbn [bind].
    replace (P ++ F l2 ++ map VByte e ++ junk) with ((P ++ F l2 ++ map VByte e) ++ junk) by (rewrite <- !app_assoc; reflexivity).
    rewrite vwr_at by (rewrite ?app_length, ?HP, ?LF2, ?LE; lia).
    cbn [bind]. rewrite LE, <- !app_assoc.
    rewrite (IH (map VByte e ++ map VByte e ++ skipn os junk)) by (auto; rewrite ?app_length, ?LE; lia).
    f_equal. f_equal.
    rewrite (skipn_exact os (map VByte e)) by exact LE.
    rewrite (app_assoc (F l2) (map VByte e) (map VByte e ++ skipn os junk)), (app_assoc (F l2) (map VByte e) junk).
    rewrite !(firstn_prefix os (F l2 ++ map VByte e)) by (rewrite app_length, LE; lia).
    reflexivity.
Qed.

Lemma vaddat_ref s l index d : R s l -> (Z.of_nat (vnum s) < 2 ^ 31)%Z -> vint index -> length d = vobjsize s ->
  exists s', vaddat s index (Some d) = Ok (s', vobs_map VByte (snd (vs_add l index d))) /\ R s' (fst (vs_add l index d)) /\
             vobjsize s' = vobjsize s /\ (vins_pos (length l) index = None -> s' = s).
Proof.
  intros HR Hn Hi Hd. unfold vaddat, vs_add. rewrite (norm_idx _ _ Hn Hi), (ins_check _ _ Hn (vpos_range _ _ Hn Hi)).
  pose proof (R_len _ _ HR) as Ln. rewrite Ln.
  destruct (vins_pos (vnum s) index) as [p|] eqn:E.
  2:{ unfold vins_pos in E. destruct ((0 <=? vpos (vnum s) index)%Z && (vpos (vnum s) index <=? Z.of_nat (vnum s))%Z); [discriminate|].
      cbn [negb]. exists s. cbn. auto. }
  destruct (ins_pos_le _ _ _ E) as [Hp Hpos]. unfold vins_pos in E.
  destruct ((0 <=? vpos (vnum s) index)%Z && (vpos (vnum s) index <=? Z.of_nat (vnum s))%Z); [|discriminate]. clear E.
  cbn [negb]. rewrite Hpos.
  (* growth *)
  set (s1 := if vmax s <=? vnum s then _ else s).
  assert (H1 : R s1 l /\ vnum s1 = vnum s /\ vnum s1 < vmax s1 /\ vobjsize s1 = vobjsize s).
  { unfold s1. destruct (vmax s <=? vnum s) eqn:Eg.
    - apply Nat.leb_le in Eg. match goal with |- context[vresize s ?m] => set (newmax := m) end.
      assert (Hg : vmax s < newmax).
      { unfold newmax. destruct HR as [(_ & _ & I3 & _) _]. destruct (vpol s); [lia | specialize (I3 eq_refl); lia | lia]. }
      destruct (vresize_ref s l newmax HR) as (_ & HR' & Ho & Hm & Hnum & _).
      destruct HR as [(_ & I2 & _) _].
      rewrite firstn_all2 in HR' by lia. rewrite Hm, Hnum. split; [exact HR'|]. split; [lia|]. split; [lia | exact Ho].
    - apply Nat.leb_gt in Eg. auto. }
  clearbody s1. destruct H1 as (HR1 & Hn1 & Hlt & Ho1).
  destruct (R_some _ _ HR1 ltac:(lia)) as [b Hb]. rewrite Hb.
  destruct (R_data _ _ _ HR1 Hb) as (junk & Hbb & Lb & LF).
  destruct (split_le l p ltac:(lia)) as (l1 & l2 & Hl & L1).
  pose proof (R_elen _ _ HR1) as He. rewrite Hl in He. apply elen_app in He. destruct He as [He1 He2].
  assert (L2 : length l2 = vnum s - p) by (rewrite <- Ln, Hl, app_length; lia).
  rewrite int_of_size_id by lia. rewrite Hn1.
  replace (Z.to_nat (Z.of_nat (vnum s) - Z.of_nat p)) with (length l2) by lia.
  set (os := vobjsize s1) in *.
  assert (Hjunk : os <= length junk).
  { assert ((vnum s1 + 1) * os <= vmax s1 * os) by (apply Nat.mul_le_mono_r; lia).
    rewrite Hbb, app_length, LF in Lb. lia. }
  assert (LF1 : length (F l1) = p * os) by (rewrite (length_F _ _ He1), L1; reflexivity).
  rewrite Hbb, Hl, F_app, <- app_assoc.
  rewrite (vshift_up_ref os (F l1) p LF1 l2 junk He2 Hjunk) by lia. cbn [bind].
  rewrite vfrom_user_ok by congruence. cbn [bind]. rewrite size_of_int_nat by lia.
  rewrite (vwr_mid (F l1) (firstn os (F l2 ++ junk)) (map VByte d)).
  2:{ rewrite LF1. reflexivity. }
  2:{ rewrite map_length, firstn_length_le by (rewrite app_length; lia). congruence. }
  cbn [bind]. eexists. split; [reflexivity|]. cbn [fst snd]. split; [|split; [exact Ho1 | discriminate]].
  unfold vinsert. rewrite (firstn_exact _ _ _ L1), (skipn_exact _ _ _ L1).
  destruct HR1 as [(I1 & I2 & I3 & I4) _].
  apply (R_intro _ _ (skipn os junk)); cbn [vset_data vobjsize vnum vmax vpol vinitnum vdata]; auto.
  - lia.
  - rewrite F_app, F_cons, <- !app_assoc. reflexivity.
  - fold os. rewrite <- Lb, Hbb, Hl, !F_app, F_cons, !app_length, skipn_length, map_length. lia.
  - rewrite <- Ln, Hl, !app_length. cbn [length]. lia.
  - apply elen_app. split; [exact He1|]. apply elen_cons. split; [unfold os in *; congruence | exact He2].
Qed.

(* ------------------------------------------------------------------------------------------------ *)
(* G. reverse                                                                                        *)
Lemma voverlap_far dst src len : dst + len <= src -> voverlap dst src len = false.
Proof.
  intros H. unfold voverlap. destruct (0 <? len); [|reflexivity]. cbn [andb].
  destruct (src <? dst + len) eqn:E; [apply Nat.ltb_lt in E; lia | apply andb_false_r].
Qed.
Lemma list_ends {A} (m : list A) : m = [] \/ (exists x, m = [x]) \/ exists x m' y, m = x :: m' ++ [y].
Proof.
  destruct m as [|x m]; [auto|]. right. destruct m as [|z m] using rev_ind; [left; eauto|]. right. eauto.
Qed.
Lemma vrev_loop_ref os : forall fuel m a rest, elen os a -> elen os m -> length m <= fuel ->
  (Z.of_nat (length a + length m) < 2 ^ 31)%Z ->
  vrev_loop fuel (Z.of_nat (length a)) (Z.of_nat (length a) + Z.of_nat (length m) - 1) os (F a ++ F m ++ rest)
  = Ok (F a ++ F (rev m) ++ rest).
Proof.
  induction fuel as [|f IH]; intros m a rest Ha Hm Hf Hb.
  - destruct m; [|cbn in Hf; lia]. cbn [length vrev_loop rev].
    destruct (Z.of_nat (length a) <? Z.of_nat (length a) + Z.of_nat 0 - 1)%Z eqn:E; [apply Z.ltb_lt in E; lia | reflexivity].
  - destruct (list_ends m) as [-> | [[x ->] | (x & m' & y & ->)]].
    + cbn [length vrev_loop rev].
      destruct (Z.of_nat (length a) <? Z.of_nat (length a) + Z.of_nat 0 - 1)%Z eqn:E; [apply Z.ltb_lt in E; lia | reflexivity].
    + cbn [length vrev_loop rev app].
      destruct (Z.of_nat (length a) <? Z.of_nat (length a) + Z.of_nat 1 - 1)%Z eqn:E; [apply Z.ltb_lt in E; lia | reflexivity].
    + apply elen_cons in Hm. destruct Hm as [Lx Hm]. apply elen_app in Hm. destruct Hm as [Hm' Hy]. apply elen_cons in Hy. destruct Hy as [Ly _].
      cbn [length] in *. rewrite app_length in *. cbn [length] in *. set (k := length m') in *. set (na := length a) in *.
      cbn [vrev_loop].
      destruct (Z.of_nat na <? Z.of_nat na + Z.of_nat (S (k + 1)) - 1)%Z eqn:E; [clear E | apply Z.ltb_ge in E; lia].
      replace (Z.of_nat na + Z.of_nat (S (k + 1)) - 1)%Z with (Z.of_nat (na + S k)) by lia.
      rewrite !size_of_int_nat by lia.
      assert (LX : length (map VByte x) = os) by (rewrite map_length; exact Lx).
      assert (LY : length (map VByte y) = os) by (rewrite map_length; exact Ly).
      assert (LA : length (F a) = na * os) by (apply length_F; exact Ha).
      assert (LM : length (F m') = k * os) by (apply length_F; exact Hm').
      rewrite F_cons, F_app, F_one, <- !app_assoc.
      rewrite (vrd_mid (F a) (map VByte x)) by (symmetry; assumption). cbn [bind].
      unfold vmemcpy. rewrite voverlap_far by lia. unfold vmemmove.
      assert (Hrd : vrd (F a ++ map VByte x ++ F m' ++ map VByte y ++ rest) ((na + S k) * os) os = Ok (map VByte y)).
      { rewrite (app_assoc (F a)), (app_assoc (F a ++ map VByte x)). apply vrd_mid; [rewrite !app_length, LA, LX, LM; lia | symmetry; exact LY]. }
      rewrite Hrd. cbn [bind].
      rewrite (vwr_mid (F a) (map VByte x) (map VByte y)) by (try (symmetry; assumption); congruence). cbn [bind].
      assert (Hwr : vwr (F a ++ map VByte y ++ F m' ++ map VByte y ++ rest) ((na + S k) * os) (map VByte x) =
                    Ok (F a ++ map VByte y ++ F m' ++ map VByte x ++ rest)).
      { rewrite (app_assoc (F a)), (app_assoc (F a ++ map VByte y)).
        rewrite (vwr_mid ((F a ++ map VByte y) ++ F m') (map VByte y) (map VByte x)) by (try congruence; rewrite !app_length, LA, LY, LM; lia).
        rewrite <- !app_assoc. reflexivity. }
      rewrite Hwr. cbn [bind].
      replace (Z.of_nat na + 1)%Z with (Z.of_nat (length (a ++ [y]))) by (rewrite app_length; cbn [length]; lia).
      replace (Z.of_nat (na + S k) - 1)%Z with (Z.of_nat (length (a ++ [y])) + Z.of_nat (length m') - 1)%Z by (rewrite app_length; cbn [length]; lia).
      replace (F a ++ map VByte y ++ F m' ++ map VByte x ++ rest) with (F (a ++ [y]) ++ F m' ++ (map VByte x ++ rest))
        by (rewrite F_app, F_one, <- !app_assoc; reflexivity).
      rewrite IH.
      * cbn [rev]. rewrite rev_app_distr. cbn [rev app]. repeat first [rewrite F_app | rewrite F_cons | rewrite F_nil | rewrite app_nil_r]. rewrite <- !app_assoc. reflexivity.
      * apply elen_app. split; [exact Ha|]. apply elen_cons. split; [exact Ly | constructor].
      * exact Hm'.
      * fold k. lia.
      * rewrite app_length. cbn [length]. fold k na. lia.
Qed.

Section Whole.
Variables (s : vec) (l : list velem).
Hypothesis HR : R s l.
Hypothesis Hn : (Z.of_nat (vnum s) < 2 ^ 31)%Z.

Lemma vreverse_ref : exists s', vreverse s = Ok (s', VOUnit) /\ R s' (rev l) /\ vobjsize s' = vobjsize s.
Proof.
  unfold vreverse. pose proof (R_len _ _ HR) as Ln. destruct (vnum s <=? 1) eqn:E.
  - apply Nat.leb_le in E. exists s. split; [reflexivity|]. split; [|reflexivity].
    destruct l as [|x [|y l']]; cbn [length] in Ln; try lia; exact HR.
  - apply Nat.leb_gt in E. destruct (R_some _ _ HR) as [b Hb]; [destruct HR as [(_ & ? & _) _]; lia|]. rewrite Hb.
    destruct (R_data _ _ _ HR Hb) as (junk & Hbb & Lb & LF).
    replace (vec_i32 (vec_u64 (Z.of_nat (vnum s) - 1))) with (Z.of_nat (length (@nil velem)) + Z.of_nat (length l) - 1)%Z
      by (rewrite Ln; cbn [length]; unfold vec_i32, vec_u64; lia).
    change 0%Z with (Z.of_nat (length (@nil velem))). rewrite Hbb.
    change (F l ++ junk) with (F [] ++ F l ++ junk).
    rewrite vrev_loop_ref; [| constructor | exact (R_elen _ _ HR) | lia | cbn [length]; lia].
    cbn [bind]. eexists. split; [reflexivity|]. split; [|reflexivity]. rewrite F_nil. cbn [app].
    destruct HR as [(I1 & I2 & I3 & I4) (_ & He & _)]. rewrite Hb in I4.
    apply (R_intro _ _ junk); cbn [vset_data vobjsize vnum vmax vpol vinitnum vdata]; auto.
    + rewrite <- I4, Hbb, !app_length. f_equal. rewrite (length_F _ _ He), (length_F _ _ (elen_rev _ _ He)), rev_length. reflexivity.
    + rewrite rev_length. exact Ln.
    + apply elen_rev. exact He.
Qed.

Lemma vtoarray_ref : vtoarray s = Ok (s, vobs_map VByte (snd (vsstep l VToArray))) /\ fst (vsstep l VToArray) = l.
Proof.
  unfold vtoarray. pose proof (R_len _ _ HR) as Ln. destruct (vnum s =? 0) eqn:E.
  - apply Nat.eqb_eq in E. destruct l; [cbn; auto | cbn in Ln; lia].
  - apply Nat.eqb_neq in E. destruct (R_some _ _ HR) as [b Hb]; [destruct HR as [(_ & ? & _) _]; lia|]. rewrite Hb.
    destruct (R_data _ _ _ HR Hb) as (junk & Hbb & Lb & LF).
    rewrite Hbb. change (F l ++ junk) with ([] ++ F l ++ junk). rewrite (vrd_mid [] (F l) junk) by (auto; symmetry; exact LF).
    cbn [bind]. destruct l as [|x l']; [cbn in Ln; lia|]. cbn [vsstep fst snd vobs_map]. rewrite Ln. auto.
Qed.

(* walking *)
Lemma vgetnext_in p : p < length l -> vgetnext s (Z.of_nat p) = Ok (Some (map VByte (nth p l []), (Z.of_nat p + 1)%Z)).
Proof.
  intros Hp. unfold vgetnext. pose proof (R_len _ _ HR) as Ln. rewrite u64_id by lia.
  destruct (Z.of_nat (vnum s) <=? Z.of_nat p)%Z eqn:E; [apply Z.leb_le in E; lia|].
  destruct (pos_data _ _ HR _ Hp) as [b Hb]. rewrite Hb.
  destruct (R_split _ _ _ _ HR Hb Hp) as (l1 & e & l2 & junk & Hl & L1 & Hbb & LF1 & LE & LF2 & _ & _ & _).
  rewrite size_of_int_nat by lia.
  rewrite Hbb, (vrd_mid (F l1) (map VByte e) (F l2 ++ junk)) by (symmetry; assumption).
  cbn [bind]. rewrite Hl, (nth_mid _ _ _ _ _ L1). reflexivity.
Qed.
Lemma vgetnext_out idx : vint idx -> (idx < 0 \/ Z.of_nat (length l) <= idx)%Z -> vgetnext s idx = Ok None.
Proof.
  intros Hi Ho. unfold vgetnext. pose proof (R_len _ _ HR) as Ln. unfold vint in Hi.
  destruct (Z.of_nat (vnum s) <=? vec_u64 idx)%Z eqn:E; [reflexivity|]. apply Z.leb_gt in E. unfold vec_u64 in E. lia.
Qed.
Lemma vwalk_in n : forall p acc, p <= length l ->
  vwalk n s (Z.of_nat p) acc = Ok (rev acc ++ map (map VByte) (firstn n (skipn p l)), length (skipn p l) <? n).
Proof.
  pose proof (R_len _ _ HR) as Ln.
  induction n as [|n IH]; intros p acc Hp.
  - cbn [vwalk firstn map]. rewrite app_nil_r. reflexivity.
  - cbn [vwalk]. destruct (Nat.eq_dec p (length l)) as [->|Hne].
    + rewrite vgetnext_out by (unfold vint; lia). cbn [bind]. rewrite skipn_all. cbn [firstn map length]. rewrite app_nil_r. reflexivity.
    + assert (Hlt : p < length l) by lia. rewrite (vgetnext_in _ Hlt). cbn [bind].
      destruct (split_at l p Hlt) as (l1 & e & l2 & Hl & L1).
      replace (Z.of_nat p + 1)%Z with (Z.of_nat (S p)) by lia. rewrite IH by lia.
      rewrite Hl, (nth_mid _ _ _ _ _ L1), (skipn_S_mid _ _ _ _ L1), (skipn_exact _ _ _ L1).
      cbn [rev firstn map length]. rewrite <- app_assoc. reflexivity.
Qed.
Lemma vwalk_ref st n : vint st -> vstep s (VWalk st n) = Ok (s, vobs_map VByte (snd (vsstep l (VWalk st n)))) /\ fst (vsstep l (VWalk st n)) = l.
Proof.
  intros Hi. split; [|reflexivity]. cbn [vstep vsstep snd vobs_map].
  destruct ((st <? 0) || (Z.of_nat (length l) <=? st))%Z eqn:E.
  - assert (Ho : (st < 0 \/ Z.of_nat (length l) <= st)%Z).
    { apply orb_prop in E. destruct E as [E|E]; [left; apply Z.ltb_lt in E | right; apply Z.leb_le in E]; exact E. }
    destruct n as [|n]; [reflexivity|]. cbn [vwalk]. rewrite (vgetnext_out _ Hi Ho). reflexivity.
  - apply orb_false_elim in E. destruct E as [E1 E2]. apply Z.ltb_ge in E1. apply Z.leb_gt in E2.
    rewrite <- (Z2Nat.id st) at 1 by lia. rewrite vwalk_in by lia. reflexivity.
Qed.
End Whole.

(* ------------------------------------------------------------------------------------------------ *)
(* H. one step, histories                                                                            *)
Lemma vint_0 : vint 0. Proof. unfold vint. lia. Qed.
Lemma vint_m1 : vint (-1). Proof. unfold vint. lia. Qed.
Lemma vs_add_first l d : vs_add l 0 d = (d :: l, VOBool true).
Proof.
  unfold vs_add, vins_pos, vpos. cbn [Z.ltb Z.compare Z.leb andb].
  destruct (0 <=? Z.of_nat (length l))%Z eqn:E; [reflexivity | apply Z.leb_gt in E; lia].
Qed.
Lemma vs_add_last l d : vs_add l (Z.of_nat (length l)) d = (l ++ [d], VOBool true).
Proof.
  unfold vs_add, vins_pos, vpos. destruct (Z.of_nat (length l) <? 0)%Z eqn:E0; [apply Z.ltb_lt in E0; lia|].
  destruct ((0 <=? Z.of_nat (length l))%Z && (Z.of_nat (length l) <=? Z.of_nat (length l))%Z) eqn:E.
  - rewrite Nat2Z.id. unfold vinsert. rewrite firstn_all, skipn_all. reflexivity.
  - apply andb_false_elim in E. destruct E as [E|E]; apply Z.leb_gt in E; lia.
Qed.
Lemma R_clear s l : R s l -> R (mkVec (vdata s) 0 (vmax s) (vobjsize s) (vinitnum s) (vpol s)) [].
Proof.
  intros [(I1 & I2 & I3 & I4) _]. split.
  - unfold vinv. cbn [vobjsize vnum vmax vpol vinitnum vdata]. repeat split; auto. lia.
  - unfold vrep. cbn [vobjsize vnum vmax vpol vinitnum vdata length]. repeat split; [constructor|]. destruct (vdata s); reflexivity.
Qed.

Lemma vstep_ref s l o : R s l -> (Z.of_nat (vnum s) < 2 ^ 31)%Z -> vwf_op (vobjsize s) o ->
  exists s', vstep s o = Ok (s', vobs_map VByte (snd (vsstep l o))) /\ R s' (fst (vsstep l o)) /\ vobjsize s' = vobjsize s.
Proof.
  intros HR Hn Hw. pose proof (R_len _ _ HR) as Ln.
  destruct o as [i [d|] | d | d | i | | | i d | d | d | i | | | i | | | | n | | | | st n]; cbn [vwf_op] in Hw; cbn [vstep vsstep].
  - destruct Hw as [Hd Hi]. destruct (vaddat_ref _ _ _ _ HR Hn Hi Hd) as (s' & H1 & H2 & H3 & _). eauto.
  - exists s. cbn. auto.
  - destruct (vaddat_ref _ _ _ _ HR Hn vint_0 Hw) as (s' & H1 & H2 & H3 & _). rewrite vs_add_first in *. eauto.
  - rewrite int_of_size_id by exact Hn.
    assert (Hi : vint (Z.of_nat (vnum s))) by (unfold vint; lia).
    destruct (vaddat_ref _ _ _ _ HR Hn Hi Hw) as (s' & H1 & H2 & H3 & _). rewrite <- Ln, vs_add_last in *. eauto.
  - destruct (vgetat_ref _ _ HR Hn _ Hw) as [H1 H2]. exists s. rewrite H2. auto.
  - destruct (vgetat_ref _ _ HR Hn _ vint_0) as [H1 H2]. exists s. rewrite H2. auto.
  - destruct (vgetat_ref _ _ HR Hn _ vint_m1) as [H1 H2]. exists s. rewrite H2. auto.
  - destruct Hw as [Hd Hi]. destruct (vsetat_ref _ _ HR Hn _ _ Hi Hd) as (s' & H1 & H2 & H3 & _). eauto.
  - destruct (vsetat_ref _ _ HR Hn _ _ vint_0 Hw) as (s' & H1 & H2 & H3 & _). eauto.
  - destruct (vsetat_ref _ _ HR Hn _ _ vint_m1 Hw) as (s' & H1 & H2 & H3 & _). eauto.
  - destruct (vpopat_ref _ _ HR Hn _ Hw) as (s' & H1 & H2 & H3 & _). eauto.
  - destruct (vpopat_ref _ _ HR Hn _ vint_0) as (s' & H1 & H2 & H3 & _). eauto.
  - destruct (vpopat_ref _ _ HR Hn _ vint_m1) as (s' & H1 & H2 & H3 & _). eauto.
  - destruct (vremoveat_ref _ _ HR Hn _ Hw) as (s' & H1 & H2 & H3 & _). eauto.
  - destruct (vremoveat_ref _ _ HR Hn _ vint_0) as (s' & H1 & H2 & H3 & _). eauto.
  - destruct (vremoveat_ref _ _ HR Hn _ vint_m1) as (s' & H1 & H2 & H3 & _). eauto.
  - exists s. cbn. rewrite Ln. auto.
  - destruct (vresize_ref s l n HR) as (H1 & H2 & H3 & _). eexists. rewrite H1. cbn [fst snd vobs_map]. eauto.
  - eexists. split; [reflexivity|]. split; [apply (R_clear _ _ HR) | reflexivity].
  - destruct (vreverse_ref _ _ HR Hn) as (s' & H1 & H2 & H3). eauto.
  - destruct (vtoarray_ref _ _ HR) as [H1 H2]. exists s. cbn [vsstep] in H2. rewrite H2. auto.
  - destruct (vwalk_ref _ _ HR Hn st n Hw) as [H1 H2]. exists s. cbn [vstep vsstep] in *. rewrite H2. auto.
Qed.

Lemma vrun_ref h : forall s l, R s l -> Forall (vwf_op (vobjsize s)) h -> vsmall l h ->
  exists s', vrun s h = Ok (s', map (vobs_map VByte) (snd (vsrun l h))) /\ R s' (fst (vsrun l h)) /\ vobjsize s' = vobjsize s.
Proof.
  induction h as [|o h IH]; intros s l HR Hw Hs.
  - exists s. cbn. auto.
  - inversion Hw as [|? ? Hwo Hwh]; subst. destruct Hs as [Hn Hs]. rewrite (R_len _ _ HR) in Hn.
    destruct (vstep_ref _ _ _ HR Hn Hwo) as (s1 & H1 & H2 & H3).
    cbn [vrun vsrun]. rewrite H1. cbn [bind fst snd].
    destruct (vsstep l o) as [l1 ob] eqn:E1. cbn [fst snd] in *.
    rewrite <- H3 in Hwh. destruct (IH _ _ H2 Hwh Hs) as (s' & H4 & H5 & H6).
    rewrite H4. cbn [bind fst snd]. destruct (vsrun l1 h) as [l2 obs]. cbn [fst snd map] in *.
    exists s'. split; [reflexivity|]. split; [exact H5 | congruence].
Qed.

Lemma vnew_R mx os opts s0 : vnew mx os opts = Some s0 -> R s0 [] /\ vobjsize s0 = os /\ vmax s0 = mx /\ 1 <= os.
Proof.
  unfold vnew. destruct (os =? 0) eqn:E; [discriminate|]. apply Nat.eqb_neq in E.
  generalize (Z.testbit opts 1) (Z.testbit opts 2). intros t1 t2 H. cbv zeta in H. injection H as H. subst s0.
  cbn [vobjsize vmax]. split; [|split; [reflexivity | split; [reflexivity | lia]]].
  split.
  - unfold vinv. cbn [vobjsize vnum vmax vpol vinitnum vdata]. repeat split; try lia.
    + destruct t1; [intros X; discriminate X|]. destruct t2; [|intros X; discriminate X]. intros _. destruct (mx =? 0) eqn:Em; [lia | apply Nat.eqb_neq in Em; lia].
    + destruct (mx =? 0) eqn:Em; [apply Nat.eqb_eq in Em; exact Em | apply repeat_length].
  - unfold vrep. cbn [vobjsize vnum vmax vpol vinitnum vdata length]. repeat split; [constructor|]. destruct (mx =? 0); reflexivity.
Qed.

(* ------------------------------------------------------------------------------------------------ *)
(* I. the property theorems                                                                          *)
Theorem refines mx os opts s0 h : vnew mx os opts = Some s0 -> Forall (vwf_op os) h -> vsmall [] h ->
  exists s, vrun s0 h = Ok (s, map (vobs_map VByte) (snd (vsrun [] h))) /\ vinv s /\ vrep s (fst (vsrun [] h)) /\ vobjsize s = os.
Proof.
  intros H0 Hw Hs. destruct (vnew_R _ _ _ _ H0) as (HR & Ho & _). rewrite <- Ho in Hw.
  destruct (vrun_ref h _ _ HR Hw Hs) as (s & H1 & [H2 H3] & H4). exists s. split; [exact H1|]. split; [exact H2|]. split; [exact H3|]. congruence.
Qed.
Theorem step_refines s l o : vinv s -> vrep s l -> (Z.of_nat (vnum s) < 2 ^ 31)%Z -> vwf_op (vobjsize s) o ->
  exists s', vstep s o = Ok (s', vobs_map VByte (snd (vsstep l o))) /\ vinv s' /\ vrep s' (fst (vsstep l o)) /\ vobjsize s' = vobjsize s.
Proof.
  intros Hi Hr Hn Hw. destruct (vstep_ref s l o (conj Hi Hr) Hn Hw) as (s' & H1 & [H2 H3] & H4). exists s'. auto.
Qed.

Lemma map_byte_defined (e : list N) : Forall (fun c => c <> VUndef) (map VByte e).
Proof. induction e; cbn; constructor; auto. discriminate. Qed.
Lemma obs_defined (o : vobs N) : Forall (fun c => c <> VUndef) (vobs_cells (vobs_map VByte o)).
Proof.
  destruct o as [| | e | | | a n | ll e]; cbn [vobs_map vobs_cells]; try constructor; try apply map_byte_defined.
  induction ll as [|x ll IH]; cbn [map concat]; [constructor|]. apply Forall_app. split; [apply map_byte_defined | exact IH].
Qed.
Theorem no_undef mx os opts s0 h s obs : vnew mx os opts = Some s0 -> Forall (vwf_op os) h -> vsmall [] h ->
  vrun s0 h = Ok (s, obs) -> Forall (fun o => Forall (fun c => c <> VUndef) (vobs_cells o)) obs.
Proof.
  intros H0 Hw Hs Hrun. destruct (refines _ _ _ _ _ H0 Hw Hs) as (s' & H1 & _). rewrite H1 in Hrun. inversion Hrun. subst.
  apply Forall_forall. intros o Ho. apply in_map_iff in Ho. destruct Ho as (so & <- & _). apply obs_defined.
Qed.

(* refused operations have no effect: read off the model, no invariant needed *)
Ltac crack H :=
  match type of H with
  | bind ?r _ = Ok _ => let E := fresh "E" in destruct r eqn:E; cbn [bind] in H; [crack H | discriminate H | discriminate H]
  | context[match ?x with _ => _ end] => let E := fresh "E" in destruct x eqn:E; crack H
  | _ => first [discriminate H | (inversion H; subst; reflexivity)]
  end.
Theorem refused_no_effect s o s' e : vstep s o = Ok (s', VORefused e) -> s' = s.
Proof.
  destruct o; cbn [vstep]; unfold vaddat, vgetat, vsetat, vremoveat, vpopat, vreverse, vtoarray; intros H; crack H.
Qed.

Theorem out_of_range_refused s l i d : vinv s -> vrep s l -> (Z.of_nat (vnum s) < 2 ^ 31)%Z -> vint i -> length d = vobjsize s ->
  (vins_pos (length l) i = None -> vstep s (VAddAt i (Some d)) = Ok (s, VORefused VERANGE)) /\
  (vacc_pos (length l) i = None ->
     vstep s (VGetAt i) = Ok (s, VORefused (vrefuse_acc l)) /\ vstep s (VSetAt i d) = Ok (s, VORefused (vrefuse_acc l)) /\
     vstep s (VPopAt i) = Ok (s, VORefused (vrefuse_acc l)) /\ vstep s (VRemoveAt i) = Ok (s, VORefused (vrefuse_acc l))).
Proof.
  intros Hi Hr Hn Hint Hd. pose proof (conj Hi Hr : R s l) as HR. split; intros E; cbn [vstep].
  - destruct (vaddat_ref _ _ _ _ HR Hn Hint Hd) as (s' & H1 & _ & _ & H4). rewrite H1, (H4 E). unfold vs_add. rewrite E. reflexivity.
  - destruct (vgetat_ref _ _ HR Hn _ Hint) as [G1 _].
    destruct (vsetat_ref _ _ HR Hn _ _ Hint Hd) as (s1 & S1 & _ & _ & S4).
    destruct (vpopat_ref _ _ HR Hn _ Hint) as (s2 & P1 & _ & _ & P4).
    destruct (vremoveat_ref _ _ HR Hn _ Hint) as (s3 & R1 & _ & _ & R4).
    rewrite G1, S1, P1, R1, (S4 E), (P4 E), (R4 E). unfold vs_get, vs_set, vs_pop, vs_remove. rewrite E. cbn. auto.
Qed.

Lemma nth_firstn_lt {A} (l : list A) n i d : i < n -> nth i (firstn n l) d = nth i l d.
Proof. revert n i. induction l as [|x l IH]; intros [|n] [|i] H; cbn; try lia; auto. apply IH. lia. Qed.
Theorem resize_preserves s l n : vinv s -> vrep s l ->
  exists s', vstep s (VResize n) = Ok (s', VOBool true) /\ vinv s' /\ vrep s' (firstn n l) /\
    vnum s' = Nat.min (vnum s) n /\ vmax s' = n /\ vobjsize s' = vobjsize s /\
    (forall i, i < Nat.min (vnum s) n -> nth i (firstn n l) [] = nth i l []).
Proof.
  intros Hi Hr. destruct (vresize_ref s l n (conj Hi Hr)) as (H1 & [H2 H2'] & H3 & H4 & H5 & _).
  exists (fst (vresize s n)). cbn [vstep]. rewrite H1. repeat (split; [assumption || reflexivity|]).
  intros i Hlt. apply nth_firstn_lt. lia.
Qed.

Theorem usable_after_resize0 s l opts sf h : vinv s -> vrep s l -> vnew 0 (vobjsize s) opts = Some sf ->
  Forall (vwf_op (vobjsize s)) h -> vsmall [] h ->
  let s0 := fst (vresize s 0) in
  let obs := map (vobs_map VByte) (snd (vsrun [] h)) in
  vobjsize s0 = vobjsize s /\ vinv s0 /\ vrep s0 [] /\
  exists s1 s2, vrun s0 h = Ok (s1, obs) /\ vrun sf h = Ok (s2, obs) /\ vrep s1 (fst (vsrun [] h)) /\ vrep s2 (fst (vsrun [] h)).
Proof.
  intros Hi Hr Hf Hw Hs s0 obs. destruct (vresize_ref s l 0 (conj Hi Hr)) as (_ & HR0 & Ho & _). cbn [firstn] in HR0. fold s0 in HR0, Ho.
  split; [exact Ho|]. split; [exact (proj1 HR0)|]. split; [exact (proj2 HR0)|].
  destruct (vnew_R _ _ _ _ Hf) as (HRf & Hof & _).
  destruct (vrun_ref h s0 [] HR0 ltac:(rewrite Ho; exact Hw) Hs) as (s1 & A1 & [_ A2] & _).
  destruct (vrun_ref h sf [] HRf ltac:(rewrite Hof; exact Hw) Hs) as (s2 & B1 & [_ B2] & _).
  exists s1, s2. auto.
Qed.

(* the pinned code (before the repairs), on the vector [1],[2],[3] of one-byte elements: removing the first element is a memcpy over
   overlapping ranges; resizing to 0 leaves a vector whose element size is 0 *)
Definition pinned_w : vec := mkVec (Some [VByte 1%N; VByte 2%N; VByte 3%N]) 3 3 1 0 VExact.
Lemma pinned_w_ok : vinv pinned_w /\ vrep pinned_w [[1%N]; [2%N]; [3%N]].
Proof. unfold vinv, vrep. cbn. repeat split; auto; try (intros X; discriminate X); repeat constructor. Qed.
Theorem pinned_remove_at_overlap : vinv pinned_w /\ vrep pinned_w [[1%N]; [2%N]; [3%N]] /\
  vremove_at_pinned pinned_w 0 = Crash /\ is_ok (vremove_at pinned_w 0) = true.
Proof. split; [apply pinned_w_ok|]. split; [apply pinned_w_ok|]. vm_compute. auto. Qed.
Theorem pinned_resize0_unusable : vinv pinned_w /\ vobjsize (fst (vresize_pinned pinned_w 0)) = 0 /\ ~ vinv (fst (vresize_pinned pinned_w 0)).
Proof. split; [apply pinned_w_ok|]. split; [reflexivity|]. intros (H & _). cbn in H. lia. Qed.

(* ------------------------------------------------------------------------------------------------ *)
(* L. addat with the vector's own element as the new element (the pointer getat(j, false) returned)     *)
Lemma voverlap_below dst src len : src + len <= dst -> voverlap dst src len = false.
Proof.
  intros H. unfold voverlap. destruct (0 <? len); [|reflexivity]. cbn [andb].
  destruct (dst <? src + len) eqn:E; [apply Nat.ltb_lt in E; lia | reflexivity].
Qed.

Lemma vaddself_at_ref s l index q : R s l -> (Z.of_nat (vnum s) < 2 ^ 31)%Z -> vint index -> q < length l ->
  exists s', vaddself_at s index (Z.of_nat q) = Ok (s', vobs_map VByte (snd (vs_add l index (nth q l [])))) /\
             R s' (fst (vs_add l index (nth q l []))) /\ vobjsize s' = vobjsize s.
Proof.
  intros HR Hn Hi Hq. set (d := nth q l []).
  assert (Hd : length d = vobjsize s).
  { pose proof (R_elen _ _ HR) as He. unfold elen in He. rewrite Forall_forall in He. apply He. apply nth_In. exact Hq. }
  unfold vaddself_at, vs_add. rewrite (norm_idx _ _ Hn Hi), (ins_check _ _ Hn (vpos_range _ _ Hn Hi)).
  pose proof (R_len _ _ HR) as Ln. rewrite Ln.
  destruct (vins_pos (vnum s) index) as [p|] eqn:E.
  2:{ unfold vins_pos in E. destruct ((0 <=? vpos (vnum s) index)%Z && (vpos (vnum s) index <=? Z.of_nat (vnum s))%Z); [discriminate|].
      cbn [negb]. exists s. cbn. auto. }
  destruct (ins_pos_le _ _ _ E) as [Hp Hpos]. unfold vins_pos in E.
  destruct ((0 <=? vpos (vnum s) index)%Z && (vpos (vnum s) index <=? Z.of_nat (vnum s))%Z); [|discriminate]. clear E.
  cbn [negb]. rewrite Hpos.
  set (s1 := if vmax s <=? vnum s then _ else s).
  assert (H1 : R s1 l /\ vnum s1 = vnum s /\ vnum s1 < vmax s1 /\ vobjsize s1 = vobjsize s).
  { unfold s1. destruct (vmax s <=? vnum s) eqn:Eg.
    - apply Nat.leb_le in Eg. match goal with |- context[vresize s ?m] => set (newmax := m) end.
      assert (Hg : vmax s < newmax).
      { unfold newmax. destruct HR as [(_ & _ & I3 & _) _]. destruct (vpol s); [lia | specialize (I3 eq_refl); lia | lia]. }
      destruct (vresize_ref s l newmax HR) as (_ & HR' & Ho & Hm & Hnum & _).
      destruct HR as [(_ & I2 & _) _].
      rewrite firstn_all2 in HR' by lia. rewrite Hm, Hnum. split; [exact HR'|]. split; [lia|]. split; [lia | exact Ho].
    - apply Nat.leb_gt in Eg. auto. }
  clearbody s1. destruct H1 as (HR1 & Hn1 & Hlt & Ho1).
  destruct (R_some _ _ HR1 ltac:(lia)) as [b Hb]. rewrite Hb.
  destruct (R_data _ _ _ HR1 Hb) as (junk & Hbb & Lb & LF).
  destruct (split_le l p ltac:(lia)) as (l1 & l2 & Hl & L1).
  pose proof (R_elen _ _ HR1) as He. rewrite Hl in He. apply elen_app in He. destruct He as [He1 He2].
  assert (L2 : length l2 = vnum s - p) by (rewrite <- Ln, Hl, app_length; lia).
  rewrite int_of_size_id by lia. rewrite Hn1.
  replace (Z.to_nat (Z.of_nat (vnum s) - Z.of_nat p)) with (length l2) by lia.
  set (os := vobjsize s1) in *.
  assert (Hjunk : os <= length junk).
  { assert ((vnum s1 + 1) * os <= vmax s1 * os) by (apply Nat.mul_le_mono_r; lia).
    rewrite Hbb, app_length, LF in Lb. lia. }
  assert (LF1 : length (F l1) = p * os) by (rewrite (length_F _ _ He1), L1; reflexivity).
  assert (LF2 : length (F l2) = length l2 * os) by (apply length_F; exact He2).
  rewrite Hbb, Hl, F_app, <- app_assoc.
  rewrite (vshift_up_ref os (F l1) p LF1 l2 junk He2 Hjunk) by lia. cbn [bind].
  set (gap := firstn os (F l2 ++ junk)).
  assert (Lgap : length gap = os) by (unfold gap; rewrite firstn_length_le; [reflexivity | rewrite app_length; lia]).
  assert (LE : length (map VByte d) = os) by (rewrite map_length, Hd; symmetry; exact Ho1).
  rewrite (size_of_int_nat p) by lia.
  (* the read of the own element, wherever the shift left it *)
  assert (Hrd : exists src, size_of_int (if (Z.of_nat p <=? Z.of_nat q)%Z then (Z.of_nat q + 1)%Z else Z.of_nat q) = src /\
                 voverlap (p * os) (src * os) os = false /\
                 vrd (F l1 ++ gap ++ F l2 ++ skipn os junk) (src * os) os = Ok (map VByte d)).
  { destruct (Z.leb_spec (Z.of_nat p) (Z.of_nat q)) as [Hle|Hlt'].
    - (* in l2: one slot up *)
      exists (S q). split; [apply size_of_int_nat1; lia|].
      split; [apply voverlap_far; nia|].
      assert (Hq2 : q - p < length l2) by (rewrite Hl, app_length in Hq; lia).
      destruct (split_at l2 (q - p) Hq2) as (a & e & c & Hl2 & La).
      assert (De : d = e).
      { unfold d. rewrite Hl, app_nth2 by lia. rewrite L1, Hl2. apply nth_mid. exact La. }
      rewrite Hl2 in He2. apply elen_app in He2. destruct He2 as [Hea Hec]. apply elen_cons in Hec. destruct Hec as [Lee Hec].
      rewrite Hl2, F_app, F_cons, <- !app_assoc.
      replace (F l1 ++ gap ++ F a ++ map VByte e ++ F c ++ skipn os junk)
        with ((F l1 ++ gap ++ F a) ++ map VByte e ++ (F c ++ skipn os junk)) by (rewrite <- !app_assoc; reflexivity).
      rewrite De. apply vrd_mid; [|rewrite map_length; symmetry; exact Lee].
      rewrite !app_length, LF1, Lgap, (length_F _ _ Hea), La. nia.
    - (* in l1: untouched *)
      exists q. split; [apply size_of_int_nat; lia|].
      split; [apply voverlap_below; nia|].
      assert (Hq1 : q < length l1) by lia.
      destruct (split_at l1 q Hq1) as (a & e & c & Hl1 & La).
      assert (De : d = e).
      { unfold d. rewrite Hl, app_nth1 by lia. rewrite Hl1. apply nth_mid. exact La. }
      rewrite Hl1 in He1. apply elen_app in He1. destruct He1 as [Hea Hec]. apply elen_cons in Hec. destruct Hec as [Lee Hec].
      rewrite Hl1, F_app, F_cons, <- !app_assoc.
      rewrite De. apply vrd_mid; [|rewrite map_length; symmetry; exact Lee].
      rewrite (length_F _ _ Hea), La. lia. }
  destruct Hrd as (src & -> & Hov & Hrd).
  unfold vmemcpy. rewrite (Nat.mul_comm p os), (Nat.mul_comm src os) in *.
  rewrite Hov. unfold vmemmove. rewrite Hrd. cbn [bind].
  rewrite (vwr_mid (F l1) gap (map VByte d)).
  2:{ rewrite LF1. lia. }
  2:{ rewrite LE, Lgap. reflexivity. }
  cbn [bind]. eexists. split; [reflexivity|]. cbn [fst snd]. split; [|exact Ho1].
  unfold vinsert. rewrite (firstn_exact _ _ _ L1), (skipn_exact _ _ _ L1).
  destruct HR1 as [(I1 & I2 & I3 & I4) _].
  apply (R_intro _ _ (skipn os junk)); cbn [vset_data vobjsize vnum vmax vpol vinitnum vdata]; auto.
  - lia.
  - rewrite F_app, F_cons, <- !app_assoc. reflexivity.
  - fold os. rewrite <- Lb, Hbb, Hl, !F_app, F_cons, !app_length, skipn_length, map_length. lia.
  - rewrite <- Ln, Hl, !app_length. cbn [length]. lia.
  - apply elen_app. split; [exact He1|]. apply elen_cons. split; [unfold os in *; congruence | exact He2].
Qed.

(* addat(v, i, getat(v, j, false)) = "insert a copy of what position j holds at position i", and nothing at all when j names no element *)
Theorem addself_refines s l i j : vinv s -> vrep s l -> (Z.of_nat (vnum s) < 2 ^ 31)%Z -> vint i -> vint j ->
  exists s', vaddself s i j = Ok (s', vobs_map VByte (snd (vs_addself l i j))) /\ vinv s' /\ vrep s' (fst (vs_addself l i j)) /\
             vobjsize s' = vobjsize s.
Proof.
  intros Hv Hr Hn Hi Hj. assert (HR : R s l) by (split; assumption).
  unfold vaddself, vs_addself. rewrite (vget_index_spec _ _ _ HR Hn Hj).
  destruct (vacc_pos (length l) j) as [q|] eqn:E.
  - destruct (acc_pos_lt _ _ _ E) as [Hq _].
    destruct (vaddself_at_ref s l i q HR Hn Hi Hq) as (s' & H1 & [Hv' Hr'] & Ho). exists s'. auto.
  - exists s. cbn [fst snd vobs_map]. auto.
Qed.
