(* Executable model of src/containers/qlisttbl.c (property C08), written to follow the C text.
   The doubly linked chain first..last is the list `t_ents` (prev/next of a node are its neighbours in the list);
   nodes carry an identity `oid` because the caller-held lcursor of getnext()/removeobj() designates nodes:
   a lcursor stores the ids of the neighbours of the node it was filled from, exactly like lobj->prev / lobj->next.
   The stored counter `num` is a separate field (size() returns it, put() and findobj() test it).
   The name hash (qhashmurmur3_32 of the name) is a Section variable: nothing is assumed about it.
   URL codec, _q_makeword and qstrtrim come from Enc/EncModel.v (property C16). *)
From Coq Require Import NArith ZArith List Bool PArith.
From QV.Base Require Import Res Bytes.
From QV.Enc Require Import EncModel.
Import ListNotations.
Local Open Scope N_scope.

(* ---------------- libc in the C locale ---------------- *)
Fixpoint strcmp (a b : list N) : comparison :=
  match a, b with
  | [], [] => Eq
  | [], _ :: _ => Lt
  | _ :: _, [] => Gt
  | x :: a', y :: b' => match x ?= y with Eq => strcmp a' b' | c => c end
  end.
Definition lower (c : N) : N := if (65 <=? c) && (c <=? 90) then c + 32 else c.
Fixpoint strcasecmp (a b : list N) : comparison :=
  match a, b with
  | [], [] => Eq
  | [], _ :: _ => Lt
  | _ :: _, [] => Gt
  | x :: a', y :: b' => match lower x ?= lower y with Eq => strcasecmp a' b' | c => c end
  end.
Definition is_eq (c : comparison) : bool := match c with Eq => true | _ => false end.
Definition is_gt (c : comparison) : bool := match c with Gt => true | _ => false end.

(* snprintf("%" PRId64) of an int64_t (the argument is reduced to the 64-bit two's-complement range) *)
Fixpoint dec_digits (fuel : nat) (n : N) (acc : list N) : list N :=
  match fuel with
  | O => acc
  | S f => let acc' := (48 + n mod 10) :: acc in if n / 10 =? 0 then acc' else dec_digits f (n / 10) acc'
  end.
Definition wrap64 (z : Z) : Z := ((z + 9223372036854775808) mod 18446744073709551616 - 9223372036854775808)%Z.
Definition dec_i64 (z : Z) : list N :=
  let w := wrap64 z in
  if (w <? 0)%Z then 45 :: dec_digits 20 (Z.to_N (- w)) [] else dec_digits 20 (Z.to_N w) [].
(* atoll = strtoll(s, NULL, 10) of glibc: blanks, sign, digits, saturating *)
Definition isspace (c : N) : bool := (c =? 32) || ((9 <=? c) && (c <=? 13)).
Definition isdigit (c : N) : bool := (48 <=? c) && (c <=? 57).
Fixpoint skipws (l : list N) : list N := match l with c :: r => if isspace c then skipws r else l | [] => [] end.
Fixpoint digits (acc : N) (l : list N) : N :=
  match l with c :: r => if isdigit c then digits (acc * 10 + (c - 48)) r else acc | [] => acc end.
Definition clamp64 (z : Z) : Z := Z.max (-9223372036854775808) (Z.min 9223372036854775807 z).
Definition atoll (s : list N) : Z :=
  match skipws s with
  | 45 :: r => clamp64 (- Z.of_N (digits 0 r))
  | 43 :: r => clamp64 (Z.of_N (digits 0 r))
  | s1 => clamp64 (Z.of_N (digits 0 s1))
  end.
Definition has0 (d : list N) : bool := existsb (N.eqb 0) d.

(* ---------------- the text format of save()/load() ---------------- *)
Definition ent := (list N * list N)%type.           (* (name, data) ; data = the `size` bytes of the value *)
(* what "%s" prints for the value: the URL encoding of all size bytes, or the bytes up to the first NUL
   (None: the value holds no NUL, printf would run past it) *)
Definition value_text (enc : bool) (data : list N) : option (list N) :=
  if enc then Some (url_encode data) else if has0 data then Some (cut0 data) else None.
(* qio_printf(fd, -1, "%s%c%s\n", name, sepchar, encval) writes strlen() bytes of the formatted buffer *)
Definition render_line (sep : N) (enc : bool) (e : ent) : option (list N) :=
  match value_text enc (snd e) with Some v => Some (cut0 (fst e ++ sep :: v ++ [10])) | None => None end.
Fixpoint render (sep : N) (enc : bool) (es : list ent) : option (list N) :=
  match es with
  | [] => Some []
  | e :: r => match render_line sep enc e, render sep enc r with Some a, Some b => Some (a ++ b) | _, _ => None end
  end.
Fixpoint lines_aux (s cur : list N) : list (list N) :=
  match s with
  | [] => [rev cur]
  | c :: r => if c =? 10 then rev cur :: lines_aux r [] else lines_aux r (c :: cur)
  end.
Definition parse_line (sep : N) (dec : bool) (ln : list N) : option ent :=
  match trim ln with
  | [] => None
  | (c :: _) as buf =>
    if c =? 35 then None else
    let (name0, data0) := makeword buf sep in
    let data := trim data0 in
    let name := trim name0 in
    Some (name, (if dec then cut0 (url_decode data) else data) ++ [0])     (* put(name, data, strlen(data) + 1) *)
  end.
Definition parse_file (sep : N) (dec : bool) (content : list N) : list ent :=
  flat_map (fun ln => match parse_line sep dec ln with Some p => [p] | None => [] end) (lines_aux (cut0 content) []).

(* ---------------- operations and observations (shared with the specification) ---------------- *)
Inductive lop :=
| LPut (name : option (list N)) (data : list N)        (* name None = NULL; data [] = NULL or size 0 *)
| LPutStr (name : option (list N)) (str : option (list N))
| LPutInt (name : list N) (z : Z)
| LGet (name : option (list N))                        (* get and getstr *)
| LGetInt (name : list N)
| LGetMulti (name : option (list N))
| LRemove (name : option (list N))
| LWalk (name : option (list N)) (n : nat) (rm : list bool)
    (* cleared cursor, up to n calls of getnext(name); after the i-th entry handed out, removeobj(cursor) when rm[i] *)
| LSize | LSort | LClear
| LSave (sep : N) (enc : bool)
| LLoad (content : list N) (sep : N) (dec : bool)
| LLoadMissing.
Inductive lobs :=
| LBool (b : bool) | LVal (v : option (list N)) | LInt (z : Z) | LMulti (l : list (list N)) | LNum (n : N) | LUnit
| LWalked (l : list ent) (ended : bool) (removed : list bool)
| LSaved (content : list N)
| LBad.      (* the call would read past a value that holds no NUL (getint, save without encoding): outside the property *)

Section Listtbl.
Variable hash : list N -> N.

Record lobj := mkObj { oid : positive; ohash : N; oname : list N; odata : list N }.
Record ltbl := mkTbl { t_unique : bool; t_casei : bool; t_top : bool; t_fwd : bool;
                      t_num : N; t_ents : list lobj; t_nextid : positive }.
Definition lt_init (u ci tp fw : bool) : ltbl := mkTbl u ci tp fw 0 [] 1.
Definition with_ents (t : ltbl) (n : N) (l : list lobj) : ltbl :=
  mkTbl (t_unique t) (t_casei t) (t_top t) (t_fwd t) n l (t_nextid t).
Definition with_top (t : ltbl) (b : bool) : ltbl :=
  mkTbl (t_unique t) (t_casei t) b (t_fwd t) (t_num t) (t_ents t) (t_nextid t).
Definition payload (o : lobj) : ent := (oname o, odata o).

(* namematch / namecasematch *)
Definition namematch (t : ltbl) (o : lobj) (name : list N) (h : N) : bool :=
  if t_casei t then is_eq (strcasecmp (oname o) name)
  else (ohash o =? h) && is_eq (strcmp (oname o) name).
Definition namecmp (t : ltbl) (a b : list N) : comparison := if t_casei t then strcasecmp a b else strcmp a b.

(* the chain seen in lookup direction: from first along next, or from last along prev *)
Definition view (t : ltbl) : list lobj := if t_fwd t then t_ents t else rev (t_ents t).
Definition idhd (l : list lobj) : option positive := match l with o :: _ => Some (oid o) | [] => None end.

(* findobj(tbl, name, NULL) *)
Definition findobj (t : ltbl) (name : list N) : option lobj :=
  if t_num t =? 0 then None else find (fun o => namematch t o name (hash name)) (view t).

(* the caller's qlisttbl_obj_t: only size, prev and next are read back by the library *)
Record lcursor := mkCur { c_size : N; c_prev : option positive; c_next : option positive }.
Definition lcursor0 : lcursor := mkCur 0 None None.

(* locate node i in a chain walked in some direction: the id seen just before it and the chain from it on *)
Fixpoint from_id (i : positive) (before : option positive) (l : list lobj) : option (option positive * list lobj) :=
  match l with
  | [] => None
  | o :: r => if Pos.eqb (oid o) i then Some (before, l) else from_id i (Some (oid o)) r
  end.
(* while (cont != NULL) { if (match) ...; cont = next-in-direction } : the first match, the id before it, the id after it *)
Fixpoint scan (p : lobj -> bool) (before : option positive) (l : list lobj) : option (lobj * option positive * option positive) :=
  match l with
  | [] => None
  | o :: r => if p o then Some (o, before, idhd r) else scan p (Some (oid o)) r
  end.

Definition qgetnext (t : ltbl) (c : lcursor) (name : option (list N)) : res (lcursor * option ent) :=
  let cont : option positive :=
    if c_size c =? 0 then
      match name with
      | None => idhd (view t)
      | Some nm => match findobj t nm with Some o => Some (oid o) | None => None end
      end
    else if t_fwd t then c_next c else c_prev c in
  match cont with
  | None => Ok (c, None)                                    (* ENOENT *)
  | Some i =>
    match from_id i None (view t) with
    | None => Crash                                         (* cont points to a node that is no longer in the table *)
    | Some (before, l) =>
      let p := fun o => match name with None => true | Some nm => namematch t o nm (hash nm) end in
      match scan p before l with
      | None => Ok (c, None)
      | Some (o, b, a) =>
        Ok (mkCur (N.of_nat (length (odata o))) (if t_fwd t then b else a) (if t_fwd t then a else b), Some (payload o))
      end
    end
  end.

(* prev and next ids of node i *)
Fixpoint nbrs (i : positive) (before : option positive) (l : list lobj) : option (option positive * option positive) :=
  match l with
  | [] => None
  | o :: r => if Pos.eqb (oid o) i then Some (before, idhd r) else nbrs i (Some (oid o)) r
  end.
Definition opt_eqb (a b : option positive) : bool :=
  match a, b with Some x, Some y => Pos.eqb x y | None, None => true | _, _ => false end.
Fixpoint remove_id (i : positive) (l : list lobj) : list lobj :=
  match l with [] => [] | o :: r => if Pos.eqb (oid o) i then r else o :: remove_id i r end.

(* removeobj: `this` is recomputed from the cursor's neighbours; then prev->next = next, next->prev = prev (or first/last).
   On the list model this is the removal of `this` exactly when the cursor's prev/next are the present neighbours of
   `this`; with any other (stale) lcursor the C code would leave a chain that is no list any more: Crash. *)
Definition qremoveobj (t : ltbl) (c : lcursor) : res (ltbl * bool) :=
  let this : res (option positive) :=
    match c_prev c with
    | Some p => match nbrs p None (t_ents t) with Some (_, nx) => Ok nx | None => Crash end          (* prev->next *)
    | None =>
      match c_next c with
      | Some n => match nbrs n None (t_ents t) with Some (pv, _) => Ok pv | None => Crash end        (* next->prev *)
      | None => Ok (idhd (t_ents t))                                                               (* tbl->first *)
      end
    end in
  bind this (fun th =>
    match th with
    | None => Ok (t, false)                                 (* ENOENT *)
    | Some i =>
      match nbrs i None (t_ents t) with
      | None => Crash
      | Some (pv, nx) =>
        if opt_eqb pv (c_prev c) && opt_eqb nx (c_next c)
        then Ok (with_ents t (t_num t - 1) (remove_id i (t_ents t)), true)
        else Crash
      end
    end).

(* the shape of every loop over getnext(): remove() (all flags set), getmulti() (none), and the walks of the histories *)
Fixpoint walk_n (n : nat) (t : ltbl) (c : lcursor) (name : option (list N)) (rm : list bool)
  : res (ltbl * list ent * bool * list bool) :=
  match n with
  | O => Ok (t, [], false, [])
  | S n' =>
    bind (qgetnext t c name) (fun r =>
      match snd r with
      | None => Ok (t, [], true, [])
      | Some e =>
        if hd false rm then
          bind (qremoveobj t (fst r)) (fun q =>
          bind (walk_n n' (fst q) (fst r) name (tl rm)) (fun w =>
            match w with (t2, ys, en, rs) => Ok (t2, e :: ys, en, snd q :: rs) end))
        else
          bind (walk_n n' t (fst r) name (tl rm)) (fun w =>
            match w with (t2, ys, en, rs) => Ok (t2, e :: ys, en, rs) end)
      end)
  end.
Definition loop_fuel (t : ltbl) : nat := S (length (t_ents t)).

Definition qremove (t : ltbl) (name : option (list N)) : res (ltbl * N) :=
  match name with
  | None => Ok (t, 0)
  | Some nm =>
    bind (walk_n (loop_fuel t) t lcursor0 name (repeat true (loop_fuel t))) (fun w =>
      match w with (t2, ys, en, _) => if en then Ok (t2, N.of_nat (length ys)) else Fuel end)
  end.
Definition qgetmulti (t : ltbl) (name : option (list N)) : res (list (list N)) :=
  bind (walk_n (loop_fuel t) t lcursor0 name []) (fun w =>
    match w with (_, ys, en, _) => if en then Ok (map snd ys) else Fuel end).

(* put: newobj first, then remove() when unique, then the link fields, then insertobj (which computes the hash) *)
Definition qput (t : ltbl) (name : option (list N)) (data : list N) : res (ltbl * bool) :=
  match name, data with
  | None, _ => Ok (t, false)
  | _, [] => Ok (t, false)                                  (* EINVAL *)
  | Some nm, _ =>
    let id := t_nextid t in
    let t0 := mkTbl (t_unique t) (t_casei t) (t_top t) (t_fwd t) (t_num t) (t_ents t) (Pos.succ id) in
    bind (if t_unique t0 then bind (qremove t0 name) (fun r => Ok (fst r)) else Ok t0) (fun t1 =>
    let o := mkObj id (hash nm) nm data in
    let l := if t_num t1 =? 0 then [o]
             else if t_top t1 then o :: t_ents t1 else t_ents t1 ++ [o] in
    Ok (with_ents t1 (t_num t1 + 1) l, true))
  end.
Definition qputstr (t : ltbl) (name : option (list N)) (str : option (list N)) : res (ltbl * bool) :=
  qput t name (match str with Some s => s ++ [0] | None => [] end).
Definition qputint (t : ltbl) (name : list N) (z : Z) : res (ltbl * bool) := qputstr t (Some name) (Some (dec_i64 z)).

Definition qget (t : ltbl) (name : option (list N)) : option (list N) :=
  match name with None => None | Some nm => match findobj t nm with Some o => Some (odata o) | None => None end end.
Definition qgetint (t : ltbl) (name : list N) : lobs :=
  match qget t (Some name) with
  | None => LInt 0
  | Some d => if has0 d then LInt (atoll (cut0 d)) else LBad
  end.

(* sort: bubble sort exchanging hash, name, data and size of neighbouring nodes; n2 remembers the last exchange *)
Definition swap_payload (a b : lobj) : lobj * lobj :=
  (mkObj (oid a) (ohash b) (oname b) (odata b), mkObj (oid b) (ohash a) (oname a) (odata a)).
Fixpoint bpass (gt : lobj -> lobj -> bool) (cur : lobj) (rest : list lobj) (i todo n2 : nat) {struct rest} : res (list lobj * nat) :=
  match todo with                                           (* todo = (n - 1) - i : iterations left of  for (i = 0; i < n - 1; i++) *)
  | O => Ok (cur :: rest, n2)
  | S todo' =>
    match rest with
    | [] => Crash                                           (* obj2 = obj1->next "can't be null" *)
    | b :: r =>
      if gt cur b then
        let (a', b') := swap_payload cur b in
        bind (bpass gt b' r (S i) todo' (S i)) (fun p => Ok (a' :: fst p, snd p))
      else bind (bpass gt b r (S i) todo' n2) (fun p => Ok (cur :: fst p, snd p))
    end
  end.
Fixpoint bsort (fuel : nat) (gt : lobj -> lobj -> bool) (l : list lobj) (n : nat) : res (list lobj) :=
  match fuel with
  | O => Fuel
  | S f =>
    match n with
    | O => Ok l                                             (* for (n = tbl->num; n > 0;) *)
    | S n1 =>
      match l with
      | [] => match n1 with O => Ok l | _ => Crash end      (* obj1 = tbl->first = NULL is only dereferenced when n - 1 > 0 *)
      | a :: r => bind (bpass gt a r 0 n1 0) (fun p => bsort f gt (fst p) (snd p))
      end
    end
  end.
Definition obj_gt (t : ltbl) (a b : lobj) : bool := is_gt (namecmp t (oname a) (oname b)).
Definition qsort (t : ltbl) : res ltbl :=
  bind (bsort (S (N.to_nat (t_num t))) (obj_gt t) (t_ents t) (N.to_nat (t_num t))) (fun l => Ok (with_ents t (t_num t) l)).

Definition qclear (t : ltbl) : ltbl := with_ents t 0 [].
Definition qsave (t : ltbl) (sep : N) (enc : bool) : lobs :=
  match render sep enc (map payload (t_ents t)) with Some b => LSaved b | None => LBad end.

(* load (after the two repairs): every parsed line is put() at the bottom whatever INSERTTOP says, and counted *)
Fixpoint load_loop (t : ltbl) (ps : list ent) (cnt : Z) : res (ltbl * Z) :=
  match ps with
  | [] => Ok (t, cnt)
  | (nm, d) :: r => bind (qput t (Some nm) d) (fun q => load_loop (fst q) r (if snd q then (cnt + 1)%Z else cnt))
  end.
Definition qload (t : ltbl) (content : list N) (sep : N) (dec : bool) : res (ltbl * Z) :=
  bind (load_loop (with_top t false) (parse_file sep dec content) 0) (fun q => Ok (with_top (fst q) (t_top t), snd q)).

Definition lt_step (t : ltbl) (o : lop) : res (ltbl * lobs) :=
  match o with
  | LPut nm d => bind (qput t nm d) (fun r => Ok (fst r, LBool (snd r)))
  | LPutStr nm s => bind (qputstr t nm s) (fun r => Ok (fst r, LBool (snd r)))
  | LPutInt nm z => bind (qputint t nm z) (fun r => Ok (fst r, LBool (snd r)))
  | LGet nm => Ok (t, LVal (qget t nm))
  | LGetInt nm => Ok (t, qgetint t nm)
  | LGetMulti nm => bind (qgetmulti t nm) (fun l => Ok (t, LMulti l))
  | LRemove nm => bind (qremove t nm) (fun r => Ok (fst r, LNum (snd r)))
  | LWalk nm n rm => bind (walk_n n t lcursor0 nm rm) (fun w => match w with (t2, ys, en, rs) => Ok (t2, LWalked ys en rs) end)
  | LSize => Ok (t, LNum (t_num t))
  | LSort => bind (qsort t) (fun t2 => Ok (t2, LUnit))
  | LClear => Ok (qclear t, LUnit)
  | LSave sep enc => Ok (t, qsave t sep enc)
  | LLoad content sep dec => bind (qload t content sep dec) (fun r => Ok (fst r, LInt (snd r)))
  | LLoadMissing => Ok (t, LInt (-1))
  end.
Fixpoint lt_run (t : ltbl) (os : list lop) : res (ltbl * list lobs) :=
  match os with
  | [] => Ok (t, [])
  | o :: r => bind (lt_step t o) (fun p => bind (lt_run (fst p) r) (fun q => Ok (fst q, snd p :: snd q)))
  end.
End Listtbl.
