(* qqueue.c, qstack.c and qgrow.c as executable models: thin wrappers over the qlist model, written call by call.
   qqueue.c and qstack.c have the same text except for the end of the list that push/pushstr/pushint address.  Executable definitions only. *)
From Coq Require Import NArith ZArith List Bool.
From QV.Base Require Import Res.
From QV.Gen Require Import SeqWrap.
From QV.Seq Require Import ListModel.
Import ListNotations.
Import QL.
Local Open Scope Z_scope.

Module QW.

Inductive kind := Queue | Stack.
(* which end of the list a wrapper function addresses (addfirst/getfirst/popfirst = index 0, addlast/getlast/poplast = -1):
   read from the source text by tools/gen_seqwrap.py on every run (coq/Gen/SeqWrap.v) *)
Inductive fn := FPush | FPushStr | FPushInt | FPop | FPopStr | FPopInt | FGet | FGetStr | FGetInt.
Definition end_of (k : kind) (f : fn) : Z :=
  match k, f with
  | Queue, FPush => queue_push_index | Queue, FPushStr => queue_pushstr_index | Queue, FPushInt => queue_pushint_index
  | Queue, FPop => queue_pop_index | Queue, FPopStr => queue_popstr_index | Queue, FPopInt => queue_popint_index
  | Queue, FGet => queue_get_index | Queue, FGetStr => queue_getstr_index | Queue, FGetInt => queue_getint_index
  | Stack, FPush => stack_push_index | Stack, FPushStr => stack_pushstr_index | Stack, FPushInt => stack_pushint_index
  | Stack, FPop => stack_pop_index | Stack, FPopStr => stack_popstr_index | Stack, FPopInt => stack_popint_index
  | Stack, FGet => stack_get_index | Stack, FGetStr => stack_getstr_index | Stack, FGetInt => stack_getint_index
  end.

(* strlen: bstr before the first NUL of the caller's buffer (the harness appends the terminator) *)
Fixpoint cstrlen_prefix (b : bstr) : bstr :=
  match b with
  | [] => []
  | c :: r => if N.eqb c 0 then [] else c :: cstrlen_prefix r
  end.
(* int64_t in memory (little endian, two's complement) *)
Fixpoint le_bytes (n : nat) (z : Z) : bstr :=
  match n with O => [] | S m => Z.to_N (z mod 256) :: le_bytes m (z / 256) end.
Fixpoint le_val (b : bstr) : Z :=
  match b with [] => 0 | c :: r => Z.of_N c + 256 * le_val r end.
Definition i64 (z : Z) : Z := (z + 2^63) mod 2^64 - 2^63.
Definition int_bytes (z : Z) : bstr := le_bytes 8 (z mod 2^64).
(* num = *pnum: reads 8 bstr of the returned copy; a shorter block is over-read *)
Definition read_int (b : bstr) : res Z :=
  if Nat.ltb (length b) 8 then Crash else Ok (i64 (le_val (firstn 8 b))).
(* str[strsize - 1] = '\0' *)
Definition force_nul (b : bstr) : bstr := removelast b ++ [0%N].

Inductive wop :=
| WPush (d : option bstr) | WPushStr (s : option bstr) | WPushInt (z : Z)
| WPop | WPopStr | WPopInt | WPopAt (i : Z)
| WGet (newmem : bool) | WGetStr | WGetInt | WGetAt (i : Z) (newmem : bool)
| WSize | WClear | WSetSize (m : Z).

Definition str_obs (r : bstr + err) : obs :=
  match r with inl b => OCStr (Some (cstrlen_prefix (force_nul b))) | inr _ => OCStr None end.
Definition int_obs (r : bstr + err) : res obs :=
  match r with inl b => bind (read_int b) (fun z => Ok (OInt z)) | inr _ => Ok (OInt 0) end.

Definition wstep (k : kind) (q : qlist) (o : wop) : res (qlist * obs) :=
  match o with
  | WPush d => bind (addat q (end_of k FPush) d) (fun r => Ok (fst r, ob_err (snd r)))
  | WPushStr None => Ok (q, OFail EINVAL)
  | WPushStr (Some s) => bind (addat q (end_of k FPushStr) (Some (cstrlen_prefix s ++ [0%N]))) (fun r => Ok (fst r, ob_err (snd r)))
  | WPushInt z => bind (addat q (end_of k FPushInt) (Some (int_bytes z))) (fun r => Ok (fst r, ob_err (snd r)))
  | WPop => bind (get_at q (end_of k FPop) true) (fun r => Ok (fst r, ob_data (snd r)))
  | WPopStr => bind (get_at q (end_of k FPopStr) true) (fun r => Ok (fst r, str_obs (snd r)))
  | WPopInt => bind (get_at q (end_of k FPopInt) true) (fun r => bind (int_obs (snd r)) (fun ob => Ok (fst r, ob)))
  | WPopAt i => bind (get_at q i true) (fun r => Ok (fst r, ob_data (snd r)))
  | WGet _ => bind (get_at q (end_of k FGet) false) (fun r => Ok (fst r, ob_data (snd r)))
  | WGetStr => bind (get_at q (end_of k FGetStr) false) (fun r => Ok (fst r, str_obs (snd r)))
  | WGetInt => bind (get_at q (end_of k FGetInt) false) (fun r => bind (int_obs (snd r)) (fun ob => Ok (fst r, ob)))
  | WGetAt i _ => bind (get_at q i false) (fun r => Ok (fst r, ob_data (snd r)))
  | WSize => Ok (q, ONum (num q))
  | WClear => Ok (clear q, OOk)
  | WSetSize m => let (q', old) := setsize q m in Ok (q', ONum old)
  end.
Fixpoint wrun (k : kind) (q : qlist) (os : list wop) : res (qlist * list obs) :=
  match os with
  | [] => Ok (q, [])
  | o :: r => bind (wstep k q o) (fun p => bind (wrun k (fst p) r) (fun t => Ok (fst t, snd p :: snd t)))
  end.

(* ---- qgrow ---- *)
Inductive gop :=
| GAdd (d : option bstr) | GAddStr (s : option bstr)     (* addstr(NULL) calls strlen(NULL) *)
| GSize | GDataSize | GToArray | GToString | GClear.
Definition gstep (q : qlist) (o : gop) : res (qlist * obs) :=
  match o with
  | GAdd d => bind (addat q grow_add_index d) (fun r => Ok (fst r, ob_err (snd r)))
  | GAddStr None => Crash
  | GAddStr (Some s) => bind (addat q grow_addstr_index (Some (cstrlen_prefix s))) (fun r => Ok (fst r, ob_err (snd r)))
  | GSize => Ok (q, ONum (num q))
  | GDataSize => Ok (q, ONum (datasum q))
  | GToArray => bind (toarray q) (fun r => Ok (q, match r with inl (b, sz) => OArr b sz | inr e => OFailSz e 0 end))
  | GToString => bind (tostring q) (fun r => Ok (q, match r with inl b => OStr b | inr e => OFail e end))
  | GClear => Ok (clear q, OOk)
  end.
Fixpoint grun (q : qlist) (os : list gop) : res (qlist * list obs) :=
  match os with
  | [] => Ok (q, [])
  | o :: r => bind (gstep q o) (fun p => bind (grun (fst p) r) (fun t => Ok (fst t, snd p :: snd t)))
  end.
End QW.
