(* qlist.c as an executable model.  Executable definitions only (no proofs).

   State: the chain of nodes front-to-back as `items : list node` (a node = identity + the private copy of the data),
   and the three counters the C code stores and maintains by hand: `num`, `datasum`, `maxn` (size_t, kept in Z).
   Index arithmetic is written with the explicit conversions the C expressions perform:
     u64 = conversion to size_t,  i32 = conversion (back) to int (two's complement wrap, as gcc does).
   Pointers obtained and used inside one call (get_obj's result) and the pointer the caller keeps between calls
   (the `next` field of the getnext cursor) are node identities; a pointer to a node that is no longer in the chain
   resolves to Crash. *)
From Coq Require Import NArith ZArith List Bool.
From QV.Base Require Import Res.
Import ListNotations.
Local Open Scope Z_scope.

Module QL.

Definition u64 (z : Z) : Z := z mod 2^64.
Definition i32 (z : Z) : Z := (z + 2^31) mod 2^32 - 2^31.

Definition bstr := list N.
Definition node := (positive * bstr)%type.
Definition nsize (x : node) : Z := Z.of_nat (length (snd x)).

Record qlist := mkL { items : list node; num : Z; datasum : Z; maxn : Z; nextid : positive }.
Definition linit : qlist := mkL [] 0 0 0 1%positive.

Inductive err := EINVAL | ENOBUFS | ERANGE | ENOENT | EAGAIN.

(* ---- get_obj ---- *)
(* while (obj != NULL) { if (listidx == index) return obj; obj = backward ? obj->prev : obj->next; listidx +-= 1; }
   `cur` is the chain seen from obj in the walking direction. *)
Fixpoint go (fuel : nat) (cur : list node) (listidx index : Z) (backward : bool) : res (node + err) :=
  match fuel with
  | O => Fuel
  | S f =>
    match cur with
    | [] => Ok (inr ENOENT)                                   (* "never reach here" *)
    | x :: r => if listidx =? index then Ok (inl x)
                else go f r (if backward then i32 (listidx - 1) else i32 (listidx + 1)) index backward
    end
  end.
(* if (index < 0) index = list->num + index;        size_t + int -> size_t -> int *)
Definition norm_get (n index : Z) : Z := if index <? 0 then i32 (u64 (n + u64 index)) else index.
Definition get_obj (q : qlist) (index : Z) : res (node + err) :=
  let idx := norm_get (num q) index in
  if num q <=? u64 idx then Ok (inr ERANGE)                   (* if (index >= list->num): compared as size_t *)
  else if u64 idx <? num q / 2                                 (* if (index < list->num / 2) *)
       then go (S (length (items q))) (items q) 0 idx false
       else go (S (length (items q))) (rev (items q)) (i32 (u64 (num q - 1))) idx true.

(* ---- remove_obj: unlink the node, adjust the counters ---- *)
Fixpoint unlink (i : positive) (l : list node) : list node :=
  match l with
  | [] => []
  | x :: r => if Pos.eqb (fst x) i then r else x :: unlink i r
  end.
Definition remove_obj (q : qlist) (x : node) : qlist :=
  mkL (unlink (fst x) (items q)) (num q - 1) (datasum q - nsize x) (maxn q) (nextid q).

(* ---- qlist_addat ---- *)
Fixpoint insert_before (i : positive) (y : node) (l : list node) : list node :=
  match l with
  | [] => []
  | x :: r => if Pos.eqb (fst x) i then y :: x :: r else x :: insert_before i y r
  end.
(* if (index < 0) index = (list->num + index) + 1; *)
Definition norm_add (n index : Z) : Z := if index <? 0 then i32 (u64 (u64 (n + u64 index) + 1)) else index.
(* d = None: data == NULL;  Some []: size == 0 *)
Definition addat (q : qlist) (index : Z) (d : option bstr) : res (qlist * option err) :=
  match d with
  | None | Some [] => Ok (q, Some EINVAL)
  | Some b =>
    if (0 <? maxn q) && (maxn q <=? num q) then Ok (q, Some ENOBUFS) else
    let idx := norm_add (num q) index in
    if (idx <? 0) || (num q <? u64 idx) then Ok (q, Some ERANGE) else
    let x : node := (nextid q, b) in
    let fin l := Ok (mkL l (num q + 1) (datasum q + nsize x) (maxn q) (Pos.succ (nextid q)), None) in
    if idx =? 0 then fin (x :: items q)                       (* add at first *)
    else if u64 idx =? num q then fin (items q ++ [x])        (* add after last *)
    else bind (get_obj q idx) (fun r =>
         match r with
         | inr _ => Ok (q, Some EAGAIN)
         | inl tgt => match items q with
                      | t0 :: _ => if Pos.eqb (fst t0) (fst tgt) then Crash   (* tgt->prev->next with tgt->prev == NULL *)
                                   else fin (insert_before (fst tgt) x (items q))
                      | [] => Crash
                      end
         end)
  end.

(* ---- get_at (getat / popat) and removeat ---- *)
Definition get_at (q : qlist) (index : Z) (remove : bool) : res (qlist * (bstr + err)) :=
  bind (get_obj q index) (fun r =>
  match r with
  | inr e => Ok (q, inr e)
  | inl x => Ok (if remove then remove_obj q x else q, inl (snd x))
  end).
Definition removeat (q : qlist) (index : Z) : res (qlist * option err) :=
  bind (get_obj q index) (fun r =>
  match r with
  | inr e => Ok (q, Some e)
  | inl x => Ok (remove_obj q x, None)
  end).

(* ---- qlist_getnext with the caller's cursor (obj.size, obj.next) ---- *)
Definition cursor := (Z * option positive)%type.
Definition cursor0 : cursor := (0, None).
Fixpoint find_id (i : positive) (l : list node) : option (node * option positive) :=
  match l with
  | [] => None
  | x :: r => if Pos.eqb (fst x) i then Some (x, match r with y :: _ => Some (fst y) | [] => None end)
              else find_id i r
  end.
Definition getnext (q : qlist) (c : cursor) : res (cursor * (bstr + err)) :=
  let cont := if fst c =? 0 then match items q with x :: _ => Some (fst x) | [] => None end else snd c in
  match cont with
  | None => Ok (c, inr ENOENT)
  | Some i => match find_id i (items q) with
              | None => Crash                                  (* dangling obj->next *)
              | Some (x, nx) => Ok ((nsize x, nx), inl (snd x))
              end
  end.

(* ---- reverse, clear, setsize ---- *)
Definition reverse (q : qlist) : qlist := mkL (rev (items q)) (num q) (datasum q) (maxn q) (nextid q).
Definition clear (q : qlist) : qlist := mkL [] 0 0 (maxn q) (nextid q).
Definition setsize (q : qlist) (m : Z) : qlist * Z := (mkL (items q) (num q) (datasum q) m (nextid q), maxn q).

(* ---- toarray / tostring ---- *)
(* chunk = malloc(datasum); memcpy each element; *size = datasum.  Writing more than datasum bstr is a heap overflow. *)
Definition toarray (q : qlist) : res ((bstr * Z) + err) :=
  if num q <=? 0 then Ok (inr ENOENT) else
  let chunk := concat (map snd (items q)) in
  if datasum q <? Z.of_nat (length chunk) then Crash else Ok (inl (chunk, datasum q)).
(* per element: size = obj->size; if (data[size-1] == 0) size -= 1; copy size bstr.  data[size-1] with size = 0 is data[-1]. *)
Definition strip1 (b : bstr) : res bstr :=
  match rev b with
  | [] => Crash
  | c :: r => Ok (if N.eqb c 0 then rev r else b)
  end.
Fixpoint strip_all (l : list node) : res bstr :=
  match l with
  | [] => Ok []
  | x :: r => bind (strip1 (snd x)) (fun a => bind (strip_all r) (fun b => Ok (a ++ b)))
  end.
Definition tostring (q : qlist) : res (bstr + err) :=
  if num q <=? 0 then Ok (inr ENOENT) else
  bind (strip_all (items q)) (fun s =>
  if datasum q + 1 <? Z.of_nat (length s) + 1 then Crash else Ok (inl (s ++ [0%N]))).

(* ---- histories on a list with one caller cursor ---- *)
Inductive op :=
| AddFirst (d : option bstr) | AddLast (d : option bstr) | AddAt (i : Z) (d : option bstr)
| GetFirst (newmem : bool) | GetLast (newmem : bool) | GetAt (i : Z) (newmem : bool)
| PopFirst | PopLast | PopAt (i : Z)
| RemoveFirst | RemoveLast | RemoveAt (i : Z)
| GetNext (newmem : bool) | CurReset
| Reverse | Clear | SetSize (m : Z) | Size | DataSize | ToArray | ToString.

Inductive obs :=
| OOk                            (* true, or a void function returned *)
| OFail (e : err)                (* false / NULL with errno *)
| OFailSz (e : err) (sz : Z)     (* NULL, errno, and the out-parameter *size was written *)
| OData (b : bstr)              (* element bstr; *size = their number *)
| ONum (z : Z)
| OArr (b : bstr) (sz : Z)      (* toarray: the bstr written and the returned *size *)
| OStr (b : bstr)               (* tostring: everything written, terminator included *)
| OInt (z : Z)                   (* wrappers: popint/getint *)
| OCStr (s : option bstr)       (* wrappers: popstr/getstr seen as a C string (NULL or the bstr before the first NUL) *)
| OUndef.                        (* specification only: the caller broke a precondition, nothing is promised *)

Definition ob_err (r : option err) : obs := match r with None => OOk | Some e => OFail e end.
Definition ob_data (r : bstr + err) : obs := match r with inl b => OData b | inr e => OFail e end.

Definition lstate := (qlist * cursor)%type.
Definition step (s : lstate) (o : op) : res (lstate * obs) :=
  let (q, c) := s in
  match o with
  | AddFirst d => bind (addat q 0 d) (fun r => Ok ((fst r, c), ob_err (snd r)))
  | AddLast d => bind (addat q (-1) d) (fun r => Ok ((fst r, c), ob_err (snd r)))
  | AddAt i d => bind (addat q i d) (fun r => Ok ((fst r, c), ob_err (snd r)))
  | GetFirst _ => bind (get_at q 0 false) (fun r => Ok ((fst r, c), ob_data (snd r)))
  | GetLast _ => bind (get_at q (-1) false) (fun r => Ok ((fst r, c), ob_data (snd r)))
  | GetAt i _ => bind (get_at q i false) (fun r => Ok ((fst r, c), ob_data (snd r)))
  | PopFirst => bind (get_at q 0 true) (fun r => Ok ((fst r, c), ob_data (snd r)))
  | PopLast => bind (get_at q (-1) true) (fun r => Ok ((fst r, c), ob_data (snd r)))
  | PopAt i => bind (get_at q i true) (fun r => Ok ((fst r, c), ob_data (snd r)))
  | RemoveFirst => bind (removeat q 0) (fun r => Ok ((fst r, c), ob_err (snd r)))
  | RemoveLast => bind (removeat q (-1)) (fun r => Ok ((fst r, c), ob_err (snd r)))
  | RemoveAt i => bind (removeat q i) (fun r => Ok ((fst r, c), ob_err (snd r)))
  | GetNext _ => bind (getnext q c) (fun r => Ok ((q, fst r), ob_data (snd r)))
  | CurReset => Ok ((q, cursor0), OOk)
  | Reverse => Ok ((reverse q, c), OOk)
  | Clear => Ok ((clear q, c), OOk)
  | SetSize m => let (q', old) := setsize q m in Ok ((q', c), ONum old)
  | Size => Ok (s, ONum (num q))
  | DataSize => Ok (s, ONum (datasum q))
  | ToArray => bind (toarray q) (fun r => Ok (s, match r with inl (b, sz) => OArr b sz | inr e => OFailSz e 0 end))
  | ToString => bind (tostring q) (fun r => Ok (s, match r with inl b => OStr b | inr e => OFail e end))
  end.
Fixpoint run (s : lstate) (os : list op) : res (lstate * list obs) :=
  match os with
  | [] => Ok (s, [])
  | o :: r => bind (step s o) (fun p => bind (run (fst p) r) (fun q => Ok (fst q, snd p :: snd q)))
  end.
Definition init : lstate := (linit, cursor0).
End QL.
