(* C08: the list-table model refines the ordered multimap for every history and every option combination.
   Invariant, getnext/removeobj/walk lemmas, per-operation refinement, history induction. *)
From Coq Require Import NArith ZArith List Bool PArith Lia.
From QV.Base Require Import Res Bytes.
From QV.Enc Require Import EncModel.
From QV.Seq Require Import ListtblModel ListtblSpec.
Import ListNotations.

(* ---------------- strings ---------------- *)
Lemma list_eqb_eq a : forall b, list_eqb a b = true <-> a = b.
Proof.
  induction a as [|x a IH]; destruct b as [|y b]; simpl; try (split; (discriminate || reflexivity)).
  rewrite andb_true_iff, N.eqb_eq, IH. split; [intros [-> ->]; reflexivity | intros E; inversion E; auto].
Qed.
Lemma list_eqb_refl a : list_eqb a a = true.
Proof. apply list_eqb_eq. reflexivity. Qed.
Lemma strcmp_eqb a : forall b, is_eq (strcmp a b) = list_eqb a b.
Proof.
  induction a as [|x a IH]; destruct b as [|y b]; simpl; try reflexivity.
  destruct (N.eqb_spec x y) as [->|Hne].
  - rewrite N.compare_refl. apply IH.
  - destruct (x ?= y)%N eqn:E; try reflexivity. apply N.compare_eq_iff in E. contradiction.
Qed.
Lemma lower_fold c : lower c = fold_case c.
Proof. reflexivity. Qed.
Lemma strcasecmp_map a : forall b, strcasecmp a b = strcmp (map fold_case a) (map fold_case b).
Proof. induction a as [|x a IH]; destruct b as [|y b]; simpl; try reflexivity. rewrite IH. reflexivity. Qed.
Lemma strcasecmp_eqb a b : is_eq (strcasecmp a b) = list_eqb (map fold_case a) (map fold_case b).
Proof. rewrite strcasecmp_map. apply strcmp_eqb. Qed.

(* ---------------- generic list facts ---------------- *)
Lemma find_ext {A} (p q : A -> bool) l : (forall x, In x l -> p x = q x) -> find p l = find q l.
Proof.
  induction l as [|x l IH]; simpl; intros H; [reflexivity|].
  rewrite (H x (or_introl eq_refl)). destruct (q x); [reflexivity|]. apply IH. intros y Hy. apply H. right. exact Hy.
Qed.
Lemma find_map {A B} (f : A -> B) (q : B -> bool) l : find q (map f l) = option_map f (find (fun x => q (f x)) l).
Proof. induction l as [|x l IH]; simpl; [reflexivity|]. destruct (q (f x)); [reflexivity|exact IH]. Qed.
Lemma filter_ext_in {A} (p q : A -> bool) l : (forall x, In x l -> p x = q x) -> filter p l = filter q l.
Proof.
  induction l as [|x l IH]; simpl; intros H; [reflexivity|].
  rewrite (H x (or_introl eq_refl)). rewrite IH; [reflexivity|]. intros y Hy. apply H. right. exact Hy.
Qed.
Lemma filter_map {A B} (f : A -> B) (q : B -> bool) l : filter q (map f l) = map f (filter (fun x => q (f x)) l).
Proof. induction l as [|x l IH]; simpl; [reflexivity|]. destruct (q (f x)); simpl; rewrite IH; reflexivity. Qed.
Lemma filter_rev {A} (p : A -> bool) l : filter p (rev l) = rev (filter p l).
Proof.
  induction l as [|x l IH]; simpl; [reflexivity|]. rewrite filter_app, IH. simpl.
  destruct (p x); simpl; [reflexivity|]. rewrite app_nil_r. reflexivity.
Qed.

(* ---------------- swalk ---------------- *)
Lemma swalk_ext {A} (p q : A -> bool) v : forall n rm, (forall x, In x v -> p x = q x) -> swalk p v n rm = swalk q v n rm.
Proof.
  induction v as [|e r IH]; intros n rm H; simpl; [reflexivity|].
  destruct n as [|n']; [reflexivity|].
  rewrite (H e (or_introl eq_refl)).
  assert (Hr : forall x, In x r -> p x = q x) by (intros x Hx; apply H; right; exact Hx).
  destruct (q e); rewrite IH by exact Hr; reflexivity.
Qed.
Lemma swalk_map {A B} (f : A -> B) (q : B -> bool) v : forall n rm,
  swalk q (map f v) n rm =
  match swalk (fun x => q (f x)) v n rm with (v', ys, en, rs) => (map f v', map f ys, en, rs) end.
Proof.
  induction v as [|e r IH]; intros n rm; simpl; [reflexivity|].
  destruct n as [|n']; [reflexivity|].
  destruct (q (f e)).
  - rewrite IH. destruct (swalk (fun x => q (f x)) r n' (tl rm)) as [[[v' ys] en] rs]. destruct (hd false rm); reflexivity.
  - rewrite IH. destruct (swalk (fun x => q (f x)) r (S n') rm) as [[[v' ys] en] rs]. reflexivity.
Qed.
Lemma swalk_skip {A} (p : A -> bool) r1 : forall v n rm, (forall x, In x r1 -> p x = false) ->
  swalk p (r1 ++ v) n rm = match swalk p v n rm with (v', ys, en, rs) => (r1 ++ v', ys, en, rs) end.
Proof.
  induction r1 as [|e r1 IH]; intros v n rm H; simpl.
  - destruct (swalk p v n rm) as [[[v' ys] en] rs]. reflexivity.
  - destruct n as [|n'].
    + destruct v; reflexivity.
    + rewrite (H e (or_introl eq_refl)). rewrite IH by (intros x Hx; apply H; right; exact Hx).
      destruct (swalk p v (S n') rm) as [[[v' ys] en] rs]. reflexivity.
Qed.
Lemma swalk_nomatch {A} (p : A -> bool) v n rm : (forall x, In x v -> p x = false) ->
  swalk p v (S n) rm = (v, [], true, []).
Proof.
  intros H. rewrite <- (app_nil_r v) at 1. rewrite swalk_skip by exact H. simpl. rewrite app_nil_r. reflexivity.
Qed.
(* remove(): every flag set, more calls allowed than there are entries *)
Lemma swalk_all_rm {A} (p : A -> bool) v : forall n, (length v < n)%nat ->
  swalk p v n (repeat true n) = (filter (fun x => negb (p x)) v, filter p v, true, repeat true (length (filter p v))).
Proof.
  induction v as [|e r IH]; intros n Hn; simpl.
  - destruct n; [inversion Hn|reflexivity].
  - destruct n as [|n']; [inversion Hn|]. simpl in Hn.
    destruct (p e) eqn:E; simpl.
    + rewrite IH by lia. reflexivity.
    + change (true :: repeat true n') with (repeat true (S n')). rewrite IH by lia. reflexivity.
Qed.
(* getmulti(): no flag set *)
Lemma swalk_no_rm {A} (p : A -> bool) v : forall n, (length v < n)%nat -> swalk p v n [] = (v, filter p v, true, []).
Proof.
  induction v as [|e r IH]; intros n Hn; simpl.
  - destruct n; [inversion Hn|reflexivity].
  - destruct n as [|n']; [inversion Hn|]. simpl in Hn.
    destruct (p e) eqn:E; simpl; rewrite IH by lia; reflexivity.
Qed.

(* ---------------- chains and ids ---------------- *)
Definition ids (l : list lobj) : list positive := map oid l.
Fixpoint idlast (b : option positive) (l : list lobj) : option positive :=
  match l with [] => b | o :: r => idlast (Some (oid o)) r end.
Lemma idlast_app b a c : idlast b (a ++ c) = idlast (idlast b a) c.
Proof. revert b. induction a as [|x a IH]; intros b; simpl; [reflexivity|apply IH]. Qed.
Lemma idlast_snoc b a x : idlast b (a ++ [x]) = Some (oid x).
Proof. rewrite idlast_app. reflexivity. Qed.
Lemma idhd_rev l : idhd (rev l) = idlast None l.
Proof.
  destruct l as [|x l] using rev_ind; [reflexivity|]. rewrite rev_app_distr, idlast_snoc. reflexivity.
Qed.
Lemma idlast_rev l : idlast None (rev l) = idhd l.
Proof. rewrite <- (rev_involutive l) at 2. rewrite idhd_rev. reflexivity. Qed.
Lemma ids_app a b : ids (a ++ b) = ids a ++ ids b.
Proof. apply map_app. Qed.
Lemma ids_rev a : ids (rev a) = rev (ids a).
Proof. apply map_rev. Qed.

Lemma from_id_app pre : forall b o r, ~ In (oid o) (ids pre) ->
  from_id (oid o) b (pre ++ o :: r) = Some (idlast b pre, o :: r).
Proof.
  induction pre as [|x pre IH]; intros b o r H; simpl.
  - rewrite Pos.eqb_refl. reflexivity.
  - destruct (Pos.eqb_spec (oid x) (oid o)) as [E|_]; [exfalso; apply H; left; exact E|].
    apply IH. intros Hi. apply H. right. exact Hi.
Qed.
Lemma nbrs_app a : forall b o r, ~ In (oid o) (ids a) ->
  nbrs (oid o) b (a ++ o :: r) = Some (idlast b a, idhd r).
Proof.
  induction a as [|x a IH]; intros b o r H; simpl.
  - rewrite Pos.eqb_refl. reflexivity.
  - destruct (Pos.eqb_spec (oid x) (oid o)) as [E|_]; [exfalso; apply H; left; exact E|].
    apply IH. intros Hi. apply H. right. exact Hi.
Qed.
Lemma remove_id_app a : forall o r, ~ In (oid o) (ids a) -> remove_id (oid o) (a ++ o :: r) = a ++ r.
Proof.
  induction a as [|x a IH]; intros o r H; simpl.
  - rewrite Pos.eqb_refl. reflexivity.
  - destruct (Pos.eqb_spec (oid x) (oid o)) as [E|_]; [exfalso; apply H; left; exact E|].
    f_equal. apply IH. intros Hi. apply H. right. exact Hi.
Qed.
Lemma scan_cases (p : lobj -> bool) l : forall b,
  (scan p b l = None /\ forall x, In x l -> p x = false) \/
  (exists r1 o r2, l = r1 ++ o :: r2 /\ (forall x, In x r1 -> p x = false) /\ p o = true /\
                   scan p b l = Some (o, idlast b r1, idhd r2)).
Proof.
  induction l as [|x l IH]; intros b; simpl.
  - left. split; [reflexivity|]. intros x [].
  - destruct (p x) eqn:E.
    + right. exists [], x, l. repeat split; auto. intros y [].
    + destruct (IH (Some (oid x))) as [[H1 H2]|(r1 & o & r2 & -> & H1 & H2 & H3)].
      * left. split; [exact H1|]. intros y [<-|Hy]; auto.
      * right. exists (x :: r1), o, r2. repeat split; auto. intros y [<-|Hy]; auto.
Qed.
Lemma find_none_all {A} (p : A -> bool) l : (forall x, In x l -> p x = false) -> find p l = None.
Proof. induction l as [|x l IH]; simpl; intros H; [reflexivity|]. rewrite (H x (or_introl eq_refl)). apply IH. intros y Hy. apply H. right; exact Hy. Qed.
Lemma find_first {A} (p : A -> bool) r1 o r2 : (forall x, In x r1 -> p x = false) -> p o = true -> find p (r1 ++ o :: r2) = Some o.
Proof. induction r1 as [|x r1 IH]; simpl; intros H E; [rewrite E; reflexivity|]. rewrite (H x (or_introl eq_refl)). apply IH; auto. Qed.
Lemma nodup_mid (a : list lobj) o b : NoDup (ids (a ++ o :: b)) -> ~ In (oid o) (ids a) /\ ~ In (oid o) (ids b) /\ NoDup (ids (a ++ b)).
Proof.
  unfold ids. rewrite !map_app. simpl. intros H. pose proof (NoDup_remove_2 _ _ _ H) as H2. pose proof (NoDup_remove_1 _ _ _ H) as H1.
  rewrite in_app_iff in H2. tauto.
Qed.

Section Refine.
Variable hash : list N -> N.
(* every node id of the table lies below `bound` (the histories use the table's own id counter; put() uses the value
   the counter had before newobj) *)
Variable bound : positive.

Definition abs (t : ltbl) : lmap := map payload (t_ents t).
Definition cfg_of (t : ltbl) : lcfg := mkCfg (t_unique t) (t_casei t) (t_top t) (t_fwd t).
Definition payok (o : lobj) : Prop := ohash o = hash (oname o) /\ odata o <> [].
Record inv (t : ltbl) : Prop := mkInv {
  inv_num : t_num t = N.of_nat (length (t_ents t));
  inv_nodup : NoDup (ids (t_ents t));
  inv_fresh : Forall (fun o => Pos.lt (oid o) bound) (t_ents t);
  inv_pay : Forall payok (t_ents t) }.

Definition pm (t : ltbl) (name : option (list N)) : lobj -> bool :=
  fun o => match name with None => true | Some nm => namematch t o nm (hash nm) end.
Lemma pm_matching t name o : payok o -> pm t name o = matching (cfg_of t) name (payload o).
Proof.
  intros [Hh _]. unfold pm, matching. destruct name as [nm|]; [|reflexivity].
  unfold namematch, keq, key. simpl. destruct (t_casei t).
  - apply strcasecmp_eqb.
  - rewrite strcmp_eqb. destruct (list_eqb (oname o) nm) eqn:E; [|apply andb_false_r].
    apply list_eqb_eq in E. subst nm. rewrite Hh, N.eqb_refl. reflexivity.
Qed.
Lemma pm_matching_all t name l : Forall payok l -> forall o, In o l -> pm t name o = matching (cfg_of t) name (payload o).
Proof. intros H o Ho. apply pm_matching. rewrite Forall_forall in H. apply H. exact Ho. Qed.
Lemma pm_with_ents t n l name : pm (with_ents t n l) name = pm t name.
Proof. reflexivity. Qed.

Lemma view_ids_nodup t : inv t -> NoDup (ids (view t)).
Proof.
  intros I. unfold view. destruct (t_fwd t); [apply I|]. rewrite ids_rev. apply NoDup_rev. apply I.
Qed.
Lemma view_payok t : inv t -> Forall payok (view t).
Proof.
  intros I. unfold view. destruct (t_fwd t); [apply I|]. apply Forall_rev. apply I.
Qed.

(* ---------------- getnext ---------------- *)
Definition next_view (t : ltbl) (c : lcursor) : option positive := if t_fwd t then c_next c else c_prev c.
Definition cur_of (t : ltbl) (o : lobj) (b a : option positive) : lcursor :=
  mkCur (N.of_nat (length (odata o))) (if t_fwd t then b else a) (if t_fwd t then a else b).
Definition positioned (t : ltbl) (c : lcursor) (pre r : list lobj) : Prop :=
  view t = pre ++ r /\ ((c = lcursor0 /\ pre = []) \/ (c_size c <> 0%N /\ next_view t c = idhd r)).

Lemma gn_spec t c name pre r : inv t -> positioned t c pre r ->
  qgetnext hash t c name =
  match scan (pm t name) (idlast None pre) r with
  | None => Ok (c, None)
  | Some (o, b, a) => Ok (cur_of t o b a, Some (payload o))
  end.
Proof.
  intros I [Hv [[-> ->]|[Hs Hn]]]; unfold qgetnext.
  - (* first call *)
    simpl in Hv. simpl (c_size lcursor0 =? 0)%N. cbv iota.
    destruct name as [nm|].
    + unfold findobj. rewrite (inv_num _ I).
      destruct (t_ents t) as [|e0 es] eqn:Ee.
      * assert (r = []) as ->. { rewrite <- Hv. unfold view. rewrite Ee. destruct (t_fwd t); reflexivity. }
        reflexivity.
      * replace (N.of_nat (length (e0 :: es)) =? 0)%N with false by (symmetry; apply N.eqb_neq; simpl; lia).
        rewrite Hv. fold (pm t (Some nm)). simpl (idlast None []).
        destruct (scan_cases (pm t (Some nm)) r None) as [[H1 H2]|(r1 & o & r2 & -> & H1 & H2 & H3)].
        -- rewrite (find_none_all _ _ H2), H1. reflexivity.
        -- rewrite (find_first _ _ _ _ H1 H2).
           pose proof (view_ids_nodup _ I) as ND. rewrite Hv in ND. apply nodup_mid in ND. destruct ND as (N1 & _ & _).
           rewrite (from_id_app r1 None o r2 N1). rewrite H3. cbn [scan]. rewrite H2. reflexivity.
    + rewrite Hv. destruct r as [|o r']; [reflexivity|]. simpl idhd. cbv iota.
      simpl from_id. rewrite Pos.eqb_refl. reflexivity.
  - apply N.eqb_neq in Hs. rewrite Hs. fold (next_view t c). rewrite Hn.
    destruct r as [|o r']; [reflexivity|]. simpl idhd. cbv iota. rewrite Hv.
    pose proof (view_ids_nodup _ I) as ND. rewrite Hv in ND. apply nodup_mid in ND. destruct ND as (N1 & _ & _).
    rewrite (from_id_app pre None o r' N1). reflexivity.
Qed.

(* ---------------- removeobj ---------------- *)
Lemma opt_eqb_refl a : opt_eqb a a = true.
Proof. destruct a; simpl; [apply Pos.eqb_refl|reflexivity]. Qed.

Lemma rmobj_ents t c a o b : inv t -> t_ents t = a ++ o :: b -> c_prev c = idlast None a -> c_next c = idhd b ->
  qremoveobj t c = Ok (with_ents t (t_num t - 1) (a ++ b), true).
Proof.
  intros I He Hp Hn. pose proof (inv_nodup _ I) as ND. rewrite He in ND.
  destruct (nodup_mid _ _ _ ND) as (N1 & N2 & _).
  unfold qremoveobj. rewrite He.
  assert (Hthis : match c_prev c with
                  | Some p => match nbrs p None (a ++ o :: b) with Some (_, nx) => Ok nx | None => Crash end
                  | None => match c_next c with
                            | Some n => match nbrs n None (a ++ o :: b) with Some (pv, _) => Ok pv | None => Crash end
                            | None => Ok (idhd (a ++ o :: b))
                            end
                  end = Ok (Some (oid o))).
  { rewrite Hp, Hn. destruct a as [|x a] using rev_ind.
    - simpl. destruct b as [|y b]; simpl; [reflexivity|].
      destruct (Pos.eqb_spec (oid o) (oid y)) as [E|_]; [exfalso; apply N2; left; symmetry; exact E|].
      rewrite Pos.eqb_refl. reflexivity.
    - clear IHa. rewrite idlast_snoc. rewrite <- app_assoc. simpl.
      assert (Nx : ~ In (oid x) (ids a)).
      { rewrite <- app_assoc in ND. simpl in ND. apply nodup_mid in ND. tauto. }
      rewrite (nbrs_app a None x (o :: b) Nx). reflexivity. }
  rewrite Hthis. simpl bind. rewrite (nbrs_app a None o b N1). rewrite Hp, Hn, !opt_eqb_refl. simpl.
  rewrite (remove_id_app a o b N1). reflexivity.
Qed.

Lemma inv_remove t a o b : inv t -> t_ents t = a ++ o :: b -> inv (with_ents t (t_num t - 1) (a ++ b)).
Proof.
  intros I He. destruct I as [I1 I2 I3 I4]. rewrite He in *.
  constructor; simpl.
  - rewrite I1, !app_length. simpl. lia.
  - apply nodup_mid in I2. tauto.
  - rewrite Forall_app in *. destruct I3 as [A B]. inversion B; subst. split; assumption.
  - rewrite Forall_app in *. destruct I4 as [A B]. inversion B; subst. split; assumption.
Qed.

Lemma view_with_ents t n l : view (with_ents t n l) = if t_fwd t then l else rev l.
Proof. reflexivity. Qed.

(* removal of the node the cursor was just filled from, in lookup orientation *)
Lemma rmobj_view t pre o r2 : inv t -> view t = pre ++ o :: r2 ->
  exists t', qremoveobj t (cur_of t o (idlast None pre) (idhd r2)) = Ok (t', true) /\
             t' = with_ents t (t_num t') (t_ents t') /\ view t' = pre ++ r2 /\ inv t'.
Proof.
  intros I Hv. unfold view in Hv. unfold cur_of.
  destruct (t_fwd t) eqn:Ef.
  - exists (with_ents t (t_num t - 1) (pre ++ r2)). split; [|split; [reflexivity|split]].
    + apply rmobj_ents with (o := o); auto.
    + rewrite view_with_ents, Ef. reflexivity.
    + apply inv_remove with (o := o); auto.
  - assert (He : t_ents t = rev r2 ++ o :: rev pre).
    { rewrite <- (rev_involutive (t_ents t)), Hv, rev_app_distr. simpl. rewrite <- app_assoc. reflexivity. }
    exists (with_ents t (t_num t - 1) (rev r2 ++ rev pre)). split; [|split; [reflexivity|split]].
    + apply rmobj_ents with (o := o); auto; simpl.
      * rewrite idlast_rev. reflexivity.
      * rewrite idhd_rev. reflexivity.
    + rewrite view_with_ents, Ef, rev_app_distr, !rev_involutive. reflexivity.
    + apply inv_remove with (o := o); auto.
Qed.

(* ---------------- walks ---------------- *)
Lemma cur_of_size t o b a : payok o -> c_size (cur_of t o b a) <> 0%N.
Proof. intros [_ H]. simpl. destruct (odata o); [contradiction|]. simpl. lia. Qed.
Lemma cur_of_next t o b a : next_view t (cur_of t o b a) = a.
Proof. unfold next_view, cur_of. simpl. destruct (t_fwd t); reflexivity. Qed.

Ltac split5 := split; [|split; [|split; [|split]]].
Lemma with_ents_self t : t = with_ents t (t_num t) (t_ents t).
Proof. destruct t; reflexivity. Qed.
Lemma walk_spec n : forall t c name rm pre r, inv t -> positioned t c pre r ->
  exists t2 v' yo en rs,
    walk_n hash n t c name rm = Ok (t2, map payload yo, en, rs) /\
    swalk (pm t name) r n rm = (v', yo, en, rs) /\
    t2 = with_ents t (t_num t2) (t_ents t2) /\ view t2 = pre ++ v' /\ inv t2.
Proof.
  induction n as [|n IH]; intros t c name rm pre r I P.
  - exists t, r, [], false, []. simpl. split5; auto.
    + destruct r; reflexivity.
    + apply with_ents_self.
    + apply P.
  - simpl walk_n. rewrite (gn_spec t c name pre r I P).
    destruct P as [Hv Hc].
    destruct (scan_cases (pm t name) r (idlast None pre)) as [[H1 H2]|(r1 & o & r2 & -> & H1 & H2 & H3)].
    + rewrite H1. simpl. exists t, r, [], true, []. rewrite (swalk_nomatch _ _ _ _ H2). split5; auto.
      apply with_ents_self.
    + rewrite H3. simpl bind. cbv beta. simpl snd. simpl fst. cbv iota.
      rewrite (swalk_skip _ r1 (o :: r2) (S n) rm H1). simpl swalk. rewrite H2.
      assert (Po : payok o).
      { pose proof (view_payok _ I) as F. rewrite Hv in F. rewrite !Forall_app in F. destruct F as (_ & _ & F). inversion F; auto. }
      destruct (hd false rm) eqn:Erm.
      * (* removeobj *)
        assert (Hv' : view t = (pre ++ r1) ++ o :: r2) by (rewrite Hv, <- app_assoc; reflexivity).
        destruct (rmobj_view t (pre ++ r1) o r2 I Hv') as (t' & Hq & Ht' & Hvt' & It').
        rewrite <- idlast_app. rewrite Hq. simpl bind. simpl fst. simpl snd.
        assert (P' : positioned t' (cur_of t o (idlast None (pre ++ r1)) (idhd r2)) (pre ++ r1) r2).
        { split; [exact Hvt'|]. right. split; [apply cur_of_size; exact Po|].
          rewrite Ht'. unfold next_view. simpl. destruct (t_fwd t); reflexivity. }
        destruct (IH t' _ name (tl rm) (pre ++ r1) r2 It' P') as (t2 & v' & yo & en & rs & W & S & E2 & V2 & I2).
        rewrite W. simpl.
        assert (Epm : pm t' name = pm t name) by (rewrite Ht'; reflexivity).
        rewrite Epm in S. rewrite S.
        exists t2, (r1 ++ v'), (o :: yo), en, (true :: rs). split5; auto.
        -- rewrite E2, Ht'. reflexivity.
        -- rewrite V2, <- app_assoc. reflexivity.
      * assert (P' : positioned t (cur_of t o (idlast (idlast None pre) r1) (idhd r2)) (pre ++ r1 ++ [o]) r2).
        { split; [rewrite Hv, <- !app_assoc; reflexivity|]. right. split; [apply cur_of_size; exact Po|apply cur_of_next]. }
        destruct (IH t _ name (tl rm) (pre ++ r1 ++ [o]) r2 I P') as (t2 & v' & yo & en & rs & W & S & E2 & V2 & I2).
        rewrite W. simpl. rewrite S.
        exists t2, (r1 ++ o :: v'), (o :: yo), en, rs. split5; auto.
        rewrite V2, <- !app_assoc. reflexivity.
Qed.

(* a walk started with a cleared cursor, stated on the abstract entries *)
Lemma lookup_order_abs t : lookup_order (cfg_of t) (abs t) = map payload (view t).
Proof. unfold lookup_order, abs, view. simpl. destruct (t_fwd t); [reflexivity|]. rewrite map_rev. reflexivity. Qed.
Lemma abs_of_view t v : view t = v -> abs t = lookup_order (cfg_of t) (map payload v).
Proof.
  intros <-. unfold lookup_order, abs, view. simpl. destruct (t_fwd t); [reflexivity|].
  rewrite <- map_rev, rev_involutive. reflexivity.
Qed.
Lemma cfg_with_ents t n l : cfg_of (with_ents t n l) = cfg_of t.
Proof. reflexivity. Qed.

Lemma walk0_spec n t name rm : inv t ->
  exists t2 ys en rs v',
    walk_n hash n t lcursor0 name rm = Ok (t2, ys, en, rs) /\
    swalk (matching (cfg_of t) name) (lookup_order (cfg_of t) (abs t)) n rm = (v', ys, en, rs) /\
    abs t2 = lookup_order (cfg_of t) v' /\ cfg_of t2 = cfg_of t /\ t_nextid t2 = t_nextid t /\ inv t2.
Proof.
  intros I.
  assert (P : positioned t lcursor0 [] (view t)) by (split; [reflexivity|left; auto]).
  destruct (walk_spec n t lcursor0 name rm [] (view t) I P) as (t2 & v' & yo & en & rs & W & S & E2 & V2 & I2).
  exists t2, (map payload yo), en, rs, (map payload v'). split; [exact W|].
  rewrite lookup_order_abs, swalk_map.
  rewrite (swalk_ext _ (pm t name)).
  2:{ intros x Hx. symmetry. apply (pm_matching_all t name (view t)); [apply view_payok; exact I|exact Hx]. }
  rewrite S. split; [reflexivity|]. simpl in V2.
  split; [|split; [|split]]; auto.
  - rewrite (abs_of_view t2 v' V2). rewrite E2. reflexivity.
  - rewrite E2. reflexivity.
  - rewrite E2. reflexivity.
Qed.
End Refine.
