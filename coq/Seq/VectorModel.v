(* C10 — executable model of src/containers/qvector.c (definitions only, no proofs).

   The vector is  { data : the malloc'ed block as a list of cells, or NULL; num; max; objsize; initnum; policy }.
   A cell is a byte or `VUndef` (fresh malloc memory, memory added by realloc): whatever the code copies out of the block is
   copied cell by cell, so a theorem can say that no indeterminate byte ever reaches the caller.
   Element moves are the byte copies the code performs, with the same ranges: `vmemcpy` is C's memcpy — it is `Crash`
   when the two ranges overlap (undefined behaviour) or leave the block — and `vmemmove` is memmove.
   `int` / `size_t` conversions of the index arithmetic are explicit (`vec_i32`, `vec_u64`).
   All names carry a v/V prefix because the whole framework is extracted into one OCaml module. *)
From Coq Require Import ZArith List Bool Arith.
From QV.Base Require Import Res.
Import ListNotations.

Inductive cell := VByte (b : N) | VUndef.
Inductive vpolicy := VExact | VLinear | VDouble.
Record vec := mkVec { vdata : option (list cell); vnum : nat; vmax : nat; vobjsize : nat; vinitnum : nat; vpol : vpolicy }.

(* ---- C integer conversions ---- *)
Definition vec_u64 (z : Z) : Z := (z mod 2 ^ 64)%Z.                                 (* value converted to size_t *)
Definition vec_i32 (z : Z) : Z := ((z + 2 ^ 31) mod 2 ^ 32 - 2 ^ 31)%Z.            (* value converted to int (gcc: wraps) *)
Definition int_of_size (n : nat) : Z := vec_i32 (Z.of_nat n).                       (* int i = vector->num *)
Definition size_of_int (z : Z) : nat := Z.to_nat (vec_u64 z).                       (* int used where a size_t is expected *)
(* `index += vector->num` with int index, size_t num: computed in size_t, stored back into the int *)
Definition int_plus_size (index : Z) (n : nat) : Z := vec_i32 (vec_u64 (vec_u64 index + Z.of_nat n)).

(* ---- the block ---- *)
Definition vrd (b : list cell) (off len : nat) : res (list cell) :=
  if off + len <=? length b then Ok (firstn len (skipn off b)) else Crash.
Definition vwr (b : list cell) (off : nat) (src : list cell) : res (list cell) :=
  if off + length src <=? length b then Ok (firstn off b ++ src ++ skipn (off + length src) b) else Crash.
Definition vmemmove (b : list cell) (dst src len : nat) : res (list cell) := bind (vrd b src len) (vwr b dst).
Definition voverlap (dst src len : nat) : bool := (0 <? len) && (dst <? src + len) && (src <? dst + len).
Definition vmemcpy (b : list cell) (dst src len : nat) : res (list cell) :=
  if voverlap dst src len then Crash else vmemmove b dst src len.
(* the caller's element: a block of exactly its length; the code reads objsize bytes of it *)
Definition vfrom_user (os : nat) (d : list N) : res (list cell) :=
  if length d <? os then Crash else Ok (map VByte (firstn os d)).

(* ---- qvector() ---- *)
Inductive verr := VEINVAL | VERANGE | VENOENT.
Definition vnew (mx os : nat) (options : Z) : option vec :=
  if os =? 0 then None                                                              (* EINVAL *)
  else
    let p := if Z.testbit options 1 then VDouble else if Z.testbit options 2 then VLinear else VExact in
    let ini := match p with VLinear => if mx =? 0 then 1 else mx | _ => 0 end in
    Some (mkVec (if mx =? 0 then None else Some (repeat VUndef (mx * os))) 0 mx os ini p).

(* ---- qvector_resize (after the repair: the newmax == 0 branch leaves objsize alone) ---- *)
Definition vresize (s : vec) (newmax : nat) : vec * bool :=
  if newmax =? 0 then (mkVec None 0 0 (vobjsize s) (vinitnum s) (vpol s), true)
  else
    let old := match vdata s with Some b => b | None => [] end in                   (* realloc(NULL, n) = malloc(n) *)
    let want := newmax * vobjsize s in
    let nb := firstn want old ++ repeat VUndef (want - length old) in
    (mkVec (Some nb) (if newmax <? vnum s then newmax else vnum s) newmax (vobjsize s) (vinitnum s) (vpol s), true).

(* ---- observations (parametric in what a returned byte is: a cell for the model, a byte for the specification) ---- *)
Inductive vobs (A : Type) :=
| VOBool (b : bool)                         (* true *)
| VORefused (e : verr)                      (* false / NULL, with errno *)
| VOElem (e : list A)                       (* a malloc'ed copy of one element *)
| VONum (n : nat)
| VOUnit
| VOArray (a : list A) (n : nat)            (* toarray: the block and *size *)
| VOWalk (l : list (list A)) (ended : bool).
Arguments VOBool {A} b. Arguments VORefused {A} e. Arguments VOElem {A} e. Arguments VONum {A} n. Arguments VOUnit {A}.
Arguments VOArray {A} a n. Arguments VOWalk {A} l ended.
Definition vobs_map {A B} (f : A -> B) (o : vobs A) : vobs B :=
  match o with
  | VOBool b => VOBool b | VORefused e => VORefused e | VOElem e => VOElem (map f e) | VONum n => VONum n | VOUnit => VOUnit
  | VOArray a n => VOArray (map f a) n | VOWalk l e => VOWalk (map (map f) l) e
  end.
Definition vobs_cells {A} (o : vobs A) : list A :=
  match o with VOElem e => e | VOArray a _ => a | VOWalk l _ => concat l | _ => [] end.

(* ---- qvector_addat ---- *)
(* for (i = num; i > index; i--) memcpy(data + objsize * i, data + objsize * (i - 1), objsize);   k = iterations left *)
Fixpoint vshift_up (k : nat) (index : Z) (os : nat) (b : list cell) : res (list cell) :=
  match k with
  | O => Ok b
  | S k' => let i := (index + Z.of_nat k)%Z in
            bind (vmemcpy b (os * size_of_int i) (os * size_of_int (i - 1)) os) (vshift_up k' index os)
  end.
Definition vset_data (s : vec) (b : list cell) (n : nat) : vec := mkVec (Some b) n (vmax s) (vobjsize s) (vinitnum s) (vpol s).
Definition vaddat (s : vec) (index : Z) (d : option (list N)) : res (vec * vobs cell) :=
  match d with
  | None => Ok (s, VORefused VEINVAL)
  | Some d =>
    let index := if (index <? 0)%Z then int_plus_size index (vnum s) else index in
    if (Z.of_nat (vnum s) <? vec_u64 index)%Z then Ok (s, VORefused VERANGE)            (* index > vector->num, compared as size_t *)
    else
      let s1 := if vmax s <=? vnum s
                then let newmax := match vpol s with
                                   | VDouble => (vmax s + 1) * 2
                                   | VLinear => vmax s + vinitnum s
                                   | VExact => vmax s + 1
                                   end in
                     fst (vresize s newmax)                                         (* allocation failure is not modelled *)
                else s in
      match vdata s1 with
      | None => Crash
      | Some b =>
        bind (vshift_up (Z.to_nat (int_of_size (vnum s1) - index)) index (vobjsize s1) b) (fun b1 =>
        bind (vfrom_user (vobjsize s1) d) (fun src =>
        bind (vwr b1 (size_of_int index * vobjsize s1) src) (fun b2 =>
        Ok (vset_data s1 b2 (S (vnum s1)), VOBool true))))
      end
  end.

(* ---- qvector_addat when `data` is the address of one of the vector's own elements ----
   (the pointer getat(j, newmem=false) returns, handed back as the new element; after the repair)
     own = data lies inside data[0 .. num*objsize);  ownidx = (data - vector->data) / objsize   = the position j names
     [growth, shift exactly as in vaddat]
     if (ownidx >= (size_t)index) ownidx++;                  the shift moved that element one slot up
     memcpy(data + index*objsize, data + ownidx*objsize, objsize);
   jj: the position the index j names (vget_index); the function is only called when getat(j) returned an element. *)
Definition vaddself_at (s : vec) (index : Z) (jj : Z) : res (vec * vobs cell) :=
  let index := if (index <? 0)%Z then int_plus_size index (vnum s) else index in
  if (Z.of_nat (vnum s) <? vec_u64 index)%Z then Ok (s, VORefused VERANGE)
  else
    let s1 := if vmax s <=? vnum s
              then let newmax := match vpol s with
                                 | VDouble => (vmax s + 1) * 2
                                 | VLinear => vmax s + vinitnum s
                                 | VExact => vmax s + 1
                                 end in
                   fst (vresize s newmax)
              else s in
    match vdata s1 with
    | None => Crash
    | Some b =>
      bind (vshift_up (Z.to_nat (int_of_size (vnum s1) - index)) index (vobjsize s1) b) (fun b1 =>
      let own := if (index <=? jj)%Z then (jj + 1)%Z else jj in
      bind (vmemcpy b1 (size_of_int index * vobjsize s1) (size_of_int own * vobjsize s1) (vobjsize s1)) (fun b2 =>
      Ok (vset_data s1 b2 (S (vnum s1)), VOBool true)))
    end.

(* ---- get_at / remove_at (static helpers) ---- *)
Definition vget_index (s : vec) (index : Z) : verr + Z :=
  let index := if (index <? 0)%Z then int_plus_size index (vnum s) else index in
  if (Z.of_nat (vnum s) <=? vec_u64 index)%Z                                        (* index >= vector->num, compared as size_t *)
  then inl (if vnum s =? 0 then VENOENT else VERANGE) else inr index.
Definition vget_at (s : vec) (index : Z) : res (verr + list cell) :=
  match vget_index s index with
  | inl e => Ok (inl e)
  | inr i => match vdata s with
             | None => Crash
             | Some b => bind (vrd b (size_of_int i * vobjsize s) (vobjsize s)) (fun c => Ok (inr c))
             end
  end.
(* memmove(data + index*objsize, data + (index+1)*objsize, (num - (index+1)) * objsize)  — after the two repairs
   (the pinned code used memcpy on these overlapping ranges and kept the length in an int) *)
Definition vremove_at (s : vec) (index : Z) : res (verr + list cell) :=
  match vget_index s index with
  | inl e => Ok (inl e)
  | inr i => match vdata s with
             | None => Crash
             | Some b =>
               let src := size_of_int (i + 1) * vobjsize s in
               let dst := size_of_int i * vobjsize s in
               let size := (vnum s - size_of_int (i + 1)) * vobjsize s in
               bind (vmemmove b dst src size) (fun b' => Ok (inr b'))
             end
  end.

Definition vgetat (s : vec) (index : Z) : res (vec * vobs cell) :=
  bind (vget_at s index) (fun r => match r with inl e => Ok (s, VORefused e) | inr c => Ok (s, VOElem c) end).
Definition vsetat (s : vec) (index : Z) (d : list N) : res (vec * vobs cell) :=
  match vget_index s index with
  | inl e => Ok (s, VORefused e)
  | inr i => match vdata s with
             | None => Crash
             | Some b => bind (vfrom_user (vobjsize s) d) (fun src =>
                         bind (vwr b (size_of_int i * vobjsize s) src) (fun b' => Ok (vset_data s b' (vnum s), VOBool true)))
             end
  end.
Definition vremoveat (s : vec) (index : Z) : res (vec * vobs cell) :=
  bind (vremove_at s index) (fun r =>
  match r with inl e => Ok (s, VORefused e) | inr b' => Ok (vset_data s b' (vnum s - 1), VOBool true) end).
Definition vpopat (s : vec) (index : Z) : res (vec * vobs cell) :=
  bind (vget_at s index) (fun r =>
  match r with
  | inl e => Ok (s, VORefused e)
  | inr c => bind (vremove_at s index) (fun r2 =>
             match r2 with
             | inl e => Ok (s, VORefused e)                                        (* free(data); return NULL *)
             | inr b' => Ok (vset_data s b' (vnum s - 1), VOElem c)
             end)
  end).

(* ---- qvector_reverse: tmp = malloc(objsize); swap i and j through tmp while i < j ---- *)
Fixpoint vrev_loop (fuel : nat) (i j : Z) (os : nat) (b : list cell) : res (list cell) :=
  if (i <? j)%Z then
    match fuel with
    | O => Fuel
    | S f =>
      let o1 := size_of_int i * os in
      let o2 := size_of_int j * os in
      bind (vrd b o1 os) (fun tmp =>                                                (* memcpy(tmp, data1, objsize) *)
      bind (vmemcpy b o1 o2 os) (fun b1 =>                                          (* memcpy(data1, data2, objsize) *)
      bind (vwr b1 o2 tmp) (fun b2 =>                                               (* memcpy(data2, tmp, objsize) *)
      vrev_loop f (i + 1) (j - 1) os b2)))
    end
  else Ok b.
Definition vreverse (s : vec) : res (vec * vobs cell) :=
  if vnum s <=? 1 then Ok (s, VOUnit)
  else match vdata s with
       | None => Crash
       | Some b => bind (vrev_loop (vnum s) 0 (vec_i32 (vec_u64 (Z.of_nat (vnum s) - 1))) (vobjsize s) b) (fun b' =>
                   Ok (vset_data s b' (vnum s), VOUnit))
       end.

(* ---- qvector_toarray ---- *)
Definition vtoarray (s : vec) : res (vec * vobs cell) :=
  if vnum s =? 0 then Ok (s, VORefused VENOENT)                                     (* *size = 0 *)
  else match vdata s with
       | None => Crash
       | Some b => bind (vrd b 0 (vnum s * vobjsize s)) (fun a => Ok (s, VOArray a (vnum s)))
       end.

(* ---- qvector_getnext with newmem = true; the cursor is obj->index (an int) ---- *)
Definition vgetnext (s : vec) (idx : Z) : res (option (list cell * Z)) :=
  if (Z.of_nat (vnum s) <=? vec_u64 idx)%Z then Ok None                                        (* ENOENT *)
  else match vdata s with
       | None => Crash
       | Some b => bind (vrd b (size_of_int idx * vobjsize s) (vobjsize s)) (fun c => Ok (Some (c, (idx + 1)%Z)))
       end.
Fixpoint vwalk (n : nat) (s : vec) (idx : Z) (acc : list (list cell)) : res (list (list cell) * bool) :=
  match n with
  | O => Ok (rev acc, false)
  | S n' => bind (vgetnext s idx) (fun r =>
            match r with
            | None => Ok (rev acc, true)
            | Some (c, idx') => vwalk n' s idx' (c :: acc)
            end)
  end.

(* ---- histories ---- *)
Inductive vop :=
| VAddAt (index : Z) (d : option (list N))      (* None: data == NULL *)
| VAddFirst (d : list N) | VAddLast (d : list N)
| VGetAt (index : Z) | VGetFirst | VGetLast
| VSetAt (index : Z) (d : list N) | VSetFirst (d : list N) | VSetLast (d : list N)
| VPopAt (index : Z) | VPopFirst | VPopLast
| VRemoveAt (index : Z) | VRemoveFirst | VRemoveLast
| VSize | VResize (newmax : nat) | VClear | VReverse | VToArray
| VWalk (start : Z) (n : nat).                  (* obj.index = start, then n calls of getnext *)

Definition vstep (s : vec) (o : vop) : res (vec * vobs cell) :=
  match o with
  | VAddAt i d => vaddat s i d
  | VAddFirst d => vaddat s 0 (Some d)
  | VAddLast d => vaddat s (int_of_size (vnum s)) (Some d)                          (* addat(vector, vector->num, data) *)
  | VGetAt i => vgetat s i
  | VGetFirst => vgetat s 0
  | VGetLast => vgetat s (-1)
  | VSetAt i d => vsetat s i d
  | VSetFirst d => vsetat s 0 d
  | VSetLast d => vsetat s (-1) d
  | VPopAt i => vpopat s i
  | VPopFirst => vpopat s 0
  | VPopLast => vpopat s (-1)
  | VRemoveAt i => vremoveat s i
  | VRemoveFirst => vremoveat s 0
  | VRemoveLast => vremoveat s (-1)
  | VSize => Ok (s, VONum (vnum s))
  | VResize n => let r := vresize s n in Ok (fst r, VOBool (snd r))
  | VClear => Ok (mkVec (vdata s) 0 (vmax s) (vobjsize s) (vinitnum s) (vpol s), VOUnit)
  | VReverse => vreverse s
  | VToArray => vtoarray s
  | VWalk st n => bind (vwalk n s st []) (fun r => Ok (s, VOWalk (fst r) (snd r)))
  end.
(* addat(vector, index, getat(vector, j, false)): getat refuses exactly like every indexed access, and then nothing is added *)
Definition vaddself (s : vec) (index j : Z) : res (vec * vobs cell) :=
  match vget_index s j with
  | inl e => Ok (s, VORefused e)
  | inr jj => vaddself_at s index jj
  end.
Fixpoint vrun (s : vec) (h : list vop) : res (vec * list (vobs cell)) :=
  match h with
  | [] => Ok (s, [])
  | o :: r => bind (vstep s o) (fun p => bind (vrun (fst p) r) (fun q => Ok (fst q, snd p :: snd q)))
  end.

(* the pinned code, for the record of the defects: remove_at used memcpy (undefined for overlapping ranges) *)
Definition vremove_at_pinned (s : vec) (index : Z) : res (verr + list cell) :=
  match vget_index s index with
  | inl e => Ok (inl e)
  | inr i => match vdata s with
             | None => Crash
             | Some b =>
               let src := size_of_int (i + 1) * vobjsize s in
               let dst := size_of_int i * vobjsize s in
               let size := (vnum s - size_of_int (i + 1)) * vobjsize s in              (* below 2^31: the pinned `int size` is exact *)
               bind (vmemcpy b dst src size) (fun b' => Ok (inr b'))
             end
  end.
(* ... and the newmax == 0 branch of qvector_resize also executed `vector->objsize = 0;` *)
Definition vresize_pinned (s : vec) (newmax : nat) : vec * bool :=
  if newmax =? 0 then (mkVec None 0 0 0 (vinitnum s) (vpol s), true) else vresize s newmax.
