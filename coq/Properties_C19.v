(* C19 — String utilities compute exactly their documented function with bounded writes.
   This file contains only the property theorems; each is closed by a lemma proved in Str/*.v.
   Conventions: a C string is a list s of non-NUL bytes (cstr s); the buffer handed to an in-place routine is s ++ [0], i.e.
   exactly strlen+1 bytes, and any read or write of the model outside the list is Crash -- so "= Ok ..." on that buffer
   says that every access stayed inside [0, strlen].  fuel is any number above the stated bound. *)
From Coq Require Import NArith ZArith List.
From QV.Base Require Import Res Bytes.
From QV.Str Require Import StrModel StrSpec StrProofs.
Import ListNotations.
Local Open Scope N_scope.

(* ---- trimming removes precisely the leading/trailing blanks, tabs, CRs and LFs; g is what is left behind the new terminator ---- *)
Theorem C19_trim_eq_spec : forall s fuel, cstr s -> (length s + 1 < fuel)%nat ->
  exists g, qstrtrim fuel (s ++ [0]) = Ok (trim_spec s ++ 0 :: g) /\ length (trim_spec s ++ 0 :: g) = length (s ++ [0]).
Proof. exact qstrtrim_eq. Qed.
Theorem C19_trim_head_eq_spec : forall s fuel, cstr s -> (length s + 1 < fuel)%nat ->
  exists g, qstrtrim_head fuel (s ++ [0]) = Ok (trim_head_spec s ++ 0 :: g) /\ length (trim_head_spec s ++ 0 :: g) = length (s ++ [0]).
Proof. exact qstrtrim_head_eq. Qed.
Theorem C19_trim_tail_eq_spec : forall s fuel, cstr s -> (length s + 1 < fuel)%nat ->
  exists g, qstrtrim_tail fuel (s ++ [0]) = Ok (trim_tail_spec s ++ 0 :: g) /\ length (trim_tail_spec s ++ 0 :: g) = length (s ++ [0]).
Proof. exact qstrtrim_tail_eq. Qed.
(* ---- unquoting ---- *)
Theorem C19_unchar_eq_spec : forall s head tail fuel, cstr s -> (length s + 1 < fuel)%nat ->
  match unchar_spec s head tail with
  | None => qstrunchar fuel (s ++ [0]) head tail = Ok None
  | Some m => exists g, qstrunchar fuel (s ++ [0]) head tail = Ok (Some (m ++ 0 :: g)) /\ length (m ++ 0 :: g) = length (s ++ [0])
  end.
Proof. exact qstrunchar_eq. Qed.

(* ---- replace.  Result triple: (returned string, the caller's array afterwards, bytes requested from malloc) ---- *)
Theorem C19_replace_sn_eq_spec : forall src tail tok w fuel, cstr src -> tok <> [] -> (length src < fuel)%nat ->
  exists m, maxlen_s (length src) (length tok) (length w) = Ok m /\ (length (replace_str_spec src tok w) <= m)%nat /\
  qstrreplace fuel [115; 110] (src ++ 0 :: tail) tok w = Ok (Some (replace_str_spec src tok w), src ++ 0 :: tail, S m).
Proof. exact replace_sn. Qed.
Theorem C19_replace_sr_eq_spec : forall src tail tok w fuel, cstr src -> tok <> [] -> (length src < fuel)%nat ->
  let out := replace_str_spec src tok w in let sb := src ++ 0 :: tail in
  exists m, maxlen_s (length src) (length tok) (length w) = Ok m /\ (length out <= m)%nat /\
  qstrreplace fuel [115; 114] sb tok w =
    if (length out + 1 <=? length sb)%nat then Ok (Some out, out ++ 0 :: skipn (length out + 1) sb, S m) else Crash.
Proof. exact replace_sr. Qed.
Theorem C19_replace_tn_eq_spec : forall src tail tok w fuel, cstr src ->
  (length (replace_tok_spec src tok w) <= maxlen_t (length src) (length w))%nat /\
  qstrreplace fuel [116; 110] (src ++ 0 :: tail) tok w =
    Ok (Some (replace_tok_spec src tok w), src ++ 0 :: tail, S (maxlen_t (length src) (length w))).
Proof. exact replace_tn. Qed.
Theorem C19_replace_tr_eq_spec : forall src tail tok w fuel, cstr src ->
  let out := replace_tok_spec src tok w in let sb := src ++ 0 :: tail in
  (length out <= maxlen_t (length src) (length w))%nat /\
  qstrreplace fuel [116; 114] sb tok w =
    if (length out + 1 <=? length sb)%nat then Ok (Some out, out ++ 0 :: skipn (length out + 1) sb, S (maxlen_t (length src) (length w))) else Crash.
Proof. exact replace_tr. Qed.
(* the malloc'ed buffer is large enough: (len / tok) * word + len % tok bounds the result for every input *)
Theorem C19_replace_str_writes_in_bounds : forall s tok w, tok <> [] ->
  exists m, maxlen_s (length s) (length tok) (length w) = Ok m /\ (length (replace_str_spec s tok w) <= m)%nat.
Proof. exact replace_str_len. Qed.
Theorem C19_replace_tok_writes_in_bounds : forall s tok w, (length (replace_tok_spec s tok w) <= maxlen_t (length s) (length w))%nat.
Proof. exact replace_tok_len. Qed.
(* the reference definition of string mode is "every leftmost non-overlapping occurrence and nothing else" *)
Theorem C19_replace_str_is_leftmost_nonoverlapping : forall s tok w, tok <> [] ->
  replaced tok w s (replace_str_spec s tok w) /\ forall o, replaced tok w s o -> o = replace_str_spec s tok w.
Proof. exact replace_str_is_leftmost. Qed.
(* outside the quantifier of the property (non-empty search tokens): with an empty search string the code divides by zero or never ends *)
Theorem C19_replace_sn_empty_token_refuted :
  (exists src w, cstr src /\ cstr w /\ forall fuel, qstrreplace fuel [115; 110] (src ++ [0]) [] w = Crash) /\
  (exists src w, cstr src /\ cstr w /\ forall fuel, qstrreplace fuel [115; 110] (src ++ [0]) [] w = Fuel).
Proof. exact replace_sn_empty_token_refuted. Qed.

(* ---- bounded copies: dst is the destination array, size <= length dst the stated size.  Exactly min(n, size-1) + 1 <= size bytes
        are written, the last one is the terminator, the rest of dst is untouched ---- *)
Theorem C19_strncpy_eq_spec : forall dst size srcb nbytes, (1 <= size)%nat -> (size <= length dst)%nat -> (Nat.min nbytes (size - 1) <= length srcb)%nat ->
  qstrncpy dst size srcb nbytes = Ok (firstn (Nat.min nbytes (size - 1)) srcb ++ 0 :: skipn (Nat.min nbytes (size - 1) + 1) dst).
Proof. exact qstrncpy_eq. Qed.
Theorem C19_strcpy_eq_spec : forall dst size s post fuel, cstr s -> (length s < fuel)%nat -> (1 <= size)%nat -> (size <= length dst)%nat ->
  qstrcpy fuel dst size (s ++ 0 :: post) = Ok (strcpy_spec size s ++ skipn (Nat.min (length s) (size - 1) + 1) dst).
Proof. exact qstrcpy_eq. Qed.
Theorem C19_strncpy_size0_no_write : forall dst srcb nbytes, qstrncpy dst 0 srcb nbytes = Ok dst.
Proof. exact qstrncpy_size0. Qed.
Theorem C19_strncpy_writes_in_bounds : forall size nbytes s, (1 <= size)%nat -> (length (strncpy_spec size nbytes s) <= size)%nat.
Proof. exact strncpy_spec_len. Qed.

(* ---- duplicates ---- *)
Theorem C19_dup_between_sound : forall s st en m, qstrdup_between s st en = Some m -> between_spec s st en m.
Proof. exact qstrdup_between_some. Qed.
Theorem C19_dup_between_complete : forall s st en, qstrdup_between s st en = None -> forall m, ~ between_spec s st en m.
Proof. exact qstrdup_between_none. Qed.
Theorem C19_memdup_eq_spec : forall data size, (size <= length data)%nat ->
  qmemdup data size = Ok (if (size =? 0)%nat then None else Some (firstn size data)).
Proof. exact qmemdup_eq. Qed.

(* ---- line reading: buf is the destination array of exactly size >= 1 bytes; the text is pre ++ rest ++ [0], the offset points at rest ---- *)
Theorem C19_strgets_eq_spec : forall pre rest post buf size fuel, cstr rest -> (length rest < fuel)%nat -> 1 <= size -> length buf = N.to_nat size ->
  match gets_spec (N.to_nat size) rest with
  | None => qstrgets fuel buf size (pre ++ rest ++ 0 :: post) (zlen pre) = Ok None
  | Some (l, n) => qstrgets fuel buf size (pre ++ rest ++ 0 :: post) (zlen pre) =
                     Ok (Some (l ++ 0 :: skipn (length l + 1) buf, (zlen pre + Z.of_nat n)%Z)) /\ (length l + 1 <= length buf)%nat
  end.
Proof. exact qstrgets_eq. Qed.

(* ---- reversal and case conversion (char is signed: bytes >= 0x80 are left alone) ---- *)
Theorem C19_strrev_eq_spec : forall s fuel, cstr s -> (length s + 1 < fuel)%nat -> qstrrev fuel (s ++ [0]) = Ok (rev s ++ [0]).
Proof. exact qstrrev_eq. Qed.
Theorem C19_strupper_eq_spec : forall s fuel, cstr s -> (length s + 1 < fuel)%nat -> qstrupper fuel (s ++ [0]) = Ok (upper_spec s ++ [0]).
Proof. exact qstrupper_eq. Qed.
Theorem C19_strlower_eq_spec : forall s fuel, cstr s -> (length s + 1 < fuel)%nat -> qstrlower fuel (s ++ [0]) = Ok (lower_spec s ++ [0]).
Proof. exact qstrlower_eq. Qed.

(* ---- tokenizer: every field in order, empty ones included, except an empty field after a trailing delimiter ---- *)
Theorem C19_strtok_eq_spec : forall pre rest delims fuel, cstr rest -> (length rest + 1 < fuel)%nat ->
  qstrtok fuel (pre ++ rest ++ [0]) delims (zlen pre) =
  match strtok_spec delims rest with
  | None => Ok (None, 0, zlen pre, pre ++ rest ++ [0])
  | Some (f, d, n) => Ok (Some (zlen pre), d, (zlen pre + Z.of_nat n)%Z,
                          if d =? 0 then pre ++ rest ++ [0] else pre ++ f ++ 0 :: skipn (S (length f)) rest ++ [0])
  end.
Proof. exact qstrtok_eq. Qed.
Theorem C19_strtokenizer_eq_spec : forall s post delims fuel, cstr s -> (length s + 1 < fuel)%nat ->
  qstrtokenizer fuel (s ++ 0 :: post) delims = Ok (tokenize_spec delims s).
Proof. exact qstrtokenizer_eq. Qed.
Theorem C19_tokenize_is_fields : forall delims s,
  tokenize_spec delims s = fields delims s \/ exists l, fields delims s = l ++ [[]] /\ tokenize_spec delims s = l.
Proof. exact tokenize_fields. Qed.

(* ---- extra: qstr_comma_number, for every int (the model follows the repaired code: magnitude in unsigned arithmetic) ---- *)
Theorem C19_comma_number_eq_spec : forall number, (-2147483648 <= number < 2147483648)%Z -> qstr_comma_number number = Ok (comma_spec number).
Proof. exact comma_eq. Qed.
Theorem C19_comma_number_writes_in_bounds : forall number, (-2147483648 <= number < 2147483648)%Z -> (length (comma_spec number) <= 14)%nat.
Proof. exact comma_len. Qed.
Theorem C19_decimal_value : forall fuel n, n < 10 ^ N.of_nat fuel -> undecimal (decimal fuel n) = n.
Proof. exact decimal_value. Qed.

(* ---- non-vacuity: the hypotheses are satisfiable and the statements say something on concrete inputs ---- *)
Example C19_ex_trim : cstr [32; 9; 97; 32; 98; 13; 10] /\ qstrtrim 9 ([32; 9; 97; 32; 98; 13; 10] ++ [0]) = Ok [97; 32; 98; 0; 98; 0; 10; 0] /\
  trim_spec [32; 9; 97; 32; 98; 13; 10] = [97; 32; 98].
Proof. vm_compute. auto. Qed.
Example C19_ex_trim_tail_empty : qstrtrim_tail 2 ([] ++ [0]) = Ok [0] /\ qstrtrim_tail 4 ([32; 32] ++ [0]) = Ok [0; 32; 0].
Proof. vm_compute. auto. Qed.
Example C19_ex_replace_overlap : replace_str_spec [97; 97; 97] [97; 97] [98] = [98; 97] /\
  qstrreplace 4 [115; 110] ([97; 97; 97] ++ [0]) [97; 97] [98] = Ok (Some [98; 97], [97; 97; 97; 0], 4%nat).
Proof. vm_compute. auto. Qed.
Example C19_ex_replace_grow : maxlen_s 3 1 2 = Ok 6%nat /\
  qstrreplace 4 [115; 114] ([97; 97; 97] ++ 0 :: [170; 170; 170]) [97] [98; 98] = Ok (Some [98; 98; 98; 98; 98; 98], [98; 98; 98; 98; 98; 98; 0], 7%nat) /\
  qstrreplace 4 [115; 114] ([97; 97; 97] ++ 0 :: [170; 170]) [97] [98; 98] = Crash.
Proof. vm_compute. auto. Qed.
Example C19_ex_strncpy : qstrncpy [170; 170; 170] 3 [97; 98; 99; 100; 0] 4 = Ok [97; 98; 0] /\ strcpy_spec 3 [97; 98; 99; 100] = [97; 98; 0].
Proof. vm_compute. auto. Qed.
Example C19_ex_gets : gets_spec 10 [97; 13; 10; 98] = Some ([97], 3%nat) /\
  qstrgets 6 [170; 170; 170] 3 [97; 98; 99; 10; 0] 0 = Ok (Some ([97; 98; 0], 2%Z)).
Proof. vm_compute. auto. Qed.
Example C19_ex_tokenizer : tokenize_spec [44] [97; 44; 44; 98; 44] = [[97]; []; [98]] /\ tokenize_spec [44] [44] = [[]] /\
  qstrtokenizer 7 [97; 44; 44; 98; 44; 0] [44] = Ok [[97]; []; [98]].
Proof. vm_compute. auto. Qed.
Example C19_ex_comma : qstr_comma_number (-2147483648) = Ok [45; 50; 44; 49; 52; 55; 44; 52; 56; 51; 44; 54; 52; 56] /\ comma_spec 1234567 = [49; 44; 50; 51; 52; 44; 53; 54; 55].
Proof. vm_compute. auto. Qed.
Example C19_ex_upper_signed : qstrupper 6 [97; 122; 225; 255; 0] = Ok [65; 90; 225; 255; 0].
Proof. vm_compute. auto. Qed.

Print Assumptions C19_trim_eq_spec.
Print Assumptions C19_trim_head_eq_spec.
Print Assumptions C19_trim_tail_eq_spec.
Print Assumptions C19_unchar_eq_spec.
Print Assumptions C19_replace_sn_eq_spec.
Print Assumptions C19_replace_sr_eq_spec.
Print Assumptions C19_replace_tn_eq_spec.
Print Assumptions C19_replace_tr_eq_spec.
Print Assumptions C19_replace_str_writes_in_bounds.
Print Assumptions C19_replace_tok_writes_in_bounds.
Print Assumptions C19_replace_str_is_leftmost_nonoverlapping.
Print Assumptions C19_replace_sn_empty_token_refuted.
Print Assumptions C19_strncpy_eq_spec.
Print Assumptions C19_strcpy_eq_spec.
Print Assumptions C19_strncpy_size0_no_write.
Print Assumptions C19_strncpy_writes_in_bounds.
Print Assumptions C19_dup_between_sound.
Print Assumptions C19_dup_between_complete.
Print Assumptions C19_memdup_eq_spec.
Print Assumptions C19_strgets_eq_spec.
Print Assumptions C19_strrev_eq_spec.
Print Assumptions C19_strupper_eq_spec.
Print Assumptions C19_strlower_eq_spec.
Print Assumptions C19_strtok_eq_spec.
Print Assumptions C19_strtokenizer_eq_spec.
Print Assumptions C19_tokenize_is_fields.
Print Assumptions C19_comma_number_eq_spec.
Print Assumptions C19_comma_number_writes_in_bounds.
Print Assumptions C19_decimal_value.
