(* C19 placeholder while the proofs are being written *)
From QV.Str Require Import StrModel StrSpec.
