(* C17 (parser half) — the INI-style and the Apache-style parser terminate, read nothing outside their buffers and deliver
   a result or an error, for every input.  Only property theorems; each is closed by a lemma proved elsewhere. *)
From Coq Require Import NArith List.
From QV.Base Require Import Res Bytes.
From QV.Gen Require Import Consts.
From QV.Conf Require Import IniModel IniSafe AconfModel AconfSafe.
Import ListNotations.
Local Open Scope N_scope.

(* _parsestr: for every table, value, environment and command output the expansion ends with a value; [Crash] (a read outside
   the value buffer) and [Fuel] are unreachable.  Termination is by the bound on substitution rounds. *)
Theorem C17_ini_expand_safe : forall env cmd t value, exists v, parsestr env cmd t value = Ok v.
Proof. exact ini_expand_safe. Qed.
(* qconfig_parse_str delivers a table for every input string and separator *)
Theorem C17_ini_parse_safe : forall env cmd sep str, exists t, ini_parse_str env cmd sep str = Ok t.
Proof. exact ini_parse_safe. Qed.
(* the defect of the pinned code: without the bound on rounds, b=${a} after a=${a} is expanded for ever *)
Theorem C17_ini_expand_unbounded_refuted : forall env cmd fuel, expand_unbounded env cmd fuel selfref_tbl [36; 123; 97; 125] = Fuel.
Proof. exact ini_expand_unbounded_refuted. Qed.


(* Apache-style tokenizer on the line buffer data ++ [NUL]: no read at an index beyond the terminator (Crash unreachable),
   at most |data|+1 steps (Fuel unreachable), result = the string-level tokenizer (token list or "quotation not closed") *)
Theorem C17_aconf_tokenize_safe : forall data, nz data = true ->
  tk_buf (S (length data)) (data ++ [0]) 0 TSkip [] = Ok (aconf_tokenize data).
Proof. exact aconf_tokenize_safe. Qed.
(* the parser loop with its section recursion: for every file content, option table, flags and callback behaviour a count
   or an error with its line is delivered; the fuel |file|+2 is never exhausted (fgets consumes at least one character) *)
Theorem C17_aconf_parse_total : forall cb T flags defcb maxl, (1 <= maxl)%nat -> forall file,
  exists r, aconf_parse cb T flags defcb maxl file = Ok r.
Proof. exact aconf_parse_total. Qed.

Example C17_ex_tok : nz [65; 32; 34; 120; 92] = true /\ tk_buf 6 ([65; 32; 34; 120; 92] ++ [0]) 0 TSkip [] = Ok TokErr.
Proof. vm_compute. auto. Qed.

Print Assumptions C17_ini_expand_safe.
Print Assumptions C17_aconf_tokenize_safe.
Print Assumptions C17_aconf_parse_total.
Print Assumptions C17_ini_parse_safe.
Print Assumptions C17_ini_expand_unbounded_refuted.
