(* C05 — Hash table is an exact map for every history and table range.
   This file contains only the property theorems; each is closed by a lemma proved in Hash/HashtblProofs.v or
   Hash/HashtblText.v.  All statements are for an ARBITRARY hash function `hash : list N -> N`, every range (0 = the
   default range read from the source), every history of put/putstr/putint/get/getstr/getint/remove/clear/size calls,
   NULL-argument calls and walks, on which the specification is defined (it is undefined only where the caller applies
   getint to a stored value atoll would read past). *)
From Coq Require Import NArith ZArith List Bool Permutation.
From QV.Base Require Import Res.
From QV.Gen Require Import Consts.
From QV.Hash Require Import HashtblModel HashtblSpec HashtblText HashtblProofs.
Import ListNotations.
Local Open Scope N_scope.

(* Refinement: every observation is one the ideal map allows (results and values equal; a walk of up to n steps is a
   duplicate-free list of min(n, size) entries of the map and reports the end exactly when n exceeds the size), the
   final table stores exactly the map's entries, and size is the number of distinct keys. *)
Theorem C05_refines : forall (hash : list N -> N) r os m sobs, hsrun [] os = Some (m, sobs) ->
  exists s obs, hrun hash (hinit r) os = Ok (s, obs) /\ Forall2 hobs_match obs sobs /\
                Permutation (habs s) m /\ hsize s = N.of_nat (length m) /\ inv hash s.
Proof. exact refines. Qed.

(* Invariant of every reachable table: `range` chains; chain i holds entries whose stored hash is the hash of their name
   and whose index hash mod range is i; no name twice in the table; num is the total number of entries; node objects
   are distinct. *)
Theorem C05_invariant : forall (hash : list N -> N) r os s obs, hrun hash (hinit r) os = Ok (s, obs) ->
  length (hslots s) = N.to_nat (hrange s) /\ 0 < hrange s /\
  (forall i ch e, nth_error (hslots s) i = Some ch -> In e ch -> ehash e = hash (ename e) /\ N.to_nat (ehash e mod hrange s) = i) /\
  NoDup (map ename (hflat s)) /\ hnum s = N.of_nat (length (hflat s)) /\ NoDup (map eid (hflat s)).
Proof.
  intros hash r os s obs H. pose proof (reachable_inv hash r os s obs H) as I.
  exact (conj (inv_len hash s I) (conj (inv_range hash s I) (conj (inv_place hash s I) (conj (inv_names hash s I) (conj (inv_num hash s I) (inv_ids hash s I)))))).
Qed.
(* ... and conversely every stored entry sits in the chain of its index ("exactly the entries with hash mod range = i") *)
Theorem C05_chain_exact : forall (hash : list N -> N) r os s obs e, hrun hash (hinit r) os = Ok (s, obs) -> In e (hflat s) ->
  exists ch, nth_error (hslots s) (N.to_nat (hash (ename e) mod hrange s)) = Some ch /\ In e ch.
Proof. intros hash r os s obs e H. apply inv_exact. eapply reachable_inv; eauto. Qed.

(* getnext: from a zeroed cursor, n calls on an unmodified reachable table return the first n stored entries in slot
   order, every key at most once, and report the end exactly when n exceeds the number of entries *)
Theorem C05_walk : forall (hash : list N -> N) r os s obs n, hrun hash (hinit r) os = Ok (s, obs) ->
  hwalk_n n s hcursor0 [] = Ok (firstn n (habs s), Nat.ltb (length (habs s)) n) /\ NoDup (map fst (habs s)).
Proof. exact walk_complete. Qed.
(* a complete walk is a duplicate-free listing of exactly the specification's entries, then the end *)
Theorem C05_walk_spec : forall (hash : list N -> N) r os m sobs n, hsrun [] os = Some (m, sobs) -> (length m < n)%nat ->
  exists s obs l, hrun hash (hinit r) os = Ok (s, obs) /\ hwalk_n n s hcursor0 [] = Ok (l, true) /\
                  NoDup (map fst l) /\ Permutation l m.
Proof. exact walk_spec. Qed.

(* no Fuel; Crash exactly where the specification is undefined (getint over-read by the caller) *)
Theorem C05_no_crash : forall (hash : list N -> N) r os,
  hrun hash (hinit r) os <> Fuel /\ (hrun hash (hinit r) os = Crash <-> hsrun [] os = None).
Proof. exact no_crash. Qed.

(* putint/getint: the decimal text of every 64-bit integer fits the buffer, has no NUL before its terminator, and atoll
   reads the integer back without leaving the block *)
Theorem C05_int_text_roundtrip : forall z,
  hatoll (hputint_text z) = hto_i64 z /\ hatoll_stops (hputint_text z) = true /\ hcstr_of (hputint_text z) ++ [0] = hputint_text z.
Proof. intros z. destruct (int_roundtrip z). auto using putint_text_cstr. Qed.
Theorem C05_int_roundtrip : forall m k z, (-9223372036854775808 <= z < 9223372036854775808)%Z ->
  exists m', hsstep m (HPutInt k z) = Some (m', HSObs HOk) /\ hsstep m' (HGetInt k) = Some (m', HSObs (HInt z)).
Proof. exact spec_int_roundtrip. Qed.

(* the ideal map is a map: get after put / remove *)
Theorem C05_spec_get_put : forall k' k v m, haget k' (haset k v m) = if hbytes_eqb k k' then Some v else haget k' m.
Proof. exact haget_haset. Qed.
Theorem C05_spec_get_del : forall k' k m, NoDup (map fst m) -> haget k' (hadel k m) = if hbytes_eqb k k' then None else haget k' m.
Proof. exact haget_hadel. Qed.

(* constructor: range 0 means the DEFAULT_INDEX_RANGE of the source, which is positive *)
Theorem C05_default_range : forall r, hrange (hinit r) = (if r =? 0 then DEFAULT_INDEX_RANGE else r) /\ 0 < DEFAULT_INDEX_RANGE.
Proof. intros r. split; [apply init_range | apply default_range_pos]. Qed.

(* non-vacuity: a history with a collision chain of length 3 in a table of range 1 and 2 (hash = length of the name),
   removal from the middle of the chain, replacement, integers, walks; the specification is defined on it *)
Definition ex_hash (k : list N) : N := N.of_nat (length k).
Definition ex_hist : list hop :=
  [HPut [97] [1; 0; 2]; HPut [98] []; HPut [99] [3]; HPut [100; 101] [4]; HSize; HWalk 2; HWalk 9; HRemove [98]; HRemove [98];
   HPut [97] [5]; HGet [97; 0; 7]; HPutInt [99] (-42); HGetInt [99]; HPutStr [98] [120; 0; 121]; HGetStr [98]; HWalk 9; HClear; HSize; HWalk 1].
Example C05_ex_defined : exists m sobs, hsrun [] ex_hist = Some (m, sobs).
Proof. vm_compute. eauto. Qed.
Example C05_ex_run_range1 :
  hrun ex_hash (hinit 1) ex_hist =
  Ok (mkHT [[]] 1 0 6,
      [HOk; HOk; HOk; HOk; HNum 4; HWalked [([100; 101], [4]); ([99], [3])] false;
       HWalked [([100; 101], [4]); ([99], [3]); ([98], []); ([97], [1; 0; 2])] true; HOk; HErr HENOENT;
       HOk; HVal [5]; HOk; HInt (-42); HOk; HVal [120; 0];
       HWalked [([98], [120; 0]); ([100; 101], [4]); ([99], [45; 52; 50; 0]); ([97], [5])] true; HUnit; HNum 0; HWalked [] true]).
Proof. vm_compute. reflexivity. Qed.
Example C05_ex_run : forall r, In r [1; 2; 3] -> exists s obs, hrun ex_hash (hinit r) ex_hist = Ok (s, obs) /\ hnum s = 0.
Proof. intros r [<- | [<- | [<- | []]]]; vm_compute; eauto. Qed.
(* the hypothesis of C05_refines excludes something real: getint on a value without a stopping byte *)
Example C05_ex_undefined : hsrun [] [HPut [97] [49]; HGetInt [97]] = None /\ hrun ex_hash (hinit 1) [HPut [97] [49]; HGetInt [97]] = Crash.
Proof. vm_compute. auto. Qed.

Print Assumptions C05_refines.
Print Assumptions C05_invariant.
Print Assumptions C05_chain_exact.
Print Assumptions C05_walk.
Print Assumptions C05_walk_spec.
Print Assumptions C05_no_crash.
Print Assumptions C05_int_text_roundtrip.
Print Assumptions C05_int_roundtrip.
Print Assumptions C05_spec_get_put.
Print Assumptions C05_spec_get_del.
Print Assumptions C05_default_range.
