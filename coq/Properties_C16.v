(* C16 — Encoders and decoders are exact inverses and emit the standard formats.
   This file contains only the property theorems; each is closed by a lemma proved elsewhere. *)
From Coq Require Import NArith List.
From QV.Base Require Import Res Bytes.
From QV.Gen Require Import Tables.
From QV.Enc Require Import EncModel EncSpec EncProofs B64Proofs QueryProofs.
Import ListNotations.
Local Open Scope N_scope.

(* decode (encode x) = x for every byte string x; the decoded length is therefore |x| *)
Theorem C16_url_roundtrip : forall x, bytes x -> url_decode (url_encode x) = x.
Proof. exact url_roundtrip. Qed.
Theorem C16_b64_roundtrip : forall x, bytes x -> b64_decode (b64_encode x) = x.
Proof. exact b64_roundtrip. Qed.
Theorem C16_hex_roundtrip : forall x, bytes x -> hex_decode (hex_encode x) = x.
Proof. exact hex_roundtrip. Qed.

(* standard formats *)
Theorem C16_b64_is_rfc4648 : forall x, bytes x -> b64_encode x = rfc4648 x.
Proof. exact b64_is_rfc4648. Qed.
Theorem C16_hex_format : forall x, bytes x -> hex_encode x = hex_spec x.
Proof. exact hex_format. Qed.
Theorem C16_url_literal_safe : forall c, isbyte c = true -> tb URLCHARTBL c <> 0 -> url_safe c = true.
Proof. exact url_literal_safe. Qed.
Theorem C16_url_escaped_form : forall x, bytes x -> url_encode x = flat_map url_spec1 x.
Proof. exact url_escaped_form. Qed.
Theorem C16_url_output_safe : forall x, bytes x -> Forall (fun ch => url_safe ch = true \/ ch = 37) (url_encode x).
Proof. exact url_output_safe. Qed.

(* decoder leniency *)
Theorem C16_url_decode_both_cases : forall c r, isbyte c = true ->
  url_decode (37 :: lowerhex (c / 16) :: lowerhex (c mod 16) :: r) = c :: url_decode r /\
  url_decode (37 :: upperhex (c / 16) :: upperhex (c mod 16) :: r) = c :: url_decode r.
Proof. exact url_decode_both_cases. Qed.
Theorem C16_url_decode_plus : forall r, url_decode (43 :: r) = 32 :: url_decode r.
Proof. exact url_decode_plus. Qed.
Theorem C16_hex_decode_both_cases : forall c r, isbyte c = true ->
  hex_decode (lowerhex (c / 16) :: lowerhex (c mod 16) :: r) = c :: hex_decode r /\
  hex_decode (upperhex (c / 16) :: upperhex (c mod 16) :: r) = c :: hex_decode r.
Proof. exact hex_decode_both_cases. Qed.

(* query strings: name=value pairs joined by separators the encoder always escapes parse back exactly *)
Theorem C16_query_roundtrip : forall ps eq sep, pairs_ok ps -> sepok eq -> sepok sep -> eq <> sep ->
  forall fuel, (length ps < fuel)%nat -> parse_queries fuel (join_query ps eq sep) eq sep = ps.
Proof. exact query_roundtrip. Qed.

(* non-vacuity: concrete inputs meeting the hypotheses, evaluated *)
Example C16_ex_b64 : b64_encode [102; 111; 111; 98; 97] = [90; 109; 57; 118; 89; 109; 69; 61] /\ b64_decode [90; 109; 57; 118; 89; 109; 69; 61] = [102; 111; 111; 98; 97].
Proof. vm_compute. auto. Qed.
Example C16_ex_query : pairs_ok [([97; 32], [38; 61]); ([], [255])] /\ sepok 61 /\ sepok 38 /\
  parse_queries 50 (join_query [([97; 32], [38; 61]); ([], [255])] 61 38) 61 38 = [([97; 32], [38; 61]); ([], [255])].
Proof. vm_compute. repeat split; constructor; auto; try constructor; auto. Qed.

Print Assumptions C16_url_roundtrip.
Print Assumptions C16_b64_roundtrip.
Print Assumptions C16_hex_roundtrip.
Print Assumptions C16_b64_is_rfc4648.
Print Assumptions C16_hex_format.
Print Assumptions C16_url_literal_safe.
Print Assumptions C16_url_escaped_form.
Print Assumptions C16_url_output_safe.
Print Assumptions C16_url_decode_both_cases.
Print Assumptions C16_hex_decode_both_cases.
Print Assumptions C16_query_roundtrip.
