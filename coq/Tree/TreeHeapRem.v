(* remove_obj(): the translated recursion (Gen/TreeOps.v; comparator answers kc, explicit fuel) refines the model's rem with
   the node ids as payload: cmp k x = sign of kc x, merge x m = x (the node object of the removed key's place stays, the
   successor's object is the one released).  kc is a function of the node object: within one call every comparison is
   made before any key moves.  Weakest-precondition style (rules of TreeHeapPut.v). *)
From Coq Require Import PArith ZArith Bool List Lia.
From QV.Base Require Import Res.
From QV.Tree Require Import TreeModel TreeLlrb TreeIds TreeHeap TreeHeapProofs TreeHeapMrl TreeHeapFix TreeHeapRmin TreeHeapPut.
From QV.Gen Require Import TreeOps.
Import ListNotations.

Local Notation tr := (tree positive).
Ltac wb := apply wp_bnd.
Ltac wr := repeat (cbv beta iota; apply wp_ret).
Ltac wld H := eapply wp_ld; [exact H | cbn [c_red c_left c_right]].
(* name the continuation of a `let k := F in ...` at the head of the program instead of copying it *)
Ltac wlet kk := lazymatch goal with |- wp (let k := ?F in @?B k) ?h ?Q => set (kk := F); change (wp (B kk) h Q); cbv beta end.

Lemma wp_fix h p (t t' : tr) (Q : ptr -> heap -> Prop) : t <> E -> rep h p t -> NoDup (elements t) -> fix_ t = Ok t' ->
  (forall p' h', rep h' p' t' -> frame (elements t) h h' -> Q p' h') -> wp (c_fix p) h Q.
Proof. intros Hne H Hnd Hg HQ. destruct (c_fix_refines h p t t' Hne H Hnd Hg) as (p' & h' & E & Hr & Hf). exists p', h'. split; [exact E | apply HQ; assumption]. Qed.
Lemma wp_rmin fuel h p (t t' : tr) (Q : ptr -> heap -> Prop) : rep h p t -> NoDup (elements t) -> rmin fuel t = Ok t' ->
  (forall p' h' m, rep h' p' t' -> elements t = m :: elements t' -> h' m = None -> frame (elements t) h h' -> Q p' h') ->
  wp (c_remove_min fuel p) h Q.
Proof. intros H Hnd Hg HQ. destruct (c_rmin_refines fuel h p t t' H Hnd Hg) as (p' & h' & m & E & Hr & Hel & Hm & Hf). exists p', h'. split; [exact E | eapply HQ; eassumption]. Qed.
Lemma wp_find_min fuel h p (t : tr) (Q : ptr -> heap -> Prop) : rep h p t -> size t <= fuel -> Q (tmin t) h -> wp (c_find_min fuel p) h Q.
Proof.
  intros H Hs HQ. exists (tmin t), h. split; [|exact HQ]. destruct t as [|c l i r].
  - cbn [rep] in H. subst p. reflexivity.
  - pose proof H as H'. open H'. unfold c_find_min. cbn [is_null]. unfold bnd.
    assert (Hne : T c l i r <> E) by discriminate. rewrite (c_find_min_loop_ok fuel _ _ _ Hne H Hs). reflexivity.
Qed.

Lemma zcmp_lt z : Z.ltb z 0 = true -> zcmp z = Lt.
Proof. intros H. unfold zcmp. rewrite H. destruct (Z.eqb z 0) eqn:E; [apply Z.eqb_eq in E; apply Z.ltb_lt in H; lia | reflexivity]. Qed.
Lemma zcmp_eq z : Z.eqb z 0 = true -> zcmp z = Eq.
Proof. intros H. unfold zcmp. now rewrite H. Qed.
Lemma zcmp_gt z : Z.ltb z 0 = false -> Z.eqb z 0 = false -> zcmp z = Gt.
Proof. intros H1 H2. unfold zcmp. now rewrite H1, H2. Qed.
Lemma zcmp_eq_inv z : zcmp z = Eq -> Z.eqb z 0 = true.
Proof. unfold zcmp. destruct (Z.eqb z 0); [reflexivity|]. destruct (Z.ltb z 0); discriminate. Qed.

Lemma size_el (t t' : tr) : elements t' = elements t -> size t' = size t.
Proof. intros H. rewrite !size_elements, H. reflexivity. Qed.

Section Rem.
Variable kc : positive -> Z.
Variable k : positive.
Local Notation mcmp := (fun (_ x : positive) => zcmp (kc x)).
Local Notation mmerge := (fun (x _ : positive) => x).
Local Notation mrem := (rem mcmp mmerge).

Lemma mrem_nodup fuel (t t' : tr) b : mrem fuel t k = Ok (t', b) -> NoDup (elements t) ->
  NoDup (elements t') /\ (forall j, In j (elements t') -> In j (elements t)).
Proof.
  intros H Hnd. pose proof (rem_ids positive mcmp mmerge positive (fun x => x) (fun _ _ => eq_refl) fuel t k t' b H) as Hc.
  rewrite !map_id in Hc. split; [eapply cut_nodup; eassumption | apply cut_incl; exact Hc].
Qed.

Ltac wauto := repeat first
  [ progress cbv beta iota
  | progress cbv beta iota delta [negb is_null andb orb fst snd]
  | lazymatch goal with |- wp (ret _) _ _ => apply wp_ret end
  | lazymatch goal with |- wp (bnd _ _) _ _ => apply wp_bnd end
  | match goal with Hc : ?h ?i = Some _ |- wp (ld_left (Some ?i)) ?h _ => eapply wp_ld; [exact Hc | cbn [c_red c_left c_right]] end
  | match goal with Hc : ?h ?i = Some _ |- wp (ld_right (Some ?i)) ?h _ => eapply wp_ld; [exact Hc | cbn [c_red c_left c_right]] end
  | match goal with H : rep ?h ?p ?t |- wp (c_is_red ?p) ?h _ => apply (wp_is_red h p t _ H) end ].
Ltac wz := repeat lazymatch goal with |- wp (let x := ?v in @?B x) ?h ?Q => change (wp (B v) h Q); cbv beta end.
Ltac frefl := let j := fresh in intros j _; reflexivity.

Theorem c_rem_refines : forall fuel h p (t t' : tr) b, rep h p t -> NoDup (elements t) -> size t < fuel ->
  mrem fuel t k = Ok (t', b) ->
  wp (c_remove_obj kc fuel p) h (fun p' h' => rep h' p' t' /\ frame (elements t) h h').
Proof.
  induction fuel as [|fuel IH]; intros h p t t' b H Hnd Hs Hg; [lia|].
  destruct t as [|c l i r].
  - cbn in Hg. inversion Hg; subst. cbn [rep] in H. subst p. cbv beta iota delta [c_remove_obj is_null]. apply wp_ret. split; [reflexivity | frefl].
  - cbn [rem] in Hg. set (o := T c l i r) in *. pose proof H as H0. open H0. cbv beta iota delta [c_remove_obj is_null]; fold (c_remove_obj kc). wb. eapply wp_cmp_key; [exact Hc|]. cbv beta.
    wlet cmpv. subst cmpv. wlet k1.
    assert (Hso : size o <= fuel) by lia.
    destruct (Z.ltb (kc i) 0) eqn:Elt.
    + rewrite (zcmp_lt _ Elt) in Hg.
      apply bind_ok in Hg as (o1 & Ho1 & Hg). apply bind_ok in Hg as ([l' b'] & Hl' & Hg). apply bind_ok in Hg as (o2 & Ho2 & Hg).
      apply bind_ok in Hg as (o3 & Ho3 & Hg). inversion Hg; subst o3 b'; clear Hg. cbn [fst snd] in *.
      wb. apply wp_mono with (Q := fun p1 h1 => rep h1 p1 o1 /\ frame (elements o) h h1).
      { wauto. destruct l as [|cl ll li lr].
        - cbn [rep] in Hl. subst pl. wauto. cbn in Ho1. inversion Ho1; subst o1. split; [exact H | frefl].
        - pose proof Hl as Hl0. open Hl0. wauto. cbn [is_red]. destruct cl.
          + wauto. cbn in Ho1. inversion Ho1; subst o1. split; [exact H | frefl].
          + wauto. destruct (is_red ll) eqn:Ell.
            * wauto. unfold o in Ho1. cbn [left isE is_red negb andb] in Ho1. rewrite Ell in Ho1. cbn [negb andb] in Ho1. inversion Ho1; subst o1. split; [exact H | frefl].
            * wauto. unfold o in Ho1. cbn [left isE is_red negb andb] in Ho1. rewrite Ell in Ho1. cbn [negb andb] in Ho1.
              apply (wp_refines _ _ h (Some i) _ o1 _ c_mrl_refines H Hnd Ho1). intros p1 h1 Hr1 Hf1. wauto. split; assumption. }
      intros p1 h1 (Hr1 & Hf1). cbv beta.
      assert (Hel1 : elements o1 = elements o).
      { destruct (negb (isE (left o)) && negb (is_red (left o)) && negb (is_red (left (left o)))); [eapply el_mrl; exact Ho1 | inversion Ho1; reflexivity]. }
      destruct o1 as [|c1 l1 i1 r1]; [discriminate|]. cbn [left] in Hl'. cbn [setl] in Ho2. inversion Ho2; subst o2; clear Ho2.
      assert (Hnd1 : NoDup (elements (T c1 l1 i1 r1))) by (rewrite Hel1; exact Hnd).
      cbn [elements] in Hnd1. destruct (TreeHeapPut.nd_split _ _ _ Hnd1) as (Hi1l & Hi1r & Hndl & Hndr & Hdisj).
      pose proof Hr1 as Hr1'. cbn [rep] in Hr1'. destruct Hr1' as (-> & pl1 & pr1 & Hc1 & Hl1 & Hrr1).
      assert (Hs1 : size l1 < fuel).
      { pose proof (size_el _ _ Hel1) as Hz. cbn [size] in Hz. unfold o in Hz, Hso. cbn [size] in Hz, Hso. lia. }
      destruct (mrem_nodup _ _ _ _ Hl' Hndl) as (Hndl' & Hsub).
      wb. wb. wld Hc1. cbv beta.
      eapply wp_mono; [apply (IH h1 pl1 l1 l' b Hl1 Hndl Hs1 Hl')|]. cbv beta. intros pl' h2 (Hrl' & Hf2).
      assert (Hh2i : h2 i1 = Some (mkcell c1 pl1 pr1)) by (rewrite Hf2; [exact Hc1 | exact Hi1l]).
      wb. eapply wp_st; [exact Hh2i|]. cbv beta iota delta [c_red c_left c_right]. unfold k1. cbv beta iota.
      set (h3 := upd h2 i1 (mkcell c1 pl' pr1)).
      assert (Hil' : ~ In i1 (elements l')) by (intro X; apply Hi1l; apply Hsub; exact X).
      assert (Hr3 : rep h3 (Some i1) (T c1 l' i1 r1)).
      { cbn [rep]. split; [reflexivity|]. exists pl', pr1. split; [apply upd_same|]. split.
        - apply rep_upd; [exact Hil' | exact Hrl'].
        - apply rep_upd; [exact Hi1r|]. apply (rep_ext h1); [|exact Hrr1]. intros j Hj. apply Hf2. intro X. exact (Hdisj j X Hj). }
      assert (Hnd3 : NoDup (elements (T c1 l' i1 r1))).
      { cbn [elements]. apply TreeHeapPut.nd_join; try assumption. intros j Hj X. exact (Hdisj j (Hsub j Hj) X). }
      assert (Hne3 : T c1 l' i1 r1 <> E) by discriminate.
      apply (wp_fix h3 (Some i1) _ t' _ Hne3 Hr3 Hnd3 Ho3). intros p' h4 Hr4 Hf4. split; [exact Hr4|].
      intros j Hj. fold o in Hj. rewrite <- Hel1 in Hj. cbn [elements] in Hj.
      rewrite Hf4. 2:{ cbn [elements]. intro X. apply Hj. apply in_app_or in X as [X|X]; apply in_or_app; [left; apply Hsub; exact X | right; exact X]. }
      unfold h3. rewrite upd_other. 2:{ intros ->. apply Hj. apply in_or_app. right. left. reflexivity. }
      rewrite Hf2. 2:{ intro X. apply Hj. apply in_or_app. left. exact X. }
      apply Hf1. rewrite <- Hel1. cbn [elements]. exact Hj.
    + (* right or equal *)
      assert (Hm3 : forall X Y : res (tr * bool), match zcmp (kc i) with Eq => Y | Lt => X | Gt => Y end = Y).
      { intros X Y. unfold zcmp. rewrite Elt. destruct (Z.eqb (kc i) 0); reflexivity. }
      rewrite Hm3 in Hg. clear Hm3.
      apply bind_ok in Hg as (o1 & Ho1 & Hg).
      wlet rc0. subst rc0. wb.
      (* phase 1: a red left child is rotated up *)
      apply wp_mono with (Q := fun (x : ptr * bool) h1 => rep h1 (fst x) o1 /\ frame (elements o) h h1 /\ (snd x = false -> fst x = Some i /\ o1 = o)).
      { wauto. destruct (is_red l) eqn:El.
        - unfold o in Ho1. cbn [left] in Ho1. rewrite El in Ho1. wauto.
          apply (wp_refines _ _ h (Some i) _ o1 _ c_rotr_refines H Hnd Ho1). intros p1 h1 Hr1 Hf1. wauto.
          wz.
          wauto. split; [exact Hr1|]. split; [exact Hf1|]. intros X; discriminate X.
        - unfold o in Ho1. cbn [left] in Ho1. rewrite El in Ho1. inversion Ho1; subst o1. wauto. split; [exact H|]. split; [frefl|]. intros _. split; reflexivity. }
      intros [p1 rc1] h1 (Hr1 & Hf1 & Hrc1). cbv beta iota delta [fst snd] in Hr1, Hrc1 |- *.
      assert (Hel1 : elements o1 = elements o).
      { destruct (is_red (left o)); [eapply el_rotr; exact Ho1 | inversion Ho1; reflexivity]. }
      destruct o1 as [|c1 l1 i1 r1]; [exfalso; unfold o in Hel1; cbn [elements] in Hel1; destruct (elements l); discriminate Hel1|].
      assert (Hnd1 : NoDup (elements (T c1 l1 i1 r1))) by (rewrite Hel1; exact Hnd).
      pose proof Hnd1 as Hnd1'. cbn [elements] in Hnd1'. destruct (TreeHeapPut.nd_split _ _ _ Hnd1') as (Hi1l & Hi1r & Hndl & Hndr & Hdisj).
      pose proof Hr1 as Hr1'. cbn [rep] in Hr1'. destruct Hr1' as (-> & pl1 & pr1 & Hc1 & Hl1 & Hrr1).
      assert (Hsz1 : size (T c1 l1 i1 r1) <= fuel) by (rewrite (size_el _ _ Hel1); exact Hso).
      assert (Hcv : rc1 = false -> kc i = kc i1).
      { intros X. destruct (Hrc1 X) as (_ & E1). unfold o in E1. inversion E1. reflexivity. }
      clear Hrc1. cbn [right left cmpk] in Hg.
      wlet k2.
      (* the part after the bottom check, once for both places it is reached from *)
      lazymatch type of Hg with (if _ then _ else ?REST) = _ =>
        assert (Hk2 : forall cmpv rc2, (rc2 = false -> cmpv = kc i1) -> REST = Ok (t', b) ->
          wp (k2 (cmpv, Some i1, rc2)) h1 (fun p' h' => rep h' p' t' /\ frame (elements o) h h')) end.
      { intros cmpv rc2 Hcv2 Hrest. unfold k2. cbv beta iota.
        apply bind_ok in Hrest as (o2 & Ho2 & Hrest). wb.
        (* phase 3: move red right *)
        apply wp_mono with (Q := fun (x : ptr * bool) h2 => rep h2 (fst x) o2 /\ frame (elements (T c1 l1 i1 r1)) h1 h2 /\
             (snd x = false -> rc2 = false /\ fst x = Some i1 /\ o2 = T c1 l1 i1 r1)).
        { wauto. destruct r1 as [|cr rl ri rr].
          - cbn [rep] in Hrr1. subst pr1. wauto. cbn in Ho2. inversion Ho2; subst o2. split; [exact Hr1|]. split; [frefl|]. intros X. auto.
          - pose proof Hrr1 as Hrr0. open Hrr0. wauto. cbn [is_red]. destruct cr.
            + wauto. cbn in Ho2. inversion Ho2; subst o2. split; [exact Hr1|]. split; [frefl|]. intros X. auto.
            + wauto. destruct (is_red rl) eqn:Erl.
              * wauto. cbn [left isE is_red negb andb] in Ho2. rewrite Erl in Ho2. cbn [negb andb] in Ho2. inversion Ho2; subst o2.
                split; [exact Hr1|]. split; [frefl|]. intros X. auto.
              * wauto. cbn [left isE is_red negb andb] in Ho2. rewrite Erl in Ho2. cbn [negb andb] in Ho2.
                apply (wp_refines _ _ h1 (Some i1) _ o2 _ c_mrr_refines Hr1 Hnd1 Ho2). intros p2 h2 Hr2 Hf2. wauto.
                wz.
                wauto. split; [exact Hr2|]. split; [exact Hf2|]. intros X; discriminate X. }
        intros [p2 rc3] h2 (Hr2 & Hf2 & Hrc3). cbv beta iota delta [fst snd] in Hr2, Hrc3 |- *.
        assert (Hel2 : elements o2 = elements (T c1 l1 i1 r1)).
        { destruct (negb (isE r1) && negb (is_red r1) && negb (is_red (left r1))); [eapply el_mrr; exact Ho2 | inversion Ho2; reflexivity]. }
        destruct o2 as [|c2 l2 i2 r2]; [exfalso; cbn [elements] in Hel2; destruct (elements l1); discriminate Hel2|].
        assert (Hnd2 : NoDup (elements (T c2 l2 i2 r2))) by (rewrite Hel2; exact Hnd1).
        pose proof Hnd2 as Hnd2'. cbn [elements] in Hnd2'. destruct (TreeHeapPut.nd_split _ _ _ Hnd2') as (Hi2l & Hi2r & Hndl2 & Hndr2 & Hdisj2).
        pose proof Hr2 as Hr2'. cbn [rep] in Hr2'. destruct Hr2' as (-> & pl2 & pr2 & Hc2 & Hl2 & Hrr2).
        assert (Hsz2 : size r2 < fuel).
        { pose proof (size_el _ _ Hel2) as Hz. cbn [size] in Hz, Hsz1. lia. }
        (* phase 4: the comparison with the node now on top *)
        wb. apply wp_mono with (Q := fun cmp2 h3 => cmp2 = kc i2 /\ h3 = h2).
        { destruct rc3.
          - wauto. eapply wp_cmp_key; [exact Hc2|]. cbv beta.
            wz. wauto. split; reflexivity.
          - wauto. destruct (Hrc3 eq_refl) as (E1 & E2 & E3). inversion E2; subst i2. split; [|reflexivity]. apply Hcv2. exact E1. }
        intros cmp2 h3 (-> & ->). cbv beta. cbn [cmpk right] in Hrest. wb.
        (* phase 5: found here (successor up, remove_min) or further down on the right *)
        apply wp_mono with (Q := fun (_ : unit) h5 => exists o3, rep h5 (Some i2) o3 /\ o3 <> E /\ fix_ o3 = Ok t' /\ NoDup (elements o3) /\
             (forall j, In j (elements o3) -> In j (elements (T c2 l2 i2 r2))) /\ frame (elements (T c2 l2 i2 r2)) h2 h5).
        { destruct (Z.eqb (kc i2) 0) eqn:Eq2.
          - rewrite (zcmp_eq _ Eq2) in Hrest. destruct (tmin r2) as [m|] eqn:Etm; [|discriminate].
            apply bind_ok in Hrest as (r' & Hr' & Hrest). apply bind_ok in Hrest as (o3 & Ho3 & Hrest). inversion Hrest; subst o3 b; clear Hrest.
            wauto. apply (wp_find_min fuel h2 pr2 r2 _ Hrr2 ltac:(lia)). cbv beta.
            wz.
            wauto. apply (wp_rmin fuel h2 pr2 r2 r' _ Hrr2 Hndr2 Hr'). intros pr' h4 m' Hrr' Helm Hm' Hf4. cbv beta. wb.
            assert (Hh4 : h4 i2 = Some (mkcell c2 pl2 pr2)) by (rewrite Hf4; [exact Hc2 | exact Hi2r]).
            eapply wp_st; [exact Hh4|]. cbv beta iota delta [c_red c_left c_right]. wauto.
            assert (Hsub : forall j, In j (elements r') -> In j (elements r2)) by (intros j Hj; rewrite Helm; right; exact Hj).
            exists (T c2 l2 i2 r'). split.
            { cbn [rep]. split; [reflexivity|]. exists pl2, pr'. split; [apply upd_same|]. split.
              - apply rep_upd; [exact Hi2l|]. apply (rep_ext h2); [|exact Hl2]. intros j Hj. apply Hf4. intro X. exact (Hdisj2 j Hj X).
              - apply rep_upd; [intro X; apply Hi2r; apply Hsub; exact X | exact Hrr']. }
            split; [discriminate|]. split; [exact Ho3|]. split.
            { cbn [elements]. apply TreeHeapPut.nd_join; try assumption.
              - rewrite Helm in Hndr2. apply nd_cons in Hndr2. apply Hndr2.
              - intro X. apply Hi2r. apply Hsub. exact X.
              - intros j Hj X. exact (Hdisj2 j Hj (Hsub j X)). }
            split.
            { intros j Hj. cbn [elements] in *. apply in_app_or in Hj as [Hj|[Hj|Hj]]; apply in_or_app; [left; exact Hj | right; left; exact Hj | right; right; apply Hsub; exact Hj]. }
            intros j Hj. rewrite upd_other. 2:{ intros ->. apply Hj. cbn [elements]. apply in_or_app. right. left. reflexivity. }
            apply Hf4. intro X. apply Hj. cbn [elements]. apply in_or_app. right. right. exact X.
          - assert (Hm4 : forall X Y : res (tr * bool), match zcmp (kc i2) with Eq => X | Lt => Y | Gt => Y end = Y).
            { intros X Y. unfold zcmp. rewrite Eq2. destruct (Z.ltb (kc i2) 0); reflexivity. }
            rewrite Hm4 in Hrest. clear Hm4.
            apply bind_ok in Hrest as ([r' b'] & Hr' & Hrest). apply bind_ok in Hrest as (o3 & Ho3 & Hrest). apply bind_ok in Hrest as (o4 & Ho4 & Hrest).
            inversion Hrest; subst o4 b'; clear Hrest. cbn [fst snd setr] in *. inversion Ho3; subst o3; clear Ho3.
            destruct (mrem_nodup _ _ _ _ Hr' Hndr2) as (Hndr' & Hsub).
            wauto. eapply wp_mono; [apply (IH h2 pr2 r2 r' b Hrr2 Hndr2 Hsz2 Hr')|]. cbv beta. intros pr' h4 (Hrr' & Hf4). wb.
            assert (Hh4 : h4 i2 = Some (mkcell c2 pl2 pr2)) by (rewrite Hf4; [exact Hc2 | exact Hi2r]).
            eapply wp_st; [exact Hh4|]. cbv beta iota delta [c_red c_left c_right]. wauto.
            exists (T c2 l2 i2 r'). split.
            { cbn [rep]. split; [reflexivity|]. exists pl2, pr'. split; [apply upd_same|]. split.
              - apply rep_upd; [exact Hi2l|]. apply (rep_ext h2); [|exact Hl2]. intros j Hj. apply Hf4. intro X. exact (Hdisj2 j Hj X).
              - apply rep_upd; [intro X; apply Hi2r; apply Hsub; exact X | exact Hrr']. }
            split; [discriminate|]. split; [exact Ho4|]. split.
            { cbn [elements]. apply TreeHeapPut.nd_join; try assumption.
              - intro X. apply Hi2r. apply Hsub. exact X.
              - intros j Hj X. exact (Hdisj2 j Hj (Hsub j X)). }
            split.
            { intros j Hj. cbn [elements] in *. apply in_app_or in Hj as [Hj|[Hj|Hj]]; apply in_or_app; [left; exact Hj | right; left; exact Hj | right; right; apply Hsub; exact Hj]. }
            intros j Hj. rewrite upd_other. 2:{ intros ->. apply Hj. cbn [elements]. apply in_or_app. right. left. reflexivity. }
            apply Hf4. intro X. apply Hj. cbn [elements]. apply in_or_app. right. right. exact X. }
        intros _ h5 (o3 & Hr3 & Hne3 & Hfix & Hnd3 & Hsub3 & Hf5). cbv beta. unfold k1. cbv beta iota.
        apply (wp_fix h5 (Some i2) o3 t' _ Hne3 Hr3 Hnd3 Hfix). intros p' h6 Hr6 Hf6. split; [exact Hr6|].
        intros j Hj. rewrite <- Hel1, <- Hel2 in Hj.
        rewrite Hf6. 2:{ intro X. apply Hj. apply Hsub3. exact X. }
        rewrite Hf5; [|exact Hj]. rewrite Hf2; [|rewrite <- Hel2; exact Hj]. apply Hf1. rewrite <- Hel1, <- Hel2. exact Hj. }
      (* phase 2: removal at the bottom *)
      destruct r1 as [|cr rl ri rr].
      * cbn [rep] in Hrr1. subst pr1. cbn [isE andb] in Hg. wauto.
        apply wp_mono with (Q := fun (x : Z * bool) h2 => fst x = kc i1 /\ h2 = h1).
        { destruct rc1.
          - wauto. eapply wp_cmp_key; [exact Hc1|]. cbv beta.
            wz.
            wauto. split; reflexivity.
          - wauto. split; [apply Hcv; reflexivity | reflexivity]. }
        intros [cmp2 rc2] h2 (E2 & ->). cbn [fst] in E2. subst cmp2. cbv beta iota.
        destruct (Z.eqb (kc i1) 0) eqn:Eq1.
        -- rewrite (zcmp_eq _ Eq1) in Hg. destruct l1; [|discriminate]. inversion Hg; subst t' b; clear Hg.
           wb. exists tt, (del h1 i1). split; [unfold free_node; rewrite Hc1; reflexivity|]. cbv beta. apply wp_ret.
           split; [reflexivity|]. intros j Hj. rewrite del_other; [apply Hf1; exact Hj|]. intros ->. apply Hj. rewrite <- Hel1. cbn. left. reflexivity.
        -- assert (Ez : match zcmp (kc i1) with Eq => true | _ => false end = false).
           { unfold zcmp. rewrite Eq1. destruct (Z.ltb (kc i1) 0); reflexivity. }
           rewrite Ez in Hg. apply (Hk2 (kc i1) rc2); [reflexivity | exact Hg].
      * pose proof Hrr1 as Hrr0. open Hrr0. cbn [isE andb] in Hg. wauto.
        apply (Hk2 (kc i) rc1); [exact Hcv | exact Hg].
Qed.
End Rem.

(* the same without the weakest-precondition wrapper *)
Theorem c_rem_refines_ex : forall (kc : positive -> Z) (k : positive) fuel h p (t t' : tr) b,
  rep h p t -> NoDup (elements t) -> size t < fuel ->
  rem (fun (_ x : positive) => zcmp (kc x)) (fun (x _ : positive) => x) fuel t k = Ok (t', b) ->
  exists p' h', c_remove_obj kc fuel p h = Ok (p', h') /\ rep h' p' t' /\ frame (elements t) h h'.
Proof.
  intros kc k fuel h p t t' b H Hnd Hs Hg. destruct (c_rem_refines kc k fuel h p t t' b H Hnd Hs Hg) as (p' & h' & E & Hr & Hf).
  exists p', h'. auto.
Qed.
