(* Vocabulary of the machine-translated LLRB helpers (coq/Gen/TreeOps.v, written by tools/gen_treeops.py from clang's AST
   of qtreetbl.c): a heap of node objects addressed by ids, a state-and-error monad over it, and one primitive per C
   construct the translator emits (field load, field store, NULL test).  A load or store through NULL or through an id
   that is not allocated is Crash, as in the strict tree model.  Only the three link/colour fields are kept: the helpers
   translated so far never touch name/data.  No proofs here, so the generated file still builds when a proof breaks. *)
From Coq Require Import PArith Bool List.
From QV.Base Require Import Res.

Definition ptr := option positive.
Record cell := mkcell { c_red : bool; c_left : ptr; c_right : ptr }.
Definition heap := positive -> option cell.
Definition upd (h : heap) (i : positive) (c : cell) : heap := fun j => if Pos.eqb j i then Some c else h j.

Definition M (A : Type) := heap -> res (A * heap).
Definition ret {A} (a : A) : M A := fun h => Ok (a, h).
Definition bnd {A B} (m : M A) (f : A -> M B) : M B :=
  fun h => match m h with Ok (a, h') => f a h' | Crash => Crash | Fuel => Fuel end.
Definition crash {A} : M A := fun _ => Crash.
Definition nofuel {A} : M A := fun _ => Fuel.

Definition ld {A} (f : cell -> A) (p : ptr) : M A :=
  fun h => match p with Some i => match h i with Some c => Ok (f c, h) | None => Crash end | None => Crash end.
Definition st (f : cell -> cell) (p : ptr) : M unit :=
  fun h => match p with Some i => match h i with Some c => Ok (tt, upd h i (f c)) | None => Crash end | None => Crash end.
Definition ld_red := ld c_red.
Definition ld_left := ld c_left.
Definition ld_right := ld c_right.
Definition st_red (p : ptr) (b : bool) := st (fun c => mkcell b (c_left c) (c_right c)) p.
Definition st_left (p : ptr) (q : ptr) := st (fun c => mkcell (c_red c) q (c_right c)) p.
Definition st_right (p : ptr) (q : ptr) := st (fun c => mkcell (c_red c) (c_left c) q) p.
Definition is_null (p : ptr) : bool := match p with None => true | Some _ => false end.
Definition null : ptr := None.
(* free(p): the node object is no longer allocated; freeing NULL's target or an unallocated object is Crash *)
Definition del (h : heap) (i : positive) : heap := fun j => if Pos.eqb j i then None else h j.
Definition free_node (p : ptr) : M unit :=
  fun h => match p with Some i => match h i with Some _ => Ok (tt, del h i) | None => Crash end | None => Crash end.
(* tbl->compare(searched key, key of node p): the comparator's answer is a function kc of the node (the keys of node objects
   do not change in put_obj); calling it on NULL / an unallocated object reads freed or no memory: Crash *)
Definition cmp_key (kc : positive -> BinNums.Z) (p : ptr) : M BinNums.Z :=
  fun h => match p with Some i => match h i with Some _ => Ok (kc i, h) | None => Crash end | None => Crash end.
