(* move_red_right() and fix(): symbolic execution of the translated text over every case of the nodes they look at;
   in a file of its own so that it is checked in parallel with TreeHeapMrl.v. *)
From Coq Require Import PArith Bool List Lia.
From QV.Base Require Import Res.
From QV.Tree Require Import TreeModel TreeHeap TreeHeapProofs.
From QV.Gen Require Import TreeOps.
Import ListNotations.

Lemma c_mrr_refines : refines c_move_red_right mrr.
Proof.
  intros h p t t' H Hnd Hg. destruct t as [|c [|cl ll li lr] i [|cr rl ri rr]]; try discriminate Hg.
  destruct ll as [|[] lll lli llr]; settle H Hnd Hg.
Qed.

(* fix() is only ever called on an existing node (the model's fix_ answers E for E, where the C code would fault:
   every call site of the model reaches fix_ through setl/setr, which are Crash on E) *)
Lemma c_fix_refines : forall h p t t', t <> E -> rep h p t -> NoDup (elements t) -> fix_ t = Ok t' ->
  exists p' h', c_fix p h = Ok (p', h') /\ rep h' p' t' /\ frame (elements t) h h'.
Proof.
  intros h p t t' Hne H Hnd Hg. destruct t as [|c l i r]; [congruence|]. clear Hne.
  destruct r as [|[] rl ri rr].
  - destruct l as [|[] ll li lr]; [settle H Hnd Hg| |settle H Hnd Hg]. destruct ll as [|[] lll lli llr]; settle H Hnd Hg.
  - destruct rl as [|[] rll rli rlr]; destruct l as [|[] ll li lr]; settle H Hnd Hg.
  - destruct l as [|[] ll li lr]; [settle H Hnd Hg| |settle H Hnd Hg]. destruct ll as [|[] lll lli llr]; settle H Hnd Hg.
Qed.

