(* What the LLRB operations do to a per-node attribute that `merge`/`repl` keep (the identity of the node object):
   removal deletes one contiguous piece of the in-order attribute list and creates nothing, insertion adds the new
   node's attribute or keeps the list.  Generic in the payload; used for the node ids of the concrete table. *)
From Coq Require Import List Arith Lia Bool.
From QV.Base Require Import Res.
From QV.Tree Require Import TreeModel TreeLlrb.
Import ListNotations.

Section Cut.
Variable I : Type.
(* l' is l without one contiguous piece *)
Definition cut (l l' : list I) : Prop := exists l1 ds l2, l = l1 ++ ds ++ l2 /\ l' = l1 ++ l2.
Lemma cut_refl l : cut l l.
Proof. exists l, [], []. rewrite !app_nil_r. auto. Qed.
Lemma cut_ctx a b l l' : cut l l' -> cut (a ++ l ++ b) (a ++ l' ++ b).
Proof. intros (l1 & ds & l2 & -> & ->). exists (a ++ l1), ds, (l2 ++ b). rewrite <- !app_assoc. auto. Qed.
Lemma cut_l b l l' : cut l l' -> cut (l ++ b) (l' ++ b).
Proof. intros H. apply (cut_ctx [] b) in H. exact H. Qed.
Lemma cut_r a x l l' : cut l l' -> cut (a ++ x :: l) (a ++ x :: l').
Proof. intros H. apply (cut_ctx (a ++ [x]) []) in H. rewrite !app_nil_r, <- !app_assoc in H. exact H. Qed.
Lemma cut_incl l l' : cut l l' -> incl l' l.
Proof. intros (l1 & ds & l2 & -> & ->) j Hj. apply in_app_or in Hj as [Hj|Hj]; apply in_or_app; auto. right. apply in_or_app; auto. Qed.
Lemma NoDup_drop_mid (l1 ds l2 : list I) : NoDup (l1 ++ ds ++ l2) -> NoDup (l1 ++ l2).
Proof. induction ds as [|d ds IH]; [auto|]. intros H. apply IH. cbn [app] in H. eapply NoDup_remove_1; eauto. Qed.
Lemma cut_nodup l l' : cut l l' -> NoDup l -> NoDup l'.
Proof. intros (l1 & ds & l2 & -> & ->). apply NoDup_drop_mid. Qed.
End Cut.
Arguments cut {I}.

Section RemIds.
Variable A : Type.
Variable cmp : A -> A -> comparison.
Variable merge : A -> A -> A.
Variable repl : A -> A -> A.
Variable I : Type.
Variable f : A -> I.
Hypothesis f_merge : forall x m, f (merge x m) = f x.
Hypothesis f_repl : forall x n, f (repl x n) = f x.
Local Notation fl t := (map f (elements t)).

Lemma nonE (o : tree A) l x r : elements o = l ++ x :: r -> o <> E.
Proof. intros H ->. cbn in H. destruct l; discriminate. Qed.

Theorem rem_ids : forall fuel t k t' b, rem cmp merge fuel t k = Ok (t', b) -> cut (fl t) (fl t').
Proof.
  induction fuel as [|fu IH]; intros t k t' b H; [discriminate|]. destruct t as [|c l x r].
  { cbn in H. inversion H; subst. apply cut_refl. }
  cbn [rem] in H. remember (T c l x r) as o eqn:Eo.
  assert (Eel : elements o = elements l ++ x :: elements r) by (rewrite Eo; reflexivity).
  destruct (cmp k x) eqn:Hc.
  - apply bind_ok in H as (o1 & H1 & H).
    assert (E1 : elements o1 = elements o) by (destruct (is_red (left o)); [apply el_rotr; auto | inversion H1; auto]).
    destruct o1 as [|c1 l1 x1 r1]; [exfalso; rewrite Eel in E1; cbn in E1; destruct (elements l); discriminate|].
    cbn [right left cmpk] in H. rewrite <- E1. cbn [elements] in *.
    destruct (isE r1 && match cmp k x1 with Eq => true | _ => false end) eqn:Eleaf.
    + apply andb_prop in Eleaf as [Er1 _]. destruct r1; [|discriminate]. destruct l1; [|discriminate].
      cbn in H. inversion H; subst t' b. cbn. exists [], [f x1], []. auto.
    + apply bind_ok in H as (o2 & H2 & H).
      assert (E2 : elements o2 = elements l1 ++ x1 :: elements r1).
      { destruct (negb (isE r1) && negb (is_red r1) && negb (is_red (left r1))); [apply el_mrr in H2; exact H2 | inversion H2; reflexivity]. }
      destruct o2 as [|c2 l2 x2 r2]; [exfalso; cbn in E2; destruct (elements l1); discriminate|].
      cbn [elements] in E2. cbn [cmpk right] in H. rewrite <- E2.
      destruct (cmp k x2) eqn:Hc2.
      * destruct (tmin r2) as [m|] eqn:Etm; [|discriminate].
        apply bind_ok in H as (r' & Hr' & H). apply bind_ok in H as (o3 & H3 & H). inversion H; subst t' b; clear H.
        destruct (rmin_elems _ _ _ _ Hr') as (m' & Em). rewrite tmin_hd, Em in Etm. cbn in Etm. inversion Etm; subst m'.
        apply el_fix in H3. rewrite H3. cbn [elements]. rewrite Em, !map_app. cbn [map]. rewrite f_merge.
        exists (map f (elements l2) ++ [f x2]), [f m], (map f (elements r')). rewrite <- !app_assoc. auto.
      * apply bind_ok in H as ([r' b'] & Hr & H). apply bind_ok in H as (o3 & H3 & H). apply bind_ok in H as (o4 & H4 & H).
        inversion H; subst t' b; clear H. cbn [fst snd] in *. cbn in H3. inversion H3; subst o3.
        apply el_fix in H4. rewrite H4. cbn [elements]. rewrite !map_app. cbn [map]. apply cut_r. eapply IH; eauto.
      * apply bind_ok in H as ([r' b'] & Hr & H). apply bind_ok in H as (o3 & H3 & H). apply bind_ok in H as (o4 & H4 & H).
        inversion H; subst t' b; clear H. cbn [fst snd] in *. cbn in H3. inversion H3; subst o3.
        apply el_fix in H4. rewrite H4. cbn [elements]. rewrite !map_app. cbn [map]. apply cut_r. eapply IH; eauto.
  - apply bind_ok in H as (o1 & H1 & H). apply bind_ok in H as ([l' b'] & Hl & H). apply bind_ok in H as (o2 & H2 & H).
    apply bind_ok in H as (o3 & H3 & H). inversion H; subst t' b; clear H. cbn [fst snd] in *.
    assert (E1 : elements o1 = elements o).
    { destruct (negb (isE (left o)) && negb (is_red (left o)) && negb (is_red (left (left o)))); [apply el_mrl; auto | inversion H1; auto]. }
    destruct o1 as [|c1 l1 x1 r1]; [discriminate|]. cbn in H2. inversion H2; subst o2. cbn [left] in Hl.
    apply el_fix in H3. rewrite H3, <- E1. cbn [elements]. rewrite !map_app. apply cut_l. eapply IH; eauto.
  - apply bind_ok in H as (o1 & H1 & H).
    assert (E1 : elements o1 = elements o) by (destruct (is_red (left o)); [apply el_rotr; auto | inversion H1; auto]).
    destruct o1 as [|c1 l1 x1 r1]; [exfalso; rewrite Eel in E1; cbn in E1; destruct (elements l); discriminate|].
    cbn [right left cmpk] in H. rewrite <- E1. cbn [elements] in *.
    destruct (isE r1 && match cmp k x1 with Eq => true | _ => false end) eqn:Eleaf.
    + apply andb_prop in Eleaf as [Er1 _]. destruct r1; [|discriminate]. destruct l1; [|discriminate].
      cbn in H. inversion H; subst t' b. cbn. exists [], [f x1], []. auto.
    + apply bind_ok in H as (o2 & H2 & H).
      assert (E2 : elements o2 = elements l1 ++ x1 :: elements r1).
      { destruct (negb (isE r1) && negb (is_red r1) && negb (is_red (left r1))); [apply el_mrr in H2; exact H2 | inversion H2; reflexivity]. }
      destruct o2 as [|c2 l2 x2 r2]; [exfalso; cbn in E2; destruct (elements l1); discriminate|].
      cbn [elements] in E2. cbn [cmpk right] in H. rewrite <- E2.
      destruct (cmp k x2) eqn:Hc2.
      * destruct (tmin r2) as [m|] eqn:Etm; [|discriminate].
        apply bind_ok in H as (r' & Hr' & H). apply bind_ok in H as (o3 & H3 & H). inversion H; subst t' b; clear H.
        destruct (rmin_elems _ _ _ _ Hr') as (m' & Em). rewrite tmin_hd, Em in Etm. cbn in Etm. inversion Etm; subst m'.
        apply el_fix in H3. rewrite H3. cbn [elements]. rewrite Em, !map_app. cbn [map]. rewrite f_merge.
        exists (map f (elements l2) ++ [f x2]), [f m], (map f (elements r')). rewrite <- !app_assoc. auto.
      * apply bind_ok in H as ([r' b'] & Hr & H). apply bind_ok in H as (o3 & H3 & H). apply bind_ok in H as (o4 & H4 & H).
        inversion H; subst t' b; clear H. cbn [fst snd] in *. cbn in H3. inversion H3; subst o3.
        apply el_fix in H4. rewrite H4. cbn [elements]. rewrite !map_app. cbn [map]. apply cut_r. eapply IH; eauto.
      * apply bind_ok in H as ([r' b'] & Hr & H). apply bind_ok in H as (o3 & H3 & H). apply bind_ok in H as (o4 & H4 & H).
        inversion H; subst t' b; clear H. cbn [fst snd] in *. cbn in H3. inversion H3; subst o3.
        apply el_fix in H4. rewrite H4. cbn [elements]. rewrite !map_app. cbn [map]. apply cut_r. eapply IH; eauto.
Qed.

Theorem tremove_ids t k t' b : tremove cmp merge t k = Ok (t', b) -> cut (fl t) (fl t').
Proof. unfold tremove. intros H. apply bind_ok in H as ([t1 b1] & H1 & H). inversion H; subst. cbn [fst]. rewrite el_blacken. eapply rem_ids; eauto. Qed.

(* insertion: the attribute list gains the new node's attribute at one place, or stays *)
Lemma insr_ids n l : map f (insr A cmp repl n l) = map f l \/
  exists l1 l2, map f l = l1 ++ l2 /\ map f (insr A cmp repl n l) = l1 ++ f n :: l2.
Proof. induction l as [|a l IH]; cbn [insr].
  - right. exists [], []. auto.
  - destruct (cmp n a).
    + left. cbn [map]. rewrite f_repl. reflexivity.
    + right. exists [], (map f (a :: l)). auto.
    + destruct IH as [IH|(l1 & l2 & E1 & E2)]; [left; cbn [map]; rewrite IH; reflexivity|].
      right. exists (f a :: l1), l2. cbn [map]. rewrite E1, E2. auto.
Qed.
End RemIds.
