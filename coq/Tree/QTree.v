(* The concrete tree table: qtreetbl.c's public operations over the LLRB model.
   A node object is identified by a unique id (never reused); the per-node traversal fields `tid` and `next`
   of the C struct are kept in two id-indexed maps, which is the same thing because rotations move whole
   node objects, "copy successor into this node" keeps the object (and so its tid/next) and frees the
   successor's object, and a `next` naming a freed object resolves to Crash.
   Keys are byte strings compared by a section parameter kcmp (the default is byte_cmp below). *)
From Coq Require Import NArith PArith List Bool FMapPositive.
From QV.Base Require Import Res.
From QV.Tree Require Import TreeModel.
Import ListNotations.
Local Open Scope N_scope.
Module PM := PositiveMap.

Record node := mkNode { nid : positive; nkey : list N; nval : list N }.

(* qtreetbl_byte_cmp: memcmp on the common prefix, then the shorter one is smaller *)
Fixpoint byte_cmp (a b : list N) : comparison :=
  match a, b with
  | [], [] => Eq
  | [], _ :: _ => Lt
  | _ :: _, [] => Gt
  | x :: a', y :: b' => match N.compare x y with Eq => byte_cmp a' b' | c => c end
  end.

Section QTree.
Variable kcmp : list N -> list N -> comparison.

Definition ncmp (a b : node) : comparison := kcmp (nkey a) (nkey b).
Definition nmerge (x m : node) : node := mkNode (nid x) (nkey m) (nval m).
Definition nrepl (x n : node) : node := mkNode (nid x) (nkey x) (nval n).

Record tbl := mkTbl { root : tree node; num : N; ttid : N; nextid : positive;
                      tids : PM.t N; nexts : PM.t positive }.
(* the constructor calls reset_iterator() once: the sequencer starts at 1 *)
Definition init : tbl := mkTbl E 0 1 1 (PM.empty N) (PM.empty positive).

Definition probe (k : list N) : node := mkNode 1 k [].
Definition rootid (t : tree node) : option positive := match t with E => None | T _ _ x _ => Some (nid x) end.

(* ---- put / get / remove / clear / size / find_min / find_max ---- *)
Definition qput (s : tbl) (k v : list N) : res (tbl * bool) :=
  match k with
  | [] => Ok (s, false)                                   (* namesize == 0: EINVAL *)
  | _ => let n := mkNode (nextid s) k v in
         let fresh := match find ncmp (root s) n with None => true | Some _ => false end in
         bind (tput ncmp nrepl (root s) n) (fun t' =>
         Ok (mkTbl t' (if fresh then num s + 1 else num s) (ttid s) (Pos.succ (nextid s)) (tids s) (nexts s), true))
  end.
Definition qget (s : tbl) (k : list N) : option (list N) :=
  match k with [] => None | _ => match find ncmp (root s) (probe k) with Some x => Some (nval x) | None => None end end.
Definition qremove (s : tbl) (k : list N) : res (tbl * bool) :=
  bind (tremove ncmp nmerge (root s) (probe k)) (fun p =>
  Ok (mkTbl (fst p) (if snd p then num s - 1 else num s) (ttid s) (nextid s) (tids s) (nexts s), snd p)).
Definition qclear (s : tbl) : tbl := mkTbl E 0 (ttid s) (nextid s) (tids s) (nexts s).
Definition qsize (s : tbl) : N := num s.
Definition qmin (s : tbl) : option (list N) := option_map nkey (tmin (root s)).
Definition qmax (s : tbl) : option (list N) := option_map nkey (tmax (root s)).

(* ---- traversal ---- *)
(* node object by id: payload and the ids of its children *)
Fixpoint lookup (t : tree node) (i : positive) : option (node * option positive * option positive) :=
  match t with
  | E => None
  | T _ l x r => if Pos.eqb (nid x) i then Some (x, rootid l, rootid r)
                 else match lookup l i with Some y => Some y | None => lookup r i end
  end.
Definition tid_of (m : PM.t N) (i : positive) : N := match PM.find i m with Some t => t | None => 0 end.

(* reset_iterator(): root->next = NULL; ++tid; on wrap-around clear all marks and use 1 *)
Definition reset_iter (s : tbl) : tbl :=
  let nx := match rootid (root s) with Some r => PM.remove r (nexts s) | None => nexts s end in
  let t' := (ttid s + 1) mod 256 in
  if t' =? 0 then mkTbl (root s) (num s) 1 (nextid s) (PM.empty N) nx
  else mkTbl (root s) (num s) t' (nextid s) (tids s) nx.

Record mst := mkMst { cur : option positive; mtids : PM.t N; mnexts : PM.t positive }.
Inductive act := Move | Yield (i : positive) | Done | Bad.
Definition unst (tid : N) (m : mst) (o : option positive) : bool :=
  match o with Some j => negb (tid_of (mtids m) j =? tid) | None => false end.
Definition go_child (m : mst) (c : positive) (o : option positive) : mst :=
  match o with Some j => mkMst (Some j) (mtids m) (PM.add j c (mnexts m)) | None => m end.
(* one iteration of the while loop of qtreetbl_getnext *)
Definition mstep (t : tree node) (tid : N) (m : mst) : act * mst :=
  match cur m with
  | None => (Done, m)
  | Some c =>
    match lookup t c with
    | None => (Bad, m)
    | Some (_, lo, ro) =>
      if unst tid m lo then (Move, go_child m c lo)
      else if negb (tid_of (mtids m) c =? tid) then (Yield c, mkMst (Some c) (PM.add c tid (mtids m)) (mnexts m))
      else if unst tid m ro then (Move, go_child m c ro)
      else (Move, mkMst (PM.find c (mnexts m)) (mtids m) (mnexts m))
    end
  end.
Fixpoint gn_loop (fuel : nat) (t : tree node) (tid : N) (m : mst) : res (option positive * mst) :=
  match fuel with
  | O => Fuel
  | S f => match mstep t tid m with
           | (Move, m') => gn_loop f t tid m'
           | (Yield i, m') => Ok (Some i, m')
           | (Done, m') => Ok (None, m')
           | (Bad, _) => Crash
           end
  end.
(* the caller's cursor: (obj.tid, obj.next) *)
Definition cursor := (N * option positive)%type.
Definition cursor0 : cursor := (0, None).
Definition gn_fuel (s : tbl) : nat := 3 * size (root s) + 3.
Definition qgetnext (s : tbl) (c : cursor) : res (tbl * cursor * option (list N * list N)) :=
  let start :=
    match snd c with
    | Some _ => Some (s, fst c, snd c)
    | None => match root s with
              | E => None
              | _ => let s1 := reset_iter s in Some (s1, ttid s1, rootid (root s1))
              end
    end in
  match start with
  | None => Ok (s, c, None)
  | Some (s1, tid, cu) =>
    bind (gn_loop (gn_fuel s1) (root s1) tid (mkMst cu (tids s1) (nexts s1))) (fun r =>
      let m := snd r in
      let s2 := mkTbl (root s1) (num s1) (ttid s1) (nextid s1) (mtids m) (mnexts m) in
      match fst r with
      | Some i => match lookup (root s1) i with
                  | Some (x, _, _) => Ok (s2, (tid, Some i), Some (nkey x, nval x))
                  | None => Crash
                  end
      | None => Ok (reset_iter s2, (tid, snd c), None)
      end)
  end.

(* qtreetbl_find_nearest: descent recording parent links, then the climb *)
Fixpoint fn_descend (t : tree node) (k : node) (nx : PM.t positive) (last : option positive)
  : option positive * option positive * PM.t positive :=       (* (found, lastobj, links) *)
  match t with
  | E => (None, last, nx)
  | T _ l x r =>
    match ncmp k x with
    | Eq => (Some (nid x), last, nx)
    | Lt => fn_descend l k (match rootid l with Some li => PM.add li (nid x) nx | None => nx end) (Some (nid x))
    | Gt => fn_descend r k (match rootid r with Some ri => PM.add ri (nid x) nx | None => nx end) (Some (nid x))
    end
  end.
Fixpoint fn_climb (fuel : nat) (t : tree node) (k : node) (nx : PM.t positive) (o : option positive) : res (option positive) :=
  match fuel with
  | O => Fuel
  | S f => match o with
           | None => Ok None
           | Some i => match lookup t i with
                       | None => Crash
                       | Some (x, _, _) => match ncmp k x with Lt => fn_climb f t k nx (PM.find i nx) | _ => Ok (Some i) end
                       end
           end
  end.
Definition qnearest (s : tbl) (k : list N) : res (tbl * cursor * option (list N * list N)) :=
  match k with
  | [] => Ok (s, cursor0, None)                               (* EINVAL *)
  | _ =>
    let nx0 := match rootid (root s) with Some r => PM.remove r (nexts s) | None => nexts s end in
    match fn_descend (root s) (probe k) nx0 (rootid (root s)) with
    | (found, last, nx) =>
      let s1 := mkTbl (root s) (num s) (ttid s) (nextid s) (tids s) nx in
      bind (match found with
            | Some i => Ok (Some i)
            | None => bind (fn_climb (S (size (root s))) (root s) (probe k) nx last) (fun o =>
                      Ok (match o with Some i => Some i | None => last end))
            end) (fun o =>
      match o with
      | None => Ok (s1, cursor0, None)                        (* empty table: ENOENT *)
      | Some i => match lookup (root s) i with
                  | Some (x, _, _) => Ok (s1, (ttid s, Some i), Some (nkey x, nval x))
                  | None => Crash
                  end
      end)
    end
  end.

(* ---- histories ---- *)
Inductive op :=
| Put (k v : list N) | Get (k : list N) | Remove (k : list N) | Clear | Size | FindMin | FindMax
| Walk (n : nat)                  (* fresh cursor, n calls of getnext (n > size: complete walk) *)
| Nearest (k : list N) (n : nat). (* nearest-key search, then n calls of getnext from its cursor *)
Inductive obs :=
| OBool (b : bool) | OVal (v : option (list N)) | ONum (n : N) | OKey (k : option (list N)) | OUnit
| OWalk (l : list (list N * list N)) (ended : bool)
| ONear (r : option (list N * list N)) (l : list (list N * list N)) (ended : bool).

Fixpoint walk_n (n : nat) (s : tbl) (c : cursor) (acc : list (list N * list N)) : res (tbl * list (list N * list N) * bool) :=
  match n with
  | O => Ok (s, rev acc, false)
  | S n' => bind (qgetnext s c) (fun r =>
            match r with
            | (s', c', Some kv) => walk_n n' s' c' (kv :: acc)
            | (s', _, None) => Ok (s', rev acc, true)
            end)
  end.

Definition step (s : tbl) (o : op) : res (tbl * obs) :=
  match o with
  | Put k v => bind (qput s k v) (fun r => Ok (fst r, OBool (snd r)))
  | Get k => Ok (s, OVal (qget s k))
  | Remove k => bind (qremove s k) (fun r => Ok (fst r, OBool (snd r)))
  | Clear => Ok (qclear s, OUnit)
  | Size => Ok (s, ONum (qsize s))
  | FindMin => Ok (s, OKey (qmin s))
  | FindMax => Ok (s, OKey (qmax s))
  | Walk n => bind (walk_n n s cursor0 []) (fun r => match r with (s', l, e) => Ok (s', OWalk l e) end)
  | Nearest k n => bind (qnearest s k) (fun r =>
      match r with
      | (s1, c, None) => Ok (s1, ONear None [] true)
      | (s1, c, Some kv) => bind (walk_n n s1 c []) (fun r2 => match r2 with (s', l, e) => Ok (s', ONear (Some kv) l e) end)
      end)
  end.
Fixpoint run (s : tbl) (os : list op) : res (tbl * list obs) :=
  match os with
  | [] => Ok (s, [])
  | o :: r => bind (step s o) (fun p => bind (run (fst p) r) (fun q => Ok (fst q, snd p :: snd q)))
  end.
End QTree.
