(* Proofs about the LLRB model: shape invariant (C02) and functional correctness against sorted lists (C01).
   Premises on the ordering: transitivity of Lt, antisymmetry, congruence of Eq. *)
From Coq Require Import List Arith Lia Bool.
From QV.Base Require Import Res.
From QV.Tree Require Import TreeModel.
Import ListNotations.

Section Tree.
Variable A : Type.
Variable cmp : A -> A -> comparison.
Variable merge : A -> A -> A.   (* node payload keeps id/tid/next, takes name/data of successor *)
Variable repl : A -> A -> A.    (* existing node x receives the data of n: keeps key bytes, id, tid, next *)
Local Notation tree := (tree A).
Local Notation is_red := (@is_red A).
Local Notation isE := (@isE A).
Local Notation flip := (@flip A).
Local Notation rotl := (@rotl A).
Local Notation rotr := (@rotr A).
Local Notation left := (@left A).
Local Notation right := (@right A).
Local Notation setl := (@setl A).
Local Notation setr := (@setr A).
Local Notation mrl := (@mrl A).
Local Notation mrr := (@mrr A).
Local Notation fix_ := (@fix_ A).
Local Notation tmin := (@tmin A).
Local Notation rmin := (@rmin A).
Local Notation key := (@key A).
Local Notation cmpk := (@cmpk A cmp).
Local Notation rem := (@rem A cmp merge).
Local Notation size := (@size A).
Local Notation elements := (@elements A).
Local Notation put_up := (@put_up A).
Local Notation put := (@put A cmp repl).
Local Notation blacken := (@blacken A).
Local Notation tput := (@tput A cmp repl).
Local Notation tremove := (@tremove A cmp merge).
Local Notation tmax := (@tmax A).
Local Notation check_red := (@check_red A).
Local Notation check_black := (@check_black A).
Local Notation check_llrb := (@check_llrb A).
Local Notation check_model := (@check_model A).
Notation "'do' x <- m ; f" := (bind m (fun x => f)) (at level 200, x pattern, m at level 100, f at level 200).

Variable KV : Type.
Variable kvof : A -> KV.               (* the (key,value) a node stores *)
Hypothesis cmp_trans : forall a b c, cmp a b = Lt -> cmp b c = Lt -> cmp a c = Lt.
Hypothesis cmp_antisym : forall a b, cmp a b = CompOpp (cmp b a).
Hypothesis cmp_eq_l : forall a b c, cmp a b = Eq -> cmp a c = cmp b c.


Fixpoint allk (P:A->Prop) t := match t with E => True | T _ l x r => allk P l /\ P x /\ allk P r end.
Fixpoint bst t := match t with E => True | T _ l x r => bst l /\ bst r /\ allk (fun y => cmp y x = Lt) l /\ allk (fun y => cmp y x = Gt) r end.

Inductive valid : nat -> tree -> Prop :=
| vE : valid 0 E
| vR n l x r : valid n l -> valid n r -> is_red l = false -> is_red r = false -> valid n (T true l x r)
| vB n l x r : valid n l -> valid n r -> (is_red r = true -> is_red l = true) -> valid (S n) (T false l x r).
Inductive post : nat -> tree -> Prop :=
| pV n t : valid n t -> post n t
| pLR n ll lx lr x r : valid n (T true ll lx lr) -> valid n r -> is_red r = false -> post n (T true (T true ll lx lr) x r).
Inductive pre : nat -> tree -> Prop :=
| preE : pre 0 E
| preR n l x r : valid n l -> valid n r -> is_red l = false -> pre n (T true l x r)
| preB n l x r : valid n l -> valid n r -> (is_red l = false -> is_red r = true) -> pre (S n) (T false l x r).

Lemma valid_inj n t : valid n t -> forall m, valid m t -> n = m.
Proof. induction 1; intros m Hm; inversion Hm; subst; auto. Qed.

Ltac inv H := inversion H; subst; clear H.
Ltac dtree t := destruct t as [|[] ? ? ?].
Ltac red1 := unfold fix_, mrl, mrr in *; cbn [is_red isE left right negb andb orb bind flip rotl rotr setl setr fst snd cmpk] in *.
Ltac red2 := red1; cbn [bst allk] in *.
Ltac crush1 :=
  match goal with
  | H: _ /\ _ |- _ => destruct H
  | H: exists _, _ |- _ => destruct H
  | H: valid _ (T _ _ _ _) |- _ => inv H
  | H: valid _ E |- _ => inv H
  | H: post _ (T _ _ _ _) |- _ => inv H
  | H: post _ E |- _ => inv H
  | H: pre _ (T _ _ _ _) |- _ => inv H
  | H: pre _ E |- _ => inv H
  | H: true = false |- _ => discriminate H
  | H: false = true |- _ => discriminate H
  | H: ?a = ?a -> _ |- _ => specialize (H eq_refl)
  | H: true = false -> _ |- _ => clear H
  | H: false = true -> _ |- _ => clear H
  | H: ?a = ?a |- _ => clear H
  | H: _ -> ?a = ?a |- _ => clear H
  | H: is_red ?t = true -> false = true |- _ => let F := fresh in assert (F: is_red t = false) by (destruct (is_red t); [exfalso; discriminate (H eq_refl) | reflexivity]); clear H
  | H: is_red ?t = false -> true = false |- _ => let F := fresh in assert (F: is_red t = true) by (destruct (is_red t); [reflexivity | exfalso; discriminate (H eq_refl)]); clear H
  | H: is_red ?t = false -> false = true |- _ => let F := fresh in assert (F: is_red t = true) by (destruct (is_red t); [reflexivity | exfalso; discriminate (H eq_refl)]); clear H
  | H: _ \/ _ |- _ => destruct H
  | H1: valid ?n ?t, H2: valid ?m ?t |- _ => first [constr_eq n m; clear H2 | let E := fresh in assert (E:= valid_inj _ _ H1 _ H2); clear H2; inversion E; subst; try clear E ]
  | H: is_red ?t = false |- context[is_red ?t] => rewrite H
  | H: is_red ?t = true |- context[is_red ?t] => rewrite H
  | H1: is_red ?t = _, H: (?P -> _) |- _ => match P with context[is_red t] => rewrite H1 in H end
  end.
Ltac crush := repeat (red1; crush1); red1.
Ltac sv := solve [ repeat first [ eassumption | reflexivity | discriminate | progress intros | apply vE | apply vR | apply vB | congruence ] ].
Ltac sp := first [ solve [apply pV; sv] | solve [apply pLR; sv] ].
Ltac spre := first [ solve [apply preE] | solve [apply preR; sv] | solve [apply preB; sv] ].
(* case split on the colour of a variable tree that blocks reduction *)
Ltac split1 :=
  match goal with
  | |- context[is_red ?v] => is_var v; dtree v
  | |- context[isE ?v] => is_var v; dtree v
  | |- context[match ?v with E => _ | T _ _ _ _ => _ end] => is_var v; dtree v
  end.
Ltac go := crush; repeat (split1; crush).

Lemma rmin_post fuel : forall n t, valid n t -> (is_red t = true \/ is_red (left t) = true) -> size t < fuel ->
  exists t', rmin fuel t = Ok t' /\ valid n t' /\ (is_red t = false -> is_red t' = false).
Proof.
  induction fuel as [|fuel IH]; intros n t Hv Hc Hf; [lia|].
  destruct t as [|c l x r]; [inv Hv; crush|].
  cbn [rmin].
  dtree l; [ (* l = E *) go; try (eexists; split; [reflexivity|]; split; [sv|congruence]) | |].
  all: go.
  all: try match goal with
  | |- context[rmin ?f ?s] =>
     let Hs := fresh "Hs" in let m := fresh "m" in
     assert (Hs: exists m, valid m s /\ (is_red s = true \/ is_red (left s) = true)) by (eexists; split; [sv | red1; auto]);
     destruct Hs as (m & Hs & Hc');
     let t' := fresh "t'" in let He := fresh "He" in let Hv' := fresh "Hv'" in
     destruct (IH m s Hs Hc' ltac:(cbn [size] in *; lia)) as (t' & He & Hv' & Hb'); rewrite He; clear He IH
  end.
  all: go.
  all: try solve [eexists; split; [reflexivity|]; split; [sv| red1; first [discriminate|reflexivity|congruence]]].
Qed.


Lemma tmin_some t : isE t = false -> exists m, tmin t = Some m.
Proof. induction t as [|c l IHl x r IHr]; [discriminate|]. intros _. destruct l as [|cl ll lx lr]; [eexists; reflexivity|]. 
  destruct (IHl eq_refl) as [m Hm]. exists m. cbn [tmin] in *. exact Hm. Qed.

Lemma allk_impl (P Q:A->Prop) t : (forall y, P y -> Q y) -> allk P t -> allk Q t.
Proof. induction t; cbn; intuition. Qed.
Lemma cmp_gt_lt a b : cmp a b = Gt <-> cmp b a = Lt.
Proof. rewrite (cmp_antisym a b). destruct (cmp b a); cbn; split; congruence. Qed.
Lemma cmp_trans_gt a b c : cmp a b = Gt -> cmp b c = Gt -> cmp a c = Gt.
Proof. rewrite !cmp_gt_lt. eauto. Qed.
(* the key fact used after rotate_right on the equal/right path *)
Lemma cmp_left_of a k x lx : cmp k x <> Lt -> cmp lx x = Lt -> a = cmp k lx -> a = Gt.
Proof. intros Hk Hl ->. destruct (cmp k lx) eqn:E1; auto.
  - exfalso. apply Hk. rewrite (cmp_eq_l _ _ x E1). exact Hl.
  - exfalso. apply Hk. eapply cmp_trans; eauto. Qed.

Inductive prek (k:A) : nat -> tree -> Prop :=
| qE : prek k 0 E
| qR n l x r : valid n l -> valid n r -> is_red l = false -> (is_red r = true -> cmp k x <> Lt) -> prek k n (T true l x r)
| qB n l x r : valid n l -> valid n r -> (is_red l = false -> is_red r = true /\ cmp k x <> Lt) -> prek k (S n) (T false l x r).

Ltac sv2 := solve [ repeat first [ eassumption | reflexivity | discriminate | progress intros | apply vE | apply vR | apply vB | split | congruence ] ].
Ltac spre2 := first [ solve [apply qE] | solve [apply qR; sv2] | solve [apply qB; sv2] ].
Ltac sbst := solve [ cbn [bst allk]; repeat split; eauto ].
Ltac crushk1 :=
  match goal with
  | H: prek _ _ (T _ _ _ _) |- _ => inv H
  | H: prek _ _ E |- _ => inv H
  | H: True |- _ => clear H
  | H: _ <> _ |- _ => solve [exfalso; congruence]
  | H1: cmp ?a ?b = ?c1, H2: cmp ?a ?b = ?c2 |- _ => first [ constr_eq c1 c2; clear H2 | solve [exfalso; congruence] ]
  end.
Ltac crush2 := repeat (red2; first [crush1 | crushk1]); red2.
Ltac go2 := crush2; repeat (split1; crush2).

Ltac use_rmin IHm :=
  match goal with
  | |- context[rmin ?f ?s] =>
     let Hs := fresh "Hs" in let m := fresh "m" in let Hc' := fresh "Hc'" in
     assert (Hs: exists m, valid m s /\ (is_red s = true \/ is_red (left s) = true)) by (eexists; split; [sv | red1; auto]);
     destruct Hs as (m & Hs & Hc');
     let t' := fresh "t'" in let He := fresh "He" in let Hv' := fresh "Hv'" in let Hb' := fresh "Hb'" in
     destruct (IHm f m s Hs Hc' ltac:(cbn [size] in *; lia)) as (t' & He & Hv' & Hb'); rewrite He; clear He
  end.
Ltac use_rem IH :=
  match goal with
  | |- context[rem ?f ?s ?k] =>
     let Hs := fresh "Hs" in let m := fresh "m" in
     assert (Hs: exists m, prek k m s) by (eexists; spre2);
     destruct Hs as (m & Hs);
     let Hbs := fresh "Hbs" in assert (Hbs: bst s) by sbst;
     let t' := fresh "t'" in let b := fresh "b" in let He := fresh "He" in let Hp' := fresh "Hp'" in let Hb' := fresh "Hb'" in
     destruct (IH m s k Hs Hbs ltac:(cbn [size] in *; lia)) as (t' & b & He & Hp' & Hv' & Hb'); rewrite He; clear He
  end.
Ltac spec_valid :=
  match goal with
  | H: valid ?n ?s -> _ |- _ => first [ let Hv := fresh in assert (Hv: valid n s) by sv; specialize (H Hv) | clear H ]
  end.
Ltac fin2 := eexists; eexists; split; [reflexivity|]; split; [sp | split; [ first [ solve [intros; sv] | solve [let H := fresh in intro H; exfalso; inv H; crush; congruence] ] | first [discriminate | intros _; split; [sv | red1; first [discriminate|reflexivity|congruence]]]]].
(* resolve a comparison against a key known to be smaller than one we are >= *)
Ltac rw_cmp := match goal with H: cmp ?a ?b = _ |- context[cmp ?a ?b] => rewrite H end.
Ltac cmp_left :=
  match goal with
  | Hk: cmp ?k ?x = Gt, Hl: cmp ?lx ?x = Lt |- context[cmp ?k ?lx] =>
      let F := fresh in assert (F: cmp k lx = Gt) by (eapply cmp_left_of; [ | exact Hl | reflexivity]; congruence); rewrite F
  | Hk: cmp ?k ?x = Eq, Hl: cmp ?lx ?x = Lt |- context[cmp ?k ?lx] =>
      let F := fresh in assert (F: cmp k lx = Gt) by (eapply cmp_left_of; [ | exact Hl | reflexivity]; congruence); rewrite F
  end.

Lemma rem_post fuel : forall n t k, prek k n t -> bst t -> size t < fuel ->
  exists t' b, rem fuel t k = Ok (t', b) /\ post n t' /\ (valid n t -> valid n t') /\ (is_red t = false -> valid n t' /\ is_red t' = false).
Proof.
  induction fuel as [|fuel IH]; intros n t k Hp Hbst Hf; [lia|].
  destruct t as [|c l x r]; [inv Hp; cbn [rem]; fin2|].
  cbn [rem].
  destruct (cmp k x) eqn:Hc.
  - (* Eq *) 
    go2. 
    all: repeat (first [rw_cmp | cmp_left | match goal with |- context[cmp ?kk ?y] => destruct (cmp kk y) eqn:? end]; go2).
    all: try (match goal with |- context[tmin ?s] => let m := fresh "m" in let Hm := fresh "Hm" in destruct (tmin_some s eq_refl) as [m Hm]; rewrite Hm end).
    all: try use_rmin rmin_post.
    all: try use_rem IH.
    all: crush2; repeat spec_valid.
    all: go2.
    all: try solve [fin2].
  - (* Lt *)
    go2.
    all: try use_rem IH.
    all: crush2; repeat spec_valid.
    all: go2.
    all: try solve [fin2].
  - (* Gt *) 
    go2. 
    all: repeat (first [rw_cmp | cmp_left | match goal with |- context[cmp ?kk ?y] => destruct (cmp kk y) eqn:? end]; go2).
    all: try (match goal with |- context[tmin ?s] => let m := fresh "m" in let Hm := fresh "Hm" in destruct (tmin_some s eq_refl) as [m Hm]; rewrite Hm end).
    all: try use_rmin rmin_post.
    all: try use_rem IH.
    all: crush2; repeat spec_valid.
    all: go2.
    all: try solve [fin2].
Qed.

(* ================= C01: the tree is a sorted map ================= *)
Fixpoint sorted (l:list A) : Prop := match l with [] => True | a :: r => Forall (fun b => cmp a b = Lt) r /\ sorted r end.
Fixpoint ins (n:A) (l:list A) : list A :=
  match l with [] => [n] | a :: r => match cmp n a with Lt => n :: a :: r | Eq => n :: r | Gt => a :: ins n r end end.
Fixpoint del (k:A) (l:list A) : list A :=
  match l with [] => [] | a :: r => match cmp k a with Lt => a :: r | Eq => r | Gt => a :: del k r end end.
Fixpoint mem (k:A) (l:list A) : bool :=
  match l with [] => false | a :: r => match cmp k a with Lt => false | Eq => true | Gt => mem k r end end.

Lemma el_flip t t' : flip t = Ok t' -> elements t' = elements t.
Proof. destruct t as [|c [|cl ll lx lr] x [|cr rl rx rr]]; cbn; intros H; inversion H; reflexivity. Qed.
Lemma el_rotl t t' : rotl t = Ok t' -> elements t' = elements t.
Proof. destruct t as [|c l x [|cr rl rx rr]]; cbn; intros H; inversion H; subst. cbn. rewrite <- !app_assoc. reflexivity. Qed.
Lemma el_rotr t t' : rotr t = Ok t' -> elements t' = elements t.
Proof. destruct t as [|c [|cl ll lx lr] x r]; cbn; intros H; inversion H; subst. cbn. rewrite <- !app_assoc. reflexivity. Qed.
Lemma el_setr_same o r' o' : setr o r' = Ok o' -> elements r' = elements (right o) -> elements o' = elements o.
Proof. destruct o; cbn; intros H E0; inversion H; subst. cbn. now rewrite E0. Qed.
Lemma el_setl_same o l' o' : setl o l' = Ok o' -> elements l' = elements (left o) -> elements o' = elements o.
Proof. destruct o; cbn; intros H E0; inversion H; subst. cbn. now rewrite E0. Qed.

Ltac bo := repeat match goal with
  | H: bind _ _ = Ok _ |- _ => apply bind_ok in H; destruct H as (? & ? & H)
  | H: (if ?c then _ else _) = Ok _ |- _ => destruct c
  | H: Ok _ = Ok _ |- _ => inversion H; subst; clear H
  end.

Lemma el_mrl o o' : mrl o = Ok o' -> elements o' = elements o.
Proof. unfold mrl. intros H. bo.
  - apply el_flip in H0. apply el_rotr in H1. apply (el_setr_same _ _ _ H2) in H1. apply el_rotl in H3. apply el_flip in H4.
    apply el_rotl in H5. apply (el_setr_same _ _ _ H) in H5. congruence.
  - apply el_flip in H0. apply el_rotr in H1. apply (el_setr_same _ _ _ H2) in H1. apply el_rotl in H3. apply el_flip in H4. congruence.
  - apply el_flip in H0. congruence.
Qed.
Lemma el_mrr o o' : mrr o = Ok o' -> elements o' = elements o.
Proof. unfold mrr. intros H. bo.
  - apply el_flip in H0. apply el_rotr in H1. apply el_flip in H. congruence.
  - apply el_flip in H0. congruence.
Qed.
Lemma el_fix o o' : fix_ o = Ok o' -> elements o' = elements o.
Proof. unfold fix_. intros H. bo; repeat match goal with
  | H: rotl _ = Ok _ |- _ => apply el_rotl in H
  | H: rotr _ = Ok _ |- _ => apply el_rotr in H
  end; try congruence.
  all: try (match goal with Hs: setr _ _ = Ok _, Hr: elements _ = elements (right _) |- _ => apply (el_setr_same _ _ _ Hs) in Hr end; congruence).
Qed.

(* ---------- sorted-list facts ---------- *)
Lemma del_app_lt k a A0 B : cmp k a = Lt -> del k (A0 ++ a :: B) = del k A0 ++ a :: B.
Proof. intros H. induction A0 as [|z A0 IH]; cbn; [now rewrite H|]. destruct (cmp k z); auto. now rewrite IH. Qed.
Lemma del_app_ge k a A0 B : Forall (fun z => cmp k z = Gt) A0 -> del k (A0 ++ a :: B) = A0 ++ del k (a :: B).
Proof. induction 1 as [|z A0 Hz _ IH]; [reflexivity|]. cbn [app del]. rewrite Hz. now rewrite IH. Qed.
Lemma mem_app_lt k a A0 B : cmp k a = Lt -> mem k (A0 ++ a :: B) = mem k A0.
Proof. intros H. induction A0 as [|z A0 IH]; cbn; [now rewrite H|]. destruct (cmp k z); auto. Qed.
Lemma mem_app_ge k a A0 B : Forall (fun z => cmp k z = Gt) A0 -> mem k (A0 ++ a :: B) = mem k (a :: B).
Proof. induction 1 as [|z A0 Hz _ IH]; [reflexivity|]. cbn [app mem]. now rewrite Hz. Qed.

Lemma sorted_app A0 a B : sorted (A0 ++ a :: B) -> sorted A0 /\ sorted B /\ Forall (fun z => cmp z a = Lt) A0 /\ Forall (fun z => cmp a z = Lt) B.
Proof. induction A0 as [|z A0 IH]; cbn.
  - intros [H1 H2]. repeat split; auto.
  - intros [H1 H2]. destruct (IH H2) as (S1 & S2 & F1 & F2). apply Forall_app in H1 as [H1a H1b]. inversion H1b; subst.
    repeat split; auto. Qed.

Lemma below_gt k a A0 : Forall (fun z => cmp z a = Lt) A0 -> cmp k a <> Lt -> Forall (fun z => cmp k z = Gt) A0.
Proof. intros F Hk. eapply Forall_impl; [|exact F]. intros z Hz. cbn in Hz.
  destruct (cmp k z) eqn:E0; auto.
  - exfalso. apply Hk. rewrite (cmp_eq_l _ _ a E0). exact Hz.
  - exfalso. apply Hk. eapply cmp_trans; eauto. Qed.

(* two payloads that the comparator and the observer cannot tell apart *)
Definition eqv (a b:A) : Prop := kvof a = kvof b /\ (forall c, cmp a c = cmp b c) /\ (forall c, cmp c a = cmp c b).
Hypothesis merge_eqv : forall x m, eqv (merge x m) m.
Lemma eqv_refl a : eqv a a. Proof. repeat split; auto. Qed.
Lemma F2_refl l : Forall2 eqv l l. Proof. induction l; constructor; auto using eqv_refl. Qed.

Definition rootk (t:tree) := match t with T _ _ x _ => Some x | E => None end.
Lemma rootk_in t x : rootk t = Some x -> In x (elements t).
Proof. destruct t; cbn; [discriminate|]. intros H; inversion H; subst. apply in_or_app; right; left; auto. Qed.
Lemma root_flip t t' : flip t = Ok t' -> rootk t' = rootk t /\ elements (left t') = elements (left t) /\ elements (right t') = elements (right t).
Proof. destruct t as [|c [|cl ll lx lr] x [|cr rl rx rr]]; cbn; intros H; inversion H; auto. Qed.
Lemma root_rotl t t' : rotl t = Ok t' -> rootk t' = rootk (right t).
Proof. destruct t as [|c l x [|cr rl rx rr]]; cbn; intros H; inversion H; auto. Qed.
Lemma root_rotr t t' : rotr t = Ok t' -> rootk t' = rootk (left t).
Proof. destruct t as [|c [|cl ll lx lr] x r]; cbn; intros H; inversion H; auto. Qed.
Lemma root_setr t r' t' : setr t r' = Ok t' -> rootk t' = rootk t /\ right t' = r' /\ left t' = left t.
Proof. destruct t; cbn; intros H; inversion H; auto. Qed.
Lemma root_setl t l' t' : setl t l' = Ok t' -> rootk t' = rootk t /\ left t' = l' /\ right t' = right t.
Proof. destruct t; cbn; intros H; inversion H; auto. Qed.

(* where the new root comes from *)
Lemma root_mrl o o' x' : mrl o = Ok o' -> rootk o' = Some x' -> rootk o = Some x' \/ In x' (elements (right o)).
Proof. unfold mrl. intros H Hr.
  apply bind_ok in H as (oa & Ha & H). destruct (root_flip _ _ Ha) as (R0 & _ & E0).
  destruct (is_red (left (right oa))).
  - apply bind_ok in H as (r1 & Hr1 & H). apply bind_ok in H as (ob & Hb & H). apply bind_ok in H as (oc & Hc & H).
    apply bind_ok in H as (od & Hd & H).
    destruct (root_setr _ _ _ Hb) as (Rb & RRb & _). pose proof (root_rotl _ _ Hc) as Rc. destruct (root_flip _ _ Hd) as (Rd & _ & _).
    pose proof (root_rotr _ _ Hr1) as R1.
    assert (Hod: rootk od = Some x').
    { destruct (is_red (right (right od))); [apply bind_ok in H as (r2 & Hr2 & H); destruct (root_setr _ _ _ H) as (R5 & _ & _); congruence | inversion H; subst; auto]. }
    right. rewrite <- E0. rewrite Rd, Rc, RRb, R1 in Hod. apply rootk_in in Hod.
    destruct (right oa) as [|cr rl rx rr]; cbn in *; [contradiction|]. apply in_or_app; left; auto.
  - inversion H; subst. left. congruence.
Qed.
Lemma root_mrr o o' x' : mrr o = Ok o' -> rootk o' = Some x' -> rootk o = Some x' \/ In x' (elements (left o)).
Proof. unfold mrr. intros H Hr.
  apply bind_ok in H as (oa & Ha & H). destruct (root_flip _ _ Ha) as (R0 & E0 & _).
  destruct (is_red (left (left oa))).
  - apply bind_ok in H as (ob & Hb & H). pose proof (root_rotr _ _ Hb) as Rb. destruct (root_flip _ _ H) as (R2 & _ & _).
    right. rewrite <- E0. apply rootk_in. congruence.
  - inversion H; subst. left. congruence.
Qed.

Lemma tmin_hd t : tmin t = hd_error (elements t).
Proof. induction t as [|c l IHl x r IHr]; [reflexivity|]. cbn [tmin elements]. destruct l as [|cl ll lx lr]; [reflexivity|].
  rewrite IHl. destruct (elements (T cl ll lx lr)) eqn:E0; [|reflexivity]. cbn in E0. destruct (elements ll); discriminate. Qed.

(* remove_min removes exactly the first element *)
Lemma rmin_elems : forall fuel t t', rmin fuel t = Ok t' -> exists m, elements t = m :: elements t'.
Proof. induction fuel as [|f IH]; intros t t' H; [discriminate|]. destruct t as [|c l x r]; [discriminate|].
  cbn [rmin] in H. destruct l as [|cl ll lx lr].
  - destruct r; [inversion H; subst; exists x; reflexivity | discriminate].
  - set (o := T c (T cl ll lx lr) x r) in *.
    apply bind_ok in H as (o1 & H1 & H). apply bind_ok in H as (l' & Hl & H). apply bind_ok in H as (o2 & H2 & H).
    assert (E1: elements o1 = elements o).
    { destruct (negb (is_red (left o)) && negb (is_red (left (left o)))); [apply el_mrl; auto | inversion H1; auto]. }
    apply el_fix in H. destruct o1 as [|c1 l1 x1 r1]; [discriminate|]. cbn in H2. inversion H2; subst o2. cbn [left] in Hl.
    destruct (IH _ _ Hl) as (m & Em). exists m. rewrite <- E1, H. cbn [elements]. rewrite Em. reflexivity. Qed.

Lemma sorted_tl a l : sorted (a :: l) -> sorted l. Proof. cbn. tauto. Qed.
Lemma F2_app_mid A1 A2 x y B : Forall2 eqv A1 A2 -> eqv x y -> Forall2 eqv (A1 ++ x :: B) (A2 ++ y :: B).
Proof. intros H1 H2. apply Forall2_app; auto. constructor; auto. apply F2_refl. Qed.
Lemma F2_app_r A0 B1 B2 x : Forall2 eqv B1 B2 -> Forall2 eqv (A0 ++ x :: B1) (A0 ++ x :: B2).
Proof. intros H. apply Forall2_app; [apply F2_refl|]. constructor; auto using eqv_refl. Qed.

Lemma cmp_ge_root k x x1 : cmp k x <> Lt -> (x1 = x \/ cmp x1 x = Lt) -> cmp k x1 <> Lt.
Proof. intros Hk [->|Hx] Hc; auto. apply Hk. eapply cmp_trans; eauto. Qed.

(* C01, deletion: the in-order contents after remove are those of list deletion, and the result flag is membership *)
Theorem rem_elems : forall fuel t k t' b, rem fuel t k = Ok (t', b) -> sorted (elements t) ->
  Forall2 eqv (elements t') (del k (elements t)) /\ b = mem k (elements t).
Proof.
  induction fuel as [|f IH]; intros t k t' b H Hs; [discriminate|]. destruct t as [|c l x r].
  { cbn in H. inversion H; subst. cbn. split; auto. }
  cbn [rem] in H. remember (T c l x r) as o eqn:Eo.
  assert (Eel: elements o = elements l ++ x :: elements r) by (rewrite Eo; reflexivity).
  assert (Ero: rootk o = Some x) by (rewrite Eo; reflexivity). assert (Eright: right o = r) by (rewrite Eo; reflexivity). assert (Eleft: left o = l) by (rewrite Eo; reflexivity).
  destruct (cmp k x) eqn:Hc.
  - (* Eq *)
    assert (Hge: cmp k x <> Lt) by congruence.
    apply bind_ok in H as (o1 & H1 & H).
    assert (Hso: sorted (elements l ++ x :: elements r)) by (rewrite <- Eel; exact Hs).
    destruct (sorted_app _ _ _ Hso) as (_ & _ & Fl & Fr).
    assert (E1: elements o1 = elements o) by (destruct (is_red (left o)); [apply el_rotr; auto | inversion H1; auto]).
    assert (R1: exists x1, rootk o1 = Some x1 /\ (x1 = x \/ cmp x1 x = Lt)).
    { destruct (is_red (left o)).
      - pose proof (root_rotr _ _ H1) as Rr. rewrite Eleft in Rr. destruct l as [|cl ll lx lr]; [rewrite Eo in H1; discriminate|].
        exists lx. split; auto. right. rewrite Forall_forall in Fl. apply Fl. cbn. apply in_or_app; right; left; auto.
      - inversion H1; subst o1. exists x. auto. }
    destruct R1 as (x1' & Rx1 & Hx1).
    destruct o1 as [|c1 l1 x1 r1]; [discriminate|]. cbn in Rx1. inversion Rx1; subst x1'; clear Rx1.
    cbn [right left cmpk] in H.
    assert (Hs1: sorted (elements l1 ++ x1 :: elements r1)) by (cbn [elements] in E1; rewrite E1; exact Hs).
    pose proof (cmp_ge_root k x x1 Hge Hx1) as Hge1.
    destruct (isE r1 && match cmp k x1 with Eq => true | _ => false end) eqn:Eleaf.
    + (* the node itself is deleted: it must be a leaf *)
      apply andb_prop in Eleaf as [Er1 Ek1]. destruct r1; [|discriminate]. destruct (cmp k x1) eqn:Ek; try discriminate.
      destruct l1; [|discriminate]. cbn in H. inversion H; subst t' b. cbn [elements] in E1. rewrite <- E1. cbn. rewrite Ek. split; auto.
    + apply bind_ok in H as (o2 & H2 & H).
      assert (E2: elements o2 = elements l1 ++ x1 :: elements r1).
      { destruct (negb (isE r1) && negb (is_red r1) && negb (is_red (left r1))); [apply el_mrr in H2; exact H2 | inversion H2; reflexivity]. }
      assert (R2: exists x2, rootk o2 = Some x2 /\ (x2 = x1 \/ cmp x2 x1 = Lt)).
      { destruct (negb (isE r1) && negb (is_red r1) && negb (is_red (left r1))).
        - destruct o2 as [|c2 l2 x2 r2]; [destruct (el_mrr _ _ H2); cbn in E2; destruct (elements l1); discriminate|].
          exists x2. split; auto. destruct (root_mrr _ _ x2 H2 eq_refl) as [Hr|Hin]; [cbn in Hr; inversion Hr; auto|].
          right. cbn [left] in Hin. destruct (sorted_app _ _ _ Hs1) as (_ & _ & Fl1 & _). rewrite Forall_forall in Fl1. auto.
        - inversion H2; subst o2. exists x1. auto. }
      destruct R2 as (x2' & Rx2 & Hx2).
      destruct o2 as [|c2 l2 x2 r2]; [discriminate|]. cbn in Rx2. inversion Rx2; subst x2'; clear Rx2.
      cbn [elements] in E2. cbn [cmpk right] in H.
      assert (Hs2: sorted (elements l2 ++ x2 :: elements r2)) by (rewrite E2; exact Hs1).
      pose proof (cmp_ge_root k x1 x2 Hge1 Hx2) as Hge2.
      destruct (sorted_app _ _ _ Hs2) as (_ & Sr2 & Fl2 & _).
      pose proof (below_gt k x2 _ Fl2 Hge2) as Hbelow.
      assert (Eall: elements o = elements l2 ++ x2 :: elements r2) by (rewrite <- E1; cbn [elements]; rewrite <- E2; reflexivity).
      destruct (cmp k x2) eqn:Hc2; [ | exfalso; apply Hge2; reflexivity | ].
      * (* equal: the in-order successor takes this node's place *)
        destruct (tmin r2) as [m|] eqn:Etm; [|discriminate].
        apply bind_ok in H as (r' & Hr' & H). apply bind_ok in H as (o3 & H3 & H). inversion H; subst t' b; clear H.
        destruct (rmin_elems _ _ _ Hr') as (m' & Em). rewrite tmin_hd, Em in Etm. cbn in Etm. inversion Etm; subst m'.
        apply el_fix in H3. rewrite H3. cbn [elements]. rewrite Eall, Em.
        rewrite del_app_ge, mem_app_ge by auto. cbn [del mem]. rewrite Hc2. split; auto.
        apply F2_app_mid; [apply F2_refl | apply merge_eqv].
      * (* greater: continue in the right subtree *)
        apply bind_ok in H as ([r' b'] & Hr & H). apply bind_ok in H as (o3 & H3 & H). apply bind_ok in H as (o4 & H4 & H).
        inversion H; subst t' b; clear H. cbn [fst snd] in *. cbn in H3. inversion H3; subst o3.
        destruct (IH _ _ _ _ Hr Sr2) as (F & Eb).
        apply el_fix in H4. rewrite H4. cbn [elements]. rewrite Eall.
        rewrite del_app_ge, mem_app_ge by auto. cbn [del mem]. rewrite Hc2. split; auto.
        apply F2_app_r; auto.
  - (* Lt *)
    apply bind_ok in H as (o1 & H1 & H). apply bind_ok in H as ([l' b'] & Hl & H). apply bind_ok in H as (o2 & H2 & H).
    apply bind_ok in H as (o3 & H3 & H). inversion H; subst t' b; clear H. cbn [fst snd] in *.
    assert (E1: elements o1 = elements o).
    { destruct (negb (isE (left o)) && negb (is_red (left o)) && negb (is_red (left (left o)))); [apply el_mrl; auto | inversion H1; auto]. }
    destruct o1 as [|c1 l1 x1 r1]; [discriminate|]. cbn in H2. inversion H2; subst o2. cbn [left] in Hl.
    apply el_fix in H3. rewrite H3. cbn [elements] in *.
    assert (Hs1: sorted (elements l1 ++ x1 :: elements r1)) by (rewrite E1, Eel; rewrite Eo in Hs; exact Hs).
    destruct (sorted_app _ _ _ Hs1) as (Sl1 & _ & _ & _).
    destruct (IH _ _ _ _ Hl Sl1) as (F & Eb).
    assert (Hk1: cmp k x1 = Lt).
    { assert (Hroot: rootk o = Some x1 \/ In x1 (elements (right o))).
      { destruct (negb (isE (left o)) && negb (is_red (left o)) && negb (is_red (left (left o)))); [eapply root_mrl; eauto; reflexivity | inversion H1; left; reflexivity]. }
      destruct Hroot as [Hr|Hin]; [rewrite Ero in Hr; inversion Hr; subst; auto|].
      rewrite Eright in Hin. rewrite Eo in Hs. cbn [elements] in Hs. destruct (sorted_app _ _ _ Hs) as (_ & _ & _ & Fr). rewrite Forall_forall in Fr. eapply cmp_trans; eauto. }
    rewrite Eo. cbn [elements]. rewrite <- Eel, <- E1. rewrite del_app_lt, mem_app_lt by auto. split; [|exact Eb].
    apply Forall2_app; auto. apply F2_refl.
  - (* Gt *)
    assert (Hge: cmp k x <> Lt) by congruence.
    apply bind_ok in H as (o1 & H1 & H).
    assert (Hso: sorted (elements l ++ x :: elements r)) by (rewrite <- Eel; exact Hs).
    destruct (sorted_app _ _ _ Hso) as (_ & _ & Fl & Fr).
    assert (E1: elements o1 = elements o) by (destruct (is_red (left o)); [apply el_rotr; auto | inversion H1; auto]).
    assert (R1: exists x1, rootk o1 = Some x1 /\ (x1 = x \/ cmp x1 x = Lt)).
    { destruct (is_red (left o)).
      - pose proof (root_rotr _ _ H1) as Rr. rewrite Eleft in Rr. destruct l as [|cl ll lx lr]; [rewrite Eo in H1; discriminate|].
        exists lx. split; auto. right. rewrite Forall_forall in Fl. apply Fl. cbn. apply in_or_app; right; left; auto.
      - inversion H1; subst o1. exists x. auto. }
    destruct R1 as (x1' & Rx1 & Hx1).
    destruct o1 as [|c1 l1 x1 r1]; [discriminate|]. cbn in Rx1. inversion Rx1; subst x1'; clear Rx1.
    cbn [right left cmpk] in H.
    assert (Hs1: sorted (elements l1 ++ x1 :: elements r1)) by (cbn [elements] in E1; rewrite E1; exact Hs).
    pose proof (cmp_ge_root k x x1 Hge Hx1) as Hge1.
    destruct (isE r1 && match cmp k x1 with Eq => true | _ => false end) eqn:Eleaf.
    + (* the node itself is deleted: it must be a leaf *)
      apply andb_prop in Eleaf as [Er1 Ek1]. destruct r1; [|discriminate]. destruct (cmp k x1) eqn:Ek; try discriminate.
      destruct l1; [|discriminate]. cbn in H. inversion H; subst t' b. cbn [elements] in E1. rewrite <- E1. cbn. rewrite Ek. split; auto.
    + apply bind_ok in H as (o2 & H2 & H).
      assert (E2: elements o2 = elements l1 ++ x1 :: elements r1).
      { destruct (negb (isE r1) && negb (is_red r1) && negb (is_red (left r1))); [apply el_mrr in H2; exact H2 | inversion H2; reflexivity]. }
      assert (R2: exists x2, rootk o2 = Some x2 /\ (x2 = x1 \/ cmp x2 x1 = Lt)).
      { destruct (negb (isE r1) && negb (is_red r1) && negb (is_red (left r1))).
        - destruct o2 as [|c2 l2 x2 r2]; [destruct (el_mrr _ _ H2); cbn in E2; destruct (elements l1); discriminate|].
          exists x2. split; auto. destruct (root_mrr _ _ x2 H2 eq_refl) as [Hr|Hin]; [cbn in Hr; inversion Hr; auto|].
          right. cbn [left] in Hin. destruct (sorted_app _ _ _ Hs1) as (_ & _ & Fl1 & _). rewrite Forall_forall in Fl1. auto.
        - inversion H2; subst o2. exists x1. auto. }
      destruct R2 as (x2' & Rx2 & Hx2).
      destruct o2 as [|c2 l2 x2 r2]; [discriminate|]. cbn in Rx2. inversion Rx2; subst x2'; clear Rx2.
      cbn [elements] in E2. cbn [cmpk right] in H.
      assert (Hs2: sorted (elements l2 ++ x2 :: elements r2)) by (rewrite E2; exact Hs1).
      pose proof (cmp_ge_root k x1 x2 Hge1 Hx2) as Hge2.
      destruct (sorted_app _ _ _ Hs2) as (_ & Sr2 & Fl2 & _).
      pose proof (below_gt k x2 _ Fl2 Hge2) as Hbelow.
      assert (Eall: elements o = elements l2 ++ x2 :: elements r2) by (rewrite <- E1; cbn [elements]; rewrite <- E2; reflexivity).
      destruct (cmp k x2) eqn:Hc2; [ | exfalso; apply Hge2; reflexivity | ].
      * (* equal: the in-order successor takes this node's place *)
        destruct (tmin r2) as [m|] eqn:Etm; [|discriminate].
        apply bind_ok in H as (r' & Hr' & H). apply bind_ok in H as (o3 & H3 & H). inversion H; subst t' b; clear H.
        destruct (rmin_elems _ _ _ Hr') as (m' & Em). rewrite tmin_hd, Em in Etm. cbn in Etm. inversion Etm; subst m'.
        apply el_fix in H3. rewrite H3. cbn [elements]. rewrite Eall, Em.
        rewrite del_app_ge, mem_app_ge by auto. cbn [del mem]. rewrite Hc2. split; auto.
        apply F2_app_mid; [apply F2_refl | apply merge_eqv].
      * (* greater: continue in the right subtree *)
        apply bind_ok in H as ([r' b'] & Hr & H). apply bind_ok in H as (o3 & H3 & H). apply bind_ok in H as (o4 & H4 & H).
        inversion H; subst t' b; clear H. cbn [fst snd] in *. cbn in H3. inversion H3; subst o3.
        destruct (IH _ _ _ _ Hr Sr2) as (F & Eb).
        apply el_fix in H4. rewrite H4. cbn [elements]. rewrite Eall.
        rewrite del_app_ge, mem_app_ge by auto. cbn [del mem]. rewrite Hc2. split; auto.
        apply F2_app_r; auto.
Qed.

(* ================= insertion ================= *)
Hypothesis repl_eqv : forall x n, cmp n x = Eq -> eqv (repl x n) n.

Lemma el_put_up o o' : put_up o = Ok o' -> elements o' = elements o.
Proof. unfold put_up. intros H. apply bind_ok in H as (o1 & H1 & H).
  assert (elements o1 = elements o) by (destruct (is_red (right o) && negb (is_red (left o))); [apply el_rotl; auto|inversion H1; auto]).
  destruct (is_red (left o1) && is_red (left (left o1))); [apply el_rotr in H; congruence | inversion H; congruence]. Qed.

Lemma ins_app_lt n a A0 B : cmp n a = Lt -> ins n (A0 ++ a :: B) = ins n A0 ++ a :: B.
Proof. intros H. induction A0 as [|z A0 IH]; cbn; [now rewrite H|]. destruct (cmp n z); auto. now rewrite IH. Qed.
Lemma ins_app_ge n a A0 B : Forall (fun z => cmp n z = Gt) A0 -> ins n (A0 ++ a :: B) = A0 ++ ins n (a :: B).
Proof. induction 1 as [|z A0 Hz _ IH]; [reflexivity|]. cbn [app ins]. rewrite Hz. now rewrite IH. Qed.

Theorem put_elems : forall fuel t n t', put fuel t n = Ok t' -> sorted (elements t) ->
  Forall2 eqv (elements t') (ins n (elements t)).
Proof.
  induction fuel as [|f IH]; intros t n t' H Hs; [discriminate|]. destruct t as [|c l x r].
  { cbn in H. inversion H; subst. cbn. constructor; auto using eqv_refl. }
  cbn [put] in H. remember (T c l x r) as o eqn:Eo.
  apply bind_ok in H as (o1 & H1 & H).
  assert (E1: elements o1 = elements o /\ rootk o1 = rootk o).
  { destruct (is_red (left o) && is_red (right o)); [destruct (root_flip _ _ H1) as (A1 & _ & _); split; [apply el_flip; auto|auto] | inversion H1; auto]. }
  destruct E1 as (E1 & R1). destruct o1 as [|c1 l1 x1 r1]; [discriminate|].
  assert (x1 = x) by (rewrite Eo in R1; cbn in R1; congruence). subst x1.
  assert (Hs1: sorted (elements l1 ++ x :: elements r1)) by (cbn [elements] in E1; rewrite E1; exact Hs).
  destruct (sorted_app _ _ _ Hs1) as (Sl & Sr & Fl & Fr). cbn [elements] in E1. rewrite <- E1.
  destruct (cmp n x) eqn:Hc.
  - apply el_put_up in H. rewrite H. cbn [elements].
    rewrite ins_app_ge by (apply (below_gt n x); auto; congruence). cbn [ins]. rewrite Hc.
    apply F2_app_mid; [apply F2_refl | apply repl_eqv; auto].
  - apply bind_ok in H as (l' & Hl & H). apply el_put_up in H. rewrite H. cbn [elements].
    rewrite ins_app_lt by auto. apply Forall2_app; [apply IH; auto | apply F2_refl].
  - apply bind_ok in H as (r' & Hr & H). apply el_put_up in H. rewrite H. cbn [elements].
    rewrite ins_app_ge by (apply (below_gt n x); auto; congruence). cbn [ins]. rewrite Hc.
    apply F2_app_r. apply IH; auto.
Qed.

Ltac use_put IH :=
  match goal with
  | |- context[put ?f ?s ?a] =>
     let Hs := fresh "Hs" in let m := fresh "m" in
     assert (Hs: exists m, valid m s) by (eexists; sv);
     destruct Hs as (m & Hs);
     let t' := fresh "t'" in let He := fresh "He" in let Hp' := fresh "Hp'" in let Hb' := fresh "Hb'" in
     destruct (IH m s a Hs ltac:(cbn [size] in *; lia)) as (t' & He & Hp' & Hb'); rewrite He; clear He
  end.
Ltac finp := eexists; split; [reflexivity|]; split; [sp | first [discriminate | intros _; split; [sv | cbn [left right is_red andb]; first [discriminate | reflexivity | congruence | intros; crush; first [reflexivity|congruence|discriminate] ] ] ] ].

Ltac crushp := crush; repeat (match goal with
   | H: T _ _ _ _ <> E -> _ |- _ => specialize (H ltac:(discriminate))
   | H: E <> E -> _ |- _ => clear H end; crush).

Lemma put_post fuel : forall n t a, valid n t -> size t < fuel ->
  exists t', put fuel t a = Ok t' /\ post n t' /\
    (is_red t = false -> valid n t' /\ (t <> E -> is_red (left t) && is_red (right t) = false -> is_red t' = false)).
Proof.
  induction fuel as [|fuel IH]; intros n t a Hv Hf; [lia|].
  destruct t as [|c l x r]; [cbn [put]; inv Hv; finp|].
  cbn [put]. unfold put_up.
  destruct c; dtree l; dtree r; crush; destruct (cmp a x); crush; try solve [finp].
  all: try use_put IH.
  all: crushp.
  all: try solve [finp].
  all: repeat (split1; crushp); try solve [finp].
Qed.

(* ================= the root call of remove ================= *)
Lemma valid_blacken n t : valid n t -> exists m, valid m (blacken t).
Proof. intros H. destruct H; cbn; [eexists; apply vE | eexists; apply vB; eauto; congruence | eexists; apply vB; eauto]. Qed.
Lemma post_blacken n t : post n t -> exists m, valid m (blacken t).
Proof. intros H. destruct H as [n t Hv| n ll lx lr x r Hl Hr Hc]; [eapply valid_blacken; eauto|]. cbn. eexists. apply vB; eauto. Qed.

Ltac use_rem_lemma :=
  match goal with
  | |- context[rem ?f ?s ?k] =>
     let Hs := fresh "Hs" in let m := fresh "m" in
     assert (Hs: exists m, prek k m s) by (eexists; spre2);
     destruct Hs as (m & Hs);
     let Hbs := fresh "Hbs" in assert (Hbs: bst s) by sbst;
     let t' := fresh "t'" in let b := fresh "b" in let He := fresh "He" in let Hp' := fresh "Hp'" in let Hv' := fresh "Hv'" in let Hb' := fresh "Hb'" in
     destruct (rem_post f m s k Hs Hbs ltac:(cbn [size] in *; lia)) as (t' & b & He & Hp' & Hv' & Hb'); rewrite He; clear He
  end.
Ltac finr := eexists; eexists; split; [reflexivity|]; cbn [blacken]; eexists; sv.

(* black root whose children are both black: the only argument shape the inner lemma does not cover *)
Lemma rem_root_bb fuel n l x r k :
  valid (S n) (T false l x r) -> is_red l = false -> is_red r = false -> bst (T false l x r) -> size (T false l x r) < fuel ->
  exists t' b, rem fuel (T false l x r) k = Ok (t', b) /\ exists m, valid m (blacken t').
Proof.
  intros Hv Hl Hr Hb Hf. destruct fuel as [|fuel]; [lia|]. cbn [rem].
  destruct (cmp k x) eqn:Hc.
  - go2.
    all: repeat (first [rw_cmp | cmp_left | match goal with |- context[cmp ?kk ?y] => destruct (cmp kk y) eqn:? end]; go2).
    all: try (match goal with |- context[tmin ?s] => let m := fresh "m" in let Hm := fresh "Hm" in destruct (tmin_some s eq_refl) as [m Hm]; rewrite Hm end).
    all: try use_rmin rmin_post.
    all: try use_rem_lemma.
    all: crush2; repeat spec_valid.
    all: go2.
    all: try solve [finr].
  - go2.
    all: repeat (first [rw_cmp | cmp_left | match goal with |- context[cmp ?kk ?y] => destruct (cmp kk y) eqn:? end]; go2).
    all: try (match goal with |- context[tmin ?s] => let m := fresh "m" in let Hm := fresh "Hm" in destruct (tmin_some s eq_refl) as [m Hm]; rewrite Hm end).
    all: try use_rmin rmin_post.
    all: try use_rem_lemma.
    all: crush2; repeat spec_valid.
    all: go2.
    all: try solve [finr].
  - go2.
    all: repeat (first [rw_cmp | cmp_left | match goal with |- context[cmp ?kk ?y] => destruct (cmp kk y) eqn:? end]; go2).
    all: try (match goal with |- context[tmin ?s] => let m := fresh "m" in let Hm := fresh "Hm" in destruct (tmin_some s eq_refl) as [m Hm]; rewrite Hm end).
    all: try use_rmin rmin_post.
    all: try use_rem_lemma.
    all: crush2; repeat spec_valid.
    all: go2.
    all: try solve [finr].
Qed.

(* ================= invariants of whole operations ================= *)
Lemma allk_forall P t : allk P t <-> Forall P (elements t).
Proof. induction t as [|c l IHl x r IHr]; cbn; [split; auto|]. rewrite Forall_app, Forall_cons_iff, IHl, IHr. tauto. Qed.
Lemma bst_of_sorted t : sorted (elements t) -> bst t.
Proof. induction t as [|c l IHl x r IHr]; cbn [elements bst]; [auto|]. intros H.
  destruct (sorted_app _ _ _ H) as (Sl & Sr & Fl & Fr). split; [auto|]. split; [auto|]. split; [apply allk_forall; auto|].
  apply allk_forall. eapply Forall_impl; [|exact Fr]. intros z Hz. cbn in Hz. apply cmp_gt_lt. exact Hz. Qed.

Lemma el_blacken t : elements (blacken t) = elements t. Proof. destruct t; reflexivity. Qed.

Lemma sorted_forall2 L L' : Forall2 eqv L' L -> sorted L -> sorted L'.
Proof. induction 1 as [|a b L' L Hab HF IH]; [auto|]. cbn. intros [Hb Hs]. split; [|auto].
  clear IH Hs. induction HF as [|a' b' L' L Ha'b' HF' IH2]; [constructor|]. inversion Hb; subst. constructor; [|auto].
  destruct Hab as (_ & Hl & _). destruct Ha'b' as (_ & _ & Hr). rewrite Hl, Hr. auto. Qed.

Lemma del_in k L z : In z (del k L) -> In z L.
Proof. induction L as [|a L IH]; cbn; [auto|]. destruct (cmp k a); cbn; intuition. Qed.
Lemma sorted_del k L : sorted L -> sorted (del k L).
Proof. induction L as [|a L IH]; cbn; [auto|]. intros [Ha Hs]. destruct (cmp k a); cbn; auto. split; auto.
  rewrite Forall_forall in *. intros z Hz. apply Ha. eapply del_in; eauto. Qed.
Lemma ins_in n L z : In z (ins n L) -> z = n \/ In z L.
Proof. induction L as [|a L IH]; cbn; [intuition|]. destruct (cmp n a); cbn; intuition. Qed.
Lemma sorted_ins n L : sorted L -> sorted (ins n L).
Proof. induction L as [|a L IH]; cbn; [auto|]. intros [Ha Hs]. destruct (cmp n a) eqn:E0; cbn.
  - split; auto. eapply Forall_impl; [|exact Ha]. intros z Hz. cbn in Hz. rewrite (cmp_eq_l _ _ z E0). exact Hz.
  - split; [|split; auto]. constructor; auto. eapply Forall_impl; [|exact Ha]. intros z Hz. cbn in Hz. eapply cmp_trans; eauto.
  - split; auto. rewrite Forall_forall in *. intros z Hz. apply ins_in in Hz as [->|Hz]; auto. apply cmp_gt_lt. exact E0. Qed.


(* C02: a valid left-leaning red-black search tree with a black root *)
Definition llrb (t:tree) : Prop := is_red t = false /\ (exists n, valid n t) /\ sorted (elements t).

Theorem tput_ok t n : llrb t -> exists t', tput t n = Ok t' /\ llrb t' /\ Forall2 eqv (elements t') (ins n (elements t)).
Proof. intros (Hb & (m & Hv) & Hs). unfold tput.
  destruct (put_post (S (size t)) m t n Hv ltac:(lia)) as (t' & He & Hp & Hbk). rewrite He. cbn [bind].
  pose proof (put_elems _ _ _ _ He Hs) as F. eexists. split; [reflexivity|]. rewrite !el_blacken. split; [|exact F].
  split; [destruct t'; reflexivity|]. split; [eapply post_blacken; eauto|]. rewrite el_blacken.
  apply (sorted_forall2 (ins n (elements t))); [exact F | apply sorted_ins; exact Hs]. Qed.

Theorem tremove_ok t k : llrb t -> exists t' b, tremove t k = Ok (t', b) /\ llrb t' /\
  Forall2 eqv (elements t') (del k (elements t)) /\ b = mem k (elements t).
Proof. intros (Hb & (m & Hv) & Hs). unfold tremove.
  assert (Hrem: exists t' b, rem (S (size t)) t k = Ok (t', b) /\ exists m', valid m' (blacken t')).
  { destruct t as [|c l x r]; [exists E, false; split; [reflexivity|exists 0; constructor]|].
    destruct c; [discriminate|]. pose proof (bst_of_sorted _ Hs) as Hbst. inversion Hv; subst.
    destruct (is_red l) eqn:El.
    - destruct (rem_post (S (size (T false l x r))) (S n) (T false l x r) k) as (t' & b & He & Hp & _); auto.
      + apply qB; auto. congruence.
      + exists t', b. split; auto. eapply post_blacken; eauto.
    - assert (Er: is_red r = false) by (destruct (is_red r) eqn:Er; auto; specialize (H5 eq_refl); congruence).
      apply (rem_root_bb (S (size (T false l x r))) n); auto. }
  destruct Hrem as (t' & b & He & (m' & Hv')). rewrite He. cbn [bind fst snd].
  destruct (rem_elems _ _ _ _ _ He Hs) as (F & Eb). exists (blacken t'), b. split; [reflexivity|]. rewrite !el_blacken.
  split; [|split; auto]. split; [destruct t'; reflexivity|]. split; [eauto|]. rewrite el_blacken.
  apply (sorted_forall2 (del k (elements t))); [exact F | apply sorted_del; exact Hs]. Qed.

(* ================= exact contents after insertion ================= *)
(* sorted-list insertion in which an equal element a is overwritten by (repl a n): the stored key object stays *)
Fixpoint insr (n:A) (l:list A) : list A :=
  match l with [] => [n] | a :: r => match cmp n a with Lt => n :: a :: r | Eq => repl a n :: r | Gt => a :: insr n r end end.
Lemma insr_app_lt n a A0 B : cmp n a = Lt -> insr n (A0 ++ a :: B) = insr n A0 ++ a :: B.
Proof. intros H. induction A0 as [|z A0 IH]; cbn; [now rewrite H|]. destruct (cmp n z); auto. now rewrite IH. Qed.
Lemma insr_app_ge n a A0 B : Forall (fun z => cmp n z = Gt) A0 -> insr n (A0 ++ a :: B) = A0 ++ insr n (a :: B).
Proof. induction 1 as [|z A0 Hz _ IH]; [reflexivity|]. cbn [app insr]. rewrite Hz. now rewrite IH. Qed.
Theorem put_elems_exact : forall fuel t n t', put fuel t n = Ok t' -> sorted (elements t) -> elements t' = insr n (elements t).
Proof.
  induction fuel as [|f IH]; intros t n t' H Hs; [discriminate|]. destruct t as [|c l x r].
  { cbn in H. inversion H; subst. reflexivity. }
  cbn [TreeModel.put] in H. remember (T c l x r) as o eqn:Eo.
  apply bind_ok in H as (o1 & H1 & H).
  assert (E1: elements o1 = elements o /\ rootk o1 = rootk o).
  { destruct (is_red (left o) && is_red (right o)); [destruct (root_flip _ _ H1) as (A1 & _ & _); split; [apply el_flip; auto|auto] | inversion H1; auto]. }
  destruct E1 as (E1 & R1). destruct o1 as [|c1 l1 x1 r1]; [discriminate|].
  assert (x1 = x) by (rewrite Eo in R1; cbn in R1; congruence). subst x1.
  assert (Hs1: sorted (elements l1 ++ x :: elements r1)) by (cbn [TreeModel.elements] in E1; rewrite E1; exact Hs).
  destruct (sorted_app _ _ _ Hs1) as (Sl & Sr & Fl & Fr). cbn [TreeModel.elements] in E1. rewrite <- E1.
  destruct (cmp n x) eqn:Hc.
  - apply el_put_up in H. rewrite H. cbn [TreeModel.elements].
    rewrite insr_app_ge by (apply (below_gt n x); auto; congruence). cbn [insr]. rewrite Hc. reflexivity.
  - apply bind_ok in H as (l' & Hl & H). apply el_put_up in H. rewrite H. cbn [TreeModel.elements].
    rewrite insr_app_lt by auto. f_equal. apply IH; auto.
  - apply bind_ok in H as (r' & Hr & H). apply el_put_up in H. rewrite H. cbn [TreeModel.elements].
    rewrite insr_app_ge by (apply (below_gt n x); auto; congruence). cbn [insr]. rewrite Hc. do 2 f_equal. apply IH; auto.
Qed.
Lemma tput_elems_exact t n t' : tput t n = Ok t' -> sorted (elements t) -> elements t' = insr n (elements t).
Proof. unfold TreeModel.tput. intros H Hs. apply bind_ok in H as (t1 & H1 & H). inversion H; subst. rewrite el_blacken. eapply put_elems_exact; eauto. Qed.

(* ================= lookups ================= *)
Fixpoint lfind (k:A) (l:list A) : option A :=
  match l with [] => None | a :: r => match cmp k a with Lt => None | Eq => Some a | Gt => lfind k r end end.
Lemma lfind_app_lt k a A0 B : cmp k a = Lt -> lfind k (A0 ++ a :: B) = lfind k A0.
Proof. intros H. induction A0 as [|z A0 IH]; cbn; [now rewrite H|]. destruct (cmp k z); auto. Qed.
Lemma lfind_app_ge k a A0 B : Forall (fun z => cmp k z = Gt) A0 -> lfind k (A0 ++ a :: B) = lfind k (a :: B).
Proof. induction 1 as [|z A0 Hz _ IH]; [reflexivity|]. cbn [app lfind]. now rewrite Hz. Qed.
Theorem find_spec t k : sorted (elements t) -> find cmp t k = lfind k (elements t).
Proof. induction t as [|c l IHl x r IHr]; [reflexivity|]. cbn [TreeModel.elements TreeModel.find]. intros Hs.
  destruct (sorted_app _ _ _ Hs) as (Sl & Sr & Fl & Fr). destruct (cmp k x) eqn:Hc.
  - rewrite lfind_app_ge by (apply (below_gt k x); auto; congruence). cbn [lfind]. rewrite Hc. reflexivity.
  - rewrite lfind_app_lt by auto. auto.
  - rewrite lfind_app_ge by (apply (below_gt k x); auto; congruence). cbn [lfind]. rewrite Hc. auto.
Qed.
Lemma mem_lfind k l : mem k l = match lfind k l with Some _ => true | None => false end.
Proof. induction l as [|a l IH]; [reflexivity|]. cbn. destruct (cmp k a); auto. Qed.
Lemma tmax_last t : tmax t = hd_error (rev (elements t)).
Proof. induction t as [|c l IHl x r IHr]; [reflexivity|]. cbn [TreeModel.tmax TreeModel.elements]. rewrite rev_app_distr. cbn [rev]. rewrite <- app_assoc. cbn [app].
  destruct r as [|cr rl rx rr]; [reflexivity|]. rewrite IHr. destruct (rev (elements (T cr rl rx rr))) eqn:E0; [|reflexivity].
  apply (f_equal (@length A)) in E0. rewrite rev_length in E0. cbn in E0. rewrite app_length in E0. cbn in E0. lia. Qed.

(* ================= the library's self-check agrees with the invariant ================= *)
Lemma check_red_valid n t : valid n t -> check_red t = false.
Proof. induction 1 as [|n l x r Hl IHl Hr IHr El Er|n l x r Hl IHl Hr IHr Hc]; cbn [TreeModel.check_red]; [reflexivity| |]; rewrite ?IHl, ?IHr, ?El, ?Er; reflexivity. Qed.
Lemma check_black_valid n t : valid n t -> check_black t = Some (S n).
Proof. induction 1 as [|n l x r Hl IHl Hr IHr El Er|n l x r Hl IHl Hr IHr Hc]; cbn [TreeModel.check_black]; [reflexivity| |]; rewrite IHl, IHr, Nat.eqb_refl; reflexivity. Qed.
Lemma check_llrb_valid n t : valid n t -> check_llrb t = false.
Proof. induction 1 as [|n l x r Hl IHl Hr IHr El Er|n l x r Hl IHl Hr IHr Hc]; cbn [TreeModel.check_llrb]; [reflexivity| |]; rewrite IHl, IHr.
  - rewrite Er. reflexivity.
  - destruct (is_red r) eqn:Er; [rewrite (Hc eq_refl)|]; reflexivity. Qed.
Theorem check_model_ok n t : is_red t = false -> valid n t -> check_model t = 0.
Proof. intros Hb Hv. unfold TreeModel.check_model. rewrite Hb, (check_red_valid _ _ Hv), (check_black_valid _ _ Hv), (check_llrb_valid _ _ Hv). reflexivity. Qed.
(* and conversely: a tree the self-check accepts is a valid red-black structure with a black root *)
Lemma check_complete t : forall p, check_red t = false -> check_black t = Some p -> check_llrb t = false ->
  exists n, valid n t /\ p = S n.
Proof. induction t as [|c l IHl x r IHr]; intros p Hr Hb Hl; cbn [TreeModel.check_red TreeModel.check_black TreeModel.check_llrb] in *.
  - inversion Hb; subst. exists 0. split; [constructor|reflexivity].
  - apply orb_false_iff in Hr as [Hr Hrl]. apply orb_false_iff in Hr as [Hr0 Hrr].
    apply orb_false_iff in Hl as [Hl Hll]. apply orb_false_iff in Hl as [Hl0 Hlr].
    destruct (check_black r) as [pr|] eqn:Br; [|discriminate]. destruct (check_black l) as [pl|] eqn:Bl; [|discriminate].
    destruct (Nat.eqb pr pl) eqn:Epl; [|discriminate]. apply Nat.eqb_eq in Epl. subst pl.
    destruct (IHl pr Hrl eq_refl Hll) as (nl & Vl & El). destruct (IHr pr Hrr eq_refl Hlr) as (nr & Vr & Er).
    assert (nl = nr) by lia. subst nl. destruct c.
    + cbn in Hr0. apply orb_false_iff in Hr0 as [R1 R2]. inversion Hb; subst. exists nr. split; [apply vR; auto|reflexivity].
    + inversion Hb; subst. exists (S nr). split; [|reflexivity]. apply vB; auto. intros Rr. rewrite Rr in Hl0. cbn in Hl0.
      destruct (is_red l); [reflexivity|discriminate].
Qed.
Theorem check_model_complete t : check_model t = 0 -> is_red t = false /\ exists n, valid n t.
Proof. unfold TreeModel.check_model. destruct (is_red t) eqn:Hb; [discriminate|]. destruct (check_red t) eqn:Hr; [discriminate|].
  destruct (check_black t) as [p|] eqn:Hk; [|discriminate]. destruct (check_llrb t) eqn:Hl; [discriminate|]. intros _.
  destruct (check_complete t p Hr Hk Hl) as (n & Hv & _). split; [reflexivity|]. exists n. exact Hv. Qed.

(* ================= logarithmic lookups ================= *)
Lemma valid_size n t : valid n t -> 2 ^ n <= size t + 1.
Proof. induction 1 as [|n l x r Hl IHl Hr IHr El Er|n l x r Hl IHl Hr IHr Hc]; cbn [TreeModel.size]; [cbn; lia|lia|].
  rewrite Nat.pow_succ_r'. lia. Qed.
Lemma find_cost_valid n t k : valid n t -> find_cost cmp t k <= 2 * n + (if is_red t then 1 else 0).
Proof. induction 1 as [|n l x r Hl IHl Hr IHr El Er|n l x r Hl IHl Hr IHr Hc]; cbn [TreeModel.find_cost TreeModel.is_red]; [lia| |].
  - rewrite El in IHl. rewrite Er in IHr. destruct (cmp k x); lia.
  - destruct (is_red l), (is_red r), (cmp k x); lia. Qed.
(* at most 2*log2(n+1) comparisons, stated without logarithms: 2^cost <= (n+1)^2 *)
Theorem find_cost_log t k : is_red t = false -> (exists n, valid n t) -> 2 ^ (find_cost cmp t k) <= (size t + 1) * (size t + 1).
Proof. intros Hb (n & Hv). pose proof (find_cost_valid n t k Hv) as Hc. rewrite Hb in Hc. pose proof (valid_size n t Hv) as Hs.
  assert (2 ^ (find_cost cmp t k) <= 2 ^ (2 * n)) by (apply Nat.pow_le_mono_r; lia).
  replace (2 ^ (2 * n)) with (2 ^ n * 2 ^ n) in H by (rewrite <- Nat.pow_add_r; f_equal; lia).
  eapply Nat.le_trans; [exact H|]. apply Nat.mul_le_mono; exact Hs. Qed.
Lemma size_elements t : size t = length (elements t).
Proof. induction t as [|c l IHl x r IHr]; [reflexivity|]. cbn [TreeModel.size TreeModel.elements]. rewrite app_length. cbn [length]. lia. Qed.
End Tree.
Print Assumptions tremove_ok.
Print Assumptions tput_ok.
