(* put_obj(): the translated recursion (Gen/TreeOps.v; comparator answers kc, explicit fuel) refines the model's put with the
   node ids as payload: cmp n x = sign of kc x, repl x n = x (an existing key keeps its node object).  Weakest-precondition
   style: the rules below are applied to whatever text the translator produced. *)
From Coq Require Import PArith ZArith Bool List Lia.
From QV.Base Require Import Res.
From QV.Tree Require Import TreeModel TreeLlrb TreeHeap TreeHeapProofs.
From QV.Gen Require Import TreeOps.
Import ListNotations.

Local Notation tr := (tree positive).

Definition wp {A} (m : M A) (h : heap) (Q : A -> heap -> Prop) : Prop := exists a h', m h = Ok (a, h') /\ Q a h'.
Lemma wp_ret {A} (a : A) h (Q : _ -> heap -> Prop) : Q a h -> wp (ret a) h Q.
Proof. intros H. exists a, h. split; [reflexivity | exact H]. Qed.
Lemma wp_bnd {A B} (m : M A) (f : A -> M B) h (Q : _ -> heap -> Prop) : wp m h (fun a h' => wp (f a) h' Q) -> wp (bnd m f) h Q.
Proof. intros (a & h1 & E1 & b & h2 & E2 & HQ). exists b, h2. split; [unfold bnd; rewrite E1; exact E2 | exact HQ]. Qed.
Lemma wp_mono {A} (m : M A) h (Q Q' : A -> heap -> Prop) : wp m h Q -> (forall a h', Q a h' -> Q' a h') -> wp m h Q'.
Proof. intros (a & h1 & E & HQ) H. exists a, h1. auto. Qed.
Lemma wp_ld {A} (g : cell -> A) i c h (Q : _ -> heap -> Prop) : h i = Some c -> Q (g c) h -> wp (ld g (Some i)) h Q.
Proof. intros Hc HQ. exists (g c), h. split; [unfold ld; rewrite Hc; reflexivity | exact HQ]. Qed.
Lemma wp_st g i c h (Q : _ -> heap -> Prop) : h i = Some c -> Q tt (upd h i (g c)) -> wp (st g (Some i)) h Q.
Proof. intros Hc HQ. exists tt, (upd h i (g c)). split; [unfold st; rewrite Hc; reflexivity | exact HQ]. Qed.
Lemma wp_cmp_key kc i c h (Q : _ -> heap -> Prop) : h i = Some c -> Q (kc i) h -> wp (cmp_key kc (Some i)) h Q.
Proof. intros Hc HQ. exists (kc i), h. split; [unfold cmp_key; rewrite Hc; reflexivity | exact HQ]. Qed.
Lemma wp_is_red h p (t : tr) (Q : _ -> heap -> Prop) : rep h p t -> Q (is_red t) h -> wp (c_is_red p) h Q.
Proof. intros H HQ. exists (is_red t), h. split; [apply c_is_red_ok; exact H | exact HQ]. Qed.
Lemma wp_refines m g h p (t t' : tr) (Q : _ -> heap -> Prop) : refines m g -> rep h p t -> NoDup (elements t) -> g t = Ok t' ->
  (forall p' h', rep h' p' t' -> frame (elements t) h h' -> Q p' h') -> wp (m p) h Q.
Proof. intros R H Hnd Hg HQ. destruct (R h p t t' H Hnd Hg) as (p' & h' & E & Hr & Hf). exists p', h'. split; [exact E | apply HQ; assumption]. Qed.
Lemma wp_flip h p (t t' : tr) (Q : _ -> heap -> Prop) : rep h p t -> NoDup (elements t) -> flip t = Ok t' ->
  (forall h', rep h' p t' -> frame (elements t) h h' -> Q p h') -> wp (c_flip_color p) h Q.
Proof. intros H Hnd Hg HQ. destruct (c_flip_same_ptr h p t t' H Hnd Hg) as (h' & E & Hr & Hf). exists p, h'. split; [exact E | apply HQ; assumption]. Qed.

Lemma nd_split (l1 : list positive) a l2 : NoDup (l1 ++ a :: l2) ->
  ~ In a l1 /\ ~ In a l2 /\ NoDup l1 /\ NoDup l2 /\ (forall j, In j l1 -> ~ In j l2).
Proof.
  intros H. pose proof (NoDup_remove_2 _ _ _ H) as Ha. apply nd_app in H as (H1 & H2 & H3). apply nd_cons in H2 as (H4 & H5).
  repeat split; auto.
  - intro X. apply Ha. apply in_or_app. auto.
  - intros j Hj X. apply (H3 j Hj). right. exact X.
Qed.
Lemma nd_join (l1 : list positive) a l2 : NoDup l1 -> NoDup l2 -> ~ In a l1 -> ~ In a l2 -> (forall j, In j l1 -> ~ In j l2) ->
  NoDup (l1 ++ a :: l2).
Proof.
  induction l1 as [|b l1 IH]; cbn; intros H1 H2 Ha1 Ha2 Hd; [constructor; assumption|].
  inversion H1 as [|? ? Hb Hr]; subst. constructor.
  - intro X. apply in_app_or in X as [X|[X|X]]; [exact (Hb X) | apply Ha1; left; symmetry; exact X | exact (Hd b (or_introl eq_refl) X)].
  - apply IH; auto.
    all: try (intros j Hj; apply Hd; right; exact Hj).
    all: try (intro X; apply Ha1; right; exact X).
Qed.

Definition zcmp (z : Z) : comparison := if Z.eqb z 0 then Eq else if Z.ltb z 0 then Lt else Gt.

Section Put.
Variable kc : positive -> Z.
Local Notation mput := (put (fun (_ x : positive) => zcmp (kc x)) (fun (x _ : positive) => x)).

(* the way up: the two optional rotations (the text after the three-way branch), for any continuation *)
Ltac wb := apply wp_bnd.
Ltac wr := repeat (cbv beta iota zeta; apply wp_ret).
Ltac wld H := eapply wp_ld; [exact H | cbn [c_red c_left c_right]].

Theorem c_put_refines : forall fuel h p n (t t' : tr),
  rep h p t -> h n = Some (mkcell true None None) -> NoDup (n :: elements t) -> mput fuel t n = Ok t' ->
  wp (c_put_obj kc fuel p (Some n)) h (fun p' h' =>
     rep h' p' t' /\ frame (n :: elements t) h h' /\ NoDup (elements t') /\ (forall j, In j (elements t') -> j = n \/ In j (elements t))).
Proof.
  induction fuel as [|fuel IH]; intros h p n t t' H Hn Hnd Hg; [discriminate|].
  cbn [put] in Hg. destruct t as [|c l i r].
  - (* empty place: the new node *)
    inversion Hg; subst t'; clear Hg. cbn [rep] in H. subst p. cbn [c_put_obj is_null]. apply wp_ret.
    split; [cbn [rep]; split; [reflexivity|]; exists None, None; repeat split; auto|].
    split; [intros j _; reflexivity|]. split; [repeat constructor; intros []|]. intros j [->|[]]. left. reflexivity.
  - set (o := T c l i r) in *. apply bind_ok in Hg as (o1 & Ho1 & Hg).
    assert (Hndo : NoDup (elements o)) by (apply nd_cons in Hnd; apply Hnd).
    assert (Hno : ~ In n (elements o)) by (apply nd_cons in Hnd; apply Hnd).
    pose proof H as H0. open H0. cbn [c_put_obj is_null]. wb.
    (* phase 1: split a 4-node on the way down *)
    apply wp_mono with (Q := fun (_ : unit) h1 => rep h1 (Some i) o1 /\ frame (elements o) h h1).
    { wb. wb. wb. wld Hc. apply (wp_is_red h pl l); [exact Hl|]. cbv beta.
      change (is_red l) with (is_red (left o)) in *. destruct (is_red (left o)) eqn:El.
      - wb. wld Hc. apply (wp_is_red h pr r); [exact Hr|]. cbv beta.
        change (is_red r) with (is_red (right o)). cbn [andb] in Ho1. destruct (is_red (right o)) eqn:Er.
        + wb. apply (wp_flip h (Some i) o o1 _ H Hndo Ho1). intros h1 Hr1 Hf1. wr. split; assumption.
        + inversion Ho1; subst o1. wr. split; [exact H | intros j _; reflexivity].
      - apply wp_ret. cbn [andb] in Ho1. inversion Ho1; subst o1. wr. split; [exact H | intros j _; reflexivity]. }
    intros _ h1 (Hr1 & Hf1). cbv beta.
    assert (Hel1 : elements o1 = elements o).
    { destruct (is_red (left o) && is_red (right o)); [eapply el_flip; exact Ho1 | inversion Ho1; reflexivity]. }
    destruct o1 as [|c1 l1 x r1]; [discriminate|].
    assert (Hx : x = i /\ True).
    { split; [|exact I]. cbn [rep] in Hr1. destruct Hr1 as (E & _). inversion E. reflexivity. }
    destruct Hx as (-> & _).
    assert (Hn1 : h1 n = Some (mkcell true None None)) by (rewrite Hf1; [exact Hn | exact Hno]).
    assert (Hnd1 : NoDup (elements (T c1 l1 i r1))) by (rewrite Hel1; exact Hndo).
    cbn [elements] in Hnd1. destruct (nd_split _ _ _ Hnd1) as (Hil & Hir & Hndl & Hndr & Hdisj).
    assert (Hnl : ~ In n (elements l1)) by (intro X; apply Hno; rewrite <- Hel1; cbn [elements]; apply in_or_app; left; exact X).
    assert (Hnr : ~ In n (elements r1)) by (intro X; apply Hno; rewrite <- Hel1; cbn [elements]; apply in_or_app; right; right; exact X).
    assert (Hni : n <> i) by (intros ->; apply Hno; rewrite <- Hel1; cbn [elements]; apply in_or_app; right; left; reflexivity).
    pose proof Hr1 as Hr1'. cbn [rep] in Hr1'. destruct Hr1' as (_ & pl1 & pr1 & Hc1 & Hl1 & Hrr1).
    wb. eapply wp_cmp_key; [exact Hc1|]. cbv beta zeta. wb.
    (* phase 2: the three-way branch; afterwards the node i holds o2 with put_up o2 = Ok t' *)
    apply wp_mono with (Q := fun (_ : unit) h2 => exists o2, rep h2 (Some i) o2 /\ put_up o2 = Ok t' /\ frame (n :: elements o) h1 h2 /\
        NoDup (elements o2) /\ (forall j, In j (elements o2) -> j = n \/ In j (elements o))).
    { unfold zcmp in Hg. destruct (Z.eqb (kc i) 0) eqn:Ez.
      - apply wp_ret. exists (T c1 l1 i r1). split; [exact Hr1|]. split; [exact Hg|]. split; [intros j _; reflexivity|].
        split; [cbn [elements]; exact Hnd1|]. intros j Hj. right. rewrite <- Hel1. exact Hj.
      - wb. destruct (Z.ltb (kc i) 0) eqn:Elt.
        + apply bind_ok in Hg as (l' & Hl' & Hg).
          wb. wb. wld Hc1. cbv beta.
          assert (Hndn : NoDup (n :: elements l1)) by (constructor; assumption).
          eapply wp_mono; [apply (IH h1 pl1 n l1 l' Hl1 Hn1 Hndn Hl')|]. cbv beta.
          intros pl' h2 (Hrl' & Hf2 & Hndl' & Hsub). wb.
          assert (Hh2i : h2 i = Some (mkcell c1 pl1 pr1)).
          { rewrite Hf2; [exact Hc1|]. intros [X|X]; [apply Hni; exact X | apply Hil; exact X]. }
          eapply wp_st; [exact Hh2i|]. cbn [c_red c_left c_right]. wr.
          assert (Hil' : ~ In i (elements l')) by (intro X; destruct (Hsub _ X) as [E|X']; [apply Hni; symmetry; exact E | apply Hil; exact X']).
          exists (T c1 l' i r1). split.
          { cbn [rep]. split; [reflexivity|]. exists pl', pr1. split; [apply upd_same|]. split.
            - apply rep_upd; [exact Hil' | exact Hrl'].
            - apply rep_upd; [exact Hir|]. apply (rep_ext h1); [|exact Hrr1]. intros j Hj. apply Hf2.
              intros [X|X]; [subst j; apply Hnr; exact Hj | exact (Hdisj j X Hj)]. }
          split; [exact Hg|]. split.
          { intros j Hj. rewrite upd_other.
            - apply Hf2. intros [X|X]; apply Hj; [left; exact X | right; rewrite <- Hel1; cbn [elements]; apply in_or_app; left; exact X].
            - intros ->. apply Hj. right. rewrite <- Hel1. cbn [elements]. apply in_or_app. right. left. reflexivity. }
          split.
          { cbn [elements]. apply nd_join; try assumption.
            - intros j Hj X. destruct (Hsub _ Hj) as [E|X']; [subst j; apply Hnr; exact X | exact (Hdisj j X' X)]. }
          intros j Hj. cbn [elements] in Hj. apply in_app_or in Hj as [Hj|[Hj|Hj]].
          * destruct (Hsub _ Hj) as [E|X']; [left; exact E | right; rewrite <- Hel1; cbn [elements]; apply in_or_app; left; exact X'].
          * right. subst j. rewrite <- Hel1. cbn [elements]. apply in_or_app. right. left. reflexivity.
          * right. rewrite <- Hel1. cbn [elements]. apply in_or_app. right. right. exact Hj.
        + apply bind_ok in Hg as (r' & Hr' & Hg).
          wb. wb. wld Hc1. cbv beta.
          assert (Hndn : NoDup (n :: elements r1)) by (constructor; assumption).
          eapply wp_mono; [apply (IH h1 pr1 n r1 r' Hrr1 Hn1 Hndn Hr')|]. cbv beta.
          intros pr' h2 (Hrr' & Hf2 & Hndr' & Hsub). wb.
          assert (Hh2i : h2 i = Some (mkcell c1 pl1 pr1)).
          { rewrite Hf2; [exact Hc1|]. intros [X|X]; [apply Hni; exact X | apply Hir; exact X]. }
          eapply wp_st; [exact Hh2i|]. cbn [c_red c_left c_right]. wr.
          assert (Hir' : ~ In i (elements r')) by (intro X; destruct (Hsub _ X) as [E|X']; [apply Hni; symmetry; exact E | apply Hir; exact X']).
          exists (T c1 l1 i r'). split.
          { cbn [rep]. split; [reflexivity|]. exists pl1, pr'. split; [apply upd_same|]. split.
            - apply rep_upd; [exact Hil|]. apply (rep_ext h1); [|exact Hl1]. intros j Hj. apply Hf2.
              intros [X|X]; [subst j; apply Hnl; exact Hj | exact (Hdisj j Hj X)].
            - apply rep_upd; [exact Hir' | exact Hrr']. }
          split; [exact Hg|]. split.
          { intros j Hj. rewrite upd_other.
            - apply Hf2. intros [X|X]; apply Hj; [left; exact X | right; rewrite <- Hel1; cbn [elements]; apply in_or_app; right; right; exact X].
            - intros ->. apply Hj. right. rewrite <- Hel1. cbn [elements]. apply in_or_app. right. left. reflexivity. }
          split.
          { cbn [elements]. apply nd_join; try assumption.
            - intros j Hj X. destruct (Hsub _ X) as [E|X']; [subst j; apply Hnl; exact Hj | exact (Hdisj j Hj X')]. }
          intros j Hj. cbn [elements] in Hj. apply in_app_or in Hj as [Hj|[Hj|Hj]].
          * right. rewrite <- Hel1. cbn [elements]. apply in_or_app. left. exact Hj.
          * right. subst j. rewrite <- Hel1. cbn [elements]. apply in_or_app. right. left. reflexivity.
          * destruct (Hsub _ Hj) as [E|X']; [left; exact E | right; rewrite <- Hel1; cbn [elements]; apply in_or_app; right; right; exact X']. }
    intros _ h2 (o2 & Hr2 & Hup & Hf2 & Hnd2 & Hsub2). cbv beta.
    (* phase 3: the way up *)
    unfold put_up in Hup. apply bind_ok in Hup as (o3 & Ho3 & Hup).
    assert (Hne2 : o2 <> E) by (intros ->; cbn [rep] in Hr2; discriminate).
    destruct o2 as [|c2 l2 x2 r2]; [congruence|]. pose proof Hr2 as Hr2'. cbn [rep] in Hr2'. destruct Hr2' as (E2 & pl0 & pr0 & Hc0 & Hl0 & Hr0).
    inversion E2; subst x2; clear E2.
    wb. apply wp_mono with (Q := fun p3 h3 => rep h3 p3 o3 /\ frame (elements (T c2 l2 i r2)) h2 h3).
    { wb. wb. wb. wld Hc0. apply (wp_is_red h2 pr0 r2); [exact Hr0|]. cbv beta. cbn [right left] in Ho3.
      destruct (is_red r2) eqn:Er.
      - wb. wb. wld Hc0. apply (wp_is_red h2 pl0 l2); [exact Hl0|]. wr. cbn [andb] in Ho3.
        destruct (negb (is_red l2)) eqn:El.
        + wb. apply (wp_refines _ _ h2 (Some i) _ o3 _ c_rotl_refines Hr2 Hnd2 Ho3). intros p3 h3 Hr3 Hf3. wr. split; assumption.
        + inversion Ho3; subst o3. wr. split; [exact Hr2 | intros j _; reflexivity].
      - apply wp_ret. cbn [andb] in Ho3. inversion Ho3; subst o3. wr. split; [exact Hr2 | intros j _; reflexivity]. }
    intros p3 h3 (Hr3 & Hf3). cbv beta.
    assert (Hel3 : elements o3 = elements (T c2 l2 i r2)).
    { destruct (is_red (right (T c2 l2 i r2)) && negb (is_red (left (T c2 l2 i r2)))); [eapply el_rotl; exact Ho3 | inversion Ho3; reflexivity]. }
    assert (Hnd3 : NoDup (elements o3)) by (rewrite Hel3; exact Hnd2).
    destruct o3 as [|c3 l3 x3 r3]; [exfalso; cbn [elements] in Hel3; destruct (elements l2); discriminate Hel3|]. pose proof Hr3 as Hr3'. cbn [rep] in Hr3'. destruct Hr3' as (-> & pl3 & pr3 & Hc3 & Hl3 & Hrr3).
    wb. apply wp_mono with (Q := fun p4 h4 => rep h4 p4 t' /\ frame (elements (T c3 l3 x3 r3)) h3 h4).
    { wb. wb. wb. wld Hc3. apply (wp_is_red h3 pl3 l3); [exact Hl3|]. cbv beta. cbn [left] in Hup.
      destruct (is_red l3) eqn:El.
      - destruct l3 as [|cl3 ll3 lx3 lr3]; [discriminate|]. pose proof Hl3 as Hl3'. cbn [rep] in Hl3'. destruct Hl3' as (-> & pll & plr & Hcl & Hll & Hlr).
        wb. wb. wld Hc3. cbv beta. wld Hcl. apply (wp_is_red h3 pll ll3); [exact Hll|]. cbv beta. cbn [andb left] in Hup.
        destruct (is_red ll3) eqn:Ell.
        + wb. apply (wp_refines _ _ h3 (Some x3) _ t' _ c_rotr_refines Hr3 Hnd3 Hup). intros p4 h4 Hr4 Hf4. wr. split; assumption.
        + inversion Hup; subst t'. wr. split; [exact Hr3 | intros j _; reflexivity].
      - apply wp_ret. cbn [andb] in Hup. inversion Hup; subst t'. wr. split; [exact Hr3 | intros j _; reflexivity]. }
    intros p4 h4 (Hr4 & Hf4). cbv beta. apply wp_ret.
    assert (Hel4 : elements t' = elements (T c3 l3 x3 r3)).
    { destruct (is_red (left (T c3 l3 x3 r3)) && is_red (left (left (T c3 l3 x3 r3)))); [eapply el_rotr; exact Hup | inversion Hup; reflexivity]. }
    split; [exact Hr4|]. split.
    { intros j Hj. assert (Hj2 : ~ In j (elements (T c2 l2 i r2))).
      { intro X. destruct (Hsub2 _ X) as [E|X']; apply Hj; [left; symmetry; exact E | right; exact X']. }
      rewrite Hf4; [|rewrite Hel3; exact Hj2]. rewrite Hf3; [|exact Hj2]. rewrite Hf2; [|exact Hj]. apply Hf1. intro X. apply Hj. right. exact X. }
    split; [rewrite Hel4, Hel3; exact Hnd2|]. intros j Hj. rewrite Hel4, Hel3 in Hj. exact (Hsub2 _ Hj).
Qed.
End Put.

(* the same without the weakest-precondition wrapper *)
Theorem c_put_refines_ex : forall (kc : positive -> Z) fuel h p n (t t' : tr),
  rep h p t -> h n = Some (mkcell true None None) -> NoDup (n :: elements t) ->
  put (fun (_ x : positive) => zcmp (kc x)) (fun (x _ : positive) => x) fuel t n = Ok t' ->
  exists p' h', c_put_obj kc fuel p (Some n) h = Ok (p', h') /\ rep h' p' t' /\ frame (n :: elements t) h h' /\ NoDup (elements t').
Proof.
  intros kc fuel h p n t t' H Hn Hnd Hg. destruct (c_put_refines kc fuel h p n t t' H Hn Hnd Hg) as (p' & h' & E & Hr & Hf & Hnd' & _).
  exists p', h'. auto.
Qed.
