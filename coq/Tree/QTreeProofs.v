(* The concrete tree table refines the sorted association list (C01) and keeps the LLRB invariant (C02). *)
From Coq Require Import NArith PArith List Bool Lia Arith.
From QV.Base Require Import Res.
From QV.Tree Require Import TreeModel TreeLlrb QTree TreeSpec.
Import ListNotations.

Section QP.
Variable kcmp : list N -> list N -> comparison.
Hypothesis kcmp_trans : forall a b c, kcmp a b = Lt -> kcmp b c = Lt -> kcmp a c = Lt.
Hypothesis kcmp_antisym : forall a b, kcmp a b = CompOpp (kcmp b a).
Hypothesis kcmp_eq_l : forall a b c, kcmp a b = Eq -> kcmp a c = kcmp b c.

Local Notation ncmp := (ncmp kcmp).
Local Notation tbl := (tbl).
Lemma ncmp_trans a b c : ncmp a b = Lt -> ncmp b c = Lt -> ncmp a c = Lt.
Proof. unfold QTree.ncmp. apply kcmp_trans. Qed.
Lemma ncmp_antisym a b : ncmp a b = CompOpp (ncmp b a).
Proof. unfold QTree.ncmp. apply kcmp_antisym. Qed.
Lemma ncmp_eq_l a b c : ncmp a b = Eq -> ncmp a c = ncmp b c.
Proof. unfold QTree.ncmp. apply kcmp_eq_l. Qed.

Definition kv (x : node) : list N * list N := (nkey x, nval x).
Definition abs (s : tbl) : smap := map kv (elements (root s)).
Definition Inv (s : tbl) : Prop := llrb node ncmp (root s) /\ num s = N.of_nat (length (elements (root s))).

(* node-level list functions are the specification's functions on (key,value) lists *)
Lemma map_insr n l : map kv (insr node ncmp nrepl n l) = sput kcmp (nkey n) (nval n) (map kv l).
Proof. induction l as [|a l IH]; [reflexivity|]. cbn [insr map sput]. unfold kv at 2. cbn [fst snd].
  unfold QTree.ncmp at 1. destruct (kcmp (nkey n) (nkey a)); cbn [map]; try rewrite IH; reflexivity. Qed.
Lemma map_del k l : map kv (del node ncmp (probe k) l) = sdel kcmp k (map kv l).
Proof. induction l as [|a l IH]; [reflexivity|]. cbn [del map sdel]. unfold kv at 2.
  unfold QTree.ncmp at 1. cbn [probe nkey]. destruct (kcmp k (nkey a)); cbn [map]; try rewrite IH; reflexivity. Qed.
Lemma map_lfind k l : option_map nval (lfind node ncmp (probe k) l) = sget kcmp k (map kv l).
Proof. induction l as [|a l IH]; [reflexivity|]. cbn [lfind map sget]. unfold kv at 1.
  unfold QTree.ncmp at 1. cbn [probe nkey]. destruct (kcmp k (nkey a)); cbn [option_map]; auto. Qed.
Lemma lfind_key_only n k l : nkey n = k -> lfind node ncmp n l = lfind node ncmp (probe k) l.
Proof. intros <-. induction l as [|a l IH]; [reflexivity|]. cbn [lfind]. unfold QTree.ncmp at 1 3. cbn [probe nkey]. destruct (kcmp (nkey n) (nkey a)); auto. Qed.
Lemma insr_length n l : length (insr node ncmp nrepl n l) = match lfind node ncmp n l with Some _ => length l | None => S (length l) end.
Proof. induction l as [|a l IH]; [reflexivity|]. cbn [insr lfind]. destruct (ncmp n a); cbn [length]; [reflexivity|reflexivity|].
  rewrite IH. destruct (lfind node ncmp n l); reflexivity. Qed.
Lemma del_length k l : length (del node ncmp k l) = if mem node ncmp k l then pred (length l) else length l.
Proof. induction l as [|a l IH]; [reflexivity|]. cbn [del mem]. destruct (ncmp k a); cbn [length]; [reflexivity|reflexivity|].
  rewrite IH. destruct (mem node ncmp k l) eqn:M; [|reflexivity]. destruct l; [discriminate|reflexivity]. Qed.
Lemma eqv_kv l l' : Forall2 (eqv node ncmp (list N * list N) kv) l l' -> map kv l = map kv l'.
Proof. induction 1 as [|a b l l' (Hk & _) _ IH]; [reflexivity|]. cbn [map]. rewrite Hk, IH. reflexivity. Qed.
Lemma merge_eqv_kv x m : eqv node ncmp (list N * list N) kv (nmerge x m) m.
Proof. repeat split. Qed.
Lemma repl_eqv_val x n : ncmp n x = Eq -> eqv node ncmp (list N) nval (nrepl x n) n.
Proof. intros H. split; [reflexivity|]. split; intros c; unfold QTree.ncmp in *; cbn [nrepl nkey].
  - symmetry. apply kcmp_eq_l. exact H.
  - rewrite (kcmp_antisym (nkey c) (nkey x)), (kcmp_antisym (nkey c) (nkey n)). f_equal. symmetry. apply kcmp_eq_l. exact H. Qed.

Lemma Inv_init : Inv (init).
Proof. split; [|reflexivity]. split; [reflexivity|]. split; [exists 0; constructor|exact I]. Qed.

Lemma sget_smem k m : smem kcmp k m = match sget kcmp k m with Some _ => true | None => false end.
Proof. reflexivity. Qed.

(* ---- the map operations, one by one ---- *)
Theorem put_refines s k v : Inv s -> k <> [] ->
  exists s', qput kcmp s k v = Ok (s', true) /\ Inv s' /\ abs s' = sput kcmp k v (abs s).
Proof. intros (Hl & Hn) Hk. unfold qput. destruct k as [|k0 k]; [congruence|]. set (key := k0 :: k) in *.
  set (n := mkNode (nextid s) key v).
  destruct (tput_ok node ncmp nrepl (list N) nval ncmp_trans ncmp_antisym ncmp_eq_l repl_eqv_val (root s) n Hl) as (t' & Ht & Hl' & _).
  rewrite Ht. cbn [bind]. eexists. split; [reflexivity|].
  pose proof Hl as (_ & _ & Hs).
  pose proof (tput_elems_exact node ncmp nrepl ncmp_trans ncmp_eq_l _ _ _ Ht Hs) as He.
  split; [split; [exact Hl'|]|].
  - cbn [root num]. rewrite He, insr_length. rewrite (find_spec node ncmp ncmp_trans ncmp_eq_l _ n Hs).
    destruct (lfind node ncmp n (elements (root s))); rewrite Hn; lia.
  - unfold abs. cbn [root]. rewrite He, map_insr. reflexivity.
Qed.
Theorem put_empty_key s v : qput kcmp s [] v = Ok (s, false).
Proof. reflexivity. Qed.
Theorem get_refines s k : Inv s -> k <> [] -> qget kcmp s k = sget kcmp k (abs s).
Proof. intros ((_ & _ & Hs) & _) Hk. unfold qget. destruct k as [|k0 k]; [congruence|].
  rewrite (find_spec node ncmp ncmp_trans ncmp_eq_l _ _ Hs). unfold abs. rewrite <- map_lfind.
  destruct (lfind node ncmp (probe (k0 :: k)) (elements (root s))); reflexivity. Qed.
Theorem remove_refines s k : Inv s ->
  exists s', qremove kcmp s k = Ok (s', smem kcmp k (abs s)) /\ Inv s' /\ abs s' = sdel kcmp k (abs s).
Proof. intros (Hl & Hn). unfold qremove.
  destruct (tremove_ok node ncmp nmerge _ kv ncmp_trans ncmp_antisym ncmp_eq_l merge_eqv_kv (root s) (probe k) Hl) as (t' & b & Ht & Hl' & F & Hb).
  rewrite Ht. cbn [bind fst snd]. pose proof (eqv_kv _ _ F) as Hm. rewrite map_del in Hm.
  assert (Eb : b = smem kcmp k (abs s)).
  { rewrite Hb, mem_lfind. unfold smem, abs. rewrite <- map_lfind. destruct (lfind node ncmp (probe k) (elements (root s))); reflexivity. }
  rewrite <- Eb. eexists. split; [reflexivity|]. split; [split; [exact Hl'|]|exact Hm].
  cbn [root num]. apply (f_equal (@length _)) in Hm. rewrite !map_length in Hm.
  assert (Hd := del_length (probe k) (elements (root s))). rewrite <- (map_length kv (del _ _ _ _)), map_del, <- Hm in Hd.
  rewrite Hd, <- Hb. destruct b; [|exact Hn]. rewrite Hn. destruct (elements (root s)); [rewrite Hb in *; discriminate|cbn [length pred]; lia].
Qed.
Theorem clear_refines s : Inv (qclear s) /\ abs (qclear s) = [].
Proof. split; [|reflexivity]. split; [|reflexivity]. split; [reflexivity|]. split; [exists 0; constructor|exact I]. Qed.
Theorem size_refines s : Inv s -> qsize s = N.of_nat (length (abs s)).
Proof. intros (_ & Hn). unfold qsize, abs. rewrite map_length. exact Hn. Qed.
Theorem min_refines s : qmin s = smin (abs s).
Proof. unfold qmin, abs. rewrite tmin_hd. destruct (elements (root s)); reflexivity. Qed.
Theorem max_refines s : qmax s = smax (abs s).
Proof. unfold qmax, smax, abs. rewrite tmax_last, <- map_rev. destruct (rev (elements (root s))); reflexivity. Qed.

(* ---- C02 facts for every state satisfying the invariant ---- *)
Theorem inv_check s : Inv s -> check_model (root s) = 0.
Proof. intros ((Hb & (n & Hv) & _) & _). eapply check_model_ok; eauto. Qed.
Theorem inv_lookup_cost s k : Inv s -> 2 ^ (find_cost ncmp (root s) (probe k)) <= (N.to_nat (num s) + 1) * (N.to_nat (num s) + 1).
Proof. intros ((Hb & Hv & _) & Hn). rewrite Hn, Nat2N.id, <- size_elements. apply find_cost_log; auto. Qed.

(* ---- histories of map operations ---- *)
Definition is_map_op (o : op) : bool := match o with Walk _ | Nearest _ _ => false | _ => true end.
Definition obs_ok (ob : obs) (sb : sobs) : Prop :=
  match ob, sb with
  | OBool b, SBool b' => b = b' | OVal v, SVal v' => v = v' | ONum n, SNum n' => n = n'
  | OKey k, SKey k' => k = k' | OUnit, SUnit => True
  | OWalk l e, SWalk l' e' => l = l' /\ e = e'
  | ONear r l e, SNear r' c e' sp => r = r' /\ (sp = true -> length l = c /\ e = e')
  | _, _ => False
  end.

Lemma step_map_refines s d o : Inv s -> is_map_op o = true ->
  exists s' ob d', step kcmp s o = Ok (s', ob) /\ Inv s' /\
    fst (sstep kcmp (abs s, d) o) = (abs s', d') /\ obs_ok ob (snd (sstep kcmp (abs s, d) o)).
Proof. intros HI Hm. destruct o as [k v|k|k| | | | |n|k n]; try discriminate; cbn [step sstep].
  - destruct k as [|k0 k].
    + rewrite put_empty_key. cbn [bind fst snd]. exists s, (OBool false), d. repeat split; auto; apply HI.
    + destruct (put_refines s (k0 :: k) v HI ltac:(discriminate)) as (s' & E & HI' & Ha). rewrite E. cbn [bind fst snd].
      exists s', (OBool true), d. rewrite Ha. repeat split; auto; apply HI'.
  - exists s, (OVal (qget kcmp s k)), d. split; [reflexivity|]. split; [exact HI|]. split; [reflexivity|]. cbn [snd obs_ok].
    destruct k as [|k0 k]; [reflexivity|]. apply get_refines; [exact HI|discriminate].
  - destruct (remove_refines s k HI) as (s' & E & HI' & Ha). rewrite E. cbn [bind fst snd].
    exists s', (OBool (smem kcmp k (abs s))), d. rewrite Ha. repeat split; auto; apply HI'.
  - exists (qclear s), OUnit, false. destruct (clear_refines s) as (HI' & Ha). rewrite Ha. repeat split; auto; apply HI'.
  - exists s, (ONum (qsize s)), d. repeat split; try apply HI. cbn. apply size_refines. exact HI.
  - exists s, (OKey (qmin s)), d. repeat split; try apply HI. cbn. apply min_refines.
  - exists s, (OKey (qmax s)), d. repeat split; try apply HI. cbn. apply max_refines.
Qed.

Theorem run_map_refines : forall os s d, Inv s -> forallb is_map_op os = true ->
  exists s' obs d', run kcmp s os = Ok (s', obs) /\ Inv s' /\
    fst (srun kcmp (abs s, d) os) = (abs s', d') /\ Forall2 obs_ok obs (snd (srun kcmp (abs s, d) os)).
Proof. induction os as [|o os IH]; intros s d HI Hm.
  - exists s, [], d. repeat split; auto; try apply HI. constructor.
  - cbn [forallb] in Hm. apply andb_prop in Hm as [Ho Hos].
    destruct (step_map_refines s d o HI Ho) as (s1 & ob & d1 & E1 & HI1 & Ha1 & Hob).
    destruct (IH s1 d1 HI1 Hos) as (s2 & obs & d2 & E2 & HI2 & Ha2 & Hobs).
    cbn [run srun]. rewrite E1. cbn [bind fst snd]. rewrite E2. cbn [bind fst snd].
    destruct (sstep kcmp (abs s, d) o) as [st1 sb] eqn:Es. cbn [fst snd] in Ha1, Hob. subst st1.
    destruct (srun kcmp (abs s1, d1) os) as [st2 sbs] eqn:Er. cbn [fst snd] in *.
    exists s2, (ob :: obs), d2. split; [reflexivity|]. split; [exact HI2|]. split; [exact Ha2|]. constructor; assumption.
Qed.
End QP.

(* the default ordering satisfies the comparator laws, and identifies only identical byte strings *)
Lemma byte_cmp_refl a : byte_cmp a a = Eq.
Proof. induction a as [|x a IH]; [reflexivity|]. cbn. rewrite N.compare_refl. exact IH. Qed.
Lemma byte_cmp_eq a : forall b, byte_cmp a b = Eq -> a = b.
Proof. induction a as [|x a IH]; intros [|y b]; cbn; try discriminate; auto.
  destruct (N.compare x y) eqn:E; try discriminate. apply N.compare_eq in E. subst. intros H. f_equal. auto. Qed.
Lemma byte_cmp_antisym a : forall b, byte_cmp a b = CompOpp (byte_cmp b a).
Proof. induction a as [|x a IH]; intros [|y b]; cbn; auto. rewrite (N.compare_antisym y x).
  destruct (N.compare y x); cbn; auto. Qed.
Lemma byte_cmp_trans a : forall b c, byte_cmp a b = Lt -> byte_cmp b c = Lt -> byte_cmp a c = Lt.
Proof. induction a as [|x a IH]; intros [|y b] [|z c]; cbn; try discriminate; auto.
  destruct (N.compare x y) eqn:E1; try discriminate; destruct (N.compare y z) eqn:E2; try discriminate; intros H1 H2.
  - apply N.compare_eq in E1, E2. subst. rewrite N.compare_refl. eauto.
  - apply N.compare_eq in E1. subst. rewrite E2. reflexivity.
  - apply N.compare_eq in E2. subst. rewrite E1. reflexivity.
  - rewrite N.compare_lt_iff in *. assert (E : (x ?= z)%N = Lt) by (apply N.compare_lt_iff; lia). rewrite E. reflexivity.
Qed.
Lemma byte_cmp_eq_l a b c : byte_cmp a b = Eq -> byte_cmp a c = byte_cmp b c.
Proof. intros H. apply byte_cmp_eq in H. subst. reflexivity. Qed.
