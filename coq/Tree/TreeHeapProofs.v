(* The machine-translated C helpers of qtreetbl.c (Gen/TreeOps.v, regenerated from clang's AST on every run) refine the
   hand-written functional LLRB model (TreeModel.v) on which the theorems of C01/C02 rest.

   rep h p t : the heap h holds, at pointer p, a tree of node objects whose shape, colours and node identities are t
   (payload of the model = id of the node object).  For every helper f with model g:
       rep h p t,  node ids of t pairwise distinct,  g t = Ok t'
       ->  c_f p h = Ok (p', h'),  rep h' p' t',  and h' = h outside the nodes of t.
   The proofs are symbolic executions of the generated text (tactic `run`): they do not depend on how the C statements
   are arranged, only on what they do, so a behaviour-preserving rewrite of the C code keeps them, and a change of
   behaviour (a colour taken from the wrong node, a link stored in the wrong field, a missing store) breaks them. *)
From Coq Require Import PArith Bool List Lia.
From QV.Base Require Import Res.
From QV.Tree Require Import TreeModel TreeHeap.
From QV.Gen Require Import TreeOps.
Import ListNotations.

Local Notation tr := (tree positive).

Fixpoint rep (h : heap) (p : ptr) (t : tr) : Prop :=
  match t with
  | E => p = None
  | T c l i r => p = Some i /\ exists pl pr, h i = Some (mkcell c pl pr) /\ rep h pl l /\ rep h pr r
  end.
Definition frame (S : list positive) (h h' : heap) : Prop := forall j, ~ In j S -> h' j = h j.

Lemma upd_same h i c : upd h i c i = Some c.
Proof. unfold upd. now rewrite Pos.eqb_refl. Qed.
Lemma upd_other h i c j : j <> i -> upd h i c j = h j.
Proof. unfold upd. intros H. apply Pos.eqb_neq in H. now rewrite H. Qed.

Lemma rep_ext h h' p t : (forall j, In j (elements t) -> h' j = h j) -> rep h p t -> rep h' p t.
Proof.
  revert p. induction t as [|c l IHl i r IHr]; intros p Hf; cbn [rep]; [auto|].
  intros (-> & pl & pr & Hi & Hl & Hr). split; [reflexivity|]. exists pl, pr.
  split; [rewrite Hf; [exact Hi | cbn; apply in_or_app; right; left; reflexivity]|].
  split; [apply IHl | apply IHr]; auto; intros j Hj; apply Hf; cbn; apply in_or_app; [left | right; right]; exact Hj.
Qed.
Lemma rep_upd h p t i c : ~ In i (elements t) -> rep h p t -> rep (upd h i c) p t.
Proof. intros Hn. apply rep_ext. intros j Hj. apply upd_other. intros ->. auto. Qed.

(* ---- automation *)
(* the facts of a NoDup list written as l1 ++ a :: l2 ++ b :: ... *)
Lemma nd_app (l1 l2 : list positive) : NoDup (l1 ++ l2) -> NoDup l1 /\ NoDup l2 /\ (forall j, In j l1 -> ~ In j l2).
Proof.
  induction l1 as [|a l1 IH]; cbn; intros H; [repeat split; auto using NoDup_nil|].
  inversion H as [|? ? Ha Hr]; subst. destruct (IH Hr) as (H1 & H2 & H3). repeat split; auto.
  - constructor; auto. intro X. apply Ha. apply in_or_app. auto.
  - intros j [->|Hj]; [intro X; apply Ha; apply in_or_app; auto | auto].
Qed.
Lemma nd_cons (a : positive) l : NoDup (a :: l) -> ~ In a l /\ NoDup l.
Proof. intros H. inversion H; auto. Qed.
Ltac nd := repeat match goal with
  | H : NoDup (_ ++ _) |- _ => apply nd_app in H; destruct H as (? & ? & ?)
  | H : NoDup (_ :: _) |- _ => apply nd_cons in H; destruct H as (? & ?) end.
(* membership in a list written l1 ++ a :: l2 ++ ... : scan the disjunction once *)
Ltac ins := repeat first [rewrite in_app_iff | progress cbn [In]];
  solve [ repeat first [ left; solve [reflexivity | assumption] | right ]; solve [reflexivity | assumption] ].
Ltac contra := first
  [ match goal with H : ~ In _ _ |- _ => solve [apply H; ins] end
  | match goal with H : forall j, In j _ -> ~ In j _ |- _ =>
      match goal with v : positive |- _ => solve [apply (H v); ins] end end ].
Ltac notin := let X := fresh in intro X; contra.
Ltac neq := assumption.
(* every disequality between two node ids that follows from the NoDup facts, once *)
Ltac alldiff := repeat match goal with a : positive, b : positive |- _ =>
    tryif constr_eq a b then fail else
    lazymatch goal with _ : a <> b |- _ => fail | _ => idtac end;
    assert (a <> b) by (let X := fresh in intro X; subst; contra) end.
Ltac look := repeat first
  [ rewrite upd_same
  | rewrite upd_other by neq
  | match goal with H : ?h ?i = Some _ |- context [?h ?i] => rewrite H end ].
Ltac run := repeat (look; cbv beta iota zeta delta [bnd ret ld st ld_red ld_left ld_right st_red st_left st_right c_red c_left c_right is_null negb fst snd]).
Ltac reps := cbn [rep]; repeat first
  [ assumption | reflexivity
  | apply rep_upd; [notin|]
  | match goal with |- _ /\ _ => split end
  | match goal with |- exists _, _ => eexists end
  | match goal with |- _ _ = Some _ => look; reflexivity end ].
Ltac frm := let j := fresh "j" in let Hj := fresh "Hj" in intros j Hj;
  repeat (rewrite upd_other; [| let X := fresh in intro X; subst; apply Hj; cbn [elements]; rewrite <- ?app_assoc, <- ?app_comm_cons; ins]); reflexivity.
(* open a node of the represented tree *)
Ltac open H := let pl := fresh "pl" in let pr := fresh "pr" in let Hc := fresh "Hc" in let Hl := fresh "Hl" in let Hr := fresh "Hr" in
  cbn [rep] in H; destruct H as (-> & pl & pr & Hc & Hl & Hr).
Ltac leaf H := cbn [rep] in H; subst.
Ltac norm H := cbn [elements] in H; rewrite <- ?app_assoc, <- ?app_comm_cons in H; cbn [app] in H.
Ltac finish := do 2 eexists; split; [run; reflexivity | split; [reps | frm]].

Definition refines (m : ptr -> M ptr) (g : tr -> res tr) : Prop :=
  forall h p t t', rep h p t -> NoDup (elements t) -> g t = Ok t' ->
  exists p' h', m p h = Ok (p', h') /\ rep h' p' t' /\ frame (elements t) h h'.

Lemma c_is_red_ok h p t : rep h p t -> c_is_red p h = Ok (is_red t, h).
Proof. destruct t as [|c l i r]; intros H; [leaf H; reflexivity|]. open H. unfold c_is_red. run. destruct c; reflexivity. Qed.

Lemma c_flip_refines : refines c_flip_color flip.
Proof.
  intros h p t t' H Hnd Hg. destruct t as [|c [|cl ll li lr] i [|cr rl ri rr]]; try discriminate Hg.
  cbn in Hg. inversion Hg; subst t'; clear Hg. open H. open Hl. open Hr. norm Hnd. nd. alldiff.
  unfold c_flip_color. finish.
Qed.
(* flip_color hands back the pointer it was given (its callers ignore the result and go on with their own) *)
Lemma c_flip_same_ptr h p t t' : rep h p t -> NoDup (elements t) -> flip t = Ok t' ->
  exists h', c_flip_color p h = Ok (p, h') /\ rep h' p t' /\ frame (elements t) h h'.
Proof.
  intros H Hnd Hg. destruct t as [|c [|cl ll li lr] i [|cr rl ri rr]]; try discriminate Hg.
  cbn in Hg. inversion Hg; subst t'; clear Hg. open H. open Hl. open Hr. norm Hnd. nd. alldiff.
  unfold c_flip_color. eexists. split; [run; reflexivity | split; [reps | frm]].
Qed.

Lemma c_rotl_refines : refines c_rotate_left rotl.
Proof.
  intros h p t t' H Hnd Hg. destruct t as [|c l i [|cr rl ri rr]]; try discriminate Hg.
  cbn in Hg. inversion Hg; subst t'; clear Hg. open H. open Hr. norm Hnd. nd. alldiff.
  unfold c_rotate_left. finish.
Qed.
Lemma c_rotr_refines : refines c_rotate_right rotr.
Proof.
  intros h p t t' H Hnd Hg. destruct t as [|c [|cl ll li lr] i r]; try discriminate Hg.
  cbn in Hg. inversion Hg; subst t'; clear Hg. open H. open Hl. norm Hnd. nd. alldiff.
  unfold c_rotate_right. finish.
Qed.

(* composite helpers: case analysis down to the nodes the code looks at, then symbolic execution of the generated text,
   callee bodies included *)
Ltac openall H := cbn [rep] in H;
  repeat match goal with X : _ /\ _ |- _ => destruct X | X : exists _, _ |- _ => destruct X end; subst.
Ltac settle H Hnd Hg := cbn in Hg; try discriminate Hg; inversion Hg; subst; clear Hg; openall H; norm Hnd; nd; alldiff;
  unfold c_move_red_left, c_move_red_right, c_fix, c_flip_color, c_rotate_left, c_rotate_right, c_is_red; finish.

(* find_min / find_max: the loops walk the left / right spine and hand back the node holding the model's tmin / tmax;
   fuel = number of nodes suffices, the heap is not changed *)
Lemma c_find_min_loop_ok fuel : forall t h p, t <> E -> rep h p t -> size t <= fuel ->
  c_find_min_loop1 fuel p h = Ok (tmin t, h).
Proof.
  induction fuel as [|fuel IH]; intros t h p Hne H Hs; destruct t as [|c l i r]; try congruence; [cbn in Hs; lia|].
  open H. cbn [c_find_min_loop1]. destruct l as [|cl ll li lr].
  - leaf Hl. run. reflexivity.
  - pose proof Hl as Hl'. open Hl'. run. cbn [tmin]. change (match ll with E => Some li | T _ _ _ _ => tmin ll end) with (tmin (T cl ll li lr)).
    apply IH; [discriminate | exact Hl | cbn [size] in *; lia].
Qed.
Lemma c_find_min_ok h p t : rep h p t -> c_find_min (size t) p h = Ok (tmin t, h).
Proof.
  destruct t as [|c l i r]; intros H; [leaf H; reflexivity|]. pose proof H as H'. open H'. unfold c_find_min. cbn [is_null].
  assert (Hne : T c l i r <> E) by discriminate. unfold bnd. rewrite (c_find_min_loop_ok _ _ _ _ Hne H (le_n _)). reflexivity.
Qed.
Lemma c_find_max_loop_ok fuel : forall t h p, t <> E -> rep h p t -> size t <= fuel ->
  c_find_max_loop1 fuel p h = Ok (tmax t, h).
Proof.
  induction fuel as [|fuel IH]; intros t h p Hne H Hs; destruct t as [|c l i r]; try congruence; [cbn in Hs; lia|].
  open H. cbn [c_find_max_loop1]. destruct r as [|cr rl ri rr].
  - leaf Hr. run. reflexivity.
  - pose proof Hr as Hr'. open Hr'. run. cbn [tmax]. change (match rr with E => Some ri | T _ _ _ _ => tmax rr end) with (tmax (T cr rl ri rr)).
    apply IH; [discriminate | exact Hr | cbn [size] in *; lia].
Qed.
Lemma c_find_max_ok h p t : rep h p t -> c_find_max (size t) p h = Ok (tmax t, h).
Proof.
  destruct t as [|c l i r]; intros H; [leaf H; reflexivity|]. pose proof H as H'. open H'. unfold c_find_max. cbn [is_null].
  assert (Hne : T c l i r <> E) by discriminate. unfold bnd. rewrite (c_find_max_loop_ok _ _ _ _ Hne H (le_n _)). reflexivity.
Qed.
