(* The ideal sorted map the tree table is compared with: a strictly sorted association list. *)
From Coq Require Import NArith List Bool.
From QV.Tree Require Import QTree.
Import ListNotations.
Local Open Scope N_scope.

Section Spec.
Variable kcmp : list N -> list N -> comparison.
Definition smap := list (list N * list N).

Fixpoint sput (k v : list N) (m : smap) : smap :=
  match m with
  | [] => [(k, v)]
  | (k', v') :: r => match kcmp k k' with
                     | Lt => (k, v) :: m
                     | Eq => (k', v) :: r          (* the stored key object stays, the value is replaced *)
                     | Gt => (k', v') :: sput k v r
                     end
  end.
Fixpoint sget (k : list N) (m : smap) : option (list N) :=
  match m with
  | [] => None
  | (k', v') :: r => match kcmp k k' with Lt => None | Eq => Some v' | Gt => sget k r end
  end.
Fixpoint sdel (k : list N) (m : smap) : smap :=
  match m with
  | [] => []
  | (k', v') :: r => match kcmp k k' with Lt => m | Eq => r | Gt => (k', v') :: sdel k r end
  end.
Definition smem (k : list N) (m : smap) : bool := match sget k m with Some _ => true | None => false end.
Definition smin (m : smap) : option (list N) := match m with [] => None | (k, _) :: _ => Some k end.
Definition smax (m : smap) : option (list N) := match rev m with [] => None | (k, _) :: _ => Some k end.
(* nearest: the equal key, else the greatest smaller key, else the smallest key *)
Fixpoint sfloor (k : list N) (m : smap) (best : option (list N * list N)) : option (list N * list N) :=
  match m with
  | [] => best
  | (k', v') :: r => match kcmp k k' with Lt => best | Eq => Some (k', v') | Gt => sfloor k r (Some (k', v')) end
  end.
Definition snearest (k : list N) (m : smap) : option (list N * list N) :=
  match sfloor k m None with Some e => Some e | None => hd_error m end.

(* what the specification says about one operation.  For the continuation after a nearest-key search only the set of
   entries visited is specified (their number, and that they are all entries once the walk has ended), and only when no
   walk has been left unfinished: the flag `dirty` of the specification state records an unfinished walk. *)
Inductive sobs :=
| SBool (b : bool) | SVal (v : option (list N)) | SNum (n : N) | SKey (k : option (list N)) | SUnit
| SWalk (l : smap) (ended : bool)
| SNear (r : option (list N * list N)) (count : nat) (ended : bool) (specified : bool).

Definition sst := (smap * bool)%type.
Definition sinit : sst := ([], false).
(* effect of n getnext calls on the "unfinished walk" flag *)
Definition walked (m : smap) (n : nat) (dirty : bool) : bool :=
  match n with O => dirty | _ => if Nat.ltb (length m) n then false else true end.

Definition sstep (st : sst) (o : op) : sst * sobs :=
  let (m, d) := st in
  match o with
  | Put k v => match k with [] => (st, SBool false) | _ => ((sput k v m, d), SBool true) end
  | Get k => (st, SVal (match k with [] => None | _ => sget k m end))
  | Remove k => ((sdel k m, d), SBool (smem k m))
  | Clear => (([], false), SUnit)
  | Size => (st, SNum (N.of_nat (length m)))
  | FindMin => (st, SKey (smin m))
  | FindMax => (st, SKey (smax m))
  | Walk n => ((m, match m with [] => d | _ => walked m n d end), SWalk (firstn n m) (Nat.ltb (length m) n))
  | Nearest k n => match k with
                   | [] => (st, SNear None 0 true true)
                   | _ => match snearest k m with
                          | None => (st, SNear None 0 true true)
                          | Some e => ((m, walked m n d), SNear (Some e) (Nat.min n (length m)) (Nat.ltb (length m) n) (negb d))
                          end
                   end
  end.
Fixpoint srun (st : sst) (os : list op) : sst * list sobs :=
  match os with
  | [] => (st, [])
  | o :: r => let (st1, ob) := sstep st o in let (st2, obs) := srun st1 r in (st2, ob :: obs)
  end.
End Spec.
