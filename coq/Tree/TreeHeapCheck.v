(* node_check_red() and node_check_llrb(), two of the three recursive checkers behind qtreetbl_check(): the translated text
   (Gen/TreeOps.v) computes the model's check_red / check_llrb on every heap representing a tree, and changes nothing.
   (node_check_black() hands its path length back through an int*: outside the translator's subset, it stays transcribed.) *)
From Coq Require Import PArith ZArith Bool List Lia.
From QV.Base Require Import Res.
From QV.Tree Require Import TreeModel TreeHeap TreeHeapProofs TreeHeapPut.
From QV.Gen Require Import TreeOps.
Import ListNotations.

Local Notation tr := (tree positive).
Ltac wb := apply wp_bnd.
Ltac wr := repeat (cbv beta iota zeta; apply wp_ret).
Ltac wld H := eapply wp_ld; [exact H | cbn [c_red c_left c_right]].
Ltac fin HQ := wr; cbv beta iota; cbn [check_red check_llrb is_red] in HQ;
  repeat match goal with E : _ = true |- _ => rewrite E in HQ | E : _ = false |- _ => rewrite E in HQ end;
  cbn [andb orb negb] in HQ; exact HQ.

Lemma c_check_red_ok : forall fuel (t : tr) h p (Q : bool -> heap -> Prop), rep h p t -> size t < fuel ->
  Q (check_red t) h -> wp (c_node_check_red fuel p) h Q.
Proof.
  induction fuel as [|fuel IH]; intros t h p Q H Hs HQ; [lia|]. destruct t as [|c l i r].
  - cbn [rep] in H. subst p. cbn [c_node_check_red is_null]. apply wp_ret. exact HQ.
  - pose proof H as H'. open H'. cbn [size] in Hs. cbn [c_node_check_red is_null]. wb. apply (wp_is_red h (Some i) _ _ H). cbv beta. cbn [is_red].
    assert (Hrec : forall Q' : bool -> heap -> Prop, Q' (check_red r || check_red l) h ->
      wp (bnd (bnd (ld_right (Some i)) (fun t3 => c_node_check_red fuel t3)) (fun t4 => if t4 then ret true
          else bnd (bnd (ld_left (Some i)) (fun t1 => c_node_check_red fuel t1)) (fun t2 => if t2 then ret true else ret false))) h Q').
    { intros Q' HQ'. wb. wb. wld Hc. apply (IH r h pr _ Hr ltac:(lia)). cbv beta. destruct (check_red r) eqn:Er; [fin HQ'|].
      wb. wb. wld Hc. apply (IH l h pl _ Hl ltac:(lia)). cbv beta. destruct (check_red l) eqn:El; fin HQ'. }
    destruct c.
    + wb. wb. wb. wld Hc. apply (wp_is_red h pr r _ Hr). cbv beta. destruct (is_red r) eqn:Er.
      * fin HQ.
      * wb. wld Hc. apply (wp_is_red h pl l _ Hl). cbv beta. destruct (is_red l) eqn:El; [fin HQ|].
        cbv beta iota. apply Hrec. cbn [check_red is_red] in HQ. rewrite Er, El in HQ. cbn [andb orb] in HQ. exact HQ.
    + apply Hrec. cbn [check_red is_red andb orb] in HQ. exact HQ.
Qed.

Lemma c_check_llrb_ok : forall fuel (t : tr) h p (Q : bool -> heap -> Prop), rep h p t -> size t < fuel ->
  Q (check_llrb t) h -> wp (c_node_check_llrb fuel p) h Q.
Proof.
  induction fuel as [|fuel IH]; intros t h p Q H Hs HQ; [lia|]. destruct t as [|c l i r].
  - cbn [rep] in H. subst p. cbn [c_node_check_llrb is_null]. apply wp_ret. exact HQ.
  - pose proof H as H'. open H'. cbn [size] in Hs. cbn [c_node_check_llrb is_null]. wb.
    assert (Hrec : forall Q' : bool -> heap -> Prop, Q' (check_llrb r || check_llrb l) h ->
      wp (bnd (bnd (ld_right (Some i)) (fun t3 => c_node_check_llrb fuel t3)) (fun t4 => if t4 then ret true
          else bnd (bnd (ld_left (Some i)) (fun t1 => c_node_check_llrb fuel t1)) (fun t2 => if t2 then ret true else ret false))) h Q').
    { intros Q' HQ'. wb. wb. wld Hc. apply (IH r h pr _ Hr ltac:(lia)). cbv beta. destruct (check_llrb r) eqn:Er; [fin HQ'|].
      wb. wb. wld Hc. apply (IH l h pl _ Hl ltac:(lia)). cbv beta. destruct (check_llrb l) eqn:El; fin HQ'. }
    wb. wb. wld Hc. apply (wp_is_red h pr r _ Hr). cbv beta. destruct (is_red r) eqn:Er.
    + wb. wb. wld Hc. apply (wp_is_red h pl l _ Hl). cbv beta. apply wp_ret. destruct (is_red l) eqn:El.
      * cbv beta iota. cbn [negb]. cbv iota. apply Hrec. cbn [check_llrb] in HQ. rewrite Er, El in HQ. cbn [andb orb negb] in HQ. exact HQ.
      * fin HQ.
    + apply wp_ret. cbv beta iota. apply Hrec. cbn [check_llrb] in HQ. rewrite Er in HQ. cbn [andb orb] in HQ. exact HQ.
Qed.

Theorem c_checkers_ok : forall (t : tr) h p, rep h p t ->
  c_node_check_red (S (size t)) p h = Ok (check_red t, h) /\ c_node_check_llrb (S (size t)) p h = Ok (check_llrb t, h).
Proof.
  intros t h p H. split.
  - destruct (c_check_red_ok (S (size t)) t h p (fun b h' => b = check_red t /\ h' = h) H (Nat.lt_succ_diag_r _) (conj eq_refl eq_refl)) as (b & h' & E & -> & ->). exact E.
  - destruct (c_check_llrb_ok (S (size t)) t h p (fun b h' => b = check_llrb t /\ h' = h) H (Nat.lt_succ_diag_r _) (conj eq_refl eq_refl)) as (b & h' & E & -> & ->). exact E.
Qed.
