(* remove_min(): the translated recursion (Gen/TreeOps.v, explicit fuel) refines the model's rmin and releases exactly
   the node object of the least key: afterwards that object is not allocated any more, every other node of the tree is
   still there, and nothing outside the tree was touched. *)
From Coq Require Import PArith Bool List Lia.
From QV.Base Require Import Res.
From QV.Tree Require Import TreeModel TreeLlrb TreeHeap TreeHeapProofs TreeHeapMrl TreeHeapFix.
From QV.Gen Require Import TreeOps.
Import ListNotations.

Local Notation tr := (tree positive).

Lemma del_same h i : del h i i = None.
Proof. unfold del. now rewrite Pos.eqb_refl. Qed.
Lemma del_other h i j : j <> i -> del h i j = h j.
Proof. unfold del. intros H. apply Pos.eqb_neq in H. now rewrite H. Qed.
Lemma bnd_ok {A B} (m : M A) (f : A -> M B) h a h' : m h = Ok (a, h') -> bnd m f h = f a h'.
Proof. unfold bnd. now intros ->. Qed.

Lemma nd_split (l1 : list positive) a l2 : NoDup (l1 ++ a :: l2) ->
  ~ In a l1 /\ ~ In a l2 /\ NoDup l1 /\ NoDup l2 /\ (forall j, In j l1 -> ~ In j l2).
Proof.
  intros H. pose proof (NoDup_remove_2 _ _ _ H) as Ha. apply nd_app in H as (H1 & H2 & H3). apply nd_cons in H2 as (H4 & H5).
  repeat split; auto.
  - intro X. apply Ha. apply in_or_app. auto.
  - intros j Hj X. apply (H3 j Hj). right. exact X.
Qed.

Theorem c_rmin_refines : forall fuel h p (t t' : tr), rep h p t -> NoDup (elements t) -> rmin fuel t = Ok t' ->
  exists p' h' m, c_remove_min fuel p h = Ok (p', h') /\ rep h' p' t' /\ elements t = m :: elements t' /\ h' m = None /\
    frame (elements t) h h'.
Proof.
  induction fuel as [|fuel IH]; intros h p t t' H Hnd Hg; [discriminate|].
  destruct t as [|c l i r]; [discriminate|]. cbn [rmin] in Hg.
  destruct l as [|cl ll li lr].
  - (* leaf: the node itself is released *)
    destruct r; [|discriminate]. inversion Hg; subst t'; clear Hg. open H. cbn [rep] in *; subst.
    exists None, (del h i), i. cbn [c_remove_min]. split; [run; unfold free_node; rewrite Hc; reflexivity|].
    split; [reflexivity|]. split; [reflexivity|]. split; [apply del_same|].
    intros j Hj. apply del_other. intros ->. apply Hj. left. reflexivity.
  - set (o := T c (T cl ll li lr) i r) in *.
    apply bind_ok in Hg as (o1 & Ho1 & Hg). apply bind_ok in Hg as (l' & Hl' & Hg). apply bind_ok in Hg as (o2 & Ho2 & Hg).
    (* the condition of the if: evaluated on the heap = evaluated on the tree *)
    cbn [c_remove_min].
    assert (Hleft : forall A (f : bool -> M A), bnd (bnd (ld_left p) (fun t11 => ret (is_null t11))) f h = f false h).
    { intros A f. pose proof H as H'. open H'. open Hl. run. reflexivity. }
    rewrite Hleft. clear Hleft. cbv iota.
    match goal with |- bnd (bnd ?c _) _ _ = _ /\ _ => idtac | _ => idtac end.
    (* first phase: optional move_red_left *)
    assert (Hph1 : exists p1 h1, rep h1 p1 o1 /\ frame (elements o) h h1 /\ elements o1 = elements o /\
       forall A (k : ptr -> M A),
       bnd (bnd (bnd (bnd (bnd (ld_left p) c_is_red) (fun t6 => ret (negb t6)))
                 (fun t7 => if t7 then bnd (bnd (bnd (ld_left p) ld_left) c_is_red) (fun t4 => ret (negb t4)) else ret false))
            (fun t8 => if t8 then bnd (c_move_red_left p) (fun t1 => let obj := t1 in ret obj) else ret p)) k h = k p1 h1).
    { pose proof H as H'. open H'. pose proof Hl as Hl0. open Hl0.
      assert (Hcond : forall A (f : bool -> M A),
         bnd (bnd (bnd (bnd (ld_left (Some i)) c_is_red) (fun t6 => ret (negb t6)))
                 (fun t7 => if t7 then bnd (bnd (bnd (ld_left (Some i)) ld_left) c_is_red) (fun t4 => ret (negb t4)) else ret false)) f h
         = f (negb (is_red (left o)) && negb (is_red (left (left o)))) h).
      { intros A f. unfold o. cbn [left]. unfold c_is_red.
        destruct cl; [run; reflexivity|]. destruct ll as [|[] lll lli llr]; [leaf Hl1 | open Hl1 | open Hl1]; run; reflexivity. }
      remember (negb (is_red (left o)) && negb (is_red (left (left o)))) as b eqn:Eb in *. symmetry in Eb. destruct b.
      - destruct (c_mrl_refines h (Some i) o o1 H Hnd Ho1) as (p1 & h1 & Hm & Hr1 & Hf1).
        exists p1, h1. split; [exact Hr1|]. split; [exact Hf1|]. split; [eapply el_mrl; exact Ho1|].
        intros A k. rewrite (bnd_ok _ k h p1 h1); [reflexivity|]. rewrite Hcond. rewrite (bnd_ok _ _ h p1 h1 Hm). reflexivity.
      - inversion Ho1; subst o1. exists (Some i), h. split; [exact H|]. split; [intros j _; reflexivity|]. split; [reflexivity|].
        intros A k. rewrite (bnd_ok _ k h (Some i) h); [reflexivity|]. rewrite Hcond. reflexivity. }
    destruct Hph1 as (p1 & h1 & Hr1 & Hf1 & Hel1 & Hk1). rewrite Hk1. clear Hk1.
    (* second phase: recursion on the left child, store, fix *)
    destruct o1 as [|c1 l1 i1 r1]; [discriminate|]. cbn [left] in Hl'. cbn [setl] in Ho2. inversion Ho2; subst o2; clear Ho2.
    assert (Hnd1 : NoDup (elements (T c1 l1 i1 r1))) by (rewrite Hel1; exact Hnd).
    cbn [elements] in Hnd1. destruct (nd_split _ _ _ Hnd1) as (Hi1l & Hi1r & Hndl & Hndr & Hdisj).
    open Hr1.
    destruct (IH h1 pl l1 l' Hl Hndl Hl') as (pl' & h2 & m & Hrec & Hrl' & Helm & Hm & Hf2).
    assert (Hh2i1 : h2 i1 = Some (mkcell c1 pl pr)) by (rewrite Hf2; [exact Hc | exact Hi1l]).
    set (h3 := upd h2 i1 (mkcell c1 pl' pr)).
    assert (Hsub : forall j, In j (elements l') -> In j (elements l1)) by (intros j Hj; rewrite Helm; right; exact Hj).
    assert (Hr3 : rep h3 (Some i1) (T c1 l' i1 r1)).
    { cbn [rep]. split; [reflexivity|]. exists pl', pr. split; [unfold h3; apply upd_same|]. split.
      - apply rep_upd; [intro X; apply Hi1l; apply Hsub; exact X | exact Hrl'].
      - apply rep_upd; [exact Hi1r|]. apply (rep_ext h1); [|exact Hr]. intros j Hj. apply Hf2. intro X. exact (Hdisj j X Hj). }
    assert (Hnd3 : NoDup (elements (T c1 l' i1 r1))).
    { cbn [elements]. rewrite Helm in Hnd1. cbn [app] in Hnd1. apply nd_cons in Hnd1. apply Hnd1. }
    destruct (c_fix_refines h3 (Some i1) (T c1 l' i1 r1) t' ltac:(discriminate) Hr3 Hnd3 Hg) as (p' & h4 & Hfix & Hr4 & Hf4).
    exists p', h4, m. split.
    { rewrite (bnd_ok _ _ h1 pl' h2); [|rewrite (bnd_ok _ _ h1 pl h1); [exact Hrec | unfold ld_left, ld; rewrite Hc; reflexivity]].
      rewrite (bnd_ok _ _ h2 tt h3); [exact Hfix | unfold st_left, st; rewrite Hh2i1; reflexivity]. }
    split; [exact Hr4|].
    assert (Helt : elements o = m :: elements (T c1 l' i1 r1)).
    { rewrite <- Hel1. cbn [elements]. rewrite Helm. reflexivity. }
    assert (Hmnot : ~ In m (elements (T c1 l' i1 r1))).
    { rewrite <- Hel1 in Hnd. cbn [elements] in Hnd. rewrite Helm in Hnd. cbn [app] in Hnd. apply nd_cons in Hnd. apply Hnd. }
    split; [rewrite (el_fix _ _ _ Hg) ; exact Helt|].
    split.
    { rewrite Hf4; [|exact Hmnot]. unfold h3. rewrite upd_other; [exact Hm|].
      intros ->. apply Hmnot. cbn [elements]. apply in_or_app. right. left. reflexivity. }
    intros j Hj. fold o in Hj. rewrite Helt in Hj.
    rewrite Hf4; [|intro X; apply Hj; right; exact X]. unfold h3. rewrite upd_other.
    2:{ intros ->. apply Hj. right. cbn [elements]. apply in_or_app. right. left. reflexivity. }
    rewrite Hf2. 2:{ intro X. apply Hj. rewrite Helm in X. destruct X as [->|X]; [left; reflexivity|]. right. cbn [elements]. apply in_or_app. left. exact X. }
    apply Hf1. rewrite Helt. exact Hj.
Qed.
