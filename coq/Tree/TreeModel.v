(* Executable model of the LLRB (2-3-4 variant, #define LLRB234) algorithms of qtreetbl.c, parametric in the node
   payload A, the ordering cmp on payloads, and two payload operations:
     merge x m : node x receives key and value of the successor m (remove_obj "copy min to this"), keeps everything else
     repl  x n : node x receives the value of n (put_obj on an existing key), keeps everything else.
   Strict model: where the C code dereferences without checking (flip_color, rotations, setters) or would silently drop
   a non-empty subtree (remove_min on a node without left child, "equal and no right child" in remove_obj) the model
   returns Crash, so "never Crash" is a theorem (from the red-black invariant), not an assumption. *)
From Coq Require Import List Arith Bool.
From QV.Base Require Import Res.
Import ListNotations.

Section Tree.
Variable A : Type.
Variable cmp : A -> A -> comparison.
Variable merge : A -> A -> A.
Variable repl : A -> A -> A.

Inductive tree := E | T (red:bool) (l:tree) (x:A) (r:tree).
Definition is_red t := match t with T true _ _ _ => true | _ => false end.
Definition isE t := match t with E => true | _ => false end.
Notation "'do' x <- m ; f" := (bind m (fun x => f)) (at level 200, x pattern, m at level 100, f at level 200).
Definition flip t := match t with
 | T c (T cl ll lx lr) x (T cr rl rx rr) => Ok (T (negb c) (T (negb cl) ll lx lr) x (T (negb cr) rl rx rr))
 | _ => Crash end.
Definition rotl t := match t with
 | T c l x (T cr rl rx rr) => Ok (T c (T true l x rl) rx rr)
 | _ => Crash end.
Definition rotr t := match t with
 | T c (T cl ll lx lr) x r => Ok (T c ll lx (T true lr x r))
 | _ => Crash end.
Definition left t := match t with T _ l _ _ => l | E => E end.
Definition right t := match t with T _ _ _ r => r | E => E end.
Definition setl t l' := match t with T c _ x r => Ok (T c l' x r) | E => Crash end.
Definition setr t r' := match t with T c l x _ => Ok (T c l x r') | E => Crash end.

Definition mrl o : res tree :=
  do o <- flip o;
  if is_red (left (right o)) then
    do r' <- rotr (right o); do o <- setr o r'; do o <- rotl o; do o <- flip o;
    if is_red (right (right o)) then do r'' <- rotl (right o); setr o r'' else Ok o
  else Ok o.
Definition mrr o : res tree :=
  do o <- flip o;
  if is_red (left (left o)) then do o <- rotr o; flip o else Ok o.
Definition fix_ o : res tree :=
  do o <- (if is_red (right o) then
             do o <- (if is_red (left (right o)) then do r' <- rotr (right o); setr o r' else Ok o);
             rotl o
           else Ok o);
  if is_red (left o) && is_red (left (left o)) then rotr o else Ok o.

Fixpoint tmin t := match t with E => None | T _ E x _ => Some x | T _ l _ _ => tmin l end.

Fixpoint rmin (fuel:nat) (o:tree) : res tree :=
  match fuel with O => Fuel | S fuel =>
  match o with
  | E => Crash
  | T _ E _ E => Ok E
  | T _ E _ _ => Crash     (* C would drop (leak) the right subtree here *)
  | T _ _ _ _ =>
    do o <- (if negb (is_red (left o)) && negb (is_red (left (left o))) then mrl o else Ok o);
    do l' <- rmin fuel (left o); do o <- setl o l'; fix_ o
  end end.

Definition key t := match t with T _ _ x _ => Some x | E => None end.
Definition cmpk k t := match t with T _ _ x _ => cmp k x | E => Eq end.

Fixpoint rem (fuel:nat) (o:tree) (k:A) : res (tree*bool) :=
  match fuel with O => Fuel | S fuel =>
  match o with
  | E => Ok (E,false)
  | T _ _ x _ =>
    match cmp k x with
    | Lt =>
      do o <- (if negb (isE (left o)) && negb (is_red (left o)) && negb (is_red (left (left o))) then mrl o else Ok o);
      do lb <- rem fuel (left o) k; do o <- setl o (fst lb); do o <- fix_ o; Ok (o, snd lb)
    | _ =>
      do o <- (if is_red (left o) then rotr o else Ok o);
      if isE (right o) && match cmpk k o with Eq => true | _ => false end
      then (if isE (left o) then Ok (E,true) else Crash)   (* C would drop (leak) the left subtree here *)
      else
      do o <- (if negb (isE (right o)) && negb (is_red (right o)) && negb (is_red (left (right o))) then mrr o else Ok o);
      match cmpk k o with
      | Eq => match o, tmin (right o) with
              | T c l x r, Some m => do r' <- rmin fuel r; do o <- fix_ (T c l (merge x m) r'); Ok (o,true)
              | _, _ => Crash end
      | _ => do rb <- rem fuel (right o) k; do o <- setr o (fst rb); do o <- fix_ o; Ok (o, snd rb)
      end
    end
  end end.
Fixpoint size t := match t with E => 0 | T _ l _ r => S (size l + size r) end.
Fixpoint elements (t:tree) : list A := match t with E => [] | T _ l x r => elements l ++ x :: elements r end.
Definition put_up (o:tree) : res tree :=
  do o <- (if is_red (right o) && negb (is_red (left o)) then rotl o else Ok o);
  (if is_red (left o) && is_red (left (left o)) then rotr o else Ok o).

Fixpoint put (fuel:nat) (o:tree) (n:A) : res tree :=
  match fuel with O => Fuel | S fuel =>
  match o with
  | E => Ok (T true E n E)
  | T _ _ _ _ =>
    do o <- (if is_red (left o) && is_red (right o) then flip o else Ok o);
    match o with
    | E => Crash
    | T c l x r =>
      match cmp n x with
      | Eq => put_up (T c l (repl x n) r)
      | Lt => do l' <- put fuel l n; put_up (T c l' x r)
      | Gt => do r' <- put fuel r n; put_up (T c l x r')
      end
    end
  end end.
Definition blacken t := match t with T _ l x r => T false l x r | E => E end.
Definition tput (t:tree) (n:A) : res tree := do t' <- put (S (size t)) t n; Ok (blacken t').
Definition tremove (t:tree) (k:A) : res (tree*bool) := do p <- rem (S (size t)) t k; Ok (blacken (fst p), snd p).

(* lookups *)
Fixpoint find (t:tree) (k:A) : option A :=
  match t with E => None | T _ l x r => match cmp k x with Eq => Some x | Lt => find l k | Gt => find r k end end.
(* number of key comparisons a lookup performs *)
Fixpoint find_cost (t:tree) (k:A) : nat :=
  match t with E => 0 | T _ l x r => S (match cmp k x with Eq => 0 | Lt => find_cost l k | Gt => find_cost r k end) end.
Fixpoint tmax t := match t with E => None | T _ _ x E => Some x | T _ _ _ r => tmax r end.

(* qtreetbl_check(): four recursive checkers, return codes 1-4, 0 = fine *)
Fixpoint check_red (t:tree) : bool :=    (* true = violation *)
  match t with E => false | T c l _ r => (c && (is_red r || is_red l)) || check_red r || check_red l end.
Fixpoint check_black (t:tree) : option nat :=   (* None = violation, Some path length *)
  match t with
  | E => Some 1
  | T c l _ r => match check_black r with None => None | Some pr =>
                 match check_black l with None => None | Some pl =>
                 if Nat.eqb pr pl then Some (if c then pr else S pr) else None end end
  end.
Fixpoint check_llrb (t:tree) : bool :=
  match t with E => false | T _ l _ r => (is_red r && negb (is_red l)) || check_llrb r || check_llrb l end.
Definition check_model (t:tree) : nat :=
  if is_red t then 1 else if check_red t then 2 else
  match check_black t with None => 3 | Some _ => if check_llrb t then 4 else 0 end.
End Tree.
Arguments E {A}. Arguments T {A}.
Arguments is_red {A}.
Arguments isE {A}.
Arguments flip {A}.
Arguments rotl {A}.
Arguments rotr {A}.
Arguments left {A}.
Arguments right {A}.
Arguments setl {A}.
Arguments setr {A}.
Arguments mrl {A}.
Arguments mrr {A}.
Arguments fix_ {A}.
Arguments tmin {A}.
Arguments rmin {A}.
Arguments key {A}.
Arguments cmpk {A}.
Arguments rem {A}.
Arguments size {A}.
Arguments elements {A}.
Arguments put_up {A}.
Arguments put {A}.
Arguments blacken {A}.
Arguments tput {A}.
Arguments tremove {A}.
Arguments find {A}.
Arguments find_cost {A}.
Arguments tmax {A}.
Arguments check_red {A}.
Arguments check_black {A}.
Arguments check_llrb {A}.
Arguments check_model {A}.
