(* Traversal (qtreetbl_getnext) and nearest-key search (qtreetbl_find_nearest) of the concrete tree table:
   lemmas for properties C03 and C04.
   Part 1: the loop machine `mstep` of QTree.v.  Visiting the subtree below the cursor yields, in order, the
   nodes reachable through nodes that do not carry the current stamp (`vis`), stamps exactly them, leaves the
   parent links outside the subtree alone, comes back to the parent link of the subtree's root and needs fewer
   than 3*size iterations (port and generalisation of notes/proto_Walk.v: the prototype's `walk_all` is the
   case "nothing is stamped", where `vis u = ids u`). *)
From Coq Require Import NArith PArith List Bool Lia Arith FMapPositive Permutation.
From QV.Base Require Import Res.
From QV.Tree Require Import TreeModel TreeLlrb QTree TreeSpec QTreeProofs.
Import ListNotations.

Definition ids (t : tree node) : list positive := map nid (elements t).
Lemma ids_node c l x r : ids (T c l x r) = ids l ++ nid x :: ids r.
Proof. unfold ids. cbn [elements]. rewrite map_app. reflexivity. Qed.
Lemma ids_length t : length (ids t) = size t.
Proof. unfold ids. rewrite map_length. symmetry. apply size_elements. Qed.

Definition inb (j : positive) (l : list positive) : bool := existsb (Pos.eqb j) l.
Lemma inb_true j l : inb j l = true <-> In j l.
Proof. unfold inb. rewrite existsb_exists. split.
  - intros (x & H & E). apply Pos.eqb_eq in E. subst. exact H.
  - intros H. exists j. split; [exact H|apply Pos.eqb_refl]. Qed.
Lemma inb_false j l : inb j l = false <-> ~ In j l.
Proof. rewrite <- inb_true. destruct (inb j l); split; congruence. Qed.
Lemma inb_app j a b : inb j (a ++ b) = inb j a || inb j b.
Proof. unfold inb. apply existsb_app. Qed.

Lemma tid_of_add tm c v j : tid_of (PM.add c v tm) j = if Pos.eqb j c then v else tid_of tm j.
Proof. unfold tid_of. destruct (Pos.eqb_spec j c) as [->|Hn].
  - rewrite PM.gss. reflexivity.
  - rewrite PM.gso by exact Hn. reflexivity. Qed.

Lemma nodup_node c l x r : NoDup (ids (T c l x r)) ->
  NoDup (ids l) /\ NoDup (ids r) /\ ~ In (nid x) (ids l) /\ ~ In (nid x) (ids r) /\ (forall j, In j (ids l) -> ~ In j (ids r)).
Proof. rewrite ids_node. intros H. pose proof (NoDup_remove_1 _ _ _ H) as H1. pose proof (NoDup_remove_2 _ _ _ H) as H2.
  assert (H0 : NoDup (ids l) /\ NoDup (ids r) /\ forall j, In j (ids l) -> ~ In j (ids r)).
  { clear H H2. induction (ids l) as [|a t IH]; cbn in *; [repeat split; auto; constructor|].
    inversion H1 as [|? ? H2 H3]; subst. destruct (IH H3) as (A & B & C). repeat split; auto.
    - constructor; auto. intros Hin; apply H2; apply in_or_app; auto.
    - intros j [<-|Hj]; [intros Hin; apply H2; apply in_or_app; auto | auto]. }
  destruct H0 as (A & B & C). repeat split; auto; intros Hin; apply H2; apply in_or_app; auto. Qed.
Lemma rootid_in v j : rootid v = Some j -> In j (ids v).
Proof. destruct v as [|c l x r]; cbn [rootid]; [discriminate|]. intros H; inversion H; subst. rewrite ids_node. apply in_or_app; right; left; reflexivity. Qed.

(* ------------------------------------------------------------------------------------------------------ *)
Section Machine.
Variable t : tree node.     (* the whole tree: `lookup t` resolves node ids *)
Variable tid : N.           (* the stamp of the traversal in progress *)
Local Notation mstep := (mstep t tid).

(* run n loop iterations, collecting the nodes handed to the caller; successive getnext calls simply continue
   this machine, because the cursor handed back is the node just yielded *)
Fixpoint runm (n : nat) (m : mst) : list positive * mst :=
  match n with
  | O => ([], m)
  | S n' => match mstep m with
            | (Move, m') => runm n' m'
            | (Yield i, m') => let (ys, m'') := runm n' m' in (i :: ys, m'')
            | (Done, m') => ([], m')
            | (Bad, m') => ([], m')
            end
  end.

Lemma mstep_done m m' : mstep m = (Done, m') -> m' = m /\ forall k, runm k m = ([], m).
Proof. intros H. assert (H0 : m' = m /\ mstep m = (Done, m)).
  { unfold QTree.mstep in *. destruct (cur m); [|inversion H; auto]. destruct (lookup t p) as [[[x lo] ro]|]; [|discriminate].
    destruct (unst tid m lo); [discriminate|]. destruct (negb (tid_of (mtids m) p =? tid)%N); [discriminate|].
    destruct (unst tid m ro); discriminate. }
  destruct H0 as [-> H1]. split; auto. intros [|k]; cbn [runm]; [reflexivity|]. rewrite H1. reflexivity. Qed.
Lemma mstep_bad m m' : mstep m = (Bad, m') -> m' = m /\ forall k, runm k m = ([], m).
Proof. intros H. assert (H0 : m' = m /\ mstep m = (Bad, m)).
  { unfold QTree.mstep in *. destruct (cur m); [|discriminate]. destruct (lookup t p) as [[[x lo] ro]|]; [|inversion H; auto].
    destruct (unst tid m lo); [discriminate|]. destruct (negb (tid_of (mtids m) p =? tid)%N); [discriminate|].
    destruct (unst tid m ro); discriminate. }
  destruct H0 as [-> H1]. split; auto. intros [|k]; cbn [runm]; [reflexivity|]. rewrite H1. reflexivity. Qed.

Lemma runm_app n : forall k m, runm (n + k) m =
  let (ys, m') := runm n m in let (zs, m'') := runm k m' in (ys ++ zs, m'').
Proof. induction n as [|n IH]; intros k m; cbn [plus runm].
  - destruct (runm k m); reflexivity.
  - destruct (mstep m) as [[| i | |] m1] eqn:E.
    + apply IH.
    + rewrite IH. destruct (runm n m1) as [ys m']. destruct (runm k m') as [zs m'']. reflexivity.
    + destruct (mstep_done _ _ E) as [-> Hd]. rewrite Hd. reflexivity.
    + destruct (mstep_bad _ _ E) as [-> Hd]. rewrite Hd. reflexivity.
Qed.
Lemma runm_seq n k m ys m1 zs m2 : runm n m = (ys, m1) -> runm k m1 = (zs, m2) -> runm (n + k) m = (ys ++ zs, m2).
Proof. intros H1 H2. rewrite runm_app, H1, H2. reflexivity. Qed.

(* `lookup t` agrees with the shape u on every node of u *)
Fixpoint wfv (u : tree node) : Prop :=
  match u with E => True | T _ l x r => lookup t (nid x) = Some (x, rootid l, rootid r) /\ wfv l /\ wfv r end.

(* stamped with the current epoch / root of a subtree present and not stamped *)
Definition st (tm : PM.t N) (j : positive) : bool := (tid_of tm j =? tid)%N.
Definition ust (tm : PM.t N) (u : tree node) : bool := match u with E => false | T _ _ x _ => negb (st tm (nid x)) end.
Lemma unst_ust m u : unst tid m (rootid u) = ust (mtids m) u.
Proof. destruct u; reflexivity. Qed.

(* the nodes a visit of subtree u hands out, in this order, when the stamps are tm *)
Fixpoint vis (tm : PM.t N) (u : tree node) : list positive :=
  match u with
  | E => []
  | T _ l x r => (if ust tm l then vis tm l else []) ++ (if st tm (nid x) then [] else [nid x]) ++ (if ust tm r then vis tm r else [])
  end.
Definition visc (tm : PM.t N) (u : tree node) : list positive := if ust tm u then vis tm u else [].
Lemma vis_node tm c l x r : vis tm (T c l x r) = visc tm l ++ (if st tm (nid x) then [] else [nid x]) ++ visc tm r.
Proof. reflexivity. Qed.

Lemma vis_in tm u j : In j (vis tm u) -> In j (ids u) /\ st tm j = false.
Proof. induction u as [|c l IHl x r IHr]; [intros []|]. rewrite vis_node, ids_node. unfold visc. intros H.
  apply in_app_or in H as [H|H]; [|apply in_app_or in H as [H|H]].
  - destruct (ust tm l); [|destruct H]. destruct (IHl H). split; auto. apply in_or_app; auto.
  - destruct (st tm (nid x)) eqn:S; [destruct H|]. destruct H as [<-|[]]. split; auto. apply in_or_app; right; left; auto.
  - destruct (ust tm r); [|destruct H]. destruct (IHr H). split; auto. apply in_or_app; right; right; auto. Qed.
Lemma visc_in tm u j : In j (visc tm u) -> In j (ids u) /\ st tm j = false.
Proof. unfold visc. destruct (ust tm u); [apply vis_in|intros []]. Qed.
Lemma vis_root tm c l x r : st tm (nid x) = false -> In (nid x) (vis tm (T c l x r)).
Proof. intros H. rewrite vis_node, H. apply in_or_app; right. left. reflexivity. Qed.
Lemma vis_ext tm tm' u : (forall j, In j (ids u) -> tid_of tm j = tid_of tm' j) -> vis tm u = vis tm' u.
Proof. induction u as [|c l IHl x r IHr]; [reflexivity|]. rewrite ids_node. intros H. cbn [vis].
  assert (Hl : forall j, In j (ids l) -> tid_of tm j = tid_of tm' j) by (intros; apply H; apply in_or_app; auto).
  assert (Hr : forall j, In j (ids r) -> tid_of tm j = tid_of tm' j) by (intros; apply H; apply in_or_app; right; right; auto).
  assert (Hx : st tm (nid x) = st tm' (nid x)) by (unfold st; rewrite H; [reflexivity|apply in_or_app; right; left; auto]).
  assert (Ul : ust tm l = ust tm' l). { destruct l as [|cl ll lx lr]; [reflexivity|]. cbn [ust]. unfold st. rewrite Hl; [reflexivity|]. apply rootid_in. reflexivity. }
  assert (Ur : ust tm r = ust tm' r). { destruct r as [|cr rl rx rr]; [reflexivity|]. cbn [ust]. unfold st. rewrite Hr; [reflexivity|]. apply rootid_in. reflexivity. }
  rewrite Ul, Ur, Hx, (IHl Hl), (IHr Hr). reflexivity. Qed.
Lemma ust_ext tm tm' u : (forall j, In j (ids u) -> tid_of tm j = tid_of tm' j) -> ust tm u = ust tm' u.
Proof. intros H. destruct u as [|c l x r]; [reflexivity|]. cbn [ust]. unfold st. rewrite H; [reflexivity|]. apply rootid_in. reflexivity. Qed.
Lemma visc_ext tm tm' u : (forall j, In j (ids u) -> tid_of tm j = tid_of tm' j) -> visc tm u = visc tm' u.
Proof. intros H. unfold visc. rewrite (ust_ext _ _ _ H), (vis_ext _ _ _ H). reflexivity. Qed.
Lemma vis_all tm u : (forall j, In j (ids u) -> st tm j = false) -> vis tm u = ids u.
Proof. induction u as [|c l IHl x r IHr]; [reflexivity|]. rewrite ids_node. intros H. cbn [vis].
  assert (Hl : forall j, In j (ids l) -> st tm j = false) by (intros; apply H; apply in_or_app; auto).
  assert (Hr : forall j, In j (ids r) -> st tm j = false) by (intros; apply H; apply in_or_app; right; right; auto).
  rewrite (H (nid x)) by (apply in_or_app; right; left; auto). rewrite (IHl Hl), (IHr Hr).
  assert (Ul : (if ust tm l then ids l else []) = ids l).
  { destruct l as [|cl ll lx lr]; [reflexivity|]. cbn [ust]. rewrite Hl; [reflexivity|]. apply rootid_in. reflexivity. }
  assert (Ur : (if ust tm r then ids r else []) = ids r).
  { destruct r as [|cr rl rx rr]; [reflexivity|]. cbn [ust]. rewrite Hr; [reflexivity|]. apply rootid_in. reflexivity. }
  rewrite Ul, Ur. reflexivity. Qed.
Lemma vis_length tm u : length (vis tm u) <= size u.
Proof. induction u as [|c l IHl x r IHr]; [apply Nat.le_refl|]. cbn [vis size]. rewrite !app_length.
  destruct (ust tm l), (st tm (nid x)), (ust tm r); cbn [length]; lia. Qed.
Lemma visc_length tm u : length (visc tm u) <= size u.
Proof. unfold visc. destruct (ust tm u); [apply vis_length|cbn; lia]. Qed.

(* the stamps after a piece of the run: exactly the nodes ys received the current stamp *)
Definition stamps (m m' : mst) (ys : list positive) : Prop :=
  forall j, tid_of (mtids m') j = if inb j ys then tid else tid_of (mtids m) j.
Lemma stamps_nil m : stamps m m [].
Proof. intros j. reflexivity. Qed.
Lemma stamps_app m m1 m2 a b : stamps m m1 a -> stamps m1 m2 b -> stamps m m2 (a ++ b).
Proof. intros H1 H2 j. rewrite H2, H1, inb_app. destruct (inb j a), (inb j b); reflexivity. Qed.
Lemma stamps_out m m' ys j : stamps m m' ys -> ~ In j ys -> tid_of (mtids m') j = tid_of (mtids m) j.
Proof. intros H Hj. rewrite H. apply inb_false in Hj. rewrite Hj. reflexivity. Qed.
Lemma stamps_in m m' ys j : stamps m m' ys -> In j ys -> st (mtids m') j = true.
Proof. intros H Hj. unfold st. rewrite H. apply inb_true in Hj. rewrite Hj. apply N.eqb_refl. Qed.
Lemma stamps_mono m m' ys j : stamps m m' ys -> st (mtids m) j = true -> st (mtids m') j = true.
Proof. unfold st. intros H Hj. rewrite H. destruct (inb j ys); [apply N.eqb_refl|exact Hj]. Qed.
Lemma stamps_ust m m' ys u : stamps m m' ys -> ust (mtids m) u = false -> ust (mtids m') u = false.
Proof. destruct u as [|c l x r]; [reflexivity|]. cbn [ust]. intros H Hu. apply negb_false_iff in Hu. apply negb_false_iff. eapply stamps_mono; eauto. Qed.

(* visiting the subtree u from its root i *)
Definition walk_spec (u : tree node) : Prop :=
  forall m i, rootid u = Some i -> wfv u -> NoDup (ids u) -> cur m = Some i ->
    exists n m', runm n m = (vis (mtids m) u, m') /\ cur m' = PM.find i (mnexts m) /\
      stamps m m' (vis (mtids m) u) /\
      (forall j, j = i \/ ~ In j (ids u) -> PM.find j (mnexts m') = PM.find j (mnexts m)) /\
      n + 1 <= 3 * size u.

(* descent into an unstamped child v of node c, and back at c *)
Lemma via_child v c m :
  (v <> E -> walk_spec v) -> wfv v -> NoDup (ids v) -> ust (mtids m) v = true ->
  exists n m', runm n (go_child m c (rootid v)) = (vis (mtids m) v, m') /\ cur m' = Some c /\
    stamps m m' (vis (mtids m) v) /\
    (forall j, ~ In j (ids v) -> PM.find j (mnexts m') = PM.find j (mnexts m)) /\
    ust (mtids m') v = false /\ n + 1 <= 3 * size v.
Proof.
  intros IH Hwf Hnd Hu. destruct v as [|cv vl vx vr]; [discriminate|]. cbn [rootid go_child].
  set (m1 := mkMst (Some (nid vx)) (mtids m) (PM.add (nid vx) c (mnexts m))).
  destruct (IH ltac:(discriminate) m1 (nid vx) eq_refl Hwf Hnd eq_refl) as (n & m' & Hrun & Hcur & Hst & Hnx & Hn).
  change (mtids m1) with (mtids m) in *.
  exists n, m'. split; [exact Hrun|]. split; [|split; [|split; [|split]]].
  - rewrite Hcur. cbn [mnexts m1]. apply PM.gss.
  - exact Hst.
  - intros j Hj. rewrite Hnx by (right; exact Hj). cbn [mnexts m1]. apply PM.gso. intros ->. apply Hj. apply rootid_in. reflexivity.
  - cbn [ust] in *. apply negb_true_iff in Hu. apply negb_false_iff. apply (stamps_in _ _ _ _ Hst). apply vis_root. exact Hu.
  - exact Hn.
Qed.

(* at node x: the left child, if it is there and not stamped *)
Lemma do_left c l x r m :
  (l <> E -> walk_spec l) -> wfv (T c l x r) -> NoDup (ids (T c l x r)) -> cur m = Some (nid x) ->
  exists n m', runm n m = (visc (mtids m) l, m') /\ cur m' = Some (nid x) /\ stamps m m' (visc (mtids m) l) /\
    (forall j, ~ In j (ids l) -> PM.find j (mnexts m') = PM.find j (mnexts m)) /\
    ust (mtids m') l = false /\ n <= 3 * size l.
Proof.
  intros IH (Hv & Hwl & _) Hnd Hcur. destruct (nodup_node _ _ _ _ Hnd) as (Hndl & _ & _ & _ & _).
  unfold visc. destruct (ust (mtids m) l) eqn:U.
  - destruct (via_child l (nid x) m IH Hwl Hndl U) as (n & m' & Hrun & Hc & Hst & Hnx & Hu & Hn).
    exists (S n), m'. split; [|repeat split; auto; lia].
    cbn [runm]. unfold QTree.mstep. rewrite Hcur, Hv, unst_ust, U. exact Hrun.
  - exists 0, m. repeat split; auto using stamps_nil. lia.
Qed.

(* at node x whose left child needs no visit: x itself, the right child, and up *)
Lemma do_rest c l x r m :
  (r <> E -> walk_spec r) -> wfv (T c l x r) -> NoDup (ids (T c l x r)) -> cur m = Some (nid x) ->
  ust (mtids m) l = false ->
  exists n m', runm n m = ((if st (mtids m) (nid x) then [] else [nid x]) ++ visc (mtids m) r, m') /\
    cur m' = PM.find (nid x) (mnexts m) /\
    stamps m m' ((if st (mtids m) (nid x) then [] else [nid x]) ++ visc (mtids m) r) /\
    (forall j, ~ In j (ids r) -> PM.find j (mnexts m') = PM.find j (mnexts m)) /\
    st (mtids m') (nid x) = true /\
    n <= (if ust (mtids m) r then 3 * size r else 0) + 2.
Proof.
  intros IH (Hv & _ & Hwr) Hnd Hcur Hl. destruct (nodup_node _ _ _ _ Hnd) as (_ & Hndr & _ & Hir & _).
  (* B: x itself *)
  assert (HB : exists nB mB, runm nB m = ((if st (mtids m) (nid x) then [] else [nid x]), mB) /\ cur mB = Some (nid x) /\
             mnexts mB = mnexts m /\ stamps m mB (if st (mtids m) (nid x) then [] else [nid x]) /\
             st (mtids mB) (nid x) = true /\ nB <= 1).
  { destruct (st (mtids m) (nid x)) eqn:S.
    - exists 0, m. repeat split; auto using stamps_nil.
    - exists 1, (mkMst (Some (nid x)) (PM.add (nid x) tid (mtids m)) (mnexts m)). split; [|split; [|split; [|split; [|split]]]]; auto.
      + cbn [runm]. unfold QTree.mstep. rewrite Hcur, Hv, unst_ust, Hl. unfold st in S. rewrite S. reflexivity.
      + intros j. cbn [mtids]. rewrite tid_of_add. unfold inb. cbn [existsb]. rewrite orb_false_r. reflexivity.
      + unfold st. cbn [mtids]. rewrite tid_of_add, Pos.eqb_refl. apply N.eqb_refl. }
  destruct HB as (nB & mB & HrB & HcB & HnB & HsB & HxB & HnB1).
  assert (HlB : ust (mtids mB) l = false) by (eapply stamps_ust; eauto).
  assert (Hsame : forall j, In j (ids r) -> tid_of (mtids mB) j = tid_of (mtids m) j).
  { intros j Hj. apply (stamps_out _ _ _ _ HsB). destruct (st (mtids m) (nid x)); [intros []|]. intros [<-|[]]. contradiction. }
  (* C: the right child *)
  assert (HC : exists nC mC, runm nC mB = (visc (mtids mB) r, mC) /\ cur mC = Some (nid x) /\ stamps mB mC (visc (mtids mB) r) /\
             (forall j, ~ In j (ids r) -> PM.find j (mnexts mC) = PM.find j (mnexts mB)) /\
             ust (mtids mC) r = false /\ nC <= (if ust (mtids mB) r then 3 * size r else 0)).
  { unfold visc. destruct (ust (mtids mB) r) eqn:U.
    - destruct (via_child r (nid x) mB IH Hwr Hndr U) as (n & m' & Hrun & Hc & Hst & Hnx & Hu & Hn).
      exists (S n), m'. split; [|repeat split; auto; lia].
      cbn [runm]. unfold QTree.mstep. rewrite HcB, Hv, !unst_ust, HlB, U. unfold st in HxB. rewrite HxB. exact Hrun.
    - exists 0, mB. repeat split; auto using stamps_nil. }
  destruct HC as (nC & mC & HrC & HcC & HsC & HnC & HuC & HnC1).
  (* D: up *)
  assert (HD : QTree.mstep t tid mC = (Move, mkMst (PM.find (nid x) (mnexts mC)) (mtids mC) (mnexts mC))).
  { unfold QTree.mstep. rewrite HcC, Hv, !unst_ust, HuC. rewrite (stamps_ust _ _ _ _ HsC HlB).
    pose proof (stamps_mono _ _ _ _ HsC HxB) as Hx. unfold st in Hx. rewrite Hx. reflexivity. }
  rewrite <- (visc_ext _ _ _ Hsame). rewrite <- (ust_ext _ _ _ Hsame).
  exists (nB + (nC + 1)), (mkMst (PM.find (nid x) (mnexts mC)) (mtids mC) (mnexts mC)).
  split; [|split; [|split; [|split; [|split]]]].
  - eapply runm_seq; [exact HrB|]. rewrite <- (app_nil_r (visc (mtids mB) r)). eapply runm_seq; [exact HrC|].
    cbn [runm]. rewrite HD. reflexivity.
  - cbn [cur]. rewrite HnC by exact Hir. rewrite HnB. reflexivity.
  - intros j. cbn [mtids]. revert j. apply (stamps_app _ _ _ _ _ HsB HsC).
  - intros j Hj. cbn [mnexts]. rewrite HnC by exact Hj. rewrite HnB. reflexivity.
  - cbn [mtids]. eapply stamps_mono; eauto.
  - lia.
Qed.

Theorem walk_all u : u <> E -> walk_spec u.
Proof.
  induction u as [|c l IHl x r IHr]; [congruence|]. intros _ m i Hrid Hwf Hnd Hcur.
  cbn [rootid] in Hrid. inversion Hrid; subst i; clear Hrid.
  destruct (nodup_node _ _ _ _ Hnd) as (Hndl & Hndr & Hil & Hir & Hdis).
  destruct (do_left c l x r m IHl Hwf Hnd Hcur) as (nA & mA & HrA & HcA & HsA & HnA & HuA & HnA1).
  destruct (do_rest c l x r mA IHr Hwf Hnd HcA HuA) as (nR & mR & HrR & HcR & HsR & HnR & HxR & HnR1).
  assert (Hx : st (mtids mA) (nid x) = st (mtids m) (nid x)).
  { unfold st. rewrite (stamps_out _ _ _ _ HsA); [reflexivity|]. intros Hin. apply visc_in in Hin as [Hin _]. contradiction. }
  assert (Hr : visc (mtids mA) r = visc (mtids m) r).
  { apply visc_ext. intros j Hj. apply (stamps_out _ _ _ _ HsA). intros Hin. apply visc_in in Hin as [Hin _]. exact (Hdis _ Hin Hj). }
  rewrite Hx, Hr in HrR, HsR. rewrite vis_node.
  exists (nA + nR), mR. split; [|split; [|split; [|split]]].
  - eapply runm_seq; eauto.
  - rewrite HcR. apply HnA. exact Hil.
  - eapply stamps_app; eauto.
  - intros j Hj.
    assert (~ In j (ids r)). { destruct Hj as [->|Hj]; [exact Hir|]. intros Hin; apply Hj; rewrite ids_node; apply in_or_app; right; right; exact Hin. }
    assert (~ In j (ids l)). { destruct Hj as [->|Hj]; [exact Hil|]. intros Hin; apply Hj; rewrite ids_node; apply in_or_app; left; exact Hin. }
    rewrite HnR by assumption. apply HnA; assumption.
  - cbn [size]. destruct (ust (mtids mA) r); lia.
Qed.

(* the unconditional forms of the three pieces *)
Lemma walk_sub u m i : rootid u = Some i -> wfv u -> NoDup (ids u) -> cur m = Some i ->
  exists n m', runm n m = (vis (mtids m) u, m') /\ cur m' = PM.find i (mnexts m) /\
    stamps m m' (vis (mtids m) u) /\
    (forall j, j = i \/ ~ In j (ids u) -> PM.find j (mnexts m') = PM.find j (mnexts m)) /\
    n + 1 <= 3 * size u.
Proof. intros H. apply (walk_all u); [destruct u; [discriminate|congruence]|exact H]. Qed.
Definition left_part c l x r m := do_left c l x r m (walk_all l).
Definition rest_part c l x r m := do_rest c l x r m (walk_all r).
End Machine.
